module verif

go 1.23.12

require (
	github.com/rminnich/go9p v0.0.0
	pgregory.net/rapid v1.3.0
)

replace github.com/rminnich/go9p => /repo
