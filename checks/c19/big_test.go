// C19, sub-test "bigwrites": one connection carries many goroutines, each
// writing large blocks (close to msize-IOHDRSZ) to a file / fid of its own, so
// that the requests outstanding on the connection add up to several times the
// server's receive buffer (8 x msize). The race detector watches; what the
// server made of every block is compared with what its writer sent.
package c19

import (
	"bytes"
	"encoding/json"
	"fmt"
	"os"
	"path/filepath"
	"sync"
	"sync/atomic"
	"testing"

	"github.com/rminnich/go9p"
	"pgregory.net/rapid"
	"verif/internal/hx"
	"verif/internal/script"
	"verif/internal/ufsrv"
	"verif/internal/xport"
)

// Big describes a big-writes workload (targets "ufsbig" and "scriptbig").
type Big struct {
	Writers int `json:"writers"` // goroutines per connection, each with its own file / fid
	Rounds  int `json:"rounds"`  // blocks written by every goroutine, one after the other
	Blk     int `json:"blk"`     // block size, at most msize-IOHDRSZ
	Small   int `json:"small"`   // small requests (Tstat of the own fid) after every block
	// scriptbig: "dwell" = every operation of the implementation takes DelayUS;
	// "wave" = the implementation keeps every Twrite of a round until all the
	// Writers' Twrites of that round have reached it, then looks at its request
	// again and answers
	Mode    string `json:"mode,omitempty"`
	DelayUS int    `json:"delayus,omitempty"`
}

const bigMsize = 8192
const bigMaxBlk = bigMsize - go9p.IOHDRSZ

// inflight tracks the bytes of the Twrites a connection's writers are waiting
// for at the same time.
type inflight struct{ cur, max int64 }

func (i *inflight) add(n int) {
	c := atomic.AddInt64(&i.cur, int64(n))
	for {
		m := atomic.LoadInt64(&i.max)
		if c <= m || atomic.CompareAndSwapInt64(&i.max, m, c) {
			return
		}
	}
}
func (i *inflight) sub(n int) { atomic.AddInt64(&i.cur, -int64(n)) }

// bigBase is the material of writer w of connection ci: its block of round r
// is base[r : r+blk] (so every round's block differs from its neighbours and
// from every other writer's).
func bigBase(c *Case, ci, w int) []byte {
	return script.PRF(fmt.Sprintf("c19big/%d/%d/%d", c.Perturb, ci, w), c.Big.Blk+c.Big.Rounds)
}

// describeDiff says where got departs from want.
func describeDiff(got, want []byte, blk int) string {
	n := 0
	first := -1
	for i := 0; i < len(got) || i < len(want); i++ {
		if i >= len(got) || i >= len(want) || got[i] != want[i] {
			if first < 0 {
				first = i
			}
			n++
		}
	}
	return fmt.Sprintf("%d bytes (want %d), %d differ, the first at offset %d (block %d, byte %d of it)", len(got), len(want), n, first, first/blk, first%blk)
}

var bigInflightSeen int64

func bigRecord(c *Case, fl []*inflight) {
	var m int64
	for _, i := range fl {
		if x := atomic.LoadInt64(&i.max); x > m {
			m = x
		}
	}
	if m > bigInflightSeen {
		bigInflightSeen = m // (cases run one after the other)
	}
	hx.Extra("max_big_inflight_bytes", bigInflightSeen)
	if m > 8*bigMsize {
		// the rule of this sub-test: the Twrites outstanding on ONE connection add
		// up to more than the server's receive buffer
		j, _ := json.Marshal(c)
		hx.NonTrivial(j)
		hx.Label(fmt.Sprintf("bigwrites %s: outstanding Twrite bytes on one connection > 8 x msize", c.Target))
	} else {
		hx.Label(fmt.Sprintf("bigwrites %s: outstanding Twrite bytes on one connection <= 8 x msize", c.Target))
	}
}

// ---- Ufs: W goroutines per connection share one Clnt, every one writes its own file
func runUfsBig(c *Case) error {
	b := c.Big
	dir, err := os.MkdirTemp("", "c19big-")
	if err != nil {
		return err
	}
	defer os.RemoveAll(dir)
	for i := 0; i < c.NConn; i++ {
		if err := os.MkdirAll(filepath.Join(dir, fmt.Sprintf("conn%d", i)), 0o755); err != nil {
			return fmt.Errorf("harness: %v", err)
		}
	}
	root, err := spellRoot(dir, c.RootForm)
	if err != nil {
		return err
	}
	u := ufsrv.Start(root, c.Dotu, bigMsize)
	if c.Debug {
		u.Debuglevel = go9p.DbgLogFcalls
	}
	u.Maxpend = c.Maxpend
	clnts, err := mountAll(u, c.NConn, c.Together, "c19big")
	if err != nil {
		return err
	}
	f := &fail{}
	var wg sync.WaitGroup
	fl := make([]*inflight, c.NConn)
	for ci, clnt := range clnts {
		fl[ci] = &inflight{}
		for w := 0; w < b.Writers; w++ {
			wg.Add(1)
			go func(ci, w int, clnt *go9p.Clnt) {
				defer wg.Done()
				base := bigBase(c, ci, w)
				name := fmt.Sprintf("w%d", w)
				file, err := clnt.FCreate(name, 0o644, go9p.ORDWR)
				if err != nil {
					f.set("conn %d writer %d: create: %v", ci, w, err)
					return
				}
				defer file.Close()
				for r := 0; r < b.Rounds; r++ {
					if f.get() != nil {
						return
					}
					fl[ci].add(b.Blk)
					n, err := file.WriteAt(base[r:r+b.Blk], int64(r*b.Blk))
					fl[ci].sub(b.Blk)
					if err != nil || n != b.Blk {
						f.set("conn %d writer %d block %d: wrote %d of %d: %v", ci, w, r, n, b.Blk, err)
						return
					}
					for k := 0; k < b.Small; k++ {
						d, err := clnt.Stat(file.Fid)
						if err != nil || d.Name != name {
							f.set("conn %d writer %d after block %d: stat of its own fid: %v %v", ci, w, r, d, err)
							return
						}
					}
				}
			}(ci, w, clnt)
		}
	}
	err = wait(&wg, f, "ufs big-writes workload")
	if unfinished.Load() {
		return err // see runUfs
	}
	for _, cl := range clnts {
		cl.Unmount()
	}
	bigRecord(c, fl)
	if err != nil {
		return err
	}
	// what the files hold now
	for ci := 0; ci < c.NConn; ci++ {
		for w := 0; w < b.Writers; w++ {
			base := bigBase(c, ci, w)
			want := make([]byte, 0, b.Rounds*b.Blk)
			for r := 0; r < b.Rounds; r++ {
				want = append(want, base[r:r+b.Blk]...)
			}
			got, err := os.ReadFile(filepath.Join(dir, fmt.Sprintf("conn%d", ci), fmt.Sprintf("w%d", w)))
			if err != nil {
				return fmt.Errorf("harness: %v", err)
			}
			if !bytes.Equal(got, want) {
				return fmt.Errorf("connection %d: %d goroutines each wrote %d blocks of %d bytes to a file of their own (every Twrite answered Rwrite count=%d); the file of writer %d does not hold what its writer sent: %s",
					ci, b.Writers, b.Rounds, b.Blk, b.Blk, w, describeDiff(got, want, b.Blk))
			}
		}
	}
	return nil
}

// ---- scripted implementation: W goroutines per connection share one Clnt,
// every one writes through a fid of its own
func runScriptBig(c *Case) error {
	b := c.Big
	dbg := 0
	if c.Debug {
		dbg = go9p.DbgLogFcalls
	}
	sv := script.NewServer(script.Config{Msize: bigMsize, Dotu: c.Dotu, Maxpend: c.Maxpend, Debug: dbg, Flush: script.FlushIgnore})
	if b.Mode == "dwell" {
		sv.S.Default = script.Behav{DelayUS: b.DelayUS}
	}
	user := &script.User{N: "alice", I: 1001}
	f := &fail{}
	var wg sync.WaitGroup
	type wr struct {
		fid  *go9p.Fid
		no   uint32 // its number (the client forgets it at the clunk)
		base []byte
	}
	// the Twrite of writer w (connection ci), round r; offsets tell the
	// connections apart (the implementation identifies requests by content)
	off := func(ci, r int) uint64 { return uint64(ci+1)<<40 | uint64(r*b.Blk) }
	key := func(ci int, x *wr, r int) string { return fmt.Sprintf("Twrite/%d/%d/%d", x.no, off(ci, r), b.Blk) }
	var clnts []*go9p.Clnt
	writers := make([][]*wr, c.NConn)
	fl := make([]*inflight, c.NConn)
	for ci := 0; ci < c.NConn; ci++ {
		h, l := xport.Pair(fmt.Sprintf("c19sb-%d", ci))
		sv.Srv.NewConn(l)
		clnt, err := go9p.Connect(h, bigMsize, c.Dotu)
		if err != nil {
			return fmt.Errorf("connect: %v", err)
		}
		root, err := clnt.Attach(nil, user, fmt.Sprintf("t%d", ci))
		if err != nil {
			return fmt.Errorf("attach: %v", err)
		}
		clnt.Root = root
		clnts = append(clnts, clnt)
		fl[ci] = &inflight{}
		for w := 0; w < b.Writers; w++ {
			x := &wr{fid: clnt.FidAlloc(), base: bigBase(c, ci, w)}
			x.no = x.fid.Fid
			writers[ci] = append(writers[ci], x)
			if b.Mode == "wave" {
				for r := 0; r < b.Rounds; r++ {
					sv.S.Set(key(ci, x, r), script.Behav{Hold: true})
				}
			}
		}
	}
	for ci, clnt := range clnts {
		for w, x := range writers[ci] {
			wg.Add(1)
			go func(ci, w int, x *wr, clnt *go9p.Clnt) {
				defer wg.Done()
				if _, err := clnt.Walk(clnt.Root, x.fid, []string{fmt.Sprintf("f%d_%d", ci, w)}); err != nil {
					f.set("conn %d writer %d: walk: %v", ci, w, err)
					return
				}
				if err := clnt.Open(x.fid, go9p.ORDWR); err != nil {
					f.set("conn %d writer %d: open: %v", ci, w, err)
					return
				}
				for r := 0; r < b.Rounds; r++ {
					if f.get() != nil {
						return
					}
					fl[ci].add(b.Blk)
					n, err := clnt.Write(x.fid, x.base[r:r+b.Blk], off(ci, r))
					fl[ci].sub(b.Blk)
					if err != nil || n != b.Blk {
						f.set("conn %d writer %d block %d: wrote %d of %d: %v", ci, w, r, n, b.Blk, err)
						return
					}
					for k := 0; k < b.Small; k++ {
						if _, err := clnt.Stat(x.fid); err != nil {
							f.set("conn %d writer %d after block %d: stat of its own fid: %v", ci, w, r, err)
							return
						}
					}
				}
				if err := clnt.Clunk(x.fid); err != nil {
					f.set("conn %d writer %d: clunk: %v", ci, w, err)
				}
			}(ci, w, x, clnt)
		}
		if b.Mode == "wave" {
			// the implementation's side: a round's Twrites are answered once all of
			// them are inside it
			wg.Add(1)
			go func(ci int) {
				defer wg.Done()
				for r := 0; r < b.Rounds; r++ {
					for _, x := range writers[ci] {
						for !sv.S.WaitEntered(key(ci, x, r), deadline/60) {
							if f.get() != nil || unfinished.Load() {
								sv.S.ReleaseAll()
								return
							}
						}
					}
					for _, x := range writers[ci] {
						sv.S.Release(key(ci, x, r))
					}
				}
			}(ci)
		}
	}
	err := wait(&wg, f, "script big-writes workload")
	if unfinished.Load() {
		sv.S.ReleaseAll()
		return err // see runUfs
	}
	for _, cl := range clnts {
		cl.Unmount()
	}
	bigRecord(c, fl)
	if err != nil {
		return err
	}
	// what the implementation saw: when it was entered, and (wave) when it
	// looked again before answering
	want := map[string][]byte{}
	for ci := range writers {
		for _, x := range writers[ci] {
			for r := 0; r < b.Rounds; r++ {
				want[key(ci, x, r)] = x.base[r : r+b.Blk]
			}
		}
	}
	seen := map[string]int{}
	for _, e := range sv.S.Log() {
		if e.Op != "Write" || (e.Kind != "enter" && e.Kind != "answer") || e.Msg == nil {
			continue
		}
		wd, ok := want[e.Key]
		if !ok {
			return fmt.Errorf("the implementation was handed a Twrite nobody sent: %s (connection %s, tag %d)", e.Key, e.Conn, e.Tag)
		}
		if e.Kind == "answer" {
			seen[e.Key]++
		}
		if !bytes.Equal(e.Msg.Data, wd) {
			when := "when it was handed the request"
			if e.Kind == "answer" {
				when = "when it answered the request (it had kept it until the round's other Twrites had arrived)"
			}
			return fmt.Errorf("connection %s: %d goroutines each wrote %d blocks of %d bytes through a fid of their own; the data of %s (tag %d) as the implementation saw it %s is not what its writer sent: %s",
				e.Conn, b.Writers, b.Rounds, b.Blk, e.Key, e.Tag, when, describeDiff(e.Msg.Data, wd, b.Blk))
		}
	}
	for k := range want {
		if seen[k] != 1 {
			// (which of the keys is reported does not matter for the verdict)
			return fmt.Errorf("the Twrite %s was answered Rwrite to its writer, the implementation answered it %d times", k, seen[k])
		}
	}
	return nil
}

func TestPropBigWrites(t *testing.T) {
	hx.Check(t, "bigwrites", hx.N(6, 60), func(t *rapid.T) {
		c := &Case{Target: rapid.SampledFrom([]string{"ufsbig", "ufsbig", "scriptbig"}).Draw(t, "target"), Dotu: rapid.Bool().Draw(t, "dotu"),
			NConn: rapid.SampledFrom([]int{1, 1, 1, 2}).Draw(t, "nconn"), Debug: rapid.IntRange(0, 2).Draw(t, "debug") == 0, Perturb: rapid.Uint64().Draw(t, "perturb"),
			Procs: rapid.SampledFrom([]int{2, 4, 16}).Draw(t, "procs"), Maxpend: rapid.SampledFrom([]int{0, 8}).Draw(t, "maxpend")}
		b := &Big{Writers: rapid.IntRange(16, 64).Draw(t, "writers"), Rounds: rapid.IntRange(2, 8).Draw(t, "rounds"), Small: rapid.SampledFrom([]int{0, 0, 1, 2}).Draw(t, "small")}
		b.Blk = rapid.OneOf(rapid.Just(bigMaxBlk), rapid.IntRange(bigMaxBlk-600, bigMaxBlk), rapid.IntRange(bigMsize/2, bigMaxBlk)).Draw(t, "blk")
		if c.Target == "scriptbig" {
			b.Mode = rapid.SampledFrom([]string{"wave", "wave", "dwell"}).Draw(t, "mode")
			if b.Mode == "dwell" {
				b.DelayUS = rapid.IntRange(50, 800).Draw(t, "delayus")
			}
		} else {
			c.RootForm = rapid.SampledFrom(rootForms).Draw(t, "rootform")
			c.Together = rapid.Bool().Draw(t, "together")
		}
		c.Big = b
		if err := execute("bigwrites", c); err != nil {
			hx.Failf(t, "bigwrites", c, "%v", err)
		}
	})
}
