// C19, sub-test sessionstart: "a Tversion at session start" as RAW clients may
// send it — carrying any tag (the go9p client always uses NOTAG), lowering the
// msize and/or changing the dialect, with further requests pipelined right
// behind it in the same write and in the next one.
package c19

import (
	"encoding/json"
	"fmt"
	"os"
	"path/filepath"
	"sync"
	"sync/atomic"
	"testing"

	"github.com/rminnich/go9p"
	"pgregory.net/rapid"
	"verif/internal/hx"
	"verif/internal/rawc"
	"verif/internal/ref9p"
	"verif/internal/script"
	"verif/internal/ufsrv"
)

// Ver describes how one raw connection starts its session.
type Ver struct {
	Tag     uint16 `json:"tag"`     // tag of the Tversion (NOTAG or an ordinary one)
	Msize   uint32 `json:"msize"`   // requested msize (the servers offer 8192)
	Version string `json:"version"` // "9P2000", "9P2000.u" or a string the server does not know
	// Same / Next: Tattach requests (each on a fid of its own) pipelined behind
	// the Tversion in the same write / in the write that follows
	Same int `json:"same"`
	Next int `json:"next"`
	// Wait: the Rversion is read before the second write is made
	Wait bool `json:"wait,omitempty"`
	// Rounds of pipelined Twalk / Tstat / Tclunk on fids of their own afterwards
	Rounds int `json:"rounds"`
}

const srvMsize = 8192

// verOutcome is what the server must answer to v.
func (v *Ver) outcome(srvDotu bool) (msize uint32, version string, dotu bool) {
	msize = v.Msize
	if msize > srvMsize {
		msize = srvMsize
	}
	dotu = v.Version == "9P2000.u" && srvDotu
	version = "9P2000"
	if dotu {
		version = "9P2000.u"
	}
	return
}

// after this many abandoned sessions the rest of the sub-test is not run
// (every one costs a full deadline)
var verHangs atomic.Int32

// sessionStart runs one raw connection: Tversion (+ pipelined Tattaches), the
// next write, then rounds of requests on the attached fids.
func sessionStart(cl *rawc.C, v *Ver, srvDotu bool, uname string, nuname uint32, name func(k int) string, who string) error {
	wantMsize, wantVersion, dotu := v.outcome(srvDotu)
	// what follows the Tversion is encoded in the dialect the session will have
	cl.Dotu = dotu
	attach := func(fid uint32, tag uint16) []byte {
		return ref9p.Encode(&ref9p.Msg{Type: ref9p.Tattach, Tag: tag, Fid: fid, Afid: ref9p.NOFID, Uname: uname, Aname: "", Nuname: nuname}, dotu)
	}
	first := ref9p.Encode(&ref9p.Msg{Type: ref9p.Tversion, Tag: v.Tag, Msize: v.Msize, Version: v.Version}, false)
	want := map[uint16]uint32{} // tag -> fid being attached
	var fids []uint32
	for i := 0; i < v.Same; i++ {
		fid, tag := uint32(10+i), uint16(0x100+i)
		first = append(first, attach(fid, tag)...)
		want[tag] = fid
	}
	var second []byte
	for i := 0; i < v.Next; i++ {
		fid, tag := uint32(100+i), uint16(0x200+i)
		second = append(second, attach(fid, tag)...)
		want[tag] = fid
	}
	if err := cl.SendRaw(first); err != nil {
		return fmt.Errorf("%s: write: %v", who, err)
	}
	gotVersion := false
	recv := func() error {
		r, raw, err := cl.Recv()
		if err != nil {
			if err == rawc.ErrTimeout {
				return hangErr(fmt.Sprintf("%s: no reply at session start (Rversion seen: %v, Rattach still expected: %d)", who, gotVersion, len(want)))
			}
			return fmt.Errorf("%s: session start: %v", who, err)
		}
		switch {
		case r.Type == ref9p.Rversion && !gotVersion:
			gotVersion = true
			if r.Tag != v.Tag || r.Msize != wantMsize || r.Version != wantVersion {
				return fmt.Errorf("%s: Tversion tag %d msize %d %q answered with Rversion tag %d msize %d %q (expected msize %d %q)",
					who, v.Tag, v.Msize, v.Version, r.Tag, r.Msize, r.Version, wantMsize, wantVersion)
			}
		case r.Type == ref9p.Rattach:
			fid, ok := want[r.Tag]
			if !ok {
				return fmt.Errorf("%s: Rattach with tag %d, which no outstanding Tattach carries", who, r.Tag)
			}
			delete(want, r.Tag)
			fids = append(fids, fid)
		default:
			return fmt.Errorf("%s: unexpected reply at session start: %s tag %d %q (%x)", who, ref9p.TypeName(r.Type), r.Tag, r.Ename, raw)
		}
		return nil
	}
	if v.Wait {
		for !gotVersion {
			if err := recv(); err != nil {
				return err
			}
		}
	}
	if len(second) > 0 {
		if err := cl.SendRaw(second); err != nil {
			return fmt.Errorf("%s: second write: %v", who, err)
		}
	}
	for !gotVersion || len(want) > 0 {
		if err := recv(); err != nil {
			return err
		}
	}
	// the session goes on: every attached fid is walked to a fid of the
	// request's own, that one is stat'ed and clunked; one write per step
	next := uint32(1000)
	for round := 0; round < v.Rounds && len(fids) > 0; round++ {
		nf := map[uint32]uint32{}
		for _, step := range []uint8{ref9p.Twalk, ref9p.Tstat, ref9p.Tclunk} {
			var stream []byte
			out := map[uint16]bool{}
			for i, f := range fids {
				tag := uint16(0x300 + i)
				m := &ref9p.Msg{Type: step, Tag: tag}
				switch step {
				case ref9p.Twalk:
					nf[f] = next
					next++
					m.Fid, m.Newfid, m.Wname = f, nf[f], []string{name(round*31 + i)}
				default:
					m.Fid = nf[f]
				}
				stream = append(stream, ref9p.Encode(m, dotu)...)
				out[tag] = true
			}
			if err := cl.SendRaw(stream); err != nil {
				return fmt.Errorf("%s: write: %v", who, err)
			}
			for len(out) > 0 {
				r, raw, err := cl.Recv()
				if err != nil {
					if err == rawc.ErrTimeout {
						return hangErr(fmt.Sprintf("%s: round %d: %d %s unanswered", who, round, len(out), ref9p.TypeName(step)))
					}
					return fmt.Errorf("%s: round %d %s: %v", who, round, ref9p.TypeName(step), err)
				}
				if !out[r.Tag] || r.Type != step+1 {
					return fmt.Errorf("%s: round %d: %s answered with %s tag %d %q (%x)", who, round, ref9p.TypeName(step), ref9p.TypeName(r.Type), r.Tag, r.Ename, raw)
				}
				if uint32(len(raw)) > wantMsize {
					return fmt.Errorf("%s: round %d: a reply of %d bytes on a session whose msize is %d", who, round, len(raw), wantMsize)
				}
				delete(out, r.Tag)
			}
		}
	}
	return nil
}

func runVer(c *Case) error {
	if len(c.Vers) < c.NConn {
		return fmt.Errorf("harness: session-start case without a description per connection")
	}
	dbg := 0
	if c.Debug {
		dbg = go9p.DbgLogFcalls
	}
	var dial func(name string) *rawc.C
	uname, nuname := "alice", uint32(1001)
	name := func(k int) string { return fmt.Sprintf("f%d", k) }
	switch c.Target {
	case "scriptver":
		sv := script.NewServer(script.Config{Msize: srvMsize, Dotu: c.Dotu, Maxpend: c.Maxpend, Debug: dbg, Flush: script.FlushIgnore})
		dial = func(n string) *rawc.C { return rawc.New(sv.Dial(n)) }
	case "ufsver":
		dir, err := os.MkdirTemp("", "c19v-")
		if err != nil {
			return err
		}
		defer os.RemoveAll(dir)
		for k := 0; k < 8; k++ {
			if err := os.WriteFile(filepath.Join(dir, fmt.Sprintf("own%d", k)), []byte("x"), 0o644); err != nil {
				return fmt.Errorf("harness: %v", err)
			}
		}
		u := ufsrv.Start(dir, c.Dotu, srvMsize)
		u.Debuglevel = dbg
		u.Maxpend = c.Maxpend
		dial = func(n string) *rawc.C { return ufsrv.Raw(u, n) }
		uname, nuname = "root", 0
		name = func(k int) string { return fmt.Sprintf("own%d", k%8) }
	default:
		return fmt.Errorf("harness: target %q", c.Target)
	}
	// every connection is accepted first, then all start their sessions at the
	// same moment
	cls := make([]*rawc.C, c.NConn)
	for ci := range cls {
		cls[ci] = dial(fmt.Sprintf("c19v-%d", ci))
		cls[ci].Timeout = deadline
	}
	errs := make([]error, c.NConn)
	start := make(chan struct{})
	var wg sync.WaitGroup
	for ci := range cls {
		wg.Add(1)
		go func(ci int) {
			defer wg.Done()
			defer cls[ci].Close()
			<-start
			errs[ci] = sessionStart(cls[ci], &c.Vers[ci], c.Dotu, uname, nuname, name, fmt.Sprintf("connection %d", ci))
		}(ci)
	}
	close(start)
	wg.Wait() // (every wait inside is bounded by the clients' Timeout)
	var hang error
	for _, err := range errs {
		if _, ok := err.(hangErr); ok {
			hang = err
		} else if err != nil {
			return err
		}
	}
	if hang != nil {
		verHangs.Add(1)
		return hang
	}
	changed := false
	for ci := 0; ci < c.NConn; ci++ {
		v := &c.Vers[ci]
		m, _, d := v.outcome(c.Dotu)
		changed = changed || m < srvMsize || d != c.Dotu
		hx.Label(fmt.Sprintf("sessionstart tversion tag=%s msize=%s dialect-changed=%v", tagClass(v.Tag), msizeClass(v.Msize), d != c.Dotu))
		hx.Label(fmt.Sprintf("sessionstart pipelined behind the tversion: same-write=%v next-write=%v (rversion awaited first=%v)", v.Same > 0, v.Next > 0, v.Wait && v.Next > 0))
	}
	if changed {
		// non-trivial: every session start of the case was answered in full and at
		// least one Tversion changed what the receive loop reads (msize / dialect)
		b, _ := json.Marshal(c)
		hx.NonTrivial(b)
	}
	return nil
}

func tagClass(t uint16) string {
	switch t {
	case ref9p.NOTAG:
		return "NOTAG"
	case 0:
		return "0"
	}
	return "ordinary"
}

func msizeClass(m uint32) string {
	switch {
	case m < srvMsize:
		return "lower"
	case m == srvMsize:
		return "same"
	}
	return "higher"
}

var verTags = []uint16{ref9p.NOTAG, 0, 1, 7, 0xFFFE}
var verMsizes = []uint32{256, 300, 1024, 4096, 8191, 8192, 8192, 8193, 65536}
var verVersions = []string{"9P2000", "9P2000", "9P2000.u", "9P2000.u", "9P2000.L"}

func drawVer(t *rapid.T, label string) Ver {
	return Ver{Tag: rapid.SampledFrom(verTags).Draw(t, label+"tag"), Msize: rapid.SampledFrom(verMsizes).Draw(t, label+"msize"),
		Version: rapid.SampledFrom(verVersions).Draw(t, label+"version"), Same: rapid.IntRange(0, 6).Draw(t, label+"same"),
		Next: rapid.IntRange(0, 6).Draw(t, label+"next"), Wait: rapid.Bool().Draw(t, label+"wait"), Rounds: rapid.IntRange(0, 2).Draw(t, label+"rounds")}
}

func TestPropSessionStart(t *testing.T) {
	hx.Check(t, "sessionstart", hx.N(60, 400), func(t *rapid.T) {
		if verHangs.Load() >= 2 {
			hx.Inconclusive("sessionstart: not run after two abandoned session starts")
			return
		}
		c := &Case{Target: rapid.SampledFrom([]string{"scriptver", "ufsver"}).Draw(t, "target"), Dotu: rapid.Bool().Draw(t, "dotu"),
			NConn: rapid.IntRange(1, 3).Draw(t, "nconn"), Debug: rapid.IntRange(0, 2).Draw(t, "debug") == 0, Perturb: rapid.Uint64().Draw(t, "perturb"),
			Procs: rapid.SampledFrom([]int{2, 4, 16}).Draw(t, "procs"), Maxpend: rapid.SampledFrom([]int{0, 8}).Draw(t, "maxpend")}
		for ci := 0; ci < c.NConn; ci++ {
			c.Vers = append(c.Vers, drawVer(t, fmt.Sprintf("conn%d.", ci)))
		}
		if err := execute("sessionstart", c); err != nil {
			hx.Failf(t, "sessionstart", c, "%v", err)
		}
	})
}
