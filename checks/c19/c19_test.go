// C19 — no data races when concurrent requests operate on different fids.
// Built with -race; the driver collects the race detector's reports.
package c19

import (
	"bytes"
	"encoding/json"
	"fmt"
	"os"
	"path/filepath"
	"runtime"
	"strings"
	"sync"
	"sync/atomic"
	"testing"
	"time"

	"github.com/rminnich/go9p"
	"pgregory.net/rapid"
	"verif/internal/hx"
	"verif/internal/rawc"
	"verif/internal/ref9p"
	"verif/internal/sched"
	"verif/internal/script"
	"verif/internal/ufsrv"
	"verif/internal/xport"
)

func TestMain(m *testing.M) { hx.Main(m, "C19") }

type Case struct {
	Target  string     `json:"target"` // "ufs", "script", "scriptraw"
	Dotu    bool       `json:"dotu"`
	NConn   int        `json:"nconn"`
	G       int        `json:"g"`       // client goroutines per connection
	Ops     [][]string `json:"ops"`     // per goroutine (shared by all connections): op kinds
	Flush   bool       `json:"flush"`   // scriptraw: interleave Tflush of own outstanding requests
	Debug   bool       `json:"debug"`   // DbgLogFcalls (Logger path)
	Churn   int        `json:"churn"`   // extra connections opened and dropped (quiescent) while the others are busy
	Perturb uint64     `json:"perturb"` // seed of the schedule perturbation at the hook points
	Procs   int        `json:"procs"`
	Maxpend int        `json:"maxpend"`
	// Pre: deep-path client calls (paths of more than 16 elements, several
	// Twalks each) made on every shared client by one goroutine BEFORE the
	// concurrent phase (ufs and script targets)
	Pre []string `json:"pre,omitempty"`
	// RootForm: spelling of Ufs.Root ("" clean, "slash" trailing slash, "dot"
	// a/./b, "dslash" doubled slashes, "dotdot" a/x/../b)
	RootForm string `json:"rootform,omitempty"`
	// Together: the NConn connections of the ufs target mount (Tversion,
	// Tattach) at the same moment instead of one after the other
	Together bool `json:"together,omitempty"`
	// Storm: before the workload, this many fresh Ufs servers (same root
	// spelling) are each attached to by NConn connections at the same moment;
	// every connection stats a file of its own and is dropped
	Storm int `json:"storm,omitempty"`
	// Big: the big-writes workload of targets "ufsbig" / "scriptbig" (big_test.go)
	Big *Big `json:"big,omitempty"`
	// Vers: how each raw connection starts its session (version_test.go):
	// targets "scriptver" / "ufsver"; for "scriptraw" only tag and msize of the
	// Tversion are taken from it (absent: NOTAG, the server's msize)
	Vers []Ver `json:"vers,omitempty"`
}

const deadline = 30 * time.Second

type hangErr string

func (h hangErr) Error() string { return string(h) }

// overlap tracks how many requests are between process.enter and process.done.
type overlap struct {
	cur, max int64
	n        uint64
}

func perturber(seed uint64, ov *overlap) func(who, point string) {
	return func(who, point string) {
		switch point {
		case "process.enter":
			c := atomic.AddInt64(&ov.cur, 1)
			for {
				m := atomic.LoadInt64(&ov.max)
				if c <= m || atomic.CompareAndSwapInt64(&ov.max, m, c) {
					break
				}
			}
		case "process.done":
			atomic.AddInt64(&ov.cur, -1)
		}
		k := atomic.AddUint64(&ov.n, 1)
		x := hx.Mix(seed, k)
		switch x % 8 {
		case 0, 1, 2:
			runtime.Gosched()
		case 3:
			time.Sleep(time.Duration(1+x>>8%50) * time.Microsecond)
		}
	}
}

var uidCounter int64 = 300000

type fail struct {
	mu  sync.Mutex
	err error
}

func (f *fail) set(format string, a ...interface{}) {
	f.mu.Lock()
	if f.err == nil {
		f.err = fmt.Errorf(format, a...)
	}
	f.mu.Unlock()
}
func (f *fail) get() error { f.mu.Lock(); defer f.mu.Unlock(); return f.err }

func run(c *Case) error {
	old := runtime.GOMAXPROCS(c.Procs)
	defer runtime.GOMAXPROCS(old)
	ov := &overlap{}
	ctl := sched.New(nil)
	ctl.Record = false
	ctl.Perturb = perturber(c.Perturb, ov)
	defer sched.Install(ctl)()
	var err error
	switch c.Target {
	case "ufs":
		err = runUfs(c)
	case "script":
		err = runScript(c)
	case "scriptraw":
		err = runScriptRaw(c)
	case "ufsbig", "scriptbig":
		if c.Big == nil || c.Big.Blk > bigMaxBlk || c.Big.Blk < 1 || c.Big.Writers < 1 {
			return fmt.Errorf("harness: big-writes case without a valid description")
		}
		if c.Target == "ufsbig" {
			err = runUfsBig(c)
		} else {
			err = runScriptBig(c)
		}
		hx.Extra("max_overlap", atomic.LoadInt64(&ov.max))
		return err // (its own non-trivial rule: bigRecord)
	case "scriptver", "ufsver":
		return runVer(c) // (its own non-trivial rule)
	default:
		err = fmt.Errorf("harness: target %q", c.Target)
	}
	hx.Extra("max_overlap", atomic.LoadInt64(&ov.max))
	if atomic.LoadInt64(&ov.max) >= 2 {
		b, _ := json.Marshal(c)
		hx.NonTrivial(b)
		hx.Label("overlap>=2")
	} else {
		hx.Label("overlap<2")
	}
	return err
}

// unfinished is set when a workload was abandoned at its deadline: its workers
// may still be calling, so the clients are not unmounted under them.
var unfinished atomic.Bool

func wait(wg *sync.WaitGroup, f *fail, what string) error {
	unfinished.Store(false)
	ch := make(chan struct{})
	go func() { wg.Wait(); close(ch) }()
	select {
	case <-ch:
		return f.get()
	case <-time.After(deadline):
		unfinished.Store(true)
		if e := f.get(); e != nil {
			return e
		}
		return hangErr(what + " did not finish")
	}
}

// ---- Ufs through the go9p client, one Clnt shared by G goroutines per connection
func runUfs(c *Case) error {
	dir, err := os.MkdirTemp("", "c19-")
	if err != nil {
		return err
	}
	defer os.RemoveAll(dir)
	// files owned by uids the process has never seen: their stat goes through
	// the user pool's insert path while other requests read it
	base := int(atomic.AddInt64(&uidCounter, 4096))
	for i := 0; i < c.NConn; i++ {
		d := filepath.Join(dir, fmt.Sprintf("conn%d", i))
		_ = os.MkdirAll(d, 0o755)
		for k := 0; k < 32; k++ {
			fn := filepath.Join(d, fmt.Sprintf("own%d", k))
			_ = os.WriteFile(fn, []byte("x"), 0o644)
			_ = os.Chown(fn, base+i*64+k, base+2048+i*64+k)
		}
		// a chain of 36 nested directories with a file below the 20th and the 36th
		if err := os.MkdirAll(filepath.Join(d, deepPath(36)), 0o755); err != nil {
			return fmt.Errorf("harness: %v", err)
		}
		_ = os.WriteFile(filepath.Join(d, deepPath(20), "leaf"), []byte(leafData), 0o644)
		_ = os.WriteFile(filepath.Join(d, deepPath(36), "bottom"), []byte(bottomData), 0o644)
	}
	root, err := spellRoot(dir, c.RootForm)
	if err != nil {
		return err
	}
	for k := 0; k < c.Storm; k++ {
		if err := attachStorm(c, root, k); err != nil {
			return err
		}
	}
	u := ufsrv.Start(root, c.Dotu, 8192)
	if c.Debug {
		u.Debuglevel = go9p.DbgLogFcalls
	}
	u.Maxpend = c.Maxpend
	f := &fail{}
	var wg sync.WaitGroup
	var clnts []*go9p.Clnt
	clnts, err = mountAll(u, c.NConn, c.Together, "c19")
	if err != nil {
		return err
	}
	for _, clnt := range clnts {
		if c.Debug {
			clnt.Debuglevel = go9p.DbgLogFcalls
			clnt.Log = go9p.NewLogger(32)
		}
	}
	// the clients' past: deep paths resolved while nothing else goes on
	for ci, clnt := range clnts {
		for k, op := range c.Pre {
			if err := ufsDeep(clnt, op, fmt.Sprintf("conn %d before the concurrent phase, call %d %s", ci, k, op)); err != nil {
				return err
			}
		}
	}
	for ci, clnt := range clnts {
		for g := 0; g < c.G; g++ {
			wg.Add(1)
			go func(ci, g int, clnt *go9p.Clnt) {
				defer wg.Done()
				ufsWorker(c, clnt, filepath.Join(dir, fmt.Sprintf("conn%d", ci)), g, f)
			}(ci, g, clnt)
		}
	}
	// connections opened and dropped (quiescent) while the others are busy
	wg.Add(1)
	go func() {
		defer wg.Done()
		for k := 0; k < c.Churn; k++ {
			h := ufsrv.Conn(u, fmt.Sprintf("c19-churn%d", k))
			clnt, err := go9p.MountConn(h, "conn0", 4096, go9p.OsUsers.Uid2User(base+3000+k)) // a uid never seen before
			if err != nil {
				f.set("churn mount: %v", err)
				return
			}
			if _, err := clnt.FStat("/"); err != nil {
				f.set("churn stat: %v", err)
			}
			clnt.Unmount()
		}
	}()
	err = wait(&wg, f, "ufs workload")
	if unfinished.Load() {
		// workers are still calling: unmounting under them would be a workload
		// the property excludes (and the harness, not go9p, would cause the races)
		return err
	}
	for _, cl := range clnts {
		cl.Unmount()
	}
	return err
}

const leafData = "leaf below twenty directories"
const bottomData = "bottom of thirty-six directories"

// deepPath is the chain e01/e02/.../eNN below a connection's directory.
func deepPath(n int) string {
	parts := make([]string, n)
	for i := range parts {
		parts[i] = fmt.Sprintf("e%02d", i+1)
	}
	return strings.Join(parts, "/")
}

// spellRoot returns the exported directory in the drawn spelling; every
// spelling names the same directory.
func spellRoot(dir, form string) (string, error) {
	parent, base := filepath.Split(dir) // parent ends in a slash
	switch form {
	case "":
		return dir, nil
	case "slash":
		return dir + "/", nil
	case "dot":
		return parent + "./" + base, nil
	case "dslash":
		return strings.ReplaceAll(dir, "/", "//"), nil
	case "dotdot":
		return dir + "/conn0/../", nil
	}
	return "", fmt.Errorf("harness: root form %q", form)
}

// mountAll mounts n clients on u as uid 0, connection i on its directory conn<i>;
// together: every connection has been accepted before any of them speaks, then
// all mount at the same moment.
func mountAll(u *go9p.Ufs, n int, together bool, tag string) ([]*go9p.Clnt, error) {
	clnts := make([]*go9p.Clnt, n)
	if !together {
		for ci := range clnts {
			clnt, _, err := ufsrv.Mount(u, fmt.Sprintf("%s-%d", tag, ci), fmt.Sprintf("conn%d", ci), 8192)
			if err != nil {
				return nil, fmt.Errorf("mount: %v", err)
			}
			clnts[ci] = clnt
		}
		return clnts, nil
	}
	ends := make([]*xport.End, n)
	for ci := range ends {
		ends[ci] = ufsrv.Conn(u, fmt.Sprintf("%s-%d", tag, ci))
	}
	errs := make([]error, n)
	start := make(chan struct{})
	// (the package variable go9p.OsUsers is assigned by the first Uid2User call:
	// it is read here, by one goroutine)
	user := go9p.OsUsers.Uid2User(0)
	var wg sync.WaitGroup
	for ci := range ends {
		wg.Add(1)
		go func(ci int) {
			defer wg.Done()
			<-start
			clnts[ci], errs[ci] = go9p.MountConn(ends[ci], fmt.Sprintf("conn%d", ci), 8192, user)
		}(ci)
	}
	close(start)
	if err := wait(&wg, &fail{}, "mounting "+fmt.Sprint(n)+" connections at the same moment"); err != nil {
		return nil, err
	}
	for ci, err := range errs {
		if err != nil {
			return nil, fmt.Errorf("mount of connection %d (all %d at the same moment): %v", ci, n, err)
		}
	}
	return clnts, nil
}

// attachStorm: a fresh server on the same root spelling; NConn connections
// mount at the same moment, each stats a file of its own and is dropped once
// its requests were answered.
func attachStorm(c *Case, root string, k int) error {
	u := ufsrv.Start(root, c.Dotu, 8192)
	u.Maxpend = c.Maxpend
	clnts, err := mountAll(u, c.NConn, true, fmt.Sprintf("c19-storm%d", k))
	if err != nil {
		return err
	}
	f := &fail{}
	var wg sync.WaitGroup
	for ci, clnt := range clnts {
		wg.Add(1)
		go func(ci int, clnt *go9p.Clnt) {
			defer wg.Done()
			if d, err := clnt.FStat(fmt.Sprintf("own%d", (ci+k)%32)); err != nil || d.Length != 1 {
				f.set("fresh server %d, connection %d: stat of an existing file: %v", k, ci, err)
			}
			clnt.Unmount()
		}(ci, clnt)
	}
	return wait(&wg, f, "connections attaching to a fresh server")
}

// ufsDeep makes one client call on a path of more than 16 elements (FWalk
// needs two or three Twalks for it) and checks the result.
func ufsDeep(clnt *go9p.Clnt, op, what string) error {
	switch op {
	case "deepstat":
		d, err := clnt.FStat(deepPath(20) + "/leaf")
		if err != nil || d.Name != "leaf" || d.Length != uint64(len(leafData)) {
			return fmt.Errorf("%s: FStat of a file below 20 directories: %v %v", what, d, err)
		}
	case "deepwalk":
		fid, err := clnt.FWalk("/" + deepPath(36))
		if err != nil {
			return fmt.Errorf("%s: FWalk of 36 elements: %v", what, err)
		}
		d, err := clnt.Stat(fid)
		if err != nil || d.Name != "e36" || d.Qid.Type&go9p.QTDIR == 0 {
			return fmt.Errorf("%s: Stat of the fid walked over 36 elements: %v %v", what, d, err)
		}
		if err := clnt.Clunk(fid); err != nil {
			return fmt.Errorf("%s: clunk: %v", what, err)
		}
	case "deepopen":
		file, err := clnt.FOpen(deepPath(36)+"/bottom", go9p.OREAD)
		if err != nil {
			return fmt.Errorf("%s: FOpen of a file below 36 directories: %v", what, err)
		}
		buf := make([]byte, 100)
		n, _ := file.ReadAt(buf, 0)
		_ = file.Close()
		if string(buf[:n]) != bottomData {
			return fmt.Errorf("%s: read %q through a path of 37 elements, the file holds %q", what, buf[:n], bottomData)
		}
	case "deepmissing":
		if _, err := clnt.FWalk(deepPath(17) + "/nosuch/x"); err == nil {
			return fmt.Errorf("%s: FWalk to a missing path below 17 directories succeeded", what)
		}
	default:
		return fmt.Errorf("harness: deep op %q", op)
	}
	return nil
}

func ufsWorker(c *Case, clnt *go9p.Clnt, hostdir string, g int, f *fail) {
	ops := c.Ops[g%len(c.Ops)]
	name := fmt.Sprintf("g%d", g)
	content := bytes.Repeat([]byte{byte('a' + g%26)}, 300+g)
	var file *go9p.File
	for k, op := range ops {
		if f.get() != nil {
			return
		}
		what := fmt.Sprintf("goroutine %d op %d %s", g, k, op)
		switch op {
		case "create":
			if file != nil {
				_ = file.Close()
			}
			var err error
			file, err = clnt.FCreate(name, 0o644, go9p.ORDWR)
			if err != nil {
				f.set("%s: %v", what, err)
				return
			}
		case "write":
			if file == nil {
				continue
			}
			if n, err := file.WriteAt(content, 0); err != nil || n != len(content) {
				f.set("%s: wrote %d of %d: %v", what, n, len(content), err)
				return
			}
		case "read":
			if file == nil {
				continue
			}
			buf := make([]byte, len(content)+10)
			n, err := file.ReadAt(buf, 0)
			if err != nil && n == 0 {
				continue // nothing written yet: EOF
			}
			if !bytes.Equal(buf[:n], content[:n]) {
				f.set("%s: read another goroutine's data", what)
				return
			}
		case "stat":
			d, err := clnt.FStat(name)
			if err == nil && d.Name != name {
				f.set("%s: stat returned name %q", what, d.Name)
				return
			}
		case "statroot":
			if _, err := clnt.FStat("/"); err != nil {
				f.set("%s: %v", what, err)
				return
			}
		case "statowned":
			if d, err := clnt.FStat(fmt.Sprintf("own%d", (g*7+k)%32)); err != nil || d.Length != 1 {
				f.set("%s: %v", what, err)
				return
			}
		case "wstat":
			if file == nil {
				continue
			}
			d := &go9p.Dir{Mode: 0o600, Atime: 0xFFFFFFFF, Mtime: 0xFFFFFFFF, Length: 0xFFFFFFFFFFFFFFFF, Uidnum: 0xFFFFFFFF, Gidnum: 0xFFFFFFFF, Muidnum: 0xFFFFFFFF,
				Type: 0xFFFF, Dev: 0xFFFFFFFF}
			if err := clnt.Wstat(file.Fid, d); err != nil {
				f.set("%s: %v", what, err)
				return
			}
		case "readdir":
			df, err := clnt.FOpen("/", go9p.OREAD)
			if err != nil {
				f.set("%s: %v", what, err)
				return
			}
			_, _ = df.Readdir(0)
			_ = df.Close()
		case "remove":
			if file != nil {
				_ = file.Close()
				file = nil
			}
			_ = clnt.FRemove(name)
		case "walkmissing":
			if _, err := clnt.FWalk("no/such/" + name); err == nil {
				f.set("%s: walk to a missing path succeeded", what)
				return
			}
		case "deepstat", "deepwalk", "deepopen", "deepmissing":
			if err := ufsDeep(clnt, op, what); err != nil {
				f.set("%v", err)
				return
			}
		}
	}
	if file != nil {
		_ = file.Close()
	}
}

// ---- scripted implementation through the go9p client
func runScript(c *Case) error {
	dbg := 0
	if c.Debug {
		dbg = go9p.DbgLogFcalls
	}
	sv := script.NewServer(script.Config{Msize: 8192, Dotu: c.Dotu, Maxpend: c.Maxpend, Debug: dbg, Flush: script.FlushIgnore})
	f := &fail{}
	var wg sync.WaitGroup
	user := &script.User{N: "alice", I: 1001}
	var clnts []*go9p.Clnt
	for ci := 0; ci < c.NConn; ci++ {
		h, l := xport.Pair(fmt.Sprintf("c19s-%d", ci))
		sv.Srv.NewConn(l)
		clnt, err := go9p.Connect(h, 8192, c.Dotu)
		if err != nil {
			return fmt.Errorf("connect: %v", err)
		}
		root, err := clnt.Attach(nil, user, fmt.Sprintf("t%d", ci))
		if err != nil {
			return fmt.Errorf("attach: %v", err)
		}
		clnt.Root = root
		clnts = append(clnts, clnt)
		for k, op := range c.Pre {
			if err := scriptDeep(clnt, op, fmt.Sprintf("p%d_%d", ci, k), fmt.Sprintf("conn %d before the concurrent phase, call %d %s", ci, k, op)); err != nil {
				return err
			}
		}
		for g := 0; g < c.G; g++ {
			wg.Add(1)
			go func(ci, g int, clnt *go9p.Clnt) {
				defer wg.Done()
				scriptWorker(c, clnt, ci, g, f)
			}(ci, g, clnt)
		}
	}
	wg.Add(1)
	go func() {
		defer wg.Done()
		for k := 0; k < c.Churn; k++ {
			h, l := xport.Pair(fmt.Sprintf("c19s-churn%d", k))
			sv.Srv.NewConn(l)
			clnt, err := go9p.Connect(h, 4096, c.Dotu)
			if err != nil {
				f.set("churn connect: %v", err)
				return
			}
			if _, err := clnt.Attach(nil, user, "churn"); err != nil {
				f.set("churn attach: %v", err)
			}
			clnt.Unmount()
		}
	}()
	err := wait(&wg, f, "script workload")
	if unfinished.Load() {
		return err // see runUfs
	}
	for _, cl := range clnts {
		cl.Unmount()
	}
	return err
}

// scriptDeep walks a path of 20 / 36 / 17 elements (names unique to the caller)
// through the client's FWalk against the scripted implementation, which
// answers every name starting with 'd' as a directory whose qid version is the
// length of the name.
func scriptDeep(clnt *go9p.Clnt, op, uniq, what string) error {
	n := map[string]int{"deepstat": 20, "deepwalk": 36, "deepopen": 33, "deepmissing": 17}[op]
	if n == 0 {
		return fmt.Errorf("harness: deep op %q", op)
	}
	parts := make([]string, n)
	for i := range parts {
		parts[i] = fmt.Sprintf("d%s_%d", uniq, i)
	}
	last := parts[n-1]
	if op == "deepmissing" {
		// names starting with 'x' do not exist
		if _, err := clnt.FWalk(strings.Join(parts, "/") + "/x" + uniq + "/d"); err == nil {
			return fmt.Errorf("%s: FWalk to a missing path below 17 directories succeeded", what)
		}
		return nil
	}
	fid, err := clnt.FWalk(strings.Join(parts, "/"))
	if err != nil {
		return fmt.Errorf("%s: FWalk of %d elements: %v", what, n, err)
	}
	if fid.Qid.Type != go9p.QTDIR || fid.Qid.Version != uint32(len(last)) {
		return fmt.Errorf("%s: FWalk of %d elements ended on qid %v, not on the qid of its last element %q", what, n, fid.Qid, last)
	}
	if op == "deepstat" {
		if _, err := clnt.Stat(fid); err != nil {
			return fmt.Errorf("%s: stat: %v", what, err)
		}
	}
	if err := clnt.Clunk(fid); err != nil {
		return fmt.Errorf("%s: clunk: %v", what, err)
	}
	return nil
}

func scriptWorker(c *Case, clnt *go9p.Clnt, ci, g int, f *fail) {
	ops := c.Ops[g%len(c.Ops)]
	for k, op := range ops {
		if f.get() != nil {
			return
		}
		what := fmt.Sprintf("conn %d goroutine %d op %d %s", ci, g, k, op)
		if strings.HasPrefix(op, "deep") {
			if err := scriptDeep(clnt, op, fmt.Sprintf("%d_%d_%d", ci, g, k), what); err != nil {
				f.set("%v", err)
				return
			}
			continue
		}
		fid := clnt.FidAlloc()
		name := fmt.Sprintf("f%d_%d_%d", ci, g, k)
		if op == "create" || op == "readdir" {
			name = "d" + name
		}
		if _, err := clnt.Walk(clnt.Root, fid, []string{name}); err != nil {
			f.set("%s: walk: %v", what, err)
			return
		}
		switch op {
		case "create":
			if err := clnt.Create(fid, "fnew", 0o644, go9p.OWRITE, ""); err != nil {
				f.set("%s: %v", what, err)
				return
			}
		case "write", "read", "wstat":
			if err := clnt.Open(fid, go9p.ORDWR); err != nil {
				f.set("%s: open: %v", what, err)
				return
			}
			if op == "write" {
				if n, err := clnt.Write(fid, bytes.Repeat([]byte{byte(g)}, 100+k), uint64(k)); err != nil || n != 100+k {
					f.set("%s: %d %v", what, n, err)
					return
				}
			} else if op == "read" {
				off := uint64(ci)<<32 | uint64(g)<<16 | uint64(k)
				b, err := clnt.Read(fid, off, 200)
				want := script.PRF(fmt.Sprintf("Tread/%d/%d/%d", fid.Fid, off, 200), 200)
				if err != nil || !bytes.Equal(b, want) {
					f.set("%s: read returned another request's data (%v)", what, err)
					return
				}
			} else {
				_ = clnt.Wstat(fid, &go9p.Dir{Name: "r" + name})
			}
		case "stat", "statroot", "statowned", "walkmissing", "readdir":
			if _, err := clnt.Stat(fid); err != nil {
				f.set("%s: %v", what, err)
				return
			}
		case "remove":
			no := fid.Fid
			if err := clnt.Remove(fid); err != nil {
				f.set("%s: remove fid %d: %v", what, no, err)
				return
			}
			continue
		}
		if err := clnt.Clunk(fid); err != nil {
			f.set("%s: clunk: %v", what, err)
			return
		}
	}
}

// ---- scripted implementation through raw connections with flushes
func runScriptRaw(c *Case) error {
	sv := script.NewServer(script.Config{Msize: 8192, Dotu: c.Dotu, Maxpend: c.Maxpend, Flush: script.FlushCancel})
	if c.Flush {
		// the implementation dwells a little, so that a Tflush finds the request
		// inside it, cancels it, and the cancelled operation answers late
		sv.S.Default = script.Behav{DelayUS: 100 + int(c.Perturb%400)}
	}
	f := &fail{}
	var wg sync.WaitGroup
	for ci := 0; ci < c.NConn; ci++ {
		wg.Add(1)
		go func(ci int) {
			defer wg.Done()
			cl := rawc.New(sv.Dial(fmt.Sprintf("c19r-%d", ci)))
			cl.Timeout = 2 * deadline // the workload's own deadline (wait) fires first and classifies a hang
			defer cl.Close()
			ver := "9P2000"
			if c.Dotu {
				ver = "9P2000.u"
			}
			if ci < len(c.Vers) {
				// a raw client's Tversion may carry any tag and ask for another msize
				v := c.Vers[ci]
				cl.Dotu = c.Dotu
				r, err := cl.RPCTag(&ref9p.Msg{Type: ref9p.Tversion, Tag: v.Tag, Msize: v.Msize, Version: ver})
				if err != nil || r.Type != ref9p.Rversion || r.Version != ver || r.Msize != min(v.Msize, 8192) {
					f.set("conn %d: Tversion tag %d msize %d %q: %v %v", ci, v.Tag, v.Msize, ver, r, err)
					return
				}
			} else if r, err := cl.Version(8192, ver); err != nil || r.Type != ref9p.Rversion {
				f.set("version: %v", err)
				return
			}
			if r, err := cl.Attach(0, ref9p.NOFID, "alice", "", 1001); err != nil || r.Type != ref9p.Rattach {
				f.set("attach: %v", err)
				return
			}
			// rounds of G pipelined requests on private fids, some flushed right away
			ops := c.Ops[ci%len(c.Ops)]
			// fid numbers (hence the scripted implementation's request keys) are
			// unique across connections: its FlushOp identifies requests by key
			fid := uint32(100 + 1000000*ci)
			for round := 0; round < len(ops); round++ {
				var stream []byte
				want := map[uint16]bool{}
				for g := 0; g < c.G; g++ {
					nf := fid
					fid++
					tag := uint16(1 + g)
					m := &ref9p.Msg{Type: ref9p.Twalk, Tag: tag, Fid: 0, Newfid: nf, Wname: []string{fmt.Sprintf("f%d", nf)}}
					if ops[round] == "stat" || ops[round] == "statroot" {
						// a two-element walk (keys stay unique per request: the scripted
						// FlushOp only cancels requests it can identify)
						m.Wname = append(m.Wname, "fsub")
					}
					stream = append(stream, ref9p.Encode(m, c.Dotu)...)
					want[tag] = true
					if c.Flush && (g+round)%3 == 0 {
						ft := uint16(100 + g)
						stream = append(stream, ref9p.Encode(&ref9p.Msg{Type: ref9p.Tflush, Tag: ft, Oldtag: tag}, c.Dotu)...)
						want[ft] = true
						delete(want, tag) // may or may not be answered
					}
				}
				_ = cl.SendRaw(stream)
				flushed := map[uint16]bool{}
				for len(want) > 0 {
					r, _, err := cl.Recv()
					if err != nil {
						f.set("conn %d round %d: %v", ci, round, err)
						return
					}
					delete(want, r.Tag)
					if r.Type == ref9p.Rflush {
						flushed[r.Tag] = true
					}
				}
				// drain replies of flushed requests that were answered anyway: fence
				fence := &ref9p.Msg{Type: ref9p.Tstat, Tag: 0x3000, Fid: 0}
				_ = cl.Send(fence)
				for {
					r, _, err := cl.Recv()
					if err != nil {
						f.set("conn %d round %d fence: %v", ci, round, err)
						return
					}
					if r.Tag == 0x3000 {
						break
					}
				}
			}
		}(ci)
	}
	return wait(&wg, f, "raw workload")
}

func execute(test string, c *Case) error {
	hx.Journal(test, c)
	hx.Eval()
	hx.Label(fmt.Sprintf("target=%s nconn=%d", c.Target, c.NConn))
	if len(c.Vers) > 0 && c.Target != "scriptraw" {
		hx.Label(fmt.Sprintf("sessionstart debug=%v procs=%d", c.Debug, c.Procs))
	} else if c.Big != nil {
		hx.Label(fmt.Sprintf("bigwrites writers=%s blk=%s mode=%q small=%v debug=%v procs=%d", bucketW(c.Big.Writers), bucketBlk(c.Big.Blk), c.Big.Mode, c.Big.Small > 0, c.Debug, c.Procs))
	} else {
		hx.Label(fmt.Sprintf("g=%s debug=%v flush=%v procs=%d", bucket(c.G), c.Debug, c.Flush, c.Procs))
	}
	if c.Target == "ufs" {
		hx.Label(fmt.Sprintf("ufs root=%q together=%v fresh-server-storms=%v", c.RootForm, c.Together && c.NConn > 1, c.Storm > 0 && c.NConn > 1))
	}
	if c.Target == "scriptraw" && len(c.Vers) > 0 {
		ord, low := false, false
		for _, v := range c.Vers {
			ord = ord || v.Tag != ref9p.NOTAG
			low = low || v.Msize < 8192
		}
		hx.Label(fmt.Sprintf("scriptraw tversion ordinary-tag=%v lower-msize=%v", ord, low))
	}
	if c.Target != "scriptraw" && c.Big == nil && len(c.Vers) == 0 {
		during := false
		for _, ops := range c.Ops {
			for _, op := range ops {
				if strings.HasPrefix(op, "deep") {
					during = true
				}
			}
		}
		hx.Label(fmt.Sprintf("deep paths (>16 elements) before=%v during=%v", len(c.Pre) > 0, during))
	}
	hx.Sample(test, c)
	err := run(c)
	if h, ok := err.(hangErr); ok {
		if blocked := hx.BlockedInGo9p(); blocked != "" {
			return fmt.Errorf("%s; goroutines blocked inside go9p:\n%s", string(h), blocked)
		}
		hx.Inconclusive(string(h))
		return nil
	}
	return err
}

func bucket(n int) string {
	switch {
	case n <= 2:
		return "2"
	case n <= 6:
		return "3-6"
	}
	return "7-16"
}

func bucketW(n int) string {
	switch {
	case n <= 24:
		return "16-24"
	case n <= 40:
		return "25-40"
	}
	return "41-64"
}

func bucketBlk(n int) string {
	switch {
	case n == bigMaxBlk:
		return "msize-IOHDRSZ"
	case n >= bigMaxBlk-600:
		return "near msize"
	}
	return "msize/2.."
}

var opKinds = []string{"create", "write", "read", "stat", "statroot", "statowned", "statowned", "wstat", "readdir", "remove", "walkmissing",
	"deepstat", "deepwalk", "deepopen", "deepmissing"}
var deepKinds = []string{"deepstat", "deepwalk", "deepopen", "deepmissing"}
var rootForms = []string{"", "", "slash", "slash", "dot", "dslash", "dotdot"}

func TestPropWorkloads(t *testing.T) {
	hx.Check(t, "workloads", hx.N(90, 900), func(t *rapid.T) {
		c := &Case{Target: rapid.SampledFrom([]string{"ufs", "ufs", "script", "scriptraw"}).Draw(t, "target"), Dotu: rapid.Bool().Draw(t, "dotu"),
			NConn: rapid.IntRange(1, 4).Draw(t, "nconn"), G: rapid.IntRange(2, 16).Draw(t, "g"), Flush: rapid.Bool().Draw(t, "flush"),
			Debug: rapid.IntRange(0, 2).Draw(t, "debug") == 0, Churn: rapid.IntRange(0, 4).Draw(t, "churn"), Perturb: rapid.Uint64().Draw(t, "perturb"),
			Procs: rapid.SampledFrom([]int{2, 4, 16}).Draw(t, "procs"), Maxpend: rapid.SampledFrom([]int{0, 8}).Draw(t, "maxpend")}
		if c.Target == "scriptraw" {
			for ci := 0; ci < c.NConn; ci++ {
				c.Vers = append(c.Vers, Ver{Tag: rapid.SampledFrom(verTags).Draw(t, "vtag"), Msize: rapid.SampledFrom([]uint32{1024, 4096, 8192, 8192, 65536}).Draw(t, "vmsize")})
			}
		}
		if c.Target != "scriptraw" {
			c.Pre = rapid.SliceOfN(rapid.SampledFrom(deepKinds), 0, 3).Draw(t, "pre")
		}
		if c.Target == "ufs" {
			c.RootForm = rapid.SampledFrom(rootForms).Draw(t, "rootform")
			c.Together = rapid.Bool().Draw(t, "together")
			c.Storm = rapid.SampledFrom([]int{0, 0, 1, 2, 4}).Draw(t, "storm")
		}
		ng := rapid.IntRange(1, 4).Draw(t, "nscripts")
		for i := 0; i < ng; i++ {
			ops := rapid.SliceOfN(rapid.SampledFrom(opKinds), 3, 14).Draw(t, "ops")
			if c.Target == "ufs" {
				ops = append([]string{"create"}, ops...)
			}
			c.Ops = append(c.Ops, ops)
		}
		if err := execute("workloads", c); err != nil {
			hx.Failf(t, "workloads", c, "%v", err)
		}
	})
}

func TestReplay(t *testing.T) {
	e, err := hx.LoadReplay()
	if e == nil {
		t.Skip("no replay file", err)
	}
	replayEnv(t, e, 10)
}

func replayEnv(t *testing.T, e *hx.Envelope, times int) {
	var c Case
	if err := json.Unmarshal(e.Case, &c); err != nil {
		t.Fatalf("bad case: %v", err)
	}
	for i := 0; i < times; i++ {
		if err := execute(e.Test, &c); err != nil {
			hx.Violation(e.Test, &c, err.Error())
			t.Fatalf("%v", err)
		}
	}
}

func TestRegress(t *testing.T) {
	for i, e := range hx.Regressions() {
		if i%hx.NShards != hx.Shard {
			continue // every stored case runs on one shard of each run
		}
		replayEnv(t, e, 2)
		hx.Label("regress")
	}
}
