// C19 — no data races when concurrent requests operate on different fids.
// Built with -race; the driver collects the race detector's reports.
package c19

import (
	"bytes"
	"encoding/json"
	"fmt"
	"os"
	"path/filepath"
	"runtime"
	"sync"
	"sync/atomic"
	"testing"
	"time"

	"github.com/rminnich/go9p"
	"pgregory.net/rapid"
	"verif/internal/hx"
	"verif/internal/rawc"
	"verif/internal/ref9p"
	"verif/internal/sched"
	"verif/internal/script"
	"verif/internal/ufsrv"
	"verif/internal/xport"
)

func TestMain(m *testing.M) { hx.Main(m, "C19") }

type Case struct {
	Target  string     `json:"target"` // "ufs", "script", "scriptraw"
	Dotu    bool       `json:"dotu"`
	NConn   int        `json:"nconn"`
	G       int        `json:"g"`       // client goroutines per connection
	Ops     [][]string `json:"ops"`     // per goroutine (shared by all connections): op kinds
	Flush   bool       `json:"flush"`   // scriptraw: interleave Tflush of own outstanding requests
	Debug   bool       `json:"debug"`   // DbgLogFcalls (Logger path)
	Churn   int        `json:"churn"`   // extra connections opened and dropped (quiescent) while the others are busy
	Perturb uint64     `json:"perturb"` // seed of the schedule perturbation at the hook points
	Procs   int        `json:"procs"`
	Maxpend int        `json:"maxpend"`
}

const deadline = 30 * time.Second

type hangErr string

func (h hangErr) Error() string { return string(h) }

// overlap tracks how many requests are between process.enter and process.done.
type overlap struct {
	cur, max int64
	n        uint64
}

func perturber(seed uint64, ov *overlap) func(who, point string) {
	return func(who, point string) {
		switch point {
		case "process.enter":
			c := atomic.AddInt64(&ov.cur, 1)
			for {
				m := atomic.LoadInt64(&ov.max)
				if c <= m || atomic.CompareAndSwapInt64(&ov.max, m, c) {
					break
				}
			}
		case "process.done":
			atomic.AddInt64(&ov.cur, -1)
		}
		k := atomic.AddUint64(&ov.n, 1)
		x := hx.Mix(seed, k)
		switch x % 8 {
		case 0, 1, 2:
			runtime.Gosched()
		case 3:
			time.Sleep(time.Duration(1+x>>8%50) * time.Microsecond)
		}
	}
}

var uidCounter int64 = 300000

type fail struct {
	mu  sync.Mutex
	err error
}

func (f *fail) set(format string, a ...interface{}) {
	f.mu.Lock()
	if f.err == nil {
		f.err = fmt.Errorf(format, a...)
	}
	f.mu.Unlock()
}
func (f *fail) get() error { f.mu.Lock(); defer f.mu.Unlock(); return f.err }

func run(c *Case) error {
	old := runtime.GOMAXPROCS(c.Procs)
	defer runtime.GOMAXPROCS(old)
	ov := &overlap{}
	ctl := sched.New(nil)
	ctl.Record = false
	ctl.Perturb = perturber(c.Perturb, ov)
	defer sched.Install(ctl)()
	var err error
	switch c.Target {
	case "ufs":
		err = runUfs(c)
	case "script":
		err = runScript(c)
	case "scriptraw":
		err = runScriptRaw(c)
	default:
		err = fmt.Errorf("harness: target %q", c.Target)
	}
	hx.Extra("max_overlap", atomic.LoadInt64(&ov.max))
	if atomic.LoadInt64(&ov.max) >= 2 {
		b, _ := json.Marshal(c)
		hx.NonTrivial(b)
		hx.Label("overlap>=2")
	} else {
		hx.Label("overlap<2")
	}
	return err
}

// unfinished is set when a workload was abandoned at its deadline: its workers
// may still be calling, so the clients are not unmounted under them.
var unfinished atomic.Bool

func wait(wg *sync.WaitGroup, f *fail, what string) error {
	unfinished.Store(false)
	ch := make(chan struct{})
	go func() { wg.Wait(); close(ch) }()
	select {
	case <-ch:
		return f.get()
	case <-time.After(deadline):
		unfinished.Store(true)
		if e := f.get(); e != nil {
			return e
		}
		return hangErr(what + " did not finish")
	}
}

// ---- Ufs through the go9p client, one Clnt shared by G goroutines per connection
func runUfs(c *Case) error {
	dir, err := os.MkdirTemp("", "c19-")
	if err != nil {
		return err
	}
	defer os.RemoveAll(dir)
	// files owned by uids the process has never seen: their stat goes through
	// the user pool's insert path while other requests read it
	base := int(atomic.AddInt64(&uidCounter, 4096))
	for i := 0; i < c.NConn; i++ {
		d := filepath.Join(dir, fmt.Sprintf("conn%d", i))
		_ = os.MkdirAll(d, 0o755)
		for k := 0; k < 32; k++ {
			fn := filepath.Join(d, fmt.Sprintf("own%d", k))
			_ = os.WriteFile(fn, []byte("x"), 0o644)
			_ = os.Chown(fn, base+i*64+k, base+2048+i*64+k)
		}
	}
	u := ufsrv.Start(dir, c.Dotu, 8192)
	if c.Debug {
		u.Debuglevel = go9p.DbgLogFcalls
	}
	u.Maxpend = c.Maxpend
	f := &fail{}
	var wg sync.WaitGroup
	var clnts []*go9p.Clnt
	for ci := 0; ci < c.NConn; ci++ {
		clnt, _, err := ufsrv.Mount(u, fmt.Sprintf("c19-%d", ci), fmt.Sprintf("conn%d", ci), 8192)
		if err != nil {
			return fmt.Errorf("mount: %v", err)
		}
		if c.Debug {
			clnt.Debuglevel = go9p.DbgLogFcalls
			clnt.Log = go9p.NewLogger(32)
		}
		clnts = append(clnts, clnt)
	}
	for ci, clnt := range clnts {
		for g := 0; g < c.G; g++ {
			wg.Add(1)
			go func(ci, g int, clnt *go9p.Clnt) {
				defer wg.Done()
				ufsWorker(c, clnt, filepath.Join(dir, fmt.Sprintf("conn%d", ci)), g, f)
			}(ci, g, clnt)
		}
	}
	// connections opened and dropped (quiescent) while the others are busy
	wg.Add(1)
	go func() {
		defer wg.Done()
		for k := 0; k < c.Churn; k++ {
			h := ufsrv.Conn(u, fmt.Sprintf("c19-churn%d", k))
			clnt, err := go9p.MountConn(h, "conn0", 4096, go9p.OsUsers.Uid2User(base+3000+k)) // a uid never seen before
			if err != nil {
				f.set("churn mount: %v", err)
				return
			}
			if _, err := clnt.FStat("/"); err != nil {
				f.set("churn stat: %v", err)
			}
			clnt.Unmount()
		}
	}()
	err = wait(&wg, f, "ufs workload")
	if unfinished.Load() {
		// workers are still calling: unmounting under them would be a workload
		// the property excludes (and the harness, not go9p, would cause the races)
		return err
	}
	for _, cl := range clnts {
		cl.Unmount()
	}
	return err
}

func ufsWorker(c *Case, clnt *go9p.Clnt, hostdir string, g int, f *fail) {
	ops := c.Ops[g%len(c.Ops)]
	name := fmt.Sprintf("g%d", g)
	content := bytes.Repeat([]byte{byte('a' + g%26)}, 300+g)
	var file *go9p.File
	for k, op := range ops {
		if f.get() != nil {
			return
		}
		what := fmt.Sprintf("goroutine %d op %d %s", g, k, op)
		switch op {
		case "create":
			if file != nil {
				_ = file.Close()
			}
			var err error
			file, err = clnt.FCreate(name, 0o644, go9p.ORDWR)
			if err != nil {
				f.set("%s: %v", what, err)
				return
			}
		case "write":
			if file == nil {
				continue
			}
			if n, err := file.WriteAt(content, 0); err != nil || n != len(content) {
				f.set("%s: wrote %d of %d: %v", what, n, len(content), err)
				return
			}
		case "read":
			if file == nil {
				continue
			}
			buf := make([]byte, len(content)+10)
			n, err := file.ReadAt(buf, 0)
			if err != nil && n == 0 {
				continue // nothing written yet: EOF
			}
			if !bytes.Equal(buf[:n], content[:n]) {
				f.set("%s: read another goroutine's data", what)
				return
			}
		case "stat":
			d, err := clnt.FStat(name)
			if err == nil && d.Name != name {
				f.set("%s: stat returned name %q", what, d.Name)
				return
			}
		case "statroot":
			if _, err := clnt.FStat("/"); err != nil {
				f.set("%s: %v", what, err)
				return
			}
		case "statowned":
			if d, err := clnt.FStat(fmt.Sprintf("own%d", (g*7+k)%32)); err != nil || d.Length != 1 {
				f.set("%s: %v", what, err)
				return
			}
		case "wstat":
			if file == nil {
				continue
			}
			d := &go9p.Dir{Mode: 0o600, Atime: 0xFFFFFFFF, Mtime: 0xFFFFFFFF, Length: 0xFFFFFFFFFFFFFFFF, Uidnum: 0xFFFFFFFF, Gidnum: 0xFFFFFFFF, Muidnum: 0xFFFFFFFF,
				Type: 0xFFFF, Dev: 0xFFFFFFFF}
			if err := clnt.Wstat(file.Fid, d); err != nil {
				f.set("%s: %v", what, err)
				return
			}
		case "readdir":
			df, err := clnt.FOpen("/", go9p.OREAD)
			if err != nil {
				f.set("%s: %v", what, err)
				return
			}
			_, _ = df.Readdir(0)
			_ = df.Close()
		case "remove":
			if file != nil {
				_ = file.Close()
				file = nil
			}
			_ = clnt.FRemove(name)
		case "walkmissing":
			if _, err := clnt.FWalk("no/such/" + name); err == nil {
				f.set("%s: walk to a missing path succeeded", what)
				return
			}
		}
	}
	if file != nil {
		_ = file.Close()
	}
}

// ---- scripted implementation through the go9p client
func runScript(c *Case) error {
	dbg := 0
	if c.Debug {
		dbg = go9p.DbgLogFcalls
	}
	sv := script.NewServer(script.Config{Msize: 8192, Dotu: c.Dotu, Maxpend: c.Maxpend, Debug: dbg, Flush: script.FlushIgnore})
	f := &fail{}
	var wg sync.WaitGroup
	user := &script.User{N: "alice", I: 1001}
	var clnts []*go9p.Clnt
	for ci := 0; ci < c.NConn; ci++ {
		h, l := xport.Pair(fmt.Sprintf("c19s-%d", ci))
		sv.Srv.NewConn(l)
		clnt, err := go9p.Connect(h, 8192, c.Dotu)
		if err != nil {
			return fmt.Errorf("connect: %v", err)
		}
		root, err := clnt.Attach(nil, user, fmt.Sprintf("t%d", ci))
		if err != nil {
			return fmt.Errorf("attach: %v", err)
		}
		clnt.Root = root
		clnts = append(clnts, clnt)
		for g := 0; g < c.G; g++ {
			wg.Add(1)
			go func(ci, g int, clnt *go9p.Clnt) {
				defer wg.Done()
				scriptWorker(c, clnt, ci, g, f)
			}(ci, g, clnt)
		}
	}
	wg.Add(1)
	go func() {
		defer wg.Done()
		for k := 0; k < c.Churn; k++ {
			h, l := xport.Pair(fmt.Sprintf("c19s-churn%d", k))
			sv.Srv.NewConn(l)
			clnt, err := go9p.Connect(h, 4096, c.Dotu)
			if err != nil {
				f.set("churn connect: %v", err)
				return
			}
			if _, err := clnt.Attach(nil, user, "churn"); err != nil {
				f.set("churn attach: %v", err)
			}
			clnt.Unmount()
		}
	}()
	err := wait(&wg, f, "script workload")
	if unfinished.Load() {
		return err // see runUfs
	}
	for _, cl := range clnts {
		cl.Unmount()
	}
	return err
}

func scriptWorker(c *Case, clnt *go9p.Clnt, ci, g int, f *fail) {
	ops := c.Ops[g%len(c.Ops)]
	for k, op := range ops {
		if f.get() != nil {
			return
		}
		what := fmt.Sprintf("conn %d goroutine %d op %d %s", ci, g, k, op)
		fid := clnt.FidAlloc()
		name := fmt.Sprintf("f%d_%d_%d", ci, g, k)
		if op == "create" || op == "readdir" {
			name = "d" + name
		}
		if _, err := clnt.Walk(clnt.Root, fid, []string{name}); err != nil {
			f.set("%s: walk: %v", what, err)
			return
		}
		switch op {
		case "create":
			if err := clnt.Create(fid, "fnew", 0o644, go9p.OWRITE, ""); err != nil {
				f.set("%s: %v", what, err)
				return
			}
		case "write", "read", "wstat":
			if err := clnt.Open(fid, go9p.ORDWR); err != nil {
				f.set("%s: open: %v", what, err)
				return
			}
			if op == "write" {
				if n, err := clnt.Write(fid, bytes.Repeat([]byte{byte(g)}, 100+k), uint64(k)); err != nil || n != 100+k {
					f.set("%s: %d %v", what, n, err)
					return
				}
			} else if op == "read" {
				off := uint64(ci)<<32 | uint64(g)<<16 | uint64(k)
				b, err := clnt.Read(fid, off, 200)
				want := script.PRF(fmt.Sprintf("Tread/%d/%d/%d", fid.Fid, off, 200), 200)
				if err != nil || !bytes.Equal(b, want) {
					f.set("%s: read returned another request's data (%v)", what, err)
					return
				}
			} else {
				_ = clnt.Wstat(fid, &go9p.Dir{Name: "r" + name})
			}
		case "stat", "statroot", "statowned", "walkmissing", "readdir":
			if _, err := clnt.Stat(fid); err != nil {
				f.set("%s: %v", what, err)
				return
			}
		case "remove":
			no := fid.Fid
			if err := clnt.Remove(fid); err != nil {
				f.set("%s: remove fid %d: %v", what, no, err)
				return
			}
			continue
		}
		if err := clnt.Clunk(fid); err != nil {
			f.set("%s: clunk: %v", what, err)
			return
		}
	}
}

// ---- scripted implementation through raw connections with flushes
func runScriptRaw(c *Case) error {
	sv := script.NewServer(script.Config{Msize: 8192, Dotu: c.Dotu, Maxpend: c.Maxpend, Flush: script.FlushCancel})
	if c.Flush {
		// the implementation dwells a little, so that a Tflush finds the request
		// inside it, cancels it, and the cancelled operation answers late
		sv.S.Default = script.Behav{DelayUS: 100 + int(c.Perturb%400)}
	}
	f := &fail{}
	var wg sync.WaitGroup
	for ci := 0; ci < c.NConn; ci++ {
		wg.Add(1)
		go func(ci int) {
			defer wg.Done()
			cl := rawc.New(sv.Dial(fmt.Sprintf("c19r-%d", ci)))
			cl.Timeout = 2 * deadline // the workload's own deadline (wait) fires first and classifies a hang
			defer cl.Close()
			ver := "9P2000"
			if c.Dotu {
				ver = "9P2000.u"
			}
			if r, err := cl.Version(8192, ver); err != nil || r.Type != ref9p.Rversion {
				f.set("version: %v", err)
				return
			}
			if r, err := cl.Attach(0, ref9p.NOFID, "alice", "", 1001); err != nil || r.Type != ref9p.Rattach {
				f.set("attach: %v", err)
				return
			}
			// rounds of G pipelined requests on private fids, some flushed right away
			ops := c.Ops[ci%len(c.Ops)]
			// fid numbers (hence the scripted implementation's request keys) are
			// unique across connections: its FlushOp identifies requests by key
			fid := uint32(100 + 1000000*ci)
			for round := 0; round < len(ops); round++ {
				var stream []byte
				want := map[uint16]bool{}
				for g := 0; g < c.G; g++ {
					nf := fid
					fid++
					tag := uint16(1 + g)
					m := &ref9p.Msg{Type: ref9p.Twalk, Tag: tag, Fid: 0, Newfid: nf, Wname: []string{fmt.Sprintf("f%d", nf)}}
					if ops[round] == "stat" || ops[round] == "statroot" {
						// a two-element walk (keys stay unique per request: the scripted
						// FlushOp only cancels requests it can identify)
						m.Wname = append(m.Wname, "fsub")
					}
					stream = append(stream, ref9p.Encode(m, c.Dotu)...)
					want[tag] = true
					if c.Flush && (g+round)%3 == 0 {
						ft := uint16(100 + g)
						stream = append(stream, ref9p.Encode(&ref9p.Msg{Type: ref9p.Tflush, Tag: ft, Oldtag: tag}, c.Dotu)...)
						want[ft] = true
						delete(want, tag) // may or may not be answered
					}
				}
				_ = cl.SendRaw(stream)
				flushed := map[uint16]bool{}
				for len(want) > 0 {
					r, _, err := cl.Recv()
					if err != nil {
						f.set("conn %d round %d: %v", ci, round, err)
						return
					}
					delete(want, r.Tag)
					if r.Type == ref9p.Rflush {
						flushed[r.Tag] = true
					}
				}
				// drain replies of flushed requests that were answered anyway: fence
				fence := &ref9p.Msg{Type: ref9p.Tstat, Tag: 0x3000, Fid: 0}
				_ = cl.Send(fence)
				for {
					r, _, err := cl.Recv()
					if err != nil {
						f.set("conn %d round %d fence: %v", ci, round, err)
						return
					}
					if r.Tag == 0x3000 {
						break
					}
				}
			}
		}(ci)
	}
	return wait(&wg, f, "raw workload")
}

func execute(test string, c *Case) error {
	hx.Journal(test, c)
	hx.Eval()
	hx.Label(fmt.Sprintf("target=%s nconn=%d", c.Target, c.NConn))
	hx.Label(fmt.Sprintf("g=%s debug=%v flush=%v procs=%d", bucket(c.G), c.Debug, c.Flush, c.Procs))
	hx.Sample(test, c)
	err := run(c)
	if h, ok := err.(hangErr); ok {
		if blocked := hx.BlockedInGo9p(); blocked != "" {
			return fmt.Errorf("%s; goroutines blocked inside go9p:\n%s", string(h), blocked)
		}
		hx.Inconclusive(string(h))
		return nil
	}
	return err
}

func bucket(n int) string {
	switch {
	case n <= 2:
		return "2"
	case n <= 6:
		return "3-6"
	}
	return "7-16"
}

var opKinds = []string{"create", "write", "read", "stat", "statroot", "statowned", "statowned", "wstat", "readdir", "remove", "walkmissing"}

func TestPropWorkloads(t *testing.T) {
	hx.Check(t, "workloads", hx.N(90, 900), func(t *rapid.T) {
		c := &Case{Target: rapid.SampledFrom([]string{"ufs", "ufs", "script", "scriptraw"}).Draw(t, "target"), Dotu: rapid.Bool().Draw(t, "dotu"),
			NConn: rapid.IntRange(1, 4).Draw(t, "nconn"), G: rapid.IntRange(2, 16).Draw(t, "g"), Flush: rapid.Bool().Draw(t, "flush"),
			Debug: rapid.IntRange(0, 2).Draw(t, "debug") == 0, Churn: rapid.IntRange(0, 4).Draw(t, "churn"), Perturb: rapid.Uint64().Draw(t, "perturb"),
			Procs: rapid.SampledFrom([]int{2, 4, 16}).Draw(t, "procs"), Maxpend: rapid.SampledFrom([]int{0, 8}).Draw(t, "maxpend")}
		ng := rapid.IntRange(1, 4).Draw(t, "nscripts")
		for i := 0; i < ng; i++ {
			ops := rapid.SliceOfN(rapid.SampledFrom(opKinds), 3, 14).Draw(t, "ops")
			if c.Target == "ufs" {
				ops = append([]string{"create"}, ops...)
			}
			c.Ops = append(c.Ops, ops)
		}
		if err := execute("workloads", c); err != nil {
			hx.Failf(t, "workloads", c, "%v", err)
		}
	})
}

func TestReplay(t *testing.T) {
	e, err := hx.LoadReplay()
	if e == nil {
		t.Skip("no replay file", err)
	}
	replayEnv(t, e, 10)
}

func replayEnv(t *testing.T, e *hx.Envelope, times int) {
	var c Case
	if err := json.Unmarshal(e.Case, &c); err != nil {
		t.Fatalf("bad case: %v", err)
	}
	for i := 0; i < times; i++ {
		if err := execute(e.Test, &c); err != nil {
			hx.Violation(e.Test, &c, err.Error())
			t.Fatalf("%v", err)
		}
	}
}

func TestRegress(t *testing.T) {
	for _, e := range hx.Regressions() {
		replayEnv(t, e, 2)
		hx.Label("regress")
	}
}
