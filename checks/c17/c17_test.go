// C17 — mutations through Ufs equal the corresponding POSIX operations.
// rapid state machine (t.Repeat) over the twin-tree executor in twin.go.
package c17

import (
	"bytes"
	"encoding/json"
	"flag"
	"fmt"
	"os"
	"strings"
	"testing"

	"pgregory.net/rapid"
	"verif/internal/hx"
)

func TestMain(m *testing.M) { hx.Main(m, "C17") }

// ---------------------------------------------------------------------------
// evidence

func record(dotu bool, o *Outcome) {
	hx.Eval()
	hx.Label(fmt.Sprintf("%s %s -> %s", o.Op, o.Label, o.Result))
	if o.BFailed || o.Touched || o.Attr != "" || o.RelTime {
		hx.NonTrivial(o.Op, o.ArgClass, o.Result, dotu, o.Touched, o.Attr)
	}
	if o.RelTime {
		hx.ExtraAdd("wstats_with_times_relative_to_current", 1)
	}
	if o.Attr != "" {
		// the step touched an object with attributes prepared on the host
		op := o.Op
		if op == "wstat" && strings.Contains(" "+o.ArgClass+"+", " mode+") {
			op = "wstat-mode"
		}
		seen := map[string]bool{}
		for _, f := range strings.Fields(o.Attr) {
			if !strings.HasPrefix(f, "on=") && !strings.HasPrefix(f, "target=") && op != "create" {
				continue // remove / rename: the attribute of the parent or the destination
			}
			for _, w := range strings.Split(f[strings.IndexByte(f, '=')+1:], "+") {
				if !seen[w] {
					seen[w] = true
					hx.Label("host-prepared " + w + ": " + op)
				}
			}
		}
		hx.ExtraAdd("steps_on_host_prepared_objects", 1)
		if op == "wstat-mode" && !o.BFailed {
			hx.ExtraAdd("chmods_of_host_prepared_objects", 1)
		}
	}
	for i, id := range o.Known {
		// a listed finding was observed: the clause it breaks (error number /
		// reply type of this step) is excluded from the verdict, everything
		// else (tree equality, A unchanged) was still checked
		hx.Known(id, o.KnownMsg[i])
		hx.Excluded(id)
	}
}

// ---------------------------------------------------------------------------
// replay and regression tiers

func TestRegress(t *testing.T) {
	if hx.Shard != 0 {
		t.Skip("regressions run in shard 0")
	}
	for _, e := range hx.Regressions() {
		replayEnv(t, e)
		hx.Label("regress")
	}
}

func TestReplay(t *testing.T) {
	e, err := hx.LoadReplay()
	if e == nil {
		t.Skip("no replay file", err)
	}
	replayEnv(t, e)
}

func replayEnv(t *testing.T, e *hx.Envelope) {
	var c Case
	if err := json.Unmarshal(e.Case, &c); err != nil {
		t.Fatalf("bad case: %v", err)
	}
	err := RunCase(&c, hx.IsKnown, func(i int, o *Outcome) { record(c.Dotu, o) })
	if err == nil {
		return
	}
	if IsHarness(err) {
		hx.Inconclusive(err.Error())
		t.Fatalf("%v", err)
	}
	hx.Violation(e.Test, &c, err.Error())
	t.Errorf("%v", err)
}

// ---------------------------------------------------------------------------
// name generators (the C16 alphabet without '/', NUL, "." and "..")

var asciiBytes = []byte("abcdefghijklmnopqrstuvwxyzABCXYZ0123456789_-+=,@%~")

func genName(t *rapid.T, label string) []byte {
	class := rapid.SampledFrom([]string{"ascii", "ascii", "ascii", "space", "dot", "dots", "nonutf8", "utf8", "len255"}).Draw(t, label+"-class")
	base := rapid.SliceOfN(rapid.SampledFrom(asciiBytes), 1, 6).Draw(t, label+"-base")
	switch class {
	case "space":
		switch rapid.IntRange(0, 2).Draw(t, label+"-sp") {
		case 0:
			return append([]byte(" "), base...)
		case 1:
			return append(base, ' ')
		}
		return append(append(append([]byte{}, base...), ' ', ' '), base...)
	case "dot":
		return append([]byte("."), base...)
	case "dots":
		switch rapid.IntRange(0, 2).Draw(t, label+"-dots") {
		case 0:
			return []byte("...")
		case 1:
			return append([]byte(".."), base...)
		}
		return append(base, '.', '.')
	case "nonutf8":
		hi := rapid.SliceOfN(rapid.ByteRange(0x80, 0xff), 1, 3).Draw(t, label+"-hi")
		return append(hi, base...)
	case "utf8":
		return append([]byte(rapid.SampledFrom([]string{"é", "日本", "ß-", "☃"}).Draw(t, label+"-u")), base...)
	case "len255":
		return append(append([]byte{}, base...), bytes.Repeat([]byte{base[0]}, 255-len(base))...)
	}
	return base
}

func drawPool(t *rapid.T) [][]byte {
	n := rapid.IntRange(4, 7).Draw(t, "npool")
	var pool [][]byte
	for i := 0; i < n; i++ {
		nm := genName(t, fmt.Sprintf("pool%d", i))
		for dup := true; dup; {
			dup = false
			for _, p := range pool {
				if bytes.Equal(p, nm) {
					dup = true
				}
			}
			if dup {
				if len(nm) >= 255 {
					nm = nm[:200]
				}
				nm = append(nm, byte('0'+i))
			}
		}
		pool = append(pool, nm)
	}
	return pool
}

func pattern(n int, seed byte) []byte {
	b := make([]byte, n)
	for i := range b {
		b[i] = seed + byte(i*7) + byte(i>>8)
	}
	return b
}

func drawData(t *rapid.T, label string) []byte {
	n := rapid.OneOf(rapid.Just(0), rapid.IntRange(1, 16), rapid.IntRange(17, 1023), rapid.IntRange(1024, 4000)).Draw(t, label+"-len")
	return pattern(n, rapid.Byte().Draw(t, label+"-seed"))
}

var permSet = []uint32{0, 0o777, 0o644, 0o600, 0o755, 0o444, 0o111, 0o200, 0o400, 0o666, 0o070, 0o007}

func drawPerm(t *rapid.T, label string) uint32 {
	return rapid.OneOf(rapid.SampledFrom(permSet), rapid.Uint32Range(0, 0o777)).Draw(t, label)
}

// explicit mtimes are kept away from the present so that a naturally produced
// mtime can never coincide with one.
var mtimeSet = []uint32{1, 1000000000, 0x7FFFFFFF, 0x80000000, 0xFFFFFFFE, 86400}

func drawMtime(t *rapid.T, label string) uint32 {
	return rapid.OneOf(rapid.SampledFrom(mtimeSet), rapid.Uint32Range(1, 1600000000), rapid.Uint32Range(2000000000, 0xFFFFFFFE)).Draw(t, label)
}

// drawNsec: a sub-second part (utimensat keeps it; a 9P time has none).
func drawNsec(t *rapid.T, label string) uint32 {
	return rapid.OneOf(rapid.SampledFrom([]uint32{1, 500000000, 999999999, 0}), rapid.Uint32Range(1, 999999999)).Draw(t, label)
}

// drawRelTimes fills the time fields of a wstat step. Half of the draws take
// the values from the object's CURRENT state (resolved by the executor when
// the Twstat is sent): its mtime second, the link's own, the parent's, its
// atime second, each exactly or one second off; Mtime / Atime then only serve
// when the object cannot be stat'ed.
func drawRelTimes(t *rapid.T, s *Step, always bool) {
	s.SetMtime = true
	s.Mtime = drawMtime(t, "mtime")
	rel := always || rapid.Bool().Draw(t, "reltime")
	if rel {
		s.MRel = rapid.SampledFrom([]string{"cur", "cur", "cur", "cur", "link", "link", "parent", "atime", ""}).Draw(t, "mrel")
		if s.MRel != "" {
			s.MOff = rapid.SampledFrom([]int32{0, 0, 0, -1, 1}).Draw(t, "moff")
		}
	}
	if rapid.Bool().Draw(t, "withatime") {
		s.SetAtime = true
		s.Atime = drawMtime(t, "atime")
		if rel {
			s.ARel = rapid.SampledFrom([]string{"cur", "cur", "mtime", "link", ""}).Draw(t, "arel")
			if s.ARel != "" {
				s.AOff = rapid.SampledFrom([]int32{0, 0, -1, 1}).Draw(t, "aoff")
			}
		}
	}
}

func cloneComps(c [][]byte, extra ...[]byte) [][]byte {
	out := make([][]byte, 0, len(c)+len(extra))
	out = append(out, c...)
	out = append(out, extra...)
	return out
}

// owners and groups of host-prepared objects (the sandbox runs as root).
var idSet = []uint32{0, 1, 1000, 65534}

// drawTree generates the initial tree.
func drawTree(t *rapid.T, pool [][]byte) []Node {
	n := rapid.IntRange(0, 12).Draw(t, "nnodes")
	dirs := [][][]byte{{}}
	var files [][][]byte
	used := map[string]bool{}
	var nodes []Node
	for i := 0; i < n; i++ {
		parent := dirs[rapid.IntRange(0, len(dirs)-1).Draw(t, "parent")]
		name := pool[rapid.IntRange(0, len(pool)-1).Draw(t, "name")]
		p := cloneComps(parent, name)
		kind := rapid.SampledFrom([]string{"file", "file", "file", "dir", "dir", "symlink", "link", "special"}).Draw(t, "kind")
		if kind == "special" {
			kind = rapid.SampledFrom([]string{"fifo", "fifo", "socket", "chardev"}).Draw(t, "specialkind")
		}
		if used[relOf(p)] {
			continue
		}
		if kind == "dir" && len(parent) >= 3 {
			kind = "file"
		}
		if kind == "link" && len(files) == 0 {
			kind = "file"
		}
		nd := Node{Path: p, Kind: kind}
		switch kind {
		case "file":
			nd.Perm = drawPerm(t, "perm")
			nd.Data = drawData(t, "data")
			files = append(files, p)
		case "dir":
			nd.Perm = drawPerm(t, "perm")
			dirs = append(dirs, p)
		case "symlink":
			nd.Target = drawTarget(t, pool, name)
		case "link":
			nd.Src = files[rapid.IntRange(0, len(files)-1).Draw(t, "src")]
		case "fifo", "socket", "chardev":
			nd.Perm = drawPerm(t, "perm")
		}
		if hasMode(kind) {
			// attributes that can only be prepared on the host: special mode
			// bits, a foreign owner or group
			if rapid.IntRange(0, 2).Draw(t, "withspecial") == 0 {
				nd.Special = uint32(rapid.IntRange(1, 7).Draw(t, "special")) << 9
			}
			if rapid.IntRange(0, 4).Draw(t, "withowner") == 0 {
				nd.Uid = rapid.SampledFrom(idSet).Draw(t, "uid")
				nd.Gid = rapid.SampledFrom(idSet).Draw(t, "gid")
			}
		}
		if hasMode(kind) && rapid.IntRange(0, 2).Draw(t, "setmtime") == 0 {
			nd.Mtime = drawMtime(t, "mtime")
			if rapid.Bool().Draw(t, "subsec") {
				nd.Mnsec = drawNsec(t, "mnsec")
			}
		}
		used[relOf(p)] = true
		nodes = append(nodes, nd)
	}
	return nodes
}

// drawTarget: a relative symlink target without ".." and without a leading
// '/', so that it can never leave the tree it lives in.
func drawTarget(t *rapid.T, pool [][]byte, self []byte) []byte {
	a := pool[rapid.IntRange(0, len(pool)-1).Draw(t, "tgt-a")]
	switch rapid.SampledFrom([]string{"name", "name", "name", "sub", "missing", "self"}).Draw(t, "tgt-class") {
	case "sub":
		b := pool[rapid.IntRange(0, len(pool)-1).Draw(t, "tgt-b")]
		return append(append(append([]byte{}, a...), '/'), b...)
	case "missing":
		return []byte("no-such-target")
	case "self":
		return append([]byte{}, self...)
	}
	return append([]byte{}, a...)
}

// ---------------------------------------------------------------------------
// the state machine

type obj struct {
	comps  [][]byte
	kind   string // by lstat: file dir symlink
	follow string // by stat: file dir none
	size   int64  // by stat, regular files
}

type gen struct {
	c    *Case
	m    *machine
	pool [][]byte
}

// objects lists B below the root (from the scan made after the last step).
func (g *gen) objects() []obj {
	var out []obj
	for i := range g.m.entB {
		e := &g.m.entB[i]
		if e.Rel == "" {
			continue
		}
		o := obj{kind: e.kind()}
		for _, c := range strings.Split(e.Rel, "/") {
			o.comps = append(o.comps, []byte(c))
		}
		o.follow = "none"
		if fi, err := os.Stat(g.m.B + "/" + e.Rel); err == nil {
			switch {
			case fi.IsDir():
				o.follow = "dir"
			case fi.Mode().IsRegular():
				o.follow = "file"
				o.size = fi.Size()
			}
		}
		out = append(out, o)
	}
	return out
}

func (g *gen) dirs() [][][]byte {
	out := [][][]byte{{}}
	for _, o := range g.objects() {
		if o.kind == "dir" {
			out = append(out, o.comps)
		}
	}
	return out
}

func (g *gen) exists(parent [][]byte, name []byte) bool {
	_, err := os.Lstat(under(g.m.B, parent) + "/" + string(name))
	return err == nil
}

// drawNewName: mostly pool names (free or occupied, whichever the tree has),
// sometimes a fresh name, a 256-byte name (ENAMETOOLONG) or one with a NUL
// (EINVAL from the os layer).
func (g *gen) drawNewName(t *rapid.T, label string) []byte {
	switch rapid.SampledFrom([]string{"pool", "pool", "pool", "pool", "pool", "pool", "fresh", "long256", "nul"}).Draw(t, label+"-src") {
	case "fresh":
		return genName(t, label)
	case "long256":
		return bytes.Repeat([]byte{'L'}, 256)
	case "nul":
		return []byte("a\x00b")
	}
	return g.pool[rapid.IntRange(0, len(g.pool)-1).Draw(t, label)]
}

func (g *gen) drawWrites(t *rapid.T, size int64, max int) []WriteOp {
	n := rapid.IntRange(1, max).Draw(t, "nwrites")
	var ws []WriteOp
	for i := 0; i < n; i++ {
		var off uint64
		switch rapid.SampledFrom([]string{"at0", "inside", "atend", "beyond"}).Draw(t, "offclass") {
		case "inside":
			if size > 0 {
				off = uint64(rapid.Int64Range(0, size-1).Draw(t, "off"))
			}
		case "atend":
			off = uint64(size)
		case "beyond":
			off = uint64(size) + uint64(rapid.IntRange(1, 5000).Draw(t, "gap"))
		}
		d := drawData(t, "wdata")
		ws = append(ws, WriteOp{Off: off, Data: d})
		if e := int64(off) + int64(len(d)); e > size {
			size = e
		}
	}
	return ws
}

func (g *gen) run(t *rapid.T, s Step) {
	g.c.Steps = append(g.c.Steps, s)
	i := len(g.c.Steps) - 1
	hx.Journal("twin", g.c)
	o, err := g.m.Exec(&g.c.Steps[i])
	if err != nil {
		if IsHarness(err) {
			hx.Inconclusive(err.Error())
			t.Fatalf("%v", err)
		}
		hx.Failf(t, "twin", g.c, "step %d (dotu=%v): %v", i, g.c.Dotu, err)
	}
	record(g.c.Dotu, o)
}

func (g *gen) keep(t *rapid.T) bool { return rapid.IntRange(0, 2).Draw(t, "keep") == 0 }

func (g *gen) stale(t *rapid.T) bool { return rapid.IntRange(0, 11).Draw(t, "stale") == 0 }

func (g *gen) createFile(t *rapid.T) {
	ds := g.dirs()
	s := g.drawCreateFile(t, ds[rapid.IntRange(0, len(ds)-1).Draw(t, "dir")])
	s.Keep = g.keep(t)
	g.run(t, s)
}

func (g *gen) drawCreateFile(t *rapid.T, parent [][]byte) Step {
	s := Step{Op: "create", Kind: "file"}
	s.Path = parent
	s.Name = g.drawNewName(t, "name")
	if isFifo(under(g.m.B, parent) + "/" + string(s.Name)) {
		t.Skip("the name is (or leads to) a FIFO: the open would wait for a peer")
	}
	s.Perm = drawPerm(t, "perm")
	s.Mode = rapid.SampledFrom([]uint8{oRead, oWrite, oRdwr, oExec}).Draw(t, "mode")
	if rapid.Bool().Draw(t, "trunc") {
		s.Mode |= oTrunc
	}
	if rapid.Bool().Draw(t, "withwrites") {
		s.Writes = g.drawWrites(t, 0, 2)
	}
	if len(s.Path) > 0 {
		s.Stale = g.stale(t)
	}
	return s
}

func (g *gen) createSpecial(t *rapid.T) {
	ds := g.dirs()
	s := g.drawCreateSpecial(t, ds[rapid.IntRange(0, len(ds)-1).Draw(t, "dir")])
	s.Keep = g.keep(t)
	g.run(t, s)
}

func (g *gen) drawCreateSpecial(t *rapid.T, parent [][]byte) Step {
	kinds := []string{"dir"}
	if g.c.Dotu {
		kinds = []string{"dir", "symlink", "symlink", "link"}
	}
	s := Step{Op: "create"}
	s.Kind = rapid.SampledFrom(kinds).Draw(t, "kind")
	s.Path = parent
	s.Name = g.drawNewName(t, "name")
	s.Perm = drawPerm(t, "perm")
	switch s.Kind {
	case "symlink":
		s.Mode = rapid.SampledFrom([]uint8{oRead, oWrite, oRdwr, oExec}).Draw(t, "mode")
		if rapid.IntRange(0, 9).Draw(t, "emptyext") == 0 {
			s.Ext = []byte{}
		} else {
			s.Ext = drawTarget(t, g.pool, s.Name)
		}
	case "link":
		s.Mode = rapid.SampledFrom([]uint8{oRead, oWrite, oRdwr, oExec}).Draw(t, "mode")
		objs := g.objects()
		if len(objs) == 0 {
			t.Skip("nothing to link to")
		}
		src := objs[rapid.IntRange(0, len(objs)-1).Draw(t, "src")]
		s.Src = src.comps
		if src.kind == "fifo" {
			// the new name is opened: only ORDWR does not wait for a peer
			s.Mode = oRdwr
		}
	}
	if len(s.Path) > 0 {
		s.Stale = g.stale(t)
	}
	return s
}

func (g *gen) write(t *rapid.T) {
	var cands []obj
	for _, o := range g.objects() {
		if o.follow == "file" {
			cands = append(cands, o)
		}
	}
	if len(cands) == 0 {
		t.Skip("no regular file")
	}
	o := cands[rapid.IntRange(0, len(cands)-1).Draw(t, "target")]
	s := Step{Op: "write", Path: o.comps}
	s.Mode = rapid.SampledFrom([]uint8{oWrite, oRdwr}).Draw(t, "mode")
	s.Writes = g.drawWrites(t, o.size, 3)
	s.Keep = g.keep(t)
	g.run(t, s)
}

func (g *gen) remove(t *rapid.T) {
	objs := g.objects()
	if len(objs) == 0 {
		t.Skip("empty tree")
	}
	o := objs[rapid.IntRange(0, len(objs)-1).Draw(t, "target")]
	s := Step{Op: "remove", Path: o.comps}
	s.Twice = rapid.IntRange(0, 3).Draw(t, "twice") == 0
	g.run(t, s)
}

func (g *gen) drawLength(t *rapid.T, o obj) uint64 {
	if o.follow != "file" {
		return uint64(rapid.SampledFrom([]int{0, 10, 4096}).Draw(t, "length"))
	}
	switch rapid.SampledFrom([]string{"zero", "shorter", "equal", "longer"}).Draw(t, "lenclass") {
	case "shorter":
		if o.size > 0 {
			return uint64(rapid.Int64Range(0, o.size-1).Draw(t, "length"))
		}
	case "equal":
		return uint64(o.size)
	case "longer":
		return uint64(o.size) + uint64(rapid.IntRange(1, 5000).Draw(t, "grow"))
	}
	return 0
}

func (g *gen) wstatOne(t *rapid.T) {
	objs := g.objects()
	if len(objs) == 0 {
		t.Skip("empty tree")
	}
	o := objs[rapid.IntRange(0, len(objs)-1).Draw(t, "target")]
	s := g.drawWstatOne(t, o)
	s.Keep = g.keep(t)
	g.run(t, s)
}

func (g *gen) drawWstatOne(t *rapid.T, o obj) Step {
	s := Step{Op: "wstat", Path: o.comps}
	switch rapid.SampledFrom([]string{"name", "name", "length", "mode", "mtime"}).Draw(t, "field") {
	case "name":
		if rapid.IntRange(0, 9).Draw(t, "samename") == 0 {
			s.Name = append([]byte{}, o.comps[len(o.comps)-1]...)
		} else {
			s.Name = g.drawNewName(t, "newname")
		}
	case "length":
		s.SetLen = true
		s.Length = g.drawLength(t, o)
	case "mode":
		s.SetMode = true
		s.WMode = drawPerm(t, "wmode")
	case "mtime":
		drawRelTimes(t, &s, false)
	}
	s.Stale = g.stale(t)
	return s
}

// hostPrepared: the object has attributes that only the host can give it.
func (g *gen) hostPrepared(o obj) bool {
	return attrOf(under(g.m.B, o.comps)) != ""
}

// wstatPrepared: a one-field wstat (mostly the mode) on an object that still
// carries host-prepared attributes — special mode bits, a special type, a
// foreign owner.
func (g *gen) wstatPrepared(t *rapid.T) {
	var cands []obj
	for _, o := range g.objects() {
		if o.kind != "symlink" && g.hostPrepared(o) {
			cands = append(cands, o)
		}
	}
	if len(cands) == 0 {
		t.Skip("no host-prepared object")
	}
	o := cands[rapid.IntRange(0, len(cands)-1).Draw(t, "target")]
	var s Step
	if rapid.Bool().Draw(t, "modeonly") {
		s = Step{Op: "wstat", Path: o.comps, SetMode: true, WMode: drawPerm(t, "wmode")}
	} else {
		s = g.drawWstatOne(t, o)
	}
	s.Keep = g.keep(t)
	g.run(t, s)
}

// reuse sends a step through a fid kept alive by an earlier step: the fid of
// a refused or accepted wstat, of a refused create (still the directory), of a
// successful create (the new object, open) or of a write.
func (g *gen) reuse(t *rapid.T) {
	if len(g.m.held) == 0 {
		t.Skip("no kept fid")
	}
	i := rapid.IntRange(0, len(g.m.held)-1).Draw(t, "kept")
	h := g.m.held[i]
	var o obj
	found := false
	for _, x := range g.objects() {
		if relOf(x.comps) == relOf(h.comps) {
			o, found = x, true
		}
	}
	if !found {
		t.Skip("kept fid's object not listed")
	}
	ops := []string{"wstat", "wstat", "remove"}
	if !h.opened && o.kind == "dir" && h.dirType {
		ops = append(ops, "create", "create")
	}
	if (!h.opened && o.follow == "file" && !h.dirType) || (h.opened && h.fB != nil && (h.mode&3 == oWrite || h.mode&3 == oRdwr)) {
		ops = append(ops, "write", "write")
	}
	var s Step
	switch rapid.SampledFrom(ops).Draw(t, "op") {
	case "wstat":
		s = g.drawWstatOne(t, o)
	case "remove":
		s = Step{Op: "remove", Path: o.comps}
	case "create":
		if rapid.Bool().Draw(t, "special") {
			s = g.drawCreateSpecial(t, o.comps)
		} else {
			s = g.drawCreateFile(t, o.comps)
		}
	case "write":
		s = Step{Op: "write", Path: o.comps}
		s.Mode = rapid.SampledFrom([]uint8{oWrite, oRdwr}).Draw(t, "mode")
		if h.opened {
			s.Mode = h.mode
		}
		s.Writes = g.drawWrites(t, o.size, 3)
	}
	s.Use = i + 1
	s.Keep = rapid.IntRange(0, 3).Draw(t, "keep") != 0
	g.run(t, s)
}

// replaced: a fid — freshly walked, or one kept by an earlier step — whose
// object is replaced behind its back before the fid is used: the object is
// removed through another fid and a file, a directory, a symlink or (from the
// host side) a FIFO appears under the same name. The remove / wstat / open +
// write / create then sent through the stale fid is judged against the POSIX
// operation on the same path in B (Ufs fids designate paths).
func (g *gen) replaced(t *rapid.T) {
	var cands []obj
	for _, o := range g.objects() {
		if c := g.m.removeClass(under(g.m.B, o.comps)); c != "nonempty-dir" && c != "free" {
			cands = append(cands, o)
		}
	}
	if len(cands) == 0 {
		t.Skip("nothing removable")
	}
	var o obj
	var h *held
	use := 0
	if len(g.m.held) > 0 && rapid.Bool().Draw(t, "viakept") {
		i := rapid.IntRange(0, len(g.m.held)-1).Draw(t, "kept")
		h = g.m.held[i]
		found := false
		for _, x := range cands {
			if relOf(x.comps) == relOf(h.comps) {
				o, found = x, true
			}
		}
		if !found {
			t.Skip("kept fid's object cannot be removed")
		}
		use = i + 1
	} else {
		o = cands[rapid.IntRange(0, len(cands)-1).Draw(t, "target")]
	}
	name := o.comps[len(o.comps)-1]
	parentB := under(g.m.B, o.comps[:len(o.comps)-1])
	newKind := rapid.SampledFrom([]string{"file", "file", "file", "dir", "dir", "dir", "symlink", "symlink", "fifo"}).Draw(t, "newkind")
	rp := Step{Replace: newKind, RPerm: drawPerm(t, "rperm")}
	rp.RHost = rapid.IntRange(0, 2).Draw(t, "rhost") == 0
	rp.Probe = rapid.Bool().Draw(t, "probe")
	// what the path will hold afterwards
	n := obj{comps: o.comps, kind: newKind, follow: "none"}
	plainTarget := true // an open of the path cannot reach a FIFO or another special file
	resolved := ""      // where a symlink leads
	switch newKind {
	case "file":
		rp.RData = drawData(t, "rdata")
		n.follow, n.size = "file", int64(len(rp.RData))
	case "dir":
		n.follow = "dir"
	case "fifo":
		plainTarget = false
	case "symlink":
		rp.RTarget = drawTarget(t, g.pool, name)
		first := strings.SplitN(string(rp.RTarget), "/", 2)[0]
		if first != string(name) { // through its own name: a loop
			resolved = parentB + "/" + string(rp.RTarget)
			if fi, err := os.Stat(resolved); err == nil {
				switch {
				case fi.IsDir():
					n.follow = "dir"
				case fi.Mode().IsRegular():
					n.follow, n.size = "file", fi.Size()
				default:
					plainTarget = false
				}
			}
		}
	}
	dirType := o.kind == "dir"
	opened := false
	if h != nil {
		dirType, opened = h.dirType, h.opened
	}
	ops := []string{"remove", "remove", "remove", "wstat", "wstat"}
	if !opened && !dirType && plainTarget {
		ops = append(ops, "write")
	}
	if !opened && dirType {
		ops = append(ops, "create", "create")
	}
	var s Step
	switch rapid.SampledFrom(ops).Draw(t, "op") {
	case "remove":
		s = Step{Op: "remove", Path: o.comps}
		s.Twice = rapid.IntRange(0, 3).Draw(t, "twice") == 0
	case "wstat":
		s = g.drawWstatOne(t, n)
	case "write":
		s = Step{Op: "write", Path: o.comps}
		s.Mode = rapid.SampledFrom([]uint8{oWrite, oRdwr}).Draw(t, "mode")
		s.Writes = g.drawWrites(t, n.size, 3)
	case "create":
		if rapid.Bool().Draw(t, "special") {
			s = g.drawCreateSpecial(t, o.comps)
			if s.Kind == "link" && relOf(s.Src) == relOf(o.comps) && newKind == "fifo" {
				s.Mode = oRdwr
			}
		} else {
			s = g.drawCreateFile(t, o.comps)
			if resolved != "" && isFifo(resolved+"/"+string(s.Name)) {
				t.Skip("the name leads to a FIFO once the directory is a symlink")
			}
		}
	}
	s.Stale = false
	s.Replace, s.RHost, s.RPerm, s.RData, s.RTarget, s.Probe = rp.Replace, rp.RHost, rp.RPerm, rp.RData, rp.RTarget, rp.Probe
	s.Use = use
	s.Keep = rapid.Bool().Draw(t, "keep")
	g.run(t, s)
}

// wstatCombo: two or more fields in one Twstat. The statement does not say
// what a partially failing combination does, so only combinations whose
// components all succeed are generated: the target is a regular file or a
// directory (not a symlink), a new name is free or the present one, the length
// is only set on regular files.
func (g *gen) wstatCombo(t *rapid.T) {
	var cands []obj
	for _, o := range g.objects() {
		if hasMode(o.kind) {
			cands = append(cands, o)
		}
	}
	if len(cands) == 0 {
		t.Skip("no file, directory or special file")
	}
	o := cands[rapid.IntRange(0, len(cands)-1).Draw(t, "target")]
	parent := o.comps[:len(o.comps)-1]
	s := Step{Op: "wstat", Path: o.comps}
	mask := rapid.IntRange(1, 15).Draw(t, "fields")
	if mask&1 != 0 {
		s.SetMode = true
		s.WMode = drawPerm(t, "wmode")
	}
	if mask&2 != 0 {
		var nm []byte
		switch rapid.SampledFrom([]string{"pool", "pool", "fresh", "same"}).Draw(t, "namesrc") {
		case "pool":
			nm = g.pool[rapid.IntRange(0, len(g.pool)-1).Draw(t, "newname")]
		case "fresh":
			nm = genName(t, "newname")
		default:
			nm = o.comps[len(o.comps)-1]
		}
		if g.exists(parent, nm) && !bytes.Equal(nm, o.comps[len(o.comps)-1]) {
			nm = nil
		}
		s.Name = append([]byte{}, nm...)
	}
	if mask&4 != 0 && o.kind == "file" {
		s.SetLen = true
		s.Length = g.drawLength(t, o)
	}
	if mask&8 != 0 {
		drawRelTimes(t, &s, false)
	}
	n := 0
	for _, b := range []bool{s.SetMode, len(s.Name) > 0, s.SetLen, s.SetMtime} {
		if b {
			n++
		}
	}
	if n < 2 {
		t.Skip("fewer than two fields")
	}
	s.Keep = g.keep(t)
	g.run(t, s)
}

// wstatTimes: a Twstat whose Mtime (and Atime) are taken from the object's
// current state — exactly the second it already shows, one second off, the
// parent's, the symbolic link's own as opposed to its target's — alone or
// together with Mode / Name / Length in the same message, on files, directories,
// special files and fids that designate a symbolic link to a file or directory.
// Two draws in three the host first gives the object (and the link itself)
// explicit times with sub-second parts in both trees, so that the resulting
// mtime is compared to the nanosecond with what the POSIX sequence chmod,
// rename, truncate, utimes leaves in B.
func (g *gen) wstatTimes(t *rapid.T) {
	var cands []obj
	for _, o := range g.objects() {
		if hasMode(o.kind) || (o.kind == "symlink" && o.follow != "none") {
			cands = append(cands, o)
		}
	}
	if len(cands) == 0 {
		t.Skip("no object whose times can be set")
	}
	// one draw in three goes to a fid on a symbolic link when the tree has one
	// (lstat and stat of the fid's path then show different objects)
	if rapid.IntRange(0, 2).Draw(t, "preferlink") == 0 {
		var links []obj
		for _, o := range cands {
			if o.kind == "symlink" {
				links = append(links, o)
			}
		}
		if len(links) > 0 {
			cands = links
		}
	}
	o := cands[rapid.IntRange(0, len(cands)-1).Draw(t, "target")]
	parent := o.comps[:len(o.comps)-1]
	s := Step{Op: "wstat", Path: o.comps}
	if rapid.IntRange(0, 2).Draw(t, "prep") != 0 {
		p := &TimePrep{Msec: drawMtime(t, "prep-mtime"), Asec: drawMtime(t, "prep-atime")}
		if rapid.IntRange(0, 3).Draw(t, "prep-subsec") != 0 {
			p.Mnsec = drawNsec(t, "prep-mnsec")
			p.Ansec = drawNsec(t, "prep-ansec")
		}
		if rapid.IntRange(0, 3).Draw(t, "prep-atime-is-mtime") == 0 {
			p.Asec = p.Msec
		}
		if o.kind == "symlink" {
			p.Link = true
			p.LMsec, p.LMnsec = drawMtime(t, "prep-lmtime"), drawNsec(t, "prep-lmnsec")
			p.LAsec, p.LAnsec = drawMtime(t, "prep-latime"), drawNsec(t, "prep-lansec")
			if rapid.IntRange(0, 3).Draw(t, "prep-link-same-second") == 0 {
				p.LMsec = p.Msec
			}
		}
		s.Prep = p
	}
	drawRelTimes(t, &s, true)
	mask := rapid.SampledFrom([]int{0, 0, 0, 1, 2, 3, 4, 4, 4, 5, 6, 7}).Draw(t, "fields")
	if mask&1 != 0 {
		s.SetMode = true
		s.WMode = drawPerm(t, "wmode")
	}
	if mask&2 != 0 {
		var nm []byte
		switch rapid.SampledFrom([]string{"pool", "pool", "fresh", "same"}).Draw(t, "namesrc") {
		case "pool":
			nm = g.pool[rapid.IntRange(0, len(g.pool)-1).Draw(t, "newname")]
		case "fresh":
			nm = genName(t, "newname")
		default:
			nm = o.comps[len(o.comps)-1]
		}
		if g.exists(parent, nm) && !bytes.Equal(nm, o.comps[len(o.comps)-1]) {
			nm = nil
		}
		s.Name = append([]byte{}, nm...)
	}
	if mask&4 != 0 && o.follow == "file" {
		s.SetLen = true
		s.Length = g.drawLength(t, o)
	}
	s.Keep = g.keep(t)
	g.run(t, s)
}

var maxSteps int

// sampleOf trims bulk data so that the evidence file stays small.
func sampleOf(c *Case) *Case {
	cut := func(b []byte) []byte {
		if len(b) > 12 {
			return b[:12]
		}
		return b
	}
	s := &Case{Dotu: c.Dotu}
	for _, n := range c.Tree {
		n.Data = cut(n.Data)
		s.Tree = append(s.Tree, n)
	}
	for _, st := range c.Steps {
		var ws []WriteOp
		for _, w := range st.Writes {
			ws = append(ws, WriteOp{Off: w.Off, Data: cut(w.Data)})
		}
		st.Writes = ws
		s.Steps = append(s.Steps, st)
	}
	return s
}

func TestPropTwin(t *testing.T) {
	_ = flag.Set("rapid.steps", "25")
	hx.Check(t, "twin", hx.N(100, 2500), func(t *rapid.T) {
		c := &Case{Dotu: rapid.Bool().Draw(t, "dotu")}
		pool := drawPool(t)
		c.Tree = drawTree(t, pool)
		hx.Journal("twin", c)
		m, err := newMachine(c, hx.IsKnown)
		if err != nil {
			hx.Inconclusive(err.Error())
			t.Fatalf("%v", err)
		}
		defer m.close()
		hx.ExtraAdd("machines", 1)
		g := &gen{c: c, m: m, pool: pool}
		t.Repeat(map[string]func(*rapid.T){
			"createFile":    g.createFile,
			"createSpecial": g.createSpecial,
			"write":         g.write,
			"remove":        g.remove,
			"wstatOne":      g.wstatOne,
			"wstatCombo":    g.wstatCombo,
			"wstatPrepared": g.wstatPrepared,
			"wstatTimes":    g.wstatTimes,
			"wstatTimes2":   g.wstatTimes,
			"reuse":         g.reuse,
			"reuseAgain":    g.reuse,
			"replaced":      g.replaced,
			"replacedAgain": g.replaced,
		})
		hx.Sample("twin", sampleOf(c))
		if len(c.Steps) > maxSteps {
			maxSteps = len(c.Steps)
			hx.Extra("max_steps", int64(maxSteps))
		}
	})
}
