// C17 — mutations through Ufs equal the corresponding POSIX operations.
//
// Twin-tree differential executor. A Case is a dialect, an initial tree and a
// list of fully concrete steps. RunCase builds the tree twice (A and B) under
// one scratch directory, exports A through an in-process Ufs, and applies every
// step to A through 9P (raw reference client) and to B with the os package per
// the correspondence table fixed in DESIGN.md §C17:
//
//	create file   -> OpenFile(p, flags(mode)|O_CREATE, perm&0777)
//	create dir    -> Mkdir(p, perm&0777)
//	create symlink-> Symlink(ext, p)
//	create link   -> Link(old, p)
//	Twrite        -> WriteAt
//	Tremove       -> Remove
//	wstat name    -> rename(2)(old, dir(old)/name)   (see note at renameB)
//	wstat length  -> Truncate
//	wstat mode    -> Chmod(mode&0777)
//	wstat mtime   -> Chtimes
//
// The initial tree is prepared on the host (the sandbox runs as root) and may
// hold what Ufs itself cannot create but can be asked to change: set-uid,
// set-gid and sticky bits on files, directories and FIFOs, foreign owners and
// groups, FIFOs, sockets and a character device node (1:3). Both twins are
// prepared by the same code. The comparison after every step is on the whole
// st_mode (type, special bits, permission bits), owner, group and device
// number of every object, not only on the permission bits.
//
// open(2) of a FIFO waits for a peer on both sides alike; steps whose
// corresponding POSIX operation would open a FIFO without O_RDWR are therefore
// not generated (and refused by the executor as a harness error).
//
// Ufs fids designate a path. A step may have the object behind its fid replaced
// first (Step.Replace: removed through another fid, then a file / directory /
// symlink / FIFO put under the same name through a third fid or by the host);
// the request through the stale fid is judged against the POSIX operation on
// the same path in B.
//
// After every step: Rerror iff the B operation failed; in 9P2000.u the ecode is
// the errno of the failing B operation; A and B are compared recursively; a
// create/remove answered with Rerror left A unchanged; after a successful
// create/rename the fid names the new object.
package c17

import (
	"errors"
	"fmt"
	"io"
	"os"
	"sort"
	"strconv"
	"strings"
	"sync"
	"syscall"
	"time"
	"unsafe"

	"github.com/rminnich/go9p"
	"verif/internal/rawc"
	"verif/internal/ref9p"
	"verif/internal/ufsrv"
)

const (
	dmDir     = 0x80000000
	dmSymlink = 0x02000000
	dmLink    = 0x01000000

	oRead  = 0
	oWrite = 1
	oRdwr  = 2
	oExec  = 3
	oTrunc = 16

	qtDir     = 0x80
	qtSymlink = 0x02

	msize = 8192

	// finding ids (must be listed in /verif/known_findings.json to be tolerated)
	kfToError    = "ufs-toerror-wrapped-errno"
	kfCreateOpen = "ufs-create-special-open-fails"
)

// Node is one object of the initial tree (parents come before children).
type Node struct {
	Path [][]byte `json:"path"`
	Kind string   `json:"kind"` // file dir symlink link fifo socket chardev
	Perm uint32   `json:"perm"`
	// host-prepared attributes (file, dir, fifo, socket, chardev only)
	Special uint32   `json:"special,omitempty"` // subset of 07000: set-uid, set-gid, sticky
	Uid     uint32   `json:"uid,omitempty"`
	Gid     uint32   `json:"gid,omitempty"`
	Data    []byte   `json:"data,omitempty"`
	Target  []byte   `json:"target,omitempty"`
	Src     [][]byte `json:"src,omitempty"`
	Mtime   uint32   `json:"mtime,omitempty"` // 0 = not set explicitly
	Mnsec   uint32   `json:"mnsec,omitempty"` // sub-second part of the explicit mtime (only with Mtime)
}

// TimePrep: times the host gives the step's object in BOTH trees (os.Chtimes,
// i.e. utimensat: with sub-second parts) right before the Twstat is sent, so
// that the object's current times are the same known values on both sides.
// Msec/Asec go to the object the path leads to (a symlink is followed); with
// Link the symbolic link itself gets LMsec/LAsec (utimensat AT_SYMLINK_NOFOLLOW).
type TimePrep struct {
	Msec   uint32 `json:"msec"`
	Mnsec  uint32 `json:"mnsec,omitempty"`
	Asec   uint32 `json:"asec"`
	Ansec  uint32 `json:"ansec,omitempty"`
	Link   bool   `json:"link,omitempty"`
	LMsec  uint32 `json:"lmsec,omitempty"`
	LMnsec uint32 `json:"lmnsec,omitempty"`
	LAsec  uint32 `json:"lasec,omitempty"`
	LAnsec uint32 `json:"lansec,omitempty"`
}

// WriteOp is one Twrite / WriteAt pair.
type WriteOp struct {
	Off  uint64 `json:"off"`
	Data []byte `json:"data"`
}

// Step is one fully concrete action.
type Step struct {
	Op   string   `json:"op"`   // create write remove wstat
	Path [][]byte `json:"path"` // create: the parent directory; otherwise the target object

	// create
	Kind string   `json:"kind,omitempty"` // file dir symlink link
	Name []byte   `json:"name,omitempty"` // create: new name; wstat: new name (empty = no rename)
	Perm uint32   `json:"perm,omitempty"`
	Mode uint8    `json:"mode,omitempty"` // open mode (create, write)
	Ext  []byte   `json:"ext,omitempty"`  // symlink target
	Src  [][]byte `json:"src,omitempty"`  // link source

	// write (also: writes through the fid of a freshly created file)
	Writes []WriteOp `json:"writes,omitempty"`

	// remove: a second fid on the same object is removed afterwards (already removed)
	Twice bool `json:"twice,omitempty"`
	// create / wstat: the fid's object (create: the parent) is removed through
	// another fid (and with os.Remove in B) before the operation
	Stale bool `json:"stale,omitempty"`

	// Use > 0: the step is sent through the Use-th fid (1-based) of the list
	// of fids kept alive by earlier steps instead of a freshly walked one
	// (Path is then that fid's object). Keep: the fid is kept alive after the
	// step (it joins the list) instead of being clunked.
	Use  int  `json:"use,omitempty"`
	Keep bool `json:"keep,omitempty"`

	// Replace != "": after the step's fid was walked (or taken from the kept
	// list) and before the operation is sent through it, the object the fid
	// names is removed through ANOTHER fid and an object of kind Replace (file
	// dir symlink fifo) is put under the same name — through a third fid
	// (Tcreate in the parent directory) or, with RHost, FIFOs and symlinks in
	// plain 9P2000, by the host in both trees. Ufs fids designate a path: the
	// operation is judged against the POSIX operation on the same path in B.
	// Probe: a Tstat is sent through the stale fid before the operation.
	Replace string `json:"replace,omitempty"`
	RHost   bool   `json:"rhost,omitempty"`
	RPerm   uint32 `json:"rperm,omitempty"`
	RData   []byte `json:"rdata,omitempty"`
	RTarget []byte `json:"rtarget,omitempty"`
	Probe   bool   `json:"probe,omitempty"`

	// wstat
	SetMode  bool   `json:"setmode,omitempty"`
	WMode    uint32 `json:"wmode,omitempty"` // permission bits
	SetLen   bool   `json:"setlen,omitempty"`
	Length   uint64 `json:"length,omitempty"`
	SetMtime bool   `json:"setmtime,omitempty"`
	Mtime    uint32 `json:"mtime,omitempty"`
	SetAtime bool   `json:"setatime,omitempty"` // only together with SetMtime
	Atime    uint32 `json:"atime,omitempty"`

	// wstat time values RELATIVE to the state of tree A at the moment the
	// Twstat is sent (resolved by the executor, after Prep / Replace / Stale):
	// MRel names where the Mtime value comes from — "cur": the mtime second of
	// the object the path leads to (stat), "link": of the object itself (lstat:
	// the symbolic link's own), "parent": of the parent directory, "atime": the
	// object's atime second — and MOff is added to it; ARel likewise for Atime
	// ("cur": the object's atime second, "mtime": its mtime second, "link": the
	// link's own atime). "" or an object that cannot be stat'ed: Mtime / Atime
	// are used as given. The resolved values are written back into the step.
	Prep *TimePrep `json:"prep,omitempty"`
	MRel string    `json:"mrel,omitempty"`
	MOff int32     `json:"moff,omitempty"`
	ARel string    `json:"arel,omitempty"`
	AOff int32     `json:"aoff,omitempty"`
}

type Case struct {
	Dotu  bool   `json:"dotu"`
	Tree  []Node `json:"tree"`
	Steps []Step `json:"steps"`
}

// ---------------------------------------------------------------------------
// tree scanning and comparison

type ent struct {
	Rel     string
	Mode    uint32 // st_mode: type, permission bits, setuid/setgid/sticky
	Nlink   uint64
	Size    int64
	Ino     uint64
	Msec    int64
	Mnsec   int64
	Uid     uint32
	Gid     uint32
	Rdev    uint64
	Target  string
	Content string
}

func (e *ent) kind() string {
	switch e.Mode & syscall.S_IFMT {
	case syscall.S_IFREG:
		return "file"
	case syscall.S_IFDIR:
		return "dir"
	case syscall.S_IFLNK:
		return "symlink"
	}
	return typeName(e.Mode)
}

func typeName(mode uint32) string {
	switch mode & syscall.S_IFMT {
	case syscall.S_IFREG:
		return "file"
	case syscall.S_IFDIR:
		return "dir"
	case syscall.S_IFLNK:
		return "symlink"
	case syscall.S_IFIFO:
		return "fifo"
	case syscall.S_IFSOCK:
		return "socket"
	case syscall.S_IFCHR:
		return "chardev"
	case syscall.S_IFBLK:
		return "blockdev"
	}
	return fmt.Sprintf("type%o", mode&syscall.S_IFMT)
}

// attrClass names the host-prepared attributes an object carries: a special
// object type, special mode bits, a foreign owner or group ("" = none).
func attrClass(st *syscall.Stat_t) string {
	var p []string
	switch st.Mode & syscall.S_IFMT {
	case syscall.S_IFREG, syscall.S_IFDIR, syscall.S_IFLNK:
	default:
		p = append(p, typeName(st.Mode))
	}
	if st.Mode&syscall.S_IFMT != syscall.S_IFLNK {
		if st.Mode&syscall.S_ISUID != 0 {
			p = append(p, "setuid")
		}
		if st.Mode&syscall.S_ISGID != 0 {
			p = append(p, "setgid")
		}
		if st.Mode&syscall.S_ISVTX != 0 {
			p = append(p, "sticky")
		}
	}
	if st.Uid != 0 || st.Gid != 0 {
		p = append(p, "owned")
	}
	return strings.Join(p, "+")
}

func attrOf(p string) string {
	fi, err := os.Lstat(p)
	if err != nil {
		return ""
	}
	return attrClass(fi.Sys().(*syscall.Stat_t))
}

// joinAttr combines the attribute classes of the objects a step touches.
func joinAttr(role string, a string, rest ...string) string {
	out := ""
	add := func(role, a string) {
		if a == "" {
			return
		}
		if out != "" {
			out += " "
		}
		out += role + "=" + a
	}
	add(role, a)
	for i := 0; i+1 < len(rest); i += 2 {
		add(rest[i], rest[i+1])
	}
	return out
}

func scan(root string) ([]ent, error) {
	var out []ent
	var rec func(abs, rel string) error
	rec = func(abs, rel string) error {
		fi, err := os.Lstat(abs)
		if err != nil {
			return err
		}
		st := fi.Sys().(*syscall.Stat_t)
		e := ent{Rel: rel, Mode: st.Mode, Nlink: uint64(st.Nlink), Ino: st.Ino, Msec: int64(st.Mtim.Sec), Mnsec: int64(st.Mtim.Nsec), Uid: st.Uid, Gid: st.Gid}
		if t := st.Mode & syscall.S_IFMT; t == syscall.S_IFCHR || t == syscall.S_IFBLK {
			e.Rdev = uint64(st.Rdev)
		}
		switch st.Mode & syscall.S_IFMT {
		case syscall.S_IFREG:
			e.Size = st.Size
			b, err := os.ReadFile(abs)
			if err != nil {
				return err
			}
			e.Content = string(b)
		case syscall.S_IFLNK:
			e.Size = st.Size
			e.Target, err = os.Readlink(abs)
			if err != nil {
				return err
			}
		}
		out = append(out, e)
		if st.Mode&syscall.S_IFMT == syscall.S_IFDIR {
			f, err := os.Open(abs)
			if err != nil {
				return err
			}
			names, err := f.Readdirnames(-1)
			f.Close()
			if err != nil {
				return err
			}
			sort.Strings(names)
			for _, n := range names {
				r := n
				if rel != "" {
					r = rel + "/" + n
				}
				if err := rec(abs+"/"+n, r); err != nil {
					return err
				}
			}
		}
		return nil
	}
	if err := rec(root, ""); err != nil {
		return nil, err
	}
	return out, nil
}

func q(s string) string {
	if len(s) > 40 {
		return fmt.Sprintf("%q…(%d bytes)", s[:24], len(s))
	}
	return fmt.Sprintf("%q", s)
}

func names(es []ent) string {
	var b strings.Builder
	for i, e := range es {
		if i > 0 {
			b.WriteString(" ")
		}
		b.WriteString(q(e.Rel))
	}
	return b.String()
}

// diffTrees compares two scans. With self=true the two scans are of the same
// tree at different times and inode numbers and full mtimes must agree too
// ("left unchanged"); otherwise inode numbers are compared only as a partition
// (which names share an inode) and mtimes are left to the explicit-mtime rule.
func diffTrees(a, b []ent, an, bn string, self bool) string {
	if len(a) != len(b) {
		return fmt.Sprintf("%s has %d objects, %s has %d: %s: [%s]  %s: [%s]", an, len(a), bn, len(b), an, names(a), bn, names(b))
	}
	firstA, firstB := map[uint64]int{}, map[uint64]int{}
	for i := range a {
		x, y := &a[i], &b[i]
		if x.Rel != y.Rel {
			return fmt.Sprintf("names differ: %s has %s where %s has %s", an, q(x.Rel), bn, q(y.Rel))
		}
		if x.Mode&syscall.S_IFMT != y.Mode&syscall.S_IFMT {
			return fmt.Sprintf("%s: kind %s in %s, %s in %s", q(x.Rel), x.kind(), an, y.kind(), bn)
		}
		if x.Mode != y.Mode {
			return fmt.Sprintf("%s (%s): st_mode %07o (%s) in %s, %07o (%s) in %s", q(x.Rel), x.kind(), x.Mode, modeText(x.Mode), an, y.Mode, modeText(y.Mode), bn)
		}
		if x.Uid != y.Uid || x.Gid != y.Gid {
			return fmt.Sprintf("%s (%s): owner %d:%d in %s, %d:%d in %s", q(x.Rel), x.kind(), x.Uid, x.Gid, an, y.Uid, y.Gid, bn)
		}
		if x.Rdev != y.Rdev {
			return fmt.Sprintf("%s (%s): device number %#x in %s, %#x in %s", q(x.Rel), x.kind(), x.Rdev, an, y.Rdev, bn)
		}
		if x.Size != y.Size {
			return fmt.Sprintf("%s (%s): size %d in %s, %d in %s", q(x.Rel), x.kind(), x.Size, an, y.Size, bn)
		}
		if x.Content != y.Content {
			return fmt.Sprintf("%s: contents differ (%d bytes) first at byte %d", q(x.Rel), len(x.Content), firstDiff(x.Content, y.Content))
		}
		if x.Target != y.Target {
			return fmt.Sprintf("%s: link target %s in %s, %s in %s", q(x.Rel), q(x.Target), an, q(y.Target), bn)
		}
		if x.Nlink != y.Nlink {
			return fmt.Sprintf("%s (%s): link count %d in %s, %d in %s", q(x.Rel), x.kind(), x.Nlink, an, y.Nlink, bn)
		}
		if self {
			if x.Ino != y.Ino {
				return fmt.Sprintf("%s: inode changed %d -> %d", q(x.Rel), x.Ino, y.Ino)
			}
			if x.Msec != y.Msec || x.Mnsec != y.Mnsec {
				return fmt.Sprintf("%s (%s): mtime changed %d.%09d -> %d.%09d", q(x.Rel), x.kind(), x.Msec, x.Mnsec, y.Msec, y.Mnsec)
			}
			continue
		}
		fa, ok := firstA[x.Ino]
		if !ok {
			fa = i
			firstA[x.Ino] = i
		}
		fb, ok := firstB[y.Ino]
		if !ok {
			fb = i
			firstB[y.Ino] = i
		}
		if fa != fb {
			return fmt.Sprintf("%s: hard-link structure differs: in %s it shares an inode with %s, in %s with %s", q(x.Rel), an, q(a[fa].Rel), bn, q(b[fb].Rel))
		}
	}
	return ""
}

// modeText spells the special bits of an st_mode.
func modeText(mode uint32) string {
	var p []string
	if mode&syscall.S_ISUID != 0 {
		p = append(p, "set-uid")
	}
	if mode&syscall.S_ISGID != 0 {
		p = append(p, "set-gid")
	}
	if mode&syscall.S_ISVTX != 0 {
		p = append(p, "sticky")
	}
	if len(p) == 0 {
		return "no special bits"
	}
	return strings.Join(p, ", ")
}

func firstDiff(a, b string) int {
	for i := 0; i < len(a) && i < len(b); i++ {
		if a[i] != b[i] {
			return i
		}
	}
	if len(a) < len(b) {
		return len(a)
	}
	return len(b)
}

// ---------------------------------------------------------------------------
// building the initial tree

func relOf(comps [][]byte) string {
	s := make([]string, len(comps))
	for i, c := range comps {
		s[i] = string(c)
	}
	return strings.Join(s, "/")
}

func under(root string, comps [][]byte) string {
	if len(comps) == 0 {
		return root
	}
	return root + "/" + relOf(comps)
}

func buildTree(root string, nodes []Node) error {
	if err := os.Mkdir(root, 0o755); err != nil {
		return err
	}
	if err := os.Chmod(root, 0o755); err != nil {
		return err
	}
	for i := range nodes {
		n := &nodes[i]
		p := under(root, n.Path)
		var err error
		switch n.Kind {
		case "file":
			err = os.WriteFile(p, n.Data, 0o600)
		case "dir":
			err = os.Mkdir(p, 0o700)
		case "symlink":
			err = os.Symlink(string(n.Target), p)
		case "link":
			err = os.Link(under(root, n.Src), p)
		case "fifo":
			err = syscall.Mkfifo(p, 0o600)
		case "socket":
			err = syscall.Mknod(p, syscall.S_IFSOCK|0o600, 0)
		case "chardev":
			err = syscall.Mknod(p, syscall.S_IFCHR|0o600, nullDev)
		default:
			err = fmt.Errorf("unknown node kind %q", n.Kind)
		}
		if err != nil {
			return fmt.Errorf("%s %s: %w", n.Kind, q(relOf(n.Path)), err)
		}
	}
	// owner first (chown(2) clears set-id bits), then the whole mode with the
	// raw system call (os.Chmod translates FileMode bits)
	for i := range nodes {
		n := &nodes[i]
		if hasMode(n.Kind) && (n.Uid != 0 || n.Gid != 0) {
			if err := syscall.Lchown(under(root, n.Path), int(n.Uid), int(n.Gid)); err != nil {
				return fmt.Errorf("chown %s: %w", q(relOf(n.Path)), err)
			}
		}
	}
	for i := range nodes {
		n := &nodes[i]
		if hasMode(n.Kind) {
			if err := syscall.Chmod(under(root, n.Path), n.Perm&0o777|n.Special&0o7000); err != nil {
				return fmt.Errorf("chmod %s: %w", q(relOf(n.Path)), err)
			}
		}
	}
	for i := range nodes {
		n := &nodes[i]
		if n.Mtime != 0 && hasMode(n.Kind) {
			if err := os.Chtimes(under(root, n.Path), time.Time{}, time.Unix(int64(n.Mtime), int64(n.Mnsec))); err != nil {
				return err
			}
		}
	}
	return nil
}

// nullDev is the device number of the character device node the initial tree
// may hold (1:3, the null device: harmless should anything open it).
const nullDev = 1<<8 | 3

// hasMode: node kinds that carry a mode, an owner and an mtime of their own.
func hasMode(kind string) bool {
	switch kind {
	case "file", "dir", "fifo", "socket", "chardev":
		return true
	}
	return false
}

// ---------------------------------------------------------------------------
// the machine

type harnessErr struct{ msg string }

func (e *harnessErr) Error() string { return "harness: " + e.msg }

func harnessf(format string, a ...interface{}) error {
	return &harnessErr{fmt.Sprintf(format, a...)}
}

// IsHarness reports infrastructure trouble (never a verdict about go9p).
func IsHarness(err error) bool {
	var h *harnessErr
	return errors.As(err, &h)
}

// Outcome describes what a step did, for the evidence counters.
type Outcome struct {
	Op       string
	Label    string // coarse class for the evidence counters
	ArgClass string // fine class: identity of a non-trivial step
	Result   string // "ok" or an errno name (of the B operation)
	BFailed  bool
	Touched  bool     // the step changed an object created earlier in the same history
	RelTime  bool     // a wstat whose time values were taken from the object's current state
	Attr     string   // host-prepared attributes of the objects the step touches ("" = none)
	Known    []string // listed findings observed (already reported with hx.Known by the caller)
	KnownMsg []string
}

type mtKey struct{ sec, nsec int64 }

type machine struct {
	c       *Case
	dotu    bool
	dir     string
	A, B    string
	cl      *rawc.C
	nextFid uint32
	entA    []ent
	entB    []ent
	setM    map[uint64]mtKey // B inode -> mtime observed in B right after it was set explicitly
	created map[uint64]bool  // B inodes created by earlier steps of this history
	known   func(id string) bool
	held    []*held // fids kept alive across steps
	cur     *held   // the fid of the step being executed
}

// held is a fid that lives across steps, with what the twin side knows about
// it: the object it was walked to (or created / renamed as), and for fids that
// are open on a regular file the B handle opened with the corresponding flags.
type held struct {
	fid        uint32
	comps      [][]byte
	inoA, inoB uint64
	opened     bool
	mode       uint8
	fB         *os.File
	alive      bool // false once a Tremove was sent (it clunks, also on error)
	keepable   bool
	// dirType: the qid type the server framework remembers for the fid (from
	// its walk or create) is QTDIR. The framework refuses Tcreate on a fid it
	// remembers as a non-directory and Topen for writing on one it remembers
	// as a directory, whatever the path holds by now: such requests are not
	// sent through a fid whose object changed kind behind its back.
	dirType bool
}

const maxHeld = 4

// acquire returns the fid the step goes through: a kept one or a fresh walk.
func (m *machine) acquire(s *Step) (*held, error) {
	if s.Use > 0 {
		if s.Use > len(m.held) {
			return nil, harnessf("step uses kept fid %d of %d", s.Use, len(m.held))
		}
		h := m.held[s.Use-1]
		if relOf(h.comps) != relOf(s.Path) {
			return nil, harnessf("step path %s is not the kept fid's object %s", q(relOf(s.Path)), q(relOf(h.comps)))
		}
		m.held = append(m.held[:s.Use-1:s.Use-1], m.held[s.Use:]...)
		m.cur = h
		if err := m.fidCheck(h, "before reusing a fid kept from an earlier step"); err != nil {
			return nil, err
		}
		return h, nil
	}
	f, err := m.walk(s.Path)
	if err != nil {
		return nil, err
	}
	h := &held{fid: f, comps: s.Path, alive: true, keepable: true}
	h.dirType = lkind(under(m.B, s.Path)) == "dir"
	h.inoA, _ = inoOf(under(m.A, s.Path))
	h.inoB, _ = inoOf(under(m.B, s.Path))
	m.cur = h
	return h, nil
}

func (m *machine) drop(h *held) {
	if h.alive {
		m.clunk(h.fid)
		h.alive = false
	}
	if h.fB != nil {
		h.fB.Close()
		h.fB = nil
	}
}

func (m *machine) release(h *held, keep bool) {
	if h.alive && keep && h.keepable && len(h.comps) > 0 && len(m.held) < maxHeld {
		m.held = append(m.held, h)
		return
	}
	m.drop(h)
}

// validateHeld drops every kept fid whose object is no longer what B has at
// the fid's path (removed, replaced or moved away through another fid): what
// such a fid refers to afterwards is only exercised by the directed variants
// (Step.Stale: removed; Step.Replace: replaced under the same name, in which
// case every kept fid on that path follows to the new object, see replace).
func (m *machine) validateHeld() {
	var keep []*held
	for _, h := range m.held {
		if ino, ok := inoOf(under(m.B, h.comps)); ok && ino == h.inoB {
			keep = append(keep, h)
		} else {
			m.drop(h)
		}
	}
	m.held = keep
}

// fidCheck: the fid still names its object (Tstat name and qid.path).
func (m *machine) fidCheck(h *held, when string) error {
	rs, err := m.cl.Stat(h.fid)
	if err != nil {
		return m.rpcErr("Tstat", err)
	}
	obj := q(relOf(h.comps))
	if rs.Type != ref9p.Rstat {
		return fmt.Errorf("%s: Tstat on the fid of %s answers %s: the fid does not refer to its object", when, obj, show(rs))
	}
	if len(h.comps) > 0 && rs.Stat.Name != string(h.comps[len(h.comps)-1]) || rs.Stat.Qid.Path != h.inoA {
		return fmt.Errorf("%s: the fid of %s (inode %d) stats as name %s qid.path %d: the fid refers to another object", when, obj, h.inoA, q(rs.Stat.Name), rs.Stat.Qid.Path)
	}
	return nil
}

var (
	srvMu   sync.Mutex
	servers = map[bool]*go9p.Ufs{}
)

// server returns the per-process Ufs of the dialect, re-rooted at root. Cases
// run one after the other in a process; Root is only read by Attach.
func server(dotu bool, root string) *go9p.Ufs {
	srvMu.Lock()
	defer srvMu.Unlock()
	u := servers[dotu]
	if u == nil {
		u = ufsrv.Start(root, dotu, msize)
		servers[dotu] = u
	}
	u.Root = root
	return u
}

var caseSeq int

func newMachine(c *Case, known func(string) bool) (*machine, error) {
	dir, err := os.MkdirTemp("", "c17-")
	if err != nil {
		return nil, harnessf("MkdirTemp: %v", err)
	}
	m := &machine{c: c, dotu: c.Dotu, dir: dir, A: dir + "/A", B: dir + "/B", nextFid: 1,
		setM: map[uint64]mtKey{}, created: map[uint64]bool{}, known: known}
	if err := buildTree(m.A, c.Tree); err != nil {
		m.close()
		return nil, harnessf("building A: %v", err)
	}
	if err := buildTree(m.B, c.Tree); err != nil {
		m.close()
		return nil, harnessf("building B: %v", err)
	}
	u := server(c.Dotu, m.A)
	caseSeq++
	m.cl = ufsrv.Raw(u, fmt.Sprintf("c17-%d", caseSeq))
	m.cl.Timeout = 60 * time.Second
	ver := "9P2000"
	if c.Dotu {
		ver = "9P2000.u"
	}
	r, err := m.cl.Version(msize, ver)
	if err != nil || r.Type != ref9p.Rversion || r.Version != ver {
		m.close()
		return nil, harnessf("version: %v %+v", err, r)
	}
	r, err = m.cl.Attach(0, ref9p.NOFID, "root", "", 0)
	if err != nil || r.Type != ref9p.Rattach {
		m.close()
		return nil, harnessf("attach: %v %+v", err, r)
	}
	if err := m.rescan(); err != nil {
		m.close()
		return nil, err
	}
	if d := diffTrees(m.entA, m.entB, "A", "B", false); d != "" {
		m.close()
		return nil, harnessf("initial trees differ: %s", d)
	}
	// explicit initial mtimes
	for i := range m.entB {
		b := &m.entB[i]
		if b.Rel != "" {
			for j := range c.Tree {
				if c.Tree[j].Mtime != 0 && relOf(c.Tree[j].Path) == b.Rel && int64(c.Tree[j].Mtime) == b.Msec && int64(c.Tree[j].Mnsec) == b.Mnsec {
					m.setM[b.Ino] = mtKey{b.Msec, b.Mnsec}
				}
			}
		}
	}
	return m, nil
}

func (m *machine) close() {
	for _, h := range m.held {
		if h.fB != nil {
			h.fB.Close()
		}
	}
	if m.cur != nil && m.cur.fB != nil {
		m.cur.fB.Close()
	}
	if m.cl != nil {
		m.cl.Close()
	}
	_ = os.RemoveAll(m.dir)
}

func (m *machine) rescan() error {
	a, err := scan(m.A)
	if err != nil {
		return harnessf("scan A: %v", err)
	}
	b, err := scan(m.B)
	if err != nil {
		return harnessf("scan B: %v", err)
	}
	m.entA, m.entB = a, b
	return nil
}

// compare rescans both trees and compares them (plus the explicit-mtime rule).
func (m *machine) compare(what string) error {
	if err := m.rescan(); err != nil {
		return err
	}
	if d := diffTrees(m.entA, m.entB, "A (through 9P)", "B (os package)", false); d != "" {
		return fmt.Errorf("after %s the trees differ: %s", what, d)
	}
	for i := range m.entB {
		b, a := &m.entB[i], &m.entA[i]
		k, ok := m.setM[b.Ino]
		if !ok {
			continue
		}
		if (mtKey{b.Msec, b.Mnsec}) != k {
			delete(m.setM, b.Ino) // legitimately changed since (same operation on both sides)
			continue
		}
		if a.Msec != b.Msec || a.Mnsec != b.Mnsec {
			return fmt.Errorf("after %s: %s has the explicitly set mtime %d.%09d in B but %d.%09d in A", what, q(b.Rel), b.Msec, b.Mnsec, a.Msec, a.Mnsec)
		}
	}
	return nil
}

func (m *machine) unchanged(pre []ent, what string) error {
	post, err := scan(m.A)
	if err != nil {
		return harnessf("scan A: %v", err)
	}
	if d := diffTrees(pre, post, "A before", "A after", true); d != "" {
		return fmt.Errorf("%s was answered with Rerror but changed the tree: %s", what, d)
	}
	return nil
}

func (m *machine) fid() uint32 { f := m.nextFid; m.nextFid++; return f }

func cloneNames(c [][]byte, extra ...[]byte) [][]byte {
	out := make([][]byte, 0, len(c)+len(extra))
	out = append(out, c...)
	return append(out, extra...)
}

func strs(comps [][]byte) []string {
	s := make([]string, len(comps))
	for i, c := range comps {
		s[i] = string(c)
	}
	return s
}

func (m *machine) rpcErr(what string, err error) error {
	if errors.Is(err, rawc.ErrTimeout) {
		return harnessf("%s: no reply within %v", what, m.cl.Timeout)
	}
	return fmt.Errorf("%s: %v", what, err)
}

// walk clones the root fid to the object at comps (which exists).
func (m *machine) walk(comps [][]byte) (uint32, error) {
	f := m.fid()
	r, err := m.cl.Walk(0, f, strs(comps)...)
	if err != nil {
		return 0, m.rpcErr("Twalk", err)
	}
	if r.Type != ref9p.Rwalk || len(r.Wqid) != len(comps) {
		return 0, fmt.Errorf("Twalk to the existing object %s failed: %s", q(relOf(comps)), show(r))
	}
	return f, nil
}

func (m *machine) clunk(f uint32) {
	_, _ = m.cl.Clunk(f)
}

func show(r *ref9p.Msg) string {
	if r == nil {
		return "<nil>"
	}
	if r.Type == ref9p.Rerror {
		return fmt.Sprintf("Rerror(%q, ecode %d)", r.Ename, r.Ecode)
	}
	return ref9p.TypeName(r.Type)
}

func errnoOf(err error) (syscall.Errno, bool) {
	var e syscall.Errno
	if errors.As(err, &e) {
		return e, true
	}
	return 0, false
}

var errnoNames = map[syscall.Errno]string{
	syscall.ENOENT: "ENOENT", syscall.EEXIST: "EEXIST", syscall.ENOTEMPTY: "ENOTEMPTY", syscall.EISDIR: "EISDIR",
	syscall.ENOTDIR: "ENOTDIR", syscall.EINVAL: "EINVAL", syscall.ENAMETOOLONG: "ENAMETOOLONG", syscall.EPERM: "EPERM",
	syscall.ELOOP: "ELOOP", syscall.EACCES: "EACCES", syscall.EIO: "EIO", syscall.EFBIG: "EFBIG", syscall.EBADF: "EBADF",
	syscall.EXDEV: "EXDEV", syscall.EMLINK: "EMLINK", syscall.ENOSPC: "ENOSPC", syscall.EBUSY: "EBUSY",
}

func errName(err error) string {
	if err == nil {
		return "ok"
	}
	if e, ok := errnoOf(err); ok {
		if n, ok := errnoNames[e]; ok {
			return n
		}
		return fmt.Sprintf("errno%d", int(e))
	}
	return "non-errno"
}

// verdict applies the reply-versus-B rule shared by all operations:
// Rerror iff the B operation failed, and in .u ecode == errno of the B
// operation. wrapped says that the failing host call on the server side is an
// os-package call (errno wrapped in *os.PathError / *os.LinkError) — the
// signature of the listed finding kfToError. extra lists further acceptable
// error numbers (create on an occupied name).
func (m *machine) verdict(o *Outcome, what string, r *ref9p.Msg, errB error, wrapped bool, extra ...syscall.Errno) error {
	isErr := r.Type == ref9p.Rerror
	if isErr != (errB != nil) {
		if errB != nil {
			return fmt.Errorf("%s: B operation failed (%v) but the 9P request succeeded (%s)", what, errB, show(r))
		}
		return fmt.Errorf("%s: B operation succeeded but the 9P request was answered %s", what, show(r))
	}
	if !isErr || !m.dotu {
		return nil
	}
	want, ok := errnoOf(errB)
	if !ok {
		return harnessf("%s: B error without errno: %v", what, errB)
	}
	if r.Ecode == uint32(want) {
		return nil
	}
	for _, e := range extra {
		if r.Ecode == uint32(e) {
			return nil
		}
	}
	msg := fmt.Sprintf("%s: 9P2000.u Rerror carries ecode %d (%q) but the POSIX operation failed with errno %d (%v)", what, r.Ecode, r.Ename, int(want), errB)
	if wrapped && r.Ecode == uint32(syscall.EIO) && m.known(kfToError) {
		o.Known = append(o.Known, kfToError)
		o.KnownMsg = append(o.KnownMsg, msg)
		return nil
	}
	return errors.New(msg)
}

func flagsOf(mode uint8) int {
	var f int
	switch mode & 3 {
	case oRead:
		f = os.O_RDONLY
	case oWrite:
		f = os.O_WRONLY
	case oRdwr:
		f = os.O_RDWR
	case oExec:
		f = os.O_RDONLY
	}
	if mode&oTrunc != 0 {
		f |= os.O_TRUNC
	}
	return f
}

func inoOf(p string) (uint64, bool) {
	fi, err := os.Lstat(p)
	if err != nil {
		return 0, false
	}
	return fi.Sys().(*syscall.Stat_t).Ino, true
}

func lkind(p string) string {
	fi, err := os.Lstat(p)
	if err != nil {
		return "free"
	}
	switch {
	case fi.Mode()&os.ModeSymlink != 0:
		return "symlink"
	case fi.IsDir():
		return "dir"
	case fi.Mode().IsRegular():
		return "file"
	}
	return typeName(fi.Sys().(*syscall.Stat_t).Mode)
}

// isFifo: p (followed) is a FIFO; opening it would wait for a peer.
func isFifo(p string) bool {
	fi, err := os.Stat(p)
	return err == nil && fi.Mode()&os.ModeNamedPipe != 0
}

func nameClass(n []byte) string {
	switch {
	case len(n) == 0:
		return "empty"
	case strings.IndexByte(string(n), 0) >= 0:
		return "nul"
	case len(n) > 255:
		return "toolong"
	case len(n) == 255:
		return "len255"
	}
	return "plain"
}

// staleRemove removes the object at comps through a fresh fid and in B (a
// checked remove step of its own).
func (m *machine) staleRemove(o *Outcome, comps [][]byte) error {
	f, err := m.walk(comps)
	if err != nil {
		return err
	}
	pre := m.entA
	r, err := m.cl.Remove(f)
	if err != nil {
		return m.rpcErr("Tremove", err)
	}
	errB := os.Remove(under(m.B, comps))
	what := fmt.Sprintf("Tremove(%s) [making a fid stale]", q(relOf(comps)))
	if err := m.verdict(o, what, r, errB, true); err != nil {
		return err
	}
	if r.Type == ref9p.Rerror {
		if err := m.unchanged(pre, what); err != nil {
			return err
		}
	}
	return m.compare(what)
}

// oldClass folds the kind of a replaced object for the evidence labels.
func oldClass(k string) string {
	switch k {
	case "file", "hardlinked-file":
		return "file"
	case "empty-dir":
		return "dir"
	case "symlink":
		return "symlink"
	}
	return "special"
}

// replace makes the fid h (already walked to s.Path) stale in the strong
// sense: the object at s.Path is removed through another fid (a checked remove
// of its own) and an object of kind s.Replace is created under the same name,
// through a third fid or by the host in both trees alike. Afterwards h is
// expected to designate whatever the path holds (Ufs fids are path-based), so
// the twin side's record of the fid is moved to the new object. Returns the
// class of the replaced object.
func (m *machine) replace(o *Outcome, s *Step, h *held) (string, error) {
	if len(s.Path) == 0 {
		return "", harnessf("replace of the root")
	}
	if s.Stale {
		return "", harnessf("step both stale and replace")
	}
	tA, tB := under(m.A, s.Path), under(m.B, s.Path)
	old := m.removeClass(tB)
	if old == "free" || old == "nonempty-dir" {
		return "", harnessf("replace of %s, which is %s; the generator must not produce it", q(relOf(s.Path)), old)
	}
	if err := m.staleRemove(o, s.Path); err != nil {
		return "", err
	}
	if lkind(tB) != "free" {
		return "", harnessf("replace: %s (%s) could not be removed in B", q(relOf(s.Path)), old)
	}
	parent := s.Path[:len(s.Path)-1]
	name := string(s.Path[len(s.Path)-1])
	perm := s.RPerm & 0o777
	host := s.RHost || s.Replace == "fifo" || (s.Replace == "symlink" && !m.dotu)
	what := fmt.Sprintf("putting a %s where a fid still names the removed %s %s", s.Replace, old, q(relOf(s.Path)))
	if host {
		for _, p := range []string{tA, tB} {
			var err error
			switch s.Replace {
			case "file":
				if err = os.WriteFile(p, s.RData, 0o600); err == nil {
					err = os.Chmod(p, os.FileMode(perm))
				}
			case "dir":
				if err = os.Mkdir(p, 0o700); err == nil {
					err = os.Chmod(p, os.FileMode(perm))
				}
			case "symlink":
				err = os.Symlink(string(s.RTarget), p)
			case "fifo":
				if err = syscall.Mkfifo(p, 0o600); err == nil {
					err = os.Chmod(p, os.FileMode(perm))
				}
			default:
				err = fmt.Errorf("unknown kind %q", s.Replace)
			}
			if err != nil {
				return "", harnessf("%s (host side): %v", what, err)
			}
		}
		what += " (host side)"
	} else {
		f, err := m.walk(parent)
		if err != nil {
			return "", err
		}
		defer m.clunk(f)
		wperm, mode, ext := perm, uint8(oRdwr), ""
		switch s.Replace {
		case "file":
		case "dir":
			wperm |= dmDir
			mode = oRead
		case "symlink":
			wperm |= dmSymlink
			ext = string(s.RTarget)
		default:
			return "", harnessf("replace kind %q through 9P", s.Replace)
		}
		what = fmt.Sprintf("Tcreate(%s in %s, perm %#o, mode %d, ext %s) [%s]", q(name), q(relOf(parent)), wperm, mode, q(ext), what)
		r, err := m.cl.Create(f, name, wperm, mode, ext)
		if err != nil {
			return "", m.rpcErr("Tcreate", err)
		}
		var errB error
		var fB *os.File
		switch s.Replace {
		case "file":
			fB, errB = os.OpenFile(tB, os.O_RDWR|os.O_CREATE, os.FileMode(perm))
		case "dir":
			errB = os.Mkdir(tB, os.FileMode(perm))
		case "symlink":
			errB = os.Symlink(ext, tB)
		}
		if fB != nil {
			defer fB.Close()
		}
		if err := m.verdict(o, what, r, errB, true); err != nil {
			return "", err
		}
		if errB != nil {
			return "", harnessf("%s: refused on both sides (%v)", what, errB)
		}
		if fB != nil && len(s.RData) > 0 {
			if err := m.writeBoth(o, f, fB, WriteOp{Data: s.RData}, what); err != nil {
				return "", err
			}
		}
	}
	if err := m.compare(what); err != nil {
		return "", err
	}
	h.inoA, _ = inoOf(tA)
	h.inoB, _ = inoOf(tB)
	if h.inoB != 0 {
		m.created[h.inoB] = true
	}
	// other kept fids on the same path are stale in the same way
	for _, g := range m.held {
		if relOf(g.comps) == relOf(s.Path) {
			g.inoA, g.inoB = h.inoA, h.inoB
		}
	}
	o.Touched = true
	if s.Probe {
		// observation only: the fid designates its path
		if err := m.fidCheck(h, "after "+what); err != nil {
			return "", err
		}
	}
	return oldClass(old), nil
}

// replacedClass decorates the evidence classes of a step sent through a fid
// whose object was replaced.
func replacedClass(o *Outcome, s *Step, old string) {
	if s.Replace == "" {
		return
	}
	via := "9p"
	if s.RHost || s.Replace == "fifo" {
		via = "host"
	}
	o.ArgClass += fmt.Sprintf(" replaced:%s-by-%s-%s", old, s.Replace, via)
	if s.Probe {
		o.ArgClass += "-probed"
	}
	if old != "dir" {
		old = "non-directory" // the evidence labels only tell the remembered qid type
	}
	o.Label = fmt.Sprintf("stale fid, %s replaced by %s", old, s.Replace)
}

// Exec applies one step to both trees and checks it.
func (m *machine) Exec(s *Step) (*Outcome, error) {
	o := &Outcome{Op: s.Op}
	var err error
	switch s.Op {
	case "create":
		err = m.execCreate(o, s)
	case "write":
		err = m.execWrite(o, s)
	case "remove":
		err = m.execRemove(o, s)
	case "wstat":
		err = m.execWstat(o, s)
	default:
		err = harnessf("unknown op %q", s.Op)
	}
	if h := m.cur; h != nil {
		m.cur = nil
		m.release(h, s.Keep && err == nil)
	}
	if err == nil {
		m.validateHeld()
	}
	if s.Use > 0 {
		if f := strings.Fields(o.Label); len(f) > 0 && s.Replace == "" {
			o.Label = "through a kept fid: " + f[0]
		}
		o.ArgClass += " kept-fid"
	}
	return o, err
}

func (m *machine) execCreate(o *Outcome, s *Step) error {
	if (s.Kind == "symlink" || s.Kind == "link") && !m.dotu {
		return harnessf("special create generated for plain 9P2000")
	}
	tA := under(m.A, s.Path) + "/" + string(s.Name)
	tB := under(m.B, s.Path) + "/" + string(s.Name)
	h, err := m.acquire(s)
	if err != nil {
		return err
	}
	if h.opened {
		return harnessf("create through an open fid")
	}
	fid := h.fid
	ext := string(s.Ext)
	perm := s.Perm & 0o777
	wperm := perm
	var srcIno uint64
	switch s.Kind {
	case "dir":
		wperm |= dmDir
	case "symlink":
		wperm |= dmSymlink
	case "link":
		wperm |= dmLink
		sf, err := m.walk(s.Src)
		if err != nil {
			return err
		}
		defer m.clunk(sf)
		ext = strconv.FormatUint(uint64(sf), 10)
		srcIno, _ = inoOf(under(m.A, s.Src))
	}
	if s.Stale {
		if err := m.staleRemove(o, s.Path); err != nil {
			return err
		}
	}
	var replaced string
	if s.Replace != "" {
		// the directory the fid names is replaced (by another directory, a
		// file, a symlink, a FIFO): the create happens at path/name in B
		if replaced, err = m.replace(o, s, h); err != nil {
			return err
		}
	}
	if s.Kind == "link" && s.Replace != "" {
		// fids designate paths: when the link source is the replaced object
		// itself, the source is what the path holds now
		srcIno, _ = inoOf(under(m.A, s.Src))
	}
	if pi, ok := inoOf(under(m.B, s.Path)); ok && m.created[pi] {
		o.Touched = true
	}
	occ := lkind(tB)
	if oi, ok := inoOf(tB); ok && m.created[oi] {
		o.Touched = true
	}
	o.Attr = joinAttr("parent", attrOf(under(m.B, s.Path)), "at", attrOf(tB))
	if s.Kind == "link" {
		o.Attr = joinAttr("parent", attrOf(under(m.B, s.Path)), "at", attrOf(tB), "src", attrOf(under(m.B, s.Src)))
	}
	if s.Kind == "file" && isFifo(tB) {
		return harnessf("create of a file on a name that is (or leads to) a FIFO: the open waits for a peer on both sides; the generator must not produce it")
	}
	if s.Kind == "link" && lkind(under(m.B, s.Src)) == "fifo" && s.Mode&3 != oRdwr {
		return harnessf("hard link to a FIFO with an open mode other than ORDWR: the open of the new name waits for a peer; the generator must not produce it")
	}
	o.ArgClass = fmt.Sprintf("%s name=%s at=%s", s.Kind, nameClass(s.Name), occ)
	o.Label = strings.Replace(o.ArgClass, "name=len255", "name=plain", 1)
	if s.Stale {
		o.Label = s.Kind + " stale-parent"
	}
	if s.Kind == "file" {
		o.ArgClass += fmt.Sprintf(" mode=%d", s.Mode)
	}
	if s.Kind == "symlink" {
		o.ArgClass += " target=" + m.targetClass(under(m.B, s.Path), ext)
	}
	if s.Kind == "link" {
		o.ArgClass += " src=" + lkind(under(m.B, s.Src))
	}
	if s.Stale {
		o.ArgClass += " stale-parent"
	}
	replacedClass(o, s, replaced)
	what := fmt.Sprintf("Tcreate(%s in %s, perm %#o, mode %d, ext %s) [%s]", q(string(s.Name)), q(relOf(s.Path)), wperm, s.Mode, q(ext), o.ArgClass)

	pre := m.entA
	r, err := m.cl.Create(fid, string(s.Name), wperm, s.Mode, ext)
	if err != nil {
		return m.rpcErr("Tcreate", err)
	}
	isErr := r.Type == ref9p.Rerror

	// the B operation
	var errB error
	var fB *os.File
	occupiedFile := s.Kind == "file" && occ != "free"
	var extra []syscall.Errno
	if occupiedFile && isErr {
		// 9P says "error", the POSIX analogue of which is an exclusive create
		// (EEXIST); the code opens without O_EXCL. Both are accepted. The B
		// operation (non-exclusive open) is only run when it cannot succeed.
		if err := m.unchanged(pre, what); err != nil {
			return err
		}
		pred := predictOpen(tB)
		switch pred {
		case "succeed":
			o.Result = "EEXIST"
			o.BFailed = true
			if m.dotu && r.Ecode != uint32(syscall.EEXIST) {
				msg := fmt.Sprintf("%s: answered %s on an occupied name; the POSIX analogue (exclusive create) fails with EEXIST (17)", what, show(r))
				if r.Ecode == uint32(syscall.EIO) && m.known(kfToError) {
					o.Known = append(o.Known, kfToError)
					o.KnownMsg = append(o.KnownMsg, msg)
				} else {
					return errors.New(msg)
				}
			}
			if err := m.compare(what); err != nil {
				return err
			}
			return m.fidCheck(h, what+" was answered with Rerror")
		case "unknown":
			o.Result = "occupied-error"
			o.BFailed = true
			if err := m.compare(what); err != nil {
				return err
			}
			return m.fidCheck(h, what+" was answered with Rerror")
		}
		extra = []syscall.Errno{syscall.EEXIST}
	}
	switch s.Kind {
	case "file":
		fB, errB = os.OpenFile(tB, flagsOf(s.Mode)|os.O_CREATE, os.FileMode(perm))
		h.fB = fB // closed when the fid is released
	case "dir":
		errB = os.Mkdir(tB, os.FileMode(perm))
	case "symlink":
		errB = os.Symlink(ext, tB)
	case "link":
		errB = os.Link(under(m.B, s.Src), tB)
	default:
		return harnessf("unknown create kind %q", s.Kind)
	}
	o.Result = errName(errB)
	o.BFailed = errB != nil
	if lkind(under(m.B, s.Path)) == "free" {
		// the parent is gone and the name may be refused as well: two causes
		extra = append(extra, syscall.ENOENT)
	}

	// listed finding: symlink / hard link created, but the follow-up open of
	// the new name fails and the request is answered with Rerror.
	if isErr && errB == nil && (s.Kind == "symlink" || s.Kind == "link") && m.known(kfCreateOpen) {
		if _, ok := inoOf(tA); ok {
			if err := m.compare(what); err != nil {
				return err
			}
			o.Known = append(o.Known, kfCreateOpen)
			o.KnownMsg = append(o.KnownMsg, fmt.Sprintf("%s: the %s was created (A equals B) but the request was answered %s", what, s.Kind, show(r)))
			if bi, ok := inoOf(tB); ok {
				m.created[bi] = true
			}
			return nil
		}
	}
	if err := m.verdict(o, what, r, errB, true, extra...); err != nil {
		if isErr && errB == nil {
			if _, ok := inoOf(tA); ok {
				return fmt.Errorf("%v — and the object now exists in A (created although the reply is an error)", err)
			}
		}
		return err
	}
	if isErr {
		if err := m.unchanged(pre, what); err != nil {
			return err
		}
		if err := m.compare(what); err != nil {
			return err
		}
		if lkind(under(m.B, s.Path)) != "free" {
			// the fid still is the directory and can go on being used
			return m.fidCheck(h, what+" was answered with Rerror")
		}
		return nil
	}
	if err := m.compare(what); err != nil {
		return err
	}
	if bi, ok := inoOf(tB); ok && occ == "free" {
		m.created[bi] = true
	}
	// the fid now is the new object, open with the requested mode
	h.comps = cloneNames(s.Path, s.Name)
	h.inoA, _ = inoOf(tA)
	h.inoB, _ = inoOf(tB)
	h.opened, h.mode = true, s.Mode
	h.keepable = occ == "free"
	h.dirType = s.Kind == "dir"

	// the fid refers to the created object
	if occ == "free" {
		ino, ok := inoOf(tA)
		if !ok {
			return fmt.Errorf("%s succeeded but %s does not exist in A", what, q(string(s.Name)))
		}
		wantType := uint8(0)
		switch s.Kind {
		case "dir":
			wantType = qtDir
		case "symlink":
			wantType = qtSymlink
		case "link":
			if lkind(tA) == "symlink" {
				wantType = qtSymlink
			}
			if ino != srcIno {
				return fmt.Errorf("%s: the new name has inode %d, the link source %d", what, ino, srcIno)
			}
		}
		if r.Qid.Path != ino || r.Qid.Type&(qtDir|qtSymlink) != wantType {
			return fmt.Errorf("%s: Rcreate qid (type %#x path %d) is not the created object (type %#x inode %d)", what, r.Qid.Type, r.Qid.Path, wantType, ino)
		}
		st, err := m.cl.Stat(fid)
		if err != nil {
			return m.rpcErr("Tstat", err)
		}
		if st.Type != ref9p.Rstat {
			return fmt.Errorf("%s succeeded but Tstat on the fid answers %s: the fid does not refer to the created object", what, show(st))
		}
		if st.Stat.Name != string(s.Name) || st.Stat.Qid.Path != ino {
			return fmt.Errorf("%s succeeded but the fid stats as name %s qid.path %d; the created object is %s inode %d", what, q(st.Stat.Name), st.Stat.Qid.Path, q(string(s.Name)), ino)
		}
		if s.Kind == "symlink" && st.Stat.Ext != ext {
			return fmt.Errorf("%s: the fid stats with link target %s", what, q(st.Stat.Ext))
		}
	}

	// a created file is open with the requested mode: write and read through the fid
	if s.Kind == "file" && fB != nil {
		acc := s.Mode & 3
		if acc == oWrite || acc == oRdwr {
			for _, w := range s.Writes {
				if err := m.writeBoth(o, fid, fB, w, what); err != nil {
					return err
				}
			}
			if len(s.Writes) > 0 {
				if err := m.compare(what + " + Twrite through the created fid"); err != nil {
					return err
				}
			}
		}
		// read through the fid with every access mode: the B handle was opened
		// with the corresponding flags, so a write-only handle refuses (EBADF)
		rr, err := m.cl.Read(fid, 0, 4096)
		if err != nil {
			return m.rpcErr("Tread", err)
		}
		buf := make([]byte, 4096)
		n, rerr := fB.ReadAt(buf, 0)
		if rerr != nil && n > 0 || errors.Is(rerr, io.EOF) {
			rerr = nil
		}
		if (rr.Type == ref9p.Rerror) != (rerr != nil) {
			return fmt.Errorf("%s: Tread on the created fid answers %s; ReadAt on the B handle (opened with the flags corresponding to mode %d): %d bytes, err %v", what, show(rr), s.Mode, n, rerr)
		}
		if rerr == nil && string(rr.Data) != string(buf[:n]) {
			return fmt.Errorf("%s: Tread on the created fid returns %d bytes, the B handle %d (first difference at %d)", what, len(rr.Data), n, firstDiff(string(rr.Data), string(buf[:n])))
		}
	}
	return nil
}

// targetClass classifies a symlink target relative to dir in B.
func (m *machine) targetClass(dir, ext string) string {
	if ext == "" {
		return "empty"
	}
	fi, err := os.Stat(dir + "/" + ext)
	if err != nil {
		if e, ok := errnoOf(err); ok && e == syscall.ELOOP {
			return "loop"
		}
		return "dangling"
	}
	if fi.IsDir() {
		return "dir"
	}
	return "file"
}

// predictOpen predicts whether a non-exclusive OpenFile(p, …|O_CREATE) on the
// occupied name p would succeed, without running it.
func predictOpen(p string) string {
	switch lkind(p) {
	case "file":
		return "succeed"
	case "dir":
		return "fail"
	case "symlink":
		fi, err := os.Stat(p)
		if err == nil {
			if fi.IsDir() {
				return "fail"
			}
			if fi.Mode().IsRegular() {
				return "succeed"
			}
			return "unknown"
		}
		if e, ok := errnoOf(err); ok && e == syscall.ELOOP {
			return "fail"
		}
		return "unknown"
	}
	return "unknown"
}

func (m *machine) writeBoth(o *Outcome, fid uint32, fB *os.File, w WriteOp, ctx string) error {
	what := fmt.Sprintf("%s: Twrite(%d bytes at %d)", ctx, len(w.Data), w.Off)
	r, err := m.cl.Write(fid, w.Off, w.Data)
	if err != nil {
		return m.rpcErr("Twrite", err)
	}
	n, errB := fB.WriteAt(w.Data, int64(w.Off))
	if err := m.verdict(o, what, r, errB, true); err != nil {
		return err
	}
	if errB != nil {
		o.BFailed = true
		o.Result = errName(errB)
	}
	if r.Type == ref9p.Rwrite && int(r.Count) != n {
		return fmt.Errorf("%s: Rwrite count %d, WriteAt wrote %d", what, r.Count, n)
	}
	return nil
}

func (m *machine) execWrite(o *Outcome, s *Step) error {
	tB := under(m.B, s.Path)
	h, err := m.acquire(s)
	if err != nil {
		return err
	}
	fid := h.fid
	var replaced string
	if s.Replace != "" {
		if h.opened {
			return harnessf("replace before a write through an open fid")
		}
		if replaced, err = m.replace(o, s, h); err != nil {
			return err
		}
	}
	if fi, err := os.Stat(tB); err == nil {
		if m.created[fi.Sys().(*syscall.Stat_t).Ino] {
			o.Touched = true
		}
	}
	var size int64
	if fi, err := os.Stat(tB); err == nil {
		size = fi.Size()
	}
	if isFifo(tB) && !h.opened {
		return harnessf("write step on %s, which is (or leads to) a FIFO: the open waits for a peer on both sides; the generator must not produce it", q(relOf(s.Path)))
	}
	if fi, err := os.Stat(tB); err == nil {
		o.Attr = joinAttr("on", attrClass(fi.Sys().(*syscall.Stat_t)))
	}
	o.ArgClass = fmt.Sprintf("via=%s mode=%d n=%d", lkind(tB), s.Mode, len(s.Writes))
	o.Label = "via=" + lkind(tB)
	if len(s.Writes) > 0 {
		o.Label += " first=" + offClass(s.Writes[0].Off, size) + "/" + lenClass(len(s.Writes[0].Data))
	}
	for _, w := range s.Writes {
		o.ArgClass += " " + offClass(w.Off, size) + "/" + lenClass(len(w.Data))
	}
	replacedClass(o, s, replaced)
	ctx := fmt.Sprintf("%s [%s]", q(relOf(s.Path)), o.ArgClass)
	if h.opened {
		// a fid kept open by an earlier create or write step
		if h.fB == nil || (h.mode&3 != oWrite && h.mode&3 != oRdwr) {
			return harnessf("write through a kept fid that is not open for writing on a file")
		}
		o.Result = "ok"
		ctx += " through a fid kept open since an earlier step"
	} else {
		what := fmt.Sprintf("Topen(%s, mode %d)", q(relOf(s.Path)), s.Mode)
		r, err := m.cl.Open(fid, s.Mode)
		if err != nil {
			return m.rpcErr("Topen", err)
		}
		fB, errB := os.OpenFile(tB, flagsOf(s.Mode), 0)
		h.fB = fB
		if (r.Type == ref9p.Rerror) != (errB != nil) {
			return fmt.Errorf("%s before a write: 9P answers %s, OpenFile in B: %v", what, show(r), errB)
		}
		o.Result = errName(errB)
		if errB != nil {
			o.BFailed = true
			return m.compare(what)
		}
		h.opened, h.mode = true, s.Mode
	}
	for _, w := range s.Writes {
		if err := m.writeBoth(o, fid, h.fB, w, ctx); err != nil {
			return err
		}
	}
	if err := m.compare("Twrite on " + ctx); err != nil {
		return err
	}
	return m.fidCheck(h, "after Twrite on "+ctx)
}

func offClass(off uint64, size int64) string {
	switch {
	case off == 0:
		return "at0"
	case int64(off) < size:
		return "inside"
	case int64(off) == size:
		return "atend"
	}
	return "beyond"
}

func lenClass(n int) string {
	switch {
	case n == 0:
		return "len0"
	case n <= 16:
		return "small"
	case n < 1024:
		return "medium"
	}
	return "large"
}

func (m *machine) removeClass(tB string) string {
	k := lkind(tB)
	switch k {
	case "dir":
		f, err := os.Open(tB)
		if err == nil {
			n, _ := f.Readdirnames(1)
			f.Close()
			if len(n) > 0 {
				return "nonempty-dir"
			}
		}
		return "empty-dir"
	case "file":
		if fi, err := os.Lstat(tB); err == nil && fi.Sys().(*syscall.Stat_t).Nlink > 1 {
			return "hardlinked-file"
		}
	}
	return k
}

func (m *machine) execRemove(o *Outcome, s *Step) error {
	tB := under(m.B, s.Path)
	h, err := m.acquire(s)
	if err != nil {
		return err
	}
	fid := h.fid
	var fid2 uint32
	if s.Twice {
		if fid2, err = m.walk(s.Path); err != nil {
			return err
		}
	}
	var replaced string
	if s.Replace != "" {
		// both fids are stale afterwards
		if replaced, err = m.replace(o, s, h); err != nil {
			return err
		}
	}
	if bi, ok := inoOf(tB); ok && m.created[bi] {
		o.Touched = true
	}
	o.ArgClass = m.removeClass(tB)
	o.Attr = joinAttr("on", attrOf(tB), "parent", attrOf(tB[:strings.LastIndexByte(tB, '/')]))
	if s.Twice {
		o.ArgClass += " twice"
	}
	o.Label = o.ArgClass
	replacedClass(o, s, replaced)
	what := fmt.Sprintf("Tremove(%s) [%s]", q(relOf(s.Path)), o.ArgClass)
	pre := m.entA
	h.alive = false // Tremove clunks the fid whatever the outcome
	r, err := m.cl.Remove(fid)
	if err != nil {
		return m.rpcErr("Tremove", err)
	}
	errB := os.Remove(tB)
	o.Result = errName(errB)
	o.BFailed = errB != nil
	if err := m.verdict(o, what, r, errB, true); err != nil {
		return err
	}
	if r.Type == ref9p.Rerror {
		if err := m.unchanged(pre, what); err != nil {
			return err
		}
	}
	if err := m.compare(what); err != nil {
		return err
	}
	if !s.Twice {
		return nil
	}
	what = fmt.Sprintf("second Tremove(%s) through another fid [%s]", q(relOf(s.Path)), o.ArgClass)
	pre = m.entA
	r, err = m.cl.Remove(fid2)
	if err != nil {
		return m.rpcErr("Tremove", err)
	}
	errB = os.Remove(tB)
	o.Result += "," + errName(errB)
	o.BFailed = o.BFailed || errB != nil
	if err := m.verdict(o, what, r, errB, true); err != nil {
		return err
	}
	if r.Type == ref9p.Rerror {
		if err := m.unchanged(pre, what); err != nil {
			return err
		}
	}
	return m.compare(what)
}

// renameB is the POSIX operation corresponding to a wstat that changes the
// name. The os package's Rename adds a non-POSIX pre-check (it refuses every
// existing directory as destination with EEXIST, also an empty one, and never
// reports ENOTEMPTY); the property speaks of the POSIX operation, so B uses
// rename(2) itself.
func renameB(oldp, newp string) error {
	for {
		err := syscall.Rename(oldp, newp)
		if err != syscall.EINTR {
			return err
		}
	}
}

func (m *machine) execWstat(o *Outcome, s *Step) error {
	tA := under(m.A, s.Path)
	tB := under(m.B, s.Path)
	if len(s.Path) == 0 {
		return harnessf("wstat on the root")
	}
	nfields := 0
	for _, b := range []bool{s.SetMode, len(s.Name) > 0, s.SetLen, s.SetMtime} {
		if b {
			nfields++
		}
	}
	if nfields == 0 || (s.SetAtime && !s.SetMtime) {
		return harnessf("bad wstat step")
	}
	h, err := m.acquire(s)
	if err != nil {
		return err
	}
	fid := h.fid
	var replaced string
	if s.Replace != "" {
		if replaced, err = m.replace(o, s, h); err != nil {
			return err
		}
	}
	inoA := h.inoA
	_ = tA
	kind := lkind(tB)
	if bi, ok := inoOf(tB); ok && m.created[bi] {
		o.Touched = true
	}
	if s.Stale {
		if err := m.staleRemove(o, s.Path); err != nil {
			return err
		}
	}
	parentB := tB[:strings.LastIndexByte(tB, '/')]
	oldName := string(s.Path[len(s.Path)-1])
	if s.Prep != nil {
		if err := m.prepTimes(s, tA, tB); err != nil {
			return err
		}
	}
	relClass := m.resolveTimes(o, s, tA)
	o.Attr = joinAttr("on", attrOf(tB))
	if len(s.Name) > 0 {
		o.Attr = joinAttr("on", attrOf(tB), "parent", attrOf(parentB), "onto", attrOf(parentB+"/"+string(s.Name)))
	}
	if s.SetLen {
		if fi, err := os.Stat(tB); err == nil && fi.Mode().IsRegular() && lkind(tB) == "symlink" {
			o.Attr = joinAttr("on", attrOf(tB), "target", attrClass(fi.Sys().(*syscall.Stat_t)))
		}
	}

	// argument class
	var parts []string
	if s.SetMode {
		parts = append(parts, "mode")
	}
	if len(s.Name) > 0 {
		dst := parentB + "/" + string(s.Name)
		c := "name:" + nameClass(s.Name) + ":"
		switch {
		case string(s.Name) == oldName:
			c += "same"
		case lkind(dst) == "dir":
			c += "onto-" + m.removeClass(dst)
		default:
			c += "onto-" + lkind(dst)
		}
		parts = append(parts, c)
		if di, ok := inoOf(dst); ok && m.created[di] {
			o.Touched = true
		}
	}
	if s.SetLen {
		c := "length:"
		var size int64 = -1
		if fi, err := os.Stat(tB); err == nil && fi.Mode().IsRegular() {
			size = fi.Size()
		}
		switch {
		case size < 0:
			c += "nonfile"
		case s.Length == 0:
			c += "zero"
		case int64(s.Length) < size:
			c += "shorter"
		case int64(s.Length) == size:
			c += "equal"
		default:
			c += "longer"
		}
		parts = append(parts, c)
	}
	if s.SetMtime {
		if s.SetAtime {
			parts = append(parts, "mtime+atime"+relClass)
		} else {
			parts = append(parts, "mtime"+relClass)
		}
	}
	o.ArgClass = kind + " " + strings.Join(parts, "+")
	if nfields == 1 {
		o.Label = o.ArgClass
	} else {
		var f []string
		for _, p := range parts {
			f = append(f, strings.SplitN(p, ":", 2)[0])
		}
		o.Label = kind + " combo " + strings.Join(f, "+")
	}
	o.Label = strings.Replace(o.Label, "name:len255:", "name:plain:", 1)
	if relClass != "" {
		o.Label = strings.Replace(o.Label, relClass, ":relative", 1)
	}
	if s.Stale {
		o.ArgClass += " stale"
		o.Label = kind + " stale"
	}
	replacedClass(o, s, replaced)
	gone := lkind(tB) == "free" // the fid is stale: the server fails in Lstat, an os-package call

	st := rawc.NoChangeStat()
	if s.SetMode {
		st.Mode = s.WMode & 0o777
		if kind == "dir" {
			st.Mode |= dmDir
		}
	}
	st.Name = string(s.Name)
	if s.SetLen {
		st.Length = s.Length
	}
	if s.SetMtime {
		st.Mtime = s.Mtime
	}
	if s.SetAtime {
		st.Atime = s.Atime
	}
	what := fmt.Sprintf("Twstat(%s: %s) [%s]", q(relOf(s.Path)), wstatText(s), o.ArgClass)
	r, err := m.cl.Wstat(fid, &st)
	if err != nil {
		return m.rpcErr("Twstat", err)
	}

	// B: the corresponding operations; the first failure ends the sequence
	cur := tB
	var errB error
	done := 0
	wrapped := true
	if s.SetMode {
		errB = os.Chmod(cur, os.FileMode(s.WMode&0o777))
		if errB == nil {
			done++
		}
	}
	if errB == nil && len(s.Name) > 0 {
		dst := parentB + "/" + string(s.Name)
		errB = renameB(cur, dst)
		if errB == nil {
			done++
			cur = dst
		} else if !gone {
			wrapped = false // Ufs calls syscall.Rename: a bare errno
		}
	}
	if errB == nil && s.SetLen {
		errB = os.Truncate(cur, int64(s.Length))
		if errB == nil {
			done++
		}
	}
	if errB == nil && s.SetMtime {
		at := time.Time{}
		if s.SetAtime {
			at = time.Unix(int64(s.Atime), 0)
		}
		errB = os.Chtimes(cur, at, time.Unix(int64(s.Mtime), 0))
		if errB == nil {
			done++
		}
	}
	if errB != nil && done > 0 {
		return harnessf("%s: a combined wstat whose later component fails in B (%v) — the statement does not fix the outcome; the generator must not produce it", what, errB)
	}
	o.Result = errName(errB)
	o.BFailed = errB != nil
	var extra []syscall.Errno
	if gone {
		// two causes of failure at once (no such object, and e.g. a name the
		// os layer refuses): either error number is a faithful answer
		extra = append(extra, syscall.ENOENT)
	}
	if err := m.verdict(o, what, r, errB, wrapped, extra...); err != nil {
		return err
	}
	if errB == nil && s.SetMtime {
		if fi, err := os.Stat(cur); err == nil {
			sb := fi.Sys().(*syscall.Stat_t)
			m.setM[sb.Ino] = mtKey{int64(sb.Mtim.Sec), int64(sb.Mtim.Nsec)}
		}
	}
	if s.Prep != nil && errB != nil {
		return harnessf("%s: a wstat with host-prepared times fails in B (%v); the generator must not produce it", what, errB)
	}
	if err := m.compare(what); err != nil {
		return err
	}
	if errB != nil {
		if gone {
			return nil
		}
		// a refused wstat leaves the fid on its object
		return m.fidCheck(h, what+" was answered with Rerror")
	}
	if len(s.Name) > 0 {
		h.comps = cloneNames(s.Path[:len(s.Path)-1], s.Name)
	}
	// the fid refers to the (renamed) object
	wantName := oldName
	if len(s.Name) > 0 {
		wantName = string(s.Name)
	}
	rs, err := m.cl.Stat(fid)
	if err != nil {
		return m.rpcErr("Tstat", err)
	}
	if rs.Type != ref9p.Rstat {
		return fmt.Errorf("%s succeeded but Tstat on the fid answers %s: the fid does not refer to the object any more", what, show(rs))
	}
	if rs.Stat.Name != wantName || rs.Stat.Qid.Path != inoA {
		return fmt.Errorf("%s succeeded but the fid stats as name %s qid.path %d; the object is %s inode %d", what, q(rs.Stat.Name), rs.Stat.Qid.Path, q(wantName), inoA)
	}
	return nil
}

// lutimes sets the times of the object itself (a symbolic link is not followed).
func lutimes(p string, asec, ansec, msec, mnsec uint32) error {
	ts := [2]syscall.Timespec{{Sec: int64(asec), Nsec: int64(ansec)}, {Sec: int64(msec), Nsec: int64(mnsec)}}
	bp, err := syscall.BytePtrFromString(p)
	if err != nil {
		return err
	}
	const atFdcwd, atSymlinkNofollow = -100, 0x100
	at := atFdcwd
	if _, _, e := syscall.Syscall6(syscall.SYS_UTIMENSAT, uintptr(at), uintptr(unsafe.Pointer(bp)), uintptr(unsafe.Pointer(&ts[0])), atSymlinkNofollow, 0, 0); e != 0 {
		return e
	}
	return nil
}

// prepTimes gives the step's object the same explicit times in both trees.
func (m *machine) prepTimes(s *Step, tA, tB string) error {
	p := s.Prep
	if s.Stale || s.Replace != "" {
		return harnessf("wstat step with host-prepared times on a stale / replaced object")
	}
	for _, path := range []string{tA, tB} {
		if p.Link {
			if err := lutimes(path, p.LAsec, p.LAnsec, p.LMsec, p.LMnsec); err != nil {
				return harnessf("preparing the link's times of %s: %v", q(path), err)
			}
		}
		if err := os.Chtimes(path, time.Unix(int64(p.Asec), int64(p.Ansec)), time.Unix(int64(p.Msec), int64(p.Mnsec))); err != nil {
			return harnessf("preparing the times of %s: %v", q(path), err)
		}
	}
	// both are explicitly set mtimes from now on: A must show what B shows
	// for as long as B shows the prepared value
	stats := []func(string) (os.FileInfo, error){os.Stat}
	if p.Link {
		stats = append(stats, os.Lstat)
	}
	for _, st := range stats {
		fi, err := st(tB)
		if err != nil {
			return harnessf("stat after preparing times: %v", err)
		}
		sb := fi.Sys().(*syscall.Stat_t)
		m.setM[sb.Ino] = mtKey{int64(sb.Mtim.Sec), int64(sb.Mtim.Nsec)}
	}
	return nil
}

// resolveTimes turns the relative time values of a wstat step into numbers,
// from what tree A (the tree the server looks at) shows right now, and returns
// the class of the relation for the evidence ("" for plain values).
func (m *machine) resolveTimes(o *Outcome, s *Step, tA string) string {
	if !s.SetMtime || (s.MRel == "" && s.ARel == "") {
		return ""
	}
	clamp := func(v int64) uint32 {
		if v < 0 {
			v = 0
		}
		if v >= 0xFFFFFFFF { // 0xFFFFFFFF itself means "don't touch"
			v = 0xFFFFFFFE
		}
		return uint32(v)
	}
	tm := func(fi os.FileInfo, err error, atime bool) (int64, int64, bool) {
		if err != nil {
			return 0, 0, false
		}
		sb := fi.Sys().(*syscall.Stat_t)
		if atime {
			return int64(sb.Atim.Sec), int64(sb.Atim.Nsec), true
		}
		return int64(sb.Mtim.Sec), int64(sb.Mtim.Nsec), true
	}
	parentA := tA[:strings.LastIndexByte(tA, '/')]
	fiT, errT := os.Stat(tA)
	fiL, errL := os.Lstat(tA)
	fiP, errP := os.Lstat(parentA)
	class := ""
	off := func(d int32) string {
		switch {
		case d < 0:
			return "-"
		case d > 0:
			return "+"
		}
		return ""
	}
	if s.MRel != "" {
		var sec int64
		ok := false
		switch s.MRel {
		case "cur":
			sec, _, ok = tm(fiT, errT, false)
		case "link":
			sec, _, ok = tm(fiL, errL, false)
		case "parent":
			sec, _, ok = tm(fiP, errP, false)
		case "atime":
			sec, _, ok = tm(fiT, errT, true)
		}
		if ok {
			s.Mtime = clamp(sec + int64(s.MOff))
			class += ":m=" + s.MRel + off(s.MOff)
			o.RelTime = true
		}
	}
	if s.SetAtime && s.ARel != "" {
		var sec int64
		ok := false
		switch s.ARel {
		case "cur":
			sec, _, ok = tm(fiT, errT, true)
		case "mtime":
			sec, _, ok = tm(fiT, errT, false)
		case "link":
			sec, _, ok = tm(fiL, errL, true)
		}
		if ok {
			s.Atime = clamp(sec + int64(s.AOff))
			class += ":a=" + s.ARel + off(s.AOff)
			o.RelTime = true
		}
	}
	if class == "" {
		return ""
	}
	// what makes "the time it already has" differ from a plain value: a
	// sub-second part, a link whose own mtime is not its target's
	if _, ns, ok := tm(fiT, errT, false); ok && ns != 0 {
		class += ":subsec"
	}
	if errT == nil && errL == nil && fiL.Mode()&os.ModeSymlink != 0 {
		ts, tn, _ := tm(fiT, errT, false)
		ls, ln, _ := tm(fiL, errL, false)
		switch {
		case ts != ls:
			class += ":link-differs"
		case tn != ln:
			class += ":link-same-second"
		default:
			class += ":link-equal"
		}
	}
	return class
}

func wstatText(s *Step) string {
	var p []string
	if s.SetMode {
		p = append(p, fmt.Sprintf("mode=%#o", s.WMode&0o777))
	}
	if len(s.Name) > 0 {
		p = append(p, "name="+q(string(s.Name)))
	}
	if s.SetLen {
		p = append(p, fmt.Sprintf("length=%d", s.Length))
	}
	rel := func(r string, d int32) string {
		if r == "" {
			return ""
		}
		return fmt.Sprintf(" (%s%+d)", r, d)
	}
	if s.SetMtime {
		p = append(p, fmt.Sprintf("mtime=%d%s", s.Mtime, rel(s.MRel, s.MOff)))
	}
	if s.SetAtime {
		p = append(p, fmt.Sprintf("atime=%d%s", s.Atime, rel(s.ARel, s.AOff)))
	}
	if s.Prep != nil {
		p = append(p, fmt.Sprintf("after the host set mtime %d.%09d atime %d.%09d", s.Prep.Msec, s.Prep.Mnsec, s.Prep.Asec, s.Prep.Ansec))
		if s.Prep.Link {
			p = append(p, fmt.Sprintf("and the link's own mtime %d.%09d", s.Prep.LMsec, s.Prep.LMnsec))
		}
	}
	return strings.Join(p, " ")
}

// RunCase executes a whole case (replay / regression entry point). observe is
// called after every executed step.
func RunCase(c *Case, known func(string) bool, observe func(i int, o *Outcome)) error {
	m, err := newMachine(c, known)
	if err != nil {
		return err
	}
	defer m.close()
	for i := range c.Steps {
		o, err := m.Exec(&c.Steps[i])
		if err != nil {
			if IsHarness(err) {
				return err
			}
			return fmt.Errorf("step %d (dotu=%v): %v", i, c.Dotu, err)
		}
		if observe != nil {
			observe(i, o)
		}
	}
	return nil
}
