package c06

// Two generators for behaviour that only shows while requests overlap inside
// the server:
//
//   churn — bursts (many frames written in ONE chunk, so that their handlers
//   run at the same time) in which several requests name the same fid while
//   other requests of the same burst remove, rename, truncate or re-create the
//   file under it through other fids (and the same for a directory that is
//   being listed while entries come and go). The burst is repeated (Case.Loops)
//   because what it meets inside the server depends on the schedule.
//
//   flood — a connection that sends hundreds to thousands of requests (valid
//   ones, unknown fids, errors) and never reads a reply, so that the server
//   can no longer write to it; the bystander and a fresh connection have to be
//   served while that connection stays open (Case.Hold).

import (
	"fmt"
	"testing"

	"pgregory.net/rapid"
	"verif/internal/hx"
	"verif/internal/rawc"
	"verif/internal/ref9p"
)

// sess builds the chunk list of one connection.
type sess struct {
	conn   int
	dotu   bool
	chunks [][]byte
	desc   []string
	tag    uint16
}

func (s *sess) nextTag() uint16 {
	s.tag++
	if s.tag >= 0xFFF0 {
		s.tag = 1
	}
	return s.tag
}

// chunk appends one chunk made of the given frames (tag 0 = give it a fresh one).
func (s *sess) chunk(what string, ms ...*ref9p.Msg) int {
	var b []byte
	line := fmt.Sprintf("c%d #%d %s:", s.conn, len(s.chunks), what)
	for i, m := range ms {
		if m.Tag == 0 && m.Type != ref9p.Tversion {
			m.Tag = s.nextTag()
		}
		b = append(b, ref9p.Encode(m, s.dotu)...)
		if i < 70 {
			line += " [" + describe(m) + "]"
		}
	}
	if len(ms) > 70 {
		line += fmt.Sprintf(" … (%d frames)", len(ms))
	}
	s.chunks = append(s.chunks, b)
	s.desc = append(s.desc, line)
	return len(s.chunks) - 1
}

func (s *sess) open(target string, msize uint32) {
	ver := "9P2000"
	if s.dotu {
		ver = "9P2000.u"
	}
	uname, uid := "alice", uint32(1001)
	if target == "ufs" {
		uname, uid = "root", 0
	}
	s.chunk("version", &ref9p.Msg{Type: ref9p.Tversion, Tag: 0xFFFF, Msize: msize, Version: ver})
	s.chunk("attach", &ref9p.Msg{Type: ref9p.Tattach, Fid: 0, Afid: ref9p.NOFID, Uname: uname, Nuname: uid})
}

type victim struct {
	path   []string
	parent []string
	name   string
	alt    string
	dir    bool
	perm   uint32
	ext    string
}

const (
	dmdir     = 0x80000000
	dmsymlink = 0x02000000
)

var victims = []victim{
	{path: []string{"f1"}, name: "f1", alt: "g1", perm: 0o644},
	{path: []string{"f1"}, name: "f1", alt: "g1", perm: 0o644},
	{path: []string{"d1", "f2"}, parent: []string{"d1"}, name: "f2", alt: "g2", perm: 0o600},
	{path: []string{"empty"}, name: "empty", alt: "f1", perm: 0o644}, // renaming onto an existing file
	{path: []string{"fresh"}, name: "fresh", alt: "fresh2", perm: 0o644},
	{path: []string{"d1"}, name: "d1", alt: "e1", dir: true, perm: dmdir | 0o755},
	{path: []string{"d1", "d2"}, parent: []string{"d1"}, name: "d2", alt: "e2", dir: true, perm: dmdir | 0o755},
	{path: []string{"l1"}, name: "l1", alt: "m1", perm: dmsymlink | 0o777, ext: "f1"},
}

// fids of a churn session
const (
	fU  = 1 // the fid the burst hammers
	fU2 = 2 // a second fid of the same file, used like fU
	fM  = 3 // the fid through which the file is removed / renamed / truncated
	fP  = 4 // the parent directory (re-creates the file)
	fT  = 5 // opened with OTRUNC inside the burst
	fE  = 6 // an entry of the listed directory
	fN  = 100
)

func wst(f uint32, set func(*ref9p.Stat)) *ref9p.Msg {
	m := &ref9p.Msg{Type: ref9p.Twstat, Fid: f, Stat: rawc.NoChangeStat()}
	set(&m.Stat)
	return m
}

// userOp: one request on the hammered fid.
func userOp(t *rapid.T, f uint32, v *victim, nf *uint32) *ref9p.Msg {
	switch rapid.SampledFrom([]string{"stat", "stat", "stat", "stat", "read", "read", "read", "read", "open", "open", "write", "walk", "walk", "wstat", "create", "clunk", "remove", "flush"}).Draw(t, "uop") {
	case "read":
		return &ref9p.Msg{Type: ref9p.Tread, Fid: f,
			Offset: rapid.SampledFrom([]uint64{0, 0, 0, 0, 1, 13, 61, 100, 4000, 4999, 5000, 1 << 40}).Draw(t, "off"),
			Count:  rapid.SampledFrom([]uint32{0, 1, 16, 100, 300, 8168}).Draw(t, "count")}
	case "open":
		mode := rapid.SampledFrom([]uint8{0, 0, 1, 2, 0x11, 3}).Draw(t, "omode")
		if v.dir {
			mode = 0
		}
		return &ref9p.Msg{Type: ref9p.Topen, Fid: f, Mode: mode}
	case "write":
		return &ref9p.Msg{Type: ref9p.Twrite, Fid: f, Offset: rapid.SampledFrom([]uint64{0, 5, 4990, 100000}).Draw(t, "woff"),
			Data: make([]byte, rapid.SampledFrom([]int{0, 1, 20, 100}).Draw(t, "wlen"))}
	case "walk":
		*nf++
		m := &ref9p.Msg{Type: ref9p.Twalk, Fid: f, Newfid: *nf}
		switch rapid.IntRange(0, 3).Draw(t, "wk") {
		case 1:
			m.Wname = []string{rapid.SampledFrom([]string{"f2", "d2", "n0", "n1", "nosuch"}).Draw(t, "wname")}
		case 2:
			m.Wname = []string{".."}
		case 3:
			m.Newfid = f
		}
		return m
	case "wstat":
		switch rapid.IntRange(0, 2).Draw(t, "ws") {
		case 0:
			return wst(f, func(*ref9p.Stat) {})
		case 1:
			return wst(f, func(s *ref9p.Stat) { s.Mode = rapid.SampledFrom([]uint32{0o644, 0o600, 0o755}).Draw(t, "wmode") })
		}
		return wst(f, func(s *ref9p.Stat) { s.Mtime = 1000000 })
	case "create":
		return &ref9p.Msg{Type: ref9p.Tcreate, Fid: f, Name: rapid.SampledFrom([]string{"n0", "n1", "n2"}).Draw(t, "cname"),
			Perm: rapid.SampledFrom([]uint32{0o644, dmdir | 0o755}).Draw(t, "cperm")}
	case "clunk":
		return &ref9p.Msg{Type: ref9p.Tclunk, Fid: f}
	case "remove":
		return &ref9p.Msg{Type: ref9p.Tremove, Fid: f}
	case "flush":
		return &ref9p.Msg{Type: ref9p.Tflush, Oldtag: uint16(rapid.IntRange(1, 200).Draw(t, "oldtag"))}
	}
	return &ref9p.Msg{Type: ref9p.Tstat, Fid: f}
}

// mutOp: one request that changes the file under the hammered fid through
// another fid. flip remembers which name the file has after the renames so far.
func mutOp(t *rapid.T, kind string, v *victim, flip *bool) *ref9p.Msg {
	switch kind {
	case "remove":
		return &ref9p.Msg{Type: ref9p.Tremove, Fid: fM}
	case "rename":
		to := v.alt
		if *flip {
			to = v.name
		}
		*flip = !*flip
		return wst(fM, func(s *ref9p.Stat) { s.Name = to })
	case "trunc":
		n := rapid.SampledFrom([]uint64{0, 0, 1, 3, 5000, 100000}).Draw(t, "tlen")
		return wst(fM, func(s *ref9p.Stat) { s.Length = n })
	case "otrunc":
		return &ref9p.Msg{Type: ref9p.Topen, Fid: fT, Mode: 0x11}
	case "chmod":
		return wst(fM, func(s *ref9p.Stat) { s.Mode = rapid.SampledFrom([]uint32{0, 0o644, 0o200}).Draw(t, "mmode") })
	case "recreate":
		return &ref9p.Msg{Type: ref9p.Tcreate, Fid: fP, Name: v.name, Perm: v.perm, Mode: 0, Ext: v.ext}
	case "entry-create":
		return &ref9p.Msg{Type: ref9p.Tcreate, Fid: fP, Name: rapid.SampledFrom([]string{"n0", "n1"}).Draw(t, "ename"),
			Perm: rapid.SampledFrom([]uint32{0o644, 0o644, dmdir | 0o755}).Draw(t, "eperm")}
	case "entry-remove":
		return &ref9p.Msg{Type: ref9p.Tremove, Fid: fE}
	}
	panic("mutOp " + kind)
}

// burst interleaves nu requests on the hammered fid(s) with the mutators.
func burst(t *rapid.T, v *victim, users []uint32, muts []string, nu int, flip *bool, nf *uint32) []*ref9p.Msg {
	var ms []*ref9p.Msg
	// positions of the mutators among the user requests
	at := map[int][]string{}
	for _, k := range muts {
		p := rapid.IntRange(0, nu).Draw(t, "mpos")
		at[p] = append(at[p], k)
	}
	// renames through one fid only alternate when they run one after the
	// other: requests that share a tag do
	serial := rapid.Bool().Draw(t, "serialmut")
	for i := 0; i <= nu; i++ {
		for _, k := range at[i] {
			m := mutOp(t, k, v, flip)
			if serial && (k == "rename" || k == "trunc") {
				m.Tag = 0xFFF5
			}
			ms = append(ms, m)
		}
		if i < nu {
			ms = append(ms, userOp(t, rapid.SampledFrom(users).Draw(t, "ufid"), v, nf))
		}
	}
	if rapid.IntRange(0, 7).Draw(t, "tagpool") == 0 {
		// a small pool of tags: requests with equal tags queue up behind each other
		for _, m := range ms {
			if m.Tag == 0 {
				m.Tag = uint16(0xFF00 + rapid.IntRange(0, 7).Draw(t, "ptag"))
			}
		}
	}
	return ms
}

func walkTo(f uint32, path []string) *ref9p.Msg {
	return &ref9p.Msg{Type: ref9p.Twalk, Fid: 0, Newfid: f, Wname: append([]string{}, path...)}
}

func clunk(f uint32) *ref9p.Msg { return &ref9p.Msg{Type: ref9p.Tclunk, Fid: f} }

// churnSession builds one connection of a churn case; it returns the index of
// the first chunk of the part that is repeated.
func churnSession(t *rapid.T, s *sess, target string) int {
	s.open(target, 8192)
	v := victims[rapid.IntRange(0, len(victims)-1).Draw(t, "victim")]
	tmpl := rapid.SampledFrom([]string{"flip", "flip", "recreate", "recreate", "trunc", "dirlist"}).Draw(t, "template")
	if tmpl == "dirlist" {
		v = rapid.SampledFrom([]victim{victims[5], victims[6], {name: "", alt: "", dir: true}}).Draw(t, "dvictim")
	}
	if tmpl == "trunc" && v.dir {
		v = victims[2]
	}
	hx.Label("churn " + tmpl)
	users := []uint32{fU}
	two := rapid.Bool().Draw(t, "twousers")
	if two {
		users = []uint32{fU, fU, fU2}
	}
	omode := func(l string) uint8 {
		if v.dir {
			return 0
		}
		return rapid.SampledFrom([]uint8{0, 0, 2, 1}).Draw(t, l)
	}
	opened := rapid.IntRange(0, 3).Draw(t, "opened") > 0
	nu := func() int { return rapid.IntRange(3, 48).Draw(t, "nusers") }
	var nf uint32 = fN
	flip := false
	from := 0
	switch tmpl {
	case "flip":
		// persistent fids; the burst renames the file away and back
		ws := []*ref9p.Msg{walkTo(fU, v.path), walkTo(fM, v.path)}
		if two {
			ws = append(ws, walkTo(fU2, v.path))
		}
		s.chunk("walks", ws...)
		if opened {
			os := []*ref9p.Msg{{Type: ref9p.Topen, Fid: fU, Mode: omode("om")}}
			if two {
				os = append(os, &ref9p.Msg{Type: ref9p.Topen, Fid: fU2, Mode: omode("om2")})
			}
			s.chunk("opens", os...)
		}
		nb := rapid.IntRange(1, 2).Draw(t, "nbursts")
		for b := 0; b < nb; b++ {
			var muts []string
			for i, n := 0, rapid.IntRange(1, 6).Draw(t, "nmut"); i < n; i++ {
				muts = append(muts, rapid.SampledFrom([]string{"rename", "rename", "rename", "trunc", "chmod"}).Draw(t, "mut"))
			}
			k := s.chunk("BURST", burst(t, &v, users, muts, nu(), &flip, &nf)...)
			if b == 0 {
				from = k
			}
		}
	case "recreate":
		// every round: (re)create the file, take fresh fids, burst with a remove
		from = s.chunk("parent", walkTo(fP, v.parent))
		s.chunk("create", mutOp(t, "recreate", &v, &flip))
		ws := []*ref9p.Msg{walkTo(fU, v.path), walkTo(fM, v.path)}
		if two {
			ws = append(ws, walkTo(fU2, v.path))
		}
		s.chunk("walks", ws...)
		if opened {
			os := []*ref9p.Msg{{Type: ref9p.Topen, Fid: fU, Mode: omode("om")}}
			if two {
				os = append(os, &ref9p.Msg{Type: ref9p.Topen, Fid: fU2, Mode: omode("om2")})
			}
			s.chunk("opens", os...)
		}
		muts := []string{"remove"}
		for i, n := 0, rapid.IntRange(0, 2).Draw(t, "nmut"); i < n; i++ {
			muts = append(muts, rapid.SampledFrom([]string{"rename", "trunc", "chmod", "remove"}).Draw(t, "mut"))
		}
		s.chunk("BURST", burst(t, &v, users, muts, nu(), &flip, &nf)...)
		s.chunk("clunks", clunk(fU), clunk(fU2), clunk(fM), clunk(fP))
	case "trunc":
		ws := []*ref9p.Msg{walkTo(fU, v.path), walkTo(fM, v.path)}
		if two {
			ws = append(ws, walkTo(fU2, v.path))
		}
		s.chunk("walks", ws...)
		os := []*ref9p.Msg{{Type: ref9p.Topen, Fid: fU, Mode: rapid.SampledFrom([]uint8{0, 2}).Draw(t, "om")}}
		if two {
			os = append(os, &ref9p.Msg{Type: ref9p.Topen, Fid: fU2, Mode: omode("om2")})
		}
		s.chunk("opens", os...)
		from = s.chunk("walk-T", walkTo(fT, v.path))
		var muts []string
		for i, n := 0, rapid.IntRange(1, 5).Draw(t, "nmut"); i < n; i++ {
			muts = append(muts, rapid.SampledFrom([]string{"trunc", "trunc", "otrunc", "chmod"}).Draw(t, "mut"))
		}
		s.chunk("BURST", burst(t, &v, users, muts, nu(), &flip, &nf)...)
		s.chunk("clunk-T", clunk(fT))
	case "dirlist":
		// the hammered fid is an open directory that is read from the start
		// again and again while entries are created and removed (and the
		// directory itself is renamed) by other requests of the burst
		ws := []*ref9p.Msg{walkTo(fU, v.path), walkTo(fM, v.path)}
		if two {
			ws = append(ws, walkTo(fU2, v.path))
		}
		s.chunk("walks", ws...)
		os := []*ref9p.Msg{{Type: ref9p.Topen, Fid: fU, Mode: 0}}
		if two {
			os = append(os, &ref9p.Msg{Type: ref9p.Topen, Fid: fU2, Mode: 0})
		}
		s.chunk("opens", os...)
		if rapid.Bool().Draw(t, "firstread") {
			s.chunk("read0", &ref9p.Msg{Type: ref9p.Tread, Fid: fU, Offset: 0, Count: 8168})
		}
		ename := rapid.SampledFrom([]string{"n0", "n1"}).Draw(t, "entry")
		from = s.chunk("walks-PE", walkTo(fP, v.path), walkTo(fE, append(append([]string{}, v.path...), ename)))
		muts := []string{"entry-create", "entry-remove"}
		if v.name != "" {
			for i, n := 0, rapid.IntRange(0, 2).Draw(t, "nren"); i < n; i++ {
				muts = append(muts, "rename")
			}
		}
		n := nu()
		ms := burst(t, &v, users, muts, n, &flip, &nf)
		// most of the user requests are reads of the listing
		for _, m := range ms {
			if (m.Fid == fU || m.Fid == fU2) && m.Type != ref9p.Tread && rapid.IntRange(0, 2).Draw(t, "toread") > 0 {
				*m = ref9p.Msg{Type: ref9p.Tread, Tag: m.Tag, Fid: m.Fid,
					Offset: rapid.SampledFrom([]uint64{0, 0, 0, 0, 0, 61, 122, 8168}).Draw(t, "doff"),
					Count:  rapid.SampledFrom([]uint32{8168, 8168, 300, 100, 62, 1}).Draw(t, "dcount")}
			}
		}
		s.chunk("BURST", ms...)
		s.chunk("clunks-PE", clunk(fP), clunk(fE))
	}
	return from
}

func genChurn(t *rapid.T, target string) *Case {
	c := &Case{Target: target, Gen: "churn"}
	nc := rapid.SampledFrom([]int{1, 1, 1, 2}).Draw(t, "nconn")
	maxLoops := 24
	if hx.Thorough() {
		maxLoops = 60
	}
	c.Loops = rapid.IntRange(2, maxLoops).Draw(t, "loops")
	for i := 0; i < nc; i++ {
		s := &sess{conn: i, dotu: rapid.Bool().Draw(t, "dotu")}
		from := churnSession(t, s, target)
		c.Conns = append(c.Conns, s.chunks)
		c.LoopFrom = append(c.LoopFrom, from)
		c.Desc = append(c.Desc, s.desc...)
		c.Desc = append(c.Desc, fmt.Sprintf("c%d: chunks #%d.. are written %d times", i, from, c.Loops))
	}
	return c
}

// floodOp: one request of the flood.
func floodOp(t *rapid.T, kind string) *ref9p.Msg {
	switch kind {
	case "clunk-unknown":
		return &ref9p.Msg{Type: ref9p.Tclunk, Fid: 4242}
	case "stat-unknown":
		return &ref9p.Msg{Type: ref9p.Tstat, Fid: rapid.SampledFrom([]uint32{4242, ref9p.NOFID, 0x7FFFFFFF}).Draw(t, "ufid")}
	case "read-unknown":
		return &ref9p.Msg{Type: ref9p.Tread, Fid: 77, Count: 100}
	case "walk-unknown":
		return &ref9p.Msg{Type: ref9p.Twalk, Fid: 78, Newfid: 79}
	case "read-file":
		return &ref9p.Msg{Type: ref9p.Tread, Fid: 1, Offset: 0, Count: rapid.SampledFrom([]uint32{16, 4000, 8168}).Draw(t, "rcount")}
	case "read-dir":
		return &ref9p.Msg{Type: ref9p.Tread, Fid: 2, Offset: 0, Count: 8168}
	case "stat-root":
		return &ref9p.Msg{Type: ref9p.Tstat, Fid: 0}
	case "walk-nosuch":
		return &ref9p.Msg{Type: ref9p.Twalk, Fid: 0, Newfid: 50, Wname: []string{"nosuch"}}
	case "walk-clone-inuse":
		return &ref9p.Msg{Type: ref9p.Twalk, Fid: 0, Newfid: 1}
	case "write-readonly":
		return &ref9p.Msg{Type: ref9p.Twrite, Fid: 1, Offset: 0, Data: []byte("x")}
	case "open-again":
		return &ref9p.Msg{Type: ref9p.Topen, Fid: 1, Mode: 0}
	case "flush":
		return &ref9p.Msg{Type: ref9p.Tflush, Oldtag: uint16(rapid.IntRange(1, 3000).Draw(t, "oldtag"))}
	case "attach-inuse":
		return &ref9p.Msg{Type: ref9p.Tattach, Fid: 0, Afid: ref9p.NOFID, Uname: "root"}
	case "create-in-file":
		return &ref9p.Msg{Type: ref9p.Tcreate, Fid: 1, Name: "x", Perm: 0o644}
	case "wstat-unknown":
		return wst(4243, func(*ref9p.Stat) {})
	case "remove-unknown":
		return &ref9p.Msg{Type: ref9p.Tremove, Fid: 4244}
	}
	panic("floodOp " + kind)
}

var floodKinds = []string{"clunk-unknown", "stat-unknown", "read-unknown", "walk-unknown", "wstat-unknown", "remove-unknown",
	"read-file", "read-dir", "stat-root", "walk-nosuch", "walk-clone-inuse", "write-readonly", "open-again", "flush", "attach-inuse", "create-in-file"}

// genFlood: connection 0 opens a session properly, then writes a flood of
// requests drawn from a small per-case palette and never reads again.
func genFlood(t *rapid.T, target string) *Case {
	c := &Case{Target: target, Gen: "flood", Hold: true}
	s := &sess{conn: 0, dotu: rapid.Bool().Draw(t, "dotu")}
	// the server keeps one reply buffer of msize bytes per unanswered
	// request: a small msize keeps a big flood cheap
	msize := rapid.SampledFrom([]uint32{128, 256, 1024, 8192}).Draw(t, "msize")
	s.open(target, msize)
	s.chunk("walks", walkTo(1, []string{"d1", "f2"}), walkTo(2, []string{"d1"}))
	s.chunk("opens", &ref9p.Msg{Type: ref9p.Topen, Fid: 1, Mode: 0}, &ref9p.Msg{Type: ref9p.Topen, Fid: 2, Mode: 0})
	mute := len(s.chunks)
	if rapid.IntRange(0, 3).Draw(t, "mutefromstart") == 0 {
		mute = 0
	}
	var palette []string
	for i, n := 0, rapid.IntRange(1, 4).Draw(t, "npalette"); i < n; i++ {
		palette = append(palette, rapid.SampledFrom(floodKinds).Draw(t, "kind"))
	}
	hi := 3000
	if msize <= 1024 {
		hi = 6000
	}
	if hx.Thorough() && msize <= 256 {
		hi = 40000
	}
	total := rapid.IntRange(300, hi).Draw(t, "nflood")
	per := rapid.SampledFrom([]int{64, 500, 4000}).Draw(t, "perchunk")
	// the palette decides the frames; drawing each of thousands of frames
	// apart would only slow generation down, so a block of 16 is drawn and repeated
	var block []*ref9p.Msg
	for i := 0; i < 16; i++ {
		block = append(block, floodOp(t, rapid.SampledFrom(palette).Draw(t, "op")))
	}
	for sent := 0; sent < total; {
		var ms []*ref9p.Msg
		for k := 0; k < per && sent < total; k++ {
			m := *block[sent%len(block)]
			m.Tag = 0
			ms = append(ms, &m)
			sent++
		}
		s.chunk("FLOOD", ms...)
		s.desc[len(s.desc)-1] = clip(s.desc[len(s.desc)-1], 700)
	}
	c.Conns = append(c.Conns, s.chunks)
	c.Mute = append(c.Mute, mute)
	c.Desc = append(c.Desc, fmt.Sprintf("c0: palette %v, %d requests, %d per chunk, msize %d, no reply is read from chunk #%d on", palette, total, per, msize, mute))
	if len(s.desc) > 8 {
		s.desc = s.desc[:8]
	}
	c.Desc = append(c.Desc, s.desc...)
	for _, k := range palette {
		hx.Label("flood " + k)
	}
	// sometimes a second, well-behaved hostile connection works next to it
	if rapid.IntRange(0, 2).Draw(t, "second") == 0 {
		s2 := &sess{conn: 1, dotu: rapid.Bool().Draw(t, "dotu2")}
		s2.open(target, 8192)
		for i, n := 0, rapid.IntRange(1, 12).Draw(t, "nsteps"); i < n; i++ {
			m, _ := genStep(t, s2.dotu)
			s2.chunk("step", m)
		}
		c.Conns = append(c.Conns, s2.chunks)
		c.Mute = append(c.Mute, -1)
		c.Desc = append(c.Desc, s2.desc...)
	}
	return c
}

func TestPropChurn(t *testing.T) { prop("churn", genChurn, 150, 1500)(t) }
func TestPropFlood(t *testing.T) { prop("flood", genFlood, 12, 150)(t) }
