package c06

// Two generators for behaviour that only shows while requests overlap inside
// the server:
//
//   churn — bursts (many frames written in ONE chunk, so that their handlers
//   run at the same time) in which several requests name the same fid while
//   other requests of the same burst remove, rename, truncate or re-create the
//   file under it through other fids (and the same for a directory that is
//   being listed while entries come and go). The burst is repeated (Case.Loops)
//   because what it meets inside the server depends on the schedule.
//
//   flood — a connection that sends hundreds to thousands of requests (valid
//   ones, unknown fids, errors) and never reads a reply, so that the server
//   can no longer write to it; the bystander and a fresh connection have to be
//   served while that connection stays open (Case.Hold).

import (
	"fmt"
	"os"
	"testing"

	"pgregory.net/rapid"
	"verif/internal/hx"
	"verif/internal/rawc"
	"verif/internal/ref9p"
)

// sess builds the chunk list of one connection.
type sess struct {
	conn   int
	dotu   bool
	chunks [][]byte
	desc   []string
	tag    uint16
}

func (s *sess) nextTag() uint16 {
	s.tag++
	if s.tag >= 0xFFF0 {
		s.tag = 1
	}
	return s.tag
}

// chunk appends one chunk made of the given frames (tag 0 = give it a fresh one).
func (s *sess) chunk(what string, ms ...*ref9p.Msg) int {
	var b []byte
	line := fmt.Sprintf("c%d #%d %s:", s.conn, len(s.chunks), what)
	for i, m := range ms {
		if m.Tag == 0 && m.Type != ref9p.Tversion {
			m.Tag = s.nextTag()
		}
		b = append(b, ref9p.Encode(m, s.dotu)...)
		if i < 70 {
			line += " [" + describe(m) + "]"
		}
	}
	if len(ms) > 70 {
		line += fmt.Sprintf(" … (%d frames)", len(ms))
	}
	s.chunks = append(s.chunks, b)
	s.desc = append(s.desc, line)
	return len(s.chunks) - 1
}

func (s *sess) open(target string, msize uint32) {
	ver := "9P2000"
	if s.dotu {
		ver = "9P2000.u"
	}
	uname, uid := "alice", uint32(1001)
	if target == "ufs" {
		uname, uid = "root", 0
	}
	s.chunk("version", &ref9p.Msg{Type: ref9p.Tversion, Tag: 0xFFFF, Msize: msize, Version: ver})
	s.chunk("attach", &ref9p.Msg{Type: ref9p.Tattach, Fid: 0, Afid: ref9p.NOFID, Uname: uname, Nuname: uid})
}

type victim struct {
	path   []string
	parent []string
	name   string
	alt    string
	dir    bool
	perm   uint32
	ext    string
}

const (
	dmdir     = 0x80000000
	dmsymlink = 0x02000000
)

var fileVictims = []victim{
	{path: []string{"f1"}, name: "f1", alt: "g1", perm: 0o644},
	{path: []string{"d1", "f2"}, parent: []string{"d1"}, name: "f2", alt: "g2", perm: 0o600},
	{path: []string{"empty"}, name: "empty", alt: "l2", perm: 0o644}, // renaming onto an existing name
	{path: []string{"fresh"}, name: "fresh", alt: "fresh2", perm: 0o644},
	{path: []string{"d1", "fresh"}, parent: []string{"d1"}, name: "fresh", alt: "fresh2", perm: 0o666},
	{path: []string{"l1"}, name: "l1", alt: "m1", perm: dmsymlink | 0o777, ext: "f1"},
	{path: []string{"d1", "d2"}, parent: []string{"d1"}, name: "d2", alt: "e2", dir: true, perm: dmdir | 0o755},
	{path: []string{"newdir"}, name: "newdir", alt: "newdir2", dir: true, perm: dmdir | 0o700},
}

var dirVictims = []victim{
	{path: []string{"d1"}, name: "d1", alt: "e1", dir: true, perm: dmdir | 0o755},
	{path: []string{"d1", "d2"}, parent: []string{"d1"}, name: "d2", alt: "e2", dir: true, perm: dmdir | 0o755},
	{name: "", dir: true}, // the root
}

// slot: one file the bursts work on, with its fids.
type slot struct {
	v    victim
	two  bool   // a second hammered fid
	u    uint32 // the fid the burst hammers
	u2   uint32 // a second fid of the same file, used like u
	m    uint32 // the fid through which the file is removed / renamed / truncated
	p    uint32 // the parent directory (re-creates the file; for a listed directory: creates entries)
	x    uint32 // opened with OTRUNC inside the burst / an entry of the listed directory
	flip bool   // which name the file has after the renames generated so far
}

func newSlot(j int, v victim, two bool) *slot {
	b := uint32(10 * (j + 1))
	return &slot{v: v, two: two, u: b + 1, u2: b + 2, m: b + 3, p: b + 4, x: b + 5}
}

func (sl *slot) users() []uint32 {
	if sl.two {
		return []uint32{sl.u, sl.u, sl.u2}
	}
	return []uint32{sl.u}
}

const fN = 1000 // fids made by walks inside bursts

func wst(f uint32, set func(*ref9p.Stat)) *ref9p.Msg {
	m := &ref9p.Msg{Type: ref9p.Twstat, Fid: f, Stat: rawc.NoChangeStat()}
	set(&m.Stat)
	return m
}

// userOp: one request on the hammered fid.
func userOp(t *rapid.T, f uint32, v *victim, nf *uint32) *ref9p.Msg {
	switch rapid.SampledFrom([]string{"stat", "stat", "stat", "stat", "read", "read", "read", "read", "open", "open", "open", "write", "walk", "walk", "wstat", "create", "clunk", "remove", "flush"}).Draw(t, "uop") {
	case "read":
		return &ref9p.Msg{Type: ref9p.Tread, Fid: f,
			Offset: rapid.SampledFrom([]uint64{0, 0, 0, 0, 1, 13, 61, 100, 4000, 4999, 5000, 1 << 40}).Draw(t, "off"),
			Count:  rapid.SampledFrom([]uint32{0, 1, 16, 100, 300, 8168}).Draw(t, "count")}
	case "open":
		mode := rapid.SampledFrom([]uint8{0, 0, 1, 2, 0x11, 3}).Draw(t, "omode")
		if v.dir {
			mode = 0
		}
		return &ref9p.Msg{Type: ref9p.Topen, Fid: f, Mode: mode}
	case "write":
		return &ref9p.Msg{Type: ref9p.Twrite, Fid: f, Offset: rapid.SampledFrom([]uint64{0, 5, 4990, 100000}).Draw(t, "woff"),
			Data: make([]byte, rapid.SampledFrom([]int{0, 1, 20, 100}).Draw(t, "wlen"))}
	case "walk":
		*nf++
		m := &ref9p.Msg{Type: ref9p.Twalk, Fid: f, Newfid: *nf}
		switch rapid.IntRange(0, 3).Draw(t, "wk") {
		case 1:
			m.Wname = []string{rapid.SampledFrom([]string{"f2", "d2", "n0", "n1", "nosuch"}).Draw(t, "wname")}
		case 2:
			m.Wname = []string{".."}
		case 3:
			m.Newfid = f
		}
		return m
	case "wstat":
		switch rapid.IntRange(0, 2).Draw(t, "ws") {
		case 0:
			return wst(f, func(*ref9p.Stat) {})
		case 1:
			return wst(f, func(s *ref9p.Stat) { s.Mode = rapid.SampledFrom([]uint32{0o644, 0o600, 0o755}).Draw(t, "wmode") })
		}
		return wst(f, func(s *ref9p.Stat) { s.Mtime = 1000000 })
	case "create":
		return &ref9p.Msg{Type: ref9p.Tcreate, Fid: f, Name: rapid.SampledFrom([]string{"n0", "n1", "n2"}).Draw(t, "cname"),
			Perm: rapid.SampledFrom([]uint32{0o644, dmdir | 0o755}).Draw(t, "cperm")}
	case "clunk":
		return &ref9p.Msg{Type: ref9p.Tclunk, Fid: f}
	case "remove":
		return &ref9p.Msg{Type: ref9p.Tremove, Fid: f}
	case "flush":
		return &ref9p.Msg{Type: ref9p.Tflush, Oldtag: uint16(rapid.IntRange(1, 200).Draw(t, "oldtag"))}
	}
	return &ref9p.Msg{Type: ref9p.Tstat, Fid: f}
}

// mut: one request that changes the file of a slot through a fid other than
// the hammered one.
type mut struct {
	kind string
	sl   *slot
}

func mutOp(t *rapid.T, mu mut) *ref9p.Msg {
	sl := mu.sl
	switch mu.kind {
	case "remove":
		return &ref9p.Msg{Type: ref9p.Tremove, Fid: sl.m}
	case "rename":
		to := sl.v.alt
		if sl.flip {
			to = sl.v.name
		}
		sl.flip = !sl.flip
		return wst(sl.m, func(s *ref9p.Stat) { s.Name = to })
	case "trunc":
		n := rapid.SampledFrom([]uint64{0, 0, 1, 3, 5000, 100000}).Draw(t, "tlen")
		return wst(sl.m, func(s *ref9p.Stat) { s.Length = n })
	case "otrunc":
		return &ref9p.Msg{Type: ref9p.Topen, Fid: sl.x, Mode: 0x11}
	case "chmod":
		return wst(sl.m, func(s *ref9p.Stat) { s.Mode = rapid.SampledFrom([]uint32{0, 0o644, 0o200}).Draw(t, "mmode") })
	case "recreate":
		return &ref9p.Msg{Type: ref9p.Tcreate, Fid: sl.p, Name: sl.v.name, Perm: sl.v.perm, Mode: 0, Ext: sl.v.ext}
	case "entry-create":
		return &ref9p.Msg{Type: ref9p.Tcreate, Fid: sl.p, Name: rapid.SampledFrom([]string{"n0", "n1"}).Draw(t, "ename"),
			Perm: rapid.SampledFrom([]uint32{0o644, 0o644, dmdir | 0o755}).Draw(t, "eperm")}
	case "entry-remove":
		return &ref9p.Msg{Type: ref9p.Tremove, Fid: sl.x}
	}
	panic("mutOp " + mu.kind)
}

// burst interleaves nu requests on the hammered fids of the slots with the mutators.
func burst(t *rapid.T, slots []*slot, muts []mut, nu int, nf *uint32) []*ref9p.Msg {
	var ms []*ref9p.Msg
	// positions of the mutators among the user requests
	at := map[int][]mut{}
	for _, mu := range muts {
		p := rapid.IntRange(0, nu).Draw(t, "mpos")
		at[p] = append(at[p], mu)
	}
	// renames through one fid only alternate when they run one after the
	// other: requests that share a tag do
	serial := rapid.Bool().Draw(t, "serialmut")
	for i := 0; i <= nu; i++ {
		for _, mu := range at[i] {
			m := mutOp(t, mu)
			if serial && (mu.kind == "rename" || mu.kind == "trunc") {
				m.Tag = uint16(0xFFE0 + mu.sl.u/10)
			}
			ms = append(ms, m)
		}
		if i < nu {
			sl := slots[rapid.IntRange(0, len(slots)-1).Draw(t, "uslot")]
			ms = append(ms, userOp(t, rapid.SampledFrom(sl.users()).Draw(t, "ufid"), &sl.v, nf))
		}
	}
	if rapid.IntRange(0, 7).Draw(t, "tagpool") == 0 {
		// a small pool of tags: requests with equal tags queue up behind each other
		for _, m := range ms {
			if m.Tag == 0 {
				m.Tag = uint16(0xFF00 + rapid.IntRange(0, 7).Draw(t, "ptag"))
			}
		}
	}
	return ms
}

func walkTo(f uint32, path []string) *ref9p.Msg {
	return &ref9p.Msg{Type: ref9p.Twalk, Fid: 0, Newfid: f, Wname: append([]string{}, path...)}
}

func clunk(f uint32) *ref9p.Msg { return &ref9p.Msg{Type: ref9p.Tclunk, Fid: f} }

// churnSession builds one connection of a churn case; it returns the index of
// the first chunk of the part that is repeated.
func churnSession(t *rapid.T, s *sess, target string) int {
	s.open(target, 8192)
	tmpl := rapid.SampledFrom([]string{"flip", "flip", "recreate", "recreate", "recreate", "trunc", "dirlist"}).Draw(t, "template")
	hx.Label("churn " + tmpl)
	// the files worked on: distinct names
	pool := fileVictims
	switch tmpl {
	case "dirlist":
		pool = dirVictims
	case "trunc":
		pool = fileVictims[:5]
	}
	nslots := rapid.IntRange(1, min(4, len(pool))).Draw(t, "nslots")
	if tmpl == "dirlist" {
		nslots = rapid.IntRange(1, 2).Draw(t, "ndirs")
	}
	first := rapid.IntRange(0, len(pool)-1).Draw(t, "victim")
	var slots []*slot
	for j := 0; j < nslots; j++ {
		slots = append(slots, newSlot(j, pool[(first+j)%len(pool)], rapid.IntRange(0, 2).Draw(t, "twousers") == 0))
	}
	omode := func(sl *slot, l string) uint8 {
		if sl.v.dir {
			return 0
		}
		return rapid.SampledFrom([]uint8{0, 0, 2, 1}).Draw(t, l)
	}
	opened := rapid.IntRange(0, 3).Draw(t, "opened") > 0 || tmpl == "trunc" || tmpl == "dirlist"
	nu := func() int { return rapid.IntRange(3, 24).Draw(t, "nusers") * len(slots) }
	walks := func() {
		var ws []*ref9p.Msg
		for _, sl := range slots {
			ws = append(ws, walkTo(sl.u, sl.v.path), walkTo(sl.m, sl.v.path))
			if sl.two {
				ws = append(ws, walkTo(sl.u2, sl.v.path))
			}
		}
		s.chunk("walks", ws...)
	}
	opens := func() {
		if !opened {
			return
		}
		var os []*ref9p.Msg
		for _, sl := range slots {
			os = append(os, &ref9p.Msg{Type: ref9p.Topen, Fid: sl.u, Mode: omode(sl, "om")})
			if sl.two {
				os = append(os, &ref9p.Msg{Type: ref9p.Topen, Fid: sl.u2, Mode: omode(sl, "om2")})
			}
		}
		s.chunk("opens", os...)
	}
	var nf uint32 = fN
	from := 0
	switch tmpl {
	case "flip":
		// persistent fids; the burst renames the files away and back
		walks()
		opens()
		nb := rapid.IntRange(1, 2).Draw(t, "nbursts")
		for b := 0; b < nb; b++ {
			var muts []mut
			for _, sl := range slots {
				for i, n := 0, rapid.IntRange(1, 6).Draw(t, "nmut"); i < n; i++ {
					muts = append(muts, mut{rapid.SampledFrom([]string{"rename", "rename", "rename", "trunc", "chmod"}).Draw(t, "mut"), sl})
				}
			}
			k := s.chunk("BURST", burst(t, slots, muts, nu(), &nf)...)
			if b == 0 {
				from = k
			}
		}
	case "recreate":
		// every round: (re)create the files, take fresh fids, burst with the removes
		var ps, cs, cl []*ref9p.Msg
		var muts []mut
		for _, sl := range slots {
			ps = append(ps, walkTo(sl.p, sl.v.parent))
			cs = append(cs, mutOp(t, mut{"recreate", sl}))
			cl = append(cl, clunk(sl.u), clunk(sl.u2), clunk(sl.m), clunk(sl.p))
			muts = append(muts, mut{"remove", sl})
			for i, n := 0, rapid.IntRange(0, 2).Draw(t, "nmut"); i < n; i++ {
				muts = append(muts, mut{rapid.SampledFrom([]string{"rename", "trunc", "chmod", "remove"}).Draw(t, "mut"), sl})
			}
		}
		from = s.chunk("parents", ps...)
		s.chunk("creates", cs...)
		walks()
		opens()
		s.chunk("BURST", burst(t, slots, muts, nu(), &nf)...)
		s.chunk("clunks", cl...)
	case "trunc":
		walks()
		opens()
		var ws, cl []*ref9p.Msg
		var muts []mut
		for _, sl := range slots {
			ws = append(ws, walkTo(sl.x, sl.v.path))
			cl = append(cl, clunk(sl.x))
			for i, n := 0, rapid.IntRange(1, 5).Draw(t, "nmut"); i < n; i++ {
				muts = append(muts, mut{rapid.SampledFrom([]string{"trunc", "trunc", "otrunc", "chmod"}).Draw(t, "mut"), sl})
			}
		}
		from = s.chunk("walks-x", ws...)
		s.chunk("BURST", burst(t, slots, muts, nu(), &nf)...)
		s.chunk("clunks-x", cl...)
	case "dirlist":
		// the hammered fids are open directories that are read from the
		// start again and again while entries are created and removed (and
		// the directory itself is renamed) by other requests of the burst
		walks()
		opens()
		if rapid.Bool().Draw(t, "firstread") {
			s.chunk("read0", &ref9p.Msg{Type: ref9p.Tread, Fid: slots[0].u, Offset: 0, Count: 8168})
		}
		var ws, cl []*ref9p.Msg
		var muts []mut
		for _, sl := range slots {
			ename := rapid.SampledFrom([]string{"n0", "n1"}).Draw(t, "entry")
			ws = append(ws, walkTo(sl.p, sl.v.path), walkTo(sl.x, append(append([]string{}, sl.v.path...), ename)))
			cl = append(cl, clunk(sl.p), clunk(sl.x))
			muts = append(muts, mut{"entry-create", sl}, mut{"entry-remove", sl})
			if sl.v.name != "" {
				for i, n := 0, rapid.IntRange(0, 2).Draw(t, "nren"); i < n; i++ {
					muts = append(muts, mut{"rename", sl})
				}
			}
		}
		from = s.chunk("walks-px", ws...)
		ms := burst(t, slots, muts, nu(), &nf)
		// most of the user requests are reads of the listing
		for _, m := range ms {
			hammered := false
			for _, sl := range slots {
				hammered = hammered || m.Fid == sl.u || m.Fid == sl.u2
			}
			if hammered && m.Type != ref9p.Tread && m.Type != ref9p.Tflush && rapid.IntRange(0, 2).Draw(t, "toread") > 0 {
				*m = ref9p.Msg{Type: ref9p.Tread, Tag: m.Tag, Fid: m.Fid,
					Offset: rapid.SampledFrom([]uint64{0, 0, 0, 0, 0, 61, 122, 8168}).Draw(t, "doff"),
					Count:  rapid.SampledFrom([]uint32{8168, 8168, 300, 100, 62, 1}).Draw(t, "dcount")}
			}
		}
		s.chunk("BURST", ms...)
		s.chunk("clunks-px", cl...)
	}
	return from
}

func genChurn(t *rapid.T, target string) *Case {
	c := &Case{Target: target, Gen: "churn"}
	nc := rapid.SampledFrom([]int{1, 1, 1, 2}).Draw(t, "nconn")
	maxLoops := 24
	if hx.Thorough() {
		maxLoops = 60
	}
	c.Loops = rapid.IntRange(2, maxLoops).Draw(t, "loops")
	for i := 0; i < nc; i++ {
		s := &sess{conn: i, dotu: rapid.Bool().Draw(t, "dotu")}
		from := churnSession(t, s, target)
		c.Conns = append(c.Conns, s.chunks)
		c.LoopFrom = append(c.LoopFrom, from)
		c.Desc = append(c.Desc, s.desc...)
		c.Desc = append(c.Desc, fmt.Sprintf("c%d: chunks #%d.. are written %d times", i, from, c.Loops))
	}
	return c
}

// floodOp: one request of the flood.
func floodOp(t *rapid.T, kind string) *ref9p.Msg {
	switch kind {
	case "clunk-unknown":
		return &ref9p.Msg{Type: ref9p.Tclunk, Fid: 4242}
	case "stat-unknown":
		return &ref9p.Msg{Type: ref9p.Tstat, Fid: rapid.SampledFrom([]uint32{4242, ref9p.NOFID, 0x7FFFFFFF}).Draw(t, "ufid")}
	case "read-unknown":
		return &ref9p.Msg{Type: ref9p.Tread, Fid: 77, Count: 100}
	case "walk-unknown":
		return &ref9p.Msg{Type: ref9p.Twalk, Fid: 78, Newfid: 79}
	case "read-file":
		return &ref9p.Msg{Type: ref9p.Tread, Fid: 1, Offset: 0, Count: rapid.SampledFrom([]uint32{16, 4000, 8168}).Draw(t, "rcount")}
	case "read-dir":
		return &ref9p.Msg{Type: ref9p.Tread, Fid: 2, Offset: 0, Count: 8168}
	case "stat-root":
		return &ref9p.Msg{Type: ref9p.Tstat, Fid: 0}
	case "walk-nosuch":
		return &ref9p.Msg{Type: ref9p.Twalk, Fid: 0, Newfid: 50, Wname: []string{"nosuch"}}
	case "walk-clone-inuse":
		return &ref9p.Msg{Type: ref9p.Twalk, Fid: 0, Newfid: 1}
	case "write-readonly":
		return &ref9p.Msg{Type: ref9p.Twrite, Fid: 1, Offset: 0, Data: []byte("x")}
	case "open-again":
		return &ref9p.Msg{Type: ref9p.Topen, Fid: 1, Mode: 0}
	case "flush":
		return &ref9p.Msg{Type: ref9p.Tflush, Oldtag: uint16(rapid.IntRange(1, 3000).Draw(t, "oldtag"))}
	case "attach-inuse":
		return &ref9p.Msg{Type: ref9p.Tattach, Fid: 0, Afid: ref9p.NOFID, Uname: "root"}
	case "create-in-file":
		return &ref9p.Msg{Type: ref9p.Tcreate, Fid: 1, Name: "x", Perm: 0o644}
	case "wstat-unknown":
		return wst(4243, func(*ref9p.Stat) {})
	case "remove-unknown":
		return &ref9p.Msg{Type: ref9p.Tremove, Fid: 4244}
	}
	panic("floodOp " + kind)
}

var floodKinds = []string{"clunk-unknown", "stat-unknown", "read-unknown", "walk-unknown", "wstat-unknown", "remove-unknown",
	"read-file", "read-dir", "stat-root", "walk-nosuch", "walk-clone-inuse", "write-readonly", "open-again", "flush", "attach-inuse", "create-in-file"}

// genFlood: connection 0 opens a session properly, then writes a flood of
// requests drawn from a small per-case palette and never reads again.
func genFlood(t *rapid.T, target string) *Case {
	c := &Case{Target: target, Gen: "flood", Hold: true}
	s := &sess{conn: 0, dotu: rapid.Bool().Draw(t, "dotu")}
	// the server keeps one reply buffer of msize bytes per unanswered
	// request: a small msize keeps a big flood cheap
	msize := rapid.SampledFrom([]uint32{128, 256, 1024, 8192}).Draw(t, "msize")
	s.open(target, msize)
	s.chunk("walks", walkTo(1, []string{"d1", "f2"}), walkTo(2, []string{"d1"}))
	s.chunk("opens", &ref9p.Msg{Type: ref9p.Topen, Fid: 1, Mode: 0}, &ref9p.Msg{Type: ref9p.Topen, Fid: 2, Mode: 0})
	mute := len(s.chunks)
	if rapid.IntRange(0, 3).Draw(t, "mutefromstart") == 0 {
		mute = 0
	}
	var palette []string
	for i, n := 0, rapid.IntRange(1, 4).Draw(t, "npalette"); i < n; i++ {
		palette = append(palette, rapid.SampledFrom(floodKinds).Draw(t, "kind"))
	}
	hi := 3000
	if msize <= 1024 {
		hi = 6000
	}
	if hx.Thorough() && msize <= 256 {
		hi = 40000
	}
	total := rapid.IntRange(300, hi).Draw(t, "nflood")
	per := rapid.SampledFrom([]int{64, 500, 4000}).Draw(t, "perchunk")
	// the palette decides the frames; drawing each of thousands of frames
	// apart would only slow generation down, so a block of 16 is drawn and repeated
	var block []*ref9p.Msg
	for i := 0; i < 16; i++ {
		block = append(block, floodOp(t, rapid.SampledFrom(palette).Draw(t, "op")))
	}
	for sent := 0; sent < total; {
		var ms []*ref9p.Msg
		for k := 0; k < per && sent < total; k++ {
			m := *block[sent%len(block)]
			m.Tag = 0
			ms = append(ms, &m)
			sent++
		}
		s.chunk("FLOOD", ms...)
		s.desc[len(s.desc)-1] = clip(s.desc[len(s.desc)-1], 700)
	}
	c.Conns = append(c.Conns, s.chunks)
	c.Mute = append(c.Mute, mute)
	c.Desc = append(c.Desc, fmt.Sprintf("c0: palette %v, %d requests, %d per chunk, msize %d, no reply is read from chunk #%d on", palette, total, per, msize, mute))
	if len(s.desc) > 8 {
		s.desc = s.desc[:8]
	}
	c.Desc = append(c.Desc, s.desc...)
	for _, k := range palette {
		hx.Label("flood " + k)
	}
	// sometimes a second, well-behaved hostile connection works next to it
	if rapid.IntRange(0, 2).Draw(t, "second") == 0 {
		s2 := &sess{conn: 1, dotu: rapid.Bool().Draw(t, "dotu2")}
		s2.open(target, 8192)
		for i, n := 0, rapid.IntRange(1, 12).Draw(t, "nsteps"); i < n; i++ {
			m, _ := genStep(t, s2.dotu)
			s2.chunk("step", m)
		}
		c.Conns = append(c.Conns, s2.chunks)
		c.Mute = append(c.Mute, -1)
		c.Desc = append(c.Desc, s2.desc...)
	}
	return c
}

// The per-fid state that bursts on one fid share lives in Ufs; the scripted
// implementation has none, so it gets a small share of the churn cases.
func TestPropChurn(t *testing.T) {
	prop("churn", genChurn, 220, 1500, "script", "ufs", "ufs", "ufs", "ufs", "ufs", "ufs", "ufs")(t)
}

// A failing flood case costs patience (30 s) each time it is run again:
// no time is spent on minimizing it.
func TestPropFlood(t *testing.T) {
	if os.Getenv("VERIF_SHRINKTIME") == "" {
		os.Setenv("VERIF_SHRINKTIME", "1ms")
		defer os.Unsetenv("VERIF_SHRINKTIME")
	}
	prop("flood", genFlood, 12, 150)(t)
}
