package c06

// Two more families of hostile sessions.
//
//   tight — sessions at the smallest negotiated message sizes (every msize
//   24..40, some up to 300) in both dialects, whose Tattach is built to fit
//   (uname "", a short uname, or none at all), followed by BURSTS of requests
//   written in ONE chunk, most of which fail or whose reply cannot hold what
//   was asked for: the server has to cut every reply (error texts, data,
//   stat records) to the few bytes the connection allows while several
//   requests are in flight. Long names make long error texts (Ufs puts the
//   host path into most OS errors) at the sizes that can carry them.
//
//   inner — "consistent outer, inconsistent inner": a valid encoded message
//   of every type in which ONE inner length field (a string length, nwname /
//   nwqid, the count of Twrite / Rread, the outer stat[n] and the stat
//   record's own size) is rewritten to a value that disagrees with the bytes
//   present, while the frame size stays equal to the number of bytes sent;
//   optionally the frame is lengthened by zero bytes (so that plenty of
//   bytes follow a field that claims few). It is sent after a valid prologue
//   that puts fids in place, so that a frame the decoder lets through meets a
//   handler with live fids.
//
// Both have an enumerated part (the small sub-space is run completely, split
// over the shards) and a rapid part (mixtures).

import (
	"encoding/binary"
	"fmt"
	"sort"
	"testing"

	"pgregory.net/rapid"
	"verif/internal/hx"
	"verif/internal/rawc"
	"verif/internal/ref9p"
)

// maxEnumViolations: an enumeration stops after that many failing cases (per
// shard); one defect shows in many neighbouring cases.
const maxEnumViolations = 3

// ---------------------------------------------------------------------------
// tight

func verName(dotu bool) string {
	if dotu {
		return "9P2000.u"
	}
	return "9P2000"
}

func fits(m *ref9p.Msg, dotu bool, msize uint32) bool {
	return uint32(len(ref9p.Encode(m, dotu))) <= msize
}

// tightAttach: the Tattach variants, longest first; variant k of a session is
// the k-th of those that fit into msize ("" with n_uname 0 is root on a .u
// connection and an unknown user otherwise: a failing attach is as good a
// request as any).
func tightAttach(target string, dotu bool, msize uint32, k int) *ref9p.Msg {
	unames := []struct {
		n  string
		id uint32
	}{{"alice", 1001}, {"bob", 1002}, {"", 0}}
	if target == "ufs" {
		unames[0].n, unames[0].id = "root", 0
		unames[1].n, unames[1].id = "r", 0xFFFFFFFF
	}
	var ok []*ref9p.Msg
	for _, u := range unames {
		m := &ref9p.Msg{Type: ref9p.Tattach, Fid: 0, Afid: ref9p.NOFID, Uname: u.n, Nuname: u.id}
		if fits(m, dotu, msize) {
			ok = append(ok, m)
		}
	}
	if len(ok) == 0 {
		return nil
	}
	return ok[k%len(ok)]
}

// The fids the set-up chunk of a tight session makes:
//
//	1 = d1 (opened), 2 = f1, 3 = the root again, 4 = f1 (opened read-only),
//	60..63 = d1 (for Tremove of a directory that is not empty)
func tightSetup() [][]*ref9p.Msg {
	walks := []*ref9p.Msg{
		{Type: ref9p.Twalk, Fid: 0, Newfid: 1, Wname: []string{"d1"}},
		{Type: ref9p.Twalk, Fid: 0, Newfid: 2, Wname: []string{"f1"}},
		{Type: ref9p.Twalk, Fid: 0, Newfid: 3},
		{Type: ref9p.Twalk, Fid: 0, Newfid: 4, Wname: []string{"f1"}},
	}
	for f := uint32(60); f < 64; f++ {
		walks = append(walks, &ref9p.Msg{Type: ref9p.Twalk, Fid: 0, Newfid: f, Wname: []string{"d1"}})
	}
	opens := []*ref9p.Msg{
		{Type: ref9p.Topen, Fid: 1, Mode: 0},
		{Type: ref9p.Topen, Fid: 4, Mode: 0},
	}
	return [][]*ref9p.Msg{walks, opens}
}

// tightKinds: compact requests (most fit into 24 bytes) that fail, or whose
// reply has to be cut, in a session set up by tightSetup. i is the position
// in the burst, nm a name (short, or as long as the msize allows).
type tightKind struct {
	name string
	op   func(i uint32, nm string) *ref9p.Msg
}

var tightKinds = []tightKind{
	{"attach-inuse", func(i uint32, nm string) *ref9p.Msg {
		return &ref9p.Msg{Type: ref9p.Tattach, Fid: 0, Afid: ref9p.NOFID}
	}},
	{"attach-more", func(i uint32, nm string) *ref9p.Msg {
		return &ref9p.Msg{Type: ref9p.Tattach, Fid: 20 + i%4, Afid: ref9p.NOFID}
	}},
	{"attach-aname", func(i uint32, nm string) *ref9p.Msg {
		return &ref9p.Msg{Type: ref9p.Tattach, Fid: 24 + i%4, Afid: ref9p.NOFID, Aname: nm}
	}},
	{"attach-afid", func(i uint32, nm string) *ref9p.Msg {
		return &ref9p.Msg{Type: ref9p.Tattach, Fid: 28 + i%4, Afid: 2}
	}},
	{"auth-inuse", func(i uint32, nm string) *ref9p.Msg {
		return &ref9p.Msg{Type: ref9p.Tauth, Afid: 0}
	}},
	{"auth-more", func(i uint32, nm string) *ref9p.Msg {
		return &ref9p.Msg{Type: ref9p.Tauth, Afid: 30 + i%4, Aname: nm}
	}},
	{"walk-unknown", func(i uint32, nm string) *ref9p.Msg {
		return &ref9p.Msg{Type: ref9p.Twalk, Fid: 99, Newfid: 98}
	}},
	{"walk-newfid-inuse", func(i uint32, nm string) *ref9p.Msg {
		return &ref9p.Msg{Type: ref9p.Twalk, Fid: 0, Newfid: 1}
	}},
	{"walk-nosuch", func(i uint32, nm string) *ref9p.Msg {
		return &ref9p.Msg{Type: ref9p.Twalk, Fid: 0, Newfid: 40 + i%8, Wname: []string{nm}}
	}},
	{"walk-from-file", func(i uint32, nm string) *ref9p.Msg {
		return &ref9p.Msg{Type: ref9p.Twalk, Fid: 2, Newfid: 50 + i%8, Wname: []string{nm}}
	}},
	{"walk-opened", func(i uint32, nm string) *ref9p.Msg {
		return &ref9p.Msg{Type: ref9p.Twalk, Fid: 1, Newfid: 1, Wname: []string{nm}}
	}},
	{"open-again", func(i uint32, nm string) *ref9p.Msg {
		return &ref9p.Msg{Type: ref9p.Topen, Fid: 1, Mode: 0}
	}},
	{"open-dir-for-writing", func(i uint32, nm string) *ref9p.Msg {
		return &ref9p.Msg{Type: ref9p.Topen, Fid: 3, Mode: 1}
	}},
	{"open-unknown", func(i uint32, nm string) *ref9p.Msg {
		return &ref9p.Msg{Type: ref9p.Topen, Fid: 97, Mode: 0xFF}
	}},
	{"create-in-file", func(i uint32, nm string) *ref9p.Msg {
		return &ref9p.Msg{Type: ref9p.Tcreate, Fid: 2, Name: nm, Perm: 0o644}
	}},
	{"create-existing", func(i uint32, nm string) *ref9p.Msg {
		return &ref9p.Msg{Type: ref9p.Tcreate, Fid: 3, Name: "f1", Perm: 0o644}
	}},
	{"create-existing-dir", func(i uint32, nm string) *ref9p.Msg {
		return &ref9p.Msg{Type: ref9p.Tcreate, Fid: 3, Name: "d1", Perm: dmdir | 0o755}
	}},
	{"create-symlink", func(i uint32, nm string) *ref9p.Msg {
		return &ref9p.Msg{Type: ref9p.Tcreate, Fid: 3, Name: "l1", Perm: dmsymlink | 0o777, Ext: nm}
	}},
	{"read-unopened", func(i uint32, nm string) *ref9p.Msg {
		return &ref9p.Msg{Type: ref9p.Tread, Fid: 0, Offset: 0, Count: 1}
	}},
	{"read-dir-mid-record", func(i uint32, nm string) *ref9p.Msg {
		return &ref9p.Msg{Type: ref9p.Tread, Fid: 1, Offset: 7, Count: 100}
	}},
	{"read-dir", func(i uint32, nm string) *ref9p.Msg {
		return &ref9p.Msg{Type: ref9p.Tread, Fid: 1, Offset: 0, Count: 8192}
	}},
	{"read-file-big", func(i uint32, nm string) *ref9p.Msg {
		return &ref9p.Msg{Type: ref9p.Tread, Fid: 4, Offset: uint64(i % 3), Count: []uint32{8192, 1, 0xFFFFFFFF, 13}[i%4]}
	}},
	{"write-unopened", func(i uint32, nm string) *ref9p.Msg {
		return &ref9p.Msg{Type: ref9p.Twrite, Fid: 0, Data: []byte{'x'}}
	}},
	{"write-readonly", func(i uint32, nm string) *ref9p.Msg {
		return &ref9p.Msg{Type: ref9p.Twrite, Fid: 4, Data: []byte{}}
	}},
	{"clunk-unknown", func(i uint32, nm string) *ref9p.Msg {
		return &ref9p.Msg{Type: ref9p.Tclunk, Fid: 96}
	}},
	{"remove-nonempty-dir", func(i uint32, nm string) *ref9p.Msg {
		return &ref9p.Msg{Type: ref9p.Tremove, Fid: 60 + i%4}
	}},
	{"remove-unknown", func(i uint32, nm string) *ref9p.Msg {
		return &ref9p.Msg{Type: ref9p.Tremove, Fid: 95}
	}},
	{"stat", func(i uint32, nm string) *ref9p.Msg {
		return &ref9p.Msg{Type: ref9p.Tstat, Fid: []uint32{0, 2, 1, 94}[i%4]}
	}},
	{"flush", func(i uint32, nm string) *ref9p.Msg {
		return &ref9p.Msg{Type: ref9p.Tflush, Oldtag: uint16(i)}
	}},
	{"wstat-rename-onto", func(i uint32, nm string) *ref9p.Msg {
		return wst(2, func(s *ref9p.Stat) { s.Name = "d1" })
	}},
	{"wstat-unknown", func(i uint32, nm string) *ref9p.Msg {
		return wst(93, func(s *ref9p.Stat) { s.Name = nm })
	}},
}

// tightName: a name that keeps a one-name Twalk within msize; long > 0 asks
// for the longest such name (cut to 255 bytes, what a file system accepts).
func tightName(msize uint32, long bool) string {
	if !long {
		return "x"
	}
	room := int(msize) - 21 // a .u Tcreate with an empty extension and this name still fits
	if room < 1 {
		room = 1
	}
	if room > 255 {
		room = 255
	}
	b := make([]byte, room)
	for i := range b {
		b[i] = 'n'
	}
	return string(b)
}

// tightSession opens a session at msize: Tversion, the attach variant, the
// set-up (every frame that does not fit is left out). It returns false when
// no attach fits and none was asked for.
func tightSession(s *sess, target string, msize uint32, attach int, setup bool) {
	s.chunk("version", &ref9p.Msg{Type: ref9p.Tversion, Tag: 0xFFFF, Msize: msize, Version: verName(s.dotu)})
	if attach >= 0 {
		if m := tightAttach(target, s.dotu, msize, attach); m != nil {
			cp := *m
			s.chunk("attach", &cp)
		}
	}
	if setup {
		for _, ms := range tightSetup() {
			var ok []*ref9p.Msg
			for _, m := range ms {
				if fits(m, s.dotu, msize) {
					ok = append(ok, m)
				}
			}
			if len(ok) > 0 {
				s.chunk("setup", ok...)
			}
		}
	}
}

// enumTightCase: one kind, four times in one chunk, the chunk written twice.
func enumTightCase(target string, dotu bool, msize uint32, k tightKind, attach int) *Case {
	s := &sess{dotu: dotu}
	tightSession(s, target, msize, attach, attach >= 0)
	nm := tightName(msize, false)
	n := 0
	for round := 0; round < 2; round++ {
		var ms []*ref9p.Msg
		for i := uint32(0); i < 4; i++ {
			if m := k.op(i, nm); fits(m, dotu, msize) {
				ms = append(ms, m)
			}
		}
		if len(ms) > 0 {
			s.chunk("BURST "+k.name, ms...)
			n += len(ms)
		}
	}
	if n == 0 {
		return nil
	}
	return &Case{Target: target, Gen: "tight", Counted: true, Conns: [][][]byte{s.chunks},
		Desc: append([]string{fmt.Sprintf("msize %d, %s, burst of %q", msize, verName(dotu), k.name)}, s.desc...)}
}

// TestEnumTight: every msize 24..40 x dialect x target x kind of failing
// request (x with and without a preceding attach for the kinds that need no
// fid), four of them in flight.
func TestEnumTight(t *testing.T) {
	idx, n, nviol := 0, 0, 0
	for msize := uint32(24); msize <= 40; msize++ {
		for _, dotu := range []bool{false, true} {
			for _, target := range []string{"script", "ufs"} {
				for ki, k := range tightKinds {
					for _, attach := range []int{0, -1} {
						if attach < 0 && ki > 8 {
							continue // without fids all the others are "unknown fid"
						}
						idx++
						if hx.NShards > 1 && idx%hx.NShards != hx.Shard {
							continue
						}
						c := enumTightCase(target, dotu, msize, k, attach)
						if c == nil {
							continue
						}
						n++
						hx.Label("tight " + k.name)
						if err := execute("tight-enum", c); err != nil {
							hx.Violation("tight-enum", c, err.Error())
							t.Errorf("msize %d dotu %v %s %s: %v", msize, dotu, target, k.name, clip(err.Error(), 1500))
							if nviol++; nviol >= maxEnumViolations {
								return // one defect shows in many neighbouring cases
							}
						}
					}
				}
			}
		}
	}
	if hx.Shard == 0 {
		hx.Exhaustive(fmt.Sprintf("tight: msize 24..40 x {9P2000, 9P2000.u} x {script, ufs} x %d kinds of failing request (4 in one chunk, twice), with and without attach", len(tightKinds)))
	}
}

// genTight: 1..2 connections at a small msize; bursts that mix the compact
// failing requests (and ordinary structured steps that happen to fit).
func genTight(t *rapid.T, target string) *Case {
	c := &Case{Target: target, Gen: "tight", Counted: true}
	nc := rapid.SampledFrom([]int{1, 1, 1, 2}).Draw(t, "nconn")
	for ci := 0; ci < nc; ci++ {
		s := &sess{conn: ci, dotu: rapid.Bool().Draw(t, "dotu")}
		var msize uint32
		switch rapid.IntRange(0, 9).Draw(t, "msizeclass") {
		case 0:
			msize = uint32(rapid.IntRange(65, 300).Draw(t, "msize"))
		case 1, 2:
			msize = uint32(rapid.IntRange(41, 64).Draw(t, "msize"))
		default:
			msize = uint32(rapid.IntRange(24, 40).Draw(t, "msize"))
		}
		attach := rapid.IntRange(-1, 2).Draw(t, "attach")
		tightSession(s, target, msize, attach, rapid.IntRange(0, 4).Draw(t, "setup") > 0)
		// a palette of a few kinds: bursts of one kind of failure, and mixtures
		var palette []tightKind
		for i, n := 0, rapid.IntRange(1, 4).Draw(t, "npalette"); i < n; i++ {
			palette = append(palette, rapid.SampledFrom(tightKinds).Draw(t, "kind"))
		}
		for _, k := range palette {
			hx.Label("tight " + k.name)
		}
		long := rapid.Bool().Draw(t, "longnames")
		nb := rapid.IntRange(1, 4).Draw(t, "nbursts")
		for b := 0; b < nb; b++ {
			var ms []*ref9p.Msg
			for i, n := 0, rapid.IntRange(2, 24).Draw(t, "nburst"); i < n; i++ {
				var m *ref9p.Msg
				if rapid.IntRange(0, 5).Draw(t, "anystep") == 0 {
					m, _ = genStep(t, s.dotu)
					if m.Type == ref9p.Twrite && m.RawCount != nil {
						m.RawCount = nil
					}
					m.Tag = 0
				} else {
					k := rapid.SampledFrom(palette).Draw(t, "k")
					m = k.op(uint32(rapid.IntRange(0, 7).Draw(t, "i")), tightName(msize, long && rapid.Bool().Draw(t, "long")))
				}
				// a frame longer than msize ends the connection: keep few of them
				if !fits(m, s.dotu, msize) && rapid.IntRange(0, 15).Draw(t, "oversize") > 0 {
					continue
				}
				ms = append(ms, m)
			}
			if len(ms) > 0 {
				s.chunk("BURST", ms...)
			}
		}
		c.Conns = append(c.Conns, s.chunks)
		c.Desc = append(c.Desc, fmt.Sprintf("c%d: msize %d, %s", ci, msize, verName(s.dotu)))
		c.Desc = append(c.Desc, s.desc...)
	}
	return c
}

func TestPropTight(t *testing.T) { prop("tight", genTight, 220, 1500)(t) }

// ---------------------------------------------------------------------------
// inner

type innerBase struct {
	name string
	m    *ref9p.Msg
}

// innerBases: a valid message of every type (fids as innerPrologue makes them).
func innerBases(dotu bool) []innerBase {
	full := rawc.NoChangeStat()
	full.Name, full.Uid, full.Gid, full.Muid, full.Ext = "name", "alice", "users", "bob", "ext"
	q := ref9p.Qid{Type: 0x80, Vers: 1, Path: 42}
	var w16 []string
	for i := 0; i < 16; i++ {
		w16 = append(w16, fmt.Sprintf("w%d", i))
	}
	bs := []innerBase{
		{"Tversion", &ref9p.Msg{Type: ref9p.Tversion, Tag: 0xFFFF, Msize: 8192, Version: verName(dotu)}},
		{"Tauth", &ref9p.Msg{Type: ref9p.Tauth, Afid: 8, Uname: "alice", Aname: "tree", Nuname: 1001}},
		{"Tattach", &ref9p.Msg{Type: ref9p.Tattach, Fid: 9, Afid: ref9p.NOFID, Uname: "root", Aname: "tree", Nuname: 0}},
		{"Tflush", &ref9p.Msg{Type: ref9p.Tflush, Oldtag: 3}},
		{"Twalk2", &ref9p.Msg{Type: ref9p.Twalk, Fid: 0, Newfid: 10, Wname: []string{"d1", "f2"}}},
		{"Twalk0", &ref9p.Msg{Type: ref9p.Twalk, Fid: 0, Newfid: 11}},
		{"Twalk16", &ref9p.Msg{Type: ref9p.Twalk, Fid: 0, Newfid: 12, Wname: w16}},
		{"Topen", &ref9p.Msg{Type: ref9p.Topen, Fid: 3, Mode: 0}},
		{"Tcreate", &ref9p.Msg{Type: ref9p.Tcreate, Fid: 3, Name: "fnew", Perm: 0o644, Mode: 1, Ext: "target"}},
		{"Tread", &ref9p.Msg{Type: ref9p.Tread, Fid: 2, Offset: 0, Count: 10}},
		{"Twrite", &ref9p.Msg{Type: ref9p.Twrite, Fid: 2, Offset: 3, Data: []byte("0123456789")}},
		{"Twrite0", &ref9p.Msg{Type: ref9p.Twrite, Fid: 2, Offset: 0, Data: []byte{}}},
		{"Tclunk", &ref9p.Msg{Type: ref9p.Tclunk, Fid: 1}},
		{"Tremove", &ref9p.Msg{Type: ref9p.Tremove, Fid: 3}},
		{"Tstat", &ref9p.Msg{Type: ref9p.Tstat, Fid: 2}},
		{"Twstat-nochange", &ref9p.Msg{Type: ref9p.Twstat, Fid: 2, Stat: rawc.NoChangeStat()}},
		{"Twstat-strings", &ref9p.Msg{Type: ref9p.Twstat, Fid: 2, Stat: full}},
		// a client may send R-messages too: the decoder is the same
		{"Rversion", &ref9p.Msg{Type: ref9p.Rversion, Tag: 0xFFFF, Msize: 8192, Version: verName(dotu)}},
		{"Rauth", &ref9p.Msg{Type: ref9p.Rauth, Qid: q}},
		{"Rattach", &ref9p.Msg{Type: ref9p.Rattach, Qid: q}},
		{"Rerror", &ref9p.Msg{Type: ref9p.Rerror, Ename: "some error", Ecode: 5}},
		{"Rflush", &ref9p.Msg{Type: ref9p.Rflush}},
		{"Rwalk", &ref9p.Msg{Type: ref9p.Rwalk, Wqid: []ref9p.Qid{q, q}}},
		{"Ropen", &ref9p.Msg{Type: ref9p.Ropen, Qid: q, Iounit: 8168}},
		{"Rcreate", &ref9p.Msg{Type: ref9p.Rcreate, Qid: q, Iounit: 8168}},
		{"Rread", &ref9p.Msg{Type: ref9p.Rread, Data: []byte("0123456789")}},
		{"Rwrite", &ref9p.Msg{Type: ref9p.Rwrite, Count: 10}},
		{"Rclunk", &ref9p.Msg{Type: ref9p.Rclunk}},
		{"Rremove", &ref9p.Msg{Type: ref9p.Rremove}},
		{"Rstat", &ref9p.Msg{Type: ref9p.Rstat, Stat: full}},
		{"Rwstat", &ref9p.Msg{Type: ref9p.Rwstat}},
	}
	for i := range bs {
		if bs[i].m.Tag == 0 {
			bs[i].m.Tag = 77
		}
	}
	return bs
}

// lenFields: the inner length fields of a valid frame.
func lenFields(frame []byte, dotu bool) []ref9p.Field {
	fm, err := ref9p.FieldMap(frame, dotu)
	if err != nil {
		panic(fmt.Sprintf("harness: base frame does not decode: %v", err))
	}
	var out []ref9p.Field
	for _, f := range fm {
		switch f.Kind {
		case "strlen", "nw", "statlen", "statsize":
			out = append(out, f)
		case "count":
			if frame[4] == ref9p.Twrite || frame[4] == ref9p.Rread {
				out = append(out, f)
			}
		}
	}
	return out
}

func fieldGet(frame []byte, f ref9p.Field) uint64 {
	if f.Len == 4 {
		return uint64(binary.LittleEndian.Uint32(frame[f.Off:]))
	}
	return uint64(binary.LittleEndian.Uint16(frame[f.Off:]))
}

// innerValues: the values a length field is rewritten to. after = bytes of
// the frame that follow the field, pad = zero bytes appended to the frame.
func innerValues(f ref9p.Field, frame []byte, pad int) []uint64 {
	v := fieldGet(frame, f)
	after := uint64(len(frame) - f.Off - f.Len + pad)
	max := uint64(0xFFFF)
	if f.Len == 4 {
		max = 0xFFFFFFFF
	}
	set := map[uint64]bool{}
	add := func(xs ...uint64) {
		for _, x := range xs {
			if x <= max && x != v {
				set[x] = true
			}
		}
	}
	add(0, 1, 2, 3, v-1, v+1, v-2, v+2, v+4, v-4, after, after-1, after+1, after-2, after+2, max, max-1, max/2, max/2+1, 0xFF, 0x100)
	switch f.Kind {
	case "statsize", "statlen":
		// a stat record has a fixed part of 39+2 bytes (41+2 with the outer
		// count): every value around it, and every value up to what follows
		for x := uint64(0); x <= after-uint64(pad)+3; x++ {
			add(x)
		}
	case "strlen":
		add(37, 38, 39, 40, 41, 0x7F, 0x80)
	case "nw":
		add(15, 16, 17, 18, after/2, after/2+1, after/13, after/13+1, 0x1000)
	case "count":
		add(0xFFFFFFE8, 0xFFFFFFF0, 0xFFFFFFF5, 0xFFFFFFF9, 0x10000, 8168, 8169, 8192, uint64(len(frame)), 0x80000000-24)
	}
	var out []uint64
	for x := range set {
		out = append(out, x)
	}
	sort.Slice(out, func(i, j int) bool { return out[i] < out[j] })
	return out
}

// rewrite returns frame with field f set to v and pad zero bytes appended
// (the frame size follows the bytes present).
func rewrite(frame []byte, f ref9p.Field, v uint64, pad int) []byte {
	b := append(append([]byte{}, frame...), make([]byte, pad)...)
	if f.Len == 4 {
		binary.LittleEndian.PutUint32(b[f.Off:], uint32(v))
	} else {
		binary.LittleEndian.PutUint16(b[f.Off:], uint16(v))
	}
	binary.LittleEndian.PutUint32(b, uint32(len(b)))
	return b
}

// innerPrologue: fid 0 = root, 1 = d1 (open), 2 = f1 (open for read and
// write), 3 = the root again.
func innerPrologue(s *sess, target string) {
	s.open(target, 8192)
	s.chunk("walks", walkTo(1, []string{"d1"}), walkTo(2, []string{"f1"}), walkTo(3, nil))
	s.chunk("opens", &ref9p.Msg{Type: ref9p.Topen, Fid: 1, Mode: 0}, &ref9p.Msg{Type: ref9p.Topen, Fid: 2, Mode: 2})
}

func innerCase(target string, dotu bool, what string, frames ...[]byte) *Case {
	s := &sess{dotu: dotu}
	innerPrologue(s, target)
	var b []byte
	for _, f := range frames {
		b = append(b, f...)
	}
	s.chunks = append(s.chunks, b)
	return &Case{Target: target, Gen: "inner", Counted: true, Conns: [][][]byte{s.chunks},
		Desc: append(append([]string{verName(dotu)}, s.desc...), what)}
}

// TestEnumInner: every base message x every inner length field x the value
// set, with and without zero bytes after the frame's own content.
func TestEnumInner(t *testing.T) {
	idx, n, nfields, nviol := 0, 0, 0, 0
	for _, dotu := range []bool{false, true} {
		for _, base := range innerBases(dotu) {
			frame := ref9p.Encode(base.m, dotu)
			for _, f := range lenFields(frame, dotu) {
				nfields++
				for _, pad := range []int{0, 64} {
					for _, v := range innerValues(f, frame, pad) {
						idx++
						if hx.NShards > 1 && idx%hx.NShards != hx.Shard {
							continue
						}
						// the decoder is the same whatever runs behind it: the
						// targets take turns (what gets past the decoder meets
						// both implementations through neighbouring values)
						target := []string{"ufs", "script"}[(idx/max(hx.NShards, 1))%2]
						what := fmt.Sprintf("%s: %s (%d bytes at %d) %d -> %d, %d bytes follow it, %d of them zero padding",
							base.name, f.Name, f.Len, f.Off, fieldGet(frame, f), v, len(frame)-f.Off-f.Len+pad, pad)
						c := innerCase(target, dotu, what, rewrite(frame, f, v, pad))
						n++
						hx.Label("inner " + base.name + " " + f.Kind)
						if err := execute("inner-enum", c); err != nil {
							hx.Violation("inner-enum", c, err.Error())
							t.Errorf("%s %s: %v", verName(dotu), what, clip(err.Error(), 1500))
							if nviol++; nviol >= maxEnumViolations {
								return
							}
						}
					}
				}
			}
		}
	}
	if hx.Shard == 0 {
		hx.Exhaustive(fmt.Sprintf("inner: %d length fields in 31 valid messages of either dialect, each rewritten to every value of its boundary set (stat sizes: every value from 0 to past the bytes that follow), with 0 and 64 zero bytes appended", nfields))
	}
}

// genInner: mixtures — 1..3 rewritten fields in one frame, arbitrary values,
// arbitrary padding, a frame built for the other dialect, several rewritten
// frames and valid ones in one chunk.
func genInner(t *rapid.T, target string) *Case {
	dotu := rapid.Bool().Draw(t, "dotu")
	fdotu := dotu
	if rapid.IntRange(0, 7).Draw(t, "otherdialect") == 0 {
		fdotu = !dotu
	}
	bases := innerBases(fdotu)
	var frames [][]byte
	what := ""
	for i, n := 0, rapid.IntRange(1, 4).Draw(t, "nframes"); i < n; i++ {
		base := rapid.SampledFrom(bases).Draw(t, "base")
		if rapid.IntRange(0, 2).Draw(t, "wstat") == 0 {
			base = bases[15+rapid.IntRange(0, 1).Draw(t, "which")]
		}
		m := *base.m
		m.Tag = uint16(100 + i)
		if m.Type == ref9p.Twstat && rapid.Bool().Draw(t, "genstat") {
			m.Stat = rawc.NoChangeStat()
			m.Stat.Name = rapid.SampledFrom([]string{"", "x", "f1", "d1/f2", ".."}).Draw(t, "wname")
			m.Stat.Length = rapid.SampledFrom([]uint64{0xFFFFFFFFFFFFFFFF, 0, 3}).Draw(t, "wlen")
		}
		frame := ref9p.Encode(&m, fdotu)
		fs := lenFields(frame, fdotu)
		if len(fs) == 0 || rapid.IntRange(0, 5).Draw(t, "valid") == 0 {
			frames = append(frames, frame)
			what += fmt.Sprintf(" [%s valid]", base.name)
			continue
		}
		pad := rapid.SampledFrom([]int{0, 0, 1, 2, 38, 39, 64, 300}).Draw(t, "pad")
		b := frame
		what += fmt.Sprintf(" [%s pad %d:", base.name, pad)
		for k, ne := 0, rapid.SampledFrom([]int{1, 1, 1, 2, 3}).Draw(t, "nedits"); k < ne; k++ {
			f := rapid.SampledFrom(fs).Draw(t, "field")
			var v uint64
			if rapid.Bool().Draw(t, "fromset") {
				v = rapid.SampledFrom(innerValues(f, frame, pad)).Draw(t, "v")
			} else if f.Len == 4 {
				v = uint64(rapid.Uint32().Draw(t, "v32"))
			} else {
				v = uint64(rapid.Uint16().Draw(t, "v16"))
			}
			p := 0
			if k == 0 {
				p = pad
			}
			b = rewrite(b, f, v, p)
			what += fmt.Sprintf(" %s=%d", f.Name, v)
		}
		what += "]"
		frames = append(frames, b)
	}
	hx.Label(fmt.Sprintf("inner-mix frames=%d", len(frames)))
	return innerCase(target, dotu, "one chunk:"+what, frames...)
}

func TestPropInner(t *testing.T) { prop("inner", genInner, 200, 1500, "script", "ufs")(t) }
