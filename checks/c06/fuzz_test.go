package c06

import (
	"testing"
	"time"

	"verif/internal/script"
)

// FuzzSrvStream (thorough tier, native coverage-guided fuzzing): a byte
// stream is fed to an in-process server framework with the scripted
// implementation. A panic in any server goroutine kills the fuzz worker, which
// the fuzzer reports together with the input.
func FuzzSrvStream(f *testing.F) {
	for _, dotu := range []bool{false, true} {
		f.Add(validSession("script", dotu), dotu, uint8(0))
		f.Add(validSession("script", dotu), dotu, uint8(3))
	}
	f.Add([]byte{7, 0, 0, 0, 120, 0, 0}, true, uint8(1))
	f.Fuzz(func(t *testing.T, b []byte, dotu bool, chunk uint8) {
		sv := script.NewServer(script.Config{Msize: 8192, Dotu: dotu, Auth: true, Flush: script.FlushCancel, Maxpend: int(chunk % 3)})
		end := sv.Dial("fz")
		var cuts []int
		if chunk > 0 {
			for i := int(chunk); i < len(b); i += int(chunk) {
				cuts = append(cuts, i)
			}
		}
		_ = end.WriteChunks(b, cuts)
		// let the server consume and finish what it started
		for i := 0; i < 400; i++ {
			if end.Unread() == 0 {
				break
			}
			time.Sleep(50 * time.Microsecond)
		}
		quiet := func() bool {
			en, dn := 0, 0
			for _, e := range sv.S.Log() {
				switch e.Kind {
				case "enter":
					en++
				case "done":
					dn++
				}
			}
			return en == dn
		}
		for i := 0; i < 200 && !quiet(); i++ {
			time.Sleep(100 * time.Microsecond)
		}
		time.Sleep(100 * time.Microsecond)
		end.Close()
		sv.S.ReleaseAll()
		time.Sleep(50 * time.Microsecond)
	})
}
