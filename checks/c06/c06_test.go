// C06 — no client behaviour can crash the server.
package c06

import (
	"encoding/binary"
	"encoding/json"
	"fmt"
	"net"
	"os"
	"path/filepath"
	"sync"
	"testing"
	"time"

	"pgregory.net/rapid"
	"verif/internal/child"
	"verif/internal/gen9p"
	"verif/internal/hx"
	"verif/internal/rawc"
	"verif/internal/ref9p"
)

func TestMain(m *testing.M) { hx.Main(m, "C06") }

// Case: per connection a list of chunks that are written as they are; the
// executor interleaves the connections round-robin.
type Case struct {
	Target string     `json:"target"` // "script" or "ufs"
	Gen    string     `json:"gen"`    // "struct", "mutate", "raw", "churn", "flood"
	Conns  [][][]byte `json:"conns"`
	Desc   []string   `json:"desc,omitempty"` // human-readable outline of the structured steps
	// Loops > 1: on connection i the chunks from index LoopFrom[i] on are
	// written Loops times over (a burst whose effect depends on the schedule
	// inside the server is tried again and again).
	Loops    int   `json:"loops,omitempty"`
	LoopFrom []int `json:"loop_from,omitempty"`
	// Mute[i] >= 0: from chunk index Mute[i] on (indices after the loop was
	// unrolled) connection i never reads a reply again.
	Mute []int `json:"mute,omitempty"`
	// Hold: the bystander and a fresh connection are probed while the
	// hostile connections are still open (and once more after they closed).
	Hold bool `json:"hold,omitempty"`
	// Counted: every frame written is a request that gets one reply; the
	// executor goes on as soon as the replies to a chunk are in (or the
	// connection was closed) instead of waiting for silence.
	Counted bool `json:"counted,omitempty"`
}

// unrolled returns the chunks connection i writes, loop unrolled.
func (c *Case) unrolled(i int) [][]byte {
	chunks := c.Conns[i]
	if c.Loops <= 1 || i >= len(c.LoopFrom) {
		return chunks
	}
	from := c.LoopFrom[i]
	if from < 0 || from >= len(chunks) {
		return chunks
	}
	out := append([][]byte{}, chunks[:from]...)
	for k := 0; k < c.Loops; k++ {
		out = append(out, chunks[from:]...)
	}
	return out
}

func (c *Case) muteAt(i int) int {
	if i < len(c.Mute) && c.Mute[i] >= 0 {
		return c.Mute[i]
	}
	return int(^uint(0) >> 1)
}

type targetEnv struct {
	ch        *child.Child
	jail      string
	export    string
	bystander *rawc.C
	bdotu     bool
}

var (
	envMu sync.Mutex
	envs  = map[string]*targetEnv{}
)

const rootInJail = "/up/export"

func getEnv(target string) (*targetEnv, error) {
	envMu.Lock()
	defer envMu.Unlock()
	if e := envs[target]; e != nil {
		return e, nil
	}
	base, _, err := child.Base()
	if err != nil {
		return nil, err
	}
	e := &targetEnv{}
	sock := filepath.Join(base, "s-"+target)
	switch target {
	case "script":
		e.ch, err = child.Start(sock, "-script", "-dotu", "-msize", "8192", "-auth", "-flush", "1")
	case "ufs":
		e.jail = filepath.Join(base, "jail")
		e.export = filepath.Join(e.jail, "up", "export")
		if err := os.MkdirAll(e.export, 0o755); err != nil {
			return nil, err
		}
		_ = os.WriteFile(filepath.Join(e.jail, "up", "canary"), []byte("outside"), 0o644)
		resetTree(e.export)
		e.ch, err = child.Start(sock, "-ufs", "-root", rootInJail, "-chroot", e.jail, "-dotu", "-msize", "8192")
	default:
		return nil, fmt.Errorf("harness: target %q", target)
	}
	if err != nil {
		return nil, err
	}
	envs[target] = e
	return e, nil
}

// resetTree recreates the small exported tree.
func resetTree(dir string) {
	// the hostile session may have renamed or removed the root itself
	parent := filepath.Dir(dir)
	if ps, err := os.ReadDir(parent); err == nil {
		for _, en := range ps {
			if en.Name() != filepath.Base(dir) && en.Name() != "canary" {
				_ = os.RemoveAll(filepath.Join(parent, en.Name()))
			}
		}
	}
	_ = os.MkdirAll(dir, 0o755)
	_ = os.Chmod(dir, 0o755)
	ents, _ := os.ReadDir(dir)
	for _, en := range ents {
		_ = os.RemoveAll(filepath.Join(dir, en.Name()))
	}
	_ = os.MkdirAll(filepath.Join(dir, "d1", "d2"), 0o755)
	_ = os.WriteFile(filepath.Join(dir, "f1"), []byte("hello, world\n"), 0o644)
	_ = os.WriteFile(filepath.Join(dir, "d1", "f2"), make([]byte, 5000), 0o600)
	_ = os.WriteFile(filepath.Join(dir, "empty"), nil, 0o644)
	_ = os.Symlink("f1", filepath.Join(dir, "l1"))
	_ = os.Symlink("nowhere", filepath.Join(dir, "l2"))
	for i := 0; i < 12; i++ {
		_ = os.WriteFile(filepath.Join(dir, "d1", fmt.Sprintf("entry-%02d-%s", i, string(make([]byte, i*3)))), []byte{byte(i)}, 0o644)
	}
}

// ensureBystander opens (or re-opens) the long-lived bystander connection.
func (e *targetEnv) ensureBystander(target string) error {
	if e.bystander != nil {
		return nil
	}
	c, err := e.ch.Dial()
	if err != nil {
		return err
	}
	b := rawc.New(c)
	b.Timeout = patience
	if r, err := b.Version(8192, "9P2000.u"); err != nil || r.Type != ref9p.Rversion {
		return fmt.Errorf("bystander Tversion: %v", err)
	}
	if r, err := b.Attach(0, ref9p.NOFID, "alice", "", 1001); err != nil || r.Type != ref9p.Rattach {
		if target == "ufs" {
			if r, err = b.Attach(0, ref9p.NOFID, "root", "", 0); err != nil || r.Type != ref9p.Rattach {
				return fmt.Errorf("bystander Tattach: %v %+v", err, r)
			}
		} else {
			return fmt.Errorf("bystander Tattach: %v %+v", err, r)
		}
	}
	e.bystander = b
	return nil
}

// patience bounds every wait whose expiry is read as "no longer served": long
// enough that a stall of the whole machine is not mistaken for a wedged server.
const patience = 30 * time.Second

type deathErr struct{ msg string }

func (d *deathErr) Error() string { return d.msg }

func run(c *Case) error {
	e, err := getEnv(c.Target)
	if err != nil {
		hx.Inconclusive("environment: " + err.Error())
		return nil
	}
	if !e.ch.Alive() {
		// died between cases (a straggler of the previous one): restart, not attributable
		_ = e.ch.Restart()
		e.bystander = nil
	}
	if c.Target == "ufs" {
		resetTree(e.export)
	}
	if err := e.ensureBystander(c.Target); err != nil {
		hx.Inconclusive("bystander: " + err.Error())
		_ = e.ch.Restart()
		e.bystander = nil
		return nil
	}
	// ---- the hostile connections
	conns := make([]net.Conn, len(c.Conns))
	for i := range c.Conns {
		cn, err := e.ch.Dial()
		if err != nil {
			return e.death("dial failed before the case: " + err.Error())
		}
		conns[i] = cn
		defer cn.Close()
	}
	buf := make([]byte, 1<<16)
	drain := func(cn net.Conn, d time.Duration) {
		_ = cn.SetReadDeadline(time.Now().Add(d))
		for {
			n, err := cn.Read(buf)
			if n == 0 || err != nil {
				return
			}
			_ = cn.SetReadDeadline(time.Now().Add(300 * time.Microsecond))
		}
	}
	plans := make([][][]byte, len(c.Conns))
	maxlen := 0
	for i := range c.Conns {
		plans[i] = c.unrolled(i)
		if len(plans[i]) > maxlen {
			maxlen = len(plans[i])
		}
	}
	// A case with a repeated part consists of well-formed requests, each of
	// which is answered: instead of waiting for the connection to fall
	// silent, the executor counts replies and goes on as soon as everything
	// written so far was answered (or after 2 ms: a flushed request may stay
	// unanswered). All connections get their chunk before any is waited for.
	counted := c.Loops > 1 || c.Counted
	wait := 2 * time.Millisecond
	if c.Counted {
		// no repetition rides on it: leave a loaded server the time to put the fids in place
		wait = 10 * time.Millisecond
	}
	sent := make([]int, len(conns))
	got := make([]replyCounter, len(conns))
	await := func(i int) {
		end := time.Now().Add(wait)
		for got[i].n < sent[i] {
			_ = conns[i].SetReadDeadline(end)
			n, err := conns[i].Read(buf)
			got[i].feed(buf[:n])
			if n == 0 || err != nil {
				// not waited for again
				sent[i] = got[i].n
				if c.Loops > 1 {
					hx.ExtraAdd("churn_waits_expired", 1)
				}
				return
			}
		}
	}
	for k := 0; k < maxlen; k++ {
		for i, chunks := range plans {
			if k >= len(chunks) {
				continue
			}
			_ = conns[i].SetWriteDeadline(time.Now().Add(2 * time.Second))
			_, _ = conns[i].Write(chunks[k])
			if counted {
				sent[i] += countFrames(chunks[k])
				if c.Loops > 1 {
					hx.ExtraAdd("churn_chunks", 1)
				}
				continue
			}
			if k < c.muteAt(i) {
				drain(conns[i], 2*time.Millisecond)
			}
		}
		if counted {
			for i, chunks := range plans {
				if k < len(chunks) && k < c.muteAt(i) {
					await(i)
				}
			}
		}
	}
	if c.Hold {
		// the hostile connections stay open (the muted ones with their replies
		// unread): everybody else has to be served meanwhile. Two rounds, so
		// that the second one meets the server after it worked through what
		// was thrown at it.
		for round := 0; round < 2; round++ {
			if err := e.probe("while the hostile connections are still open"); err != nil {
				return err
			}
			if round == 0 {
				time.Sleep(20 * time.Millisecond)
			}
		}
	}
	for i, cn := range conns {
		if len(plans[i]) <= c.muteAt(i) && !c.Counted {
			// (a Counted case has waited for its replies already)
			drain(cn, 3*time.Millisecond)
		}
		_ = cn.Close()
	}
	// ---- oracle
	if err := e.probe("after the case"); err != nil {
		return err
	}
	// the process may die a moment later (a goroutine still running the last request)
	time.Sleep(200 * time.Microsecond)
	if !e.ch.Alive() {
		return e.death("the server process died")
	}
	return nil
}

// replyCounter counts the complete frames of a reply stream.
type replyCounter struct {
	n    int
	hdr  []byte // bytes of an incomplete size prefix
	skip int    // bytes of the current frame still to come
}

func (r *replyCounter) feed(b []byte) {
	for len(b) > 0 {
		if r.skip > 0 {
			k := min(r.skip, len(b))
			r.skip -= k
			b = b[k:]
			if r.skip == 0 {
				r.n++
			}
			continue
		}
		k := min(4-len(r.hdr), len(b))
		r.hdr = append(r.hdr, b[:k]...)
		b = b[k:]
		if len(r.hdr) == 4 {
			sz := int(binary.LittleEndian.Uint32(r.hdr))
			r.hdr = r.hdr[:0]
			if sz <= 4 {
				r.n++ // cannot happen with a sane server; never stall on it
				continue
			}
			r.skip = sz - 4
		}
	}
}

func countFrames(b []byte) int {
	frames, _, _ := ref9p.SplitFrames(b)
	return len(frames)
}

// probe is the oracle: the child is alive, the bystander connection opened
// before the case gets an answer, and a fresh connection gets an Rversion.
func (e *targetEnv) probe(when string) error {
	if !e.ch.Alive() {
		return e.death("the server process died")
	}
	// bystander still served
	// any reply counts as "served" (the hostile session may have removed or
	// renamed the exported root itself, which then fails to stat)
	r, err := e.bystander.Stat(0)
	if err != nil {
		if e.diedMeanwhile(err) {
			return e.death("the server process died")
		}
		return e.unserved(fmt.Sprintf("a bystander connection opened before the case is no longer served %s (Tstat: %v %+v)", when, err, r))
	}
	// later connections are served
	cn, err := e.ch.Dial()
	if err != nil {
		return e.death("a new connection cannot be opened " + when + ": " + err.Error())
	}
	p := rawc.New(cn)
	p.Timeout = patience
	v, err := p.Version(4096, "9P2000")
	p.Close()
	if err != nil || v.Type != ref9p.Rversion {
		if e.diedMeanwhile(err) {
			return e.death("the server process died")
		}
		return e.unserved(fmt.Sprintf("a connection opened %s is not served (Tversion: %v)", when, err))
	}
	return nil
}

// diedMeanwhile: a connection that breaks (anything but a reply that did not
// come in time) is the first thing seen of a server that is just dying; its
// exit is noticed a moment later.
func (e *targetEnv) diedMeanwhile(err error) bool {
	if err == nil || err == rawc.ErrTimeout {
		return !e.ch.Alive()
	}
	for i := 0; i < 300 && e.ch.Alive(); i++ {
		time.Sleep(10 * time.Millisecond)
	}
	return !e.ch.Alive()
}

// unserved: the server is alive but did not answer within patience. Its
// goroutine dump goes into the report (the dump kills it; it is restarted).
func (e *targetEnv) unserved(what string) error {
	txt := e.ch.Dump()
	_ = e.ch.Restart()
	e.bystander = nil
	return &deathErr{what + "; server goroutines:\n" + clip(txt, 5000)}
}

func (e *targetEnv) death(what string) error {
	txt := e.ch.ErrText()
	if e.ch.Alive() {
		txt = e.ch.Dump()
	}
	_ = e.ch.Restart()
	e.bystander = nil
	return &deathErr{what + "; its stderr:\n" + clip(txt, 6000)}
}

func clip(s string, n int) string {
	if len(s) > n {
		return s[:n] + "…"
	}
	return s
}

// ---------------------------------------------------------------------------
// generators

var fidU = []uint32{0, 1, 2, 3, ref9p.NOFID, 0x7FFFFFFF}
var names = []string{"d1", "f1", "d2", "f2", "l1", "l2", "empty", "x", "..", ".", "", "/", "d1/f2", "../up/canary", "/up/canary", "entry-03-\x00\x00\x00\x00\x00\x00\x00\x00\x00"}

func fid(t *rapid.T, l string) uint32 {
	if rapid.IntRange(0, 9).Draw(t, l+".wild") == 0 {
		return gen9p.U32().Draw(t, l)
	}
	return rapid.SampledFrom(fidU).Draw(t, l)
}

func name(t *rapid.T, l string) string {
	switch rapid.IntRange(0, 19).Draw(t, l+".k") {
	case 0:
		return string(gen9p.Bytes(t, rapid.IntRange(0, 300).Draw(t, l+".n"), l))
	case 1:
		return string(make([]byte, 65535))
	case 2:
		return string(make([]byte, 7000))
	}
	return rapid.SampledFrom(names).Draw(t, l)
}

func u64b(t *rapid.T, l string) uint64 {
	return rapid.OneOf(rapid.SampledFrom([]uint64{0, 1, 13, 37, 61, 62, 63, 124, 1000, 5000, 1 << 31, 1 << 32, 1<<63 - 1, 1 << 63, 0xFFFFFFFFFFFFFFFF}), gen9p.U64()).Draw(t, l)
}

func cnt(t *rapid.T, l string) uint32 {
	return rapid.OneOf(rapid.SampledFrom([]uint32{0, 1, 2, 50, 61, 62, 63, 200, 4096, 8168, 8169, 1 << 31, 0xFFFFFFE8, 0xFFFFFFF0, 0xFFFFFFFF}), gen9p.U32()).Draw(t, l)
}

func tag(t *rapid.T) uint16 {
	return rapid.OneOf(rapid.SampledFrom([]uint16{0, 1, 2, 3, 0xFFFF, 0xFFFE}), rapid.Uint16()).Draw(t, "tag")
}

func genStep(t *rapid.T, dotu bool) (*ref9p.Msg, string) {
	kind := rapid.SampledFrom([]string{"version", "attach", "auth", "walk", "walk", "walk", "open", "open", "create", "read", "read", "read", "write", "clunk", "remove", "stat", "wstat", "flush"}).Draw(t, "kind")
	m := &ref9p.Msg{Tag: tag(t)}
	switch kind {
	case "version":
		m.Type = ref9p.Tversion
		m.Tag = rapid.SampledFrom([]uint16{0xFFFF, 0xFFFF, 0, 1}).Draw(t, "vtag")
		m.Msize = rapid.SampledFrom([]uint32{0, 1, 23, 24, 25, 32, 64, 128, 4096, 8192, 65536, 0x7FFFFFFF, 0xFFFFFFFF}).Draw(t, "msize")
		m.Version = rapid.SampledFrom([]string{"9P2000", "9P2000.u", "9P2000.L", "", "9P"}).Draw(t, "ver")
	case "attach":
		m.Type = ref9p.Tattach
		m.Fid, m.Afid = fid(t, "fid"), rapid.OneOf(rapid.Just(uint32(ref9p.NOFID)), rapid.SampledFrom(fidU)).Draw(t, "afid")
		m.Uname, m.Aname = rapid.SampledFrom([]string{"alice", "root", "", "mallory"}).Draw(t, "uname"), name(t, "aname")
		m.Nuname = rapid.SampledFrom([]uint32{0, 1001, 0xFFFFFFFF, 12345}).Draw(t, "nuname")
	case "auth":
		m.Type = ref9p.Tauth
		m.Afid = fid(t, "afid")
		m.Uname, m.Aname = rapid.SampledFrom([]string{"alice", "root", ""}).Draw(t, "uname"), name(t, "aname")
		m.Nuname = rapid.SampledFrom([]uint32{0, 1001, 0xFFFFFFFF}).Draw(t, "nuname")
	case "walk":
		m.Type = ref9p.Twalk
		m.Fid, m.Newfid = fid(t, "fid"), fid(t, "newfid")
		n := rapid.SampledFrom([]int{0, 1, 1, 2, 3, 16, 17}).Draw(t, "nw")
		for i := 0; i < n; i++ {
			m.Wname = append(m.Wname, name(t, "wn"))
		}
	case "open":
		m.Type = ref9p.Topen
		m.Fid, m.Mode = fid(t, "fid"), rapid.OneOf(rapid.SampledFrom([]uint8{0, 1, 2, 3, 0x10, 0x11, 0x40, 0x42}), rapid.Uint8()).Draw(t, "mode")
	case "create":
		m.Type = ref9p.Tcreate
		m.Fid, m.Name = fid(t, "fid"), name(t, "name")
		m.Perm = rapid.OneOf(rapid.SampledFrom([]uint32{0o644, 0x80000000 | 0o755, 0x02000000 | 0o777, 0x01000000, 0x00800000, 0x00200000, 0x00100000, 0xFFFFFFFF}), gen9p.U32()).Draw(t, "perm")
		m.Mode = rapid.SampledFrom([]uint8{0, 1, 2, 3, 0x11, 0x40}).Draw(t, "mode")
		m.Ext = rapid.SampledFrom([]string{"", "f1", "0", "1", "4294967295", "99999999999999999999", "b 1 2", "../up/canary"}).Draw(t, "ext")
	case "read":
		m.Type = ref9p.Tread
		m.Fid, m.Offset, m.Count = fid(t, "fid"), u64b(t, "off"), cnt(t, "count")
	case "write":
		m.Type = ref9p.Twrite
		m.Fid, m.Offset = fid(t, "fid"), u64b(t, "off")
		m.Data = gen9p.Bytes(t, rapid.SampledFrom([]int{0, 1, 100, 8168, 8169}).Draw(t, "dlen"), "data")
		if rapid.IntRange(0, 5).Draw(t, "rawcount") == 0 {
			c := cnt(t, "wcount")
			m.RawCount = &c
		}
	case "clunk":
		m.Type, m.Fid = ref9p.Tclunk, fid(t, "fid")
	case "remove":
		m.Type, m.Fid = ref9p.Tremove, fid(t, "fid")
	case "stat":
		m.Type, m.Fid = ref9p.Tstat, fid(t, "fid")
	case "wstat":
		m.Type, m.Fid = ref9p.Twstat, fid(t, "fid")
		if rapid.Bool().Draw(t, "nochange") {
			m.Stat = rawc.NoChangeStat()
			switch rapid.IntRange(0, 5).Draw(t, "wfield") {
			case 0:
				m.Stat.Name = clipName(name(t, "wname"))
			case 1:
				m.Stat.Length = u64b(t, "wlen")
			case 2:
				m.Stat.Mode = gen9p.U32().Draw(t, "wmode")
			case 3:
				m.Stat.Mtime = gen9p.U32().Draw(t, "wmtime")
			case 4:
				m.Stat.Uid, m.Stat.Gid = "nobody-such", "root"
			case 5:
				m.Stat.Nuid, m.Stat.Ngid = 0, gen9p.U32().Draw(t, "wgid")
			}
		} else {
			m.Stat = gen9p.Cfg{}.Stat(t, dotu, "wst")
		}
	case "flush":
		m.Type, m.Oldtag = ref9p.Tflush, tag(t)
	}
	return m, kind
}

// clipName keeps a wstat name representable inside a stat record.
func clipName(s string) string {
	if len(s) > 60000 {
		return s[:60000]
	}
	return s
}

func describe(m *ref9p.Msg) string {
	s := fmt.Sprintf("%s tag=%d fid=%d", ref9p.TypeName(m.Type), m.Tag, m.Fid)
	switch m.Type {
	case ref9p.Twalk:
		s += fmt.Sprintf(" newfid=%d names=%q", m.Newfid, trunc(m.Wname))
	case ref9p.Tread:
		s += fmt.Sprintf(" off=%d count=%d", m.Offset, m.Count)
	case ref9p.Twrite:
		s += fmt.Sprintf(" off=%d len=%d", m.Offset, len(m.Data))
	case ref9p.Tversion:
		s += fmt.Sprintf(" msize=%d %q", m.Msize, m.Version)
	case ref9p.Tattach:
		s += fmt.Sprintf(" afid=%d uname=%q aname=%q", m.Afid, m.Uname, clip(m.Aname, 30))
	case ref9p.Topen:
		s += fmt.Sprintf(" mode=%#x", m.Mode)
	case ref9p.Tcreate:
		s += fmt.Sprintf(" name=%q perm=%#x mode=%#x ext=%q", clip(m.Name, 30), m.Perm, m.Mode, m.Ext)
	}
	return s
}

func trunc(ss []string) []string {
	var o []string
	for _, s := range ss {
		o = append(o, clip(s, 20))
	}
	return o
}

// prefix: a mostly valid opening that reaches deep states.
func prefix(t *rapid.T, target string, dotu bool) []*ref9p.Msg {
	var ms []*ref9p.Msg
	ver := "9P2000"
	if dotu {
		ver = "9P2000.u"
	}
	msize := rapid.SampledFrom([]uint32{24, 25, 32, 64, 128, 4096, 8192, 8192, 8192}).Draw(t, "pmsize")
	ms = append(ms, &ref9p.Msg{Type: ref9p.Tversion, Tag: 0xFFFF, Msize: msize, Version: ver})
	uname, uid := "alice", uint32(1001)
	if target == "ufs" {
		uname, uid = "root", 0
	}
	ms = append(ms, &ref9p.Msg{Type: ref9p.Tattach, Tag: 1, Fid: 0, Afid: ref9p.NOFID, Uname: uname, Nuname: uid})
	if rapid.Bool().Draw(t, "opendir") {
		ms = append(ms, &ref9p.Msg{Type: ref9p.Twalk, Tag: 2, Fid: 0, Newfid: 1, Wname: []string{"d1"}}, &ref9p.Msg{Type: ref9p.Topen, Tag: 3, Fid: 1, Mode: 0})
		if rapid.Bool().Draw(t, "firstread") {
			ms = append(ms, &ref9p.Msg{Type: ref9p.Tread, Tag: 4, Fid: 1, Offset: 0, Count: rapid.SampledFrom([]uint32{8168, 200, 4096, 63}).Draw(t, "c0")})
		}
	}
	if rapid.Bool().Draw(t, "openfile") {
		ms = append(ms, &ref9p.Msg{Type: ref9p.Twalk, Tag: 5, Fid: 0, Newfid: 2, Wname: []string{"f1"}}, &ref9p.Msg{Type: ref9p.Topen, Tag: 6, Fid: 2, Mode: rapid.SampledFrom([]uint8{0, 1, 2, 3, 0x12}).Draw(t, "fm")})
	}
	return ms
}

func genStruct(t *rapid.T, target string) *Case {
	c := &Case{Target: target, Gen: "struct"}
	nc := rapid.IntRange(1, 3).Draw(t, "nconn")
	for i := 0; i < nc; i++ {
		dotu := rapid.Bool().Draw(t, "dotu")
		var chunks [][]byte
		if rapid.IntRange(0, 9).Draw(t, "noprefix") > 0 {
			for _, m := range prefix(t, target, dotu) {
				chunks = append(chunks, ref9p.Encode(m, dotu))
				c.Desc = append(c.Desc, fmt.Sprintf("c%d: %s", i, describe(m)))
			}
		}
		n := rapid.IntRange(1, 40).Draw(t, "nsteps")
		for k := 0; k < n; k++ {
			m, _ := genStep(t, dotu)
			hx.Label("step " + ref9p.TypeName(m.Type))
			chunks = append(chunks, ref9p.Encode(m, dotu))
			c.Desc = append(c.Desc, fmt.Sprintf("c%d: %s", i, describe(m)))
		}
		c.Conns = append(c.Conns, chunks)
	}
	return c
}

// validSession is the recorded session that the byte mutators start from.
func validSession(target string, dotu bool) []byte {
	uname, uid := "alice", uint32(1001)
	if target == "ufs" {
		uname, uid = "root", 0
	}
	ver := "9P2000"
	if dotu {
		ver = "9P2000.u"
	}
	st := rawc.NoChangeStat()
	st.Mode = 0o600
	ms := []*ref9p.Msg{
		{Type: ref9p.Tversion, Tag: 0xFFFF, Msize: 8192, Version: ver},
		{Type: ref9p.Tattach, Tag: 1, Fid: 0, Afid: ref9p.NOFID, Uname: uname, Nuname: uid},
		{Type: ref9p.Twalk, Tag: 2, Fid: 0, Newfid: 1, Wname: []string{"d1"}},
		{Type: ref9p.Topen, Tag: 3, Fid: 1, Mode: 0},
		{Type: ref9p.Tread, Tag: 4, Fid: 1, Offset: 0, Count: 300},
		{Type: ref9p.Twalk, Tag: 5, Fid: 0, Newfid: 2, Wname: []string{"d1", "f2"}},
		{Type: ref9p.Topen, Tag: 6, Fid: 2, Mode: 2},
		{Type: ref9p.Tread, Tag: 7, Fid: 2, Offset: 10, Count: 100},
		{Type: ref9p.Twrite, Tag: 8, Fid: 2, Offset: 3, Data: []byte("0123456789")},
		{Type: ref9p.Tstat, Tag: 9, Fid: 2},
		{Type: ref9p.Twstat, Tag: 10, Fid: 2, Stat: st},
		{Type: ref9p.Twalk, Tag: 11, Fid: 0, Newfid: 3},
		{Type: ref9p.Tcreate, Tag: 12, Fid: 3, Name: "fnew", Perm: 0o644, Mode: 1, Ext: ""},
		{Type: ref9p.Tflush, Tag: 13, Oldtag: 12},
		{Type: ref9p.Tclunk, Tag: 14, Fid: 1},
		{Type: ref9p.Tremove, Tag: 15, Fid: 3},
	}
	var b []byte
	for _, m := range ms {
		b = append(b, ref9p.Encode(m, dotu)...)
	}
	return b
}

func genMutate(t *rapid.T, target string) *Case {
	c := &Case{Target: target, Gen: "mutate"}
	nc := rapid.IntRange(1, 2).Draw(t, "nconn")
	for i := 0; i < nc; i++ {
		dotu := rapid.Bool().Draw(t, "dotu")
		b := validSession(target, dotu)
		ne := rapid.IntRange(1, 4).Draw(t, "nedits")
		for k := 0; k < ne; k++ {
			switch rapid.IntRange(0, 4).Draw(t, "edit") {
			case 0:
				p := rapid.IntRange(0, len(b)-1).Draw(t, "pos")
				b[p] = gen9p.U8().Draw(t, "val")
			case 1:
				p := rapid.IntRange(0, len(b)).Draw(t, "pos")
				ins := rapid.SliceOfN(rapid.Byte(), 1, 8).Draw(t, "ins")
				b = append(b[:p:p], append(ins, b[p:]...)...)
			case 2:
				p := rapid.IntRange(0, len(b)-2).Draw(t, "pos")
				k := rapid.IntRange(1, min(8, len(b)-1-p)).Draw(t, "k")
				b = append(b[:p:p], b[p+k:]...)
			case 3:
				// overwrite a frame's size prefix
				if frames, _, _ := ref9p.SplitFrames(b); len(frames) > 0 {
					fi := rapid.IntRange(0, len(frames)-1).Draw(t, "frame")
					off := 0
					for j := 0; j < fi; j++ {
						off += len(frames[j])
					}
					v := rapid.SampledFrom([]uint32{0, 1, 4, 6, 7, 8, uint32(len(frames[fi])) - 1, uint32(len(frames[fi])) + 1, 8192, 8193, 65536, 0x7FFFFFFF, 0xFFFFFFFF}).Draw(t, "size")
					binary.LittleEndian.PutUint32(b[off:], v)
				}
			case 4:
				// overwrite a 16- or 32-bit field somewhere with a boundary value
				p := rapid.IntRange(0, len(b)-4).Draw(t, "pos")
				v := rapid.SampledFrom([]uint32{0, 0xFFFF, 0xFFFFFFFF, 0x7FFFFFFF, 0x10000, 0xFFFFFFE8}).Draw(t, "v")
				binary.LittleEndian.PutUint32(b[p:], v)
			}
		}
		// random chunking
		var chunks [][]byte
		for len(b) > 0 {
			n := rapid.IntRange(1, 200).Draw(t, "chunk")
			if n > len(b) {
				n = len(b)
			}
			chunks = append(chunks, b[:n])
			b = b[n:]
		}
		c.Conns = append(c.Conns, chunks)
	}
	return c
}

func genRaw(t *rapid.T, target string) *Case {
	c := &Case{Target: target, Gen: "raw"}
	nc := rapid.IntRange(1, 2).Draw(t, "nconn")
	for i := 0; i < nc; i++ {
		var chunks [][]byte
		n := rapid.IntRange(1, 6).Draw(t, "nchunks")
		for k := 0; k < n; k++ {
			b := rapid.SliceOfN(rapid.Byte(), 1, 300).Draw(t, "bytes")
			if len(b) >= 7 && rapid.Bool().Draw(t, "shape") {
				binary.LittleEndian.PutUint32(b, uint32(rapid.IntRange(7, len(b)).Draw(t, "size")))
				b[4] = byte(rapid.IntRange(100, 127).Draw(t, "type"))
			}
			chunks = append(chunks, b)
		}
		c.Conns = append(c.Conns, chunks)
	}
	return c
}

func nontrivial(c *Case) bool {
	// at least one frame the reference decoder rejects, or a boundary-class integer / hostile name
	for _, chunks := range c.Conns {
		var all []byte
		for _, ch := range chunks {
			all = append(all, ch...)
		}
		frames, rest, err := ref9p.SplitFrames(all)
		if err != nil || len(rest) > 0 {
			return true
		}
		for _, f := range frames {
			m, _, e1 := ref9p.Decode(f, true)
			if e1 != nil {
				if _, _, e2 := ref9p.Decode(f, false); e2 != nil {
					return true
				}
				continue
			}
			if m.Fid == ref9p.NOFID || m.Fid == 0x7FFFFFFF || m.Count >= 1<<31 || m.Offset >= 1<<31 {
				return true
			}
		}
	}
	return c.Gen == "struct" || c.Gen == "churn" || c.Gen == "flood" || c.Gen == "tight" || c.Gen == "inner"
}

func execute(test string, c *Case) error {
	hx.Journal(test, c)
	hx.Eval()
	hx.Label(fmt.Sprintf("target=%s gen=%s conns=%d", c.Target, c.Gen, len(c.Conns)))
	if nontrivial(c) {
		b, _ := json.Marshal(c.Conns)
		hx.NonTrivial(c.Target, b, c.Loops, c.Hold)
	}
	s := *c
	if len(s.Desc) > 60 {
		s.Desc = s.Desc[:60]
	}
	s.Conns = nil
	hx.Sample(test, s)
	return run(c)
}

func prop(test string, gen func(*rapid.T, string) *Case, quick, thorough int, targets ...string) func(*testing.T) {
	if len(targets) == 0 {
		targets = []string{"script", "ufs", "ufs"}
	}
	return func(t *testing.T) {
		hx.Check(t, test, hx.N(quick, thorough), func(t *rapid.T) {
			target := rapid.SampledFrom(targets).Draw(t, "target")
			c := gen(t, target)
			if err := execute(test, c); err != nil {
				hx.Failf(t, test, c, "%v", err)
			}
		})
	}
}

func TestPropStructured(t *testing.T) { prop("structured", genStruct, 500, 6000)(t) }
func TestPropMutated(t *testing.T)    { prop("mutated", genMutate, 300, 4000)(t) }
func TestPropRaw(t *testing.T)        { prop("raw", genRaw, 200, 3000)(t) }

func TestReplay(t *testing.T) {
	e, err := hx.LoadReplay()
	if e == nil {
		t.Skip("no replay file", err)
	}
	replayEnv(t, e, 3)
}

func replayEnv(t *testing.T, e *hx.Envelope, times int) {
	var c Case
	if err := json.Unmarshal(e.Case, &c); err != nil {
		t.Fatalf("bad case: %v", err)
	}
	if c.Gen == "churn" && times > 1 {
		// what a burst meets inside the server depends on the schedule
		times = 60
	}
	for i := 0; i < times; i++ {
		if err := execute(e.Test, &c); err != nil {
			hx.Violation(e.Test, &c, err.Error())
			t.Fatalf("%v", err)
		}
	}
}

func TestRegress(t *testing.T) {
	for _, e := range hx.Regressions() {
		replayEnv(t, e, 1)
		hx.Label("regress")
	}
}
