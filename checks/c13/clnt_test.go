package c13

import (
	"bytes"
	"fmt"
	"sync"
	"sync/atomic"
	"time"

	"github.com/rminnich/go9p"
	"pgregory.net/rapid"
	"verif/internal/conv"
	"verif/internal/hx"
	"verif/internal/peer"
	"verif/internal/ref9p"
)

// Result is what one client call returned.
type Result struct {
	Returned bool
	IsErr    bool
	ErrText  string
	ErrNum   uint32
	Data     []byte // read
	N        int    // write
	Stat     ref9p.Stat
	Qid      ref9p.Qid // open
	Conn     string    // only in the additional last entry of a run with an oversize reply: what became of the connection
}

func (r Result) String() string {
	if r.Conn != "" {
		return "[not a call: after the round the connection was " + r.Conn + "]"
	}
	if r.IsErr {
		return fmt.Sprintf("error %q (%d)", r.ErrText, r.ErrNum)
	}
	return fmt.Sprintf("ok data=%x n=%d stat.name=%q stat.length=%d qid=%v", clip(r.Data), r.N, r.Stat.Name, r.Stat.Length, r.Qid)
}

func sameResult(a, b Result) bool {
	return a.Returned == b.Returned && a.IsErr == b.IsErr && a.ErrText == b.ErrText && a.ErrNum == b.ErrNum &&
		bytes.Equal(a.Data, b.Data) && a.N == b.N && a.Stat == b.Stat && a.Qid == b.Qid && a.Conn == b.Conn
}

func diffResults(ref, got []Result) string {
	if len(ref) != len(got) {
		return fmt.Sprintf("%d results, reference %d", len(got), len(ref))
	}
	for i := range ref {
		if !sameResult(ref[i], got[i]) {
			return fmt.Sprintf("call %d returned %v, reference %v", i, got[i], ref[i])
		}
	}
	return ""
}

// ccall is one call with everything derived from the case.
type ccall struct {
	id    int // index over all rounds
	spec  Call
	fid   uint32
	off   uint64
	reply *ref9p.Msg // without tag
	want  Result
	rlen  int
	dead  bool // class cmalf: its reply is the malformed one or lies behind it
}

type clayout struct {
	rounds [][]*ccall
	all    []*ccall
	order  [][]int // reply order per round (indices into the round)
	total  int
	bounds []int
	starts []int // offset of each round's replies in the total reply stream
	// class cmalf: round and position (in the round's reply order) of the malformed reply, else -1
	malfRound, malfPos int
	malfWhy            string
}

func callFid(id int) uint32 { return uint32(1000 + id) }

// fillLen is the text length that makes the frame exactly msize long.
func fillLen(msize uint32, m *ref9p.Msg, dotu bool) int {
	return int(msize) - len(ref9p.Encode(m, dotu))
}

func statBase(dotu bool) int {
	return len(ref9p.Encode(&ref9p.Msg{Type: ref9p.Rstat, Stat: ref9p.Stat{Uid: "u", Gid: "g", Muid: "m"}}, dotu))
}

func clientLayout(c *Case) (*clayout, error) {
	if c.Msize < 64 || len(c.Rounds) == 0 || (c.CMalf != nil) != (c.Side == "cmalf") {
		return nil, fmt.Errorf("harness: bad client case")
	}
	l := &clayout{malfRound: -1, malfPos: -1}
	id := 0
	for ri, round := range c.Rounds {
		if len(round) == 0 || len(round) > 256 {
			return nil, fmt.Errorf("harness: round of %d calls", len(round))
		}
		var cs []*ccall
		for _, sp := range round {
			cc := &ccall{id: id, spec: sp, fid: callFid(id), off: uint64(id)<<16 | 3}
			h := hx.Mix(c.Seed, uint64(id))
			switch {
			case sp.Err:
				m := &ref9p.Msg{Type: ref9p.Rerror, Ecode: uint32(1 + id%120)}
				n := sp.N
				if sp.Fill {
					n = fillLen(c.Msize, m, c.Dotu)
				}
				if n < 0 {
					return nil, fmt.Errorf("harness: error text length %d", n)
				}
				m.Ename = letters(h, n)
				cc.reply = m
				cc.want = Result{Returned: true, IsErr: true, ErrText: m.Ename}
				if c.Dotu {
					cc.want.ErrNum = m.Ecode
				}
			case sp.Kind == "read":
				if sp.N < 0 || sp.N > int(c.Msize)-24 {
					return nil, fmt.Errorf("harness: read count %d", sp.N)
				}
				d := prf(c.Seed, "r", id, sp.N)
				cc.reply = &ref9p.Msg{Type: ref9p.Rread, Data: d}
				cc.want = Result{Returned: true, Data: d}
			case sp.Kind == "write":
				if sp.N < 0 || sp.N > int(c.Msize)-24 {
					return nil, fmt.Errorf("harness: write count %d", sp.N)
				}
				cc.reply = &ref9p.Msg{Type: ref9p.Rwrite, Count: uint32(sp.N)}
				cc.want = Result{Returned: true, N: sp.N}
			case sp.Kind == "stat":
				st := ref9p.Stat{Type: uint16(id), Dev: uint32(h), Qid: ref9p.Qid{Type: 0, Vers: uint32(id), Path: h},
					Mode: 0o644, Atime: uint32(h >> 8), Mtime: uint32(h >> 16), Length: h >> 3, Uid: "u", Gid: "g", Muid: "m",
					Nuid: uint32(id), Ngid: uint32(id + 1), Nmuid: uint32(id + 2)}
				n := sp.N
				if sp.Fill {
					n = int(c.Msize) - statBase(c.Dotu)
				}
				if n < 0 || statBase(c.Dotu)+n > int(c.Msize) {
					return nil, fmt.Errorf("harness: Rstat with a %d-byte name does not fit msize %d", n, c.Msize)
				}
				st.Name = letters(h, n)
				st = ref9p.CanonStat(&st, c.Dotu)
				cc.reply = &ref9p.Msg{Type: ref9p.Rstat, Stat: st}
				cc.want = Result{Returned: true, Stat: st}
			case sp.Kind == "remove":
				cc.reply = &ref9p.Msg{Type: ref9p.Rremove}
				cc.want = Result{Returned: true}
			case sp.Kind == "open":
				q := ref9p.Qid{Type: 0, Vers: uint32(id), Path: h}
				cc.reply = &ref9p.Msg{Type: ref9p.Ropen, Qid: q, Iounit: 0}
				cc.want = Result{Returned: true, Qid: q}
			default:
				return nil, fmt.Errorf("harness: unknown call kind %q", sp.Kind)
			}
			cc.rlen = len(ref9p.Encode(cc.reply, c.Dotu))
			if cc.rlen > int(c.Msize) {
				return nil, fmt.Errorf("harness: reply of %d bytes, msize %d", cc.rlen, c.Msize)
			}
			cs = append(cs, cc)
			l.all = append(l.all, cc)
			id++
		}
		// reply order: a permutation derived from the seed
		order := make([]int, len(cs))
		for i := range order {
			order[i] = i
		}
		x := hx.Mix(c.Seed, uint64(ri), 77)
		for i := len(order) - 1; i > 0; i-- {
			x = hx.Mix(x, uint64(i))
			j := int(x % uint64(i+1))
			order[i], order[j] = order[j], order[i]
		}
		l.rounds = append(l.rounds, cs)
		l.order = append(l.order, order)
		l.starts = append(l.starts, l.total)
		if c.CMalf != nil && ri == len(c.Rounds)-1 && (c.CMalf.Pos < 0 || c.CMalf.Pos >= len(order)) {
			return nil, fmt.Errorf("harness: malformed reply at position %d of a round of %d", c.CMalf.Pos, len(order))
		}
		for pos, o := range order {
			n := cs[o].rlen
			if c.CMalf != nil && ri == len(c.Rounds)-1 && pos >= c.CMalf.Pos {
				cs[o].dead = true
				if pos == c.CMalf.Pos {
					bad, what, err := malformedReply(c, cs[o], 0)
					if err != nil {
						return nil, err
					}
					_, _, derr := ref9p.Decode(bad, c.Dotu)
					n = len(bad)
					l.malfRound, l.malfPos = ri, pos
					l.malfWhy = fmt.Sprintf("reply %d of the stream (%s to call %d, %d bytes) is malformed: %s (strict decoding: %v)", len(l.bounds), ref9p.TypeName(bad[4]), cs[o].id, n, what, derr)
					if c.CMalf.Mut == "oversize" {
						l.malfWhy = fmt.Sprintf("reply %d of the stream (%s to call %d, %d bytes) is illegal by its size: %s", len(l.bounds), ref9p.TypeName(bad[4]), cs[o].id, n, what)
					}
				}
			}
			l.total += n
			l.bounds = append(l.bounds, l.total)
		}
	}
	return l, nil
}

// overMax is the largest announced size of an oversize reply: a little more
// than the client's receive buffer (8 x msize) can hold.
func overMax(msize uint32) int { return int(8*msize) + 64 }

// malformedReply is the malformed frame made from the call's well-formed reply
// (mutation oversize: the illegal frame, a well-formed Rread of CMalf.At bytes).
func malformedReply(c *Case, cc *ccall, tag uint16) ([]byte, string, error) {
	if c.CMalf.Mut == "oversize" {
		sz := c.CMalf.At
		if cc.spec.Kind != "read" || cc.spec.Err || sz <= int(c.Msize) || sz > overMax(c.Msize) {
			return nil, "", fmt.Errorf("harness: oversize reply of %d bytes to a %s call, msize %d", sz, cc.spec.Kind, c.Msize)
		}
		m := ref9p.Msg{Type: ref9p.Rread, Tag: tag, Data: prf(c.Seed, "ov", cc.id, sz-11)}
		big := ref9p.Encode(&m, c.Dotu)
		if _, _, derr := ref9p.Decode(big, c.Dotu); derr != nil || len(big) != sz {
			return nil, "", fmt.Errorf("harness: the oversize Rread has %d bytes instead of %d, or does not decode (%v)", len(big), sz, derr)
		}
		return big, fmt.Sprintf("it is an Rread with %d data bytes, well-formed in itself, whose size %d exceeds the connection's msize %d (%s the 8 x msize = %d bytes of the client's receive buffer)",
			sz-11, sz, c.Msize, map[bool]string{true: "within", false: "beyond"}[sz <= int(8*c.Msize)], 8*c.Msize), nil
	}
	m := *cc.reply
	m.Tag = tag
	bad, what, err := mutate(c.CMalf.Mut, c.CMalf.At, c.CMalf.By, ref9p.Encode(&m, c.Dotu), c.Dotu)
	if err != nil {
		return nil, "", err
	}
	if _, _, derr := ref9p.Decode(bad, c.Dotu); derr == nil || len(bad) > int(c.Msize) {
		return nil, "", fmt.Errorf("harness: the mutated reply of %d bytes decodes strictly or exceeds msize %d", len(bad), c.Msize)
	}
	return bad, what, nil
}

// checkRequest verifies that the request the client sent is the call's own.
func checkRequest(c *Case, cc *ccall, m *ref9p.Msg) error {
	bad := func(s string) error {
		return fmt.Errorf("call %d (%s, fid %d): the client sent %s %s", cc.id, cc.spec.Kind, cc.fid, ref9p.TypeName(m.Type), s)
	}
	switch cc.spec.Kind {
	case "read":
		if m.Type != ref9p.Tread || m.Offset != cc.off || m.Count != uint32(cc.spec.N) {
			return bad(fmt.Sprintf("offset %d count %d", m.Offset, m.Count))
		}
	case "write":
		if m.Type != ref9p.Twrite || m.Offset != cc.off || !bytes.Equal(m.Data, prf(c.Seed, "cw", cc.id, cc.spec.N)) {
			return bad("with another offset or payload")
		}
	case "stat":
		if m.Type != ref9p.Tstat {
			return bad("")
		}
	case "remove":
		if m.Type != ref9p.Tremove {
			return bad("")
		}
	case "open":
		if m.Type != ref9p.Topen {
			return bad("")
		}
	}
	return nil
}

func toResult(c *Case, err error) Result {
	r := Result{Returned: true}
	if err != nil {
		r.IsErr = true
		if e, ok := err.(*go9p.Error); ok && e != nil {
			r.ErrText = e.Err
			if c.Dotu {
				r.ErrNum = e.Errornum
			}
		} else {
			r.ErrText = fmt.Sprintf("%T: %v", err, err)
		}
	}
	return r
}

func runClient(c *Case, l *clayout, cuts []int) ([]Result, error) {
	p := peer.New("c13", c.Msize, true)
	p.Start(false)
	clnt, err := go9p.Connect(p.Lib, c.Msize, c.Dotu)
	if err != nil {
		return nil, fmt.Errorf("Connect: %v", err)
	}
	defer clnt.Unmount()
	if clnt.Dotu != c.Dotu || atomic.LoadUint32(&clnt.Msize) != c.Msize {
		return nil, fmt.Errorf("Connect: dialect %v msize %d, want %v %d", clnt.Dotu, clnt.Msize, c.Dotu, c.Msize)
	}
	results := make([]Result, len(l.all))
	oversize, connState := c.CMalf != nil && c.CMalf.Mut == "oversize", ""
	kept := make([][]byte, len(l.all)) // the slices Read returned, not copies
	var mu sync.Mutex
	var returned int64

	for ri, round := range l.rounds {
		var wg sync.WaitGroup
		for _, cc := range round {
			wg.Add(1)
			go func(cc *ccall) {
				defer wg.Done()
				fid := &go9p.Fid{Clnt: clnt, Fid: cc.fid, Iounit: c.Msize - 24}
				var res Result
				switch cc.spec.Kind {
				case "read":
					b, err := clnt.Read(fid, cc.off, uint32(cc.spec.N))
					res = toResult(c, err)
					if err == nil {
						res.Data = append([]byte{}, b...)
						mu.Lock()
						kept[cc.id] = b
						mu.Unlock()
					}
				case "write":
					n, err := clnt.Write(fid, prf(c.Seed, "cw", cc.id, cc.spec.N), cc.off)
					res = toResult(c, err)
					if err == nil {
						res.N = n
					}
				case "stat":
					d, err := clnt.Stat(fid)
					res = toResult(c, err)
					if err == nil {
						st := conv.Stat(d)
						res.Stat = ref9p.CanonStat(&st, c.Dotu)
					}
				case "remove":
					res = toResult(c, clnt.Remove(fid))
				case "open":
					err := clnt.Open(fid, 0)
					res = toResult(c, err)
					if err == nil {
						res.Qid = conv.Qid(fid.Qid)
					}
				}
				mu.Lock()
				results[cc.id] = res
				mu.Unlock()
				atomic.AddInt64(&returned, 1)
			}(cc)
		}
		done := make(chan struct{})
		go func() { wg.Wait(); close(done) }()

		// ---- the peer gathers the round's requests
		byFid := map[uint32]*ccall{}
		for _, cc := range round {
			byFid[cc.fid] = cc
		}
		tags := map[*ccall]uint16{}
		used := map[uint16]bool{}
		start := time.Now()
		for len(tags) < len(round) {
			rq, ok := p.Next(pollEvery)
			if !ok {
				return nil, fmt.Errorf("round %d: the client closed the connection after %d of %d requests", ri, len(tags), len(round))
			}
			if rq == nil {
				select {
				case <-done:
					return nil, fmt.Errorf("round %d: every call returned although only %d of %d requests were sent and none was answered: %s", ri, len(tags), len(round), firstReturned(results, round))
				default:
				}
				if time.Since(start) > hangAfter {
					return nil, hangErr(fmt.Sprintf("round %d: %d of %d requests arrived at the peer", ri, len(tags), len(round)))
				}
				continue
			}
			if rq.Err != nil {
				return nil, fmt.Errorf("round %d: the client sent a frame that does not decode strictly: %v: %x", ri, rq.Err, clip(rq.Raw))
			}
			cc := byFid[rq.Msg.Fid]
			if cc == nil {
				return nil, fmt.Errorf("round %d: request %s for fid %d, which no call of the round uses", ri, ref9p.TypeName(rq.Msg.Type), rq.Msg.Fid)
			}
			if _, dup := tags[cc]; dup {
				return nil, fmt.Errorf("round %d: two requests for call %d", ri, cc.id)
			}
			if used[rq.Msg.Tag] || rq.Msg.Tag == ref9p.NOTAG {
				return nil, fmt.Errorf("round %d: tag %d used for two outstanding requests", ri, rq.Msg.Tag)
			}
			if err := checkRequest(c, cc, rq.Msg); err != nil {
				return nil, err
			}
			used[rq.Msg.Tag] = true
			tags[cc] = rq.Msg.Tag
		}
		// ---- the round's part of the reply stream, cut by the plan
		var stream []byte
		for pos, o := range l.order[ri] {
			m := *round[o].reply
			m.Tag = tags[round[o]]
			enc := ref9p.Encode(&m, c.Dotu)
			if ri == l.malfRound && pos == l.malfPos {
				var err error
				if enc, _, err = malformedReply(c, round[o], m.Tag); err != nil {
					return nil, err
				}
			}
			stream = append(stream, enc...)
		}
		var rc []int
		for _, x := range cuts {
			if x > l.starts[ri] && x < l.starts[ri]+len(stream) {
				rc = append(rc, x-l.starts[ri])
			}
		}
		if err := p.Write(stream, rc); err != nil && ri != l.malfRound {
			// (in the round with the malformed reply the client is expected to hang up at it)
			return nil, fmt.Errorf("round %d: the client closed the connection before the replies were written: %v", ri, err)
		}
		// ---- wait for the callers
		start = time.Now()
		idle, last := 0, int64(-1)
	wait:
		for {
			select {
			case <-done:
				break wait
			case <-time.After(pollEvery):
			}
			out, _ := clnt.VerifCounts()
			state := atomic.LoadInt64(&returned)<<20 | int64(out)
			unread := p.End.Unread()
			if state == last && (unread == 0 || ri == l.malfRound) {
				idle++
			} else {
				idle = 0
			}
			last = state
			if idle >= idlePolls {
				// parked: nothing runnable inside the library, its receive loop waits for bytes and none are under way;
				// gone (round with the malformed reply only): the receive loop has ended, what is unread stays unread
				st := go9pState("go9p.(*Clnt).recv")
				if !(st == "parked" && unread == 0) && !(st == "gone" && ri == l.malfRound) {
					idle = 0 // something is still runnable inside the library: keep waiting
				}
			}
			if idle >= idlePolls && int(atomic.LoadInt64(&returned)) >= round[len(round)-1].id+1 {
				idle = 0 // every call has returned: the goroutine that says so is on its way
			}
			if idle >= idlePolls {
				return nil, fmt.Errorf("round %d: the client has read the whole reply stream (or has stopped reading) and is idle, but %d calls never returned (%d requests still outstanding)", ri, round[len(round)-1].id+1-int(atomic.LoadInt64(&returned)), out)
			}
			if time.Since(start) > hangAfter {
				return nil, hangErr(fmt.Sprintf("round %d: calls did not return", ri))
			}
		}
		// every result is the function of its own request
		for _, cc := range round {
			mu.Lock()
			got := results[cc.id]
			mu.Unlock()
			if cc.dead && oversize {
				// illegal by size only: what the statement demands is that the
				// outcome does not depend on the segmentation (compared with the
				// reference delivery by the caller). Here: a call that did not fail
				// got the reply to its own request.
				if !got.Returned {
					return nil, fmt.Errorf("call %d (round %d, %s fid %d) never returned", cc.id, ri, cc.spec.Kind, cc.fid)
				}
				if !got.IsErr && cc != round[l.order[ri][l.malfPos]] && !sameResult(got, cc.want) {
					return nil, fmt.Errorf("call %d (round %d, %s fid %d) returned %v, the reply to its own request says %v", cc.id, ri, cc.spec.Kind, cc.fid, got, cc.want)
				}
				continue
			}
			if cc.dead {
				if !got.Returned || !got.IsErr {
					return nil, fmt.Errorf("call %d (round %d, %s fid %d) returned %v although its reply is, or lies behind, the malformed reply: %s", cc.id, ri, cc.spec.Kind, cc.fid, got, l.malfWhy)
				}
				continue
			}
			if !sameResult(got, cc.want) {
				return nil, fmt.Errorf("call %d (round %d, %s fid %d) returned %v, the reply to its own request says %v", cc.id, ri, cc.spec.Kind, cc.fid, got, cc.want)
			}
		}
		if ri == l.malfRound && oversize {
			connState = "still open"
			if p.End.PeerClosed() {
				connState = "dropped by the client"
			}
		} else if ri == l.malfRound && !p.End.PeerClosed() {
			return nil, fmt.Errorf("the client did not drop the connection although %s", l.malfWhy)
		}
	}
	// data returned by earlier reads must not have been disturbed by later replies
	for _, cc := range l.all {
		if oversize && cc == l.rounds[l.malfRound][l.order[l.malfRound][l.malfPos]] {
			continue // (no later reply can have disturbed it, and what it should hold is not predicted)
		}
		if kept[cc.id] != nil && !bytes.Equal(kept[cc.id], cc.want.Data) {
			return nil, fmt.Errorf("call %d (read fid %d): the slice Read returned was overwritten by replies that arrived later: now %x, was %x", cc.id, cc.fid, clip(kept[cc.id]), clip(cc.want.Data))
		}
	}
	if out, _ := clnt.VerifCounts(); out != 0 {
		return nil, fmt.Errorf("%d requests still outstanding after every call returned", out)
	}
	if oversize {
		results = append(results, Result{Returned: true, Conn: connState})
	}
	return results, nil
}

func firstReturned(results []Result, round []*ccall) string {
	for _, cc := range round {
		if results[cc.id].Returned {
			return fmt.Sprintf("call %d: %v", cc.id, results[cc.id])
		}
	}
	return ""
}

// ---------------------------------------------------------------------------
// generation

func genCall(t *rapid.T, msize uint32, dotu bool) Call {
	switch rapid.IntRange(0, 11).Draw(t, "class") {
	case 0, 1, 2:
		return Call{Kind: "read", N: int(msize) - 24 - rapid.IntRange(0, 1).Draw(t, "short")}
	case 3:
		if statBase(dotu) <= int(msize) {
			return Call{Kind: "stat", Fill: true}
		}
		return Call{Kind: "remove", Err: true, Fill: true}
	case 4:
		return Call{Kind: rapid.SampledFrom([]string{"read", "write", "remove", "open"}).Draw(t, "kind"), Err: true, Fill: true}
	case 5:
		return Call{Kind: "read", N: rapid.IntRange(0, int(msize)-24).Draw(t, "n")}
	case 6:
		return Call{Kind: rapid.SampledFrom([]string{"read", "write", "remove", "open"}).Draw(t, "kind"), Err: true, N: rapid.IntRange(0, 20).Draw(t, "n")}
	case 7:
		if statBase(dotu)+8 <= int(msize) {
			return Call{Kind: "stat", N: rapid.IntRange(0, 8).Draw(t, "n")}
		}
		return Call{Kind: "open"}
	case 8:
		return Call{Kind: "write", N: rapid.IntRange(0, int(msize)-24).Draw(t, "n")}
	case 9:
		return Call{Kind: "open"}
	}
	return Call{Kind: "remove"} // 7-byte reply
}

func genClient(t *rapid.T) *Case {
	c := &Case{Side: "client"}
	c.Msize = rapid.SampledFrom(msizes).Draw(t, "msize")
	c.Dotu = rapid.Bool().Draw(t, "dotu")
	c.Seed = rapid.Uint64().Draw(t, "seed")
	pk := rapid.SampledFrom(planKinds).Draw(t, "plan")
	maxC := 200
	if pk == "bytes" || pk == "every" {
		if m := (128 << 10) / int(c.Msize); m < maxC {
			maxC = m
		}
	}
	n := rapid.IntRange(20, maxC).Draw(t, "calls")
	nr := rapid.IntRange(1, 4).Draw(t, "rounds")
	per := (n + nr - 1) / nr
	for left := n; left > 0; left -= per {
		k := per
		if left < k {
			k = left
		}
		var round []Call
		for i := 0; i < k; i++ {
			round = append(round, genCall(t, c.Msize, c.Dotu))
		}
		c.Rounds = append(c.Rounds, round)
	}
	c.Plan = drawPlan(t, pk, c)
	return c
}

// enumClientCase is the k-th reply stream of the single-split enumeration.
func enumClientCase(k int) *Case {
	c := &Case{Side: "client", Msize: []uint32{64, 100}[k%2], Dotu: ((k+1)/2)%2 == 1, Seed: hx.Mix(hx.Seed, 0xC13C, uint64(k))}
	x := c.Seed
	size := 0
	var calls []Call
	for i := 0; ; i++ {
		x = hx.Mix(x, uint64(i))
		var cl Call
		switch x % 10 {
		case 0, 1, 2:
			cl = Call{Kind: "read", N: int(c.Msize) - 24 - int((x>>8)%2)}
		case 3:
			if statBase(c.Dotu) <= int(c.Msize) {
				cl = Call{Kind: "stat", Fill: true}
			} else {
				cl = Call{Kind: "open", Err: true, Fill: true}
			}
		case 4:
			cl = Call{Kind: "write", Err: true, Fill: true}
		case 5:
			cl = Call{Kind: "write", N: int((x >> 8) % 30)}
		case 6:
			cl = Call{Kind: "open"}
		case 7:
			cl = Call{Kind: "read", N: int((x >> 8) % 12)}
		default:
			cl = Call{Kind: "remove"}
		}
		tmp := &Case{Side: "client", Msize: c.Msize, Dotu: c.Dotu, Seed: c.Seed, Rounds: [][]Call{{cl}}}
		l, err := clientLayout(tmp)
		if err != nil {
			continue
		}
		if size+l.total > 1990 {
			break
		}
		size += l.total
		calls = append(calls, cl)
	}
	// two rounds, so that slices returned in the first are exposed to the second
	h := len(calls) / 2
	c.Rounds = [][]Call{calls[:h], calls[h:]}
	// the reply written last in each round is the smallest valid reply (7 bytes)
	if l, err := clientLayout(c); err == nil {
		for ri, order := range l.order {
			c.Rounds[ri][order[len(order)-1]] = Call{Kind: "remove"}
		}
	}
	return c
}
