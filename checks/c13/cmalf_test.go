package c13

// Class cmalf (client side, Side "cmalf"): the client-side counterpart of the
// class malf. The reply stream of the LAST round contains one malformed reply
// (made from the well-formed reply of one call by the mutations of malf_test.go:
// only the first t bytes sent as a frame of size t, or one length field -- a
// string length, the stat's size, the count of an Rread -- raised beyond the
// frame's end) followed by the well-formed replies of the remaining calls.
// Under every segmentation the calls answered in front of the malformed reply
// return the function of their own request, every other call of the round
// (the one the malformed reply belongs to and all whose replies lie behind it)
// returns an error, the client drops the connection, slices returned by earlier
// Reads stay intact, and every call result (error text included) equals the
// reference delivery's.

import (
	"encoding/json"
	"fmt"
	"sort"
	"testing"

	"pgregory.net/rapid"
	"verif/internal/hx"
	"verif/internal/ref9p"
)

type CMalf struct {
	Pos int    `json:"pos"` // position, in the last round's reply order, of the reply that is made malformed
	Mut string `json:"mut"` // trunc | inflate
	At  int    `json:"at"`
	By  int    `json:"by,omitempty"`
}

// malfReplyIndex is the index (over the whole reply stream) of the malformed reply.
func malfReplyIndex(c *Case) int {
	n := 0
	for _, r := range c.Rounds[:len(c.Rounds)-1] {
		n += len(r)
	}
	return n + c.CMalf.Pos
}

func recordCMalf(test string, c *Case, cuts []int, n int, bounds []int, split bool) {
	mi := malfReplyIndex(c)
	end, next := bounds[mi], n
	for _, x := range cuts {
		if x >= end && x < next {
			next = x
		}
	}
	behind := next - end
	kind := "?"
	last := c.Rounds[len(c.Rounds)-1]
	if l, err := clientLayout(c); err == nil {
		sp := last[l.order[len(c.Rounds)-1][c.CMalf.Pos]]
		kind = sp.Kind
		if sp.Err {
			kind = "error"
		}
	}
	hx.Label(fmt.Sprintf("cmalf reply=%s mut=%s", kind, c.CMalf.Mut))
	switch {
	case end == n:
		hx.Label("cmalf: the malformed reply is the last of the stream")
	case behind == 0:
		hx.Label("cmalf: nothing behind the malformed reply in its chunk")
	case behind < 16:
		hx.Label("cmalf: 1-15 bytes behind the malformed reply in its chunk")
	default:
		hx.Label("cmalf: >=16 bytes behind the malformed reply in its chunk")
	}
	start := 0
	if mi > 0 {
		start = bounds[mi-1]
	}
	hx.Label("cmalf: bytes in front of the malformed reply / (8 x msize) = " + ratioBucket(start, int(8*c.Msize)))
	if behind > 0 || split {
		cb, _ := json.Marshal(cuts)
		if len(cb) > 1<<16 {
			cb = []byte(fmt.Sprintf("%s/%d/%d", c.Plan.Kind, c.Plan.Step, len(cuts)))
		}
		sb, _ := json.Marshal(c)
		hx.NonTrivial("cmalf", sb, cb)
	}
	hx.Sample(test, sampleOf(c))
}

// cmalfTarget returns the call (index into the last round) whose reply stands
// at position pos of the last round's reply order, and its well-formed reply
// (tag 0) as encoded.
func cmalfTarget(c *Case, pos int) (int, []byte, error) {
	probe := *c
	probe.Side, probe.CMalf = "client", nil
	l, err := clientLayout(&probe)
	if err != nil {
		return 0, nil, err
	}
	ri := len(c.Rounds) - 1
	idx := l.order[ri][pos]
	m := *l.rounds[ri][idx].reply
	return idx, ref9p.Encode(&m, c.Dotu), nil
}

func genCMalf(t *rapid.T) *Case {
	c := &Case{Side: "cmalf", CMalf: &CMalf{}}
	c.Msize = rapid.SampledFrom(msizes).Draw(t, "msize")
	c.Dotu = rapid.Bool().Draw(t, "dotu")
	c.Seed = rapid.Uint64().Draw(t, "seed")
	pk := rapid.SampledFrom(malfPlans).Draw(t, "plan")
	maxC := 80
	if pk == "bytes" || pk == "every" {
		maxC = max(6, min(maxC, (32<<10)/int(c.Msize)))
	}
	n := rapid.IntRange(2, maxC).Draw(t, "calls")
	nr := rapid.IntRange(1, 3).Draw(t, "rounds")
	per := (n + nr - 1) / nr
	for left := n; left > 0; left -= per {
		var round []Call
		for i := 0; i < min(per, left); i++ {
			round = append(round, genCall(t, c.Msize, c.Dotu))
		}
		c.Rounds = append(c.Rounds, round)
	}
	last := c.Rounds[len(c.Rounds)-1]
	c.CMalf.Pos = rapid.IntRange(0, len(last)-1).Draw(t, "pos")
	idx, enc, err := cmalfTarget(c, c.CMalf.Pos)
	if err != nil {
		t.Fatalf("harness: %v", err)
	}
	// an Rremove (7 bytes) cannot be cut; and the Rstat, with its nested
	// lengths, is made the target half of the time
	if room := int(c.Msize) - statBase(c.Dotu); room >= 0 && (len(enc) < 8 || rapid.Bool().Draw(t, "stat")) {
		last[idx] = Call{Kind: "stat", N: rapid.IntRange(0, min(room, 24)).Draw(t, "n")}
	} else if len(enc) < 8 {
		last[idx] = Call{Kind: "read", N: rapid.IntRange(0, int(c.Msize)-24).Draw(t, "n")}
	}
	if _, enc, err = cmalfTarget(c, c.CMalf.Pos); err != nil {
		t.Fatalf("harness: %v", err)
	}
	c.CMalf.Mut, c.CMalf.At, c.CMalf.By = drawMutation(t, c, enc)
	c.Plan = drawCMalfPlan(t, pk, c)
	return c
}

func drawCMalfPlan(t *rapid.T, kind string, c *Case) Plan {
	n, bounds, err := layout(c)
	if err != nil || n < 2 {
		return Plan{Kind: "one"}
	}
	if kind == "near" {
		end := bounds[malfReplyIndex(c)]
		seen := map[int]bool{}
		var cuts []int
		for i, k := 0, rapid.IntRange(1, 3).Draw(t, "ncuts"); i < k; i++ {
			x := end + rapid.IntRange(-40, 40).Draw(t, "d")
			if x >= 1 && x <= n-1 && !seen[x] {
				seen[x] = true
				cuts = append(cuts, x)
			}
		}
		if len(cuts) == 0 {
			return Plan{Kind: "one"}
		}
		sort.Ints(cuts)
		return Plan{Kind: "near", Cuts: cuts}
	}
	return drawPlan(t, kind, c)
}

func TestPropCMalf(t *testing.T) {
	hx.Check(t, "cmalf", hx.N(50, 800), func(t *rapid.T) {
		c := genCMalf(t)
		if err := execute("cmalf", c); err != nil {
			hx.Failf(t, "cmalf", c, "%v", err)
		}
	})
}

// enumCMalfCase is the k-th reply stream of the single-split enumeration of the
// class cmalf: msize 100 / 64 / 256, two rounds of a few calls, the malformed
// reply in the second one (every second stream: a cut Rstat).
func enumCMalfCase(k int) *Case {
	c := &Case{Side: "cmalf", CMalf: &CMalf{}, Msize: []uint32{100, 64, 256}[k%3], Dotu: (k/2)%2 == 1, Seed: hx.Mix(hx.Seed, 0xC142, uint64(k))}
	x := c.Seed
	call := func(i int) Call {
		x = hx.Mix(x, uint64(i))
		switch x % 8 {
		case 0:
			return Call{Kind: "read", N: int(c.Msize) - 24 - int((x>>8)%2)}
		case 1:
			return Call{Kind: "write", Err: true, N: int((x >> 8) % 20)}
		case 2:
			return Call{Kind: "write", N: int((x >> 8) % 30)}
		case 3:
			return Call{Kind: "open"}
		case 4, 5:
			return Call{Kind: "read", N: int((x >> 8) % 12)}
		case 6:
			if statBase(c.Dotu)+4 <= int(c.Msize) {
				return Call{Kind: "stat", N: int((x >> 8) % 5)}
			}
			return Call{Kind: "open"}
		}
		return Call{Kind: "remove"}
	}
	var r0, r1 []Call
	n0 := 1 + int(hx.Mix(x, 1)%6)
	if k%5 == 4 {
		n0 += 14
	}
	for i := 0; i < n0; i++ {
		r0 = append(r0, call(i))
	}
	for i, n := 0, 2+int(hx.Mix(x, 2)%4); i < n; i++ {
		r1 = append(r1, call(100+i))
	}
	c.Rounds = [][]Call{r0, r1}
	c.CMalf.Pos = int(hx.Mix(x, 3) % uint64(len(r1)-1)) // never the last: something follows
	idx, enc, err := cmalfTarget(c, c.CMalf.Pos)
	if err != nil {
		return c
	}
	if room := int(c.Msize) - statBase(c.Dotu); room >= 0 && (k%2 == 0 || len(enc) < 8) {
		r1[idx] = Call{Kind: "stat", N: min(room, int(hx.Mix(x, 4)%12))}
	} else if len(enc) < 8 {
		r1[idx] = Call{Kind: "read", N: 5}
	}
	if _, enc, err = cmalfTarget(c, c.CMalf.Pos); err != nil {
		return c
	}
	fs := raisable(enc, c.Dotu)
	if k%4 == 3 && len(fs) > 0 {
		c.CMalf.Mut, c.CMalf.At, c.CMalf.By = "inflate", int(hx.Mix(x, 6)%uint64(len(fs))), 1+int(hx.Mix(x, 7)%40)
		return c
	}
	c.CMalf.Mut, c.CMalf.At = "trunc", 7+int(hx.Mix(x, 8)%uint64(len(enc)-7))
	return c
}

func TestEnumCMalfSplits(t *testing.T) {
	ns := 4
	if hx.Thorough() {
		ns = 4 * hx.NShards
	}
	enumerate(t, "cmalf-single-split", ns, enumCMalfCase)
	hx.Exhaustive(fmt.Sprintf("client: every single split point of %d reply streams that contain one reply with a field reaching beyond the frame's end, followed by 1..4 well-formed replies", ns))
}
