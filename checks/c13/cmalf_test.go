package c13

// Class cmalf (client side, Side "cmalf"): the client-side counterpart of the
// class malf. The reply stream of the LAST round contains one malformed reply
// (made from the well-formed reply of one call by the mutations of malf_test.go:
// only the first t bytes sent as a frame of size t, or one length field -- a
// string length, the stat's size, the count of an Rread -- raised beyond the
// frame's end) followed by the well-formed replies of the remaining calls.
// Third mutation, oversize: the reply is ILLEGAL BY ITS SIZE and nothing else --
// an Rread, well-formed in itself, whose frame is larger than the connection's
// msize (msize+1 .. 8 x msize, which the client's receive buffer can hold
// whole, and up to 64 bytes more, which it cannot). go9p's own rule for such a
// frame is the one it has for any frame it does not accept: the connection is
// dropped at it; the class demands that this happens at that frame whatever the
// segmentation -- whether the frame arrives whole in one read, or is cut 1..7
// bytes behind its start (inside the size prefix, inside the header) or later.
// Under every segmentation the calls answered in front of the malformed reply
// return the function of their own request, every other call of the round
// (the one the malformed reply belongs to and all whose replies lie behind it)
// returns an error, the client drops the connection, slices returned by earlier
// Reads stay intact, and every call result (error text included) equals the
// reference delivery's.

import (
	"encoding/json"
	"fmt"
	"sort"
	"testing"

	"pgregory.net/rapid"
	"verif/internal/hx"
	"verif/internal/ref9p"
)

type CMalf struct {
	Pos int    `json:"pos"` // position, in the last round's reply order, of the reply that is made malformed
	Mut string `json:"mut"` // trunc | inflate | oversize
	At  int    `json:"at"`  // (oversize: the size of the Rread frame, msize+1 .. 8*msize+64)
	By  int    `json:"by,omitempty"`
}

// malfReplyIndex is the index (over the whole reply stream) of the malformed reply.
func malfReplyIndex(c *Case) int {
	n := 0
	for _, r := range c.Rounds[:len(c.Rounds)-1] {
		n += len(r)
	}
	return n + c.CMalf.Pos
}

func recordCMalf(test string, c *Case, cuts []int, n int, bounds []int, split bool) {
	mi := malfReplyIndex(c)
	end, next := bounds[mi], n
	for _, x := range cuts {
		if x >= end && x < next {
			next = x
		}
	}
	behind := next - end
	kind := "?"
	last := c.Rounds[len(c.Rounds)-1]
	if l, err := clientLayout(c); err == nil {
		sp := last[l.order[len(c.Rounds)-1][c.CMalf.Pos]]
		kind = sp.Kind
		if sp.Err {
			kind = "error"
		}
	}
	hx.Label(fmt.Sprintf("cmalf reply=%s mut=%s", kind, c.CMalf.Mut))
	switch {
	case end == n:
		hx.Label("cmalf: the malformed reply is the last of the stream")
	case behind == 0:
		hx.Label("cmalf: nothing behind the malformed reply in its chunk")
	case behind < 16:
		hx.Label("cmalf: 1-15 bytes behind the malformed reply in its chunk")
	default:
		hx.Label("cmalf: >=16 bytes behind the malformed reply in its chunk")
	}
	start := 0
	if mi > 0 {
		start = bounds[mi-1]
	}
	hx.Label("cmalf: bytes in front of the malformed reply / (8 x msize) = " + ratioBucket(start, int(8*c.Msize)))
	if c.CMalf.Mut == "oversize" {
		sz := c.CMalf.At
		switch {
		case sz <= int(c.Msize)+16:
			hx.Label("cmalf oversize: msize+1 .. msize+16")
		case sz <= int(2*c.Msize):
			hx.Label("cmalf oversize: .. 2 x msize")
		case sz < int(8*c.Msize)-16:
			hx.Label("cmalf oversize: 2 x msize .. 8 x msize - 16")
		case sz <= int(8*c.Msize):
			hx.Label("cmalf oversize: 8 x msize - 16 .. 8 x msize")
		default:
			hx.Label("cmalf oversize: above 8 x msize")
		}
		first := 0
		for _, x := range cuts {
			if x > start && x < end {
				first = x - start
				break
			}
		}
		switch {
		case first == 0:
			hx.Label("cmalf oversize: the frame arrives in one chunk")
		case first <= 4:
			hx.Label("cmalf oversize: first cut 1-4 bytes into the frame")
		case first <= 7:
			hx.Label("cmalf oversize: first cut 5-7 bytes into the frame")
		default:
			hx.Label("cmalf oversize: first cut >=8 bytes into the frame")
		}
	}
	if behind > 0 || split {
		cb, _ := json.Marshal(cuts)
		if len(cb) > 1<<16 {
			cb = []byte(fmt.Sprintf("%s/%d/%d", c.Plan.Kind, c.Plan.Step, len(cuts)))
		}
		sb, _ := json.Marshal(c)
		hx.NonTrivial("cmalf", sb, cb)
	}
	hx.Sample(test, sampleOf(c))
}

// cmalfTarget returns the call (index into the last round) whose reply stands
// at position pos of the last round's reply order, and its well-formed reply
// (tag 0) as encoded.
func cmalfTarget(c *Case, pos int) (int, []byte, error) {
	probe := *c
	probe.Side, probe.CMalf = "client", nil
	l, err := clientLayout(&probe)
	if err != nil {
		return 0, nil, err
	}
	ri := len(c.Rounds) - 1
	idx := l.order[ri][pos]
	m := *l.rounds[ri][idx].reply
	return idx, ref9p.Encode(&m, c.Dotu), nil
}

func genCMalf(t *rapid.T) *Case {
	c := &Case{Side: "cmalf", CMalf: &CMalf{}}
	c.Msize = rapid.SampledFrom(msizes).Draw(t, "msize")
	c.Dotu = rapid.Bool().Draw(t, "dotu")
	c.Seed = rapid.Uint64().Draw(t, "seed")
	pk := rapid.SampledFrom(malfPlans).Draw(t, "plan")
	maxC := 80
	if pk == "bytes" || pk == "every" {
		maxC = max(6, min(maxC, (32<<10)/int(c.Msize)))
	}
	n := rapid.IntRange(2, maxC).Draw(t, "calls")
	nr := rapid.IntRange(1, 3).Draw(t, "rounds")
	per := (n + nr - 1) / nr
	for left := n; left > 0; left -= per {
		var round []Call
		for i := 0; i < min(per, left); i++ {
			round = append(round, genCall(t, c.Msize, c.Dotu))
		}
		c.Rounds = append(c.Rounds, round)
	}
	last := c.Rounds[len(c.Rounds)-1]
	c.CMalf.Pos = rapid.IntRange(0, len(last)-1).Draw(t, "pos")
	idx, enc, err := cmalfTarget(c, c.CMalf.Pos)
	if err != nil {
		t.Fatalf("harness: %v", err)
	}
	if rapid.IntRange(0, 2).Draw(t, "oversize") == 0 {
		// illegal by size only: the reply to a Read, of msize+1 .. 8*msize+64 bytes
		last[idx] = Call{Kind: "read", N: rapid.IntRange(0, int(c.Msize)-24).Draw(t, "n")}
		c.CMalf.Mut, c.CMalf.At = "oversize", drawOverSize(t, c.Msize)
		c.Plan = drawCMalfPlan(t, pk, c)
		return c
	}
	// an Rremove (7 bytes) cannot be cut; and the Rstat, with its nested
	// lengths, is made the target half of the time
	if room := int(c.Msize) - statBase(c.Dotu); room >= 0 && (len(enc) < 8 || rapid.Bool().Draw(t, "stat")) {
		last[idx] = Call{Kind: "stat", N: rapid.IntRange(0, min(room, 24)).Draw(t, "n")}
	} else if len(enc) < 8 {
		last[idx] = Call{Kind: "read", N: rapid.IntRange(0, int(c.Msize)-24).Draw(t, "n")}
	}
	if _, enc, err = cmalfTarget(c, c.CMalf.Pos); err != nil {
		t.Fatalf("harness: %v", err)
	}
	c.CMalf.Mut, c.CMalf.At, c.CMalf.By = drawMutation(t, c, enc)
	c.Plan = drawCMalfPlan(t, pk, c)
	return c
}

// drawOverSize draws the size of an oversize reply: just above msize, anywhere
// up to what the receive buffer holds, around 8 x msize, or a little beyond.
func drawOverSize(t *rapid.T, msize uint32) int {
	m := int(msize)
	switch rapid.IntRange(0, 5).Draw(t, "oversize-class") {
	case 0:
		return m + 1
	case 1:
		return m + rapid.IntRange(1, 16).Draw(t, "over")
	case 2:
		return rapid.IntRange(m+1, 2*m).Draw(t, "over")
	case 3:
		return 8*m + rapid.IntRange(-16, 0).Draw(t, "over")
	case 4:
		return 8*m + rapid.IntRange(1, 64).Draw(t, "over")
	}
	return rapid.IntRange(m+1, 8*m).Draw(t, "over")
}

// drawCMalfPlan: "near" puts 1..3 cuts within 40 bytes of the malformed reply's
// end or (a third of the cuts; half of them for an oversize reply) 8 bytes in
// front of .. 12 bytes behind its START: inside its size prefix, inside its
// header, in its first data bytes.
func drawCMalfPlan(t *rapid.T, kind string, c *Case) Plan {
	n, bounds, err := layout(c)
	if err != nil || n < 2 {
		return Plan{Kind: "one"}
	}
	if kind == "near" {
		mi := malfReplyIndex(c)
		end, start := bounds[mi], 0
		if mi > 0 {
			start = bounds[mi-1]
		}
		atStart := 2
		if c.CMalf.Mut == "oversize" {
			atStart = 1
		}
		seen := map[int]bool{}
		var cuts []int
		for i, k := 0, rapid.IntRange(1, 3).Draw(t, "ncuts"); i < k; i++ {
			var x int
			if rapid.IntRange(0, atStart).Draw(t, "edge") == 0 {
				x = start + rapid.IntRange(-8, 12).Draw(t, "h")
			} else {
				x = end + rapid.IntRange(-40, 40).Draw(t, "d")
			}
			if x >= 1 && x <= n-1 && !seen[x] {
				seen[x] = true
				cuts = append(cuts, x)
			}
		}
		if len(cuts) == 0 {
			return Plan{Kind: "one"}
		}
		sort.Ints(cuts)
		return Plan{Kind: "near", Cuts: cuts}
	}
	return drawPlan(t, kind, c)
}

func TestPropCMalf(t *testing.T) {
	hx.Check(t, "cmalf", hx.N(50, 800), func(t *rapid.T) {
		c := genCMalf(t)
		if err := execute("cmalf", c); err != nil {
			hx.Failf(t, "cmalf", c, "%v", err)
		}
	})
}

// enumCMalfCase is the k-th reply stream of the single-split enumeration of the
// class cmalf: msize 100 / 64 / 256, two rounds of a few calls, the malformed
// reply in the second one (every second stream: a cut Rstat).
func enumCMalfCase(k int) *Case {
	c := &Case{Side: "cmalf", CMalf: &CMalf{}, Msize: []uint32{100, 64, 256}[k%3], Dotu: (k/2)%2 == 1, Seed: hx.Mix(hx.Seed, 0xC142, uint64(k))}
	x := c.Seed
	call := func(i int) Call {
		x = hx.Mix(x, uint64(i))
		switch x % 8 {
		case 0:
			return Call{Kind: "read", N: int(c.Msize) - 24 - int((x>>8)%2)}
		case 1:
			return Call{Kind: "write", Err: true, N: int((x >> 8) % 20)}
		case 2:
			return Call{Kind: "write", N: int((x >> 8) % 30)}
		case 3:
			return Call{Kind: "open"}
		case 4, 5:
			return Call{Kind: "read", N: int((x >> 8) % 12)}
		case 6:
			if statBase(c.Dotu)+4 <= int(c.Msize) {
				return Call{Kind: "stat", N: int((x >> 8) % 5)}
			}
			return Call{Kind: "open"}
		}
		return Call{Kind: "remove"}
	}
	var r0, r1 []Call
	n0 := 1 + int(hx.Mix(x, 1)%6)
	if k%5 == 4 {
		n0 += 14
	}
	for i := 0; i < n0; i++ {
		r0 = append(r0, call(i))
	}
	for i, n := 0, 2+int(hx.Mix(x, 2)%4); i < n; i++ {
		r1 = append(r1, call(100+i))
	}
	c.Rounds = [][]Call{r0, r1}
	c.CMalf.Pos = int(hx.Mix(x, 3) % uint64(len(r1)-1)) // never the last: something follows
	idx, enc, err := cmalfTarget(c, c.CMalf.Pos)
	if err != nil {
		return c
	}
	if room := int(c.Msize) - statBase(c.Dotu); room >= 0 && (k%2 == 0 || len(enc) < 8) {
		r1[idx] = Call{Kind: "stat", N: min(room, int(hx.Mix(x, 4)%12))}
	} else if len(enc) < 8 {
		r1[idx] = Call{Kind: "read", N: 5}
	}
	if _, enc, err = cmalfTarget(c, c.CMalf.Pos); err != nil {
		return c
	}
	fs := raisable(enc, c.Dotu)
	if k%4 == 3 && len(fs) > 0 {
		c.CMalf.Mut, c.CMalf.At, c.CMalf.By = "inflate", int(hx.Mix(x, 6)%uint64(len(fs))), 1+int(hx.Mix(x, 7)%40)
		return c
	}
	c.CMalf.Mut, c.CMalf.At = "trunc", 7+int(hx.Mix(x, 8)%uint64(len(enc)-7))
	return c
}

// enumCOverCase is the k-th reply stream of the single-split enumeration of the
// oversize replies: msize 64 / 100, two rounds of a few calls, in the second
// one an Rread of msize+1 / 8 x msize / 3 x msize + 7 / 8 x msize + 1 /
// msize + 5 / 2 x msize bytes, with 1..3 well-formed replies behind it.
func enumCOverCase(k int) *Case {
	c := &Case{Side: "cmalf", CMalf: &CMalf{Mut: "oversize"}, Msize: []uint32{64, 100}[k%2], Dotu: (k/2)%2 == 1, Seed: hx.Mix(hx.Seed, 0xC143, uint64(k))}
	m := int(c.Msize)
	c.CMalf.At = []int{m + 1, 8 * m, 3*m + 7, 8*m + 1, m + 5, 2 * m}[k%6]
	x := c.Seed
	call := func(i int) Call {
		x = hx.Mix(x, uint64(i))
		switch x % 6 {
		case 0:
			return Call{Kind: "read", N: m - 24 - int((x>>8)%2)}
		case 1:
			return Call{Kind: "write", Err: true, N: int((x >> 8) % 20)}
		case 2:
			return Call{Kind: "write", N: int((x >> 8) % 30)}
		case 3:
			return Call{Kind: "open"}
		case 4:
			return Call{Kind: "read", N: int((x >> 8) % 12)}
		}
		return Call{Kind: "remove"}
	}
	var r0, r1 []Call
	n0 := 1 + int(hx.Mix(x, 1)%5)
	if k%3 == 2 {
		n0 += 8 // the oversize reply lies deeper in the receive buffer
	}
	for i := 0; i < n0; i++ {
		r0 = append(r0, call(i))
	}
	for i, n := 0, 2+int(hx.Mix(x, 2)%3); i < n; i++ {
		r1 = append(r1, call(100+i))
	}
	c.Rounds = [][]Call{r0, r1}
	c.CMalf.Pos = int(hx.Mix(x, 3) % uint64(len(r1)-1)) // never the last: something follows
	probe := *c
	probe.Side, probe.CMalf = "client", nil
	if l, err := clientLayout(&probe); err == nil {
		r1[l.order[1][c.CMalf.Pos]] = Call{Kind: "read", N: 5}
	}
	for len(c.Rounds[0]) > 1 {
		if n, _, err := layout(c); err != nil || n <= 1990 {
			break
		}
		c.Rounds[0] = c.Rounds[0][1:]
	}
	return c
}

func TestEnumCOverSplits(t *testing.T) {
	ns := 3
	if hx.Thorough() {
		ns = 3 * hx.NShards
	}
	enumerate(t, "cover-single-split", ns, enumCOverCase)
	hx.Exhaustive(fmt.Sprintf("client: every single split point of %d reply streams that contain one Rread larger than msize (msize+1 .. 8 x msize + 1 bytes), followed by 1..3 well-formed replies", ns))
}

func TestEnumCMalfSplits(t *testing.T) {
	ns := 4
	if hx.Thorough() {
		ns = 4 * hx.NShards
	}
	enumerate(t, "cmalf-single-split", ns, enumCMalfCase)
	hx.Exhaustive(fmt.Sprintf("client: every single split point of %d reply streams that contain one reply with a field reaching beyond the frame's end, followed by 1..4 well-formed replies", ns))
}
