package c13

import (
	"bytes"
	"fmt"
	"sync"
	"sync/atomic"
	"time"

	"github.com/rminnich/go9p"
	"pgregory.net/rapid"
	"verif/internal/hx"
	"verif/internal/rawc"
	"verif/internal/ref9p"
	"verif/internal/sched"
	"verif/internal/script"
)

const (
	fence2Fid = 51 // Tclunk of this fid is sent after everything was released (outside the measured stream)
	fenceTag  = 0xFFF0
	fence2Tag = 0xFFF1
	flushOld  = 0xFFF5 // oldtag of the generated Tflush frames: never in use
	firstFid  = 100
	// the smallest msize go9p's server accepts in a Tversion (9P's IOHDRSZ);
	// a generator bound only, the replies are predicted from the stream
	minNegoMsize = 24
)

// built is a request stream together with the fid preparation it needs.
type built struct {
	stream   []byte
	bounds   []int
	prepWalk []*ref9p.Msg
	prepOpen []*ref9p.Msg
	preds    []*pred
	byTag    map[uint16]*pred
	// classes nego and malf: which frame ends the session and why (every pred
	// from that frame on is marked dead)
	deadWhy string
}

// pred is what the reference codec predicts for one frame of the stream.
type pred struct {
	idx   int
	tag   uint16
	who   string     // name of the request in the schedule-point log
	req   *ref9p.Msg // canonical request
	reply []byte
	impl  bool // reaches the implementation
	hold  bool
	dead  bool // classes nego and malf: at or behind the frame that ends the session (above the negotiated msize / malformed)
}

func whoOf(m *ref9p.Msg) string {
	if m.Type == ref9p.Tversion {
		return "Tversion"
	}
	if m.Type == ref9p.Tflush {
		return fmt.Sprintf("Tflush/%d/%d", m.Oldtag, m.Tag)
	}
	return script.Key(m)
}

// statFits reports whether the scripted Rstat fits into msize.
func statFits(msize uint32, dotu bool) bool {
	a := script.ExpectedAnswer(&ref9p.Msg{Type: ref9p.Tstat, Fid: 1}, script.Behav{}, 0)
	return len(ref9p.Encode(a, dotu)) <= int(msize)
}

// createFull is the name length that makes a Tcreate frame exactly msize long.
func createFull(msize uint32, dotu bool) int {
	n := int(msize) - 18
	if dotu {
		n -= 2
	}
	return n
}

func buildStream(c *Case) (*built, error) {
	minMsize := uint32(64) // the preparation requests have to fit
	if c.SrvMsize != 0 {
		minMsize = minNegoMsize // the preparation runs at SrvMsize
	}
	if c.Msize < minMsize || len(c.Frames) == 0 || len(c.Frames) > 400 || int(c.TagBase)+len(c.Frames) >= fenceTag ||
		(c.SrvMsize != 0 && (c.SrvMsize <= c.Msize || c.SrvMsize < 64)) || c.Maxpend < 0 {
		return nil, fmt.Errorf("harness: bad server case")
	}
	b := &built{byTag: map[uint16]*pred{}}
	var msgs []*ref9p.Msg
	if c.SrvMsize != 0 {
		ver := "9P2000"
		if c.Dotu {
			ver = "9P2000.u"
		}
		msgs = append(msgs, &ref9p.Msg{Type: ref9p.Tversion, Tag: ref9p.NOTAG, Msize: c.Msize, Version: ver})
	}
	for i, f := range c.Frames {
		m, err := b.mkFrame(c, i, f)
		if err != nil {
			return nil, err
		}
		msgs = append(msgs, m)
	}
	walk := b.walk
	walk(fence2Fid, "ffence2")
	// the stream always ends with the smallest valid request (9 bytes)
	msgs = append(msgs, &ref9p.Msg{Type: ref9p.Tflush, Oldtag: flushOld, Tag: fenceTag})
	for _, m := range msgs {
		b.stream = append(b.stream, ref9p.Encode(m, c.Dotu)...)
		b.bounds = append(b.bounds, len(b.stream))
	}
	// The prediction starts from the bytes, not from the records above.
	frames, rest, err := ref9p.SplitFrames(b.stream)
	if err != nil || len(rest) != 0 || len(frames) != len(msgs) {
		return nil, fmt.Errorf("harness: the generated stream does not split into its frames")
	}
	// the msize in force changes at the stream's Tversion (class lower)
	msize := c.Msize
	if c.SrvMsize != 0 {
		msize = c.SrvMsize
	}
	for i, f := range frames {
		if len(f) > int(msize) {
			return nil, fmt.Errorf("harness: frame %d has %d bytes, msize %d", i, len(f), msize)
		}
		m, _, err := ref9p.Decode(f, c.Dotu)
		if err != nil {
			return nil, fmt.Errorf("harness: frame %d: %v", i, err)
		}
		// With Maxpend set nothing is held: a server that admits only Maxpend
		// requests at a time must not be made to wait for the harness.
		p := &pred{idx: i, tag: m.Tag, req: ref9p.Canon(m, c.Dotu), impl: m.Type != ref9p.Tflush && m.Type != ref9p.Tversion, hold: m.Type == ref9p.Twrite && c.Maxpend == 0}
		p.who = whoOf(p.req)
		var a *ref9p.Msg
		if m.Type == ref9p.Tversion {
			if i != 0 || c.SrvMsize == 0 {
				return nil, fmt.Errorf("harness: Tversion at frame %d", i)
			}
			if m.Msize < msize {
				msize = m.Msize
			}
			a = &ref9p.Msg{Type: ref9p.Rversion, Msize: msize, Version: m.Version}
		} else if m.Type == ref9p.Tflush {
			a = &ref9p.Msg{Type: ref9p.Rflush}
		} else {
			// every fid of the stream names a plain file except the create targets, whose type is not reported back
			a = script.ExpectedAnswer(p.req, script.Behav{Hold: p.hold}, 0)
		}
		am := *a
		am.Tag = m.Tag
		p.reply = ref9p.Encode(&am, c.Dotu)
		if len(p.reply) > int(msize) {
			return nil, fmt.Errorf("harness: predicted reply to frame %d has %d bytes, msize %d", i, len(p.reply), msize)
		}
		if _, dup := b.byTag[p.tag]; dup {
			return nil, fmt.Errorf("harness: tag %d used twice", p.tag)
		}
		b.byTag[p.tag] = p
		b.preds = append(b.preds, p)
	}
	if msize != c.Msize {
		return nil, fmt.Errorf("harness: msize in force at the end of the stream is %d, case says %d", msize, c.Msize)
	}
	return b, nil
}

func (b *built) walk(fid uint32, name string) {
	b.prepWalk = append(b.prepWalk, &ref9p.Msg{Type: ref9p.Twalk, Fid: 0, Newfid: fid, Wname: []string{name}})
}

func (b *built) open(fid uint32, mode uint8) {
	b.prepOpen = append(b.prepOpen, &ref9p.Msg{Type: ref9p.Topen, Fid: fid, Mode: mode})
}

// mkFrame builds the i-th frame of a stream (fid firstFid+2i, tag TagBase+i)
// and records the preparation its fid needs.
func (b *built) mkFrame(c *Case, i int, f Frame) (*ref9p.Msg, error) {
	walk, open := b.walk, b.open
	fid := uint32(firstFid + 2*i)
	tag := c.TagBase + uint16(i)
	fname, dname := fmt.Sprintf("f%d", fid), fmt.Sprintf("d%d", fid)
	var m *ref9p.Msg
	switch f.Kind {
	case "clunk":
		walk(fid, fname)
		m = &ref9p.Msg{Type: ref9p.Tclunk, Fid: fid}
	case "remove":
		walk(fid, fname)
		m = &ref9p.Msg{Type: ref9p.Tremove, Fid: fid}
	case "stat":
		if !statFits(c.Msize, c.Dotu) {
			return nil, fmt.Errorf("harness: Rstat does not fit msize %d", c.Msize)
		}
		walk(fid, fname)
		m = &ref9p.Msg{Type: ref9p.Tstat, Fid: fid}
	case "open":
		walk(fid, fname)
		m = &ref9p.Msg{Type: ref9p.Topen, Fid: fid, Mode: uint8(i % 3)}
	case "walk":
		walk(fid, fname)
		m = &ref9p.Msg{Type: ref9p.Twalk, Fid: fid, Newfid: fid + 1}
	case "read":
		if f.N < 0 || f.N > int(c.Msize)-24 {
			return nil, fmt.Errorf("harness: read count %d", f.N)
		}
		walk(fid, fname)
		open(fid, 0)
		m = &ref9p.Msg{Type: ref9p.Tread, Fid: fid, Offset: uint64(i)<<20 | 7, Count: uint32(f.N)}
	case "write":
		if f.N < 0 || f.N > int(c.Msize)-24 {
			return nil, fmt.Errorf("harness: write count %d", f.N)
		}
		walk(fid, fname)
		open(fid, 1)
		m = &ref9p.Msg{Type: ref9p.Twrite, Fid: fid, Offset: uint64(i)<<20 | 5, Data: prf(c.Seed, "w", i, f.N)}
	case "create":
		if f.N < 1 || f.N > createFull(c.Msize, c.Dotu) {
			return nil, fmt.Errorf("harness: create name length %d", f.N)
		}
		walk(fid, dname)
		m = &ref9p.Msg{Type: ref9p.Tcreate, Fid: fid, Name: letters(hx.Mix(c.Seed, uint64(i)), f.N), Perm: 0o644, Mode: uint8(i % 3)}
	case "flush":
		m = &ref9p.Msg{Type: ref9p.Tflush, Oldtag: flushOld}
	case "wstat": // class malf only
		walk(fid, fname)
		m = &ref9p.Msg{Type: ref9p.Twstat, Fid: fid, Stat: wstatOf(hx.Mix(c.Seed, uint64(i)), f.N, c.Dotu)}
		if f.N < 0 || len(ref9p.Encode(m, c.Dotu)) > int(c.Msize) {
			return nil, fmt.Errorf("harness: Twstat with a name of %d bytes does not fit msize %d", f.N, c.Msize)
		}
	default:
		return nil, fmt.Errorf("harness: unknown frame kind %q", f.Kind)
	}
	m.Tag = tag
	return m, nil
}

// obs is what one delivery of the stream produced.
type obs struct {
	replies  map[uint16][]byte
	enter    map[uint16]*ref9p.Msg // request as handed to the implementation
	answer   map[uint16]*ref9p.Msg // request as it looked when the implementation answered
	dispatch []string
	// negotiation class only
	lossy  bool // the server hangs up: queued replies may be lost
	forced bool // the close could not be delayed until every dispatched request had started
	hungup bool
}

func diffObs(a, b *obs) string {
	if a.lossy || b.lossy {
		return diffNego(a, b)
	}
	if len(a.replies) != len(b.replies) {
		return fmt.Sprintf("%d replies, reference %d", len(b.replies), len(a.replies))
	}
	for tag, ra := range a.replies {
		if rb := b.replies[tag]; !bytes.Equal(ra, rb) {
			return fmt.Sprintf("reply for tag %d: %x, reference %x", tag, clip(rb), clip(ra))
		}
	}
	for _, pair := range []struct {
		what string
		x, y map[uint16]*ref9p.Msg
	}{{"invocation", a.enter, b.enter}, {"request at answer time", a.answer, b.answer}} {
		if len(pair.x) != len(pair.y) {
			return fmt.Sprintf("%d %ss, reference %d", len(pair.y), pair.what, len(pair.x))
		}
		for tag, ma := range pair.x {
			mb := pair.y[tag]
			if mb == nil {
				return fmt.Sprintf("no %s for tag %d", pair.what, tag)
			}
			if d := ref9p.Diff(ma, mb); d != "" {
				return fmt.Sprintf("%s for tag %d: %s", pair.what, tag, d)
			}
		}
	}
	if len(a.dispatch) != len(b.dispatch) {
		return fmt.Sprintf("%d requests dispatched, reference %d", len(b.dispatch), len(a.dispatch))
	}
	for i := range a.dispatch {
		if a.dispatch[i] != b.dispatch[i] {
			return fmt.Sprintf("request %d in dispatch order is %s, reference %s", i, b.dispatch[i], a.dispatch[i])
		}
	}
	return ""
}

// hookLog is the verif hook of a run: the requests' recv.dispatch events in
// order (named as internal/sched names them) and a count of all schedule points
// passed (activity indicator for the idle detection).
type hookLog struct {
	mu       sync.Mutex
	dispatch []string
	points   atomic.Int64
	// negotiation class: the run's connection, a callback that delays its
	// close (called in the receive goroutine at close.enter) and whether
	// close has finished
	conn      atomic.Pointer[go9p.Conn]
	holdClose func()
	closed    atomic.Bool
}

func (h *hookLog) hook(point string, obj interface{}) {
	h.points.Add(1)
	switch point {
	case "recv.dispatch":
		who := sched.Who(obj)
		h.mu.Lock()
		h.dispatch = append(h.dispatch, who)
		h.mu.Unlock()
	case "close.enter":
		if c, ok := obj.(*go9p.Conn); ok && c != nil && c == h.conn.Load() && h.holdClose != nil {
			h.holdClose()
		}
	case "close.exit":
		if c, ok := obj.(*go9p.Conn); ok && c != nil && c == h.conn.Load() {
			h.closed.Store(true)
		}
	}
}

func (h *hookLog) install() func() {
	f := h.hook
	go9p.VerifHook.Store(&f)
	return func() { go9p.VerifHook.Store(nil) }
}

func (h *hookLog) dispatched() []string {
	h.mu.Lock()
	defer h.mu.Unlock()
	return append([]string(nil), h.dispatch...)
}

type srvRun struct {
	c       *Case
	b       *built
	sv      *script.Server
	ctl     *hookLog
	cl      *rawc.C
	unread  func() int
	replies map[uint16][]byte
	holding bool // the Twrites are still held inside the implementation
	prepTag uint16
}

// next waits for one frame from the server. It returns a hangErr after
// hangAfter, and a plain error when the server has taken every byte, passes no
// schedule point any more and still owes replies (they can never come).
func (r *srvRun) next(what string) ([]byte, error) {
	return r.nextOwed(what, func() string {
		return fmt.Sprintf("%d of %d requests were answered (not answered, leaving aside requests the implementation still holds:%s)", len(r.replies), len(r.b.preds), r.missing())
	})
}

// nextOwed is next with the description of what the server still owes supplied
// by the caller (the measured stream, or the preparation requests before it:
// they travel on the same connection and through the same receive buffer).
func (r *srvRun) nextOwed(what string, owed func() string) ([]byte, error) {
	start := time.Now()
	idle, lastEv := 0, int64(-1)
	for {
		f, err := r.cl.RecvRaw(pollEvery)
		if err == nil {
			return f, nil
		}
		if err != rawc.ErrTimeout {
			return nil, fmt.Errorf("%s: the server ended the connection (%v): %s", what, err, owed())
		}
		ev := r.ctl.points.Load()
		if ev == lastEv {
			idle++
		} else {
			idle = 0
		}
		lastEv = ev
		if idle >= idlePolls {
			st := go9pState("go9p.(*Conn).recv")
			if st == "" || (st == "parked" && r.unread() != 0) {
				idle = 0 // something is still runnable (library or the harness's reader), or bytes are on their way: keep waiting
				continue
			}
			// The library can do nothing more and the harness's reader is parked
			// in the drained transport: whatever the server wrote is in the
			// reader's queue by now. Take what is there before deciding.
			f, err := r.cl.RecvRaw(pollEvery)
			if err == nil {
				return f, nil
			}
			if err != rawc.ErrTimeout {
				return nil, fmt.Errorf("%s: the server ended the connection (%v): %s", what, err, owed())
			}
			if st == "gone" {
				return nil, fmt.Errorf("%s: the server's receive loop has ended with %d bytes of the stream unread and without the transport being closed; %s; every goroutine of the library is blocked", what, r.unread(), owed())
			}
			return nil, fmt.Errorf("%s: the server has read the whole stream and is idle, but %s; every goroutine of the library is blocked and its receive loop waits for more bytes", what, owed())
		}
		if time.Since(start) > hangAfter {
			return nil, hangErr(fmt.Sprintf("%s: %s after %v", what, owed(), hangAfter))
		}
	}
}

func (r *srvRun) missing() string {
	s := ""
	n := 0
	for _, p := range r.b.preds {
		if p.hold && r.holding {
			continue
		}
		if _, ok := r.replies[p.tag]; !ok {
			if n++; n > 6 {
				return s + " …"
			}
			s += fmt.Sprintf(" #%d %s(tag %d)", p.idx, p.who, p.tag)
		}
	}
	return s
}

func (r *srvRun) account(f []byte) error {
	m, _, err := ref9p.Decode(f, r.c.Dotu)
	if err != nil {
		return fmt.Errorf("the server sent a frame that does not decode strictly: %v: %x", err, clip(f))
	}
	p, ok := r.b.byTag[m.Tag]
	if !ok {
		return fmt.Errorf("reply %s for tag %d, which no request of the stream carries", ref9p.TypeName(m.Type), m.Tag)
	}
	if _, dup := r.replies[m.Tag]; dup {
		return fmt.Errorf("second reply (%s) for tag %d (frame %d, %s)", ref9p.TypeName(m.Type), m.Tag, p.idx, p.who)
	}
	r.replies[m.Tag] = f
	return nil
}

// batch sends the preparation requests (one chunk each) and waits for all replies.
// Every preparation request has a tag of its own (61000..): a request whose tag
// is still registered for an earlier one is started by that one's Respond, which
// may be before the receive loop has reached the recv.dispatch point.
func (r *srvRun) batch(ms []*ref9p.Msg) error {
	if r.c.Maxpend > 0 && len(ms) > 1 {
		// class pend: the preparation is lock step, so that a server that admits
		// only Maxpend requests at a time is first tried by the measured stream
		for _, m := range ms {
			if err := r.batch([]*ref9p.Msg{m}); err != nil {
				return err
			}
		}
		return nil
	}
	want := map[uint16]uint8{}
	for _, m := range ms {
		m.Tag = r.prepTag
		r.prepTag++
		want[m.Tag] = m.Type + 1
		if err := r.cl.Send(m); err != nil {
			return fmt.Errorf("prologue: %v", err)
		}
	}
	for len(want) > 0 {
		// decided like a reply of the measured stream: a preparation request
		// that the idle server (whole stream taken, every goroutine parked) has
		// not answered can never be answered
		f, err := r.nextOwed("prologue (one request per chunk)", func() string {
			return fmt.Sprintf("%d of the %d preparation requests just sent are unanswered", len(want), len(ms))
		})
		if err != nil {
			return err
		}
		m, _, derr := ref9p.Decode(f, r.c.Dotu)
		if derr != nil || want[m.Tag] != m.Type {
			return fmt.Errorf("prologue: unexpected reply %x (%v)", clip(f), derr)
		}
		delete(want, m.Tag)
	}
	return nil
}

func runServer(c *Case, b *built, cuts []int) (*obs, error) {
	srvMsize := c.Msize
	if c.SrvMsize != 0 {
		srvMsize = c.SrvMsize
	}
	sv := script.NewServer(script.Config{Msize: srvMsize, Dotu: c.Dotu, Maxpend: c.Maxpend})
	ctl := &hookLog{}
	defer ctl.install()()
	end := sv.Dial("c13")
	cl := rawc.New(end)
	defer func() {
		// let released requests finish before the connection goes away
		sv.S.ReleaseAll()
		if conn := sv.S.Conn(script.ConnID("c13")); conn != nil {
			for i := 0; i < 500; i++ {
				if n, _ := conn.VerifCounts(); n == 0 {
					break
				}
				time.Sleep(time.Millisecond)
			}
		}
		cl.Close()
	}()
	r := &srvRun{c: c, b: b, sv: sv, ctl: ctl, cl: cl, unread: end.Unread, replies: map[uint16][]byte{}, prepTag: 61000}
	ver := "9P2000"
	if c.Dotu {
		ver = "9P2000.u"
	}
	cl.Timeout = hangAfter
	rv, err := cl.Version(srvMsize, ver)
	if err == rawc.ErrTimeout {
		return nil, hangErr("prologue: Tversion unanswered")
	}
	if err != nil || rv.Type != ref9p.Rversion || rv.Msize != srvMsize || cl.Dotu != c.Dotu {
		return nil, fmt.Errorf("prologue: Tversion: %v %+v", err, rv)
	}
	if err := r.batch([]*ref9p.Msg{{Type: ref9p.Tattach, Fid: 0, Afid: ref9p.NOFID, Uname: "alice", Nuname: 1001}}); err != nil {
		return nil, err
	}
	if err := r.batch(b.prepWalk); err != nil {
		return nil, err
	}
	if err := r.batch(b.prepOpen); err != nil {
		return nil, err
	}
	for _, p := range b.preds {
		if p.hold {
			sv.S.Set(script.Key(p.req), script.Behav{Hold: true})
		}
	}
	if c.SrvMsize != 0 {
		// nothing may be outstanding when the stream's Tversion arrives (it cancels what is)
		pc := sv.S.Conn(script.ConnID("c13"))
		if pc == nil {
			return nil, fmt.Errorf("harness: connection not registered")
		}
		for start := time.Now(); ; {
			if n, _ := pc.VerifCounts(); n == 0 {
				break
			}
			if time.Since(start) > hangAfter {
				return nil, hangErr("preparation requests still registered")
			}
			time.Sleep(200 * time.Microsecond)
		}
	}
	logStart := len(sv.S.Log())
	evStart := len(ctl.dispatched())

	// ---- the measured stream
	if err := end.WriteChunks(b.stream, cuts); err != nil {
		return nil, fmt.Errorf("harness: write: %v", err)
	}
	// The last frame's reply proves that the receive loop has taken every
	// earlier frame; only then are the held Twrites released.
	r.holding = true
	for r.replies[fenceTag] == nil {
		what := "before the release of the held Twrites"
		if c.Maxpend > 0 {
			what = "waiting for the reply to the stream's last frame (nothing is held)"
		}
		f, err := r.next(what)
		if err != nil {
			return nil, err
		}
		if err := r.account(f); err != nil {
			return nil, err
		}
	}
	for _, p := range b.preds {
		if p.hold {
			if _, early := r.replies[p.tag]; early {
				return nil, fmt.Errorf("frame %d (%s, tag %d) was answered while the implementation still held it", p.idx, p.who, p.tag)
			}
		}
	}
	sv.S.ReleaseAll()
	r.holding = false
	for len(r.replies) < len(b.preds) {
		f, err := r.next("after the release of the held Twrites")
		if err != nil {
			return nil, err
		}
		if err := r.account(f); err != nil {
			return nil, err
		}
	}
	// ---- nothing else may come: wait until no request is registered, then fence
	conn := sv.S.Conn(script.ConnID("c13"))
	if conn == nil {
		return nil, fmt.Errorf("harness: connection not registered")
	}
	for start := time.Now(); ; {
		if n, _ := conn.VerifCounts(); n == 0 {
			break
		}
		if time.Since(start) > hangAfter {
			n, _ := conn.VerifCounts()
			return nil, hangErr(fmt.Sprintf("%d requests still registered after every reply was received", n))
		}
		time.Sleep(200 * time.Microsecond)
	}
	if err := cl.Send(&ref9p.Msg{Type: ref9p.Tclunk, Fid: fence2Fid, Tag: fence2Tag}); err != nil {
		return nil, fmt.Errorf("harness: write: %v", err)
	}
	for {
		f, err := r.next("waiting for the closing fence")
		if err != nil {
			return nil, err
		}
		if m, _, derr := ref9p.Decode(f, c.Dotu); derr == nil && m.Tag == fence2Tag && m.Type == ref9p.Rclunk {
			break
		}
		if err := r.account(f); err != nil {
			return nil, fmt.Errorf("after every request was answered: %v", err)
		}
	}

	// ---- observations
	o := &obs{replies: r.replies, enter: map[uint16]*ref9p.Msg{}, answer: map[uint16]*ref9p.Msg{}}
	for _, e := range sv.S.Log()[logStart:] {
		if e.Tag == fence2Tag {
			continue
		}
		switch e.Kind {
		case "enter":
			if _, dup := o.enter[e.Tag]; dup {
				return nil, fmt.Errorf("the implementation was invoked twice for tag %d (%s)", e.Tag, e.Key)
			}
			o.enter[e.Tag] = e.Msg
		case "answer":
			o.answer[e.Tag] = e.Msg
		}
	}
	sawFence2 := false
	for _, who := range ctl.dispatched()[evStart:] {
		if who == fmt.Sprintf("Tclunk/%d", fence2Fid) {
			sawFence2 = true
			continue
		}
		if sawFence2 {
			return nil, fmt.Errorf("request %s dispatched after the closing fence", who)
		}
		o.dispatch = append(o.dispatch, who)
	}

	// ---- against the prediction from the bytes
	for _, p := range b.preds {
		if got := r.replies[p.tag]; !bytes.Equal(got, p.reply) {
			return nil, fmt.Errorf("reply to frame %d (%s, tag %d) differs from the reply predicted from the stream:\n got  %x\n want %x", p.idx, p.who, p.tag, clip(got), clip(p.reply))
		}
		en, an := o.enter[p.tag], o.answer[p.tag]
		if !p.impl {
			if en != nil {
				return nil, fmt.Errorf("frame %d (%s) reached the implementation", p.idx, p.who)
			}
			continue
		}
		if en == nil || an == nil {
			return nil, fmt.Errorf("frame %d (%s, tag %d) was answered but never reached the implementation", p.idx, p.who, p.tag)
		}
		if d := ref9p.Diff(p.req, en); d != "" {
			return nil, fmt.Errorf("frame %d (%s, tag %d): the implementation was handed a request that differs from the stream: %s", p.idx, p.who, p.tag, d)
		}
		if d := ref9p.Diff(p.req, an); d != "" {
			return nil, fmt.Errorf("frame %d (%s, tag %d): after the rest of the stream had arrived the held request no longer equals the stream: %s", p.idx, p.who, p.tag, d)
		}
	}
	if len(o.enter) != countImpl(b) {
		return nil, fmt.Errorf("the implementation was invoked for %d tags, the stream has %d requests for it", len(o.enter), countImpl(b))
	}
	if len(o.dispatch) != len(b.preds) {
		all := ctl.dispatched()
		return nil, fmt.Errorf("%d requests dispatched, the stream has %d frames (dispatched since the start of the stream: %v; the five before: %v)", len(o.dispatch), len(b.preds), all[evStart:], all[max(0, evStart-5):evStart])
	}
	for i, p := range b.preds {
		if o.dispatch[i] != p.who {
			return nil, fmt.Errorf("request %d in dispatch order is %s, frame %d of the stream is %s", i, o.dispatch[i], i, p.who)
		}
	}
	return o, nil
}

func countImpl(b *built) int {
	n := 0
	for _, p := range b.preds {
		if p.impl {
			n++
		}
	}
	return n
}

// ---------------------------------------------------------------------------
// generation

func smallKinds(msize uint32, dotu bool) []string {
	k := []string{"clunk", "remove", "open", "walk", "read", "flush", "smallwrite", "clunk"}
	if statFits(msize, dotu) {
		k = append(k, "stat", "stat")
	}
	return k
}

func genServer(t *rapid.T) *Case {
	c := &Case{Side: "server"}
	c.Msize = rapid.SampledFrom(msizes).Draw(t, "msize")
	c.Dotu = rapid.Bool().Draw(t, "dotu")
	c.Seed = rapid.Uint64().Draw(t, "seed")
	c.TagBase = rapid.Uint16Range(0, 60000).Draw(t, "tagbase")
	pk := rapid.SampledFrom(planKinds).Draw(t, "plan")
	maxF := 200
	if pk == "bytes" || pk == "every" {
		// keep byte-wise deliveries below ~128 KiB
		if m := (128 << 10) / int(c.Msize); m < maxF {
			maxF = m
		}
	}
	n := rapid.IntRange(20, maxF).Draw(t, "frames")
	small := smallKinds(c.Msize, c.Dotu)
	for i := 0; i < n; i++ {
		switch rapid.IntRange(0, 9).Draw(t, "class") {
		case 0, 1, 2:
			c.Frames = append(c.Frames, Frame{Kind: "write", N: int(c.Msize) - 24 - rapid.IntRange(0, 1).Draw(t, "short")})
		case 3:
			c.Frames = append(c.Frames, Frame{Kind: "create", N: createFull(c.Msize, c.Dotu)})
		case 4:
			c.Frames = append(c.Frames, Frame{Kind: "write", N: rapid.IntRange(0, int(c.Msize)-24).Draw(t, "n")})
		default:
			k := rapid.SampledFrom(small).Draw(t, "kind")
			switch k {
			case "smallwrite":
				c.Frames = append(c.Frames, Frame{Kind: "write", N: rapid.IntRange(0, 3).Draw(t, "n")})
			case "read":
				c.Frames = append(c.Frames, Frame{Kind: "read", N: rapid.SampledFrom([]int{0, 1, 9, int(c.Msize) - 24}).Draw(t, "n")})
			default:
				c.Frames = append(c.Frames, Frame{Kind: k})
			}
		}
	}
	c.Plan = drawPlan(t, pk, c)
	return c
}

// enumServerCase is the k-th stream of the single-split enumeration: msize 64
// or 100, at most 2000 bytes, longer than the 8 x msize buffer. Derived from the
// run's seed only, so that every shard sees the same streams.
func enumServerCase(k int) *Case {
	c := &Case{Side: "server", Msize: []uint32{64, 100}[k%2], Dotu: ((k+1)/2)%2 == 1, Seed: hx.Mix(hx.Seed, 0xC13, uint64(k))}
	c.TagBase = uint16(hx.Mix(c.Seed, 1) % 60000)
	small := smallKinds(c.Msize, c.Dotu)
	x := c.Seed
	size := 9 // the closing Tflush
	for i := 0; ; i++ {
		x = hx.Mix(x, uint64(i))
		var f Frame
		switch x % 10 {
		case 0, 1, 2, 3:
			f = Frame{Kind: "write", N: int(c.Msize) - 24 - int((x>>8)%2)}
		case 4:
			f = Frame{Kind: "create", N: createFull(c.Msize, c.Dotu)}
		default:
			switch s := small[(x>>8)%uint64(len(small))]; s {
			case "smallwrite":
				f = Frame{Kind: "write", N: int((x >> 16) % 4)}
			case "read":
				f = Frame{Kind: "read", N: int((x >> 16) % 10)}
			default:
				f = Frame{Kind: s}
			}
		}
		l := frameLen(f, c.Dotu)
		if size+l > 1990 {
			break
		}
		size += l
		c.Frames = append(c.Frames, f)
	}
	return c
}

func frameLen(f Frame, dotu bool) int {
	switch f.Kind {
	case "write":
		return 23 + f.N
	case "create":
		if dotu {
			return 20 + f.N
		}
		return 18 + f.N
	case "read":
		return 23
	case "walk":
		return 17
	case "open":
		return 12
	case "flush":
		return 9
	}
	return 11
}
