package c13

// Two further server-side classes, both executed by buildStream / runServer
// (srv_test.go) and judged by the same oracle as the class "server":
//
// lower: the fids are prepared at the server's own msize (SrvMsize); the
// measured stream starts with a Tversion that lowers the msize to a small value
// (down to 24, the least a server accepts) and goes on with a long tail of
// frames that all fit the new msize. Whatever the segmentation -- in particular
// when the Tversion and many times 8 x the new msize of tail arrive in one
// chunk -- every frame of the tail has to be executed and answered as the
// stream says. (Class "nego" ends the session at an oversize frame shortly
// behind the Tversion; this class looks at what happens to a tail that is valid.)
//
// pend: the server is started with Srv.Maxpend = 1, 2, 3, 4 or 8. Nothing is
// held inside the implementation (a server that admits only Maxpend requests
// at a time must not be made to wait for the harness), the stream is delivered
// with many complete frames per chunk, the last chunk included, and nothing
// follows it until every request of the stream is answered.

import (
	"encoding/json"
	"fmt"
	"sort"
	"testing"

	"pgregory.net/rapid"
	"verif/internal/hx"
)

var lowerSrv = []uint32{1024, 4096, 8192, 16384}
var lowerNew = []uint32{minNegoMsize, minNegoMsize, 25, 32, 48, 64, 100, 128, 256}
var maxpends = []int{1, 2, 4, 1, 2, 4, 3, 8}

// drawFrames draws n frames that fit c.Msize, for any msize >= 24: near-msize
// Twrite / Tcreate mixed with tiny requests.
func drawFrames(t *rapid.T, c *Case, n int) {
	full := int(c.Msize) - 24 // largest Twrite payload / Tread count
	small := smallKinds(c.Msize, c.Dotu)
	for i := 0; i < n; i++ {
		switch rapid.IntRange(0, 9).Draw(t, "class") {
		case 0, 1, 2:
			c.Frames = append(c.Frames, Frame{Kind: "write", N: max(0, full-rapid.IntRange(0, 1).Draw(t, "short"))})
		case 3:
			c.Frames = append(c.Frames, Frame{Kind: "create", N: createFull(c.Msize, c.Dotu)})
		case 4:
			c.Frames = append(c.Frames, Frame{Kind: "write", N: rapid.IntRange(0, full).Draw(t, "n")})
		default:
			k := rapid.SampledFrom(small).Draw(t, "kind")
			switch k {
			case "smallwrite":
				c.Frames = append(c.Frames, Frame{Kind: "write", N: rapid.IntRange(0, min(3, full)).Draw(t, "n")})
			case "read":
				c.Frames = append(c.Frames, Frame{Kind: "read", N: min(full, rapid.SampledFrom([]int{0, 1, 9, full}).Draw(t, "n"))})
			default:
				c.Frames = append(c.Frames, Frame{Kind: k})
			}
		}
	}
}

// detFrames appends frames derived from x until the stream would exceed limit bytes.
func detFrames(c *Case, x uint64, size, limit int) {
	full := int(c.Msize) - 24
	small := smallKinds(c.Msize, c.Dotu)
	for i := 0; ; i++ {
		x = hx.Mix(x, uint64(i))
		var f Frame
		switch x % 10 {
		case 0, 1, 2, 3:
			f = Frame{Kind: "write", N: max(0, full-int((x>>8)%2))}
		case 4:
			f = Frame{Kind: "create", N: createFull(c.Msize, c.Dotu)}
		default:
			switch s := small[(x>>8)%uint64(len(small))]; s {
			case "smallwrite":
				f = Frame{Kind: "write", N: min(full, int((x>>16)%4))}
			case "read":
				f = Frame{Kind: "read", N: min(full, int((x>>16)%10))}
			default:
				f = Frame{Kind: s}
			}
		}
		l := frameLen(f, c.Dotu)
		if size+l > limit {
			return
		}
		size += l
		c.Frames = append(c.Frames, f)
	}
}

// distinctCuts draws k cut offsets in [lo, hi] (aimed like drawCut when aimed is set).
func distinctCuts(t *rapid.T, k, lo, hi, n int, bounds []int) []int {
	seen := map[int]bool{}
	var cuts []int
	for i := 0; i < k && lo <= hi; i++ {
		var x int
		if rapid.Bool().Draw(t, "uniform") {
			x = rapid.IntRange(lo, hi).Draw(t, "cut")
		} else {
			x = drawCut(t, n, bounds)
		}
		if x >= lo && x <= hi && !seen[x] {
			seen[x] = true
			cuts = append(cuts, x)
		}
	}
	sort.Ints(cuts)
	return cuts
}

var lowerPlans = []string{"one", "head", "head", "head", "vfirst", "single", "multi", "bytes", "every"}

// drawLowerPlan: besides the usual plans, "head" delivers the Tversion together
// with a drawn length of the tail (from one byte to all of it) in the first
// chunk and cuts the rest 0..10 times; "vfirst" gives the Tversion a chunk of
// its own and cuts the tail 0..10 times.
func drawLowerPlan(t *rapid.T, kind string, c *Case) Plan {
	n, bounds, err := layout(c)
	if err != nil || n < 2 {
		return Plan{Kind: "one"}
	}
	switch kind {
	case "head":
		tail := n - bounds[0]
		var h int
		switch rapid.IntRange(0, 3).Draw(t, "headlen") {
		case 0:
			h = rapid.IntRange(1, tail-1).Draw(t, "h")
		case 1:
			// a multiple of the new receive buffer size, give or take a few bytes
			h = int(8*c.Msize)*rapid.IntRange(1, max(1, tail/int(8*c.Msize))).Draw(t, "bufs") + rapid.IntRange(-5, 5).Draw(t, "d")
		case 2:
			// up to the end of a drawn frame
			h = bounds[rapid.IntRange(1, len(bounds)-1).Draw(t, "upto")] - bounds[0]
		default:
			h = tail - rapid.IntRange(1, min(40, tail-1)).Draw(t, "short")
		}
		h = max(1, min(h, tail-1))
		first := bounds[0] + h
		cuts := []int{first}
		cuts = append(cuts, distinctCuts(t, rapid.IntRange(0, 10).Draw(t, "more"), first+1, n-1, n, bounds)...)
		return Plan{Kind: "head", Cuts: cuts}
	case "vfirst":
		cuts := []int{bounds[0]}
		cuts = append(cuts, distinctCuts(t, rapid.IntRange(0, 10).Draw(t, "more"), bounds[0]+1, n-1, n, bounds)...)
		return Plan{Kind: "vfirst", Cuts: cuts}
	}
	return drawPlan(t, kind, c)
}

func genLower(t *rapid.T) *Case {
	c := &Case{Side: "lower"}
	c.SrvMsize = rapid.SampledFrom(lowerSrv).Draw(t, "srvmsize")
	c.Msize = rapid.OneOf(rapid.SampledFrom(lowerNew), rapid.Uint32Range(minNegoMsize, 300)).Draw(t, "msize")
	c.Dotu = rapid.Bool().Draw(t, "dotu")
	c.Seed = rapid.Uint64().Draw(t, "seed")
	c.TagBase = rapid.Uint16Range(0, 60000).Draw(t, "tagbase")
	pk := rapid.SampledFrom(lowerPlans).Draw(t, "plan")
	drawFrames(t, c, rapid.IntRange(30, 200).Draw(t, "frames"))
	c.Plan = drawLowerPlan(t, pk, c)
	return c
}

var pendPlans = []string{"one", "one", "lastbig", "lastbig", "single", "multi", "every", "bytes"}

// drawPendPlan: "lastbig" cuts only a drawn prefix of the stream, so that the
// last chunk carries many complete frames and nothing follows it.
func drawPendPlan(t *rapid.T, kind string, c *Case) Plan {
	n, bounds, err := layout(c)
	if err != nil || n < 2 {
		return Plan{Kind: "one"}
	}
	if kind == "lastbig" {
		q := rapid.IntRange(1, n-1).Draw(t, "prefix")
		return Plan{Kind: "lastbig", Cuts: distinctCuts(t, rapid.IntRange(1, 20).Draw(t, "ncuts"), 1, q, n, bounds)}
	}
	return drawPlan(t, kind, c)
}

func genPend(t *rapid.T) *Case {
	c := &Case{Side: "pend"}
	c.Maxpend = rapid.SampledFrom(maxpends).Draw(t, "maxpend")
	c.Msize = rapid.SampledFrom(msizes).Draw(t, "msize")
	c.Dotu = rapid.Bool().Draw(t, "dotu")
	c.Seed = rapid.Uint64().Draw(t, "seed")
	c.TagBase = rapid.Uint16Range(0, 60000).Draw(t, "tagbase")
	pk := rapid.SampledFrom(pendPlans).Draw(t, "plan")
	maxF := 200
	if pk == "bytes" || pk == "every" {
		if m := (64 << 10) / int(c.Msize); m < maxF {
			maxF = m
		}
	}
	drawFrames(t, c, rapid.IntRange(12, max(12, maxF)).Draw(t, "frames"))
	c.Plan = drawPendPlan(t, pk, c)
	return c
}

// tailWithVersion is the number of stream bytes behind the Tversion that the
// plan delivers in the same chunk as the Tversion's last byte.
func tailWithVersion(cuts []int, n int, bounds []int) int {
	end := n
	for _, x := range cuts {
		if x >= bounds[0] && x < end {
			end = x
		}
	}
	return end - bounds[0]
}

// framesPerChunk returns the largest number of frames completed by one chunk
// and the number completed by the last chunk.
func framesPerChunk(cuts []int, n int, bounds []int) (most, last int) {
	edges := append(append([]int{0}, cuts...), n)
	for i := 0; i+1 < len(edges); i++ {
		lo, hi := edges[i], edges[i+1]
		if hi <= lo {
			continue
		}
		// frames whose last byte lies in (lo, hi]
		k := sort.SearchInts(bounds, hi+1) - sort.SearchInts(bounds, lo+1)
		most = max(most, k)
		last = k
	}
	return
}

func ratioBucket(x, unit int) string {
	switch {
	case x == 0:
		return "0"
	case x <= unit:
		return "<=1"
	case x <= 4*unit:
		return "1-4"
	case x <= 16*unit:
		return "4-16"
	}
	return ">16"
}

func recordLower(test string, c *Case, cuts []int, n int, bounds []int, split bool) {
	tail := tailWithVersion(cuts, n, bounds)
	hx.Label(fmt.Sprintf("lower srvmsize=%d msize=%s", c.SrvMsize, sizeBucket(c.Msize)))
	hx.Label("lower: tail in the Tversion's chunk / (8 x new msize) = " + ratioBucket(tail, int(8*c.Msize)))
	if tail > int(8*c.SrvMsize) {
		hx.Label("lower: tail in the Tversion's chunk longer than 8 x server msize")
	}
	// non-trivial: the stream outgrows the new receive buffer, and the plan either
	// delivers at least one complete frame together with the Tversion or cuts a
	// frame off a boundary
	if n-bounds[0] > int(8*c.Msize) && (split || tail >= bounds[1]-bounds[0]) {
		cb, _ := json.Marshal(cuts)
		if len(cb) > 1<<16 {
			cb = []byte(fmt.Sprintf("%s/%d/%d", c.Plan.Kind, c.Plan.Step, len(cuts)))
		}
		sb, _ := json.Marshal(c.Frames)
		hx.NonTrivial("lower", c.SrvMsize, c.Msize, c.Dotu, c.Seed, c.TagBase, sb, cb)
	}
	hx.Sample(test, sampleOf(c))
}

func recordPend(test string, c *Case, cuts []int, n int, bounds []int) {
	most, last := framesPerChunk(cuts, n, bounds)
	hx.Label(fmt.Sprintf("pend maxpend=%d", c.Maxpend))
	hx.Label("pend: most frames completed by one chunk / Maxpend = " + ratioBucket(most, c.Maxpend))
	if last > c.Maxpend {
		hx.Label("pend: the last chunk completes more than Maxpend frames")
	}
	// non-trivial: some chunk completes more frames than Maxpend
	if most > c.Maxpend {
		cb, _ := json.Marshal(cuts)
		if len(cb) > 1<<16 {
			cb = []byte(fmt.Sprintf("%s/%d/%d", c.Plan.Kind, c.Plan.Step, len(cuts)))
		}
		sb, _ := json.Marshal(c.Frames)
		hx.NonTrivial("pend", c.Maxpend, c.Msize, c.Dotu, c.Seed, c.TagBase, sb, cb)
	}
	hx.Sample(test, sampleOf(c))
}

func sizeBucket(m uint32) string {
	switch {
	case m == minNegoMsize:
		return "24"
	case m < 64:
		return "25-63"
	case m <= 128:
		return "64-128"
	}
	return "129-300"
}

func TestPropLower(t *testing.T) {
	hx.Check(t, "lower", hx.N(100, 800), func(t *rapid.T) {
		c := genLower(t)
		if err := execute("lower", c); err != nil {
			hx.Failf(t, "lower", c, "%v", err)
		}
	})
}

func TestPropPend(t *testing.T) {
	hx.Check(t, "pend", hx.N(50, 600), func(t *rapid.T) {
		c := genPend(t)
		if err := execute("pend", c); err != nil {
			hx.Failf(t, "pend", c, "%v", err)
		}
	})
}

// enumLowerCase is the k-th stream of the single-split enumeration of class
// lower: at most 1200 bytes (quick) or 2000 bytes (thorough), new msize 24 / 64 /
// 40 / 100, i.e. between 1.5 (msize 100, quick) and 10 (msize 24, thorough)
// receive buffers of the new size.
func enumLowerCase(k int) *Case {
	c := &Case{Side: "lower", Msize: []uint32{minNegoMsize, 64, 40, 100}[k%4], Dotu: ((k+1)/2)%2 == 1, Seed: hx.Mix(hx.Seed, 0xC13F, uint64(k))}
	c.SrvMsize = lowerSrv[k%len(lowerSrv)]
	c.TagBase = uint16(hx.Mix(c.Seed, 1) % 60000)
	limit := 1200
	if hx.Thorough() {
		limit = 1990
	}
	detFrames(c, c.Seed, 21+9, limit) // Tversion (19 or 21 bytes) and the closing Tflush
	return c
}

// enumPendCase: Maxpend 1 / 2 / 4, msize 64 / 100, at most 1200 bytes.
func enumPendCase(k int) *Case {
	c := &Case{Side: "pend", Maxpend: []int{1, 2, 4}[k%3], Msize: []uint32{64, 100}[k%2], Dotu: ((k+1)/2)%2 == 1, Seed: hx.Mix(hx.Seed, 0xC140, uint64(k))}
	c.TagBase = uint16(hx.Mix(c.Seed, 1) % 60000)
	detFrames(c, c.Seed, 9, 1200)
	return c
}

func TestEnumLowerSplits(t *testing.T) {
	ns := 2
	if hx.Thorough() {
		ns = 2 * hx.NShards
	}
	enumerate(t, "lower-single-split", ns, enumLowerCase)
	hx.Exhaustive(fmt.Sprintf("server: every single split point of %d streams of <= 1200 (quick) / 2000 (thorough) bytes that start with a Tversion lowering the msize to 24 / 64 / 40 / 100 and go on with a tail of valid frames longer than the new 8 x msize", ns))
}

func TestEnumPendSplits(t *testing.T) {
	ns := 1
	if hx.Thorough() {
		ns = hx.NShards
	}
	enumerate(t, "pend-single-split", ns, enumPendCase)
	hx.Exhaustive(fmt.Sprintf("server with Maxpend 1 / 2 / 4: every single split point of %d request streams of <= 1200 bytes", ns))
}
