package c13

// Negotiation class (Side "nego"): the measured stream starts with a Tversion
// that lowers the connection's msize (server Msize 1024/4096/8192, new msize
// 64..256), continues with requests that fit the new msize, then one frame
// that is larger than the NEW msize but not larger than the server's, then more
// requests. Whatever the segmentation, the server must execute exactly the
// requests in front of the oversize frame and hang up at it.
//
// Soundness: after the hang-up, replies that are still queued (the Rversion,
// replies of requests still executing) may or may not reach the wire; that
// depends on timing, not on segmentation. So a missing reply is accepted, an
// extra or different one never is, and the verdict on "which requests were
// executed" is taken from the implementation's log. A request dispatched just
// before the hang-up finds its fid only if it looks it up before the closing
// connection releases its fids; the run therefore delays the close (verif hook
// point close.enter, in the receive goroutine) until every request dispatched
// so far has entered the implementation. If that delay times out the run only
// demands "subset" instead of "equal".

import (
	"bytes"
	"fmt"
	"time"

	"pgregory.net/rapid"
	"verif/internal/hx"
	"verif/internal/rawc"
	"verif/internal/ref9p"
	"verif/internal/script"
)

type Nego struct {
	SrvMsize uint32  `json:"srvmsize"`
	OverKind string  `json:"overkind"` // write | create | attach
	OverSize int     `json:"oversize"` // frame size: > Msize, <= SrvMsize
	After    []Frame `json:"after"`
}

const negoUname = "alice"

func overBase(kind string, dotu bool) int {
	switch kind {
	case "write":
		return 23
	case "create":
		if dotu {
			return 20
		}
		return 18
	}
	// attach: size type tag fid afid uname aname [n_uname]
	n := 4 + 1 + 2 + 4 + 4 + 2 + len(negoUname) + 2
	if dotu {
		n += 4
	}
	return n
}

func buildNego(c *Case) (*built, error) {
	g := c.Nego
	if g == nil || c.Msize < 64 || c.Msize >= g.SrvMsize || len(c.Frames) > 100 || len(g.After) == 0 || len(g.After) > 100 ||
		g.OverSize <= int(c.Msize) || g.OverSize > int(g.SrvMsize) || g.OverSize < overBase(g.OverKind, c.Dotu)+1 ||
		int(c.TagBase)+len(c.Frames)+len(g.After)+1 >= fenceTag {
		return nil, fmt.Errorf("harness: bad negotiation case")
	}
	b := &built{byTag: map[uint16]*pred{}}
	ver := "9P2000"
	if c.Dotu {
		ver = "9P2000.u"
	}
	msgs := []*ref9p.Msg{{Type: ref9p.Tversion, Tag: ref9p.NOTAG, Msize: c.Msize, Version: ver}}
	for i, f := range c.Frames {
		m, err := b.mkFrame(c, i, f)
		if err != nil {
			return nil, err
		}
		msgs = append(msgs, m)
	}
	// the oversize frame
	oi := len(c.Frames)
	fid := uint32(firstFid + 2*oi)
	n := g.OverSize - overBase(g.OverKind, c.Dotu)
	var om *ref9p.Msg
	switch g.OverKind {
	case "write":
		b.walk(fid, fmt.Sprintf("f%d", fid))
		b.open(fid, 1)
		om = &ref9p.Msg{Type: ref9p.Twrite, Fid: fid, Offset: 9, Data: prf(c.Seed, "over", oi, n)}
	case "create":
		b.walk(fid, fmt.Sprintf("d%d", fid))
		om = &ref9p.Msg{Type: ref9p.Tcreate, Fid: fid, Name: letters(hx.Mix(c.Seed, 0x0e), n), Perm: 0o644, Mode: 0}
	case "attach":
		om = &ref9p.Msg{Type: ref9p.Tattach, Fid: fid, Afid: ref9p.NOFID, Uname: negoUname, Aname: letters(hx.Mix(c.Seed, 0x0a), n), Nuname: 1001}
	default:
		return nil, fmt.Errorf("harness: unknown oversize kind %q", g.OverKind)
	}
	om.Tag = c.TagBase + uint16(oi)
	msgs = append(msgs, om)
	for j, f := range g.After {
		m, err := b.mkFrame(c, oi+1+j, f)
		if err != nil {
			return nil, err
		}
		msgs = append(msgs, m)
	}
	for _, m := range msgs {
		b.stream = append(b.stream, ref9p.Encode(m, c.Dotu)...)
		b.bounds = append(b.bounds, len(b.stream))
	}
	// prediction from the bytes: the msize in force changes at the Tversion;
	// the first frame larger than it ends the session
	frames, rest, err := ref9p.SplitFrames(b.stream)
	if err != nil || len(rest) != 0 || len(frames) != len(msgs) {
		return nil, fmt.Errorf("harness: the generated stream does not split into its frames")
	}
	msize := g.SrvMsize
	dead := false
	for i, f := range frames {
		m, _, err := ref9p.Decode(f, c.Dotu)
		if err != nil {
			return nil, fmt.Errorf("harness: frame %d: %v", i, err)
		}
		if len(f) > int(msize) {
			dead = true
		}
		p := &pred{idx: i, tag: m.Tag, req: ref9p.Canon(m, c.Dotu), dead: dead}
		p.who = whoOf(p.req)
		p.impl = !dead && m.Type != ref9p.Tflush && m.Type != ref9p.Tversion
		if !dead {
			var a *ref9p.Msg
			switch m.Type {
			case ref9p.Tversion:
				if m.Msize < msize {
					msize = m.Msize
				}
				a = &ref9p.Msg{Type: ref9p.Rversion, Msize: msize, Version: m.Version}
			case ref9p.Tflush:
				a = &ref9p.Msg{Type: ref9p.Rflush}
			default:
				a = script.ExpectedAnswer(p.req, script.Behav{}, 0)
			}
			am := *a
			am.Tag = m.Tag
			p.reply = ref9p.Encode(&am, c.Dotu)
			if len(p.reply) > int(msize) {
				return nil, fmt.Errorf("harness: predicted reply to frame %d has %d bytes, msize %d", i, len(p.reply), msize)
			}
		}
		if _, dup := b.byTag[p.tag]; dup {
			return nil, fmt.Errorf("harness: tag %d used twice", p.tag)
		}
		b.byTag[p.tag] = p
		b.preds = append(b.preds, p)
	}
	if !b.preds[oi+1].dead || b.preds[oi].dead || msize != c.Msize {
		return nil, fmt.Errorf("harness: the oversize frame is not the first frame above the negotiated msize")
	}
	b.deadWhy = fmt.Sprintf("frame %d has %d bytes and the msize negotiated by the stream's Tversion is %d", oi+1, g.OverSize, c.Msize)
	return b, nil
}

// sameRead reports whether the plan delivers the end of the Tversion and the
// first five bytes of the oversize frame in one chunk, i.e. whether the new
// msize has to take effect inside one transport read.
func sameRead(c *Case, cuts []int, bounds []int) bool {
	lo, hi := bounds[0], bounds[len(c.Frames)]+4
	for _, x := range cuts {
		if x >= lo && x <= hi {
			return false
		}
	}
	return true
}

func diffNego(a, b *obs) string {
	for tag, ra := range a.replies {
		if rb, ok := b.replies[tag]; ok && !bytes.Equal(ra, rb) {
			return fmt.Sprintf("reply for tag %d: %x, reference %x", tag, clip(rb), clip(ra))
		}
	}
	if a.hungup != b.hungup {
		return fmt.Sprintf("server hung up: %v, reference %v", b.hungup, a.hungup)
	}
	for tag, mb := range b.enter {
		ma := a.enter[tag]
		if ma == nil {
			if a.forced {
				continue
			}
			return fmt.Sprintf("the request with tag %d reached the implementation, in the reference delivery it did not", tag)
		}
		if d := ref9p.Diff(ma, mb); d != "" {
			return fmt.Sprintf("invocation for tag %d: %s", tag, d)
		}
	}
	if !b.forced {
		for tag := range a.enter {
			if b.enter[tag] == nil {
				return fmt.Sprintf("the request with tag %d did not reach the implementation, in the reference delivery it did", tag)
			}
		}
	}
	if len(a.dispatch) != len(b.dispatch) {
		return fmt.Sprintf("%d requests dispatched, reference %d", len(b.dispatch), len(a.dispatch))
	}
	for i := range a.dispatch {
		if a.dispatch[i] != b.dispatch[i] {
			return fmt.Sprintf("request %d in dispatch order is %s, reference %s", i, b.dispatch[i], a.dispatch[i])
		}
	}
	return ""
}

func runNego(c *Case, b *built, cuts []int) (*obs, error) {
	return runDrop(c, b, cuts, c.Nego.SrvMsize)
}

// runDrop delivers a stream that contains a frame at which the server has to
// end the session (b.deadWhy says which frame and why; every pred from it on is
// marked dead) to a server started with srvMsize, and judges the delivery.
func runDrop(c *Case, b *built, cuts []int, srvMsize uint32) (*obs, error) {
	sv := script.NewServer(script.Config{Msize: srvMsize, Dotu: c.Dotu})
	ctl := &hookLog{}
	defer ctl.install()()
	end := sv.Dial("c13")
	cl := rawc.New(end)
	defer cl.Close()
	r := &srvRun{c: c, b: b, sv: sv, ctl: ctl, cl: cl, unread: end.Unread, replies: map[uint16][]byte{}, prepTag: 61000}
	ver := "9P2000"
	if c.Dotu {
		ver = "9P2000.u"
	}
	cl.Timeout = hangAfter
	rv, err := cl.Version(srvMsize, ver)
	if err == rawc.ErrTimeout {
		return nil, hangErr("prologue: Tversion unanswered")
	}
	if err != nil || rv.Type != ref9p.Rversion || rv.Msize != srvMsize || cl.Dotu != c.Dotu {
		return nil, fmt.Errorf("prologue: Tversion: %v %+v", err, rv)
	}
	if err := r.batch([]*ref9p.Msg{{Type: ref9p.Tattach, Fid: 0, Afid: ref9p.NOFID, Uname: "alice", Nuname: 1001}}); err != nil {
		return nil, err
	}
	if err := r.batch(b.prepWalk); err != nil {
		return nil, err
	}
	if err := r.batch(b.prepOpen); err != nil {
		return nil, err
	}
	conn := sv.S.Conn(script.ConnID("c13"))
	if conn == nil {
		return nil, fmt.Errorf("harness: connection not registered")
	}
	// nothing may be outstanding when the Tversion arrives (it cancels what is)
	for start := time.Now(); ; {
		if n, _ := conn.VerifCounts(); n == 0 {
			break
		}
		if time.Since(start) > hangAfter {
			return nil, hangErr("preparation requests still registered")
		}
		time.Sleep(200 * time.Microsecond)
	}
	logStart := len(sv.S.Log())
	evStart := len(ctl.dispatched())
	entered := func() int {
		n := 0
		for _, e := range sv.S.Log()[logStart:] {
			if e.Kind == "enter" {
				n++
			}
		}
		return n
	}
	forced := false
	ctl.holdClose = func() {
		// every request dispatched so far that goes to the implementation
		want := 0
		for _, who := range ctl.dispatched()[evStart:] {
			if p := b.byWho(who); p != nil && p.impl {
				want++
			}
		}
		for start := time.Now(); entered() < want; {
			if time.Since(start) > 2*time.Second {
				forced = true
				return
			}
			time.Sleep(100 * time.Microsecond)
		}
	}
	ctl.conn.Store(conn)

	// ---- the measured stream (writes fail once the server has hung up)
	_ = end.WriteChunks(b.stream, cuts)
	hungup := false
	start := time.Now()
	idle, lastEv := 0, int64(-1)
	for !hungup {
		f, err := cl.RecvRaw(pollEvery)
		if err == nil {
			if err := r.accountNego(f); err != nil {
				return nil, err
			}
			continue
		}
		if err != rawc.ErrTimeout {
			hungup = true
			break
		}
		ev := ctl.points.Load()
		if ev == lastEv && end.Unread() == 0 {
			idle++
		} else {
			idle = 0
		}
		lastEv = ev
		if idle >= idlePolls {
			if go9pQuiescent("go9p.(*Conn).recv") {
				break // took every byte, nothing runnable inside the library, still connected
			}
			idle = 0
		}
		if time.Since(start) > hangAfter {
			return nil, hangErr("stream with a frame that ends the session: the server neither hung up nor went idle")
		}
	}
	if hungup {
		for start := time.Now(); !ctl.closed.Load(); {
			if time.Since(start) > hangAfter {
				return nil, hangErr("the connection's close did not finish")
			}
			time.Sleep(200 * time.Microsecond)
		}
	}

	// ---- observations
	o := &obs{replies: r.replies, enter: map[uint16]*ref9p.Msg{}, answer: map[uint16]*ref9p.Msg{}, lossy: true, forced: forced, hungup: hungup}
	for _, e := range sv.S.Log()[logStart:] {
		if e.Kind == "enter" {
			if _, dup := o.enter[e.Tag]; dup {
				return nil, fmt.Errorf("the implementation was invoked twice for tag %d (%s)", e.Tag, e.Key)
			}
			o.enter[e.Tag] = e.Msg
		}
	}
	o.dispatch = ctl.dispatched()[evStart:]

	// ---- against the prediction from the bytes
	for tag, m := range o.enter {
		p := b.byTag[tag]
		switch {
		case p == nil:
			return nil, fmt.Errorf("the implementation was invoked for tag %d (%s), which no request of the stream carries", tag, whoOf(m))
		case p.dead:
			return nil, fmt.Errorf("frame %d (%s, tag %d, %d bytes) reached the implementation (as %s) although %s", p.idx, p.who, tag, b.frameLen(p.idx), describe(m), b.deadWhy)
		case !p.impl:
			return nil, fmt.Errorf("frame %d (%s) reached the implementation", p.idx, p.who)
		}
		if d := ref9p.Diff(p.req, m); d != "" {
			return nil, fmt.Errorf("frame %d (%s, tag %d): the implementation was handed a request that differs from the stream: %s", p.idx, p.who, tag, d)
		}
	}
	live := 0
	for _, p := range b.preds {
		if p.dead {
			break
		}
		live++
	}
	for i, who := range o.dispatch {
		if i >= live {
			return nil, fmt.Errorf("request %s was dispatched (as number %d since the start of the stream) although %s", who, i, b.deadWhy)
		}
		if who != b.preds[i].who {
			return nil, fmt.Errorf("request %d in dispatch order is %s, frame %d of the stream is %s (dispatched since the start of the stream: %v; before: %v)", i, who, i, b.preds[i].who, o.dispatch, ctl.dispatched()[:evStart])
		}
	}
	if !hungup {
		return nil, fmt.Errorf("the server took the whole stream and did not hang up although %s", b.deadWhy)
	}
	if len(o.dispatch) != live {
		return nil, fmt.Errorf("%d requests dispatched before the hang-up, %d frames precede the frame that ends the session (%s)", len(o.dispatch), live, b.deadWhy)
	}
	if !forced {
		for _, p := range b.preds[:live] {
			if p.impl && o.enter[p.tag] == nil {
				return nil, fmt.Errorf("frame %d (%s, tag %d) precedes the frame that ends the session but never reached the implementation (%s)", p.idx, p.who, p.tag, b.deadWhy)
			}
		}
	} else {
		hx.Label(c.Side + " close delay timed out (subset oracle)")
	}
	return o, nil
}

func (b *built) byWho(who string) *pred {
	for _, p := range b.preds {
		if p.who == who {
			return p
		}
	}
	return nil
}

func (b *built) frameLen(i int) int {
	if i == 0 {
		return b.bounds[0]
	}
	return b.bounds[i] - b.bounds[i-1]
}

// accountNego checks one reply of the negotiation class: never for a frame at
// or behind the oversize frame, never twice, never different from the prediction.
func (r *srvRun) accountNego(f []byte) error {
	m, _, err := ref9p.Decode(f, r.c.Dotu)
	if err != nil {
		return fmt.Errorf("the server sent a frame that does not decode strictly: %v: %x", err, clip(f))
	}
	p, ok := r.b.byTag[m.Tag]
	if !ok {
		return fmt.Errorf("reply %s for tag %d, which no request of the stream carries", ref9p.TypeName(m.Type), m.Tag)
	}
	if p.dead {
		return fmt.Errorf("reply %s (%x) to frame %d (%s, tag %d, %d bytes) although %s", ref9p.TypeName(m.Type), clip(f), p.idx, p.who, m.Tag, r.b.frameLen(p.idx), r.b.deadWhy)
	}
	if _, dup := r.replies[m.Tag]; dup {
		return fmt.Errorf("second reply (%s) for tag %d (frame %d, %s)", ref9p.TypeName(m.Type), m.Tag, p.idx, p.who)
	}
	if !bytes.Equal(f, p.reply) {
		return fmt.Errorf("reply to frame %d (%s, tag %d) differs from the reply predicted from the stream:\n got  %x\n want %x", p.idx, p.who, p.tag, clip(f), clip(p.reply))
	}
	r.replies[m.Tag] = f
	return nil
}

// ---------------------------------------------------------------------------
// generation

var negoSrv = []uint32{1024, 4096, 8192}
var negoNew = []uint32{64, 100, 128, 256}
var overKinds = []string{"attach", "create", "write"}

func negoSmall(msize uint32, dotu bool) []string {
	k := []string{"clunk", "remove", "open", "walk", "read", "flush", "write", "clunk"}
	if statFits(msize, dotu) {
		k = append(k, "stat")
	}
	return k
}

func genNego(t *rapid.T) *Case {
	c := &Case{Side: "nego", Nego: &Nego{}}
	g := c.Nego
	g.SrvMsize = rapid.SampledFrom(negoSrv).Draw(t, "srvmsize")
	c.Msize = rapid.SampledFrom(negoNew).Draw(t, "msize")
	c.Dotu = rapid.Bool().Draw(t, "dotu")
	c.Seed = rapid.Uint64().Draw(t, "seed")
	c.TagBase = rapid.Uint16Range(0, 60000).Draw(t, "tagbase")
	small := negoSmall(c.Msize, c.Dotu)
	frame := func() Frame {
		switch k := rapid.SampledFrom(small).Draw(t, "kind"); k {
		case "write":
			return Frame{Kind: "write", N: rapid.IntRange(0, int(c.Msize)-24).Draw(t, "n")}
		case "read":
			return Frame{Kind: "read", N: rapid.SampledFrom([]int{0, 1, 9, int(c.Msize) - 24}).Draw(t, "n")}
		default:
			return Frame{Kind: k}
		}
	}
	for i, n := 0, rapid.IntRange(0, 12).Draw(t, "before"); i < n; i++ {
		c.Frames = append(c.Frames, frame())
	}
	g.OverKind = rapid.SampledFrom(overKinds).Draw(t, "overkind")
	switch rapid.IntRange(0, 3).Draw(t, "oversize") {
	case 0:
		g.OverSize = int(c.Msize) + 1
	case 1:
		g.OverSize = int(g.SrvMsize)
	default:
		g.OverSize = int(c.Msize) + rapid.IntRange(1, 300).Draw(t, "excess")
	}
	for i, n := 0, rapid.IntRange(1, 6).Draw(t, "after"); i < n; i++ {
		g.After = append(g.After, frame())
	}
	pk := rapid.SampledFrom(planKinds).Draw(t, "plan")
	c.Plan = drawPlan(t, pk, c)
	return c
}

// enumNegoCase is the k-th negotiation stream of the single-split enumeration.
func enumNegoCase(k int) *Case {
	c := &Case{Side: "nego", Nego: &Nego{}, Seed: hx.Mix(hx.Seed, 0xC13E, uint64(k)), Dotu: k%2 == 1}
	g := c.Nego
	x := c.Seed
	g.SrvMsize = negoSrv[k%3]
	c.Msize = negoNew[(k/2)%4]
	c.TagBase = uint16(hx.Mix(x, 1) % 60000)
	small := negoSmall(c.Msize, c.Dotu)
	frame := func(i int) Frame {
		x = hx.Mix(x, uint64(i))
		switch s := small[x%uint64(len(small))]; s {
		case "write":
			return Frame{Kind: "write", N: int((x >> 8) % 40)}
		case "read":
			return Frame{Kind: "read", N: int((x >> 8) % 10)}
		default:
			return Frame{Kind: s}
		}
	}
	for i, n := 0, int(hx.Mix(x, 2)%9); i < n; i++ {
		c.Frames = append(c.Frames, frame(i))
	}
	g.OverKind = overKinds[k%3]
	g.OverSize = int(c.Msize) + 1 + int(hx.Mix(x, 3)%200)
	for i, n := 0, 1+int(hx.Mix(x, 4)%4); i < n; i++ {
		g.After = append(g.After, frame(100+i))
	}
	return c
}
