package c13

// Class malf (server side, Side "malf"): the measured stream consists of
// requests that are valid, then ONE malformed frame, then further valid
// requests. Malformed means here, and only: a field of the frame reaches beyond
// the frame's own end (the end its size prefix announces) --
//
//	trunc:   a well-formed request of which only the first t bytes are sent as a
//	         frame of size t (7 <= t < its real size): the length fields inside
//	         (stat[n], the stat's size, string lengths, nwname, a Twrite's count)
//	         are consistent with each other and announce more bytes than the
//	         frame holds, or a fixed field is cut;
//	inflate: a well-formed request in which one length field (a string length, the
//	         stat's size, nwname, a Twrite's count) is raised so that it reaches
//	         1.. bytes beyond the frame's end while the frame keeps its size.
//
// The bytes such a field would cover beyond the frame are the first bytes of the
// NEXT request, if they have arrived, and whatever the receive buffer holds
// otherwise. The property demands that what the server does with the stream is
// a function of the stream: so the malformed frame must never be given a meaning
// that takes bytes from outside the frame. go9p's own rule for a frame it cannot
// decode is to drop the connection; the class demands exactly that, at that
// frame, under every segmentation: the requests in front of the frame are
// dispatched in order, handed to the implementation with the stream's arguments
// and (if answered at all before the hang-up) answered as predicted; the frame
// itself and everything behind it is neither dispatched nor executed nor
// answered; and all of this equals the reference delivery (one chunk per frame).
// The executor and the soundness provisions are those of the class nego
// (runDrop in nego_test.go).
//
// Not generated, because go9p accepts them whatever follows (they are not in
// the class "reaches beyond the frame"): a 9P2000.u Tattach/Tauth that ends
// right in front of n_uname, and a Twstat whose outer stat[n] count alone is
// wrong (go9p ignores that count).

import (
	"encoding/binary"
	"encoding/json"
	"fmt"
	"sort"
	"strconv"
	"testing"

	"pgregory.net/rapid"
	"verif/internal/hx"
	"verif/internal/ref9p"
	"verif/internal/script"
)

type Malf struct {
	Base  string  `json:"base"`         // wstat walk create attach auth write version clunk remove stat open read flush
	N     int     `json:"n,omitempty"`  // size knob of the base request (name / aname / payload length)
	Mut   string  `json:"mut"`          // trunc | inflate
	At    int     `json:"at"`           // trunc: size of the frame that is sent; inflate: ordinal of the raised length field
	By    int     `json:"by,omitempty"` // inflate: how far the field reaches beyond the frame's end (nwname: additional names)
	After []Frame `json:"after"`
}

var malfBases = []string{"wstat", "write", "walk", "create", "attach", "auth", "version", "clunk", "remove", "stat", "open", "read", "flush"}

// wstatOf is the stat record of a generated Twstat.
func wstatOf(seed uint64, n int, dotu bool) ref9p.Stat {
	st := ref9p.Stat{Type: uint16(seed >> 5), Dev: uint32(seed >> 9), Qid: ref9p.Qid{Type: 0, Vers: uint32(seed >> 13), Path: seed},
		Mode: 0o644, Atime: uint32(seed >> 17), Mtime: uint32(seed >> 21), Length: seed >> 3,
		Name: letters(hx.Mix(seed, 1), max(0, n)), Uid: "u", Gid: "gg", Muid: "m",
		Ext: "e", Nuid: uint32(seed>>2) | 1, Ngid: uint32(seed>>4) | 1, Nmuid: uint32(seed>>6) | 1}
	return ref9p.CanonStat(&st, dotu)
}

func describe(m *ref9p.Msg) string {
	if m == nil {
		return "nothing"
	}
	return strconv.QuoteToASCII(whoOf(m))
}

// malfBase is the well-formed request the malformed frame is made from.
func (b *built) malfBase(c *Case, i int) (*ref9p.Msg, error) {
	g := c.Malf
	if g.N < 0 || g.N > 8192 {
		return nil, fmt.Errorf("harness: malformed-frame knob %d", g.N)
	}
	fid := uint32(firstFid + 2*i)
	fname, dname := fmt.Sprintf("f%d", fid), fmt.Sprintf("d%d", fid)
	seed := hx.Mix(c.Seed, 0x3a1f, uint64(i))
	var m *ref9p.Msg
	switch g.Base {
	case "wstat":
		b.walk(fid, fname)
		m = &ref9p.Msg{Type: ref9p.Twstat, Fid: fid, Stat: wstatOf(seed, g.N, c.Dotu)}
	case "walk":
		b.walk(fid, fname)
		var names []string
		for j, k := 0, 1+int(seed%4); j < k; j++ {
			names = append(names, letters(hx.Mix(seed, uint64(j)), g.N))
		}
		m = &ref9p.Msg{Type: ref9p.Twalk, Fid: fid, Newfid: fid + 1, Wname: names}
	case "create":
		b.walk(fid, dname)
		m = &ref9p.Msg{Type: ref9p.Tcreate, Fid: fid, Name: letters(seed, g.N), Perm: 0o644, Mode: uint8(i % 3), Ext: "e"}
	case "attach":
		m = &ref9p.Msg{Type: ref9p.Tattach, Fid: fid, Afid: ref9p.NOFID, Uname: negoUname, Aname: letters(seed, g.N), Nuname: 1001}
	case "auth":
		m = &ref9p.Msg{Type: ref9p.Tauth, Afid: fid, Uname: negoUname, Aname: letters(seed, g.N), Nuname: 1001}
	case "write":
		b.walk(fid, fname)
		b.open(fid, 1)
		m = &ref9p.Msg{Type: ref9p.Twrite, Fid: fid, Offset: uint64(i)<<20 | 5, Data: prf(c.Seed, "mw", i, g.N)}
	case "version":
		ver := "9P2000"
		if c.Dotu {
			ver = "9P2000.u"
		}
		m = &ref9p.Msg{Type: ref9p.Tversion, Msize: c.Msize, Version: ver}
	case "clunk":
		b.walk(fid, fname)
		m = &ref9p.Msg{Type: ref9p.Tclunk, Fid: fid}
	case "remove":
		b.walk(fid, fname)
		m = &ref9p.Msg{Type: ref9p.Tremove, Fid: fid}
	case "stat":
		b.walk(fid, fname)
		m = &ref9p.Msg{Type: ref9p.Tstat, Fid: fid}
	case "open":
		b.walk(fid, fname)
		m = &ref9p.Msg{Type: ref9p.Topen, Fid: fid, Mode: uint8(i % 3)}
	case "read":
		b.walk(fid, fname)
		b.open(fid, 0)
		m = &ref9p.Msg{Type: ref9p.Tread, Fid: fid, Offset: uint64(i)<<20 | 7, Count: uint32(g.N)}
	case "flush":
		m = &ref9p.Msg{Type: ref9p.Tflush, Oldtag: flushOld}
	default:
		return nil, fmt.Errorf("harness: unknown base %q of the malformed frame", g.Base)
	}
	m.Tag = c.TagBase + uint16(i)
	return m, nil
}

// lenField is a length field of a well-formed frame that can be raised.
type lenField struct {
	name string
	off  int
	size int // 2 or 4
	val  int
	over int // value at which the field's extent ends exactly at the frame's end
	unit string
}

// raisable lists the length fields of a well-formed frame whose value alone
// decides how far the decoder has to read: string lengths, the stat's own size,
// nwname / nwqid, the count of a Twrite / Rread. (Not the outer stat[n] of a
// Twstat / Rstat: go9p ignores it.)
func raisable(frame []byte, dotu bool) []lenField {
	fm, err := ref9p.FieldMap(frame, dotu)
	if err != nil {
		return nil
	}
	var out []lenField
	for _, f := range fm {
		switch {
		case f.Kind == "strlen" || f.Kind == "statsize":
			v := int(binary.LittleEndian.Uint16(frame[f.Off:]))
			out = append(out, lenField{f.Name, f.Off, 2, v, len(frame) - (f.Off + 2), "bytes"})
		case f.Kind == "nw":
			v := int(binary.LittleEndian.Uint16(frame[f.Off:]))
			out = append(out, lenField{f.Name, f.Off, 2, v, v, "entries"})
		case f.Kind == "count" && (frame[4] == ref9p.Twrite || frame[4] == ref9p.Rread):
			v := int(binary.LittleEndian.Uint32(frame[f.Off:]))
			out = append(out, lenField{f.Name, f.Off, 4, v, len(frame) - (f.Off + 4), "bytes"})
		}
	}
	return out
}

// toleratedCut: go9p accepts a 9P2000.u Tattach / Tauth without n_uname.
func toleratedCut(frame []byte, dotu bool, t int) bool {
	return dotu && (frame[4] == ref9p.Tattach || frame[4] == ref9p.Tauth) && t == len(frame)-4
}

// mutate makes the malformed frame from the well-formed one.
func mutate(mut string, at, by int, frame []byte, dotu bool) ([]byte, string, error) {
	switch mut {
	case "trunc":
		t := at
		if t < 7 || t >= len(frame) || toleratedCut(frame, dotu, t) {
			return nil, "", fmt.Errorf("harness: cannot cut a %s of %d bytes to %d", ref9p.TypeName(frame[4]), len(frame), t)
		}
		out := append([]byte(nil), frame[:t]...)
		binary.LittleEndian.PutUint32(out, uint32(t))
		what := fmt.Sprintf("it holds the first %d bytes of a well-formed %s of %d bytes", t, ref9p.TypeName(frame[4]), len(frame))
		if fm, err := ref9p.FieldMap(frame, dotu); err == nil {
			for _, f := range fm {
				if f.Off+f.Len > t {
					what += fmt.Sprintf(", so its field %s (offset %d, %d bytes) reaches %d bytes beyond the frame's end", f.Name, f.Off, f.Len, f.Off+f.Len-t)
					break
				}
			}
		}
		return out, what, nil
	case "inflate":
		fs := raisable(frame, dotu)
		if at < 0 || at >= len(fs) || by < 1 {
			return nil, "", fmt.Errorf("harness: %s has %d raisable length fields, case asks for field %d by %d", ref9p.TypeName(frame[4]), len(fs), at, by)
		}
		f := fs[at]
		v := f.over + by
		if f.size == 2 && v > 0xFFFF {
			return nil, "", fmt.Errorf("harness: length %d does not fit the field %s", v, f.name)
		}
		out := append([]byte(nil), frame...)
		if f.size == 2 {
			binary.LittleEndian.PutUint16(out[f.off:], uint16(v))
		} else {
			binary.LittleEndian.PutUint32(out[f.off:], uint32(v))
		}
		return out, fmt.Sprintf("its length field %s (offset %d) says %d instead of %d, which reaches %d %s beyond the frame's end", f.name, f.off, v, f.val, by, f.unit), nil
	}
	return nil, "", fmt.Errorf("harness: unknown mutation %q", mut)
}

func buildMalf(c *Case) (*built, error) {
	g := c.Malf
	if g == nil || c.Msize < 64 || len(c.Frames) > 400 || len(g.After) == 0 || len(g.After) > 100 ||
		int(c.TagBase)+len(c.Frames)+len(g.After)+1 >= fenceTag {
		return nil, fmt.Errorf("harness: bad case of the class malf")
	}
	b := &built{byTag: map[uint16]*pred{}}
	var encs [][]byte
	for i, f := range c.Frames {
		m, err := b.mkFrame(c, i, f)
		if err != nil {
			return nil, err
		}
		encs = append(encs, ref9p.Encode(m, c.Dotu))
	}
	mi := len(c.Frames)
	base, err := b.malfBase(c, mi)
	if err != nil {
		return nil, err
	}
	bad, what, err := mutate(g.Mut, g.At, g.By, ref9p.Encode(base, c.Dotu), c.Dotu)
	if err != nil {
		return nil, err
	}
	if len(bad) > int(c.Msize) {
		return nil, fmt.Errorf("harness: the malformed frame has %d bytes, msize %d", len(bad), c.Msize)
	}
	encs = append(encs, bad)
	for j, f := range g.After {
		m, err := b.mkFrame(c, mi+1+j, f)
		if err != nil {
			return nil, err
		}
		encs = append(encs, ref9p.Encode(m, c.Dotu))
	}
	for _, e := range encs {
		b.stream = append(b.stream, e...)
		b.bounds = append(b.bounds, len(b.stream))
	}
	// prediction from the bytes: the first frame that does not decode strictly
	// ends the session
	frames, rest, err := ref9p.SplitFrames(b.stream)
	if err != nil || len(rest) != 0 || len(frames) != len(encs) {
		return nil, fmt.Errorf("harness: the generated stream does not split into its frames")
	}
	dead := false
	for i, f := range frames {
		if len(f) != len(encs[i]) || len(f) > int(c.Msize) {
			return nil, fmt.Errorf("harness: frame %d has %d bytes (built: %d), msize %d", i, len(f), len(encs[i]), c.Msize)
		}
		m, _, derr := ref9p.Decode(f, c.Dotu)
		if (derr != nil) != (i == mi) {
			return nil, fmt.Errorf("harness: frame %d: strict decoding says %v, the malformed frame is frame %d", i, derr, mi)
		}
		if derr != nil {
			dead = true
			p := &pred{idx: i, tag: binary.LittleEndian.Uint16(f[5:]), who: "malformed " + ref9p.TypeName(f[4]), dead: true}
			if _, dup := b.byTag[p.tag]; dup {
				return nil, fmt.Errorf("harness: tag %d used twice", p.tag)
			}
			b.byTag[p.tag] = p
			b.preds = append(b.preds, p)
			b.deadWhy = fmt.Sprintf("frame %d (%s, tag %d, %d bytes) is malformed: %s (strict decoding: %v)", i, ref9p.TypeName(f[4]), p.tag, len(f), what, derr)
			continue
		}
		if m.Type == ref9p.Tversion {
			return nil, fmt.Errorf("harness: Tversion at frame %d", i)
		}
		p := &pred{idx: i, tag: m.Tag, req: ref9p.Canon(m, c.Dotu), dead: dead}
		p.who = whoOf(p.req)
		p.impl = !dead && m.Type != ref9p.Tflush
		if !dead {
			a := &ref9p.Msg{Type: ref9p.Rflush}
			if m.Type != ref9p.Tflush {
				a = script.ExpectedAnswer(p.req, script.Behav{}, 0)
			}
			am := *a
			am.Tag = m.Tag
			p.reply = ref9p.Encode(&am, c.Dotu)
			if len(p.reply) > int(c.Msize) {
				return nil, fmt.Errorf("harness: predicted reply to frame %d has %d bytes, msize %d", i, len(p.reply), c.Msize)
			}
		}
		if _, dup := b.byTag[p.tag]; dup {
			return nil, fmt.Errorf("harness: tag %d used twice", p.tag)
		}
		b.byTag[p.tag] = p
		b.preds = append(b.preds, p)
	}
	return b, nil
}

// behindInSameChunk is the number of stream bytes behind the malformed frame
// that the plan delivers in the same chunk as the frame's last byte.
func behindInSameChunk(c *Case, cuts []int, n int, bounds []int) int {
	end := bounds[len(c.Frames)]
	next := n
	for _, x := range cuts {
		if x >= end && x < next {
			next = x
		}
	}
	return next - end
}

func recordMalf(test string, c *Case, cuts []int, n int, bounds []int, split bool) {
	g := c.Malf
	hx.Label(fmt.Sprintf("malf base=%s mut=%s", g.Base, g.Mut))
	behind := behindInSameChunk(c, cuts, n, bounds)
	switch {
	case behind == 0:
		hx.Label("malf: nothing behind the malformed frame in its chunk")
	case behind < 16:
		hx.Label("malf: 1-15 bytes behind the malformed frame in its chunk")
	default:
		hx.Label("malf: >=16 bytes behind the malformed frame in its chunk")
	}
	start := 0
	if len(c.Frames) > 0 {
		start = bounds[len(c.Frames)-1]
	}
	hx.Label("malf: bytes in front of the malformed frame / (8 x msize) = " + ratioBucket(start, int(8*c.Msize)))
	// non-trivial: bytes of the following request share the chunk with the end
	// of the malformed frame, or some frame is cut off a boundary
	if behind > 0 || split {
		cb, _ := json.Marshal(cuts)
		if len(cb) > 1<<16 {
			cb = []byte(fmt.Sprintf("%s/%d/%d", c.Plan.Kind, c.Plan.Step, len(cuts)))
		}
		sb, _ := json.Marshal(c)
		hx.NonTrivial("malf", sb, cb)
	}
	hx.Sample(test, sampleOf(c))
}

// ---------------------------------------------------------------------------
// generation

// malfKinds: what stands in front of and behind the malformed frame.
func malfKinds(c *Case) []string {
	k := smallKinds(c.Msize, c.Dotu)
	if len(ref9p.Encode(&ref9p.Msg{Type: ref9p.Twstat, Stat: wstatOf(1, 0, c.Dotu)}, c.Dotu)) <= int(c.Msize) {
		k = append(k, "wstat", "wstat")
	}
	return k
}

func wstatRoom(c *Case) int {
	return int(c.Msize) - len(ref9p.Encode(&ref9p.Msg{Type: ref9p.Twstat, Stat: wstatOf(1, 0, c.Dotu)}, c.Dotu))
}

func drawMalfFrame(t *rapid.T, c *Case, kinds []string) Frame {
	full := int(c.Msize) - 24
	switch rapid.IntRange(0, 9).Draw(t, "class") {
	case 0, 1:
		return Frame{Kind: "write", N: full - rapid.IntRange(0, 1).Draw(t, "short")}
	case 2:
		return Frame{Kind: "create", N: createFull(c.Msize, c.Dotu)}
	case 3:
		return Frame{Kind: "write", N: rapid.IntRange(0, full).Draw(t, "n")}
	}
	switch k := rapid.SampledFrom(kinds).Draw(t, "kind"); k {
	case "smallwrite":
		return Frame{Kind: "write", N: rapid.IntRange(0, 3).Draw(t, "n")}
	case "read":
		return Frame{Kind: "read", N: rapid.SampledFrom([]int{0, 1, 9, full}).Draw(t, "n")}
	case "wstat":
		return Frame{Kind: "wstat", N: rapid.IntRange(0, wstatRoom(c)).Draw(t, "n")}
	default:
		return Frame{Kind: k}
	}
}

// baseKnob draws the size knob of the base request.
func baseKnob(t *rapid.T, c *Case, base string) int {
	switch base {
	case "wstat":
		return rapid.IntRange(0, 60).Draw(t, "n")
	case "walk":
		return rapid.IntRange(0, 16).Draw(t, "n")
	case "create":
		return rapid.IntRange(1, min(60, createFull(c.Msize, c.Dotu))).Draw(t, "n")
	case "attach", "auth":
		return rapid.IntRange(0, 30).Draw(t, "n")
	case "write":
		return rapid.OneOf(rapid.IntRange(0, 40), rapid.IntRange(0, int(c.Msize)-24)).Draw(t, "n")
	case "read":
		return rapid.IntRange(0, int(c.Msize)-24).Draw(t, "n")
	}
	return 0
}

// drawMutation draws the mutation (Mut / At / By) of the well-formed frame enc.
func drawMutation(t *rapid.T, c *Case, enc []byte) (mut string, at, by int) {
	fs := raisable(enc, c.Dotu)
	if len(enc) <= int(c.Msize) && len(fs) > 0 && rapid.IntRange(0, 2).Draw(t, "inflate") == 0 {
		at = rapid.IntRange(0, len(fs)-1).Draw(t, "field")
		f := fs[at]
		room := 1 << 20
		if f.size == 2 {
			room = 0xFFFF - f.over
		}
		switch rapid.IntRange(0, 3).Draw(t, "by") {
		case 0:
			by = 1
		case 1:
			by = rapid.IntRange(1, min(room, 64)).Draw(t, "n")
		case 2:
			by = rapid.IntRange(1, min(room, int(8*c.Msize))).Draw(t, "n")
		default:
			by = room
		}
		return "inflate", at, by
	}
	tmax := min(len(enc)-1, int(c.Msize))
	if fm, err := ref9p.FieldMap(enc, c.Dotu); err == nil && rapid.Bool().Draw(t, "aimed") {
		// at, inside or shortly behind a drawn field
		f := fm[rapid.IntRange(0, len(fm)-1).Draw(t, "cutfield")]
		at = f.Off + rapid.IntRange(0, min(f.Len, 6)).Draw(t, "into")
	} else {
		at = rapid.IntRange(7, tmax).Draw(t, "cut")
	}
	at = max(7, min(at, tmax))
	if toleratedCut(enc, c.Dotu, at) {
		at--
	}
	return "trunc", at, 0
}

var malfPlans = []string{"one", "one", "near", "near", "single", "multi", "multi", "bytes", "every"}

// drawMalfPlan: besides the usual plans, "near" puts 1..3 cuts within 40 bytes
// of the malformed frame's end (in front of it, exactly at it, or behind it),
// so that the following request shares the chunk with the frame's last byte
// entirely, with a few bytes only, or not at all.
func drawMalfPlan(t *rapid.T, kind string, c *Case) Plan {
	n, bounds, err := layout(c)
	if err != nil || n < 2 {
		return Plan{Kind: "one"}
	}
	if kind == "near" {
		end := bounds[len(c.Frames)]
		seen := map[int]bool{}
		var cuts []int
		for i, k := 0, rapid.IntRange(1, 3).Draw(t, "ncuts"); i < k; i++ {
			x := end + rapid.IntRange(-40, 40).Draw(t, "d")
			if x >= 1 && x <= n-1 && !seen[x] {
				seen[x] = true
				cuts = append(cuts, x)
			}
		}
		if len(cuts) == 0 {
			return Plan{Kind: "one"}
		}
		sort.Ints(cuts)
		return Plan{Kind: "near", Cuts: cuts}
	}
	return drawPlan(t, kind, c)
}

func genMalf(t *rapid.T) *Case {
	c := &Case{Side: "malf", Malf: &Malf{}}
	g := c.Malf
	c.Msize = rapid.SampledFrom(msizes).Draw(t, "msize")
	c.Dotu = rapid.Bool().Draw(t, "dotu")
	c.Seed = rapid.Uint64().Draw(t, "seed")
	c.TagBase = rapid.Uint16Range(0, 60000).Draw(t, "tagbase")
	pk := rapid.SampledFrom(malfPlans).Draw(t, "plan")
	maxF := 60
	if pk == "bytes" || pk == "every" {
		maxF = max(4, min(maxF, (32<<10)/int(c.Msize)))
	}
	kinds := malfKinds(c)
	for i, n := 0, rapid.IntRange(0, maxF).Draw(t, "before"); i < n; i++ {
		c.Frames = append(c.Frames, drawMalfFrame(t, c, kinds))
	}
	if rapid.IntRange(0, 2).Draw(t, "nested") == 0 {
		g.Base = "wstat" // the one request with length fields inside a length field
	} else {
		g.Base = rapid.SampledFrom(malfBases).Draw(t, "base")
	}
	g.N = baseKnob(t, c, g.Base)
	for i, n := 0, rapid.IntRange(1, 6).Draw(t, "after"); i < n; i++ {
		g.After = append(g.After, drawMalfFrame(t, c, kinds))
	}
	sb := &built{}
	base, err := sb.malfBase(c, len(c.Frames))
	if err != nil {
		t.Fatalf("harness: %v", err)
	}
	g.Mut, g.At, g.By = drawMutation(t, c, ref9p.Encode(base, c.Dotu))
	c.Plan = drawMalfPlan(t, pk, c)
	return c
}

func TestPropMalf(t *testing.T) {
	hx.Check(t, "malf", hx.N(70, 1200), func(t *rapid.T) {
		c := genMalf(t)
		if err := execute("malf", c); err != nil {
			hx.Failf(t, "malf", c, "%v", err)
		}
	})
}

// enumMalfCase is the k-th stream of the single-split enumeration of the class
// malf: msize 64 / 100 / 256, a few requests in front (sometimes more than one
// receive buffer), the malformed frame, 1..3 requests behind it; at most ~700
// bytes. The bases rotate with k (every fourth stream is a cut Twstat).
func enumMalfCase(k int) *Case {
	c := &Case{Side: "malf", Malf: &Malf{}, Msize: []uint32{100, 64, 256}[k%3], Dotu: (k/2)%2 == 1, Seed: hx.Mix(hx.Seed, 0xC141, uint64(k))}
	g := c.Malf
	x := c.Seed
	c.TagBase = uint16(hx.Mix(x, 1) % 60000)
	kinds := malfKinds(c)
	frame := func(i int) Frame {
		x = hx.Mix(x, uint64(i))
		switch s := kinds[x%uint64(len(kinds))]; s {
		case "smallwrite":
			return Frame{Kind: "write", N: int((x >> 8) % 40)}
		case "read":
			return Frame{Kind: "read", N: int((x >> 8) % 10)}
		case "wstat":
			return Frame{Kind: "wstat", N: int((x >> 8) % uint64(wstatRoom(c)+1))}
		default:
			return Frame{Kind: s}
		}
	}
	nb := int(hx.Mix(x, 2) % 8)
	if k%5 == 4 {
		nb += 20 // the malformed frame lies behind the first exhaustion of a small buffer
	}
	for i := 0; i < nb; i++ {
		c.Frames = append(c.Frames, frame(i))
	}
	if k%4 == 0 {
		g.Base = "wstat"
	} else {
		g.Base = malfBases[hx.Mix(x, 3)%uint64(len(malfBases))]
	}
	switch g.Base {
	case "wstat", "attach", "auth", "write":
		g.N = int(hx.Mix(x, 4) % 24)
	case "walk":
		g.N = int(hx.Mix(x, 4) % 9)
	case "create":
		g.N = 1 + int(hx.Mix(x, 4)%20)
	case "read":
		g.N = 9
	}
	for i, n := 0, 1+int(hx.Mix(x, 5)%3); i < n; i++ {
		g.After = append(g.After, frame(100+i))
	}
	sb := &built{}
	base, err := sb.malfBase(c, len(c.Frames))
	if err != nil {
		return c
	}
	enc := ref9p.Encode(base, c.Dotu)
	fs := raisable(enc, c.Dotu)
	if k%4 == 3 && len(fs) > 0 && len(enc) <= int(c.Msize) {
		g.Mut = "inflate"
		g.At = int(hx.Mix(x, 6) % uint64(len(fs)))
		g.By = 1 + int(hx.Mix(x, 7)%40)
		return c
	}
	g.Mut = "trunc"
	tmax := min(len(enc)-1, int(c.Msize))
	g.At = 7 + int(hx.Mix(x, 8)%uint64(tmax-6))
	if toleratedCut(enc, c.Dotu, g.At) {
		g.At--
	}
	return c
}

func TestEnumMalfSplits(t *testing.T) {
	ns := 8
	if hx.Thorough() {
		ns = 8 * hx.NShards
	}
	enumerate(t, "malf-single-split", ns, enumMalfCase)
	hx.Exhaustive(fmt.Sprintf("server: every single split point of %d request streams that contain one frame with a field reaching beyond the frame's end, followed by 1..3 valid requests", ns))
}
