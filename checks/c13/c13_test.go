// C13 — behaviour depends on the byte stream, not on how it is segmented.
//
// Server side (srv_test.go): one generated request stream is delivered to a
// fresh server+connection under a segmentation plan; the per-tag reply bytes,
// the per-tag invocation of the scripted implementation (arguments and payload,
// the payload of every Twrite re-read after the whole stream has arrived) and
// the order of the recv.dispatch events must equal what ref9p predicts from the
// stream and what the one-chunk-per-frame reference delivery produced.
//
// Client side (clnt_test.go): the scripted peer's reply stream for a fixed set
// of concurrent calls is delivered under the same kinds of plans; every call
// result must be the function of its own request and equal the reference run's.
//
// Further server-side classes: nego (nego_test.go), lower and pend
// (lower_test.go), malf (malf_test.go: one malformed frame -- a field reaching
// beyond the frame's end -- inside the stream, valid requests behind it);
// client side: cmalf (cmalf_test.go: one such reply inside the reply stream).
package c13

import (
	"encoding/json"
	"fmt"
	"os"
	"runtime"
	"sort"
	"strings"
	"testing"
	"time"

	"pgregory.net/rapid"
	"verif/internal/hx"
)

func TestMain(m *testing.M) { hx.Main(m, "C13") }

// client reports whether the case exercises the client's receive loop.
func (c *Case) client() bool { return c.Side == "client" || c.Side == "cmalf" }

// Frame is one request of the server-side stream.
type Frame struct {
	Kind string `json:"k"`           // clunk stat open walk read remove flush write create
	N    int    `json:"n,omitempty"` // write: payload bytes; create: name bytes; read: count
}

// Call is one client call of a round; all calls of a round are outstanding together.
type Call struct {
	Kind string `json:"k"`              // read write stat remove open
	N    int    `json:"n,omitempty"`    // read/write: byte count; stat: name length; Err: text length
	Err  bool   `json:"err,omitempty"`  // the peer answers Rerror
	Fill bool   `json:"fill,omitempty"` // stat / Err: the reply frame is exactly msize bytes long
}

// Plan says how the stream is cut into transport reads.
type Plan struct {
	Kind string `json:"kind"`           // frame (reference), one, bytes, every, cuts
	Step int    `json:"step,omitempty"` // every: chunk length
	Cuts []int  `json:"cuts,omitempty"` // cuts: cumulative offsets
}

type Case struct {
	// server | client | nego (server side, negotiation inside the measured stream, one frame above the new msize)
	// | malf (server side, one malformed frame inside the stream) | cmalf (client side, one malformed reply)
	// | lower (server side, SrvMsize set: the measured stream starts with a Tversion that lowers the msize
	// from SrvMsize to Msize, every following frame fits) | pend (server side, Maxpend set)
	Side  string `json:"side"`
	Msize uint32 `json:"msize"`
	// server side, classes lower and pend (the executor looks at the fields, Side only names the class)
	SrvMsize uint32 `json:"srvmsize,omitempty"` // the server's own msize; the stream starts with Tversion(Msize)
	Maxpend  int    `json:"maxpend,omitempty"`  // Srv.Maxpend; nothing is held inside the implementation
	Dotu    bool     `json:"dotu"`
	Seed    uint64   `json:"seed"`
	TagBase uint16   `json:"tagbase,omitempty"`
	Frames  []Frame  `json:"frames,omitempty"`
	Rounds  [][]Call `json:"rounds,omitempty"`
	Nego    *Nego    `json:"nego,omitempty"`
	Malf    *Malf    `json:"malf,omitempty"`  // Side malf: the frame behind Frames is malformed (a field reaches beyond the frame's end)
	CMalf   *CMalf   `json:"cmalf,omitempty"` // Side cmalf: one reply of the last round is malformed in the same sense
	Plan    Plan     `json:"plan"`
}

var msizes = []uint32{64, 100, 256, 1024, 4096}

const (
	hangAfter = 45 * time.Second
	pollEvery = 10 * time.Millisecond
	idlePolls = 80 // consecutive polls without any activity while the transport is drained, after which quiescence is examined
)

// go9pState decides, from a goroutine dump, whether the library can still do
// anything on its own. "parked": every goroutine with a go9p frame is blocked
// (channel, select, mutex, cond) and the receive loop named by recvFn is parked
// in the harness transport's Read; together with a drained transport and a
// harness that is only waiting, this state cannot change any more, so "the
// missing reply will never come" is a fact, not a timeout. "gone": every
// goroutine with a go9p frame is blocked and no goroutine runs the receive
// loop any more (it has returned, with or without closing the transport):
// whatever is still unread will never be read. "": something is runnable
// (a goroutine of the library, or the harness's reader of the reply stream).
func go9pState(recvFn string) string {
	buf := make([]byte, 1<<23)
	n := runtime.Stack(buf, true)
	if n == len(buf) {
		return ""
	}
	parked := false
	for _, blk := range strings.Split(string(buf[:n]), "\n\n") {
		if strings.Contains(blk, "\nverif/internal/rawc.(*C).reader(") {
			// the harness's own reader of the server's replies must have nothing
			// left to do either: parked in the (then empty) transport. A reader
			// that is runnable or running (possibly stalled by the machine) may
			// still deliver replies the server has written long ago.
			head, _, _ := strings.Cut(blk, "\n")
			if !strings.Contains(head, "[sync.Cond.Wait") || !strings.Contains(blk, "xport.(*half).read") {
				if os.Getenv("C13_DEBUG") != "" {
					fmt.Fprintf(os.Stderr, "harness reader not parked:\n%s\n", blk)
				}
				return ""
			}
			continue
		}
		// the harness's own goroutines of a client run (the callers, which come
		// back from go9p and record their result, and the one that waits for all
		// of them) count too: a caller that has returned but was not yet given
		// the CPU to say so is not "a call that never returns"
		if !strings.Contains(blk, "github.com/rminnich/go9p.") && !strings.Contains(blk, "checks/c13.runClient.func") {
			continue
		}
		head, _, _ := strings.Cut(blk, "\n")
		blocked := false
		for _, w := range []string{"[chan receive", "[chan send", "[select", "[sync.Cond.Wait", "[semacquire", "[sync.Mutex.Lock", "[sync.RWMutex", "[sync.WaitGroup.Wait"} {
			if strings.Contains(head, w) {
				blocked = true
			}
		}
		if !blocked {
			if os.Getenv("C13_DEBUG") != "" {
				fmt.Fprintf(os.Stderr, "not quiescent:\n%s\n", blk)
			}
			return ""
		}
		if strings.Contains(blk, "\ngithub.com/rminnich/"+recvFn+"(") { // a frame, not a "created by" line
			if !strings.Contains(head, "[sync.Cond.Wait") || !strings.Contains(blk, "xport.(*half).read") {
				if os.Getenv("C13_DEBUG") != "" {
					fmt.Fprintf(os.Stderr, "receive loop not parked in the transport:\n%s\n", blk)
				}
				return ""
			}
			parked = true
		}
	}
	if !parked {
		if os.Getenv("C13_DEBUG") != "" {
			fmt.Fprintf(os.Stderr, "no receive loop found in %d bytes of stacks\n", n)
		}
		return "gone"
	}
	return "parked"
}

func go9pQuiescent(recvFn string) bool { return go9pState(recvFn) == "parked" }

type hangErr string

func (h hangErr) Error() string { return string(h) }

// cutsOf turns a plan into cumulative cut offsets for a stream with the given
// frame boundaries (bounds[i] = end of frame i).
func cutsOf(p Plan, n int, bounds []int) []int {
	switch p.Kind {
	case "frame":
		return bounds
	case "one":
		return nil
	case "bytes":
		c := make([]int, 0, n)
		for i := 1; i < n; i++ {
			c = append(c, i)
		}
		return c
	case "every":
		s := p.Step
		if s < 1 {
			s = 1
		}
		var c []int
		for i := s; i < n; i += s {
			c = append(c, i)
		}
		return c
	}
	c := append([]int(nil), p.Cuts...)
	sort.Ints(c)
	return c
}

// splitsAFrame reports whether some cut falls strictly inside a frame.
func splitsAFrame(cuts []int, n int, bounds []int) bool {
	isB := map[int]bool{0: true}
	for _, b := range bounds {
		isB[b] = true
	}
	for _, c := range cuts {
		if c > 0 && c < n && !isB[c] {
			return true
		}
	}
	return false
}

func letters(seed uint64, n int) string {
	b := make([]byte, n)
	x := hx.Mix(seed, 0x6c)
	for i := range b {
		x = hx.Mix(x, uint64(i))
		b[i] = 'a' + byte(x%26)
	}
	return string(b)
}

func prf(seed uint64, what string, id int, n int) []byte {
	b := make([]byte, n)
	x := hx.Mix(seed, hx.Hash(what), uint64(id)) | 1
	for i := range b {
		x ^= x << 13
		x ^= x >> 7
		x ^= x << 17
		b[i] = byte(x >> 24)
	}
	return b
}

func clip(b []byte) []byte {
	if len(b) > 96 {
		return b[:96]
	}
	return b
}

// layout returns stream length and frame boundaries of a case.
func layout(c *Case) (n int, bounds []int, err error) {
	if c.client() {
		l, err := clientLayout(c)
		if err != nil {
			return 0, nil, err
		}
		return l.total, l.bounds, nil
	}
	b, err := build(c)
	if err != nil {
		return 0, nil, err
	}
	return len(b.stream), b.bounds, nil
}

// build and deliver select the server-side stream class.
func build(c *Case) (*built, error) {
	switch c.Side {
	case "nego":
		return buildNego(c)
	case "malf":
		return buildMalf(c)
	}
	return buildStream(c)
}

func deliver(c *Case, b *built, cuts []int) (*obs, error) {
	switch c.Side {
	case "nego":
		return runNego(c, b, cuts)
	case "malf":
		return runDrop(c, b, cuts, c.Msize)
	}
	return runServer(c, b, cuts)
}

// RunCase executes one case: the reference delivery and the case's plan, each
// checked against the prediction and the plan against the reference.
func RunCase(c *Case) error {
	if c.client() {
		l, err := clientLayout(c)
		if err != nil {
			return err
		}
		ref, err := runClient(c, l, cutsOf(Plan{Kind: "frame"}, l.total, l.bounds))
		if err != nil {
			return fmt.Errorf("reference delivery (one chunk per reply): %w", err)
		}
		if c.Plan.Kind == "frame" {
			return nil
		}
		got, err := runClient(c, l, cutsOf(c.Plan, l.total, l.bounds))
		if err != nil {
			return fmt.Errorf("plan %s: %w", c.Plan.Kind, err)
		}
		if d := diffResults(ref, got); d != "" {
			if l.malfWhy != "" {
				d += "; " + l.malfWhy
			}
			return fmt.Errorf("plan %s: call results differ from the reference delivery: %s", c.Plan.Kind, d)
		}
		return nil
	}
	b, err := build(c)
	if err != nil {
		return err
	}
	ref, err := deliver(c, b, cutsOf(Plan{Kind: "frame"}, len(b.stream), b.bounds))
	if err != nil {
		return fmt.Errorf("reference delivery (one chunk per frame): %w", err)
	}
	if c.Plan.Kind == "frame" {
		return nil
	}
	got, err := deliver(c, b, cutsOf(c.Plan, len(b.stream), b.bounds))
	if err != nil {
		return fmt.Errorf("plan %s: %w", c.Plan.Kind, err)
	}
	if d := diffObs(ref, got); d != "" {
		return fmt.Errorf("plan %s: behaviour differs from the reference delivery: %s", c.Plan.Kind, d)
	}
	return nil
}

func bucket(n int) string {
	switch {
	case n <= 20:
		return "<=20"
	case n <= 60:
		return "21-60"
	case n <= 120:
		return "61-120"
	}
	return "121-200"
}

// execute wraps RunCase with journal, evidence and hang classification.
func execute(test string, c *Case) error {
	hx.Journal(test, c)
	if c.Plan.Kind == "frame" {
		hx.Evals(1)
	} else {
		hx.Evals(2) // reference delivery + plan
	}
	record(test, c)
	return classify(RunCase(c))
}

func record(test string, c *Case) {
	n, bounds, err := layout(c)
	if err != nil {
		return
	}
	recordAs(test, c, n, bounds)
}

func recordAs(test string, c *Case, n int, bounds []int) {
	cuts := cutsOf(c.Plan, n, bounds)
	split := splitsAFrame(cuts, n, bounds)
	wraps := n / int(8*c.Msize)
	switch c.Side {
	case "lower": // any msize 24..300
		hx.Label(fmt.Sprintf("lower msize=%s plan=%s", sizeBucket(c.Msize), c.Plan.Kind))
		hx.Label(fmt.Sprintf("%s dotu=%v frames=%s", c.Side, c.Dotu, bucket(len(bounds))))
	case "malf", "cmalf": // (label cardinality: the dimensions separately)
		hx.Label(fmt.Sprintf("%s msize=%d", c.Side, c.Msize))
		hx.Label(fmt.Sprintf("%s plan=%s", c.Side, c.Plan.Kind))
		hx.Label(fmt.Sprintf("%s dotu=%v", c.Side, c.Dotu))
	default:
		hx.Label(fmt.Sprintf("%s msize=%d plan=%s", c.Side, c.Msize, c.Plan.Kind))
		hx.Label(fmt.Sprintf("%s dotu=%v frames=%s", c.Side, c.Dotu, bucket(len(bounds))))
	}
	switch {
	case wraps == 0:
		hx.Label(c.Side + " buffer never exhausted")
	case wraps < 4:
		hx.Label(c.Side + " buffer exhausted 1-3 times")
	default:
		hx.Label(c.Side + " buffer exhausted >=4 times")
	}
	for _, cut := range cuts {
		// position of the cut inside its frame
		i := sort.SearchInts(bounds, cut)
		start := 0
		if i > 0 {
			start = bounds[i-1]
		}
		if i < len(bounds) && cut != bounds[i] {
			if cut-start < 4 {
				hx.Label(c.Side + " cut inside a size prefix")
				break
			}
		}
	}
	switch c.Side {
	case "lower":
		recordLower(test, c, cuts, n, bounds, split)
		return
	case "pend":
		recordPend(test, c, cuts, n, bounds)
		return
	case "malf":
		recordMalf(test, c, cuts, n, bounds, split)
		return
	case "cmalf":
		recordCMalf(test, c, cuts, n, bounds, split)
		return
	}
	if c.Side == "nego" {
		same := sameRead(c, cuts, bounds)
		if same {
			hx.Label("nego: Tversion and the head of the oversize frame in one chunk")
		}
		hx.Label(fmt.Sprintf("nego srvmsize=%d over=%s", c.Nego.SrvMsize, c.Nego.OverKind))
		if same || split {
			cb, _ := json.Marshal(cuts)
			sb, _ := json.Marshal(c)
			hx.NonTrivial("nego", sb, cb)
		}
		hx.Sample(test, sampleOf(c))
		return
	}
	if split && n > int(8*c.Msize) {
		cb, _ := json.Marshal(cuts)
		if len(cb) > 1<<16 {
			cb = []byte(fmt.Sprintf("%s/%d/%d", c.Plan.Kind, c.Plan.Step, len(cuts)))
		}
		sb, _ := json.Marshal(struct {
			F []Frame
			R [][]Call
		}{c.Frames, c.Rounds})
		hx.NonTrivial(c.Side, c.Msize, c.Dotu, c.Seed, c.TagBase, sb, cb)
	}
	hx.Sample(test, sampleOf(c))
}

// sampleOf keeps evidence samples small.
func sampleOf(c *Case) *Case {
	s := *c
	if len(s.Plan.Cuts) > 64 {
		s.Plan.Cuts = s.Plan.Cuts[:64]
	}
	return &s
}

func classify(err error) error {
	if err == nil {
		return nil
	}
	var h hangErr
	if asHang(err, &h) {
		if blocked := hx.BlockedInGo9p(); blocked != "" {
			return fmt.Errorf("%s; goroutines blocked inside go9p:\n%s", err.Error(), blocked)
		}
		hx.Inconclusive(err.Error())
		return nil
	}
	return err
}

func asHang(err error, h *hangErr) bool {
	for err != nil {
		if x, ok := err.(hangErr); ok {
			*h = x
			return true
		}
		u, ok := err.(interface{ Unwrap() error })
		if !ok {
			return false
		}
		err = u.Unwrap()
	}
	return false
}

// ---------------------------------------------------------------------------
// generators

// drawCut draws one cut offset: uniform, or aimed at a frame (inside its size
// prefix, inside its header, just before its end, in its middle).
func drawCut(t *rapid.T, n int, bounds []int) int {
	if rapid.IntRange(0, 2).Draw(t, "aimed") == 0 {
		return rapid.IntRange(1, n-1).Draw(t, "cut")
	}
	j := rapid.IntRange(0, len(bounds)-1).Draw(t, "frame")
	start := 0
	if j > 0 {
		start = bounds[j-1]
	}
	size := bounds[j] - start
	var d int
	switch rapid.IntRange(0, 4).Draw(t, "where") {
	case 0, 1:
		d = rapid.IntRange(1, 3).Draw(t, "inprefix")
	case 2:
		d = rapid.IntRange(4, 7).Draw(t, "inheader")
	case 3:
		d = size - 1
	default:
		d = size / 2
	}
	if d >= size {
		d = size - 1
	}
	if d < 1 {
		d = 1
	}
	return start + d
}

func drawPlan(t *rapid.T, kind string, c *Case) Plan {
	n, bounds, err := layout(c)
	if err != nil || n < 2 {
		return Plan{Kind: "one"}
	}
	switch kind {
	case "every":
		return Plan{Kind: "every", Step: rapid.OneOf(rapid.IntRange(2, 9), rapid.IntRange(2, int(2*c.Msize))).Draw(t, "step")}
	case "single":
		return Plan{Kind: "cuts", Cuts: []int{drawCut(t, n, bounds)}}
	case "multi":
		k := rapid.IntRange(2, 40).Draw(t, "ncuts")
		seen := map[int]bool{}
		var cuts []int
		for i := 0; i < k; i++ {
			x := drawCut(t, n, bounds)
			if !seen[x] {
				seen[x] = true
				cuts = append(cuts, x)
			}
		}
		sort.Ints(cuts)
		return Plan{Kind: "cuts", Cuts: cuts}
	}
	return Plan{Kind: kind}
}

var planKinds = []string{"one", "bytes", "every", "single", "multi", "multi"}

func TestPropServer(t *testing.T) {
	hx.Check(t, "server", hx.N(75, 2000), func(t *rapid.T) {
		c := genServer(t)
		if err := execute("server", c); err != nil {
			hx.Failf(t, "server", c, "%v", err)
		}
	})
}

func TestPropNego(t *testing.T) {
	hx.Check(t, "nego", hx.N(60, 1500), func(t *rapid.T) {
		c := genNego(t)
		if err := execute("nego", c); err != nil {
			hx.Failf(t, "nego", c, "%v", err)
		}
	})
}

func TestPropClient(t *testing.T) {
	hx.Check(t, "client", hx.N(75, 2000), func(t *rapid.T) {
		c := genClient(t)
		if err := execute("client", c); err != nil {
			hx.Failf(t, "client", c, "%v", err)
		}
	})
}

// enumerate runs every single split point of the streams produced by mk.
// Quick: the split points of each stream are spread over the shards; thorough:
// whole streams are spread over the shards.
func enumerate(t *testing.T, test string, nstreams int, mk func(k int) *Case) {
	total := 0
	for k := 0; k < nstreams; k++ {
		if hx.Thorough() && hx.NShards > 1 && k%hx.NShards != hx.Shard {
			continue
		}
		base := mk(k)
		n, bounds, err := layout(base)
		if err != nil {
			t.Fatalf("harness: %v", err)
		}
		if n > 2000 {
			t.Fatalf("harness: enumeration stream of %d bytes", n)
		}
		// the reference delivery once, then every split compared with it
		var refS *obs
		var refC []Result
		var bs *built
		var cl *clayout
		frame := cutsOf(Plan{Kind: "frame"}, n, bounds)
		rc := *base
		rc.Plan = Plan{Kind: "frame"}
		hx.Journal(test, &rc)
		hx.Eval()
		if base.client() {
			cl, _ = clientLayout(base)
			refC, err = runClient(base, cl, frame)
		} else {
			bs, _ = build(base)
			refS, err = deliver(base, bs, frame)
		}
		if err = classify(err); err != nil {
			hx.Violation(test, &rc, "reference delivery: "+err.Error())
			t.Fatalf("reference delivery: %v", err)
		}
		bad := 0
		for p := 1; p < n; p++ {
			if !hx.Thorough() && hx.NShards > 1 && p%hx.NShards != hx.Shard {
				continue
			}
			c := *base
			c.Plan = Plan{Kind: "cuts", Cuts: []int{p}}
			hx.Journal(test, &c)
			hx.Eval()
			recordAs(test, &c, n, bounds)
			total++
			var err error
			if c.client() {
				var got []Result
				if got, err = runClient(&c, cl, c.Plan.Cuts); err == nil {
					if d := diffResults(refC, got); d != "" {
						if cl.malfWhy != "" {
							d += "; " + cl.malfWhy
						}
						err = fmt.Errorf("call results differ from the reference delivery (one chunk per reply): %s", d)
					}
				}
			} else {
				var got *obs
				if got, err = deliver(&c, bs, c.Plan.Cuts); err == nil {
					if d := diffObs(refS, got); d != "" {
						err = fmt.Errorf("behaviour differs from the reference delivery: %s", d)
					}
				}
			}
			if err = classify(err); err != nil {
				hx.Violation(test, &c, fmt.Sprintf("single split at byte %d of %d: %v", p, n, err))
				t.Errorf("stream %d split at %d: %v", k, p, err)
				if bad++; bad >= 3 {
					break
				}
			}
		}
		if bad > 0 {
			return
		}
	}
	hx.ExtraAdd(test+"_splits", int64(total))
}

func TestEnumServerSplits(t *testing.T) {
	ns := 2
	if hx.Thorough() {
		ns = 6 * hx.NShards
	}
	enumerate(t, "server-single-split", ns, enumServerCase)
	hx.Exhaustive(fmt.Sprintf("server: every single split point of %d request streams of <= 2000 bytes (msize 64 and 100, longer than the 8 x msize receive buffer)", ns))
}

func TestEnumNegoSplits(t *testing.T) {
	ns := 4
	if hx.Thorough() {
		ns = 6 * hx.NShards
	}
	enumerate(t, "nego-single-split", ns, enumNegoCase)
	hx.Exhaustive(fmt.Sprintf("server: every single split point of %d streams that start with an msize-lowering Tversion and contain one frame above the new msize", ns))
}

func TestEnumClientSplits(t *testing.T) {
	ns := 2
	if hx.Thorough() {
		ns = 6 * hx.NShards
	}
	enumerate(t, "client-single-split", ns, enumClientCase)
	hx.Exhaustive(fmt.Sprintf("client: every single split point of %d reply streams of <= 2000 bytes (msize 64 and 100, longer than the 8 x msize receive buffer)", ns))
}

func TestReplay(t *testing.T) {
	e, err := hx.LoadReplay()
	if e == nil {
		t.Skip("no replay file", err)
	}
	replayEnv(t, e, 5)
}

func replayEnv(t *testing.T, e *hx.Envelope, times int) {
	var c Case
	if err := json.Unmarshal(e.Case, &c); err != nil {
		t.Fatalf("bad case: %v", err)
	}
	for i := 0; i < times; i++ {
		if err := execute(e.Test, &c); err != nil {
			hx.Violation(e.Test, &c, err.Error())
			t.Fatalf("%v", err)
		}
	}
}

func TestRegress(t *testing.T) {
	for _, e := range hx.Regressions() {
		replayEnv(t, e, 1)
		hx.Label("regress")
	}
}
