package c03

// (f) pipeline: volume. Raw clients keep K tags busy on their connection and
// send the next request on a tag the moment the reply carrying it has been
// read, for thousands of requests per connection, over several connections and
// GOMAXPROCS values, while the server's goroutines are disturbed (spin of a
// drawn length / yield) at its schedule points and, in two cases of three,
// gated so that the bookkeeping behind a reply and the arrival of the request
// re-using its tag coincide (GatePlan). "Every request gets exactly
// one reply" is decided without a clock: when a client has stopped sending it
// sends a fence request F1 on a tag it never used; once F1 is answered the
// receive goroutine has registered every earlier request. The harness then
// waits until the connection's request table is empty (a request leaves the
// table only in Respond, after its reply has been queued for the single
// sender) and sends a second fence F2: a reply that has not been read when
// F2's reply arrives will never be sent.

import (
	"bytes"
	"encoding/binary"
	"encoding/json"
	"fmt"
	"runtime"
	"sync"
	"sync/atomic"
	"testing"
	"time"

	"pgregory.net/rapid"
	"github.com/rminnich/go9p"
	"verif/internal/hx"
	"verif/internal/ref9p"
	"verif/internal/sched"
	"verif/internal/xport"
)

// PointPlan is the disturbance at one schedule point of the server.
type PointPlan struct {
	Point string `json:"point"`
	Spin  int    `json:"spin,omitempty"`  // busy-wait of 0..Spin iterations (about a nanosecond each)
	Yield int    `json:"yield,omitempty"` // runtime.Gosched() one time in Yield (0 = never)
}

// GatePlan: the goroutine that handles an answered request stops at Point
// until the client has read the reply and is sending the next request on the
// same tag (or a bound of about a millisecond has passed), then dwells for
// 0..Jitter spin iterations: the server's bookkeeping behind the transmission
// of a reply and the arrival of the request that re-uses the tag fall into the
// same few microseconds for every gated request instead of once in a while.
type GatePlan struct {
	Point  string `json:"point"`
	OneIn  int    `json:"one_in"` // every request whose sequence number is divisible by OneIn is gated
	Jitter int    `json:"jitter"`
}

type PipePlan struct {
	Gate    *GatePlan   `json:"gate,omitempty"`
	Procs   int         `json:"procs"`
	Tags    [][]uint16  `json:"tags"` // per connection: the tags kept busy
	N       int         `json:"n"`    // requests per connection
	Mix     uint64      `json:"mix"`  // seed of the request kinds / sizes
	Perturb uint64      `json:"perturb"`
	Points  []PointPlan `json:"points,omitempty"`
}

var pipePoints = []string{"recv.dispatch", "process.enter", "process.done", "respond.enter", "respond.posted", "respond.queued", "respond.unlinked", "send.dequeued", "send.written"}

var pipeSink atomic.Uint64

// pipeHook is installed as go9p's verif hook directly: the gate reads the
// request's sequence number (the offset of the Tread / Twrite), which the
// sched controller's perturbation mode does not pass on.
func pipeHook(p *PipePlan, reused []atomic.Uint32) func(point string, obj interface{}) {
	perturb := pipePerturber(p)
	g := p.Gate
	return func(point string, obj interface{}) {
		if g != nil && point == g.Point {
			if req, ok := obj.(*go9p.SrvReq); ok && req != nil && req.Tc != nil && (req.Tc.Type == go9p.Tread || req.Tc.Type == go9p.Twrite) {
				s := req.Tc.Offset
				if s < uint64(len(reused)) && g.OneIn > 0 && s%uint64(g.OneIn) == 0 {
					for i := 0; i < 20000 && reused[s].Load() == 0; i++ {
						if i > 200 && i%50 == 0 {
							runtime.Gosched()
						}
					}
					if g.Jitter > 0 {
						k := hx.Mix(p.Perturb, s, 99) % uint64(g.Jitter+1)
						var y uint64 = k | 1
						for j := uint64(0); j < k; j++ {
							y = y*6364136223846793005 + 1442695040888963407
						}
						pipeSink.Store(y)
					}
					return
				}
			}
		}
		perturb("", point)
	}
}

func pipePerturber(p *PipePlan) func(who, point string) {
	var n atomic.Uint64
	pts := p.Points
	seed := p.Perturb
	return func(who, point string) {
		for i := range pts {
			if pts[i].Point != point {
				continue
			}
			x := hx.Mix(seed, n.Add(1))
			if pts[i].Yield > 0 && (x>>32)%uint64(pts[i].Yield) == 0 {
				runtime.Gosched()
			}
			if pts[i].Spin > 0 {
				k := x % uint64(pts[i].Spin+1)
				var y uint64 = x | 1
				for j := uint64(0); j < k; j++ {
					y = y*6364136223846793005 + 1442695040888963407
				}
				pipeSink.Store(y)
			}
			return
		}
	}
}

type pipeConn struct {
	idx   int
	end   *xport.End
	tags  []uint16
	base  uint64
	out   map[uint16]uint64 // tag -> sequence number outstanding on it
	sent  int
	got   int
	fence uint16
	err   error // a violation seen by the client
	hang  string
	lost  []string
}

func pipeVersion(dotu bool) string {
	if dotu {
		return "9P2000.u"
	}
	return "9P2000"
}

// rpc of the prologue / the fences: send m, read frames until the reply with m's tag.
func (pc *pipeConn) next(d time.Duration) ([]byte, error) {
	return pc.end.NextFrame(d)
}

func runPipe(c *Case) error {
	p := c.Pipe
	if p.N < 1 || len(p.Tags) < 1 || len(p.Tags) > 16 {
		return fmt.Errorf("harness: bad pipeline plan")
	}
	if p.Procs > 0 {
		old := runtime.GOMAXPROCS(p.Procs)
		defer runtime.GOMAXPROCS(old)
	}
	ops := newMini()
	ops.inv = make([]atomic.Uint32, p.N*len(p.Tags))
	ops.mix = p.Mix
	srv := ops.server(c.Dotu, c.Maxpend)
	reused := make([]atomic.Uint32, p.N*len(p.Tags))
	if p.Gate != nil {
		f := pipeHook(p, reused)
		go9p.VerifHook.Store(&f)
		defer go9p.VerifHook.Store(nil)
	} else if len(p.Points) > 0 {
		ctl := sched.New(nil)
		ctl.Record = false
		ctl.Perturb = pipePerturber(p)
		defer sched.Install(ctl)()
	}
	var conns []*pipeConn
	for i, tags := range p.Tags {
		if len(tags) < 1 {
			return fmt.Errorf("harness: connection without tags")
		}
		h, l := xport.Pair(fmt.Sprintf("c03-pipe%d", i))
		srv.NewConn(l)
		pc := &pipeConn{idx: i, end: h, tags: tags, base: uint64(i * p.N), out: map[uint16]uint64{}}
		defer h.Close()
		conns = append(conns, pc)
		// a fence tag the client never uses otherwise
		pc.fence = 0xFFF0
		for used := true; used; {
			used = false
			for _, t := range tags {
				if t == pc.fence {
					used = true
					pc.fence--
				}
			}
		}
		if err := pc.prologue(c.Dotu); err != nil {
			return err
		}
	}
	var wg sync.WaitGroup
	for _, pc := range conns {
		wg.Add(1)
		go func(pc *pipeConn) {
			defer wg.Done()
			pc.client(c, p, ops, reused)
		}(pc)
	}
	wg.Wait()
	total := 0
	for _, pc := range conns {
		total += pc.got
	}
	hx.ExtraAdd("pipeline_requests_answered", int64(total))
	for _, pc := range conns {
		if pc.err != nil {
			return fmt.Errorf("connection %d (tags %v): %v", pc.idx, pc.tags, pc.err)
		}
	}
	for _, pc := range conns {
		if pc.hang != "" {
			return hang(fmt.Sprintf("connection %d (tags %v): %s", pc.idx, pc.tags, pc.hang))
		}
	}
	// every request was handed to the implementation exactly once
	for _, pc := range conns {
		for i := 0; i < pc.sent; i++ {
			if n := ops.inv[pc.base+uint64(i)].Load(); n != 1 {
				return fmt.Errorf("connection %d: request #%d was handed to the implementation %d times", pc.idx, i, n)
			}
		}
	}
	return nil
}

func (pc *pipeConn) prologue(dotu bool) error {
	steps := []*ref9p.Msg{
		{Type: ref9p.Tversion, Tag: ref9p.NOTAG, Msize: 8192, Version: pipeVersion(dotu)},
		{Type: ref9p.Tattach, Tag: 1, Fid: 0, Afid: ref9p.NOFID, Uname: "alice", Nuname: 1001},
		{Type: ref9p.Twalk, Tag: 1, Fid: 0, Newfid: 1, Wname: []string{"fpipe"}},
		{Type: ref9p.Topen, Tag: 1, Fid: 1, Mode: 2},
	}
	for _, m := range steps {
		if _, err := pc.end.Write(ref9p.Encode(m, dotu)); err != nil {
			return fmt.Errorf("harness: prologue write: %v", err)
		}
		f, err := pc.next(deadline)
		if err == xport.ErrTimeout {
			return hang("prologue: no reply to " + ref9p.TypeName(m.Type))
		}
		if err != nil {
			return fmt.Errorf("prologue: %s: %v", ref9p.TypeName(m.Type), err)
		}
		r, _, derr := ref9p.Decode(f, dotu)
		if derr != nil || r.Type != m.Type+1 || r.Tag != m.Tag {
			return fmt.Errorf("prologue: %s answered %x (%v)", ref9p.TypeName(m.Type), clip(f), derr)
		}
	}
	return nil
}

// account checks one reply frame against the client's table of outstanding
// tags; the tag is free afterwards.
func (pc *pipeConn) account(f []byte, dotu bool, mix uint64) error {
	if len(f) < 7 {
		return fmt.Errorf("the server sent a frame of %d bytes: %x", len(f), f)
	}
	tag := binary.LittleEndian.Uint16(f[5:7])
	s, ok := pc.out[tag]
	if !ok {
		return fmt.Errorf("after %d replies: reply %s with tag %d, which has no outstanding request: %x", pc.got, ref9p.TypeName(f[4]), tag, clip(f))
	}
	a := pipeAnswer(mix, s)
	a.Tag = tag
	if want := ref9p.Encode(a, dotu); !bytes.Equal(f, want) {
		return fmt.Errorf("after %d replies: the reply to request #%d (%s, tag %d) is not what the implementation produced for it:\n got  %x\n want %x", pc.got, s-pc.base, ref9p.TypeName(pipeRequest(mix, s, tag).Type), tag, clip(f), clip(want))
	}
	delete(pc.out, tag)
	pc.got++
	return nil
}

func (pc *pipeConn) client(c *Case, p *PipePlan, ops *miniOps, reused []atomic.Uint32) {
	dotu := c.Dotu
	// send re-uses tag, whose previous request was prev
	send := func(tag uint16, prev uint64) bool {
		s := pc.base + uint64(pc.sent)
		pc.sent++
		pc.out[tag] = s
		frame := ref9p.Encode(pipeRequest(p.Mix, s, tag), dotu)
		reused[prev].Store(1)
		if _, err := pc.end.Write(frame); err != nil {
			pc.err = fmt.Errorf("harness: write: %v", err)
			return false
		}
		return true
	}
	// the first requests go out in one write
	var first []byte
	for _, t := range pc.tags {
		if pc.sent >= p.N {
			break
		}
		s := pc.base + uint64(pc.sent)
		pc.sent++
		pc.out[t] = s
		first = append(first, ref9p.Encode(pipeRequest(p.Mix, s, t), dotu)...)
	}
	if _, err := pc.end.Write(first); err != nil {
		pc.err = fmt.Errorf("harness: write: %v", err)
		return
	}
	frames := pc.end.Frames()
	timer := time.NewTimer(time.Hour)
	defer timer.Stop()
	// recv: the next frame, or nil after the soft wait (which only ends the
	// sending phase early and never decides anything)
	recv := func(d time.Duration) ([]byte, bool, bool) {
		select {
		case f, ok := <-frames:
			return f, ok, false
		default:
		}
		if !timer.Stop() {
			select {
			case <-timer.C:
			default:
			}
		}
		timer.Reset(d)
		select {
		case f, ok := <-frames:
			return f, ok, false
		case <-timer.C:
			return nil, true, true
		}
	}
	for len(pc.out) > 0 {
		f, ok, late := recv(2 * time.Second)
		if late {
			break // something is slow or lost: the fences decide
		}
		if !ok {
			pc.err = fmt.Errorf("the connection ended after %d of %d replies", pc.got, pc.sent)
			return
		}
		tag := uint16(0)
		if len(f) >= 7 {
			tag = binary.LittleEndian.Uint16(f[5:7])
		}
		prev := pc.out[tag]
		if pc.err = pc.account(f, dotu, p.Mix); pc.err != nil {
			return
		}
		if pc.sent < p.N {
			if !send(tag, prev) {
				return
			}
		}
	}
	// ---- the fences
	fence := func(fid uint32) bool {
		m := &ref9p.Msg{Type: ref9p.Tclunk, Tag: pc.fence, Fid: fid}
		if _, err := pc.end.Write(ref9p.Encode(m, dotu)); err != nil {
			pc.err = fmt.Errorf("harness: write: %v", err)
			return false
		}
		for {
			f, ok, late := recv(deadline)
			if late {
				pc.hang = fmt.Sprintf("no reply to the fence request after %d of %d replies", pc.got, pc.sent)
				return false
			}
			if !ok {
				pc.err = fmt.Errorf("the connection ended after %d of %d replies", pc.got, pc.sent)
				return false
			}
			if len(f) >= 7 && binary.LittleEndian.Uint16(f[5:7]) == pc.fence {
				return true
			}
			if pc.err = pc.account(f, dotu, p.Mix); pc.err != nil {
				return false
			}
		}
	}
	if !fence(0x7001) {
		return
	}
	// F1 answered: every request is registered. Wait for the table to drain.
	conn := ops.conn(fmt.Sprintf("c03-pipe%d/harness", pc.idx))
	if conn == nil {
		pc.err = fmt.Errorf("harness: connection not found")
		return
	}
	t0 := time.Now()
	for {
		if n, _ := conn.VerifCounts(); n == 0 {
			break
		}
		if time.Since(t0) > deadline {
			n, _ := conn.VerifCounts()
			pc.hang = fmt.Sprintf("%d requests stay registered; %d of %d replies read", n, pc.got, pc.sent)
			return
		}
		time.Sleep(200 * time.Microsecond)
	}
	if !fence(0x7002) {
		return
	}
	if len(pc.out) > 0 {
		var lost []string
		for _, t := range pc.tags {
			if s, ok := pc.out[t]; ok {
				m := pipeRequest(p.Mix, s, t)
				lost = append(lost, fmt.Sprintf("request #%d (%s tag %d, handed to the implementation %d times)", s-pc.base, ref9p.TypeName(m.Type), t, ops.inv[s].Load()))
			}
		}
		pc.err = fmt.Errorf("%d of %d requests never received a reply: %v; no request is registered on the connection any more and a request sent afterwards has been answered", len(pc.out), pc.sent, lost)
	}
}

func genPipe(t *rapid.T, n int) *Case {
	c := &Case{Dotu: rapid.Bool().Draw(t, "dotu"), Maxpend: rapid.SampledFrom([]int{0, 4}).Draw(t, "maxpend")}
	p := &PipePlan{N: n, Mix: rapid.Uint64().Draw(t, "mix"), Perturb: rapid.Uint64().Draw(t, "perturb")}
	p.Procs = rapid.SampledFrom([]int{2, 2, 3, 4, 4, 8, 16, 1}).Draw(t, "procs")
	nc := rapid.IntRange(1, 4).Draw(t, "nconn")
	for i := 0; i < nc; i++ {
		k := rapid.SampledFrom([]int{1, 2, 2, 3, 3, 4, 6, 8}).Draw(t, "k")
		var tags []uint16
		seen := map[uint16]bool{}
		for len(tags) < k {
			tag := rapid.OneOf(rapid.SampledFrom([]uint16{0, 1, 2, 3, 0xFFFE}), rapid.Uint16Range(0, 0xFFEF)).Draw(t, "tag")
			if !seen[tag] {
				seen[tag] = true
				tags = append(tags, tag)
			}
		}
		p.Tags = append(p.Tags, tags)
	}
	for _, pt := range pipePoints {
		pp := PointPlan{Point: pt}
		pp.Spin = rapid.SampledFrom([]int{0, 0, 0, 300, 1000, 3000, 10000, 30000}).Draw(t, "spin")
		pp.Yield = rapid.SampledFrom([]int{0, 0, 0, 2, 8, 64}).Draw(t, "yield")
		if pp.Spin > 0 || pp.Yield > 0 {
			p.Points = append(p.Points, pp)
		}
	}
	if rapid.IntRange(0, 2).Draw(t, "gated") != 0 {
		p.Gate = &GatePlan{
			Point:  rapid.SampledFrom([]string{"respond.queued", "respond.queued", "respond.unlinked", "send.written", "process.done"}).Draw(t, "gatepoint"),
			OneIn:  rapid.SampledFrom([]int{1, 2, 5}).Draw(t, "gateonein"),
			Jitter: rapid.SampledFrom([]int{0, 500, 2000, 6000, 20000}).Draw(t, "gatejitter"),
		}
	}
	c.Pipe = p
	return c
}

func labelPipe(c *Case) {
	p := c.Pipe
	hx.Label(fmt.Sprintf("pipeline procs=%d", p.Procs))
	hx.Label(fmt.Sprintf("pipeline conns=%d", len(p.Tags)))
	for _, tags := range p.Tags {
		hx.Label(fmt.Sprintf("pipeline tags kept busy=%d", len(tags)))
	}
	for _, pp := range p.Points {
		if pp.Spin > 0 {
			hx.Label("pipeline spin at " + pp.Point)
		}
	}
	if p.Gate != nil {
		hx.Label("pipeline gate at " + p.Gate.Point)
	} else {
		hx.Label("pipeline ungated")
	}
}

func pipeNontrivial(p *PipePlan) bool {
	return p.Procs >= 2 && p.N >= 1000
}

func executePipe(test string, c *Case) error {
	if pipeNontrivial(c.Pipe) {
		b, _ := json.Marshal(c)
		hx.NonTrivial(b)
	}
	labelPipe(c)
	hx.Sample(test, c)
	return verdict(runPipe(c))
}

// TestPropPipeline: the volume tier of "every request gets exactly one reply".
func TestPropPipeline(t *testing.T) {
	n := 3000
	if hx.Thorough() {
		n = 20000
	}
	hx.Check(t, "pipeline", hx.N(10, 40), func(t *rapid.T) {
		c := genPipe(t, n)
		if err := execute("pipeline", c); err != nil {
			hx.Failf(t, "pipeline", c, "%v", err)
		}
	})
}
