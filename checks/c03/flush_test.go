// C03, histories with Tflush: tag accounting when requests are cancelled.
//
// The statement's last sentence is about Tflush: a cancelled request gets at
// most one reply, and no reply is ever sent for a tag that has no outstanding
// request (after the Rflush the old tag is free). What C07 checks is the flush
// protocol itself; here the Tflush is one more source of concurrency for the
// reply accounting: a Tflush racing the start of its target's worker, and
// workers of cancelled requests that answer late, while the reply Fcalls of
// cancelled requests are recycled and other replies wait to be written.
package c03

import (
	"bytes"
	"fmt"
	"sync"
	"testing"
	"time"

	"pgregory.net/rapid"
	"verif/internal/hx"
	"verif/internal/rawc"
	"verif/internal/ref9p"
	"verif/internal/sched"
	"verif/internal/script"
	"verif/internal/xport"
)

// FlushSpec is a Tflush aimed at one request of the first wave.
type FlushSpec struct {
	Tag uint16 `json:"tag"`
	// When: "adjacent" = directly behind the target in the same transport
	// write, "entered" = once the target is parked inside the implementation,
	// "answered" = after the target's reply was read.
	When string `json:"when"`
	// Dir/TPoint/FPoint: an ordering constraint between the target's and the
	// Tflush's goroutines ("target-waits": the target stops at TPoint until the
	// Tflush passed FPoint; "flush-waits": the other way round; "" = none).
	Dir    string `json:"dir,omitempty"`
	TPoint string `json:"tpoint,omitempty"`
	FPoint string `json:"fpoint,omitempty"`
}

// FReq is a request of a flush history.
type FReq struct {
	ReqSpec
	Flush *FlushSpec `json:"flush,omitempty"`
	// Reuse (second wave): take the tag of first-wave entry Reuse (requests
	// first, then their Tflushes) if that tag has ended by then; -1 = own tag.
	Reuse int `json:"reuse"`
}

// FlushPlan: wave 1 (requests and the Tflushes aimed at them), wave 2 (sent
// when wave 1 is settled: answered, cancelled or parked; these requests take
// the recycled reply Fcalls), then the parked requests are released in the
// drawn order. With SlowWrite the first transport write after wave 1 stays "in
// progress" (slow reader) until all of that has happened, so that the replies
// of wave 2 are packed and waiting while the late answers are produced.
type FlushPlan struct {
	Mode      int    `json:"mode"` // script.FlushAbsent / FlushCancel / FlushIgnore
	Wave1     []FReq `json:"wave1"`
	Wave2     []FReq `json:"wave2"`
	SlowWrite bool   `json:"slowwrite,omitempty"`
	Release   []int  `json:"release"` // indices into wave1 ++ wave2
}

type fitem struct {
	spec   *FReq
	wave   int
	fid    uint32
	msg    *ref9p.Msg
	key    string
	want   *ref9p.Msg
	prep   string
	open   int
	tag    uint16
	sent   bool
	reply  []byte
	ended  bool // its tag was ended by an Rflush before any reply
	fl     *flushRec
	reused bool
}

type flushRec struct {
	tag      uint16
	key      string
	target   *fitem
	sent     bool
	answered bool
	reused   bool
}

// buildReq mirrors the request table of run().
func buildReq(kind string, fid uint32, arg uint32) (m *ref9p.Msg, prep string, open int, err error) {
	newfid := fid + 1
	name := fmt.Sprintf("%d", fid)
	open = -1
	switch kind {
	case "walk":
		prep = "d" + name
		m = &ref9p.Msg{Type: ref9p.Twalk, Fid: fid, Newfid: newfid, Wname: []string{"d" + name, "f" + name}}
	case "walkinplace":
		prep = "d" + name
		m = &ref9p.Msg{Type: ref9p.Twalk, Fid: fid, Newfid: fid, Wname: []string{"dsub" + name}}
	case "open":
		prep = "f" + name
		m = &ref9p.Msg{Type: ref9p.Topen, Fid: fid, Mode: uint8(arg % 3)}
	case "create":
		prep = "d" + name
		m = &ref9p.Msg{Type: ref9p.Tcreate, Fid: fid, Name: "fnew" + name, Perm: 0o644, Mode: uint8(arg % 3), Ext: ""}
	case "read":
		prep, open = "f"+name, 0
		m = &ref9p.Msg{Type: ref9p.Tread, Fid: fid, Offset: uint64(fid) << 20, Count: arg % 4000}
	case "write":
		prep, open = "f"+name, 1
		m = &ref9p.Msg{Type: ref9p.Twrite, Fid: fid, Offset: uint64(fid) << 20, Data: script.PRF("w"+name, int(arg%4000))}
	case "stat":
		prep = "f" + name
		m = &ref9p.Msg{Type: ref9p.Tstat, Fid: fid}
	case "wstat":
		prep = "f" + name
		st := rawc.NoChangeStat()
		st.Name = "fren" + name
		m = &ref9p.Msg{Type: ref9p.Twstat, Fid: fid, Stat: st}
	case "clunk":
		prep = "f" + name
		m = &ref9p.Msg{Type: ref9p.Tclunk, Fid: fid}
	case "remove":
		prep = "f" + name
		m = &ref9p.Msg{Type: ref9p.Tremove, Fid: fid}
	case "attach":
		m = &ref9p.Msg{Type: ref9p.Tattach, Fid: fid, Afid: ref9p.NOFID, Uname: "bob", Aname: "t" + name, Nuname: 1002}
	default:
		err = fmt.Errorf("harness: unknown kind %q", kind)
	}
	return
}

type flushRun struct {
	c        *Case
	p        *FlushPlan
	sv       *script.Server
	ctl      *sched.Ctl
	cl       *rawc.C
	end      *xport.End
	items    []*fitem // wave1 ++ wave2
	flushes  []*flushRec
	out      map[uint16]interface{} // tag -> *fitem / *flushRec currently outstanding (the client's view)
	past     map[uint16]string      // tag -> how it ended last
	fence    uint16
	before   int
	released map[*fitem]bool
}

func (r *flushRun) account(f []byte) error {
	m, _, err := ref9p.Decode(f, r.c.Dotu)
	if err != nil {
		return fmt.Errorf("server sent a frame that does not decode strictly: %v: %x", err, clip(f))
	}
	switch o := r.out[m.Tag].(type) {
	case *flushRec:
		if m.Type != ref9p.Rflush {
			return fmt.Errorf("reply type %s for the Tflush with tag %d", ref9p.TypeName(m.Type), m.Tag)
		}
		o.answered = true
		delete(r.out, m.Tag)
		r.past[m.Tag] = "its Rflush was received"
		if t := o.target; r.out[t.tag] == t {
			t.ended = true
			delete(r.out, t.tag)
			r.past[t.tag] = fmt.Sprintf("%s was cancelled: the Rflush (tag %d) for it was received", t.key, o.tag)
		}
		return nil
	case *fitem:
		if m.Type != o.msg.Type+1 && m.Type != ref9p.Rerror {
			return fmt.Errorf("reply type %s for %s (tag %d)", ref9p.TypeName(m.Type), ref9p.TypeName(o.msg.Type), m.Tag)
		}
		o.reply = f
		delete(r.out, m.Tag)
		r.past[m.Tag] = fmt.Sprintf("the reply to %s was received", o.key)
		return nil
	}
	how := "it was never used"
	if h, ok := r.past[m.Tag]; ok {
		how = h
	}
	return fmt.Errorf("reply %s for tag %d, which has no outstanding request (%s): %x", ref9p.TypeName(m.Type), m.Tag, how, clip(f))
}

// pump accounts incoming frames until cond holds. hard: a deadline is a hang;
// otherwise the wait just ends (it only shapes the schedule).
func (r *flushRun) pump(cond func() bool, d time.Duration, hard bool, what string) error {
	limit := time.Now().Add(d)
	for {
		// take what has arrived first, so that the condition sees it
		for {
			f, err := r.cl.RecvRaw(200 * time.Microsecond)
			if err == rawc.ErrTimeout {
				break
			}
			if err != nil {
				return fmt.Errorf("connection ended while %s: %v", what, err)
			}
			if err := r.account(f); err != nil {
				return err
			}
		}
		if cond() {
			return nil
		}
		if time.Now().After(limit) {
			if hard {
				return hang(fmt.Sprintf("%s: not reached after %v", what, d))
			}
			return nil
		}
	}
}

func (r *flushRun) send(it *fitem) []byte {
	m := *it.msg
	m.Tag = it.tag
	it.sent = true
	r.out[it.tag] = it
	return ref9p.Encode(&m, r.c.Dotu)
}

func (r *flushRun) sendFlush(fl *flushRec) []byte {
	fl.sent = true
	r.out[fl.tag] = fl
	return ref9p.Encode(&ref9p.Msg{Type: ref9p.Tflush, Tag: fl.tag, Oldtag: fl.target.tag}, r.c.Dotu)
}

// parked: the request is inside the implementation, waiting for its release.
func (r *flushRun) parked(it *fitem) bool {
	if !it.spec.Behav.Hold || r.released[it] || !logHas(r.sv.S, r.before, "enter", it.key) {
		return false
	}
	return r.sv.S.WaitEntered(it.key, deadline) // logged: the entry is registered within a few instructions
}

func (r *flushRun) settled(it *fitem) bool {
	return !it.sent || it.reply != nil || it.ended || r.parked(it)
}

func runFlush(c *Case) error {
	p := c.Flush
	r := &flushRun{c: c, p: p, out: map[uint16]interface{}{}, past: map[uint16]string{}, released: map[*fitem]bool{}}
	used := map[uint16]bool{}
	fid := uint32(100)
	var holds []sched.Hold
	for wi, wave := range [][]FReq{p.Wave1, p.Wave2} {
		for i := range wave {
			rs := &wave[i]
			it := &fitem{spec: rs, wave: wi + 1, fid: fid, tag: rs.Tag}
			fid += 2
			var err error
			if it.msg, it.prep, it.open, err = buildReq(rs.Kind, it.fid, rs.Arg); err != nil {
				return err
			}
			it.key = script.Key(it.msg)
			it.want = script.ExpectedAnswer(ref9p.Canon(it.msg, c.Dotu), rs.Behav, fidType(rs.Kind))
			used[rs.Tag] = true
			if rs.Flush != nil && wi == 0 {
				fl := &flushRec{tag: rs.Flush.Tag, target: it, key: fmt.Sprintf("Tflush/%d/%d", rs.Tag, rs.Flush.Tag)}
				it.fl = fl
				r.flushes = append(r.flushes, fl)
				used[fl.tag] = true
				switch rs.Flush.Dir {
				case "target-waits":
					holds = append(holds, sched.Hold{Who: it.key, At: rs.Flush.TPoint, UntilWho: fl.key, UntilPoint: rs.Flush.FPoint})
				case "flush-waits":
					holds = append(holds, sched.Hold{Who: fl.key, At: rs.Flush.FPoint, UntilWho: it.key, UntilPoint: rs.Flush.TPoint})
				}
			}
			r.items = append(r.items, it)
		}
	}
	r.fence = 0xFFF0
	for used[r.fence] {
		r.fence--
	}
	n1 := len(p.Wave1)

	r.sv = script.NewServer(script.Config{Msize: 8192, Dotu: c.Dotu, Maxpend: c.Maxpend, Flush: p.Mode})
	sv := r.sv
	r.ctl = sched.New(holds)
	r.ctl.Timeout = 500 * time.Millisecond
	defer sched.Install(r.ctl)()
	end, lib := sv.Dial2("c03")
	r.end = end
	r.cl = rawc.New(end)
	cl := r.cl
	defer cl.Close()
	defer sv.S.ReleaseAll()
	// the write hook is released on every way out (a sender parked in it must
	// not look like a request stuck inside go9p)
	var hookOnce sync.Once
	hookRelease := make(chan struct{})
	openHook := func() {
		hookOnce.Do(func() { close(hookRelease) })
		lib.SetWriteHook(nil)
	}
	defer openHook()

	ver := "9P2000"
	if c.Dotu {
		ver = "9P2000.u"
	}
	rr, err := cl.Version(8192, ver)
	if err != nil || rr.Type != ref9p.Rversion {
		return prologueFail("Tversion", err, rr)
	}
	if rr, err = cl.Attach(0, ref9p.NOFID, "alice", "", 1001); err != nil || rr.Type != ref9p.Rattach {
		return prologueFail("Tattach", err, rr)
	}
	for _, it := range r.items {
		if it.prep != "" {
			rr, err := cl.Walk(0, it.fid, it.prep)
			if err != nil || rr.Type != ref9p.Rwalk || len(rr.Wqid) != 1 {
				return prologueFail("walk to "+it.prep, err, rr)
			}
			if it.open >= 0 {
				if rr, err = cl.Open(it.fid, uint8(it.open)); err != nil || rr.Type != ref9p.Ropen {
					return prologueFail("open", err, rr)
				}
			}
		}
		sv.S.Set(it.key, it.spec.Behav)
	}
	// the prologue's calls are over (a reply is on the wire before the call is logged as done)
	for i := 0; i < 5000 && !callsOver(sv.S, 0); i++ {
		time.Sleep(200 * time.Microsecond)
	}
	before := len(sv.S.Log())
	r.before = before

	// ---- wave 1: requests, each directly followed by its "adjacent" Tflush
	var stream []byte
	var bounds []int
	for _, it := range r.items[:n1] {
		stream = append(stream, r.send(it)...)
		bounds = append(bounds, len(stream))
		if it.fl != nil && it.spec.Flush.When == "adjacent" {
			stream = append(stream, r.sendFlush(it.fl)...)
			bounds = append(bounds, len(stream))
		}
	}
	if c.Chunks == "each" {
		_ = end.WriteChunks(stream, bounds)
	} else {
		_ = end.WriteChunks(stream, nil)
	}
	// Tflushes for parked targets
	for _, it := range r.items[:n1] {
		if it.fl != nil && it.spec.Flush.When == "entered" {
			if err := r.pump(func() bool { return r.settled(it) }, deadline, true, "waiting for "+it.key+" to reach the implementation"); err != nil {
				return err
			}
			if r.parked(it) && it.reply == nil && !it.ended {
				_ = cl.SendRaw(r.sendFlush(it.fl))
			}
		}
	}
	// settle: every request answered, cancelled or parked; every Tflush
	// answered unless it legitimately waits for a parked target
	wave1Settled := func() bool {
		for _, it := range r.items[:n1] {
			if !r.settled(it) {
				return false
			}
			if fl := it.fl; fl != nil && fl.sent && !fl.answered {
				if !r.parked(it) || (p.Mode == script.FlushCancel && it.spec.Flush.When == "entered") {
					return false
				}
			}
		}
		return true
	}
	if err := r.pump(wave1Settled, deadline, true, "waiting for wave 1 to settle (answered, cancelled or parked)"); err != nil {
		return err
	}
	// Tflushes for answered targets: the old tag is not outstanding any more
	for _, it := range r.items[:n1] {
		if it.fl != nil && it.spec.Flush.When == "answered" && !it.fl.sent && (it.reply != nil || it.ended) {
			_ = cl.SendRaw(r.sendFlush(it.fl))
		}
	}
	if err := r.pump(wave1Settled, deadline, true, "waiting for the Rflush of a Tflush whose target was answered"); err != nil {
		return err
	}

	// ---- wave 2 takes the recycled reply Fcalls (and ended tags)
	if p.SlowWrite {
		var once sync.Once
		lib.SetWriteHook(func([]byte) {
			first := false
			once.Do(func() { first = true })
			if first {
				hx.ExtraAdd("flush_writes_held_in_progress", 1)
				<-hookRelease
			}
		})
	}
	stream, bounds = nil, nil
	for _, it := range r.items[n1:] {
		if k := it.spec.Reuse; k >= 0 {
			var tag uint16
			ok := false
			if k < n1 {
				o := r.items[k]
				tag, ok = o.tag, o.sent && (o.reply != nil || o.ended) && !o.reused
				if ok {
					o.reused = true
				}
			} else if k-n1 < n1 && r.items[k-n1].fl != nil {
				fl := r.items[k-n1].fl
				tag, ok = fl.tag, fl.sent && fl.answered && !fl.reused
				if ok {
					fl.reused = true
				}
			}
			if _, busy := r.out[tag]; ok && !busy {
				it.tag = tag
				hx.ExtraAdd("flush_tags_reused", 1)
			}
		}
		stream = append(stream, r.send(it)...)
		bounds = append(bounds, len(stream))
	}
	if len(stream) > 0 {
		if c.Chunks == "each" {
			_ = end.WriteChunks(stream, bounds)
		} else {
			_ = end.WriteChunks(stream, nil)
		}
	}
	// let the replies of wave 2 be packed: each request is answered, parked, or
	// (slow reader) on its way to the sender
	onItsWay := func(it *fitem) bool {
		return r.settled(it) || (p.SlowWrite && r.ctl.Seen(it.key, "respond.posted") > 0)
	}
	_ = r.pump(func() bool {
		for _, it := range r.items[n1:] {
			if !onItsWay(it) {
				return false
			}
		}
		return true
	}, 2*time.Second, false, "wave 2")

	// ---- release the parked requests (also the cancelled ones, whose workers
	// answer late) in the drawn order
	released := map[int]bool{}
	for _, i := range p.Release {
		if i < 0 || i >= len(r.items) || released[i] || !r.items[i].spec.Behav.Hold {
			continue
		}
		released[i] = true
		it := r.items[i]
		wasParked := r.parked(it)
		posted := r.ctl.Seen(it.key, "respond.posted")
		r.released[it] = true
		sv.S.Release(it.key)
		if wasParked {
			// until its answer is out of the implementation's hands: either it
			// passed Respond (cancelled: nothing is sent) or it is queued
			_ = r.pump(func() bool {
				return it.reply != nil || r.ctl.Seen(it.key, "respond.posted") > posted || logHas(sv.S, before, "done", it.key)
			}, 2*time.Second, false, "release")
		}
	}
	for _, it := range r.items {
		r.released[it] = true
	}
	sv.S.ReleaseAll()
	openHook()

	// ---- everything must complete now
	if err := r.pump(func() bool {
		for _, it := range r.items {
			if it.sent && it.reply == nil && !it.ended {
				return false
			}
		}
		for _, fl := range r.flushes {
			if fl.sent && !fl.answered {
				return false
			}
		}
		return true
	}, deadline, true, "waiting for every request to be answered or cancelled and every Tflush to be answered"); err != nil {
		return err
	}
	// every worker has decided whether it runs, and every call of the
	// implementation is over (late answers included); then two fences
	for round := 0; round < 2; round++ {
		for _, it := range r.items {
			if it.sent {
				r.ctl.WaitSeen(it.key, "process.checked", 2*time.Second)
			}
		}
		if err := r.pump(func() bool { return callsOver(sv.S, before) }, deadline, true, "waiting for the implementation calls to finish"); err != nil {
			return err
		}
		r.out[r.fence] = &fitem{msg: &ref9p.Msg{Type: ref9p.Tstat}, key: "fence", tag: r.fence}
		_ = cl.Send(&ref9p.Msg{Type: ref9p.Tstat, Fid: 0, Tag: r.fence})
		if err := r.pump(func() bool { _, o := r.out[r.fence]; return !o }, deadline, true, "waiting for the reply to the fence request"); err != nil {
			return err
		}
	}

	// ---- content: exactly what the implementation produced, exactly once
	produced := map[string]*ref9p.Msg{}
	for _, e := range sv.S.Log()[before:] {
		if e.Kind == "answer" && e.Key != "Tstat/0" { // Tstat/0 = the fences
			if _, dup := produced[e.Key]; dup {
				return fmt.Errorf("the implementation was invoked twice for %s", e.Key)
			}
			produced[e.Key] = e.Answer
		}
	}
	for _, it := range r.items {
		if !it.sent {
			continue
		}
		if it.ended {
			hx.ExtraAdd("flush_cancelled", 1)
			if produced[it.key] != nil {
				hx.ExtraAdd("flush_cancelled_answered_late", 1)
			}
			continue
		}
		a := produced[it.key]
		if a == nil {
			return fmt.Errorf("%s (tag %d) was answered on the wire but never answered by the implementation: %x", it.key, it.tag, clip(it.reply))
		}
		am := *a
		am.Tag = it.tag
		if want := ref9p.Encode(&am, c.Dotu); !bytes.Equal(it.reply, want) {
			return fmt.Errorf("reply to %s (wave %d, tag %d) is not what the implementation produced:\n got  %x\n want %x", it.key, it.wave, it.tag, clip(it.reply), clip(want))
		}
		pm := *it.want
		pm.Tag = it.tag
		if pw := ref9p.Encode(&pm, c.Dotu); !bytes.Equal(it.reply, pw) {
			return fmt.Errorf("reply to %s (wave %d, tag %d) differs from the answer predicted from the request:\n got  %x\n want %x", it.key, it.wave, it.tag, clip(it.reply), clip(pw))
		}
	}
	if conn := sv.S.Conn(script.ConnID("c03")); conn != nil {
		ok := false
		for i := 0; i < 2000; i++ {
			if n, _ := conn.VerifCounts(); n == 0 {
				ok = true
				break
			}
			time.Sleep(time.Millisecond)
		}
		if !ok {
			n, _ := conn.VerifCounts()
			return fmt.Errorf("%d requests still registered as outstanding after every reply was sent", n)
		}
	}
	ap, fo := r.ctl.Stats()
	hx.ExtraAdd("flush_holds_applied", int64(ap))
	hx.ExtraAdd("flush_holds_forced", int64(fo))
	return nil
}

func logHas(s *script.S, from int, kind, key string) bool {
	for _, e := range s.Log()[from:] {
		if e.Kind == kind && e.Key == key {
			return true
		}
	}
	return false
}

// callsOver: every invocation of the implementation has produced its answer
// and finished its Respond calls.
func callsOver(s *script.S, from int) bool {
	n := 0
	for _, e := range s.Log()[from:] {
		switch e.Kind {
		case "enter":
			n++
		case "done":
			n--
		}
	}
	return n == 0
}

var (
	// points the Tflush's goroutine passes whatever happens to the target held
	// at the start of its worker (the target is cancelled there)
	flushPointsAll = []string{"flush.enter", "flush.linked", "flush.decided", "respond.enter", "respond.posted", "respond.queued", "respond.unlinked", "send.dequeued", "send.written"}
	// points the Tflush passes before it depends on the target
	flushPointsEarly  = []string{"flush.enter", "flush.linked", "flush.decided"}
	targetPointsStart = []string{"process.enter", "process.checked"}
	targetPointsRun   = []string{"process.done", "respond.enter", "respond.posted", "respond.queued", "respond.unlinked", "send.dequeued", "send.written"}
)

func genFlushCase(t *rapid.T) *Case {
	c := &Case{Dotu: rapid.Bool().Draw(t, "dotu"), Maxpend: rapid.SampledFrom([]int{0, 4}).Draw(t, "maxpend")}
	c.Chunks = rapid.SampledFrom([]string{"one", "one", "each"}).Draw(t, "chunks")
	p := &FlushPlan{Mode: rapid.SampledFrom([]int{script.FlushAbsent, script.FlushCancel, script.FlushCancel, script.FlushIgnore}).Draw(t, "flushmode")}
	c.Flush = p
	tags := map[uint16]bool{}
	newTag := func() uint16 {
		for {
			tag := rapid.OneOf(rapid.SampledFrom([]uint16{0, 1, 0x7FFF, 0xFFFE}), rapid.Uint16Range(0, 0xFFEF)).Draw(t, "tag")
			if !tags[tag] {
				tags[tag] = true
				return tag
			}
		}
	}
	behav := func() script.Behav {
		var b script.Behav
		switch rapid.IntRange(0, 9).Draw(t, "answer") {
		case 0, 1:
			b.Err = rapid.SampledFrom([]string{"permission denied", "e", "i/o error with a longer text"}).Draw(t, "err")
			b.Ecode = rapid.Uint32Range(1, 200).Draw(t, "ecode")
		case 2, 3:
			b.Async = true
		case 4:
			b.Dup = true
		case 5:
			b.DelayUS = rapid.IntRange(1, 300).Draw(t, "delayus")
		case 6:
			// the answer is packed into req.Rc by hand (as Ufs.Read does with
			// InitRread) and sent with bare Respond calls: a late answer of a
			// cancelled request writes into its reply Fcall whatever the helpers do
			b.DupRace = true
			b.Async = rapid.Bool().Draw(t, "async")
		}
		return b
	}
	n1 := rapid.IntRange(1, 6).Draw(t, "n1")
	for i := 0; i < n1; i++ {
		rq := FReq{ReqSpec: ReqSpec{Kind: rapid.SampledFrom(kinds).Draw(t, "kind"), Tag: newTag(), Arg: rapid.Uint32Range(0, 5000).Draw(t, "arg"), Behav: behav()}, Reuse: -1}
		rq.Behav.Hold = rapid.IntRange(0, 2).Draw(t, "hold") == 0
		if rapid.IntRange(0, 3).Draw(t, "flushed") != 0 {
			fs := &FlushSpec{Tag: newTag(), When: rapid.SampledFrom([]string{"adjacent", "adjacent", "entered", "entered", "answered"}).Draw(t, "when")}
			switch fs.When {
			case "entered":
				rq.Behav.Hold = true
			case "answered":
				rq.Behav.Hold = false
			case "adjacent":
				switch rapid.IntRange(0, 3).Draw(t, "dir") {
				case 0, 1:
					// the Tflush overtakes the start of the target's worker
					fs.Dir = "target-waits"
					// ... or, with respond.posted, the queueing of its reply: the
					// request is answered, its reply decided but not yet queued
					fs.TPoint = rapid.SampledFrom([]string{"process.enter", "process.enter", "process.checked", "respond.posted"}).Draw(t, "tpoint")
					if fs.TPoint == "process.enter" {
						fs.FPoint = rapid.SampledFrom(flushPointsAll).Draw(t, "fpoint")
					} else {
						fs.FPoint = rapid.SampledFrom(flushPointsEarly).Draw(t, "fpoint")
					}
				case 2:
					fs.Dir = "flush-waits"
					fs.FPoint = rapid.SampledFrom(flushPointsEarly).Draw(t, "fpoint")
					pts := targetPointsStart
					if !rq.Behav.Hold {
						pts = append(append([]string(nil), pts...), targetPointsRun...)
					}
					fs.TPoint = rapid.SampledFrom(pts).Draw(t, "tpoint")
				}
			}
			rq.Flush = fs
		}
		p.Wave1 = append(p.Wave1, rq)
	}
	n2 := rapid.IntRange(0, 8).Draw(t, "n2")
	for i := 0; i < n2; i++ {
		rq := FReq{ReqSpec: ReqSpec{Kind: rapid.SampledFrom(kinds).Draw(t, "kind"), Tag: newTag(), Arg: rapid.Uint32Range(0, 5000).Draw(t, "arg"), Behav: behav()}, Reuse: -1}
		rq.Behav.Hold = rapid.IntRange(0, 3).Draw(t, "hold") == 0
		if rapid.Bool().Draw(t, "reuse") {
			rq.Reuse = rapid.IntRange(0, 2*n1-1).Draw(t, "reuseof")
		}
		p.Wave2 = append(p.Wave2, rq)
	}
	var held []int
	for i, rq := range append(append([]FReq(nil), p.Wave1...), p.Wave2...) {
		if rq.Behav.Hold {
			held = append(held, i)
		}
	}
	p.Release = rapid.Permutation(held).Draw(t, "release")
	p.SlowWrite = rapid.Bool().Draw(t, "slowwrite")
	return c
}

// flushNontrivial: some Tflush is sent while its target is unanswered.
func flushNontrivial(p *FlushPlan) bool {
	for _, rq := range p.Wave1 {
		if rq.Flush != nil && rq.Flush.When != "answered" {
			return true
		}
	}
	return false
}

func labelFlush(c *Case) {
	p := c.Flush
	hx.Label(fmt.Sprintf("flush: mode=%d slowwrite=%v maxpend=%d", p.Mode, p.SlowWrite, c.Maxpend))
	for _, rq := range p.Wave1 {
		hx.Label("kind=" + rq.Kind)
		if fs := rq.Flush; fs != nil {
			hx.Label(fmt.Sprintf("flush: when=%s dir=%s held=%v", fs.When, fs.Dir, rq.Behav.Hold))
			if fs.Dir != "" {
				hx.Label(fmt.Sprintf("flush: %s target@%s flush@%s", fs.Dir, fs.TPoint, fs.FPoint))
			}
		}
	}
	for _, rq := range p.Wave2 {
		hx.Label("kind=" + rq.Kind)
	}
}

func TestPropFlushHistories(t *testing.T) {
	hx.Check(t, "flushhistories", hx.N(300, 2500), func(t *rapid.T) {
		c := genFlushCase(t)
		if err := execute("flushhistories", c); err != nil {
			hx.Failf(t, "flushhistories", c, "%v", err)
		}
	})
}
