package c03

// (g) midversion: a Tversion in mid-session while requests are parked inside
// the implementation, have deferred answers, or have not started yet.
//
// What the statement lets the check demand: the requests that were outstanding
// when the Tversion was sent are not "cancelled by Tflush", but a session
// restart aborts them, so nothing more than the Tflush clause is demanded for
// them: at most one reply each, which is then exactly the implementation's
// answer, and at most one invocation. The Tversion itself gets exactly one
// reply. Once the parked implementations have returned, every request is
// retired (the connection's request table is empty), and requests sent after
// the Rversion - in particular on the tags of the aborted ones - get exactly
// one reply each with the implementation's content.
//
// The "table is empty" verdict does not depend on a clock: the harness waits
// (liveness only) until every request it ever sent has either passed the
// schedule point behind the unlinking in Respond or, for the ones that were
// handed to the implementation, until the implementation's answering call has
// returned; a request that is still registered then will never be retired.

import (
	"bytes"
	"encoding/json"
	"fmt"
	"testing"
	"time"

	"pgregory.net/rapid"
	"verif/internal/hx"
	"verif/internal/ref9p"
	"verif/internal/sched"
	"verif/internal/script"
	"verif/internal/xport"
)

type MidVReq struct {
	Kind  string `json:"kind"` // read, write, stat, clunk, walk, open
	Tag   uint16 `json:"tag"`
	Behav MBehav `json:"behav"`
}

type MidVPlan struct {
	Wave1 []MidVReq `json:"wave1"`
	// When: "entered" = the Tversion is sent once every request of wave 1 is
	// answered (reply read) or parked; "adjacent" = in the same write, directly
	// behind wave 1 (requests may not have started).
	When       string `json:"when"`
	VTag       uint16 `json:"vtag"`
	Release    []int  `json:"release"`     // order in which the parked requests are released
	ReuseEarly bool   `json:"reuse_early"` // wave 2 is sent before the parked requests are released
	Extra2     int    `json:"extra2"`      // requests of wave 2 on tags of their own, besides one per tag of wave 1
	Twice      bool   `json:"twice"`       // a second Tversion right behind the first
}

type midItem struct {
	spec    MidVReq
	id      uint64
	msg     *ref9p.Msg
	key     string
	want    []byte // the one reply it may get
	replies int
	ended   bool // reply read before the Tversion was sent
}

func runMidV(c *Case) error {
	p := c.MidV
	ops := newMini()
	srv := ops.server(c.Dotu, c.Maxpend)
	ctl := sched.New(nil)
	ctl.Timeout = 0
	defer sched.Install(ctl)()
	h, l := xport.Pair("c03-midv")
	srv.NewConn(l)
	defer h.Close()
	defer ops.releaseAll()
	dotu := c.Dotu
	sendm := func(m *ref9p.Msg) error {
		_, err := h.Write(ref9p.Encode(m, dotu))
		return err
	}
	rpc := func(m *ref9p.Msg) error {
		if err := sendm(m); err != nil {
			return fmt.Errorf("harness: write: %v", err)
		}
		f, err := h.NextFrame(deadline)
		if err == xport.ErrTimeout {
			return hang("prologue: no reply to " + ref9p.TypeName(m.Type))
		}
		if err != nil {
			return fmt.Errorf("prologue: %s: %v", ref9p.TypeName(m.Type), err)
		}
		r, _, derr := ref9p.Decode(f, dotu)
		if derr != nil || r.Type != m.Type+1 || r.Tag != m.Tag {
			return fmt.Errorf("prologue: %s answered %x (%v)", ref9p.TypeName(m.Type), clip(f), derr)
		}
		return nil
	}
	unlinked := func(key string, atLeast int) bool {
		t0 := time.Now()
		for ctl.Seen(key, "respond.unlinked") < atLeast {
			if time.Since(t0) > deadline {
				return false
			}
			time.Sleep(100 * time.Microsecond)
		}
		return true
	}
	seenBase := map[string]int{}
	pro := func(m *ref9p.Msg) error {
		key := script.Key(m)
		if m.Type == ref9p.Tversion {
			key = "Tversion"
		}
		seenBase[key]++
		if err := rpc(m); err != nil {
			return err
		}
		if !unlinked(key, seenBase[key]) {
			return hang("prologue: " + key + " was answered but is not retired")
		}
		return nil
	}
	steps := []*ref9p.Msg{
		{Type: ref9p.Tversion, Tag: ref9p.NOTAG, Msize: 8192, Version: pipeVersion(dotu)},
		{Type: ref9p.Tattach, Tag: 1, Fid: 0, Afid: ref9p.NOFID, Uname: "alice", Nuname: 1001},
		{Type: ref9p.Twalk, Tag: 1, Fid: 0, Newfid: 1, Wname: []string{"fmid"}},
		{Type: ref9p.Topen, Tag: 1, Fid: 1, Mode: 2},
	}
	var items []*midItem
	for i, rq := range p.Wave1 {
		it := &midItem{spec: rq, id: uint64(1000 + i)}
		fid := uint32(it.id)
		own := func() {
			steps = append(steps, &ref9p.Msg{Type: ref9p.Twalk, Tag: 1, Fid: 0, Newfid: fid, Wname: []string{fmt.Sprintf("f%d", fid)}})
		}
		switch rq.Kind {
		case "read":
			it.msg = &ref9p.Msg{Type: ref9p.Tread, Fid: 1, Offset: it.id, Count: uint32(16 + 3*i)}
		case "write":
			it.msg = &ref9p.Msg{Type: ref9p.Twrite, Fid: 1, Offset: it.id, Data: pipeFill(it.id, uint32(5+i))}
		case "stat":
			own()
			it.msg = &ref9p.Msg{Type: ref9p.Tstat, Fid: fid}
		case "clunk":
			own()
			it.msg = &ref9p.Msg{Type: ref9p.Tclunk, Fid: fid}
		case "open":
			own()
			it.msg = &ref9p.Msg{Type: ref9p.Topen, Fid: fid, Mode: 0}
		case "walk":
			it.msg = &ref9p.Msg{Type: ref9p.Twalk, Fid: 0, Newfid: fid, Wname: []string{fmt.Sprintf("d%d", fid), "fleaf"}}
		default:
			return fmt.Errorf("harness: unknown kind %q", rq.Kind)
		}
		it.msg.Tag = rq.Tag
		it.key = script.Key(it.msg)
		a := miniExpected(ref9p.Canon(it.msg, dotu), rq.Behav)
		am := *a
		am.Tag = rq.Tag
		it.want = ref9p.Encode(&am, dotu)
		items = append(items, it)
	}
	for _, m := range steps {
		if err := pro(m); err != nil {
			return err
		}
	}
	conn := ops.conn(script.ConnID("c03-midv"))
	if conn == nil {
		return fmt.Errorf("harness: connection not found")
	}
	if n, _ := conn.VerifCounts(); n != 0 {
		return fmt.Errorf("%d requests are registered on the connection although every request of the prologue was answered and has left Respond", n)
	}
	// the prologue is over: plan wave 1
	ops.mu.Lock()
	ops.calls, ops.over, ops.answer = map[uint64]int{}, map[uint64]int{}, map[uint64]*ref9p.Msg{}
	ops.mu.Unlock()
	byTag := map[uint16]*midItem{}
	for _, it := range items {
		ops.set(it.id, it.spec.Behav)
		byTag[it.spec.Tag] = it
	}
	vmsg := &ref9p.Msg{Type: ref9p.Tversion, Tag: p.VTag, Msize: 8192, Version: pipeVersion(dotu)}
	var stream []byte
	for _, it := range items {
		stream = append(stream, ref9p.Encode(it.msg, dotu)...)
	}
	nver := 1
	if p.Twice {
		nver = 2
	}
	gotVer := 0
	// take accounts one frame that is not a fence's reply
	take := func(f []byte, phase string) error {
		m, _, derr := ref9p.Decode(f, dotu)
		if derr != nil {
			return fmt.Errorf("%s: the server sent a frame that does not decode strictly: %v: %x", phase, derr, clip(f))
		}
		if m.Tag == p.VTag && (m.Type == ref9p.Rversion || byTag[m.Tag] == nil) {
			if m.Type != ref9p.Rversion || m.Msize != 8192 || m.Version != pipeVersion(dotu) {
				return fmt.Errorf("%s: the Tversion (tag %d) was answered %x", phase, p.VTag, clip(f))
			}
			gotVer++
			if gotVer > nver {
				return fmt.Errorf("%s: %d replies to %d Tversion (tag %d)", phase, gotVer, nver, p.VTag)
			}
			return nil
		}
		it := byTag[m.Tag]
		if it == nil {
			return fmt.Errorf("%s: reply %s with tag %d, which has no outstanding request", phase, ref9p.TypeName(m.Type), m.Tag)
		}
		it.replies++
		if it.replies > 1 {
			return fmt.Errorf("%s: second reply (%s) for tag %d (%s)", phase, ref9p.TypeName(m.Type), m.Tag, it.key)
		}
		if !bytes.Equal(f, it.want) {
			return fmt.Errorf("%s: the reply to %s (tag %d) is not what the implementation produced:\n got  %x\n want %x", phase, it.key, m.Tag, clip(f), clip(it.want))
		}
		return nil
	}
	readUntil := func(phase string, cond func() bool) error {
		for !cond() {
			f, err := h.NextFrame(deadline)
			if err == xport.ErrTimeout {
				return hang(phase + ": no further reply")
			}
			if err != nil {
				return fmt.Errorf("%s: the connection ended: %v", phase, err)
			}
			if err := take(f, phase); err != nil {
				return err
			}
		}
		return nil
	}
	var vstream []byte
	for i := 0; i < nver; i++ {
		vstream = append(vstream, ref9p.Encode(vmsg, dotu)...)
	}
	if p.When == "adjacent" {
		if _, err := h.Write(append(stream, vstream...)); err != nil {
			return fmt.Errorf("harness: write: %v", err)
		}
	} else {
		if _, err := h.Write(stream); err != nil {
			return fmt.Errorf("harness: write: %v", err)
		}
		for _, it := range items {
			if it.spec.Behav.Park != "" {
				if !ops.waitEntered(it.id, deadline) {
					return hang(fmt.Sprintf("%s (tag %d) never reached the implementation", it.key, it.spec.Tag))
				}
				continue
			}
			it := it
			if err := readUntil("before the Tversion", func() bool { return it.replies > 0 }); err != nil {
				return err
			}
		}
		for _, it := range items {
			if it.replies > 0 {
				it.ended = true
			}
		}
		if _, err := h.Write(vstream); err != nil {
			return fmt.Errorf("harness: write: %v", err)
		}
	}
	// Waiting for the Rversion(s). A missing Rversion is decided without a clock:
	// a request passes respond.unlinked only behind the point at which its reply
	// is handed to the connection's single sender (or dropped), so once every
	// Tversion has been seen there, a fence request is sent on a tag of its own;
	// its reply is handed to the sender later, hence written later: an Rversion
	// that has not been read when the fence's reply arrives will never come.
	// (The 2 ms poll only paces the look at the schedule point.)
	{
		const phase = "waiting for Rversion"
		verTarget := seenBase["Tversion"] + nver
		fenceSent, fenced := false, false
		t0 := time.Now()
		for gotVer < nver || (fenceSent && !fenced) {
			f, err := h.NextFrame(2 * time.Millisecond)
			if err == xport.ErrTimeout {
				if !fenceSent && ctl.Seen("Tversion", "respond.unlinked") >= verTarget {
					if err := sendm(&ref9p.Msg{Type: ref9p.Tclunk, Tag: 0x3004, Fid: 0x7005}); err != nil {
						return fmt.Errorf("harness: write: %v", err)
					}
					fenceSent = true
				}
				if time.Since(t0) > deadline {
					return hang(phase + ": no further reply")
				}
				continue
			}
			if err != nil {
				return fmt.Errorf("%s: the connection ended: %v", phase, err)
			}
			if fenceSent && !fenced {
				if r, _, derr := ref9p.Decode(f, dotu); derr == nil && r.Tag == 0x3004 {
					fenced = true
					if gotVer < nver {
						return fmt.Errorf("the mid-session Tversion (tag %d, sent %d times) received %d replies carrying its tag: every Tversion has left Respond (schedule point respond.unlinked, which lies behind the hand-over of the reply to the sender), and a request sent after that has been answered", p.VTag, nver, gotVer)
					}
					continue
				}
			}
			if err := take(f, phase); err != nil {
				return err
			}
		}
		if fenceSent && !unlinked("Tclunk/28677", 1) {
			return hang("the fence request behind the Tversion was answered but is not retired")
		}
	}
	// ---- wave 2: one request per tag of wave 1, and some on tags of their own,
	// on fids bound after the restart
	type w2 struct {
		msg  *ref9p.Msg
		want []byte
		got  int
	}
	var wave2 []*w2
	w2ByTag := map[uint16]*w2{}
	w2tags := []uint16{}
	for _, it := range items {
		w2tags = append(w2tags, it.spec.Tag)
	}
	for j, nt := 0, uint16(0x4000); j < p.Extra2; nt++ {
		if byTag[nt] == nil && nt != p.VTag {
			w2tags = append(w2tags, nt)
			j++
		}
	}
	for j, tag := range w2tags {
		id := uint64(2000 + j)
		var m *ref9p.Msg
		if j%3 == 1 {
			m = &ref9p.Msg{Type: ref9p.Twrite, Tag: tag, Fid: 501, Offset: id, Data: pipeFill(id, uint32(3+j))}
		} else {
			m = &ref9p.Msg{Type: ref9p.Tread, Tag: tag, Fid: 501, Offset: id, Count: uint32(20 + j)}
		}
		a := miniExpected(ref9p.Canon(m, dotu), MBehav{})
		am := *a
		am.Tag = tag
		w := &w2{msg: m, want: ref9p.Encode(&am, dotu)}
		wave2 = append(wave2, w)
		w2ByTag[tag] = w
	}
	sendWave2 := func() error {
		// from here on a frame with a tag of wave 1 belongs to wave 2
		for _, m := range []*ref9p.Msg{
			{Type: ref9p.Tattach, Tag: 0x3001, Fid: 500, Afid: ref9p.NOFID, Uname: "alice", Nuname: 1001},
			{Type: ref9p.Twalk, Tag: 0x3001, Fid: 500, Newfid: 501, Wname: []string{"fafter"}},
			{Type: ref9p.Topen, Tag: 0x3001, Fid: 501, Mode: 2},
		} {
			if err := sendm(m); err != nil {
				return fmt.Errorf("harness: write: %v", err)
			}
			for {
				f, err := h.NextFrame(deadline)
				if err == xport.ErrTimeout {
					return hang("after the Tversion: no reply to " + ref9p.TypeName(m.Type))
				}
				if err != nil {
					return fmt.Errorf("after the Tversion: the connection ended: %v", err)
				}
				r, _, derr := ref9p.Decode(f, dotu)
				if derr == nil && r.Tag == 0x3001 {
					if r.Type != m.Type+1 {
						return fmt.Errorf("after the Tversion: %s answered %x", ref9p.TypeName(m.Type), clip(f))
					}
					if !unlinked(script.Key(m), 1) {
						return hang("after the Tversion: " + script.Key(m) + " was answered but is not retired")
					}
					break
				}
				if err := take(f, "after the Tversion"); err != nil {
					return err
				}
			}
		}
		var s2 []byte
		for _, w := range wave2 {
			s2 = append(s2, ref9p.Encode(w.msg, dotu)...)
		}
		_, err := h.Write(s2)
		if err != nil {
			return fmt.Errorf("harness: write: %v", err)
		}
		return nil
	}
	// take2 accounts a frame once wave 2 is out: its tags belong to wave 2 now
	take2 := func(f []byte, phase string) error {
		m, _, derr := ref9p.Decode(f, dotu)
		if derr != nil {
			return fmt.Errorf("%s: the server sent a frame that does not decode strictly: %v: %x", phase, derr, clip(f))
		}
		w := w2ByTag[m.Tag]
		if w == nil {
			return fmt.Errorf("%s: reply %s with tag %d, which has no outstanding request", phase, ref9p.TypeName(m.Type), m.Tag)
		}
		w.got++
		if w.got > 1 {
			return fmt.Errorf("%s: second reply (%s) for tag %d (%s)", phase, ref9p.TypeName(m.Type), m.Tag, script.Key(w.msg))
		}
		if !bytes.Equal(f, w.want) {
			return fmt.Errorf("%s: the reply to %s (tag %d, sent after the Rversion) is not what the implementation produced for it:\n got  %x\n want %x", phase, script.Key(w.msg), m.Tag, clip(f), clip(w.want))
		}
		return nil
	}
	release := func() error {
		done := map[int]bool{}
		for _, i := range p.Release {
			if i >= 0 && i < len(items) && !done[i] {
				done[i] = true
				ops.release(items[i].id)
			}
		}
		ops.releaseAll()
		// every request of wave 1 that reached the implementation: its answering call returns
		t0 := time.Now()
		for _, it := range items {
			for {
				calls, over, _ := ops.counts(it.id)
				if calls > 1 {
					return fmt.Errorf("%s (tag %d) was handed to the implementation %d times", it.key, it.spec.Tag, calls)
				}
				if calls > 0 && over >= calls {
					// Respond runs inside the answering call: the request has been retired
					if ctl.Seen(it.key, "respond.unlinked") == 0 {
						return fmt.Errorf("%s (tag %d, outstanding at the mid-session Tversion): the implementation's answering call has returned, but the request was not retired (it never left Respond): it stays registered, and a request re-using tag %d is queued behind it", it.key, it.spec.Tag, it.spec.Tag)
					}
					break
				}
				if calls == 0 && ctl.Seen(it.key, "respond.unlinked") > 0 {
					break // aborted before it started
				}
				if time.Since(t0) > deadline {
					return hang(fmt.Sprintf("%s (tag %d): handed to the implementation %d times, answering calls returned %d, passed the unlinking in Respond %d times", it.key, it.spec.Tag, calls, over, ctl.Seen(it.key, "respond.unlinked")))
				}
				time.Sleep(100 * time.Microsecond)
			}
		}
		return nil
	}
	if !unlinked("Tversion", seenBase["Tversion"]+nver) {
		return hang("the Tversion was answered but is not retired")
	}
	if p.ReuseEarly && p.When == "entered" {
		if err := sendWave2(); err != nil {
			return err
		}
		if err := release(); err != nil {
			return err
		}
	} else {
		if err := release(); err != nil {
			return err
		}
		// a fence on a tag of its own: replies of wave 1 that are still to come precede its reply
		if err := sendm(&ref9p.Msg{Type: ref9p.Tclunk, Tag: 0x3002, Fid: 0x7003}); err != nil {
			return fmt.Errorf("harness: write: %v", err)
		}
		fenced := false
		for !fenced {
			f, err := h.NextFrame(deadline)
			if err == xport.ErrTimeout {
				return hang("after the release: no reply to the fence request")
			}
			if err != nil {
				return fmt.Errorf("after the release: the connection ended: %v", err)
			}
			if r, _, derr := ref9p.Decode(f, dotu); derr == nil && r.Tag == 0x3002 {
				fenced = true
				continue
			}
			if err := take(f, "after the release"); err != nil {
				return err
			}
		}
		if !unlinked("Tclunk/28675", 1) {
			return hang("the fence request was answered but is not retired")
		}
		// every request sent so far has left Respond or its answering call has returned
		if n, _ := conn.VerifCounts(); n != 0 {
			return fmt.Errorf("%d requests stay registered on the connection after the mid-session Tversion although the implementation's answering call has returned for every request that reached it and every other request has left Respond: a request re-using such a tag is queued behind a request that will never be retired", n)
		}
		if err := sendWave2(); err != nil {
			return err
		}
	}
	// ---- every request of wave 2 gets exactly one reply
	for {
		n := 0
		for _, w := range wave2 {
			if w.got > 0 {
				n++
			}
		}
		if n == len(wave2) {
			break
		}
		f, err := h.NextFrame(deadline)
		if err == xport.ErrTimeout {
			var miss []string
			for _, w := range wave2 {
				if w.got == 0 {
					miss = append(miss, fmt.Sprintf("%s tag %d", script.Key(w.msg), w.msg.Tag))
				}
			}
			return hang(fmt.Sprintf("requests sent after the Rversion got no reply: %v", miss))
		}
		if err != nil {
			return fmt.Errorf("after the Tversion: the connection ended: %v", err)
		}
		if err := take2(f, "wave 2"); err != nil {
			return err
		}
	}
	for _, w := range wave2 {
		if !unlinked(script.Key(w.msg), 1) {
			return hang("a request of wave 2 was answered but is not retired")
		}
	}
	// final fence: nothing else arrives
	if err := sendm(&ref9p.Msg{Type: ref9p.Tclunk, Tag: 0x3003, Fid: 0x7004}); err != nil {
		return fmt.Errorf("harness: write: %v", err)
	}
	for {
		f, err := h.NextFrame(deadline)
		if err == xport.ErrTimeout {
			return hang("no reply to the final fence request")
		}
		if err != nil {
			return fmt.Errorf("the connection ended before the final fence reply: %v", err)
		}
		if r, _, derr := ref9p.Decode(f, dotu); derr == nil && r.Tag == 0x3003 {
			break
		}
		if err := take2(f, "at the end"); err != nil {
			return err
		}
	}
	if !unlinked("Tclunk/28676", 1) {
		return hang("the final fence request was answered but is not retired")
	}
	for _, it := range items {
		calls, _, _ := ops.counts(it.id)
		if calls > 1 {
			return fmt.Errorf("%s (tag %d) was handed to the implementation %d times", it.key, it.spec.Tag, calls)
		}
		if it.ended && it.replies != 1 {
			return fmt.Errorf("%s (tag %d) received %d replies", it.key, it.spec.Tag, it.replies)
		}
	}
	if n, _ := conn.VerifCounts(); n != 0 {
		return fmt.Errorf("%d requests stay registered on the connection at the end although every request has been answered and has left Respond", n)
	}
	parked := 0
	for _, it := range items {
		if it.spec.Behav.Park != "" {
			parked++
		}
	}
	hx.ExtraAdd("midversion_requests_parked_at_tversion", int64(parked))
	return nil
}

var midKinds = []string{"read", "write", "stat", "clunk", "walk", "open"}

func genMidV(t *rapid.T) *Case {
	c := &Case{Dotu: rapid.Bool().Draw(t, "dotu"), Maxpend: rapid.SampledFrom([]int{0, 4}).Draw(t, "maxpend")}
	p := &MidVPlan{When: rapid.SampledFrom([]string{"entered", "entered", "adjacent"}).Draw(t, "when")}
	n := rapid.IntRange(1, 6).Draw(t, "n1")
	tags := map[uint16]bool{}
	var parked []int
	for i := 0; i < n; i++ {
		var tag uint16
		for {
			tag = rapid.OneOf(rapid.SampledFrom([]uint16{0, 1, 2, 0x7FFF, 0xFFFE}), rapid.Uint16Range(0, 0x2FFF)).Draw(t, "tag")
			if !tags[tag] {
				break
			}
		}
		tags[tag] = true
		rq := MidVReq{Kind: rapid.SampledFrom(midKinds).Draw(t, "kind"), Tag: tag}
		rq.Behav.Park = rapid.SampledFrom([]string{"inside", "inside", "deferred", "deferred", ""}).Draw(t, "park")
		rq.Behav.Err = rapid.IntRange(0, 3).Draw(t, "err") == 0
		rq.Behav.Bare = rapid.IntRange(0, 3).Draw(t, "bare") == 0
		if rq.Behav.Park != "" {
			parked = append(parked, i)
		}
		p.Wave1 = append(p.Wave1, rq)
	}
	for {
		p.VTag = rapid.SampledFrom([]uint16{ref9p.NOTAG, ref9p.NOTAG, 0, 5, 0x2222, 0xFFFE}).Draw(t, "vtag")
		if !tags[p.VTag] {
			break
		}
	}
	p.Release = rapid.Permutation(parked).Draw(t, "release")
	// (only when no request of wave 1 can be on its way to the sender at the
	// Tversion: its reply behind the Rversion could not be told from wave 2's)
	p.ReuseEarly = rapid.IntRange(0, 2).Draw(t, "reuseearly") == 0 && p.When == "entered"
	p.Extra2 = rapid.IntRange(0, 3).Draw(t, "extra2")
	p.Twice = rapid.IntRange(0, 5).Draw(t, "twice") == 0
	c.MidV = p
	return c
}

func midvNontrivial(p *MidVPlan) bool {
	for _, rq := range p.Wave1 {
		if rq.Behav.Park != "" {
			return true
		}
	}
	return false
}

func executeMidV(test string, c *Case) error {
	p := c.MidV
	if midvNontrivial(p) {
		b, _ := json.Marshal(c)
		hx.NonTrivial(b)
	}
	for _, rq := range p.Wave1 {
		park := rq.Behav.Park
		if park == "" {
			park = "none"
		}
		hx.Label(fmt.Sprintf("midversion %s park=%s bare=%v", p.When, park, rq.Behav.Bare))
		hx.Label("midversion kind=" + rq.Kind)
	}
	hx.Label(fmt.Sprintf("midversion reuse_early=%v twice=%v notag=%v", p.ReuseEarly, p.Twice, p.VTag == ref9p.NOTAG))
	hx.Sample(test, c)
	return verdict(runMidV(c))
}

func TestPropMidVersion(t *testing.T) {
	hx.Check(t, "midversion", hx.N(250, 2500), func(t *rapid.T) {
		c := genMidV(t)
		if err := execute("midversion", c); err != nil {
			hx.Failf(t, "midversion", c, "%v", err)
		}
	})
}

// TestEnumMidVersion: the table kind x parking x way of answering, one parked
// request under a Tversion, the tag re-used afterwards.
func TestEnumMidVersion(t *testing.T) {
	idx := 0
	for _, kind := range midKinds {
		for _, park := range []string{"inside", "deferred"} {
			for _, bare := range []bool{false, true} {
				for _, errAns := range []bool{false, true} {
					for _, early := range []bool{false, true} {
						idx++
						if hx.NShards > 1 && idx%hx.NShards != hx.Shard {
							continue
						}
						c := &Case{Dotu: idx%2 == 0, Maxpend: []int{0, 4}[(idx/2)%2], MidV: &MidVPlan{
							Wave1:   []MidVReq{{Kind: kind, Tag: uint16(1 + idx%5), Behav: MBehav{Park: park, Bare: bare, Err: errAns}}},
							When:    "entered",
							VTag:    []uint16{ref9p.NOTAG, 9}[(idx/4)%2],
							Release: []int{0}, ReuseEarly: early, Extra2: 1,
						}}
						if err := execute("midversionenum", c); err != nil {
							hx.Violation("midversionenum", c, err.Error())
							t.Fatalf("%+v: %v", c.MidV, err)
						}
					}
				}
			}
		}
	}
	hx.Exhaustive("mid-session Tversion over one parked request: 6 request types x parked inside the operation / answer deferred x answer through the helper / packed by hand x success / Rerror x tag re-used before / after the release")
}
