package c03

// A small file-server implementation of the check's own (the scripted one of
// internal/script logs several entries per request under one mutex, which is
// what a volume test must not do): in its fast mode it answers reads, writes
// and errors as a pure function of the request's offset and counts
// invocations in a table of atomics; in its planned mode a request can be
// parked inside the operation, or the operation returns and the answer is
// deferred to another goroutine that waits for the harness, and the answer is
// given through the packing helpers or packed by hand and sent with a bare
// Respond().

import (
	"fmt"
	"sync"
	"sync/atomic"
	"time"

	"github.com/rminnich/go9p"
	"verif/internal/conv"
	"verif/internal/hx"
	"verif/internal/ref9p"
	"verif/internal/script"
)

// MBehav is what a planned request does.
type MBehav struct {
	Park string `json:"park,omitempty"` // "" | "inside" (parked in the operation) | "deferred" (operation returns, the answer comes from another goroutine once released)
	Err  bool   `json:"err,omitempty"`  // answer Rerror
	Bare bool   `json:"bare,omitempty"` // the answer is packed by hand into req.Rc and sent with a bare Respond()
}

type miniOps struct {
	// fast mode
	inv []atomic.Uint32 // invocations per sequence number (offset of the Tread / Twrite)
	mix uint64

	// planned mode
	mu      sync.Mutex
	plan    map[uint64]MBehav
	gates   map[uint64]chan struct{}
	entered map[uint64]chan struct{}
	calls   map[uint64]int
	over    map[uint64]int // answers whose helper / Respond call has returned
	answer  map[uint64]*ref9p.Msg

	cmu   sync.Mutex
	conns map[string]*go9p.Conn
}

func newMini() *miniOps {
	return &miniOps{plan: map[uint64]MBehav{}, gates: map[uint64]chan struct{}{}, entered: map[uint64]chan struct{}{}, calls: map[uint64]int{}, over: map[uint64]int{}, answer: map[uint64]*ref9p.Msg{}, conns: map[string]*go9p.Conn{}}
}

var miniLog *go9p.Logger
var miniLogOnce sync.Once

func (o *miniOps) server(dotu bool, maxpend int) *go9p.Srv {
	miniLogOnce.Do(func() { miniLog = go9p.NewLogger(16) })
	srv := &go9p.Srv{Msize: 8192, Dotu: dotu, Maxpend: maxpend, Upool: script.Users{}, Id: "mini", Log: miniLog}
	if !srv.Start(o) {
		panic("mini: Srv.Start refused the ops value")
	}
	return srv
}

func (o *miniOps) ConnOpened(c *go9p.Conn) {
	o.cmu.Lock()
	o.conns[c.Id] = c
	o.cmu.Unlock()
}
func (o *miniOps) ConnClosed(c *go9p.Conn) {}

func (o *miniOps) conn(id string) *go9p.Conn {
	o.cmu.Lock()
	defer o.cmu.Unlock()
	return o.conns[id]
}

// ---- fast mode: the answer to sequence number s

const (
	pkRead = iota
	pkWrite
	pkError
)

func pipeKind(mix, s uint64) (kind int, n uint32) {
	x := hx.Mix(mix, s)
	n = uint32(x>>8) % 56
	if (x>>40)%16 == 0 {
		n = 200 + uint32(x>>20)%1800 // now and then a long one: recycled reply buffers change length
	}
	switch x % 8 {
	case 0:
		return pkError, n
	case 1, 2:
		return pkWrite, n
	}
	return pkRead, n
}

func pipeFill(s uint64, n uint32) []byte {
	b := make([]byte, n)
	x := s*0x9E3779B97F4A7C15 | 1
	for i := range b {
		if i < 8 {
			b[i] = byte(s >> (8 * uint(i)))
			continue
		}
		x ^= x << 13
		x ^= x >> 7
		x ^= x << 17
		b[i] = byte(x >> 24)
	}
	return b
}

func pipeRequest(mix, s uint64, tag uint16) *ref9p.Msg {
	k, n := pipeKind(mix, s)
	if k == pkWrite {
		return &ref9p.Msg{Type: ref9p.Twrite, Tag: tag, Fid: 1, Offset: s, Data: pipeFill(s^0x5555, n)}
	}
	return &ref9p.Msg{Type: ref9p.Tread, Tag: tag, Fid: 1, Offset: s, Count: n}
}

func pipeAnswer(mix, s uint64) *ref9p.Msg {
	k, n := pipeKind(mix, s)
	switch k {
	case pkError:
		return &ref9p.Msg{Type: ref9p.Rerror, Ename: fmt.Sprintf("no such block %d", s), Ecode: uint32(s%120) + 1}
	case pkWrite:
		return &ref9p.Msg{Type: ref9p.Rwrite, Count: n}
	}
	return &ref9p.Msg{Type: ref9p.Rread, Data: pipeFill(s, n)}
}

func (o *miniOps) fast(req *go9p.SrvReq) {
	s := req.Tc.Offset
	if s < uint64(len(o.inv)) {
		o.inv[s].Add(1)
	}
	k, n := pipeKind(o.mix, s)
	switch k {
	case pkError:
		req.RespondError(&go9p.Error{Err: fmt.Sprintf("no such block %d", s), Errornum: uint32(s%120) + 1})
	case pkWrite:
		req.RespondRwrite(uint32(len(req.Tc.Data)))
	default:
		req.RespondRread(pipeFill(s, n))
	}
}

// ---- planned mode

// idOf: reads and writes are identified by their offset, everything else by
// the fid they work on (a Twalk by its newfid).
func idOf(m *ref9p.Msg) uint64 {
	switch m.Type {
	case ref9p.Tread, ref9p.Twrite:
		return m.Offset
	case ref9p.Twalk:
		return uint64(m.Newfid)
	}
	return uint64(m.Fid)
}

func (o *miniOps) set(id uint64, b MBehav) {
	o.mu.Lock()
	o.plan[id] = b
	if b.Park != "" {
		o.gates[id] = make(chan struct{})
	}
	o.entered[id] = make(chan struct{})
	o.mu.Unlock()
}

func (o *miniOps) release(id uint64) {
	o.mu.Lock()
	g := o.gates[id]
	delete(o.gates, id)
	o.mu.Unlock()
	if g != nil {
		close(g)
	}
}

func (o *miniOps) releaseAll() {
	o.mu.Lock()
	gs := o.gates
	o.gates = map[uint64]chan struct{}{}
	o.mu.Unlock()
	for _, g := range gs {
		close(g)
	}
}

func (o *miniOps) waitEntered(id uint64, d time.Duration) bool {
	o.mu.Lock()
	ch := o.entered[id]
	o.mu.Unlock()
	if ch == nil {
		return false
	}
	select {
	case <-ch:
		return true
	case <-time.After(d):
		return false
	}
}

func (o *miniOps) counts(id uint64) (calls, over int, a *ref9p.Msg) {
	o.mu.Lock()
	defer o.mu.Unlock()
	return o.calls[id], o.over[id], o.answer[id]
}

func miniRespond(req *go9p.SrvReq, a *ref9p.Msg, bare bool) {
	if bare {
		if conv.Pack(req.Rc, a, req.Conn.Dotu) == nil {
			req.Respond()
			return
		}
	}
	switch a.Type {
	case ref9p.Rerror:
		req.RespondError(&go9p.Error{Err: a.Ename, Errornum: a.Ecode})
	case ref9p.Rattach:
		q := conv.GQid(a.Qid)
		req.RespondRattach(&q)
	case ref9p.Rwalk:
		qs := make([]go9p.Qid, len(a.Wqid))
		for i, q := range a.Wqid {
			qs[i] = conv.GQid(q)
		}
		req.RespondRwalk(qs)
	case ref9p.Ropen:
		q := conv.GQid(a.Qid)
		req.RespondRopen(&q, a.Iounit)
	case ref9p.Rcreate:
		q := conv.GQid(a.Qid)
		req.RespondRcreate(&q, a.Iounit)
	case ref9p.Rread:
		req.RespondRread(a.Data)
	case ref9p.Rwrite:
		req.RespondRwrite(a.Count)
	case ref9p.Rclunk:
		req.RespondRclunk()
	case ref9p.Rremove:
		req.RespondRremove()
	case ref9p.Rstat:
		req.RespondRstat(conv.GDir(&a.Stat))
	case ref9p.Rwstat:
		req.RespondRwstat()
	}
}

// miniExpected is the answer of the planned mode: a pure function of the request.
func miniExpected(m *ref9p.Msg, b MBehav) *ref9p.Msg {
	var sb script.Behav
	if b.Err {
		sb.Err, sb.Ecode = fmt.Sprintf("refused %d", idOf(m)), uint32(idOf(m)%100)+1
	}
	return script.ExpectedAnswer(m, sb, 0)
}

func (o *miniOps) op(req *go9p.SrvReq) {
	if o.inv != nil && (req.Tc.Type == go9p.Tread || req.Tc.Type == go9p.Twrite) {
		o.fast(req)
		return
	}
	m := ref9p.Canon(conv.FromFcall(req.Tc), req.Conn.Dotu)
	id := idOf(m)
	o.mu.Lock()
	b := o.plan[id]
	gate := o.gates[id]
	o.calls[id]++
	a := miniExpected(m, b)
	if o.answer[id] == nil {
		o.answer[id] = a
	}
	if ent := o.entered[id]; ent != nil {
		select {
		case <-ent:
		default:
			close(ent)
		}
	}
	o.mu.Unlock()
	finish := func() {
		miniRespond(req, a, b.Bare)
		o.mu.Lock()
		o.over[id]++
		o.mu.Unlock()
	}
	switch {
	case b.Park == "inside" && gate != nil:
		<-gate
		finish()
	case b.Park == "deferred" && gate != nil:
		go func() {
			<-gate
			finish()
		}()
	default:
		finish()
	}
}

func (o *miniOps) Attach(r *go9p.SrvReq) { o.op(r) }
func (o *miniOps) Walk(r *go9p.SrvReq)   { o.op(r) }
func (o *miniOps) Open(r *go9p.SrvReq)   { o.op(r) }
func (o *miniOps) Create(r *go9p.SrvReq) { o.op(r) }
func (o *miniOps) Read(r *go9p.SrvReq)   { o.op(r) }
func (o *miniOps) Write(r *go9p.SrvReq)  { o.op(r) }
func (o *miniOps) Clunk(r *go9p.SrvReq)  { o.op(r) }
func (o *miniOps) Remove(r *go9p.SrvReq) { o.op(r) }
func (o *miniOps) Stat(r *go9p.SrvReq)   { o.op(r) }
func (o *miniOps) Wstat(r *go9p.SrvReq)  { o.op(r) }
