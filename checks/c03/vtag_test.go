package c03

// A Tversion is a request like any other as far as "exactly one reply
// carrying that tag" goes: whatever tag it carries (the convention is NOTAG,
// the codec and the server accept any), it gets one reply with that tag. The
// session also continues: requests sent behind it are answered.

import (
	"fmt"
	"testing"

	"verif/internal/hx"
	"verif/internal/rawc"
	"verif/internal/ref9p"
	"verif/internal/script"
)

type VTagPlan struct {
	Tag     uint16 `json:"tag"`
	Version string `json:"version"`
	Msize   uint32 `json:"msize"`
	Again   bool   `json:"again,omitempty"` // a second Tversion with the same tag later in the session
	Bad     bool   `json:"bad,omitempty"`   // msize below the minimum: the one reply is an Rerror
}

func runVTag(c *Case) error {
	p := c.VTag
	sv := script.NewServer(script.Config{Msize: 8192, Dotu: true, Maxpend: c.Maxpend})
	cl := rawc.New(sv.Dial("c03-vtag"))
	cl.Timeout = deadline
	defer cl.Close()
	defer sv.S.ReleaseAll()
	one := func(when string) error {
		msize := p.Msize
		if p.Bad {
			msize = 7
		}
		if err := cl.Send(&ref9p.Msg{Type: ref9p.Tversion, Tag: p.Tag, Msize: msize, Version: p.Version}); err != nil {
			return fmt.Errorf("harness: send: %v", err)
		}
		// the fence: a request that is always answered (unknown fid), on a tag of its own
		ftag := uint16(0x2222)
		if ftag == p.Tag {
			ftag++
		}
		if err := cl.Send(&ref9p.Msg{Type: ref9p.Tclunk, Tag: ftag, Fid: 0x7777}); err != nil {
			return fmt.Errorf("harness: send: %v", err)
		}
		got := 0
		for {
			f, err := cl.RecvRaw(deadline)
			if err == rawc.ErrTimeout {
				return hangErr(fmt.Sprintf("%s: neither the reply to Tversion (tag %d) nor the reply to the request behind it arrived", when, p.Tag))
			}
			if err != nil {
				return fmt.Errorf("%s: Tversion tag %d msize %d %q: the connection ended (%v) after %d replies to it", when, p.Tag, msize, p.Version, err, got)
			}
			// a reply to Tversion has no dialect-dependent field unless it is an
			// Rerror, and the dialect in force is what this Tversion asked for
			m, _, derr := ref9p.Decode(f, false)
			if derr != nil {
				m, _, derr = ref9p.Decode(f, true)
			}
			if derr != nil {
				return fmt.Errorf("%s: the server sent a frame that does not decode: %v: %x", when, derr, f)
			}
			switch {
			case m.Tag == p.Tag && (m.Type == ref9p.Rversion || m.Type == ref9p.Rerror):
				got++
				if p.Bad != (m.Type == ref9p.Rerror) {
					return fmt.Errorf("%s: Tversion tag %d msize %d answered %s", when, p.Tag, msize, ref9p.TypeName(m.Type))
				}
			case m.Tag == ftag:
				if got != 1 {
					return fmt.Errorf("%s: Tversion with tag %d (msize %d, %q) received %d replies carrying its tag; the request sent behind it has been answered", when, p.Tag, msize, p.Version, got)
				}
				return nil
			default:
				return fmt.Errorf("%s: reply %s with tag %d, which has no outstanding request", when, ref9p.TypeName(m.Type), m.Tag)
			}
		}
	}
	if err := one("at session start"); err != nil {
		return err
	}
	if p.Again {
		return one("a second time")
	}
	return nil
}

func TestEnumVersionTags(t *testing.T) {
	idx := 0
	for _, tag := range []uint16{ref9p.NOTAG, 0, 1, 7, 0x2222, 0xFFFE} {
		for _, ver := range []string{"9P2000", "9P2000.u", "9P1999"} {
			for _, again := range []bool{false, true} {
				for _, bad := range []bool{false, true} {
					idx++
					if hx.NShards > 1 && idx%hx.NShards != hx.Shard {
						continue
					}
					c := &Case{Dotu: ver == "9P2000.u", Maxpend: []int{0, 4}[idx%2], VTag: &VTagPlan{Tag: tag, Version: ver, Msize: []uint32{8192, 256, 65536}[idx%3], Again: again, Bad: bad}}
					if err := execute("versiontags", c); err != nil {
						hx.Violation("versiontags", c, err.Error())
						t.Fatalf("%+v: %v", c.VTag, err)
					}
				}
			}
		}
	}
	hx.Exhaustive("Tversion carrying tag {NOTAG, 0, 1, 7, 0x2222, 0xFFFE} x version string {9P2000, 9P2000.u, 9P1999} x once / twice in the session x acceptable / too small msize, each followed by a fence request: exactly one reply with that tag")
}
