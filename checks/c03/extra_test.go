// C03, extra answers through the packing helpers.
//
// "an extra answer by the implementation to an already answered request
// produces no second reply": a file server answers through RespondRread,
// RespondError, ... (a bare Respond() is the exception), and every such helper
// packs the reply Fcall before it learns that the request was answered already.
// What the extra answer can disturb depends on where the FIRST reply is at that
// moment: not yet queued, waiting in the reply queue behind a slow reader, taken
// off the queue but not yet written, being written, written, or written long
// ago with its reply Fcall recycled into a later request whose reply is packed
// and waiting. Each of these stages is reached deterministically here (ordering
// constraints at the server's schedule points, the transport's write hook), for
// every request type, both kinds of extra answer (the same answer again / the
// other outcome), with other requests in flight.
package c03

import (
	"bytes"
	"fmt"
	"sync"
	"sync/atomic"
	"testing"
	"time"

	"pgregory.net/rapid"
	"verif/internal/hx"
	"verif/internal/rawc"
	"verif/internal/ref9p"
	"verif/internal/sched"
	"verif/internal/script"
)

// ExtraPlan: one target request that is answered twice, the second time
// through a packing helper, at stage Stage of the first reply's life.
type ExtraPlan struct {
	// Stage:
	//  direct      the extra answer follows the first directly (same goroutine), sender idle
	//  direct-slow the same while a slow reader keeps the sender in an earlier Write
	//              (Maxpend > 0: the first reply waits in the queue)
	//  posted      first Respond stopped before it queues the reply
	//  queued      first reply queued (Maxpend > 0) or being handed over (Maxpend 0)
	//              behind a slow reader; extra answer from another goroutine
	//  dequeued    sender stopped after taking the reply off the queue
	//  writing     the transport Write of the reply is in progress
	//  written     sender stopped after the Write, before the Fcall is recycled
	//  recycled    reply read by the client; later requests took the recycled
	//              Fcalls and their replies are packed, waiting behind a slow reader
	Stage   string    `json:"stage"`
	Target  ReqSpec   `json:"target"`
	Before  []ReqSpec `json:"before,omitempty"`  // in flight with the target, sent in front of it
	After   []ReqSpec `json:"after,omitempty"`   // ... behind it
	Later   []ReqSpec `json:"later,omitempty"`   // stage recycled: sent once the target's reply was read
	Release []int     `json:"release,omitempty"` // order in which held Before/After requests are released (indices into Before ++ target ++ After)
}

var extraStages = []string{"direct", "direct-slow", "posted", "queued", "dequeued", "writing", "written", "recycled"}

var stagePoint = map[string]string{"posted": "respond.posted", "dequeued": "send.dequeued", "written": "send.written"}

func extraGated(stage string) bool { return stage != "direct" && stage != "direct-slow" }

type xitem struct {
	spec  ReqSpec
	msg   *ref9p.Msg
	key   string
	want  *ref9p.Msg
	prep  string
	open  int
	check bool // a request of the case (not a blocker / fence of the harness)
}

type extraRun struct {
	c        *Case
	cl       *rawc.C
	byTag    map[uint16]*prepared
	answered map[uint16][]byte
}

func (r *extraRun) expect(it *xitem) {
	r.byTag[it.spec.Tag] = &prepared{spec: it.spec, msg: it.msg, key: it.key, want: it.want}
}

// pump accounts incoming frames until cond holds (hard: a deadline is a hang).
func (r *extraRun) pump(cond func() bool, d time.Duration, hard bool, what string) error {
	limit := time.Now().Add(d)
	for {
		for {
			f, err := r.cl.RecvRaw(200 * time.Microsecond)
			if err == rawc.ErrTimeout {
				break
			}
			if err != nil {
				return fmt.Errorf("connection ended while %s: %v", what, err)
			}
			if err := account(f, r.c.Dotu, r.byTag, r.answered); err != nil {
				return fmt.Errorf("while %s: %v", what, err)
			}
		}
		if cond() {
			return nil
		}
		if time.Now().After(limit) {
			if hard {
				return hang(fmt.Sprintf("%s: not reached after %v", what, d))
			}
			return nil
		}
	}
}

func runExtra(c *Case) error {
	p := c.Extra
	gated := extraGated(p.Stage)
	slow := p.Stage == "direct-slow" || p.Stage == "queued"
	var items, main, later []*xitem
	used := map[uint16]bool{}
	fid := uint32(100)
	mk := func(rs ReqSpec, target bool) (*xitem, error) {
		it := &xitem{spec: rs, check: true}
		if target {
			it.spec.Behav.Hold = false
			it.spec.Behav.DupGate = gated
			if it.spec.Behav.DupPack == 0 {
				it.spec.Behav.DupPack = 2
			}
		} else {
			it.spec.Behav.DupPack, it.spec.Behav.DupGate = 0, false
		}
		var err error
		if it.msg, it.prep, it.open, err = buildReq(rs.Kind, fid, rs.Arg); err != nil {
			return nil, err
		}
		fid += 2
		it.msg.Tag = rs.Tag
		it.key = script.Key(it.msg)
		it.want = script.ExpectedAnswer(ref9p.Canon(it.msg, c.Dotu), it.spec.Behav, fidType(rs.Kind))
		if used[rs.Tag] {
			return nil, fmt.Errorf("harness: tag %d drawn twice", rs.Tag)
		}
		used[rs.Tag] = true
		items = append(items, it)
		return it, nil
	}
	for _, rs := range p.Before {
		it, err := mk(rs, false)
		if err != nil {
			return err
		}
		main = append(main, it)
	}
	target, err := mk(p.Target, true)
	if err != nil {
		return err
	}
	main = append(main, target)
	for _, rs := range p.After {
		it, err := mk(rs, false)
		if err != nil {
			return err
		}
		main = append(main, it)
	}
	if p.Stage == "recycled" {
		for _, rs := range p.Later {
			rs.Behav.Hold = false
			it, err := mk(rs, false)
			if err != nil {
				return err
			}
			later = append(later, it)
		}
	}
	harnessTag := uint16(0xFFF0)
	newHarnessReq := func() *xitem {
		for used[harnessTag] {
			harnessTag--
		}
		used[harnessTag] = true
		m := &ref9p.Msg{Type: ref9p.Tstat, Fid: 0, Tag: harnessTag}
		return &xitem{spec: ReqSpec{Kind: "stat", Tag: harnessTag}, msg: m, key: script.Key(m)}
	}

	sv := script.NewServer(script.Config{Msize: 8192, Dotu: c.Dotu, Maxpend: c.Maxpend})
	var holds []sched.Hold
	if pt := stagePoint[p.Stage]; pt != "" {
		holds = append(holds, sched.Hold{Who: target.key, At: pt, UntilWho: "harness", UntilPoint: "go"})
	}
	ctl := sched.New(holds)
	ctl.Timeout = 2 * deadline // released by the harness, not by the clock
	defer sched.Install(ctl)()
	end, lib := sv.Dial2("c03")
	cl := rawc.New(end)
	defer cl.Close()
	defer sv.S.ReleaseAll()
	defer ctl.Signal("harness", "go")
	// the write hook: once armed, the first Write (stage writing: the first Write
	// after the target's reply was taken off the queue) stays in progress until
	// released; it is released on every way out
	var armed atomic.Bool
	var hookOnce, relOnce sync.Once
	hookHit := make(chan struct{})
	hookRelease := make(chan struct{})
	openHook := func() {
		relOnce.Do(func() { close(hookRelease) })
		lib.SetWriteHook(nil)
	}
	defer openHook()
	lib.SetWriteHook(func([]byte) {
		if !armed.Load() || (p.Stage == "writing" && ctl.Seen(target.key, "send.dequeued") == 0) {
			return
		}
		first := false
		hookOnce.Do(func() { first = true })
		if first {
			close(hookHit)
			<-hookRelease
		}
	})
	waitHook := func(what string) error {
		select {
		case <-hookHit:
			hx.ExtraAdd("extra_writes_held_in_progress", 1)
			return nil
		case <-time.After(deadline):
			return hang(what + ": no transport write after " + deadline.String())
		}
	}

	ver := "9P2000"
	if c.Dotu {
		ver = "9P2000.u"
	}
	rr, err := cl.Version(8192, ver)
	if err != nil || rr.Type != ref9p.Rversion {
		return prologueFail("Tversion", err, rr)
	}
	if rr, err = cl.Attach(0, ref9p.NOFID, "alice", "", 1001); err != nil || rr.Type != ref9p.Rattach {
		return prologueFail("Tattach", err, rr)
	}
	for _, it := range items {
		if it.prep != "" {
			rr, err := cl.Walk(0, it.msg.Fid, it.prep)
			if err != nil || rr.Type != ref9p.Rwalk || len(rr.Wqid) != 1 {
				return prologueFail("walk to "+it.prep, err, rr)
			}
			if it.open >= 0 {
				if rr, err = cl.Open(it.msg.Fid, uint8(it.open)); err != nil || rr.Type != ref9p.Ropen {
					return prologueFail("open", err, rr)
				}
			}
		}
		sv.S.Set(it.key, it.spec.Behav)
	}
	for i := 0; i < 5000 && !callsOver(sv.S, 0); i++ {
		time.Sleep(200 * time.Microsecond)
	}
	before := len(sv.S.Log())
	r := &extraRun{c: c, cl: cl, byTag: map[uint16]*prepared{}, answered: map[uint16][]byte{}}
	extraDone := func() bool { return logHas(sv.S, before, "extradone", target.key) }
	letExtraGo := func() error {
		sv.S.Release(script.DupKey(target.key))
		return r.pump(extraDone, deadline, true, "waiting for the extra answer to "+target.key+" to return")
	}
	sendAll := func(its []*xitem) {
		var stream []byte
		var bounds []int
		for _, it := range its {
			r.expect(it)
			stream = append(stream, ref9p.Encode(it.msg, c.Dotu)...)
			bounds = append(bounds, len(stream))
		}
		if c.Chunks == "each" {
			_ = end.WriteChunks(stream, bounds)
		} else {
			_ = end.WriteChunks(stream, nil)
		}
	}
	sent := 0

	if slow {
		// a slow reader: the reply to a request of the harness stays in Write
		armed.Store(true)
		b := newHarnessReq()
		r.expect(b)
		sent++
		_ = cl.Send(b.msg)
		if err := waitHook("slow reader"); err != nil {
			return err
		}
	}
	if p.Stage == "writing" {
		armed.Store(true)
	}
	sendAll(main)
	sent += len(main)

	switch p.Stage {
	case "direct":
	case "direct-slow":
		// answered twice in a row while the sender cannot take the reply; with an
		// unbuffered queue the first Respond waits for the sender instead
		if err := r.pump(func() bool { return ctl.Seen(target.key, "respond.posted") > 0 }, deadline, true, "waiting for the first answer to "+target.key); err != nil {
			return err
		}
		if c.Maxpend > 0 {
			_ = r.pump(extraDone, 2*time.Second, false, "extra answer")
		}
		openHook()
	case "queued":
		if err := r.pump(func() bool { return ctl.Seen(target.key, "respond.posted") > 0 }, deadline, true, "waiting for the first answer to "+target.key); err != nil {
			return err
		}
		if c.Maxpend > 0 {
			_ = r.pump(func() bool { return ctl.Seen(target.key, "respond.queued") > 0 }, 2*time.Second, false, "queueing")
			if ctl.Seen(target.key, "respond.queued") > 0 {
				hx.ExtraAdd("extra_first_reply_waiting_in_queue", 1)
			}
		}
		if err := letExtraGo(); err != nil {
			return err
		}
		openHook()
	case "posted", "dequeued", "written":
		pt := stagePoint[p.Stage]
		if err := r.pump(func() bool { return ctl.Seen(target.key, pt) > 0 }, deadline, true, "waiting for "+target.key+" to reach "+pt); err != nil {
			return err
		}
		if err := letExtraGo(); err != nil {
			return err
		}
		ctl.Signal("harness", "go")
	case "writing":
		if err := waitHook("the write of the reply to " + target.key); err != nil {
			return err
		}
		if err := letExtraGo(); err != nil {
			return err
		}
		openHook()
	case "recycled":
		// the reply has been read, and the sender has put its Fcall back (it has
		// written a later reply since)
		if err := r.pump(func() bool { return r.answered[target.spec.Tag] != nil }, deadline, true, "waiting for the reply to "+target.key); err != nil {
			return err
		}
		f := newHarnessReq()
		r.expect(f)
		sent++
		_ = cl.Send(f.msg)
		if err := r.pump(func() bool { return r.answered[f.spec.Tag] != nil }, deadline, true, "waiting for the reply to a fence request"); err != nil {
			return err
		}
		// later requests take the pooled Fcalls; a slow reader keeps their packed replies waiting
		armed.Store(true)
		sendAll(later)
		sent += len(later)
		if len(later) > 0 {
			if err := waitHook("a reply of the later requests"); err != nil {
				return err
			}
			_ = r.pump(func() bool {
				for _, it := range later {
					if ctl.Seen(it.key, "respond.posted") == 0 {
						return false
					}
				}
				return true
			}, 2*time.Second, false, "later replies packed")
		}
		if err := letExtraGo(); err != nil {
			return err
		}
		openHook()
	default:
		return fmt.Errorf("harness: unknown stage %q", p.Stage)
	}
	hx.ExtraAdd("extra_stage_"+p.Stage, 1)

	// release the held requests in the drawn order
	for _, i := range p.Release {
		if i < 0 || i >= len(main) || !main[i].spec.Behav.Hold {
			continue
		}
		if !sv.S.WaitEntered(main[i].key, deadline) {
			return hang(fmt.Sprintf("request %s never reached the implementation", main[i].key))
		}
		sv.S.Release(main[i].key)
	}
	sv.S.ReleaseAll()
	if err := r.pump(func() bool { return len(r.answered) >= sent }, deadline, true, fmt.Sprintf("waiting for %d replies", sent)); err != nil {
		return err
	}
	// every call of the implementation (extra answers included) is over; then
	// a fence: anything still queued must precede the fence's reply
	if err := r.pump(func() bool { return callsOver(sv.S, before) }, deadline, true, "waiting for the implementation calls to finish"); err != nil {
		return err
	}
	if !extraDone() {
		return fmt.Errorf("harness: the extra answer to %s was never made", target.key)
	}
	f := newHarnessReq()
	r.expect(f)
	_ = cl.Send(f.msg)
	if err := r.pump(func() bool { return r.answered[f.spec.Tag] != nil }, deadline, true, "waiting for the reply to the fence request"); err != nil {
		return err
	}

	// content: exactly what the implementation produced with its FIRST answer
	produced := map[string]*ref9p.Msg{}
	for _, e := range sv.S.Log()[before:] {
		if e.Kind == "answer" && e.Key != "Tstat/0" {
			if _, dup := produced[e.Key]; dup {
				return fmt.Errorf("the implementation was invoked twice for %s", e.Key)
			}
			produced[e.Key] = e.Answer
		}
	}
	for _, it := range items {
		got := r.answered[it.spec.Tag]
		if got == nil {
			return fmt.Errorf("harness: no reply recorded for %s", it.key)
		}
		what := "reply to " + it.key
		if it == target {
			what = "reply to " + it.key + " (answered a second time through a packing helper at stage " + p.Stage + ")"
		}
		a := produced[it.key]
		if a == nil {
			return fmt.Errorf("%s (tag %d) was answered on the wire but never by the implementation", it.key, it.spec.Tag)
		}
		am := *a
		am.Tag = it.spec.Tag
		if want := ref9p.Encode(&am, c.Dotu); !bytes.Equal(got, want) {
			return fmt.Errorf("%s (tag %d) is not what the implementation produced:\n got  %x\n want %x", what, it.spec.Tag, clip(got), clip(want))
		}
		pm := *it.want
		pm.Tag = it.spec.Tag
		if pw := ref9p.Encode(&pm, c.Dotu); !bytes.Equal(got, pw) {
			return fmt.Errorf("%s (tag %d) differs from the answer predicted from the request:\n got  %x\n want %x", what, it.spec.Tag, clip(got), clip(pw))
		}
	}
	if conn := sv.S.Conn(script.ConnID("c03")); conn != nil {
		ok := false
		for i := 0; i < 2000; i++ {
			if n, _ := conn.VerifCounts(); n == 0 {
				ok = true
				break
			}
			time.Sleep(time.Millisecond)
		}
		if !ok {
			n, _ := conn.VerifCounts()
			return fmt.Errorf("%d requests still registered as outstanding after every reply was sent", n)
		}
	}
	return nil
}

func labelExtra(c *Case) {
	p := c.Extra
	hx.Label(fmt.Sprintf("extra: stage=%s duppack=%d maxpend=%d", p.Stage, p.Target.Behav.DupPack, c.Maxpend))
	hx.Label(fmt.Sprintf("extra: kind=%s first=%s async=%v", p.Target.Kind, map[bool]string{false: "success", true: "Rerror"}[p.Target.Behav.Err != ""], p.Target.Behav.Async))
	hx.Label(fmt.Sprintf("extra: inflight=%d later=%d", len(p.Before)+len(p.After), len(p.Later)))
}

// extraNontrivial: the extra answer is issued at a controlled stage of the
// first reply's life (everything but "direct").
func extraNontrivial(p *ExtraPlan) bool { return p.Stage != "direct" }

func genExtraCase(t *rapid.T) *Case {
	c := &Case{Dotu: rapid.Bool().Draw(t, "dotu"), Maxpend: rapid.SampledFrom([]int{0, 4, 4}).Draw(t, "maxpend")}
	c.Chunks = rapid.SampledFrom([]string{"one", "each"}).Draw(t, "chunks")
	p := &ExtraPlan{Stage: rapid.SampledFrom(extraStages).Draw(t, "stage")}
	c.Extra = p
	tags := map[uint16]bool{}
	newTag := func() uint16 {
		for {
			tag := rapid.OneOf(rapid.SampledFrom([]uint16{0, 1, 0x7FFF, 0xFFFE}), rapid.Uint16Range(0, 0xFFEF)).Draw(t, "tag")
			if !tags[tag] {
				tags[tag] = true
				return tag
			}
		}
	}
	behav := func(mayHold bool) script.Behav {
		var b script.Behav
		switch rapid.IntRange(0, 5).Draw(t, "answer") {
		case 0, 1:
			b.Err = rapid.SampledFrom([]string{"permission denied", "e", "i/o error with a longer text"}).Draw(t, "err")
			b.Ecode = rapid.Uint32Range(1, 200).Draw(t, "ecode")
		case 2:
			b.Async = true
		}
		if mayHold && rapid.IntRange(0, 2).Draw(t, "hold") == 0 {
			b.Hold = true
		}
		return b
	}
	spec := func(mayHold bool) ReqSpec {
		return ReqSpec{Kind: rapid.SampledFrom(kinds).Draw(t, "kind"), Tag: newTag(), Arg: rapid.Uint32Range(0, 5000).Draw(t, "arg"), Behav: behav(mayHold)}
	}
	p.Target = spec(false)
	p.Target.Behav.DupPack = rapid.IntRange(1, 2).Draw(t, "duppack")
	p.Target.Behav.DupGate = extraGated(p.Stage)
	// with a slow reader at most 3 others compete for the 4 places of the queue
	nb := rapid.IntRange(0, 3).Draw(t, "before")
	na := rapid.IntRange(0, 3-nb).Draw(t, "after")
	for i := 0; i < nb; i++ {
		p.Before = append(p.Before, spec(true))
	}
	for i := 0; i < na; i++ {
		p.After = append(p.After, spec(true))
	}
	var held []int
	for i, rs := range append(append([]ReqSpec(nil), p.Before...), p.After...) {
		if rs.Behav.Hold {
			held = append(held, i)
		}
	}
	// Release holds indices into Before ++ target ++ After
	for i := range held {
		if held[i] >= nb {
			held[i]++
		}
	}
	p.Release = rapid.Permutation(held).Draw(t, "release")
	if p.Stage == "recycled" {
		// enough later requests to drain the pool of recycled Fcalls
		nl := nb + na + 3 + rapid.IntRange(0, 3).Draw(t, "later")
		for i := 0; i < nl; i++ {
			p.Later = append(p.Later, spec(false))
		}
	}
	return c
}

func TestPropExtraAnswers(t *testing.T) {
	hx.Check(t, "extraanswers", hx.N(400, 3000), func(t *rapid.T) {
		c := genExtraCase(t)
		if err := execute("extraanswers", c); err != nil {
			hx.Failf(t, "extraanswers", c, "%v", err)
		}
	})
}

// TestEnumExtraAnswers: every stage x both kinds of extra answer x every
// request type (each has its own packing helper), with nothing else in flight
// (stage recycled: 4 later requests of mixed types). Thorough: times first
// answer success / Rerror x the operation's goroutine / another one x Maxpend
// 0 / 4; quick: these three rotate over the table (every pair stage x value occurs).
func TestEnumExtraAnswers(t *testing.T) {
	type variant struct {
		first   string
		async   bool
		maxpend int
	}
	var variants []variant
	for _, first := range []string{"", "denied"} {
		for _, async := range []bool{false, true} {
			for _, maxpend := range []int{4, 0} {
				variants = append(variants, variant{first, async, maxpend})
			}
		}
	}
	idx := 0
	for si, stage := range extraStages {
		for dp := 1; dp <= 2; dp++ {
			for ki, kind := range kinds {
				for vi, v := range variants {
					if !hx.Thorough() && vi != (si+dp+ki)%len(variants) {
						continue
					}
					idx++
					if hx.NShards > 1 && idx%hx.NShards != hx.Shard {
						continue
					}
					c := &Case{Dotu: (ki+vi)%2 == 0, Maxpend: v.maxpend, Chunks: "one"}
					p := &ExtraPlan{Stage: stage}
					p.Target = ReqSpec{Kind: kind, Tag: uint16(20 + ki), Arg: uint32(64 + ki), Behav: script.Behav{Err: v.first, Async: v.async, DupPack: dp, DupGate: extraGated(stage)}}
					if v.first != "" {
						p.Target.Behav.Ecode = 13
					}
					if stage == "recycled" {
						for i := 0; i < 4; i++ {
							p.Later = append(p.Later, ReqSpec{Kind: kinds[(ki+1+3*i)%len(kinds)], Tag: uint16(40 + i), Arg: uint32(200 + i), Behav: script.Behav{Async: i%2 == 1}})
						}
					}
					c.Extra = p
					if err := execute("extraenum", c); err != nil {
						hx.Violation("extraenum", c, err.Error())
						t.Fatalf("%v", err)
					}
				}
			}
		}
	}
	if hx.Thorough() {
		hx.Exhaustive(fmt.Sprintf("extra answer through a packing helper: %d stages of the first reply x {same answer, other outcome} x %d request types x first answer {success, Rerror} x {operation's goroutine, another} x Maxpend {0,4}", len(extraStages), len(kinds)))
	} else {
		hx.Exhaustive(fmt.Sprintf("extra answer through a packing helper: %d stages of the first reply x {same answer, other outcome} x %d request types (first answer, goroutine and Maxpend rotating)", len(extraStages), len(kinds)))
	}
}
