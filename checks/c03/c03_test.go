// C03 — exactly one correctly tagged reply per request under any concurrency.
package c03

import (
	"bytes"
	"encoding/json"
	"fmt"
	"sort"
	"sync"
	"testing"
	"time"

	"pgregory.net/rapid"
	"verif/internal/hx"
	"verif/internal/rawc"
	"verif/internal/ref9p"
	"verif/internal/sched"
	"verif/internal/script"
)

func TestMain(m *testing.M) { hx.Main(m, "C03") }

// ReqSpec is one request of a round.
type ReqSpec struct {
	Kind  string       `json:"kind"` // walk, walkinplace, open, create, read, write, stat, wstat, clunk, remove, attach
	Tag   uint16       `json:"tag"`
	Behav script.Behav `json:"behav"`
	Arg   uint32       `json:"arg"` // count / mode / perm knob
}

type Case struct {
	Dotu    bool         `json:"dotu"`
	Maxpend int          `json:"maxpend"`
	Rounds  [][]ReqSpec  `json:"rounds"`
	Chunks  string       `json:"chunks"` // "one", "each", "cuts"
	Cuts    [][]int      `json:"cuts,omitempty"`
	Release [][]int      `json:"release"` // per round: order (indices into the round) in which held requests are released
	Holds   []sched.Hold `json:"holds,omitempty"`
	// SlowWrite: each round is sent in two waves; the transport write of the
	// first reply is held "in progress" (slow reader) until the second wave
	// has been received and answered by the implementation.
	SlowWrite bool `json:"slowwrite,omitempty"`
	// Flush: a history with Tflush (flush_test.go); Rounds is empty then.
	Flush *FlushPlan `json:"flush,omitempty"`
	// Extra: an extra answer through a packing helper at a chosen stage of the
	// first reply's life (extra_test.go); Rounds is empty then.
	Extra *ExtraPlan `json:"extra,omitempty"`
	// VTag: a Tversion carrying an arbitrary tag (vtag_test.go); Rounds is empty then.
	VTag *VTagPlan `json:"vtag,omitempty"`
	// Pipe: pipelined clients re-using tags at once, volume (pipeline_test.go); Rounds is empty then.
	Pipe *PipePlan `json:"pipe,omitempty"`
	// MidV: a Tversion in mid-session over parked / deferred requests (midversion_test.go); Rounds is empty then.
	MidV *MidVPlan `json:"midv,omitempty"`
}

const deadline = 30 * time.Second

type prepared struct {
	spec ReqSpec
	msg  *ref9p.Msg
	key  string
	want *ref9p.Msg // predicted answer
}

func fidType(kind string) uint8 {
	switch kind {
	case "walk", "walkinplace", "create":
		return 0x80
	}
	return 0
}

func run(c *Case) error {
	sv := script.NewServer(script.Config{Msize: 8192, Dotu: c.Dotu, Maxpend: c.Maxpend})
	ctl := sched.New(c.Holds)
	defer sched.Install(ctl)()
	end, lib := sv.Dial2("c03")
	cl := rawc.New(end)
	defer cl.Close()
	defer sv.S.ReleaseAll()
	ver := "9P2000"
	if c.Dotu {
		ver = "9P2000.u"
	}
	r, err := cl.Version(8192, ver)
	if err != nil || r.Type != ref9p.Rversion {
		return prologueFail("Tversion", err, r)
	}
	if r, err = cl.Attach(0, ref9p.NOFID, "alice", "", 1001); err != nil || r.Type != ref9p.Rattach {
		return prologueFail("Tattach", err, r)
	}
	nextFid := uint32(100)
	for ri, round := range c.Rounds {
		// prologue for the round: a private fid in the right state for each request
		var ps []*prepared
		for _, rs := range round {
			fid, newfid := nextFid, nextFid+1
			nextFid += 2
			p := &prepared{spec: rs}
			prep := func(name string, open int) error {
				r, err := cl.Walk(0, fid, name)
				if err != nil || r.Type != ref9p.Rwalk || len(r.Wqid) != 1 {
					return prologueFail("walk to "+name, err, r)
				}
				if open >= 0 {
					if r, err = cl.Open(fid, uint8(open)); err != nil || r.Type != ref9p.Ropen {
						return prologueFail("open", err, r)
					}
				}
				return nil
			}
			var perr error
			name := fmt.Sprintf("%d", fid)
			switch rs.Kind {
			case "walk":
				perr = prep("d"+name, -1)
				p.msg = &ref9p.Msg{Type: ref9p.Twalk, Fid: fid, Newfid: newfid, Wname: []string{"d" + name, "f" + name}}
			case "walkinplace":
				perr = prep("d"+name, -1)
				p.msg = &ref9p.Msg{Type: ref9p.Twalk, Fid: fid, Newfid: fid, Wname: []string{"dsub" + name}}
			case "open":
				perr = prep("f"+name, -1)
				p.msg = &ref9p.Msg{Type: ref9p.Topen, Fid: fid, Mode: uint8(rs.Arg % 3)}
			case "create":
				perr = prep("d"+name, -1)
				p.msg = &ref9p.Msg{Type: ref9p.Tcreate, Fid: fid, Name: "fnew" + name, Perm: 0o644, Mode: uint8(rs.Arg % 3), Ext: ""}
			case "read":
				perr = prep("f"+name, 0)
				p.msg = &ref9p.Msg{Type: ref9p.Tread, Fid: fid, Offset: uint64(fid) << 20, Count: rs.Arg % 4000}
			case "write":
				perr = prep("f"+name, 1)
				p.msg = &ref9p.Msg{Type: ref9p.Twrite, Fid: fid, Offset: uint64(fid) << 20, Data: script.PRF("w"+name, int(rs.Arg%4000))}
			case "stat":
				perr = prep("f"+name, -1)
				p.msg = &ref9p.Msg{Type: ref9p.Tstat, Fid: fid}
			case "wstat":
				perr = prep("f"+name, -1)
				st := rawc.NoChangeStat()
				st.Name = "fren" + name
				p.msg = &ref9p.Msg{Type: ref9p.Twstat, Fid: fid, Stat: st}
			case "clunk":
				perr = prep("f"+name, -1)
				p.msg = &ref9p.Msg{Type: ref9p.Tclunk, Fid: fid}
			case "remove":
				perr = prep("f"+name, -1)
				p.msg = &ref9p.Msg{Type: ref9p.Tremove, Fid: fid}
			case "attach":
				p.msg = &ref9p.Msg{Type: ref9p.Tattach, Fid: fid, Afid: ref9p.NOFID, Uname: "bob", Aname: "t" + name, Nuname: 1002}
			default:
				return fmt.Errorf("harness: unknown kind %q", rs.Kind)
			}
			if perr != nil {
				return perr
			}
			p.msg.Tag = rs.Tag
			p.key = script.Key(p.msg)
			p.want = script.ExpectedAnswer(ref9p.Canon(p.msg, c.Dotu), rs.Behav, fidType(rs.Kind))
			sv.S.Set(p.key, rs.Behav)
			ps = append(ps, p)
		}
		before := len(sv.S.Log())
		// the round's byte stream
		var stream []byte
		var bounds []int
		for _, p := range ps {
			stream = append(stream, ref9p.Encode(p.msg, c.Dotu)...)
			bounds = append(bounds, len(stream))
		}
		if c.SlowWrite && len(ps) >= 2 {
			half := len(ps) / 2
			hit := make(chan struct{})
			release := make(chan struct{})
			var once sync.Once
			lib.SetWriteHook(func([]byte) {
				first := false
				once.Do(func() { first = true })
				if first {
					close(hit)
					<-release
				}
			})
			_ = end.WriteChunks(stream[:bounds[half-1]], nil)
			// release the held requests of the first wave so that a reply is produced
			for i := 0; i < half; i++ {
				sv.S.Release(ps[i].key)
			}
			select {
			case <-hit:
				hx.ExtraAdd("writes_held_in_progress", 1)
			case <-time.After(2 * time.Second):
			}
			_ = end.WriteChunks(stream[bounds[half-1]:], nil)
			for i := half; i < len(ps); i++ {
				sv.S.Release(ps[i].key)
			}
			// wait until the second wave has been answered by the implementation (its replies are packed)
			for w := 0; w < 200; w++ {
				n := 0
				for _, e := range sv.S.Log()[before:] {
					if e.Kind == "answer" {
						n++
					}
				}
				if n >= len(ps) {
					break
				}
				time.Sleep(250 * time.Microsecond)
			}
			time.Sleep(300 * time.Microsecond)
			close(release)
			lib.SetWriteHook(nil)
		} else {
			switch c.Chunks {
			case "one":
				_ = end.WriteChunks(stream, nil)
			case "each":
				_ = end.WriteChunks(stream, bounds)
			default:
				var cuts []int
				if ri < len(c.Cuts) {
					cuts = c.Cuts[ri]
				}
				_ = end.WriteChunks(stream, cuts)
			}
		}
		// release held requests in the drawn order, each once it is inside the implementation
		var order []int
		if ri < len(c.Release) {
			order = c.Release[ri]
		}
		for _, i := range order {
			if i < 0 || i >= len(ps) || !ps[i].spec.Behav.Hold {
				continue
			}
			if !sv.S.WaitEntered(ps[i].key, deadline) {
				return hang(fmt.Sprintf("round %d: request %d (%s) never reached the implementation", ri, i, ps[i].key))
			}
			sv.S.Release(ps[i].key)
		}
		sv.S.ReleaseAll()
		// collect replies: one per request
		byTag := map[uint16]*prepared{}
		for _, p := range ps {
			byTag[p.spec.Tag] = p
		}
		answered := map[uint16][]byte{}
		for len(answered) < len(ps) {
			f, err := cl.RecvRaw(deadline)
			if err != nil {
				if err == rawc.ErrTimeout {
					return hang(fmt.Sprintf("round %d: %d of %d replies after %v", ri, len(answered), len(ps), deadline))
				}
				return fmt.Errorf("round %d: connection ended after %d of %d replies: %v", ri, len(answered), len(ps), err)
			}
			if err := account(f, c.Dotu, byTag, answered); err != nil {
				return fmt.Errorf("round %d: %v", ri, err)
			}
		}
		// wait until every implementation call (incl. async answers and duplicate Responds) is over
		if err := waitDone(sv.S, before, len(ps)); err != nil {
			return err
		}
		// fence: anything still queued must precede the fence's reply
		ft := uint16(0xFFF0)
		for {
			if _, used := byTag[ft]; !used {
				break
			}
			ft--
		}
		fence := &ref9p.Msg{Type: ref9p.Tstat, Fid: 0, Tag: ft}
		_ = cl.Send(fence)
		for {
			f, err := cl.RecvRaw(deadline)
			if err != nil {
				if err == rawc.ErrTimeout {
					return hang(fmt.Sprintf("round %d: no reply to the fence request", ri))
				}
				return fmt.Errorf("round %d: connection ended before the fence reply: %v", ri, err)
			}
			m, _, derr := ref9p.Decode(f, c.Dotu)
			if derr == nil && m.Tag == ft && m.Type == ref9p.Rstat {
				break
			}
			if err := account(f, c.Dotu, byTag, answered); err != nil {
				return fmt.Errorf("round %d (after all requests were answered): %v", ri, err)
			}
		}
		// content: exactly what the implementation produced
		produced := map[string]*ref9p.Msg{}
		for _, e := range sv.S.Log()[before:] {
			if e.Kind == "answer" {
				if _, dup := produced[e.Key]; dup {
					return fmt.Errorf("round %d: the implementation was invoked twice for %s", ri, e.Key)
				}
				produced[e.Key] = e.Answer
			}
		}
		for _, p := range ps {
			got := answered[p.spec.Tag]
			a := produced[p.key]
			if a == nil {
				return fmt.Errorf("round %d: %s (tag %d) was answered on the wire but never reached the implementation", ri, p.key, p.spec.Tag)
			}
			am := *a
			am.Tag = p.spec.Tag
			want := ref9p.Encode(&am, c.Dotu)
			if !bytes.Equal(got, want) {
				return fmt.Errorf("round %d: reply to %s (tag %d) is not what the implementation produced:\n got  %x\n want %x", ri, p.key, p.spec.Tag, clip(got), clip(want))
			}
			pm := *p.want
			pm.Tag = p.spec.Tag
			if pw := ref9p.Encode(&pm, c.Dotu); !bytes.Equal(got, pw) {
				return fmt.Errorf("round %d: reply to %s (tag %d) differs from the answer predicted from the request:\n got  %x\n want %x", ri, p.key, p.spec.Tag, clip(got), clip(pw))
			}
		}
		if conn := sv.S.Conn(script.ConnID("c03")); conn != nil {
			ok := false
			for i := 0; i < 2000; i++ {
				if n, _ := conn.VerifCounts(); n == 0 {
					ok = true
					break
				}
				time.Sleep(time.Millisecond)
			}
			if !ok {
				n, _ := conn.VerifCounts()
				return fmt.Errorf("round %d: %d requests still registered as outstanding after every reply was sent", ri, n)
			}
		}
	}
	ap, fo := ctl.Stats()
	hx.ExtraAdd("holds_applied", int64(ap))
	hx.ExtraAdd("holds_forced", int64(fo))
	return nil
}

// prologueFail: a reply that did not come within the RPC timeout is a hang
// (decided by what is blocked inside go9p), anything else is a wrong reply.
func prologueFail(what string, err error, r *ref9p.Msg) error {
	if err == rawc.ErrTimeout {
		return hang("prologue: " + what + ": " + err.Error())
	}
	return fmt.Errorf("prologue: %s: %v %+v", what, err, r)
}

type hangErr string

func (h hangErr) Error() string { return string(h) }
func hang(s string) error       { return hangErr(s) }

func clip(b []byte) []byte {
	if len(b) > 80 {
		return b[:80]
	}
	return b
}

func account(f []byte, dotu bool, byTag map[uint16]*prepared, answered map[uint16][]byte) error {
	m, _, err := ref9p.Decode(f, dotu)
	if err != nil {
		return fmt.Errorf("server sent a frame that does not decode strictly: %v: %x", err, clip(f))
	}
	p, ok := byTag[m.Tag]
	if !ok {
		return fmt.Errorf("reply %s for tag %d, which has no outstanding request", ref9p.TypeName(m.Type), m.Tag)
	}
	if _, dup := answered[m.Tag]; dup {
		return fmt.Errorf("second reply (%s) for tag %d (%s)", ref9p.TypeName(m.Type), m.Tag, p.key)
	}
	if m.Type != p.msg.Type+1 && m.Type != ref9p.Rerror {
		return fmt.Errorf("reply type %s for %s", ref9p.TypeName(m.Type), ref9p.TypeName(p.msg.Type))
	}
	answered[m.Tag] = f
	return nil
}

func waitDone(s *script.S, from, n int) error {
	for i := 0; i < 5000; i++ {
		d := 0
		for _, e := range s.Log()[from:] {
			if e.Kind == "done" {
				d++
			}
		}
		if d >= n {
			return nil
		}
		time.Sleep(time.Millisecond)
	}
	return hang("implementation calls did not finish")
}

var kinds = []string{"walk", "walkinplace", "open", "create", "read", "write", "stat", "wstat", "clunk", "remove", "attach"}

var points = []string{"process.enter", "process.checked", "process.done", "respond.enter", "respond.unlinked", "respond.posted", "respond.queued", "send.dequeued", "send.written"}

func genCase(t *rapid.T) *Case {
	c := &Case{Dotu: rapid.Bool().Draw(t, "dotu"), Maxpend: rapid.SampledFrom([]int{0, 4}).Draw(t, "maxpend")}
	nr := rapid.IntRange(1, 3).Draw(t, "rounds")
	c.Chunks = rapid.SampledFrom([]string{"one", "each", "cuts"}).Draw(t, "chunks")
	for ri := 0; ri < nr; ri++ {
		n := rapid.OneOf(rapid.IntRange(1, 6), rapid.IntRange(1, 64)).Draw(t, "n")
		tags := map[uint16]bool{}
		var round []ReqSpec
		var held []int
		for i := 0; i < n; i++ {
			var tag uint16
			for {
				tag = rapid.OneOf(rapid.SampledFrom([]uint16{0, 1, 0x7FFF, 0xFFFE}), rapid.Uint16Range(0, 0xFFEF)).Draw(t, "tag")
				if !tags[tag] && tag != 0xFFFF && tag < 0xFFF0 || tag == 0xFFFE && !tags[tag] {
					break
				}
			}
			tags[tag] = true
			rs := ReqSpec{Kind: rapid.SampledFrom(kinds).Draw(t, "kind"), Tag: tag, Arg: rapid.Uint32Range(0, 5000).Draw(t, "arg")}
			switch rapid.IntRange(0, 9).Draw(t, "answer") {
			case 0, 1:
				rs.Behav.Err = rapid.SampledFrom([]string{"permission denied", "e", "i/o error with a longer text"}).Draw(t, "err")
				rs.Behav.Ecode = rapid.Uint32Range(1, 200).Draw(t, "ecode")
			case 2, 3:
				rs.Behav.Async = true
			case 4:
				rs.Behav.Dup = true
			case 5:
				rs.Behav.Async, rs.Behav.Dup = true, true
			case 6:
				rs.Behav.DupRace = true
			case 7:
				// an extra answer through the packing helpers, directly behind the first
				rs.Behav.DupPack = rapid.IntRange(1, 2).Draw(t, "duppack")
				rs.Behav.Async = rapid.Bool().Draw(t, "async")
				if rapid.IntRange(0, 2).Draw(t, "firsterr") == 0 {
					rs.Behav.Err, rs.Behav.Ecode = "permission denied", 13
				}
			}
			if rapid.IntRange(0, 2).Draw(t, "hold") == 0 {
				rs.Behav.Hold = true
				held = append(held, i)
			}
			round = append(round, rs)
		}
		c.Rounds = append(c.Rounds, round)
		c.Release = append(c.Release, rapid.Permutation(held).Draw(t, "release"))
		if c.Chunks == "cuts" {
			c.Cuts = append(c.Cuts, rapid.SliceOfN(rapid.IntRange(1, 60*n), 0, 8).Draw(t, "cuts"))
			sort.Ints(c.Cuts[ri])
		}
	}
	return c
}

func genHolds(t *rapid.T, c *Case) {
	// 0..3 ordering constraints between requests of the first round
	if len(c.Rounds[0]) < 2 {
		return
	}
	n := rapid.IntRange(0, 3).Draw(t, "nholds")
	keys := roundKeys(c, 0)
	for i := 0; i < n; i++ {
		a := rapid.IntRange(0, len(keys)-1).Draw(t, "who")
		b := rapid.IntRange(0, len(keys)-1).Draw(t, "until")
		if a == b {
			continue
		}
		c.Holds = append(c.Holds, sched.Hold{Who: keys[a], At: rapid.SampledFrom(points).Draw(t, "at"), UntilWho: keys[b], UntilPoint: rapid.SampledFrom(points).Draw(t, "untilpoint")})
	}
}

// roundKeys recomputes the script keys of round ri (mirrors run()).
func roundKeys(c *Case, ri int) []string {
	fid := uint32(100)
	for r := 0; r < ri; r++ {
		fid += uint32(2 * len(c.Rounds[r]))
	}
	var keys []string
	for _, rs := range c.Rounds[ri] {
		name := fmt.Sprintf("%d", fid)
		var m *ref9p.Msg
		switch rs.Kind {
		case "walk":
			m = &ref9p.Msg{Type: ref9p.Twalk, Fid: fid, Newfid: fid + 1, Wname: []string{"d" + name, "f" + name}}
		case "walkinplace":
			m = &ref9p.Msg{Type: ref9p.Twalk, Fid: fid, Newfid: fid, Wname: []string{"dsub" + name}}
		case "open":
			m = &ref9p.Msg{Type: ref9p.Topen, Fid: fid, Mode: uint8(rs.Arg % 3)}
		case "create":
			m = &ref9p.Msg{Type: ref9p.Tcreate, Fid: fid, Name: "fnew" + name, Perm: 0o644, Mode: uint8(rs.Arg % 3)}
		case "read":
			m = &ref9p.Msg{Type: ref9p.Tread, Fid: fid, Offset: uint64(fid) << 20, Count: rs.Arg % 4000}
		case "write":
			m = &ref9p.Msg{Type: ref9p.Twrite, Fid: fid, Offset: uint64(fid) << 20, Data: make([]byte, rs.Arg%4000)}
		case "stat":
			m = &ref9p.Msg{Type: ref9p.Tstat, Fid: fid}
		case "wstat":
			m = &ref9p.Msg{Type: ref9p.Twstat, Fid: fid, Stat: ref9p.Stat{Name: "fren" + name}}
		case "clunk":
			m = &ref9p.Msg{Type: ref9p.Tclunk, Fid: fid}
		case "remove":
			m = &ref9p.Msg{Type: ref9p.Tremove, Fid: fid}
		case "attach":
			m = &ref9p.Msg{Type: ref9p.Tattach, Fid: fid, Afid: ref9p.NOFID, Uname: "bob", Aname: "t" + name}
		}
		keys = append(keys, script.Key(m))
		fid += 2
	}
	return keys
}

func classify(c *Case) (nontrivial bool) {
	for ri, round := range c.Rounds {
		var held []int
		for i, rs := range round {
			if rs.Behav.Hold {
				held = append(held, i)
			}
		}
		if len(held) >= 2 && ri < len(c.Release) && !sort.IntsAreSorted(c.Release[ri]) {
			nontrivial = true
		}
	}
	return
}

// hangs counts the deadlines of this process (each costs 30 s and more). Once
// three cases have run into one, whatever their verdict was (something stuck
// inside go9p: violation, recorded; otherwise inconclusive, recorded), further
// cases add nothing to the shard's verdict and would only keep it running until
// the driver kills it, which loses what has been recorded.
var hangs int

func execute(test string, c *Case) error {
	if hangs >= 3 {
		return nil
	}
	hx.Journal(test, c)
	hx.Eval()
	if c.Flush != nil {
		if flushNontrivial(c.Flush) {
			b, _ := json.Marshal(c)
			hx.NonTrivial(b)
		}
		labelFlush(c)
		hx.Sample(test, c)
		return verdict(runFlush(c))
	}
	if c.VTag != nil {
		if c.VTag.Tag != ref9p.NOTAG {
			b, _ := json.Marshal(c)
			hx.NonTrivial(b)
		}
		hx.Label(fmt.Sprintf("tversion tag notag=%v again=%v bad=%v", c.VTag.Tag == ref9p.NOTAG, c.VTag.Again, c.VTag.Bad))
		hx.Sample(test, c)
		err := runVTag(c)
		if h, ok := err.(hangErr); ok {
			hangs++
			// nothing is held in this case: no reply at all is a missing reply
			if blocked := hx.BlockedInGo9p(); blocked != "" {
				return fmt.Errorf("%s; goroutines blocked inside go9p:\n%s", string(h), blocked)
			}
			hx.Inconclusive(string(h))
			return nil
		}
		return err
	}
	if c.Pipe != nil {
		return executePipe(test, c)
	}
	if c.MidV != nil {
		return executeMidV(test, c)
	}
	if c.Extra != nil {
		if extraNontrivial(c.Extra) {
			b, _ := json.Marshal(c)
			hx.NonTrivial(b)
		}
		labelExtra(c)
		hx.Sample(test, c)
		return verdict(runExtra(c))
	}
	if classify(c) {
		b, _ := json.Marshal(c)
		hx.NonTrivial(b)
	}
	n := 0
	for _, r := range c.Rounds {
		n += len(r)
		for _, rs := range r {
			hx.Label("kind=" + rs.Kind)
		}
	}
	hx.Label(fmt.Sprintf("rounds=%d chunks=%s maxpend=%d holds=%d slowwrite=%v", len(c.Rounds), c.Chunks, c.Maxpend, len(c.Holds), c.SlowWrite))
	switch {
	case n > 32:
		hx.Label("requests>32")
	case n > 5:
		hx.Label("requests 6..32")
	default:
		hx.Label("requests 1..5")
	}
	hx.Sample(test, c)
	return verdict(run(c))
}

func verdict(err error) error {
	if h, ok := err.(hangErr); ok {
		hangs++
		// a deadline: violation only if something is blocked inside go9p
		if blocked := hx.BlockedInGo9p(); blocked != "" {
			return fmt.Errorf("%s; goroutines blocked inside go9p:\n%s", string(h), blocked)
		}
		hx.Inconclusive(string(h))
		return nil
	}
	return err
}

func TestReplay(t *testing.T) {
	e, err := hx.LoadReplay()
	if e == nil {
		t.Skip("no replay file", err)
	}
	replayEnv(t, e)
}

func replayEnv(t *testing.T, e *hx.Envelope) {
	var c Case
	if err := json.Unmarshal(e.Case, &c); err != nil {
		t.Fatalf("bad case: %v", err)
	}
	for i := 0; i < 20; i++ { // schedule-dependent failures: try a few times
		if err := execute(e.Test, &c); err != nil {
			hx.Violation(e.Test, &c, err.Error())
			t.Fatalf("%v", err)
		}
	}
}

func TestRegress(t *testing.T) {
	for _, e := range hx.Regressions() {
		replayEnv(t, e)
		hx.Label("regress")
	}
}

// TestEnumPermutations: every completion order of k held requests (k <= 4 in
// quick, 5 in thorough) for a few type mixes and answer mixes.
func TestEnumPermutations(t *testing.T) {
	maxk := 4
	if hx.Thorough() {
		maxk = 5
	}
	mixes := [][]string{{"read", "write", "stat", "walk", "clunk"}, {"open", "create", "remove", "wstat", "attach"}, {"read", "read", "read", "read", "read"}, {"walkinplace", "clunk", "remove", "stat", "write"}}
	answers := []func(i int) script.Behav{
		func(i int) script.Behav { return script.Behav{Hold: true} },
		func(i int) script.Behav { return script.Behav{Hold: true, Async: i%2 == 0, Dup: i%2 == 1} },
		func(i int) script.Behav {
			b := script.Behav{Hold: true}
			if i%2 == 0 {
				b.Err, b.Ecode = "denied", 13
			}
			return b
		},
	}
	idx := 0
	for k := 2; k <= maxk; k++ {
		perms := permutations(k)
		for mi, mix := range mixes {
			for ai, ans := range answers {
				for _, perm := range perms {
					idx++
					if hx.NShards > 1 && idx%hx.NShards != hx.Shard {
						continue
					}
					c := &Case{Dotu: (mi+ai)%2 == 0, Maxpend: []int{0, 4}[k%2], Chunks: "one"}
					var round []ReqSpec
					for i := 0; i < k; i++ {
						round = append(round, ReqSpec{Kind: mix[i], Tag: uint16(10 + i), Behav: ans(i), Arg: uint32(100 + i)})
					}
					c.Rounds = [][]ReqSpec{round}
					c.Release = [][]int{perm}
					if err := execute("perm", c); err != nil {
						hx.Violation("perm", c, err.Error())
						t.Fatalf("%v", err)
					}
				}
			}
		}
	}
	hx.Exhaustive(fmt.Sprintf("every completion order of 2..%d held requests x 4 type mixes x 3 answer mixes", maxk))
}

func permutations(n int) [][]int {
	var out [][]int
	var rec func(cur []int, used []bool)
	rec = func(cur []int, used []bool) {
		if len(cur) == n {
			out = append(out, append([]int(nil), cur...))
			return
		}
		for i := 0; i < n; i++ {
			if !used[i] {
				used[i] = true
				rec(append(cur, i), used)
				used[i] = false
			}
		}
	}
	rec(nil, make([]bool, n))
	return out
}

func TestPropHistories(t *testing.T) {
	hx.Check(t, "histories", hx.N(1200, 8000), func(t *rapid.T) {
		c := genCase(t)
		if rapid.IntRange(0, 4).Draw(t, "slowwrite") == 0 {
			c.SlowWrite = true
			c.Chunks = "one"
		} else {
			genHolds(t, c)
		}
		if err := execute("histories", c); err != nil {
			hx.Failf(t, "histories", c, "%v", err)
		}
	})
}

// TestPropDupStorm: many requests in flight whose answers are all given by two
// completion paths at the same instant (Behav.DupRace): "an extra answer by
// the implementation to an already answered request produces no second reply"
// under real parallelism. Overlap of the two Respond calls is a matter of
// nanoseconds, so the number of attempts is what counts.
func TestPropDupStorm(t *testing.T) {
	hx.Check(t, "dupstorm", hx.N(300, 1500), func(t *rapid.T) {
		c := &Case{Dotu: rapid.Bool().Draw(t, "dotu"), Maxpend: rapid.SampledFrom([]int{0, 4}).Draw(t, "maxpend"), Chunks: "one"}
		nr := rapid.IntRange(1, 3).Draw(t, "rounds")
		for ri := 0; ri < nr; ri++ {
			n := rapid.IntRange(16, 64).Draw(t, "n")
			var round []ReqSpec
			for i := 0; i < n; i++ {
				// mostly Tattach: it needs no prologue RPC, so the time goes into the races
				kind := "attach"
				if rapid.IntRange(0, 3).Draw(t, "other") == 0 {
					kind = rapid.SampledFrom(kinds).Draw(t, "kind")
				}
				rs := ReqSpec{Kind: kind, Tag: uint16(ri*100 + i), Arg: rapid.Uint32Range(0, 200).Draw(t, "arg")}
				rs.Behav.DupRace = true
				rs.Behav.Async = rapid.Bool().Draw(t, "async")
				round = append(round, rs)
			}
			c.Rounds = append(c.Rounds, round)
			c.Release = append(c.Release, nil)
		}
		if err := execute("dupstorm", c); err != nil {
			hx.Failf(t, "dupstorm", c, "%v", err)
		}
	})
}
