package c02

import (
	"fmt"
	"testing"

	"pgregory.net/rapid"
	"verif/internal/hx"
)

// ext16 are the values every 16-bit length / count / size field is driven to in
// a WELL-FORMED input: around the sign bit of a 16-bit quantity and every value
// of the last sixteen before the 16-bit limit.
func ext16() (v []int) {
	v = []int{0x7FFE, 0x7FFF, 0x8000, 0x8001}
	for x := 0xFFF0; x <= 0xFFFF; x++ {
		v = append(v, x)
	}
	return
}

func statSlots(dotu bool) int {
	if dotu {
		return 5
	}
	return 4
}

// statLens returns string lengths that make a stat record's size field equal
// to size: how = slot index (everything in that string), -1 = spread evenly.
func statLens(size int, dotu bool, how int) []int {
	n := statSlots(dotu)
	rem := size - statFixed(dotu)
	l := make([]int, n)
	if how >= 0 {
		l[how%n] = rem
		return l
	}
	for i := range l {
		l[i] = rem / n
	}
	l[0] += rem % n
	return l
}

// TestEnumExtremes: well-formed inputs at the extremes of every 16-bit length,
// count and size field. Small canonical packets cannot reach these: a large
// value in a field of a small packet is rejected by the first bounds check, so
// the arithmetic behind that check (size+2, n*13, offsets past 32 KiB / 64 KiB)
// is only exercised by inputs that really are that long.
func TestEnumExtremes(t *testing.T) {
	fails := 0
	grp := 0
	mine := func() bool { // one group = one (dialect, form, field) x all values
		grp++
		return hx.NShards <= 1 || grp%hx.NShards == hx.Shard
	}
	emit := func(dotu bool, s Spec) {
		c := &Case{Dotu: dotu, Spec: &s, Desc: s.String()}
		hx.Sample("extremes", c)
		if err := try("extremes", c); err != nil {
			fails++
			if fails <= 12 {
				hx.Violation("extremes", c, err.Error())
				t.Errorf("dotu=%v %s: %v", dotu, c.Desc, err)
			}
		}
	}
	vals := ext16()
	for _, dotu := range []bool{false, true} {
		ns := statSlots(dotu)
		// stat records: stand-alone (UnpackDir) and inside Rstat / Twstat
		for _, form := range []string{"stat", "Rstat", "Twstat"} {
			for how := -1; how <= ns; how++ { // -1 spread, 0..ns-1 one string, ns = slack behind the fields
				if !mine() {
					continue
				}
				hx.Label(fmt.Sprintf("extremes %s dotu=%v", form, dotu))
				for _, size := range vals {
					s := Spec{Type: form, Fill: byte(size + how)}
					if how == ns {
						s.Lens = []int{3, 3, 3, 3, 3}[:ns]
						s.Pad = size - statFixed(dotu) - 3*ns
					} else {
						s.Lens = statLens(size, dotu, how)
					}
					emit(dotu, s)
					if form == "stat" {
						s.Tail = 25
						emit(dotu, s)
						s.Tail = 1
						emit(dotu, s)
						continue
					}
					if size+2 > 0xFFFF { // the outer stat[n] cannot hold size+2: wrapped (above), saturated, zero
						for _, n := range []int{0xFFFF, 0} {
							n := n
							s.NStat = &n
							emit(dotu, s)
						}
					}
				}
			}
		}
		// every string field of every message type
		type sf struct {
			typ  string
			lens func(l int) []int
		}
		one := func(l int) []int { return []int{l} }
		first := func(l int) []int { return []int{l, 0} }
		second := func(l int) []int { return []int{1, l} }
		both := func(l int) []int { return []int{l, l} }
		for _, f := range []sf{{"Tversion", one}, {"Rversion", one}, {"Rerror", one},
			{"Tauth", first}, {"Tauth", second}, {"Tauth", both},
			{"Tattach", first}, {"Tattach", second}, {"Tattach", both},
			{"Tcreate", first}, {"Tcreate", second}, {"Tcreate", both},
			{"Twalk", one}, {"Twalk", second}, {"Twalk", func(l int) []int { return []int{l, 0, l} }}} {
			if !mine() {
				continue
			}
			hx.Label(fmt.Sprintf("extremes %s strings dotu=%v", f.typ, dotu))
			for _, l := range vals {
				emit(dotu, Spec{Type: f.typ, Lens: f.lens(l), Fill: byte(l)})
			}
		}
		// element counts
		for _, f := range []sf{{"Twalk", func(int) []int { return nil }}, {"Twalk", func(int) []int { return []int{1, 0, 2} }}, {"Rwalk", nil}} {
			if !mine() {
				continue
			}
			hx.Label(fmt.Sprintf("extremes %s count dotu=%v", f.typ, dotu))
			for n := 0; n <= 40; n++ { // well-formed small counts (a walk has at most 16 elements, the decoder takes any count)
				s := Spec{Type: f.typ, N: n, Fill: byte(n)}
				if f.lens != nil {
					s.Lens = f.lens(n)
					if n == 0 {
						s.Lens = nil
					}
				}
				emit(dotu, s)
			}
			for i, n := range vals {
				if !hx.Thorough() && n < 0xFFFC && i%4 != 1 {
					continue // 130..850 KiB frames of 65535 elements: the quick tier takes 0x7fff, 0xfff1, 0xfff5, 0xfff9, 0xfffc..0xffff
				}
				s := Spec{Type: f.typ, N: n, Fill: byte(n)}
				if f.lens != nil {
					s.Lens = f.lens(n)
				}
				emit(dotu, s)
			}
		}
		// payloads around 2^15 and 2^16 (the count is 32 bits wide; the data crosses the 16-bit limits)
		for _, typ := range []string{"Rread", "Twrite"} {
			if !mine() {
				continue
			}
			hx.Label(fmt.Sprintf("extremes %s payload dotu=%v", typ, dotu))
			for _, l := range []int{0x7FFF, 0x8000, 0xFFFE, 0xFFFF, 0x10000, 0x10001} {
				emit(dotu, Spec{Type: typ, Lens: []int{l}, Fill: byte(l)})
			}
		}
	}
	if fails > 12 {
		t.Errorf("... and %d more failing extreme cases", fails-12)
	}
	hx.Exhaustive("well-formed inputs at the 16-bit extremes (0x7ffe..0x8001 and every value 0xfff0..0xffff), both dialects: stat size field of stand-alone records (bare, with 1- and 25-byte tails) and of records inside Rstat/Twstat (outer stat[n] consistent / wrapped / 0xffff / 0), the bytes placed in each string in turn, spread evenly, or as slack; the length of every string field of every message type; nwname and nwqid (plus every count 0..40); Rread/Twrite payloads around 2^15 and 2^16")
}

// drawExt draws a 16-bit value with most of the weight at the extremes.
func drawExt(t *rapid.T, label string) int {
	switch rapid.IntRange(0, 9).Draw(t, label+".class") {
	case 0, 1, 2:
		return rapid.IntRange(0xFFF0, 0xFFFF).Draw(t, label)
	case 3, 4:
		return rapid.IntRange(0xFF00, 0xFFFF).Draw(t, label)
	case 5, 6:
		return rapid.IntRange(0x7FF0, 0x8010).Draw(t, label)
	case 7:
		return rapid.SampledFrom([]int{0xFF, 0x100, 0x101, 0xFFF, 0x1000, 0x3FFF, 0x4000, 0xBFFF, 0xC000}).Draw(t, label)
	default:
		return rapid.IntRange(0, 0xFFFF).Draw(t, label)
	}
}

// split cuts total into n non-negative parts.
func split(t *rapid.T, total, n int, label string) []int {
	l := make([]int, n)
	switch rapid.IntRange(0, 2).Draw(t, label+".how") {
	case 0: // all in one
		l[rapid.IntRange(0, n-1).Draw(t, label+".slot")] = total
	case 1: // small ones, the rest in one
		big := rapid.IntRange(0, n-1).Draw(t, label+".slot")
		rest := total
		for i := range l {
			if i != big {
				l[i] = rapid.IntRange(0, min(rest, 9)).Draw(t, label+".small")
				rest -= l[i]
			}
		}
		l[big] = rest
	default: // arbitrary cuts
		rest := total
		for i := 0; i < n-1; i++ {
			l[i] = rapid.IntRange(0, rest).Draw(t, label+".cut")
			rest -= l[i]
		}
		l[n-1] = rest
	}
	return l
}

// TestPropExtremes: random well-formed (and slightly relaxed: slack inside a
// stat record, free outer stat[n], a tail) inputs whose 16-bit fields are drawn
// with most of the weight at the extremes; combinations the enumeration does
// not take (several large fields at once, arbitrary splits, arbitrary fill).
func TestPropExtremes(t *testing.T) {
	hx.Check(t, "extremes-random", hx.N(150, 4000), func(t *rapid.T) {
		dotu := rapid.Bool().Draw(t, "dotu")
		s := Spec{Fill: rapid.Byte().Draw(t, "fill")}
		form := rapid.SampledFrom([]string{"stat", "stat", "stat", "Rstat", "Twstat", "Tversion", "Rversion", "Rerror", "Tauth", "Tattach", "Tcreate", "Twalk", "Twalk#", "Rwalk#", "Rread", "Twrite"}).Draw(t, "form")
		s.Type = form
		switch form {
		case "stat", "Rstat", "Twstat":
			size := max(drawExt(t, "size"), statFixed(dotu))
			body := size - statFixed(dotu)
			if rapid.IntRange(0, 3).Draw(t, "slack") == 0 {
				s.Pad = rapid.IntRange(0, body).Draw(t, "pad")
				body -= s.Pad
			}
			s.Lens = split(t, body, statSlots(dotu), "lens")
			if form != "stat" && rapid.IntRange(0, 3).Draw(t, "freen") == 0 {
				n := drawExt(t, "nstat")
				s.NStat = &n
			}
		case "Tversion", "Rversion", "Rerror":
			s.Lens = []int{drawExt(t, "len")}
		case "Tauth", "Tattach", "Tcreate":
			s.Lens = []int{drawExt(t, "len0"), drawExt(t, "len1")}
			if k := rapid.IntRange(0, 2).Draw(t, "small"); k < 2 {
				s.Lens[k] = rapid.IntRange(0, 9).Draw(t, "smalllen")
			}
		case "Twalk": // few names, long ones
			s.Lens = make([]int, rapid.IntRange(1, 4).Draw(t, "nwname"))
			for i := range s.Lens {
				if rapid.Bool().Draw(t, "long") {
					s.Lens[i] = drawExt(t, "len")
				} else {
					s.Lens[i] = rapid.IntRange(0, 9).Draw(t, "smalllen")
				}
			}
		case "Twalk#": // many names, short ones
			s.Type = "Twalk"
			s.N = max(drawExt(t, "nwname"), 1)
			s.Lens = rapid.SliceOfN(rapid.IntRange(0, 2), 0, 3).Draw(t, "lens")
		case "Rwalk#":
			s.Type = "Rwalk"
			s.N = drawExt(t, "nwqid")
			if !hx.Thorough() && rapid.IntRange(0, 3).Draw(t, "fewer") > 0 {
				s.N = rapid.IntRange(0, 300).Draw(t, "nwqid.small")
			}
		case "Rread", "Twrite":
			s.Lens = []int{drawExt(t, "count") + rapid.IntRange(0, 1).Draw(t, "hi")*0x10000}
		}
		if rapid.IntRange(0, 2).Draw(t, "withtail") == 0 {
			s.Tail = rapid.IntRange(1, 60).Draw(t, "tail")
		}
		c := &Case{Dotu: dotu, Spec: &s}
		hx.Journal("extremes-random", c)
		hx.Label(fmt.Sprintf("extremes(random) %s dotu=%v", form, dotu))
		hx.Sample("extremes-random", c)
		if err := try("extremes-random", c); err != nil {
			hx.Failf(t, "extremes-random", c, "%v", err)
		}
	})
}
