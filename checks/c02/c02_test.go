package c02

import (
	"encoding/binary"
	"encoding/json"
	"fmt"
	"testing"

	"pgregory.net/rapid"
	"verif/internal/gen9p"
	"verif/internal/hx"
	"verif/internal/ref9p"
)

func TestMain(m *testing.M) {
	onLenient = func(what string, dotu bool) {
		hx.Label(fmt.Sprintf("accepted though not strictly valid: %s dotu=%v", what, dotu))
	}
	hx.Main(m, "C02")
}

func sampleOf(c *Case) interface{} {
	s := *c
	if len(s.Input) > 80 {
		s.Desc += fmt.Sprintf(" (input truncated from %d bytes)", len(s.Input))
		s.Input = s.Input[:80]
	}
	return s
}

// try runs one case under both bookkeeping and the oracle; returns the error.
func try(test string, c *Case) error {
	hx.Eval()
	refForget()
	kind, b, err := c.bytes()
	if err != nil {
		return fmt.Errorf("harness: %v", err)
	}
	if nontrivial(kind, b, c.Dotu) {
		hx.NonTrivial(kind, c.Dotu, b)
	}
	return run(kind, b, c.Dotu)
}

func TestReplay(t *testing.T) {
	e, err := hx.LoadReplay()
	if e == nil {
		t.Skip("no replay file", err)
	}
	replayEnv(t, e)
}

func replayEnv(t *testing.T, e *hx.Envelope) {
	var c Case
	if err := json.Unmarshal(e.Case, &c); err != nil {
		t.Fatalf("bad case: %v", err)
	}
	if err := try(e.Test, &c); err != nil {
		hx.Violation(e.Test, &c, err.Error())
		t.Fatalf("%v", err)
	}
}

func TestRegress(t *testing.T) {
	for _, e := range hx.Regressions() {
		replayEnv(t, e)
		hx.Label("regress")
	}
}

// canonical packets: minimal, typical, long for every type and dialect
func canonicals(dotu bool) (out []struct {
	name string
	pkt  []byte
}) {
	add := func(n string, m *ref9p.Msg) {
		out = append(out, struct {
			name string
			pkt  []byte
		}{n, ref9p.Encode(m, dotu)})
	}
	q := ref9p.Qid{Type: 0x80, Vers: 5, Path: 0x0102030405060708}
	for _, typ := range ref9p.AllTypes {
		add(ref9p.TypeName(typ)+"/minimal", &ref9p.Msg{Type: typ})
		m := &ref9p.Msg{Type: typ, Tag: 0x1234, Msize: 8192, Version: "9P2000.u", Fid: 1, Afid: 2, Newfid: 3, Nuname: 1000,
			Uname: "glenda", Aname: "/tmp", Ename: "file not found", Name: "notes.txt", Ext: "../target", Ecode: 2, Oldtag: 7,
			Mode: 1, Iounit: 8168, Perm: 0o644, Qid: q, Offset: 0x1122334455667788, Count: 4096, Data: []byte("hello, 9p\n"),
			Wname: []string{"usr", "glenda", "lib"}, Wqid: []ref9p.Qid{q, {Type: 0, Vers: 1, Path: 9}},
			Stat: ref9p.Stat{Type: 1, Dev: 2, Qid: q, Mode: 0x800001ED, Atime: 3, Mtime: 4, Length: 5, Name: "lib", Uid: "glenda", Gid: "sys", Muid: "bootes", Ext: "x", Nuid: 10, Ngid: 20, Nmuid: 30}}
		add(ref9p.TypeName(typ)+"/typical", m)
		l := *m
		long := string(make([]byte, 300))
		l.Version, l.Uname, l.Aname, l.Ename, l.Name, l.Ext = long, long[:40], long[:257], long, long[:255], long[:100]
		l.Wname, l.Wqid = nil, nil
		for i := 0; i < 16; i++ {
			l.Wname = append(l.Wname, long[:i*3])
			l.Wqid = append(l.Wqid, q)
		}
		l.Data = make([]byte, 700)
		l.Stat.Name, l.Stat.Uid, l.Stat.Gid, l.Stat.Muid, l.Stat.Ext = long[:255], long[:20], "", long[:1], long[:64]
		add(ref9p.TypeName(typ)+"/long", &l)
	}
	return
}

var sizeValues = []uint32{0x10000, 0x7FFFFFFF, 0x80000000, 0xFFFFFFFF}

// TestStructuralNeighbourhood enumerates, for each canonical packet: every
// truncation, every declared size variation (over the full and the truncated
// buffer) and every boundary value at every byte of every structural field.
func TestStructuralNeighbourhood(t *testing.T) {
	fails := 0
	report := func(c *Case, err error) {
		if err == nil {
			return
		}
		fails++
		if fails <= 12 {
			hx.Violation("neighbourhood", c, err.Error())
			t.Errorf("%s: %v", c.Desc, err)
		}
	}
	idx := 0
	for _, dotu := range []bool{false, true} {
		for _, cn := range canonicals(dotu) {
			idx++
			if hx.NShards > 1 && idx%hx.NShards != hx.Shard {
				continue
			}
			pkt := cn.pkt
			fm, err := ref9p.FieldMap(pkt, dotu)
			if err != nil {
				t.Fatalf("harness: canonical %s does not decode: %v", cn.name, err)
			}
			hx.Label("neighbourhood " + cn.name)
			mk := func(desc string, b []byte) *Case {
				return &Case{Kind: "msg", Dotu: dotu, Input: b, Desc: cn.name + " " + desc}
			}
			hx.Sample("neighbourhood", sampleOf(mk("intact", pkt)))
			// truncations
			for n := 0; n <= len(pkt); n++ {
				c := mk(fmt.Sprintf("truncated to %d", n), append([]byte(nil), pkt[:n]...))
				report(c, try("neighbourhood", c))
			}
			// declared sizes over the full buffer and over truncated buffers
			var sizes []uint32
			for s := 0; s <= len(pkt)+8; s++ {
				sizes = append(sizes, uint32(s))
			}
			sizes = append(sizes, sizeValues...)
			for _, s := range sizes {
				b := append([]byte(nil), pkt...)
				binary.LittleEndian.PutUint32(b, s)
				c := mk(fmt.Sprintf("declared size %d", s), b)
				report(c, try("neighbourhood", c))
				// with extra bytes available after the packet
				c = mk(fmt.Sprintf("declared size %d + tail", s), append(append([]byte(nil), b...), tail3...))
				report(c, try("neighbourhood", c))
			}
			step := 1
			if len(pkt) > 200 && !hx.Thorough() {
				step = 7
			}
			for n := 7; n < len(pkt); n += step {
				for _, s := range []uint32{uint32(n), uint32(n - 1), uint32(n + 1), uint32(len(pkt))} {
					b := append([]byte(nil), pkt[:n]...)
					binary.LittleEndian.PutUint32(b, s)
					c := mk(fmt.Sprintf("truncated to %d declared %d", n, s), b)
					report(c, try("neighbourhood", c))
				}
			}
			// boundary values at every byte of every structural field
			for _, f := range fm {
				switch f.Kind {
				case "size", "type", "strlen", "count", "nw", "statlen", "statsize":
				default:
					continue
				}
				for off := f.Off; off < f.Off+f.Len; off++ {
					orig := pkt[off]
					for _, v := range []byte{0, 1, 0x7F, 0x80, 0xFE, 0xFF, orig + 1, orig - 1} {
						if v == orig {
							continue
						}
						b := append([]byte(nil), pkt...)
						b[off] = v
						c := mk(fmt.Sprintf("%s byte %d = %#x", f.Name, off-f.Off, v), b)
						report(c, try("neighbourhood", c))
						// same substitution with the size prefix adjusted is not meaningful; but add a tail
						c = mk(fmt.Sprintf("%s byte %d = %#x + tail", f.Name, off-f.Off, v), append(append([]byte(nil), b...), tail1...))
						report(c, try("neighbourhood", c))
					}
				}
			}
		}
	}
	// stat records on their own
	for _, dotu := range []bool{false, true} {
		for i, s := range []ref9p.Stat{{}, {Type: 1, Dev: 2, Mode: 0x800001ED, Name: "lib", Uid: "glenda", Gid: "sys", Muid: "bootes", Ext: "x", Nuid: 10},
			{Name: string(make([]byte, 255)), Uid: "u", Gid: "", Muid: string(make([]byte, 300)), Ext: string(make([]byte, 64))}} {
			if hx.NShards > 1 && i%hx.NShards != hx.Shard%3 {
				continue
			}
			rec := ref9p.EncodeStat(&s, dotu)
			mk := func(desc string, b []byte) *Case {
				return &Case{Kind: "dir", Dotu: dotu, Input: b, Desc: fmt.Sprintf("stat#%d %s", i, desc)}
			}
			hx.Label(fmt.Sprintf("neighbourhood stat#%d dotu=%v", i, dotu))
			for n := 0; n <= len(rec); n++ {
				c := mk(fmt.Sprintf("truncated to %d", n), append([]byte(nil), rec[:n]...))
				report(c, try("neighbourhood", c))
			}
			for sz := 0; sz <= len(rec)+8; sz++ {
				for _, tl := range [][]byte{nil, tail3} {
					b := append([]byte(nil), rec...)
					binary.LittleEndian.PutUint16(b, uint16(sz))
					c := mk(fmt.Sprintf("size field %d tail %d", sz, len(tl)), append(b, tl...))
					report(c, try("neighbourhood", c))
				}
			}
			for _, sz := range []uint16{0x7FFF, 0x8000, 0xFFFE, 0xFFFF} {
				b := append([]byte(nil), rec...)
				binary.LittleEndian.PutUint16(b, sz)
				c := mk(fmt.Sprintf("size field %d", sz), b)
				report(c, try("neighbourhood", c))
			}
			// string length fields
			off := 2 + 2 + 4 + 13 + 4 + 4 + 4 + 8
			strs := []string{s.Name, s.Uid, s.Gid, s.Muid}
			if dotu {
				strs = append(strs, s.Ext)
			}
			for _, str := range strs {
				for k := 0; k < 2; k++ {
					for _, v := range []byte{0, 1, 0x7F, 0x80, 0xFE, 0xFF, rec[off+k] + 1, rec[off+k] - 1} {
						for _, tl := range [][]byte{nil, tail1} {
							b := append([]byte(nil), rec...)
							b[off+k] = v
							c := mk(fmt.Sprintf("strlen@%d byte %d = %#x tail %d", off, k, v, len(tl)), append(b, tl...))
							report(c, try("neighbourhood", c))
						}
					}
				}
				off += 2 + len(str)
			}
		}
	}
	if fails > 12 {
		t.Errorf("... and %d more failing neighbourhood cases", fails-12)
	}
	hx.Exhaustive("structural neighbourhood of 3 canonical packets x 27 types x 2 dialects: every truncation, declared sizes 0..len+8 and extremes, boundary values at every byte of every size/length/count/type field; same for 3 stat records")
}

// TestEnumCountFields: every 16-bit value in every element-count / stat-size
// field (nwname, nwqid, stat[n], stat size) of the minimal and typical packets
// that carry one: arithmetic on such counts (n*13, n*2, n+2 ...) must not wrap.
func TestEnumCountFields(t *testing.T) {
	fails := 0
	idx := 0
	for _, dotu := range []bool{false, true} {
		for _, cn := range canonicals(dotu) {
			fm, err := ref9p.FieldMap(cn.pkt, dotu)
			if err != nil {
				t.Fatalf("harness: %v", err)
			}
			if len(cn.pkt) > 120 {
				continue // minimal and typical only
			}
			for _, f := range fm {
				if f.Len != 2 || (f.Kind != "nw" && f.Kind != "statlen" && f.Kind != "statsize") {
					continue
				}
				idx++
				if hx.NShards > 1 && idx%hx.NShards != hx.Shard {
					continue
				}
				hx.Label("count-sweep " + cn.name + " " + f.Name)
				for v := 0; v < 65536; v++ {
					b := append([]byte(nil), cn.pkt...)
					binary.LittleEndian.PutUint16(b[f.Off:], uint16(v))
					c := &Case{Kind: "msg", Dotu: dotu, Input: b, Desc: fmt.Sprintf("%s %s = %d", cn.name, f.Name, v)}
					if err := try("countsweep", c); err != nil {
						fails++
						if fails <= 5 {
							hx.Violation("countsweep", c, err.Error())
							t.Errorf("%s: %v", c.Desc, err)
						}
					}
					// and with the body cut right after the count field (few bytes present)
					if v%8 == 5 || v < 64 {
						b2 := append([]byte(nil), b[:f.Off+2]...)
						b2 = append(b2, byte(v))
						binary.LittleEndian.PutUint32(b2, uint32(len(b2)))
						c2 := &Case{Kind: "msg", Dotu: dotu, Input: b2, Desc: fmt.Sprintf("%s %s = %d, body cut after the count", cn.name, f.Name, v)}
						if err := try("countsweep", c2); err != nil {
							fails++
							if fails <= 5 {
								hx.Violation("countsweep", c2, err.Error())
								t.Errorf("%s: %v", c2.Desc, err)
							}
						}
					}
				}
			}
		}
	}
	hx.Exhaustive("every 16-bit value of every element-count and stat-size field (nwname, nwqid, stat[n], stat size) in the minimal and typical canonical packets, plus bodies cut right after the count")
}

// mutate applies 1..4 random edits.
func mutate(t *rapid.T, b []byte, dotu bool, other []byte) []byte {
	n := rapid.IntRange(1, 4).Draw(t, "nedits")
	for i := 0; i < n; i++ {
		switch rapid.IntRange(0, 5).Draw(t, "edit") {
		case 0: // substitute
			if len(b) > 0 {
				p := rapid.IntRange(0, len(b)-1).Draw(t, "pos")
				b[p] = gen9p.U8().Draw(t, "val")
			}
		case 1: // insert
			p := rapid.IntRange(0, len(b)).Draw(t, "pos")
			ins := rapid.SliceOfN(rapid.Byte(), 1, 8).Draw(t, "ins")
			b = append(b[:p:p], append(ins, b[p:]...)...)
		case 2: // delete
			if len(b) > 1 {
				p := rapid.IntRange(0, len(b)-1).Draw(t, "pos")
				k := rapid.IntRange(1, min(8, len(b)-p)).Draw(t, "k")
				b = append(b[:p:p], b[p+k:]...)
			}
		case 3: // splice a second packet
			p := rapid.IntRange(0, len(b)).Draw(t, "pos")
			b = append(b[:p:p], other...)
		case 4: // overwrite a length field with a boundary value
			if fm, err := ref9p.FieldMap(b, dotu); err == nil {
				var cand []ref9p.Field
				for _, f := range fm {
					switch f.Kind {
					case "strlen", "count", "nw", "statlen", "statsize", "size":
						cand = append(cand, f)
					}
				}
				if len(cand) > 0 {
					f := cand[rapid.IntRange(0, len(cand)-1).Draw(t, "field")]
					v := rapid.SampledFrom([]uint32{0, 1, 2, 0x7F, 0xFF, 0x100, 0x7FFF, 0xFFFF, 0x10000, 0x7FFFFFFF, 0xFFFFFFFF, uint32(len(b)), uint32(len(b)) - 7}).Draw(t, "lv")
					for k := 0; k < f.Len; k++ {
						b[f.Off+k] = byte(v >> (8 * k))
					}
				}
			}
		case 5: // fix up the size prefix to the actual length
			if len(b) >= 4 {
				binary.LittleEndian.PutUint32(b, uint32(len(b)))
			}
		}
	}
	return b
}

func TestPropMutations(t *testing.T) {
	cfg := gen9p.Cfg{Heavy: false, MaxData: 600}
	hx.Check(t, "mutations", hx.N(25000, 300000), func(t *rapid.T) {
		dotu := rapid.Bool().Draw(t, "dotu")
		encDotu := dotu
		if rapid.IntRange(0, 9).Draw(t, "crossdialect") == 0 {
			encDotu = !dotu // a packet of the other dialect
		}
		m := cfg.Msg(t, gen9p.AnyType(t), encDotu)
		b := ref9p.Encode(m, encDotu)
		o := ref9p.Encode(cfg.Msg(t, gen9p.AnyType(t), encDotu), encDotu)
		if rapid.IntRange(0, 9).Draw(t, "mutate") > 0 {
			b = mutate(t, b, encDotu, o)
		} else {
			b = append(b, o...)
		}
		c := &Case{Kind: "msg", Dotu: dotu, Input: b}
		hx.Journal("mutations", c)
		hx.Label(fmt.Sprintf("mutated type=%s dotu=%v", ref9p.TypeName(m.Type), dotu))
		hx.Sample("mutations", sampleOf(c))
		if err := try("mutations", c); err != nil {
			hx.Failf(t, "mutations", c, "%v", err)
		}
	})
}

func TestPropRawBytes(t *testing.T) {
	hx.Check(t, "raw", hx.N(15000, 150000), func(t *rapid.T) {
		dotu := rapid.Bool().Draw(t, "dotu")
		b := rapid.SliceOfN(rapid.Byte(), 0, 512).Draw(t, "bytes")
		if len(b) >= 7 {
			if rapid.Bool().Draw(t, "forcetype") {
				b[4] = byte(rapid.IntRange(100, 127).Draw(t, "type"))
			}
			if rapid.Bool().Draw(t, "forcesize") {
				binary.LittleEndian.PutUint32(b, uint32(rapid.IntRange(7, len(b)).Draw(t, "size")))
			}
		}
		c := &Case{Kind: "msg", Dotu: dotu, Input: b}
		hx.Journal("raw", c)
		if len(b) >= 7 {
			hx.Label(fmt.Sprintf("raw type=%s", ref9p.TypeName(b[4])))
		}
		hx.Sample("raw", sampleOf(c))
		if err := try("raw", c); err != nil {
			hx.Failf(t, "raw", c, "%v", err)
		}
	})
}

func TestPropDirMutations(t *testing.T) {
	cfg := gen9p.Cfg{}
	hx.Check(t, "dirmut", hx.N(10000, 100000), func(t *rapid.T) {
		dotu := rapid.Bool().Draw(t, "dotu")
		s := cfg.Stat(t, rapid.Bool().Draw(t, "encdotu"), "st")
		b := ref9p.EncodeStat(&s, dotu)
		switch rapid.IntRange(0, 3).Draw(t, "how") {
		case 0:
			b = mutate(t, b, dotu, []byte{0, 0, 0})
		case 1:
			b = rapid.SliceOfN(rapid.Byte(), 0, 120).Draw(t, "raw")
		case 2:
			b = append(b, rapid.SliceOfN(rapid.Byte(), 0, 60).Draw(t, "tail")...)
		case 3:
			if len(b) > 2 {
				binary.LittleEndian.PutUint16(b, uint16(rapid.IntRange(0, len(b)+4).Draw(t, "sz")))
			}
		}
		c := &Case{Kind: "dir", Dotu: dotu, Input: b}
		hx.Journal("dirmut", c)
		hx.Label(fmt.Sprintf("dir dotu=%v", dotu))
		hx.Sample("dirmut", sampleOf(c))
		if err := try("dirmut", c); err != nil {
			hx.Failf(t, "dirmut", c, "%v", err)
		}
	})
}

// Native fuzz targets (thorough tier; the oracle is inside the target).
func FuzzUnpack(f *testing.F) {
	for _, dotu := range []bool{false, true} {
		for _, c := range canonicals(dotu) {
			f.Add(c.pkt, dotu)
		}
	}
	f.Add([]byte{17, 0, 0, 0, 110, 0, 0, 1, 0, 0, 0, 2, 0, 0, 0, 0xFF, 0xFF}, false)
	f.Add([]byte{23, 0, 0, 0, 118, 0, 0, 1, 0, 0, 0, 0, 0, 0, 0, 0, 0, 0, 0, 0xFF, 0xFF, 0xFF, 0xFF}, true)
	allocConst = 512 << 10
	f.Fuzz(func(t *testing.T, b []byte, dotu bool) {
		if err := checkMsg(b, dotu); err != nil {
			t.Fatalf("%v", err)
		}
	})
}

func FuzzUnpackDir(f *testing.F) {
	for _, dotu := range []bool{false, true} {
		f.Add(ref9p.EncodeStat(&ref9p.Stat{Name: "lib", Uid: "glenda", Gid: "sys", Muid: "bootes", Ext: "x"}, dotu), dotu)
	}
	allocConst = 512 << 10
	f.Fuzz(func(t *testing.T, b []byte, dotu bool) {
		if err := checkDir(b, dotu); err != nil {
			t.Fatalf("%v", err)
		}
	})
}
