package c02

import (
	"encoding/binary"
	"fmt"

	"verif/internal/ref9p"
)

// Spec describes an input by construction instead of by its bytes: a message or
// a stand-alone stat record whose variable-length fields have the given lengths
// (inputs at the 16-bit limits are 64 KiB .. 1 MiB long; journal entries,
// replays and regression files stay small and readable this way). A Spec with
// Pad == 0 and NStat == nil is well-formed (strictly valid).
type Spec struct {
	// Type is "stat" for a stand-alone record (UnpackDir) or a message type name.
	Type string `json:"type"`
	// Lens are the lengths of the strings in wire order (Twalk: the names;
	// Rread/Twrite: one entry, the payload; stat, Rstat, Twstat: name uid gid
	// muid [ext]). Missing entries are 0.
	Lens []int `json:"lens,omitempty"`
	// N is the element count of Rwalk (qids) and Twalk (names; their lengths
	// cycle through Lens). For Twalk N == 0 means len(Lens) names.
	N int `json:"n,omitempty"`
	// Pad is a number of bytes inside a stat record behind its last field,
	// counted by its size field (slack: not strictly valid any more).
	Pad int `json:"pad,omitempty"`
	// NStat, when set, is written into the outer stat[n] of Rstat/Twstat
	// instead of the record length (which wraps at 16 bits for the two largest records).
	NStat *int `json:"nstat,omitempty"`
	// Fill seeds the (position dependent) content of strings and payload.
	Fill byte `json:"fill"`
	// Tail is a number of bytes appended behind the input.
	Tail int `json:"tail,omitempty"`
}

func (s *Spec) String() string {
	x := fmt.Sprintf("%s lens=%v", s.Type, s.Lens)
	if s.N != 0 {
		x += fmt.Sprintf(" n=%d", s.N)
	}
	if s.Pad != 0 {
		x += fmt.Sprintf(" pad=%d", s.Pad)
	}
	if s.NStat != nil {
		x += fmt.Sprintf(" stat[n]=%d", *s.NStat)
	}
	if s.Tail != 0 {
		x += fmt.Sprintf(" tail=%d", s.Tail)
	}
	return x
}

func fillStr(fill byte, salt, n int) string {
	b := make([]byte, n)
	for i := range b {
		b[i] = fill ^ byte(i) ^ byte(i>>8) ^ byte(salt*37)
	}
	return string(b)
}

func (s *Spec) l(i int) int {
	if i < len(s.Lens) {
		return s.Lens[i]
	}
	return 0
}

// statFixed is the number of bytes a stat record's size field counts when all
// its strings are empty.
func statFixed(dotu bool) int {
	if dotu {
		return 39 + 5*2 + 12
	}
	return 39 + 4*2
}

func (s *Spec) statRec(dotu bool) ([]byte, error) {
	st := ref9p.Stat{Type: 0x0102, Dev: 0x03040506, Qid: ref9p.Qid{Type: 0x80, Vers: 0x0708090A, Path: 0x0B0C0D0E0F101112},
		Mode: 0x800001ED, Atime: 0x13141516, Mtime: 0x1718191A, Length: 0x1B1C1D1E1F202122,
		Name: fillStr(s.Fill, 1, s.l(0)), Uid: fillStr(s.Fill, 2, s.l(1)), Gid: fillStr(s.Fill, 3, s.l(2)), Muid: fillStr(s.Fill, 4, s.l(3)),
		Nuid: 0x23242526, Ngid: 0x2728292A, Nmuid: 0x2B2C2D2E}
	if dotu {
		st.Ext = fillStr(s.Fill, 5, s.l(4))
	}
	n := ref9p.StatLen(&st, dotu) - 2 + s.Pad
	if n > 0xFFFF || s.Pad < 0 {
		return nil, fmt.Errorf("spec: stat record of %d bytes does not fit its size field", n)
	}
	rec := ref9p.EncodeStat(&st, dotu)
	for i := 0; i < s.Pad; i++ {
		rec = append(rec, s.Fill+byte(i))
	}
	binary.LittleEndian.PutUint16(rec, uint16(n))
	return rec, nil
}

func typeByName(name string) (uint8, bool) {
	for _, t := range ref9p.AllTypes {
		if ref9p.TypeName(t) == name {
			return t, true
		}
	}
	return 0, false
}

// Build returns (kind, input bytes).
func (s *Spec) Build(dotu bool) (kind string, b []byte, err error) {
	for _, l := range s.Lens {
		if l < 0 || l > 0xFFFF && s.Type != "Rread" && s.Type != "Twrite" {
			return "", nil, fmt.Errorf("spec: string length %d", l)
		}
	}
	if s.N < 0 || s.N > 0xFFFF || s.Tail < 0 {
		return "", nil, fmt.Errorf("spec: bad count or tail")
	}
	defer func() {
		for i := 0; i < s.Tail; i++ {
			b = append(b, tail3[i%len(tail3)])
		}
	}()
	if s.Type == "stat" {
		b, err = s.statRec(dotu)
		return "dir", b, err
	}
	typ, ok := typeByName(s.Type)
	if !ok {
		return "", nil, fmt.Errorf("spec: unknown type %q", s.Type)
	}
	q := ref9p.Qid{Type: 0x80, Vers: 5, Path: 0x0102030405060708}
	m := &ref9p.Msg{Type: typ, Tag: 0x1234, Msize: 0x00FFFFFF, Fid: 1, Afid: 2, Newfid: 3, Nuname: 1000, Ecode: 2, Oldtag: 7,
		Mode: 1, Iounit: 8168, Perm: 0o644, Qid: q, Offset: 0x1122334455667788, Count: 4096}
	switch typ {
	case ref9p.Tversion, ref9p.Rversion:
		m.Version = fillStr(s.Fill, 1, s.l(0))
	case ref9p.Tauth, ref9p.Tattach:
		m.Uname, m.Aname = fillStr(s.Fill, 1, s.l(0)), fillStr(s.Fill, 2, s.l(1))
	case ref9p.Rerror:
		m.Ename = fillStr(s.Fill, 1, s.l(0))
	case ref9p.Tcreate:
		m.Name, m.Ext = fillStr(s.Fill, 1, s.l(0)), fillStr(s.Fill, 2, s.l(1))
	case ref9p.Twalk:
		n := s.N
		if n == 0 {
			n = len(s.Lens)
		}
		m.Wname = make([]string, n)
		for i := range m.Wname {
			if len(s.Lens) > 0 {
				m.Wname[i] = fillStr(s.Fill, i, s.Lens[i%len(s.Lens)])
			}
		}
	case ref9p.Rwalk:
		m.Wqid = make([]ref9p.Qid, s.N)
		for i := range m.Wqid {
			m.Wqid[i] = ref9p.Qid{Type: byte(i) ^ s.Fill, Vers: uint32(i), Path: uint64(i) * 0x0101010101}
		}
	case ref9p.Rread, ref9p.Twrite:
		m.Data = []byte(fillStr(s.Fill, 1, s.l(0)))
	case ref9p.Rstat, ref9p.Twstat:
		rec, err := s.statRec(dotu)
		if err != nil {
			return "", nil, err
		}
		b = []byte{0, 0, 0, 0, typ, 0x34, 0x12}
		if typ == ref9p.Twstat {
			b = append(b, 1, 0, 0, 0)
		}
		nstat := len(rec) // wraps for the two largest records
		if s.NStat != nil {
			nstat = *s.NStat
		}
		b = binary.LittleEndian.AppendUint16(b, uint16(nstat))
		b = append(b, rec...)
		binary.LittleEndian.PutUint32(b, uint32(len(b)))
		return "msg", b, nil
	}
	return "msg", ref9p.Encode(m, dotu), nil
}

// extreme16 is the threshold from which a 16-bit length/count/size value is
// counted as "at the extremes" (sign bit of a 16-bit quantity and above).
const extreme16 = 0x7FFF

// extremeMsg reports whether a strictly valid message carries a 16-bit
// length, count or size field holding a value >= extreme16.
func extremeMsg(m *ref9p.Msg, dotu bool) bool {
	for _, s := range []string{m.Version, m.Uname, m.Aname, m.Ename, m.Name, m.Ext} {
		if len(s) >= extreme16 {
			return true
		}
	}
	for _, s := range m.Wname {
		if len(s) >= extreme16 {
			return true
		}
	}
	if len(m.Wname) >= extreme16 || len(m.Wqid) >= extreme16 {
		return true
	}
	if m.Type == ref9p.Rstat || m.Type == ref9p.Twstat {
		return ref9p.StatLen(&m.Stat, dotu) >= extreme16
	}
	return false
}
