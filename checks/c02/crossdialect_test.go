package c02

import (
	"encoding/binary"
	"fmt"
	"testing"

	"pgregory.net/rapid"
	"verif/internal/gen9p"
	"verif/internal/hx"
	"verif/internal/ref9p"
)

// Packets that are well-formed in ONE dialect, decoded in the OTHER (and in
// their own), with the end of the packet moved a few bytes either way.
//
// The two dialects differ only at the END of a message body or stat record
// (ecode behind ename, n_uname behind aname, the extension behind mode, the
// extension and three numbers behind muid), so "the other dialect's packet" is
// this dialect's packet with a few bytes too many or too few behind the last
// field, and the question the acceptance clause asks is what the decoder does
// with them: refuse, or accept with a result that survives re-encoding.

// dialectVariants: field combinations for the message types that have
// dialect-dependent fields; one typical record for every other type.
func dialectVariants() (out []*ref9p.Msg) {
	q := ref9p.Qid{Type: 0x80, Vers: 5, Path: 0x0102030405060708}
	nums := []uint32{0, 2, 1000, 0x00010001, 0xFFFFFFFF}
	for _, typ := range ref9p.AllTypes {
		switch typ {
		case ref9p.Rerror:
			for _, en := range []string{"", "e", "file not found"} {
				for _, ec := range nums {
					out = append(out, &ref9p.Msg{Type: typ, Tag: 1, Ename: en, Ecode: ec})
				}
			}
		case ref9p.Tattach, ref9p.Tauth:
			for _, un := range []string{"", "glenda"} {
				for _, an := range []string{"", "/tmp"} {
					for _, nu := range nums {
						out = append(out, &ref9p.Msg{Type: typ, Tag: 2, Fid: 1, Afid: ref9p.NOFID, Uname: un, Aname: an, Nuname: nu})
					}
				}
			}
		case ref9p.Tcreate:
			for _, nm := range []string{"", "f"} {
				for _, ext := range []string{"", "x", "../target", "\x01\x00"} {
					for _, mode := range []uint8{0, 1, 0xFF} {
						out = append(out, &ref9p.Msg{Type: typ, Tag: 3, Fid: 1, Name: nm, Perm: 0x020001A4, Mode: mode, Ext: ext})
					}
				}
			}
		case ref9p.Rstat, ref9p.Twstat:
			for _, st := range dialectStats() {
				out = append(out, &ref9p.Msg{Type: typ, Tag: 4, Fid: 1, Stat: st})
			}
		default:
			out = append(out, &ref9p.Msg{Type: typ, Tag: 0x1234, Msize: 8192, Version: "9P2000.u", Fid: 1, Afid: 2, Newfid: 3,
				Oldtag: 7, Mode: 1, Iounit: 8168, Qid: q, Offset: 0x1122334455667788, Count: 4096, Data: []byte("hello, 9p\n"),
				Wname: []string{"usr", "glenda"}, Wqid: []ref9p.Qid{q, {Type: 0, Vers: 1, Path: 9}}})
		}
	}
	return
}

func dialectStats() (out []ref9p.Stat) {
	q := ref9p.Qid{Type: 0x80, Vers: 5, Path: 0x0102030405060708}
	for _, strs := range [][5]string{{"", "", "", "", ""}, {"lib", "glenda", "sys", "bootes", "x"}, {"", "", "", "m", ""}, {"n", "", "", "", "../target"}} {
		for _, n := range []uint32{0, 10, 0xFFFFFFFF} {
			out = append(out, ref9p.Stat{Type: 1, Dev: 2, Qid: q, Mode: 0x800001ED, Atime: 3, Mtime: 4, Length: 5,
				Name: strs[0], Uid: strs[1], Gid: strs[2], Muid: strs[3], Ext: strs[4], Nuid: n, Ngid: n + 1, Nmuid: n + 2})
		}
	}
	return
}

// inTails: what is put behind the last field (inside the declared size).
func inTail(fill, k int) []byte {
	b := make([]byte, k)
	for i := range b {
		switch fill {
		case 0:
			b[i] = 0
		case 1:
			b[i] = 0xFF
		case 2: // reads as strings of length 1, 0, 1, 0 ... / small numbers
			b[i] = byte((i + 1) % 2)
		default: // a string whose length is exactly what is left, then letters
			if i == 0 && k >= 2 {
				b[i] = byte(k - 2)
			} else if i > 1 {
				b[i] = byte('a' + i)
			}
		}
	}
	return b
}

const nFills = 4

// moveEnd returns pkt with its end moved by k bytes (k < 0: cut, k > 0: tail
// of the given fill) and the size prefix fixed up. For Rstat/Twstat how says
// which inner sizes follow: 0 none, 1 the outer stat[n], 2 stat[n] and the
// record's own size field (the bytes become slack inside the record).
func moveEnd(pkt []byte, k, fill, how int, nOff int) []byte {
	var b []byte
	if k < 0 {
		if len(pkt)+k < 7 {
			return nil
		}
		b = append([]byte(nil), pkt[:len(pkt)+k]...)
	} else {
		b = append(append([]byte(nil), pkt...), inTail(fill, k)...)
	}
	binary.LittleEndian.PutUint32(b, uint32(len(b)))
	if nOff > 0 && how > 0 && len(b) >= nOff+4 {
		n := int(binary.LittleEndian.Uint16(b[nOff:])) + k
		sz := int(binary.LittleEndian.Uint16(b[nOff+2:])) + k
		if n < 0 || sz < 0 || n > 0xFFFF {
			return nil
		}
		binary.LittleEndian.PutUint16(b[nOff:], uint16(n))
		if how > 1 {
			binary.LittleEndian.PutUint16(b[nOff+2:], uint16(sz))
		}
	}
	return b
}

// statNOff is the offset of the outer stat[n] count in an Rstat / Twstat.
func statNOff(typ uint8) int {
	switch typ {
	case ref9p.Rstat:
		return 7
	case ref9p.Twstat:
		return 11
	}
	return 0
}

func dialectDependent(typ uint8) bool {
	switch typ {
	case ref9p.Rerror, ref9p.Tattach, ref9p.Tauth, ref9p.Tcreate, ref9p.Rstat, ref9p.Twstat:
		return true
	}
	return false
}

// TestEnumCrossDialect: every variant, encoded in either dialect, decoded in
// either dialect, with the end of the packet moved by -14..+14 bytes (the
// longest dialect difference is 2+12 bytes) and four fills.
func TestEnumCrossDialect(t *testing.T) {
	fails := 0
	report := func(c *Case, err error) {
		if err == nil {
			return
		}
		fails++
		if fails <= 12 {
			hx.Violation("crossdialect", c, err.Error())
			t.Errorf("%s: %v", c.Desc, err)
		}
	}
	idx := 0
	for vi, m := range dialectVariants() {
		for _, enc := range []bool{false, true} {
			idx++
			if hx.NShards > 1 && idx%hx.NShards != hx.Shard {
				continue
			}
			pkt := ref9p.Encode(m, enc)
			nOff := statNOff(m.Type)
			hows := 1
			if nOff > 0 {
				hows = 3
			}
			lo, hi := -14, 14
			if !dialectDependent(m.Type) {
				lo, hi = -4, 4
			}
			for _, dec := range []bool{false, true} {
				hx.Label(fmt.Sprintf("crossdialect %s enc.u=%v dec.u=%v", ref9p.TypeName(m.Type), enc, dec))
				for k := lo; k <= hi; k++ {
					for fill := 0; fill < nFills; fill++ {
						if k <= 0 && fill > 0 {
							break
						}
						for how := 0; how < hows; how++ {
							b := moveEnd(pkt, k, fill, how, nOff)
							if b == nil {
								continue
							}
							c := &Case{Kind: "msg", Dotu: dec, Input: b, Desc: fmt.Sprintf("variant %d: %s encoded dotu=%v, end moved by %d (fill %d, inner sizes %d), decoded dotu=%v", vi, ref9p.TypeName(m.Type), enc, k, fill, how, dec)}
							if k == 4 && fill == 2 && how == 0 {
								hx.Sample("crossdialect", sampleOf(c))
							}
							report(c, try("crossdialect", c))
						}
					}
				}
			}
		}
	}
	// stat records on their own, through UnpackDir
	for si, st := range dialectStats() {
		for _, enc := range []bool{false, true} {
			idx++
			if hx.NShards > 1 && idx%hx.NShards != hx.Shard {
				continue
			}
			rec := ref9p.EncodeStat(&st, enc)
			for _, dec := range []bool{false, true} {
				hx.Label(fmt.Sprintf("crossdialect stat enc.u=%v dec.u=%v", enc, dec))
				for k := -14; k <= 14; k++ {
					for fill := 0; fill < nFills; fill++ {
						if k <= 0 && fill > 0 {
							break
						}
						for how := 0; how < 2; how++ { // 0: bytes behind the record, 1: slack inside it
							var b []byte
							if k < 0 {
								b = append([]byte(nil), rec[:len(rec)+k]...)
							} else {
								b = append(append([]byte(nil), rec...), inTail(fill, k)...)
							}
							if how == 1 {
								binary.LittleEndian.PutUint16(b, uint16(len(b)-2))
							}
							c := &Case{Kind: "dir", Dotu: dec, Input: b, Desc: fmt.Sprintf("stat %d encoded dotu=%v, end moved by %d (fill %d, size field follows: %d), decoded dotu=%v", si, enc, k, fill, how, dec)}
							report(c, try("crossdialect", c))
						}
					}
				}
			}
		}
	}
	if fails > 12 {
		t.Errorf("... and %d more failing cross-dialect cases", fails-12)
	}
	hx.Exhaustive("cross-dialect: every field variant of Rerror/Tattach/Tauth/Tcreate/Rstat/Twstat (and one packet of every other type) and of a stand-alone stat record, encoded in either dialect, decoded in either dialect, end of the packet/record moved by -14..+14 bytes (4 fills; for stat records with and without the inner size fields following)")
}

// TestPropCrossDialect: generated messages of either dialect decoded in either
// dialect, optionally with drawn bytes behind the last field or some bytes cut.
func TestPropCrossDialect(t *testing.T) {
	cfg := gen9p.Cfg{Heavy: false, MaxData: 200}
	dep := []uint8{ref9p.Rerror, ref9p.Tattach, ref9p.Tauth, ref9p.Tcreate, ref9p.Rstat, ref9p.Twstat}
	hx.Check(t, "crossdialect", hx.N(8000, 100000), func(t *rapid.T) {
		enc := rapid.Bool().Draw(t, "encdotu")
		dec := rapid.Bool().Draw(t, "decdotu")
		var c *Case
		var name string
		if rapid.IntRange(0, 5).Draw(t, "dir") == 0 {
			s := cfg.Stat(t, enc, "st")
			b := ref9p.EncodeStat(&s, enc)
			k := rapid.IntRange(-14, 14).Draw(t, "k")
			if k < 0 && len(b)+k >= 0 {
				b = b[:len(b)+k]
			} else if k > 0 {
				b = append(b, gen9p.Bytes(t, k, "tail")...)
			}
			if rapid.Bool().Draw(t, "sizefollows") && len(b) >= 2 && len(b)-2 <= 0xFFFF {
				binary.LittleEndian.PutUint16(b, uint16(len(b)-2))
			}
			c = &Case{Kind: "dir", Dotu: dec, Input: b}
			name = "stat"
		} else {
			typ := rapid.SampledFrom(dep).Draw(t, "deptype")
			if rapid.IntRange(0, 4).Draw(t, "anytype") == 0 {
				typ = gen9p.AnyType(t)
			}
			m := cfg.Msg(t, typ, enc)
			b := ref9p.Encode(m, enc)
			k := 0
			if rapid.IntRange(0, 3).Draw(t, "move") > 0 {
				k = rapid.IntRange(-14, 14).Draw(t, "k")
			}
			fill := 0
			var tl []byte
			if k > 0 {
				tl = gen9p.Bytes(t, k, "tail")
			}
			how := rapid.IntRange(0, 2).Draw(t, "how")
			if mv := moveEnd(b, k, fill, how, statNOff(typ)); mv != nil {
				copy(mv[len(mv)-len(tl):], tl)
				b = mv
			}
			c = &Case{Kind: "msg", Dotu: dec, Input: b}
			name = ref9p.TypeName(typ)
		}
		hx.Journal("crossdialect", c)
		hx.Label(fmt.Sprintf("crossdialect %s enc.u=%v dec.u=%v", name, enc, dec))
		if err := try("crossdialect", c); err != nil {
			hx.Failf(t, "crossdialect", c, "%v", err)
		}
	})
}
