// C02 — decoding is total and bounded on arbitrary bytes.
package c02

import (
	"encoding/binary"
	"fmt"
	"runtime"

	"github.com/rminnich/go9p"
	"verif/internal/conv"
	"verif/internal/ref9p"
)

type Case struct {
	Kind  string `json:"kind,omitempty"` // "msg" or "dir"
	Dotu  bool   `json:"dotu"`
	Input []byte `json:"input,omitempty"`
	Desc  string `json:"desc,omitempty"`
	// Spec, when set, describes the input by construction (Input is empty and
	// Kind follows from the Spec): see extreme.go.
	Spec *Spec `json:"spec,omitempty"`
}

// bytes returns the kind and the input bytes of the case.
func (c *Case) bytes() (string, []byte, error) {
	if c.Spec == nil {
		return c.Kind, c.Input, nil
	}
	return c.Spec.Build(c.Dotu)
}

type result struct {
	panicked interface{}
	err      error
	consumed int
	msg      *ref9p.Msg // canonical for the dialect (filled by canon)
	raw      *ref9p.Msg // every field Unpack filled in for the type, whatever the dialect (rawFields)
	fc       *go9p.Fcall
	alloc    uint64
}

var ms1, ms2 runtime.MemStats

func unpack(b []byte, dotu bool, measure bool) (r result) {
	defer func() {
		if p := recover(); p != nil {
			r.panicked = p
		}
	}()
	if measure {
		runtime.ReadMemStats(&ms1)
	}
	fc, n, err := go9p.Unpack(b, dotu)
	if measure {
		runtime.ReadMemStats(&ms2)
		r.alloc = ms2.TotalAlloc - ms1.TotalAlloc
	}
	r.err, r.consumed, r.fc = err, n, fc
	if err == nil && fc != nil {
		r.raw = rawFields(fc)
	}
	return
}

// canon fills in the dialect-canonical view of the decoded fields.
func (r *result) canon(dotu bool) {
	if r.raw != nil && r.msg == nil {
		r.msg = ref9p.Canon(r.raw, dotu)
	}
}

func same(a, b result) string {
	if (a.err == nil) != (b.err == nil) {
		return fmt.Sprintf("error-ness differs: %v vs %v", a.err, b.err)
	}
	if a.err != nil {
		return ""
	}
	if a.consumed != b.consumed {
		return fmt.Sprintf("consumed %d vs %d", a.consumed, b.consumed)
	}
	return diffRaw(a.raw, b.raw)
}

// diffRaw is ref9p.Diff with the differing stat field spelled out.
func diffRaw(a, b *ref9p.Msg) string {
	d := ref9p.Diff(a, b)
	if d != "" && a.Type == b.Type && a.Stat != b.Stat {
		x, y := a.Stat, b.Stat
		x.Name, x.Uid, x.Gid, x.Muid, y.Name, y.Uid, y.Gid, y.Muid = "", "", "", "", "", "", "", ""
		if x == y {
			return "stat strings differ: " + d
		}
		return fmt.Sprintf("stat: (strings aside) %+v != %+v", x, y)
	}
	return d
}

// onLenient, when set, is told about every input that was accepted although the
// strict reference decoder refuses it (bookkeeping only: the statement allows a
// tolerant decoder as long as the clauses on an accepted input hold).
var onLenient func(what string, dotu bool)

const allocFactor = 16

// allocConst is the constant part of the allocation bound. Under the native
// fuzzer other goroutines of the worker allocate concurrently, so the fuzz
// targets raise it (a count-driven allocation is 1 MiB and up).
var allocConst = 2048

// tails used for the independence-of-later-bytes relation
var tail1 = []byte{0xFF, 0xFF, 0xFF, 0xFF, 0xFF, 0xFF, 0xFF, 0xFF, 0xFF, 0xFF, 0xFF, 0xFF, 0xFF, 0xFF, 0xFF, 0xFF, 0xFF, 0xFF, 0xFF, 0xFF, 0xFF, 0xFF, 0xFF, 0xFF, 0xFF, 0xFF, 0xFF, 0xFF, 0xFF, 0xFF, 0xFF, 0xFF, 0xFF, 0xFF, 0xFF, 0xFF, 0xFF, 0xFF, 0xFF, 0xFF}
var tail2 = []byte{0, 0, 0, 0, 0, 0, 0, 0, 0, 0, 0, 0, 0, 0, 0, 0, 0, 0, 0, 0, 0, 0, 0, 0, 0, 0, 0, 0, 0, 0, 0, 0, 0, 0, 0, 0, 0, 0, 0, 0}
var tail3 = []byte{1, 0, 1, 0, 1, 0, 7, 0, 0, 0, 120, 1, 0, 2, 0, 'a', 'b', 4, 0, 0, 0, 9, 9, 9, 9}

// refDecode is ref9p.Decode remembering its last result: the bookkeeping
// (nontrivial) and the oracle decode the same buffer one after the other, and
// the reference decoding of a 65535-element walk is not cheap. The buffer is
// not modified between the two calls; the memo never outlives one case (try
// clears it before the case, checkMsg after it), so a recycled address cannot
// produce a stale answer.
var refMemo struct {
	p    *byte
	n    int
	dotu bool
	m    *ref9p.Msg
	used int
	err  error
}

func refForget() { refMemo.p, refMemo.m, refMemo.err = nil, nil, nil }

func refDecode(b []byte, dotu bool) (*ref9p.Msg, int, error) {
	if len(b) < 4096 {
		return ref9p.Decode(b, dotu)
	}
	if refMemo.p == &b[0] && refMemo.n == len(b) && refMemo.dotu == dotu {
		return refMemo.m, refMemo.used, refMemo.err
	}
	m, n, err := ref9p.Decode(b, dotu)
	refMemo.p, refMemo.n, refMemo.dotu, refMemo.m, refMemo.used, refMemo.err = &b[0], len(b), dotu, m, n, err
	return m, n, err
}

// checkMsg applies the whole C02 oracle to one input for one dialect.
func checkMsg(b []byte, dotu bool) error {
	defer refForget()
	r := unpack(b, dotu, true)
	if r.panicked != nil {
		return fmt.Errorf("Unpack panicked: %v", r.panicked)
	}
	bound := uint64(allocConst + allocFactor*len(b))
	if r.alloc > bound {
		return fmt.Errorf("Unpack of %d bytes allocated %d bytes (bound %d): allocation driven by a length/count field", len(b), r.alloc, bound)
	}
	var declared uint64
	if len(b) >= 4 {
		declared = uint64(binary.LittleEndian.Uint32(b))
	}
	if len(b) < 7 || declared < 7 || declared > uint64(len(b)) {
		if r.err == nil {
			return fmt.Errorf("Unpack accepted %d bytes with declared size %d", len(b), declared)
		}
		return nil
	}
	// independence of bytes beyond the declared size
	exact := unpack(append([]byte(nil), b[:declared]...), dotu, false)
	if exact.panicked != nil {
		return fmt.Errorf("Unpack panicked on the exact packet: %v", exact.panicked)
	}
	if d := same(r, exact); d != "" {
		return fmt.Errorf("result depends on bytes beyond the declared size %d (input has %d): %s", declared, len(b), d)
	}
	for _, tl := range [][]byte{tail1, tail2, tail3} {
		ext := unpack(append(append([]byte(nil), b[:declared]...), tl...), dotu, false)
		if ext.panicked != nil {
			return fmt.Errorf("Unpack panicked with a tail appended: %v", ext.panicked)
		}
		if d := same(exact, ext); d != "" {
			return fmt.Errorf("result depends on bytes beyond the declared size %d: %s", declared, d)
		}
	}
	ref, _, rerr := refDecode(b, dotu)
	if r.err != nil {
		if rerr == nil {
			return fmt.Errorf("Unpack rejects a strictly valid %s (dotu=%v): %v", ref9p.TypeName(ref.Type), dotu, r.err)
		}
		return nil
	}
	// success
	if rerr != nil && onLenient != nil {
		onLenient(ref9p.TypeName(r.fc.Type), dotu)
	}
	r.canon(dotu)
	if uint64(r.consumed) != declared {
		return fmt.Errorf("consumed %d, size prefix %d", r.consumed, declared)
	}
	if !ref9p.Defined(r.fc.Type) {
		return fmt.Errorf("decoded an undefined message type %d", r.fc.Type)
	}
	if uint64(r.fc.Size) != declared {
		return fmt.Errorf("Fcall.Size %d, size prefix %d", r.fc.Size, declared)
	}
	if r.fc.Type == ref9p.Rread || r.fc.Type == ref9p.Twrite {
		if uint64(len(r.fc.Data)) != uint64(r.fc.Count) {
			return fmt.Errorf("len(Data)=%d but Count=%d", len(r.fc.Data), r.fc.Count)
		}
	}
	// every variable-length field lies inside the packet
	varlen := uint64(len(r.msg.Version) + len(r.msg.Uname) + len(r.msg.Aname) + len(r.msg.Ename) + len(r.msg.Name) + len(r.msg.Ext) + len(r.msg.Data) +
		len(r.msg.Stat.Name) + len(r.msg.Stat.Uid) + len(r.msg.Stat.Gid) + len(r.msg.Stat.Muid) + len(r.msg.Stat.Ext))
	for _, w := range r.msg.Wname {
		varlen += uint64(len(w)) + 2
	}
	varlen += uint64(len(r.msg.Wqid)) * 13
	if varlen > declared-7 {
		return fmt.Errorf("decoded variable-length fields total %d bytes but the packet body has %d", varlen, declared-7)
	}
	if rerr == nil {
		if d := ref9p.Diff(r.msg, ref9p.Canon(ref, dotu)); d != "" {
			return fmt.Errorf("fields differ from the reference decoding: %s", d)
		}
	}
	// re-encode the decoded fields and decode again. "The decoded fields" are
	// ALL fields the decoder filled in for this message type, also those the
	// dialect of the connection does not carry on the wire (ecode, n_uname,
	// the Tcreate extension, the .u part of a stat record): a decoder that
	// hands out such a field in dialect 9P2000 has produced a result that no
	// packet of that dialect can express, so the comparison is made on the
	// raw fields (rawFields), not on the dialect-canonical ones.
	if !reencodable(r.msg, dotu) {
		return nil
	}
	raw := r.raw
	// (1) through the independent encoder
	re := ref9p.Encode(raw, dotu)
	r2 := unpack(re, dotu, false)
	if r2.panicked != nil || r2.err != nil {
		return fmt.Errorf("re-encoding of the decoded fields does not decode: panic=%v err=%v", r2.panicked, r2.err)
	}
	r2.canon(dotu)
	if d := ref9p.Diff(r.msg, r2.msg); d != "" {
		return fmt.Errorf("re-encoded packet decodes to different fields: %s", d)
	}
	if d := diffRaw(raw, r2.raw); d != "" {
		return fmt.Errorf("decoded (dotu=%v) fields %s cannot be expressed in that dialect: the re-encoded packet (%d bytes, accepted packet %d bytes) decodes to different fields: %s", dotu, ref9p.TypeName(raw.Type), len(re), declared, d)
	}
	// (2) through go9p's own constructors, same dialect
	if pk, ok := repack(raw, dotu, int(declared)); ok {
		r3 := unpack(pk, dotu, false)
		if r3.panicked != nil || r3.err != nil {
			return fmt.Errorf("the packet go9p's constructor builds from the decoded fields does not decode: panic=%v err=%v", r3.panicked, r3.err)
		}
		if d := diffRaw(raw, r3.raw); d != "" {
			return fmt.Errorf("decoded (dotu=%v) %s, re-encoded by go9p's constructor (%d bytes, accepted packet %d bytes), decodes to different fields: %s", dotu, ref9p.TypeName(raw.Type), len(pk), declared, d)
		}
	}
	return nil
}

// rawFields returns the fields Unpack filled in for the message type without
// regard to the dialect: type-canonical (fields of other message types are
// dropped) but keeping ecode, n_uname, the Tcreate extension and the .u part
// of a stat record whatever the dialect was.
func rawFields(fc *go9p.Fcall) *ref9p.Msg {
	return ref9p.Canon(conv.FromFcall(fc), true)
}

// repack builds the packet for the fields m with go9p's constructors in the
// given dialect. ok is false when the constructor refuses (its own limits, e.g.
// a walk of more than 16 elements: property C01's business, not this one's).
func repack(m *ref9p.Msg, dotu bool, declared int) (pkt []byte, ok bool) {
	defer func() {
		if recover() != nil {
			pkt, ok = nil, false
		}
	}()
	fc := &go9p.Fcall{Buf: make([]byte, declared+64)}
	conv.DirSize = 0
	if err := conv.Pack(fc, m, dotu); err != nil {
		return nil, false
	}
	go9p.SetTag(fc, m.Tag)
	return fc.Pkt, true
}

func reencodable(m *ref9p.Msg, dotu bool) bool {
	if m.Type == ref9p.Rstat || m.Type == ref9p.Twstat {
		return ref9p.StatLen(&m.Stat, dotu) <= 65535
	}
	return true
}

type dirResult struct {
	panicked interface{}
	err      error
	amt      int
	rest     int
	st       ref9p.Stat // dialect-canonical
	raw      ref9p.Stat // every field of the Dir as decoded
	d        *go9p.Dir
	alloc    uint64
}

func unpackDir(b []byte, dotu bool, measure bool) (r dirResult) {
	defer func() {
		if p := recover(); p != nil {
			r.panicked = p
		}
	}()
	if measure {
		runtime.ReadMemStats(&ms1)
	}
	d, rest, amt, err := go9p.UnpackDir(b, dotu)
	if measure {
		runtime.ReadMemStats(&ms2)
		r.alloc = ms2.TotalAlloc - ms1.TotalAlloc
	}
	r.err, r.amt, r.rest = err, amt, len(rest)
	if err == nil && d != nil {
		r.raw = conv.Stat(d)
		r.st = ref9p.CanonStat(&r.raw, dotu)
		r.d = d
	}
	return
}

func ptr[T any](v T) *T { return &v }

func sameDir(a, b dirResult) string {
	if (a.err == nil) != (b.err == nil) {
		return fmt.Sprintf("error-ness differs: %v vs %v", a.err, b.err)
	}
	if a.err != nil {
		return ""
	}
	if a.amt != b.amt {
		return fmt.Sprintf("amt %d vs %d", a.amt, b.amt)
	}
	if a.raw != b.raw {
		return fmt.Sprintf("fields differ: %#v vs %#v", a.raw, b.raw)
	}
	return ""
}

func checkDir(b []byte, dotu bool) error {
	r := unpackDir(b, dotu, true)
	if r.panicked != nil {
		return fmt.Errorf("UnpackDir panicked: %v", r.panicked)
	}
	bound := uint64(allocConst + allocFactor*len(b))
	if r.alloc > bound {
		return fmt.Errorf("UnpackDir of %d bytes allocated %d bytes (bound %d)", len(b), r.alloc, bound)
	}
	if len(b) < 2 {
		if r.err == nil {
			return fmt.Errorf("UnpackDir accepted %d bytes", len(b))
		}
		return nil
	}
	declared := int(binary.LittleEndian.Uint16(b)) + 2
	ref, _, rerr := ref9p.DecodeStat(b, dotu)
	if declared > len(b) {
		if r.err == nil {
			return fmt.Errorf("UnpackDir accepted a record whose size field (%d+2) exceeds the %d input bytes", declared-2, len(b))
		}
		return nil
	}
	exact := unpackDir(append([]byte(nil), b[:declared]...), dotu, false)
	if exact.panicked != nil {
		return fmt.Errorf("UnpackDir panicked on the exact record: %v", exact.panicked)
	}
	if d := sameDir(r, exact); d != "" {
		return fmt.Errorf("UnpackDir result depends on bytes beyond the record's declared size %d (input %d bytes): %s", declared, len(b), d)
	}
	for _, tl := range [][]byte{tail1, tail2, tail3} {
		ext := unpackDir(append(append([]byte(nil), b[:declared]...), tl...), dotu, false)
		if ext.panicked != nil {
			return fmt.Errorf("UnpackDir panicked with a tail: %v", ext.panicked)
		}
		if d := sameDir(exact, ext); d != "" {
			return fmt.Errorf("UnpackDir result depends on bytes beyond the record's declared size %d: %s", declared, d)
		}
	}
	if r.err != nil {
		if rerr == nil {
			return fmt.Errorf("UnpackDir rejects a strictly valid record (dotu=%v): %v", dotu, r.err)
		}
		return nil
	}
	if rerr != nil && onLenient != nil {
		onLenient("stat record", dotu)
	}
	if r.amt != declared {
		return fmt.Errorf("UnpackDir consumed %d bytes, the record's size field says %d", r.amt, declared)
	}
	if r.rest != len(b)-declared {
		return fmt.Errorf("UnpackDir remainder %d bytes, want %d", r.rest, len(b)-declared)
	}
	vl := len(r.st.Name) + len(r.st.Uid) + len(r.st.Gid) + len(r.st.Muid) + len(r.st.Ext)
	if vl > declared {
		return fmt.Errorf("decoded strings total %d bytes, record has %d", vl, declared)
	}
	if rerr == nil {
		want := ref9p.CanonStat(ref, dotu)
		if r.st != want {
			return fmt.Errorf("fields differ from the reference decoding:\n got  %#v\n want %#v", r.st, want)
		}
	}
	if ref9p.StatLen(&r.st, dotu) <= 65535+2 {
		re := ref9p.EncodeStat(&r.st, dotu)
		r2 := unpackDir(re, dotu, false)
		if r2.panicked != nil || r2.err != nil {
			return fmt.Errorf("re-encoded record does not decode: %v %v", r2.panicked, r2.err)
		}
		if r.st != r2.st {
			return fmt.Errorf("re-encoded record decodes differently")
		}
		// all decoded fields, also those the dialect does not carry (see checkMsg)
		if r.raw != r2.raw {
			return fmt.Errorf("decoded (dotu=%v) stat fields cannot be expressed in that dialect: the re-encoded record (%d bytes, accepted record %d bytes) decodes differently:\n got  %#v\n want %#v", dotu, len(re), declared, r2.raw, r.raw)
		}
		// and through go9p's own encoder
		if ref9p.StatLen(&r.raw, dotu) <= 65535+2 {
			pk, perr := packDir(r.d, dotu)
			if perr == nil {
				r3 := unpackDir(pk, dotu, false)
				if r3.panicked != nil || r3.err != nil {
					return fmt.Errorf("the record PackDir builds from the decoded Dir does not decode: %v %v", r3.panicked, r3.err)
				}
				if r.raw != r3.raw {
					return fmt.Errorf("decoded (dotu=%v) Dir, re-encoded by PackDir (%d bytes, accepted record %d bytes), decodes differently:\n got  %#v\n want %#v", dotu, len(pk), declared, r3.raw, r.raw)
				}
			}
		}
	}
	return nil
}

func packDir(d *go9p.Dir, dotu bool) (b []byte, err error) {
	defer func() {
		if p := recover(); p != nil {
			err = fmt.Errorf("PackDir panicked: %v", p)
		}
	}()
	return go9p.PackDir(d, dotu), nil
}

// Run applies the oracle for the case's dialect.
func Run(c *Case) error {
	kind, b, err := c.bytes()
	if err != nil {
		return fmt.Errorf("harness: %v", err)
	}
	return run(kind, b, c.Dotu)
}

func run(kind string, b []byte, dotu bool) error {
	if kind == "dir" {
		return checkDir(b, dotu)
	}
	return checkMsg(b, dotu)
}

// nontrivial: not a strictly valid packet but gets past the header stage (so
// field decoding is reached), or a valid packet followed by a tail, or a valid
// packet / record in which a 16-bit length, count or size field holds a value
// >= 0x7fff (the arithmetic on that field is at its limits).
func nontrivial(kind string, b []byte, dotu bool) bool {
	if kind == "dir" {
		_, n, err := ref9p.DecodeStat(b, dotu)
		return err != nil && len(b) >= 2 || err == nil && (n < len(b) || n-2 >= extreme16)
	}
	m, n, err := refDecode(b, dotu)
	if err == nil {
		return n < len(b) || n >= extreme16 && extremeMsg(m, dotu)
	}
	return ref9p.Stage1(b)
}
