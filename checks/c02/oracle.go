// C02 — decoding is total and bounded on arbitrary bytes.
package c02

import (
	"encoding/binary"
	"fmt"
	"runtime"

	"github.com/rminnich/go9p"
	"verif/internal/conv"
	"verif/internal/ref9p"
)

type Case struct {
	Kind  string `json:"kind,omitempty"` // "msg" or "dir"
	Dotu  bool   `json:"dotu"`
	Input []byte `json:"input,omitempty"`
	Desc  string `json:"desc,omitempty"`
	// Spec, when set, describes the input by construction (Input is empty and
	// Kind follows from the Spec): see extreme.go.
	Spec *Spec `json:"spec,omitempty"`
}

// bytes returns the kind and the input bytes of the case.
func (c *Case) bytes() (string, []byte, error) {
	if c.Spec == nil {
		return c.Kind, c.Input, nil
	}
	return c.Spec.Build(c.Dotu)
}

type result struct {
	panicked interface{}
	err      error
	consumed int
	msg      *ref9p.Msg // canonical
	fc       *go9p.Fcall
	alloc    uint64
}

var ms1, ms2 runtime.MemStats

func unpack(b []byte, dotu bool, measure bool) (r result) {
	defer func() {
		if p := recover(); p != nil {
			r.panicked = p
		}
	}()
	if measure {
		runtime.ReadMemStats(&ms1)
	}
	fc, n, err := go9p.Unpack(b, dotu)
	if measure {
		runtime.ReadMemStats(&ms2)
		r.alloc = ms2.TotalAlloc - ms1.TotalAlloc
	}
	r.err, r.consumed, r.fc = err, n, fc
	if err == nil && fc != nil {
		r.msg = ref9p.Canon(conv.FromFcall(fc), dotu)
	}
	return
}

func same(a, b result) string {
	if (a.err == nil) != (b.err == nil) {
		return fmt.Sprintf("error-ness differs: %v vs %v", a.err, b.err)
	}
	if a.err != nil {
		return ""
	}
	if a.consumed != b.consumed {
		return fmt.Sprintf("consumed %d vs %d", a.consumed, b.consumed)
	}
	return ref9p.Diff(a.msg, b.msg)
}

const allocFactor = 16

// allocConst is the constant part of the allocation bound. Under the native
// fuzzer other goroutines of the worker allocate concurrently, so the fuzz
// targets raise it (a count-driven allocation is 1 MiB and up).
var allocConst = 2048

// tails used for the independence-of-later-bytes relation
var tail1 = []byte{0xFF, 0xFF, 0xFF, 0xFF, 0xFF, 0xFF, 0xFF, 0xFF, 0xFF, 0xFF, 0xFF, 0xFF, 0xFF, 0xFF, 0xFF, 0xFF, 0xFF, 0xFF, 0xFF, 0xFF, 0xFF, 0xFF, 0xFF, 0xFF, 0xFF, 0xFF, 0xFF, 0xFF, 0xFF, 0xFF, 0xFF, 0xFF, 0xFF, 0xFF, 0xFF, 0xFF, 0xFF, 0xFF, 0xFF, 0xFF}
var tail2 = []byte{0, 0, 0, 0, 0, 0, 0, 0, 0, 0, 0, 0, 0, 0, 0, 0, 0, 0, 0, 0, 0, 0, 0, 0, 0, 0, 0, 0, 0, 0, 0, 0, 0, 0, 0, 0, 0, 0, 0, 0}
var tail3 = []byte{1, 0, 1, 0, 1, 0, 7, 0, 0, 0, 120, 1, 0, 2, 0, 'a', 'b', 4, 0, 0, 0, 9, 9, 9, 9}

// refDecode is ref9p.Decode remembering its last result: the bookkeeping
// (nontrivial) and the oracle decode the same buffer one after the other, and
// the reference decoding of a 65535-element walk is not cheap. The buffer is
// not modified between the two calls; the memo never outlives one case (try
// clears it before the case, checkMsg after it), so a recycled address cannot
// produce a stale answer.
var refMemo struct {
	p    *byte
	n    int
	dotu bool
	m    *ref9p.Msg
	used int
	err  error
}

func refForget() { refMemo.p, refMemo.m, refMemo.err = nil, nil, nil }

func refDecode(b []byte, dotu bool) (*ref9p.Msg, int, error) {
	if len(b) < 4096 {
		return ref9p.Decode(b, dotu)
	}
	if refMemo.p == &b[0] && refMemo.n == len(b) && refMemo.dotu == dotu {
		return refMemo.m, refMemo.used, refMemo.err
	}
	m, n, err := ref9p.Decode(b, dotu)
	refMemo.p, refMemo.n, refMemo.dotu, refMemo.m, refMemo.used, refMemo.err = &b[0], len(b), dotu, m, n, err
	return m, n, err
}

// checkMsg applies the whole C02 oracle to one input for one dialect.
func checkMsg(b []byte, dotu bool) error {
	defer refForget()
	r := unpack(b, dotu, true)
	if r.panicked != nil {
		return fmt.Errorf("Unpack panicked: %v", r.panicked)
	}
	bound := uint64(allocConst + allocFactor*len(b))
	if r.alloc > bound {
		return fmt.Errorf("Unpack of %d bytes allocated %d bytes (bound %d): allocation driven by a length/count field", len(b), r.alloc, bound)
	}
	var declared uint64
	if len(b) >= 4 {
		declared = uint64(binary.LittleEndian.Uint32(b))
	}
	if len(b) < 7 || declared < 7 || declared > uint64(len(b)) {
		if r.err == nil {
			return fmt.Errorf("Unpack accepted %d bytes with declared size %d", len(b), declared)
		}
		return nil
	}
	// independence of bytes beyond the declared size
	exact := unpack(append([]byte(nil), b[:declared]...), dotu, false)
	if exact.panicked != nil {
		return fmt.Errorf("Unpack panicked on the exact packet: %v", exact.panicked)
	}
	if d := same(r, exact); d != "" {
		return fmt.Errorf("result depends on bytes beyond the declared size %d (input has %d): %s", declared, len(b), d)
	}
	for _, tl := range [][]byte{tail1, tail2, tail3} {
		ext := unpack(append(append([]byte(nil), b[:declared]...), tl...), dotu, false)
		if ext.panicked != nil {
			return fmt.Errorf("Unpack panicked with a tail appended: %v", ext.panicked)
		}
		if d := same(exact, ext); d != "" {
			return fmt.Errorf("result depends on bytes beyond the declared size %d: %s", declared, d)
		}
	}
	ref, _, rerr := refDecode(b, dotu)
	if r.err != nil {
		if rerr == nil {
			return fmt.Errorf("Unpack rejects a strictly valid %s (dotu=%v): %v", ref9p.TypeName(ref.Type), dotu, r.err)
		}
		return nil
	}
	// success
	if uint64(r.consumed) != declared {
		return fmt.Errorf("consumed %d, size prefix %d", r.consumed, declared)
	}
	if !ref9p.Defined(r.fc.Type) {
		return fmt.Errorf("decoded an undefined message type %d", r.fc.Type)
	}
	if uint64(r.fc.Size) != declared {
		return fmt.Errorf("Fcall.Size %d, size prefix %d", r.fc.Size, declared)
	}
	if r.fc.Type == ref9p.Rread || r.fc.Type == ref9p.Twrite {
		if uint64(len(r.fc.Data)) != uint64(r.fc.Count) {
			return fmt.Errorf("len(Data)=%d but Count=%d", len(r.fc.Data), r.fc.Count)
		}
	}
	// every variable-length field lies inside the packet
	varlen := uint64(len(r.msg.Version) + len(r.msg.Uname) + len(r.msg.Aname) + len(r.msg.Ename) + len(r.msg.Name) + len(r.msg.Ext) + len(r.msg.Data) +
		len(r.msg.Stat.Name) + len(r.msg.Stat.Uid) + len(r.msg.Stat.Gid) + len(r.msg.Stat.Muid) + len(r.msg.Stat.Ext))
	for _, w := range r.msg.Wname {
		varlen += uint64(len(w)) + 2
	}
	varlen += uint64(len(r.msg.Wqid)) * 13
	if varlen > declared-7 {
		return fmt.Errorf("decoded variable-length fields total %d bytes but the packet body has %d", varlen, declared-7)
	}
	if rerr == nil {
		if d := ref9p.Diff(r.msg, ref9p.Canon(ref, dotu)); d != "" {
			return fmt.Errorf("fields differ from the reference decoding: %s", d)
		}
	}
	// re-encode the decoded fields and decode again
	if !reencodable(r.msg, dotu) {
		return nil
	}
	re := ref9p.Encode(r.msg, dotu)
	r2 := unpack(re, dotu, false)
	if r2.panicked != nil || r2.err != nil {
		return fmt.Errorf("re-encoding of the decoded fields does not decode: panic=%v err=%v", r2.panicked, r2.err)
	}
	if d := ref9p.Diff(r.msg, r2.msg); d != "" {
		return fmt.Errorf("re-encoded packet decodes to different fields: %s", d)
	}
	return nil
}

func reencodable(m *ref9p.Msg, dotu bool) bool {
	if m.Type == ref9p.Rstat || m.Type == ref9p.Twstat {
		return ref9p.StatLen(&m.Stat, dotu) <= 65535
	}
	return true
}

type dirResult struct {
	panicked interface{}
	err      error
	amt      int
	rest     int
	st       ref9p.Stat
	alloc    uint64
}

func unpackDir(b []byte, dotu bool, measure bool) (r dirResult) {
	defer func() {
		if p := recover(); p != nil {
			r.panicked = p
		}
	}()
	if measure {
		runtime.ReadMemStats(&ms1)
	}
	d, rest, amt, err := go9p.UnpackDir(b, dotu)
	if measure {
		runtime.ReadMemStats(&ms2)
		r.alloc = ms2.TotalAlloc - ms1.TotalAlloc
	}
	r.err, r.amt, r.rest = err, amt, len(rest)
	if err == nil && d != nil {
		r.st = ref9p.CanonStat(ptr(conv.Stat(d)), dotu)
	}
	return
}

func ptr[T any](v T) *T { return &v }

func sameDir(a, b dirResult) string {
	if (a.err == nil) != (b.err == nil) {
		return fmt.Sprintf("error-ness differs: %v vs %v", a.err, b.err)
	}
	if a.err != nil {
		return ""
	}
	if a.amt != b.amt {
		return fmt.Sprintf("amt %d vs %d", a.amt, b.amt)
	}
	if a.st != b.st {
		return fmt.Sprintf("fields differ: %#v vs %#v", a.st, b.st)
	}
	return ""
}

func checkDir(b []byte, dotu bool) error {
	r := unpackDir(b, dotu, true)
	if r.panicked != nil {
		return fmt.Errorf("UnpackDir panicked: %v", r.panicked)
	}
	bound := uint64(allocConst + allocFactor*len(b))
	if r.alloc > bound {
		return fmt.Errorf("UnpackDir of %d bytes allocated %d bytes (bound %d)", len(b), r.alloc, bound)
	}
	if len(b) < 2 {
		if r.err == nil {
			return fmt.Errorf("UnpackDir accepted %d bytes", len(b))
		}
		return nil
	}
	declared := int(binary.LittleEndian.Uint16(b)) + 2
	ref, _, rerr := ref9p.DecodeStat(b, dotu)
	if declared > len(b) {
		if r.err == nil {
			return fmt.Errorf("UnpackDir accepted a record whose size field (%d+2) exceeds the %d input bytes", declared-2, len(b))
		}
		return nil
	}
	exact := unpackDir(append([]byte(nil), b[:declared]...), dotu, false)
	if exact.panicked != nil {
		return fmt.Errorf("UnpackDir panicked on the exact record: %v", exact.panicked)
	}
	if d := sameDir(r, exact); d != "" {
		return fmt.Errorf("UnpackDir result depends on bytes beyond the record's declared size %d (input %d bytes): %s", declared, len(b), d)
	}
	for _, tl := range [][]byte{tail1, tail2, tail3} {
		ext := unpackDir(append(append([]byte(nil), b[:declared]...), tl...), dotu, false)
		if ext.panicked != nil {
			return fmt.Errorf("UnpackDir panicked with a tail: %v", ext.panicked)
		}
		if d := sameDir(exact, ext); d != "" {
			return fmt.Errorf("UnpackDir result depends on bytes beyond the record's declared size %d: %s", declared, d)
		}
	}
	if r.err != nil {
		if rerr == nil {
			return fmt.Errorf("UnpackDir rejects a strictly valid record (dotu=%v): %v", dotu, r.err)
		}
		return nil
	}
	if r.amt != declared {
		return fmt.Errorf("UnpackDir consumed %d bytes, the record's size field says %d", r.amt, declared)
	}
	if r.rest != len(b)-declared {
		return fmt.Errorf("UnpackDir remainder %d bytes, want %d", r.rest, len(b)-declared)
	}
	vl := len(r.st.Name) + len(r.st.Uid) + len(r.st.Gid) + len(r.st.Muid) + len(r.st.Ext)
	if vl > declared {
		return fmt.Errorf("decoded strings total %d bytes, record has %d", vl, declared)
	}
	if rerr == nil {
		want := ref9p.CanonStat(ref, dotu)
		if r.st != want {
			return fmt.Errorf("fields differ from the reference decoding:\n got  %#v\n want %#v", r.st, want)
		}
	}
	if ref9p.StatLen(&r.st, dotu) <= 65535+2 {
		re := ref9p.EncodeStat(&r.st, dotu)
		r2 := unpackDir(re, dotu, false)
		if r2.panicked != nil || r2.err != nil {
			return fmt.Errorf("re-encoded record does not decode: %v %v", r2.panicked, r2.err)
		}
		if r.st != r2.st {
			return fmt.Errorf("re-encoded record decodes differently")
		}
	}
	return nil
}

// Run applies the oracle for the case's dialect.
func Run(c *Case) error {
	kind, b, err := c.bytes()
	if err != nil {
		return fmt.Errorf("harness: %v", err)
	}
	return run(kind, b, c.Dotu)
}

func run(kind string, b []byte, dotu bool) error {
	if kind == "dir" {
		return checkDir(b, dotu)
	}
	return checkMsg(b, dotu)
}

// nontrivial: not a strictly valid packet but gets past the header stage (so
// field decoding is reached), or a valid packet followed by a tail, or a valid
// packet / record in which a 16-bit length, count or size field holds a value
// >= 0x7fff (the arithmetic on that field is at its limits).
func nontrivial(kind string, b []byte, dotu bool) bool {
	if kind == "dir" {
		_, n, err := ref9p.DecodeStat(b, dotu)
		return err != nil && len(b) >= 2 || err == nil && (n < len(b) || n-2 >= extreme16)
	}
	m, n, err := refDecode(b, dotu)
	if err == nil {
		return n < len(b) || n >= extreme16 && extremeMsg(m, dotu)
	}
	return ref9p.Stage1(b)
}
