// C04 — the fid table follows the protocol history exactly.
package c04

import (
	"encoding/json"
	"errors"
	"fmt"
	"testing"

	"pgregory.net/rapid"
	"verif/internal/hx"
	"verif/internal/model"
	"verif/internal/ref9p"
	"verif/internal/script"
	"verif/internal/srvh"
)

func TestMain(m *testing.M) { hx.Main(m, "C04") }

var Universe = []uint32{0, 1, 2, 3, 0xFFFFFFFE, ref9p.NOFID}

type Act struct {
	Conn   int      `json:"conn"`
	Kind   string   `json:"kind"`
	Fid    uint32   `json:"fid"`
	Newfid uint32   `json:"newfid,omitempty"`
	Afid   uint32   `json:"afid,omitempty"`
	Names  []string `json:"names,omitempty"`
	Mode   uint8    `json:"mode,omitempty"`
	Perm   uint32   `json:"perm,omitempty"`
	Count  uint32   `json:"count,omitempty"`
	User   string   `json:"user,omitempty"`
	Aname  string   `json:"aname,omitempty"`
	Err    bool     `json:"err,omitempty"` // the implementation answers Rerror
	Zero   bool     `json:"zero,omitempty"` // walk: the implementation answers Rwalk without any qid (the extreme partial walk)
	// version: a Tversion in mid-session (the history is sequential: nothing is
	// outstanding), with this dialect string and an msize not below the negotiated one
	Ver   string `json:"ver,omitempty"`
	Msize uint32 `json:"msize,omitempty"`
}

type Case struct {
	Dotu    bool  `json:"dotu"`
	Auth    bool  `json:"auth"`
	NConn   int   `json:"nconn"`
	Actions []Act `json:"actions"`
	NoProbe bool  `json:"noprobe,omitempty"`
}

func (a *Act) msg(seq int) *ref9p.Msg {
	uid := map[string]uint32{"root": 0, "alice": 1001, "bob": 1002, "mallory": 6666}[a.User]
	switch a.Kind {
	case "auth":
		return &ref9p.Msg{Type: ref9p.Tauth, Afid: a.Afid, Uname: a.User, Aname: a.Aname, Nuname: uid}
	case "attach":
		return &ref9p.Msg{Type: ref9p.Tattach, Fid: a.Fid, Afid: a.Afid, Uname: a.User, Aname: a.Aname, Nuname: uid}
	case "walk":
		return &ref9p.Msg{Type: ref9p.Twalk, Fid: a.Fid, Newfid: a.Newfid, Wname: a.Names}
	case "open":
		return &ref9p.Msg{Type: ref9p.Topen, Fid: a.Fid, Mode: a.Mode}
	case "create":
		return &ref9p.Msg{Type: ref9p.Tcreate, Fid: a.Fid, Name: fmt.Sprintf("fn%d", seq), Perm: a.Perm, Mode: a.Mode}
	case "read":
		return &ref9p.Msg{Type: ref9p.Tread, Fid: a.Fid, Offset: uint64(seq) << 12, Count: a.Count}
	case "write":
		return &ref9p.Msg{Type: ref9p.Twrite, Fid: a.Fid, Offset: uint64(seq) << 12, Data: script.PRF("w", int(a.Count%512))}
	case "stat":
		return &ref9p.Msg{Type: ref9p.Tstat, Fid: a.Fid}
	case "wstat":
		st := ref9p.Stat{Type: 0xFFFF, Dev: 0xFFFFFFFF, Mode: 0xFFFFFFFF, Atime: 0xFFFFFFFF, Mtime: 0xFFFFFFFF, Length: 0xFFFFFFFFFFFFFFFF, Name: fmt.Sprintf("r%d", seq)}
		return &ref9p.Msg{Type: ref9p.Twstat, Fid: a.Fid, Stat: st}
	case "clunk":
		return &ref9p.Msg{Type: ref9p.Tclunk, Fid: a.Fid}
	case "remove":
		return &ref9p.Msg{Type: ref9p.Tremove, Fid: a.Fid}
	}
	return nil
}

func run(c *Case) (err error) {
	flush := script.FlushAbsent
	sv := script.NewServer(script.Config{Msize: 8192, Dotu: true, Auth: c.Auth, Flush: flush})
	sh := srvh.NewShared(sv, c.Auth)
	var ss []*srvh.Session
	for i := 0; i < c.NConn; i++ {
		s, err := srvh.Open(sh, fmt.Sprintf("c04-%d", i), c.Dotu, 8192)
		if err != nil {
			return fmt.Errorf("prologue: %v", err)
		}
		s.M.UserRule = 2 // C04 does not state which user a plain attach names (that is C05)
		ss = append(ss, s)
	}
	defer func() {
		for _, s := range ss {
			s.C.Close()
		}
	}()
	for i := range c.Actions {
		a := &c.Actions[i]
		s := ss[a.Conn%len(ss)]
		if a.Kind == "version" {
			// the statement lists what invalidates a fid (a successful Tclunk, any
			// Tremove): a Tversion is an unrelated operation, the valid set is unchanged
			r, err := s.Version(a.Msize, a.Ver)
			if err != nil {
				return fmt.Errorf("step %d (Tversion %q msize %d on conn %d): %w", i, a.Ver, a.Msize, a.Conn, err)
			}
			if r.Type != ref9p.Rversion {
				return fmt.Errorf("step %d: Tversion %q msize %d on conn %d answered %s %q", i, a.Ver, a.Msize, a.Conn, ref9p.TypeName(r.Type), r.Ename)
			}
			if !c.NoProbe {
				for _, p := range ss {
					if err := p.Probe(Universe); err != nil {
						return fmt.Errorf("after step %d (Tversion %q msize %d on conn %d), conn %s: %w", i, a.Ver, a.Msize, a.Conn, p.Name, err)
					}
				}
			}
			continue
		}
		m := a.msg(i)
		if m == nil {
			return fmt.Errorf("harness: bad action %q", a.Kind)
		}
		var b script.Behav
		if a.Err {
			b.Err, b.Ecode = "scripted failure", 5
		}
		if a.Zero && a.Kind == "walk" {
			b.ZeroQid = true
		}
		if _, err := s.Step(m, b); err != nil {
			return fmt.Errorf("step %d (%s on conn %d): %w", i, a.Kind, a.Conn, err)
		}
		if !c.NoProbe {
			for _, p := range ss {
				if err := p.Probe(Universe); err != nil {
					return fmt.Errorf("after step %d (%s on conn %d), conn %s: %w", i, a.Kind, a.Conn, p.Name, err)
				}
			}
		}
	}
	for _, s := range ss {
		if err := s.Close(); err != nil {
			return fmt.Errorf("closing %s: %w", s.Name, err)
		}
	}
	return nil
}

func execute(test string, c *Case) error {
	hx.Journal(test, c)
	hx.Eval()
	nt := classify(c)
	if nt {
		b, _ := json.Marshal(c)
		hx.NonTrivial(b)
	}
	hx.Sample(test, c)
	err := run(c)
	var h *srvh.Hang
	if errors.As(err, &h) {
		if blocked := hx.BlockedInGo9p(); blocked != "" {
			return fmt.Errorf("%v; goroutines blocked inside go9p:\n%s", err, blocked)
		}
		hx.Inconclusive(err.Error())
		return nil
	}
	return err
}

// classify replays the actions on the model alone (assuming the
// implementation's scripted answers) to decide non-triviality and labels.
func classify(c *Case) bool {
	rebound, partialProbe, versionMid := false, false, false
	valid := map[[2]int]bool{} // numbers that a binding request named earlier (approximation of "valid")
	type hist struct{ bound, invalidated bool }
	seen := map[[2]int]*hist{}
	for i, a := range c.Actions {
		hx.Label("act=" + a.Kind)
		key := [2]int{a.Conn, int(a.Fid)}
		switch a.Kind {
		case "version":
			n := 0
			for k, v := range valid {
				if v && k[0] == a.Conn {
					n++
				}
			}
			if n > 0 {
				versionMid = true
				hx.Label("version with fids established: " + a.Ver)
			} else {
				hx.Label("version with an empty table")
			}
		case "attach", "auth":
			if !a.Err {
				valid[key] = true
			}
			h := seen[key]
			if h == nil {
				seen[key] = &hist{bound: true}
			} else if h.invalidated {
				rebound = true
			}
		case "clunk", "remove":
			valid[key] = false
			if h := seen[key]; h != nil {
				h.invalidated = true
			}
		case "walk":
			for j, n := range a.Names {
				if (len(n) > 0 && n[0] == 'x' || a.Zero) && i < len(c.Actions) {
					partialProbe = true
					if j == 0 {
						hx.Label("walk first-name-fails")
					} else {
						hx.Label("walk partial")
					}
				}
			}
			if a.Newfid == a.Fid {
				hx.Label("walk in place")
			} else if !a.Err && !a.Zero {
				valid[[2]int{a.Conn, int(a.Newfid)}] = true
			}
		}
	}
	if rebound {
		hx.Label("history with rebind")
	}
	if versionMid {
		hx.Label("history with a Tversion in mid-session")
	}
	return rebound || partialProbe || versionMid
}

var names = []string{"d1", "d2", "f1", "x1", "l1", ".."}

func genAct(t *rapid.T, nconn int) Act {
	a := Act{Conn: rapid.IntRange(0, nconn-1).Draw(t, "conn")}
	fid := func(l string) uint32 { return rapid.SampledFrom(Universe).Draw(t, l) }
	a.Kind = rapid.SampledFrom([]string{"attach", "attach", "auth", "walk", "walk", "walk", "open", "create", "read", "write", "stat", "wstat", "clunk", "clunk", "remove", "version"}).Draw(t, "kind")
	a.Fid = fid("fid")
	a.Err = rapid.IntRange(0, 4).Draw(t, "err") == 0
	switch a.Kind {
	case "version":
		a.Fid, a.Err = 0, false
		a.Ver = rapid.SampledFrom([]string{"9P2000", "9P2000.u"}).Draw(t, "ver")
		a.Msize = rapid.SampledFrom([]uint32{8192, 8193, 16384, 1 << 20}).Draw(t, "msize")
	case "attach":
		a.Afid = rapid.OneOf(rapid.Just(uint32(ref9p.NOFID)), rapid.SampledFrom(Universe)).Draw(t, "afid")
		a.User = rapid.SampledFrom([]string{"alice", "bob", "root", "mallory"}).Draw(t, "user")
		a.Aname = rapid.SampledFrom([]string{"", "tree", "deny-me"}).Draw(t, "aname")
	case "auth":
		a.Afid = a.Fid
		a.User = rapid.SampledFrom([]string{"alice", "bob", "mallory"}).Draw(t, "user")
		a.Aname = rapid.SampledFrom([]string{"", "tree"}).Draw(t, "aname")
	case "walk":
		a.Newfid = rapid.OneOf(rapid.Just(a.Fid), rapid.SampledFrom(Universe)).Draw(t, "newfid")
		a.Names = rapid.SliceOfN(rapid.SampledFrom(names), 0, 4).Draw(t, "names")
		a.Zero = rapid.IntRange(0, 7).Draw(t, "zeroqid") == 0
	case "open":
		a.Mode = rapid.SampledFrom([]uint8{0, 1, 2, 3, 16, 0x11, 0x40}).Draw(t, "mode")
	case "create":
		a.Mode = rapid.SampledFrom([]uint8{0, 1, 2}).Draw(t, "mode")
		a.Perm = rapid.SampledFrom([]uint32{0o644, 0x80000000 | 0o755, 0x02000000 | 0o777}).Draw(t, "perm")
	case "read", "write":
		a.Count = rapid.SampledFrom([]uint32{0, 1, 100, 8168, 8169}).Draw(t, "count")
	}
	return a
}

func TestPropHistories(t *testing.T) {
	hx.Check(t, "histories", hx.N(500, 5000), func(t *rapid.T) {
		c := &Case{Dotu: rapid.Bool().Draw(t, "dotu"), Auth: rapid.Bool().Draw(t, "auth"), NConn: rapid.IntRange(1, 2).Draw(t, "nconn")}
		n := rapid.IntRange(1, 40).Draw(t, "n")
		// most histories start with an attach of fid 0 so that states are reachable
		if rapid.IntRange(0, 9).Draw(t, "prime") > 0 {
			for i := 0; i < c.NConn; i++ {
				c.Actions = append(c.Actions, Act{Conn: i, Kind: "attach", Fid: 0, Afid: ref9p.NOFID, User: "alice"})
			}
		}
		for i := 0; i < n; i++ {
			c.Actions = append(c.Actions, genAct(t, c.NConn))
		}
		if err := execute("histories", c); err != nil {
			hx.Failf(t, "histories", c, "%v", err)
		}
	})
}

// TestEnumTransitions walks the reference model breadth-first over two fid
// numbers and applies every action in every reachable abstract state.
func TestEnumTransitions(t *testing.T) {
	type absFid struct {
		valid, open bool
		kind        int
	}
	// prefixes that establish each abstract state of fid 1 (fid 0 is the attached root)
	setups := map[string][]Act{
		"absent":    nil,
		"dir":       {{Kind: "walk", Fid: 0, Newfid: 1, Names: []string{"d1"}}},
		"dir-open":  {{Kind: "walk", Fid: 0, Newfid: 1, Names: []string{"d1"}}, {Kind: "open", Fid: 1, Mode: 0}},
		"file":      {{Kind: "walk", Fid: 0, Newfid: 1, Names: []string{"f1"}}},
		"file-open": {{Kind: "walk", Fid: 0, Newfid: 1, Names: []string{"f1"}}, {Kind: "open", Fid: 1, Mode: 2}},
		"auth":      {{Kind: "auth", Fid: 1, Afid: 1, User: "alice"}},
	}
	var actions []Act
	for _, fid := range []uint32{1, 2} {
		for _, e := range []bool{false, true} {
			actions = append(actions,
				Act{Kind: "attach", Fid: fid, Afid: ref9p.NOFID, User: "bob", Err: e},
				Act{Kind: "attach", Fid: fid, Afid: 1, User: "bob", Err: e},
				Act{Kind: "auth", Fid: fid, Afid: fid, User: "bob", Err: e},
				Act{Kind: "walk", Fid: fid, Newfid: 3, Err: e},
				Act{Kind: "walk", Fid: fid, Newfid: 3, Names: []string{"d1", "f1"}, Err: e},
				Act{Kind: "walk", Fid: fid, Newfid: 3, Names: []string{"d1", "x1", "f1"}, Err: e},
				Act{Kind: "walk", Fid: fid, Newfid: 3, Names: []string{"x1", "f1"}, Err: e},
				Act{Kind: "walk", Fid: fid, Newfid: fid, Names: []string{"d1", "f1"}, Err: e},
				Act{Kind: "walk", Fid: fid, Newfid: fid, Names: []string{"d1", "x1"}, Err: e},
				Act{Kind: "walk", Fid: fid, Newfid: 0, Names: []string{"d1"}, Err: e},
				Act{Kind: "walk", Fid: fid, Newfid: 3, Names: []string{"d1"}, Zero: true, Err: e},
				Act{Kind: "walk", Fid: fid, Newfid: 3, Names: []string{"d1", "f1"}, Zero: true, Err: e},
				Act{Kind: "walk", Fid: fid, Newfid: fid, Names: []string{"d1"}, Zero: true, Err: e},
				Act{Kind: "walk", Fid: 0, Newfid: fid, Names: []string{"d2"}, Zero: true, Err: e},
				Act{Kind: "walk", Fid: 0, Newfid: fid, Names: []string{"d2"}, Err: e},
				Act{Kind: "open", Fid: fid, Mode: 0, Err: e},
				Act{Kind: "open", Fid: fid, Mode: 1, Err: e},
				Act{Kind: "create", Fid: fid, Perm: 0o644, Mode: 1, Err: e},
				Act{Kind: "create", Fid: fid, Perm: 0x80000000 | 0o755, Mode: 0, Err: e},
				Act{Kind: "read", Fid: fid, Count: 10, Err: e},
				Act{Kind: "write", Fid: fid, Count: 10, Err: e},
				Act{Kind: "stat", Fid: fid, Err: e},
				Act{Kind: "wstat", Fid: fid, Err: e},
				Act{Kind: "clunk", Fid: fid, Err: e},
				Act{Kind: "remove", Fid: fid, Err: e},
			)
		}
	}
	for _, ver := range []string{"9P2000", "9P2000.u"} {
		for _, ms := range []uint32{8192, 65536} {
			actions = append(actions, Act{Kind: "version", Ver: ver, Msize: ms})
		}
	}
	idx := 0
	for _, dotu := range []bool{false, true} {
		for _, auth := range []bool{false, true} {
			for sname, setup := range setups {
				if sname == "auth" && !auth {
					continue
				}
				for _, a := range actions {
					idx++
					if hx.NShards > 1 && idx%hx.NShards != hx.Shard {
						continue
					}
					if !hx.Thorough() && idx%3 != int(hx.Seed%3) {
						continue
					}
					c := &Case{Dotu: dotu, Auth: auth, NConn: 1}
					c.Actions = append(c.Actions, Act{Kind: "attach", Fid: 0, Afid: ref9p.NOFID, User: "alice"})
					c.Actions = append(c.Actions, setup...)
					c.Actions = append(c.Actions, a)
					// and the same action once more, to exercise the state it left
					c.Actions = append(c.Actions, a)
					hx.Label("transition from " + sname)
					if err := execute("transitions", c); err != nil {
						hx.Violation("transitions", c, err.Error())
						t.Fatalf("state %s, action %+v: %v", sname, a, err)
					}
				}
			}
		}
	}
	_ = model.KDir
	_ = absFid{}
	if hx.Thorough() {
		hx.Exhaustive("every action (50 per fid number x {success, implementation error}, plus Tversion x {9P2000, 9P2000.u} x {same, larger msize}) from every abstract state of fid 1 {absent, dir, dir-open, file, file-open, auth} x 2 dialects x AuthOps on/off, each applied twice")
	}
}

func TestReplay(t *testing.T) {
	e, err := hx.LoadReplay()
	if e == nil {
		t.Skip("no replay file", err)
	}
	replayEnv(t, e)
}

func replayEnv(t *testing.T, e *hx.Envelope) {
	if e.Test == "overlap" || e.Test == "overlapmulti" {
		var oc OCase
		if err := json.Unmarshal(e.Case, &oc); err != nil {
			t.Fatalf("bad case: %v", err)
		}
		if err := executeOverlap(e.Test, &oc); err != nil {
			hx.Violation(e.Test, &oc, err.Error())
			t.Fatalf("%v", err)
		}
		return
	}
	var c Case
	if err := json.Unmarshal(e.Case, &c); err != nil {
		t.Fatalf("bad case: %v", err)
	}
	if err := execute(e.Test, &c); err != nil {
		hx.Violation(e.Test, &c, err.Error())
		t.Fatalf("%v", err)
	}
}

func TestRegress(t *testing.T) {
	for _, e := range hx.Regressions() {
		replayEnv(t, e)
		hx.Label("regress")
	}
}
