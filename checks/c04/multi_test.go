package c04

// Overlap histories with SEVERAL requests parked inside the scripted
// implementation at once (scenario "multi"): binders (Tattach / Tauth / clone /
// multi-name Twalk that would make a new fid number valid) and holders (Twstat
// / Tread on an established fid; a Twalk holds its source as well), next to
// idle established fids, some of which have a FidDestroy that dwells (an
// implementation that is slow releasing its per-fid resources).
//
// Ending "drop": the client disconnects while all of them are parked; as soon
// as a dwelling FidDestroy is running (the table of the dead connection is
// being released) -- or at once, when no idle fid dwells -- the parked
// requests are released one by one in a drawn order, each finishing (or
// running into another dwelling FidDestroy) before the next is released; only
// then the dwelling FidDestroys are let go. Whatever the interleaving of the
// table's release with the requests that bind or drop fids meanwhile: every
// fid object the implementation was shown is reported destroyed exactly once.
//
// Ending "release": the connection stays; the parked requests are released in
// the drawn order, each gets its own reply, every successful binder's fid is
// valid (and is the object the binder was shown), every failed binder's number
// is not; then the connection is dropped, with the same accounting.

import (
	"fmt"
	"time"

	"pgregory.net/rapid"
	"verif/internal/hx"
	"verif/internal/rawc"
	"verif/internal/ref9p"
	"verif/internal/script"
)

// OIdle is an established fid (10+index) nothing is parked on at first.
type OIdle struct {
	File  bool `json:"file,omitempty"`  // walked to a file and opened ORDWR (holders: read, wstat); otherwise an unopened directory (holders: wstat, walks from it)
	Dwell bool `json:"dwell,omitempty"` // its FidDestroy blocks until the harness lets it go
}

// OPark is one parked request. Binders bind the new number 20+index.
type OPark struct {
	Kind string `json:"kind"`          // attach | auth | clone | walk | wstat | read
	Src  int    `json:"src,omitempty"` // clone / walk: source fid, wstat / read: the fid; -1 = fid 0 (the root), else index into Idle
	Fail bool   `json:"fail,omitempty"`
}

func idleFid(i int) uint32 { return uint32(10 + i) }
func parkFid(j int) uint32 { return uint32(20 + j) }

type parked struct {
	m      *ref9p.Msg
	key    string
	binder bool
	auth   bool
	newinc int
}

func (o *orun) srcFid(p OPark) uint32 {
	if p.Src < 0 || p.Src >= len(o.c.Idle) {
		return 0
	}
	return idleFid(p.Src)
}

func (o *orun) parkMsg(j int, p OPark) (*parked, error) {
	c := o.c
	x := &parked{}
	switch p.Kind {
	case "attach":
		x.m = &ref9p.Msg{Type: ref9p.Tattach, Fid: parkFid(j), Afid: ref9p.NOFID, Uname: "bob", Aname: fmt.Sprintf("p%d", j), Nuname: 1002}
		x.binder = true
	case "auth":
		if !c.Auth {
			return nil, fmt.Errorf("harness: auth binder without AuthOps")
		}
		x.m = &ref9p.Msg{Type: ref9p.Tauth, Afid: parkFid(j), Uname: "bob", Aname: fmt.Sprintf("p%d", j), Nuname: 1002}
		x.key = fmt.Sprintf("authinit/p%d", j)
		x.binder, x.auth = true, true
	case "clone", "walk":
		src := o.srcFid(p)
		if src != 0 && c.Idle[p.Src].File {
			src = 0 // an open fid cannot be walked from
		}
		x.m = &ref9p.Msg{Type: ref9p.Twalk, Fid: src, Newfid: parkFid(j)}
		if p.Kind == "walk" {
			x.m.Wname = []string{"d1", fmt.Sprintf("f%d", j)}
		}
		x.binder = true
	case "wstat":
		st := rawc.NoChangeStat()
		st.Name = fmt.Sprintf("h%d", j)
		x.m = &ref9p.Msg{Type: ref9p.Twstat, Fid: o.srcFid(p), Stat: st}
	case "read":
		src := o.srcFid(p)
		if src == 0 || !c.Idle[p.Src].File {
			// only an open file is read; otherwise hold the fid by a Twstat
			st := rawc.NoChangeStat()
			st.Name = fmt.Sprintf("h%d", j)
			x.m = &ref9p.Msg{Type: ref9p.Twstat, Fid: src, Stat: st}
		} else {
			x.m = &ref9p.Msg{Type: ref9p.Tread, Fid: src, Offset: uint64(j+1) << 20, Count: 32}
		}
	default:
		return nil, fmt.Errorf("harness: parked kind %q", p.Kind)
	}
	if x.key == "" {
		x.key = script.Key(ref9p.Canon(x.m, o.cl.Dotu))
	}
	return x, nil
}

func destroyKey(fid uint32) string { return script.Key(&ref9p.Msg{Type: ref9p.Tstat, Fid: fid}) }

// dwelling counts the dwelling FidDestroy calls that have begun so far.
func (o *orun) dwelling() (begun int) {
	for _, e := range o.S.Log() {
		if e.Kind == "fiddestroy-enter" {
			begun++
		}
	}
	return
}

// settled waits until the released request key is done with (its answer was
// handed to the framework and Respond returned) or -- the request's own
// clean-up has run into a dwelling FidDestroy -- one more FidDestroy has begun.
func (o *orun) settled(x *parked, begunBefore int) error {
	if x.auth {
		// AuthInit has no log entry of its own when it returns
		time.Sleep(2 * time.Millisecond)
		return nil
	}
	start := time.Now()
	for {
		for _, e := range o.S.Log() {
			if e.Kind == "done" && e.Key == x.key {
				return nil
			}
		}
		if o.dwelling() > begunBefore {
			return nil
		}
		if time.Since(start) > odeadline {
			return &ohang{"the released request " + x.key + " did not finish"}
		}
		time.Sleep(100 * time.Microsecond)
	}
}

func (o *orun) multi() error {
	c := o.c
	if len(c.Idle) > 4 || len(c.Parked) == 0 || len(c.Parked) > 6 || len(c.Order) != len(c.Parked) {
		return fmt.Errorf("harness: bad multi case")
	}
	seen := map[int]bool{}
	for _, i := range c.Order {
		if i < 0 || i >= len(c.Parked) || seen[i] {
			return fmt.Errorf("harness: release order is not a permutation")
		}
		seen[i] = true
	}
	// the idle fids, each shown to the implementation by a Tstat (which also
	// arms the dwelling FidDestroy)
	idleInc := make([]int, len(c.Idle))
	for i, id := range c.Idle {
		fid := idleFid(i)
		name := fmt.Sprintf("d%d", i+2)
		if id.File {
			name = fmt.Sprintf("f%d", i+2)
		}
		if r, err := o.rpc(&ref9p.Msg{Type: ref9p.Twalk, Fid: 0, Newfid: fid, Wname: []string{name}}); err != nil || r.Type != ref9p.Rwalk {
			return fmt.Errorf("harness: Twalk to idle fid %d: %v %+v", fid, err, r)
		}
		if id.File {
			if r, err := o.rpc(&ref9p.Msg{Type: ref9p.Topen, Fid: fid, Mode: 2}); err != nil || r.Type != ref9p.Ropen {
				return fmt.Errorf("harness: Topen of idle fid %d: %v %+v", fid, err, r)
			}
		}
		if id.Dwell {
			o.S.Set(destroyKey(fid), script.Behav{HoldDestroy: true})
		}
		inc, err := o.served(fid, "after the walk that made it valid")
		if err != nil {
			return err
		}
		idleInc[i] = inc
	}
	// park the requests, one after the other
	ps := make([]*parked, len(c.Parked))
	held := map[uint32]bool{} // fids a parked request holds
	for j, p := range c.Parked {
		x, err := o.parkMsg(j, p)
		if err != nil {
			return err
		}
		b := script.Behav{}
		if p.Fail {
			b.Err, b.Ecode = "scripted failure", 5
		}
		mark := len(o.S.Log())
		if err := o.park(x.m, x.key, b); err != nil {
			return err
		}
		for _, e := range o.S.Log()[mark:] {
			if (e.Kind == "enter" || e.Kind == "authinit") && e.Key == x.key {
				x.newinc = e.NewInc
				if x.m.Type != ref9p.Twalk {
					x.newinc = e.Inc
				}
			}
		}
		if x.m.Type != ref9p.Tattach && x.m.Type != ref9p.Tauth {
			held[x.m.Fid] = true
		}
		ps[j] = x
	}
	// while they are parked, none of the new numbers is valid
	for j, x := range ps {
		if x.binder && j == c.Order[0] {
			if err := o.unknown(parkFid(j), fmt.Sprintf("while the %s that would make it valid is still being executed (%d requests parked)", ref9p.TypeName(x.m.Type), len(ps))); err != nil {
				return err
			}
		}
	}
	if c.Drop {
		o.cl.Close()
		if err := o.waitLog("connclosed", ""); err != nil {
			return err
		}
		// the table of the dead connection is being released; an idle fid whose
		// FidDestroy dwells keeps that release busy while the parked requests
		// come back
		loopDwells := false
		for i, id := range c.Idle {
			if id.Dwell && !held[idleFid(i)] {
				loopDwells = true
			}
		}
		if loopDwells {
			start := time.Now()
			for {
				if o.dwelling() > 0 {
					break
				}
				if time.Since(start) > odeadline {
					// no FidDestroy of an idle fid after the disconnect: finish() reports it
					break
				}
				time.Sleep(100 * time.Microsecond)
			}
		}
		for _, j := range c.Order {
			b := o.dwelling()
			o.S.Release(ps[j].key)
			if err := o.settled(ps[j], b); err != nil {
				return err
			}
		}
		// now the dwelling FidDestroys return
		for i, id := range c.Idle {
			if id.Dwell {
				o.S.Release(destroyKey(idleFid(i)))
			}
		}
		return nil // finish() does the accounting
	}
	// ending "release": every parked request gets its reply, in the drawn order
	for _, j := range c.Order {
		x := ps[j]
		r, err := o.collect(x.m, x.key)
		if err != nil {
			return err
		}
		fail := c.Parked[j].Fail
		if fail != (r.Type == ref9p.Rerror) || (!fail && r.Type != x.m.Type+1) {
			return fmt.Errorf("the parked %s (one of %d) was answered %s %q, implementation failing it: %v", x.key, len(ps), ref9p.TypeName(r.Type), r.Ename, fail)
		}
		if !x.binder {
			continue
		}
		if fail {
			if err := o.unknown(parkFid(j), "after the request that would have made it valid failed"); err != nil {
				return err
			}
			continue
		}
		if x.auth {
			continue // an auth fid is used through read/write; its destruction is accounted at the end
		}
		inc, err := o.served(parkFid(j), "after the reply that made it valid")
		if err != nil {
			return err
		}
		if x.newinc != 0 && inc != x.newinc {
			return fmt.Errorf("fid %d reaches the implementation as object %d, the %s that bound it was shown object %d", parkFid(j), inc, ref9p.TypeName(x.m.Type), x.newinc)
		}
	}
	// the established fids are what they were
	for i := range c.Idle {
		inc, err := o.served(idleFid(i), "after the parked requests returned")
		if err != nil {
			return err
		}
		if inc != idleInc[i] {
			return fmt.Errorf("fid %d is another object after the parked requests returned (incarnation %d, was %d)", idleFid(i), inc, idleInc[i])
		}
	}
	// let the dwelling FidDestroys of the final disconnect return as soon as they begin
	for i, id := range c.Idle {
		if id.Dwell {
			o.S.Release(destroyKey(idleFid(i)))
		}
	}
	return nil
}

func genMulti(t *rapid.T) *OCase {
	c := &OCase{Dotu: rapid.Bool().Draw(t, "dotu"), Auth: rapid.Bool().Draw(t, "auth"), Scenario: "multi"}
	c.Drop = rapid.IntRange(0, 3).Draw(t, "ending") > 0
	ni := rapid.IntRange(0, 3).Draw(t, "nidle")
	for i := 0; i < ni; i++ {
		c.Idle = append(c.Idle, OIdle{File: rapid.IntRange(0, 2).Draw(t, "file") == 0, Dwell: rapid.IntRange(0, 2).Draw(t, "dwell") > 0})
	}
	kinds := []string{"attach", "clone", "walk", "clone", "walk", "wstat", "read"}
	if c.Auth {
		kinds = append(kinds, "auth")
	}
	np := rapid.IntRange(1, 5).Draw(t, "nparked")
	for j := 0; j < np; j++ {
		p := OPark{Kind: rapid.SampledFrom(kinds).Draw(t, "kind"), Fail: rapid.IntRange(0, 4).Draw(t, "fail") == 0}
		p.Src = rapid.IntRange(-1, ni-1).Draw(t, "src")
		c.Parked = append(c.Parked, p)
	}
	c.Order = rapid.Permutation(seq(np)).Draw(t, "order")
	return c
}

func seq(n int) []int {
	s := make([]int, n)
	for i := range s {
		s[i] = i
	}
	return s
}

func labelMulti(c *OCase) {
	nb, nh, nd := 0, 0, 0
	for _, p := range c.Parked {
		switch p.Kind {
		case "attach", "auth", "clone", "walk":
			nb++
		}
		switch p.Kind {
		case "wstat", "read", "clone", "walk":
			nh++
		}
	}
	for _, id := range c.Idle {
		if id.Dwell {
			nd++
		}
	}
	end := "release"
	if c.Drop {
		end = "drop"
	}
	hx.Label(fmt.Sprintf("overlap multi %s: %d parked", end, len(c.Parked)))
	if nb > 0 && nh > 0 {
		hx.Label("overlap multi: binders and holders parked together")
	}
	if c.Drop && nd > 0 && nb > 0 {
		hx.Label("overlap multi drop: binders return while a FidDestroy dwells")
	}
}
