package c04

// Overlapping requests: the validity of a fid number is decided by the
// replies the client has (or could have) received, not by what the server is
// working on. While the request that would make fid N valid is still inside
// the implementation, N is not valid: a request naming it is refused without
// reaching the implementation. And once the Rclunk / the reply to a Tremove of
// N was sent, N is invalid even though an earlier request on N is still being
// executed.
//
// The harness owns the overlap: the scripted implementation parks one request
// until released, so every case is one deterministic history.

import (
	"encoding/json"
	"fmt"
	"sync/atomic"
	"testing"
	"time"

	"github.com/rminnich/go9p"
	"pgregory.net/rapid"
	"verif/internal/hx"
	"verif/internal/rawc"
	"verif/internal/ref9p"
	"verif/internal/script"
)

const odeadline = 30 * time.Second

type OCase struct {
	Dotu     bool     `json:"dotu"`
	Auth     bool     `json:"auth"`
	Scenario string   `json:"scenario"` // pending | held
	Binder   string   `json:"binder,omitempty"`
	Fail     bool     `json:"fail,omitempty"`   // the implementation answers the binder / the invalidating request with an error
	Holder   string   `json:"holder,omitempty"` // request parked on the fid
	Inval    string   `json:"inval,omitempty"`  // clunk | remove
	Rebind   bool     `json:"rebind,omitempty"` // held: bind the number again before the parked request returns
	Cancel   bool     `json:"cancel,omitempty"` // the parked request is cancelled by a Tflush (the implementation's FlushOp calls SrvReq.Flush) and answers late
	Drop     bool     `json:"drop,omitempty"`   // the client disconnects while the request is parked; it is released afterwards
	Probes   []string `json:"probes"`
	// scenario "multi" (multi_test.go): several requests parked at once
	Idle   []OIdle `json:"idle,omitempty"`
	Parked []OPark `json:"parked,omitempty"`
	Order  []int   `json:"order,omitempty"` // the order in which the parked requests are released
}

const (
	fidN = 1 // the fid number under test
	fidM = 2
	fidR = 3
)

var probeKinds = []string{"stat", "read", "write", "open", "create", "wstat", "walkfrom", "walkinplace", "walkonto", "clunk", "remove", "attachafid", "flushnoise"}

type ohang struct{ msg string }

func (h *ohang) Error() string { return h.msg }

// quies follows, through go9p's verif hook, whether the framework is done with
// one connection: close() has returned and every request it dispatched has
// been through Respond's post-processing. It is used for one thing only: to
// give the verdict "this fid object was never destroyed" (an absence) without
// sitting out the whole deadline when nothing is left that could still report
// it. It never turns a passing case into a failing one earlier than that.
type quies struct {
	conn               *go9p.Conn
	dispatched, posted atomic.Int64
	closeExit          atomic.Bool
}

func (q *quies) hook(point string, obj interface{}) {
	switch point {
	case "close.exit":
		if c, ok := obj.(*go9p.Conn); ok && c == q.conn {
			q.closeExit.Store(true)
		}
	case "recv.dispatch":
		if r, ok := obj.(*go9p.SrvReq); ok && r.Conn == q.conn {
			q.dispatched.Add(1)
		}
	case "respond.posted":
		if r, ok := obj.(*go9p.SrvReq); ok && r.Conn == q.conn {
			q.posted.Add(1)
		}
	}
}

func (q *quies) quiet() bool {
	return q != nil && q.closeExit.Load() && q.posted.Load() >= q.dispatched.Load()
}

// leakGrace: how long after the framework is done with the connection a
// missing FidDestroy is still waited for.
const leakGrace = 500 * time.Millisecond

type orun struct {
	q    *quies
	c    *OCase
	sv   *script.Server
	cl   *rawc.C
	S    *script.S
	seq  int
	conn string
}

func (o *orun) probeMsg(kind string) *ref9p.Msg {
	o.seq++
	switch kind {
	case "stat":
		return &ref9p.Msg{Type: ref9p.Tstat, Fid: fidN}
	case "read":
		return &ref9p.Msg{Type: ref9p.Tread, Fid: fidN, Offset: uint64(o.seq) << 8, Count: 16}
	case "write":
		return &ref9p.Msg{Type: ref9p.Twrite, Fid: fidN, Offset: uint64(o.seq) << 8, Data: []byte("probe")}
	case "open":
		return &ref9p.Msg{Type: ref9p.Topen, Fid: fidN, Mode: 0}
	case "create":
		return &ref9p.Msg{Type: ref9p.Tcreate, Fid: fidN, Name: fmt.Sprintf("n%d", o.seq), Perm: 0o644, Mode: 1}
	case "wstat":
		st := rawc.NoChangeStat()
		st.Name = fmt.Sprintf("w%d", o.seq)
		return &ref9p.Msg{Type: ref9p.Twstat, Fid: fidN, Stat: st}
	case "walkfrom":
		return &ref9p.Msg{Type: ref9p.Twalk, Fid: fidN, Newfid: fidR, Wname: nil}
	case "walkinplace":
		return &ref9p.Msg{Type: ref9p.Twalk, Fid: fidN, Newfid: fidN, Wname: []string{fmt.Sprintf("d%d", o.seq)}}
	case "clunk":
		return &ref9p.Msg{Type: ref9p.Tclunk, Fid: fidN}
	case "remove":
		return &ref9p.Msg{Type: ref9p.Tremove, Fid: fidN}
	case "attachafid":
		return &ref9p.Msg{Type: ref9p.Tattach, Fid: fidR, Afid: fidN, Uname: "bob", Aname: fmt.Sprintf("a%d", o.seq), Nuname: 1002}
	}
	return nil
}

// forwarded returns the entries after mark that show the implementation was
// invoked (any callback but FidDestroy / connection callbacks).
func (o *orun) forwarded(mark int) []script.Entry {
	var out []script.Entry
	for _, e := range o.S.Log()[mark:] {
		switch e.Kind {
		case "enter", "authinit", "authcheck", "authread", "authwrite":
			out = append(out, e)
		}
	}
	return out
}

func (o *orun) rpc(m *ref9p.Msg) (*ref9p.Msg, error) {
	r, err := o.cl.RPC(m)
	if err == rawc.ErrTimeout {
		return nil, &ohang{fmt.Sprintf("no reply to %s", script.Key(ref9p.Canon(m, o.cl.Dotu)))}
	}
	return r, err
}

// refused sends a request naming the invalid fid N and demands 'unknown fid'
// with the implementation not invoked.
func (o *orun) refused(kind, when string) error {
	m := o.probeMsg(kind)
	mark := len(o.S.Log())
	r, err := o.rpc(m)
	if err != nil {
		return err
	}
	key := script.Key(ref9p.Canon(m, o.cl.Dotu))
	if f := o.forwarded(mark); len(f) > 0 {
		return fmt.Errorf("%s: %s names fid %d, which is not valid, and reached the implementation (%s %s, reply %s %q)", when, key, fidN, f[0].Kind, f[0].Op, ref9p.TypeName(r.Type), r.Ename)
	}
	if r.Type != ref9p.Rerror || r.Ename != "unknown fid" {
		return fmt.Errorf("%s: %s names fid %d, which is not valid: reply %s %q, want Rerror 'unknown fid'", when, key, fidN, ref9p.TypeName(r.Type), r.Ename)
	}
	return nil
}

// served sends a Tstat on fid and demands that the implementation sees it; it
// returns the incarnation the implementation was shown.
func (o *orun) served(fid uint32, when string) (int, error) {
	mark := len(o.S.Log())
	r, err := o.rpc(&ref9p.Msg{Type: ref9p.Tstat, Fid: fid})
	if err != nil {
		return 0, err
	}
	f := o.forwarded(mark)
	if r.Type != ref9p.Rstat || len(f) != 1 {
		return 0, fmt.Errorf("%s: Tstat on fid %d, which is valid: reply %s %q, implementation invoked %d times", when, fid, ref9p.TypeName(r.Type), r.Ename, len(f))
	}
	return f[0].Inc, nil
}

func (o *orun) unknown(fid uint32, when string) error {
	mark := len(o.S.Log())
	r, err := o.rpc(&ref9p.Msg{Type: ref9p.Tstat, Fid: fid})
	if err != nil {
		return err
	}
	if f := o.forwarded(mark); len(f) > 0 || r.Type != ref9p.Rerror || r.Ename != "unknown fid" {
		return fmt.Errorf("%s: Tstat on fid %d, which is not valid: reply %s %q, implementation invoked %d times", when, fid, ref9p.TypeName(r.Type), r.Ename, len(f))
	}
	return nil
}

// park sends m, which the implementation holds, and waits until it is inside.
func (o *orun) park(m *ref9p.Msg, key string, b script.Behav) error {
	b.Hold = true
	o.S.Set(key, b)
	m.Tag = o.cl.NextTag()
	if err := o.cl.Send(m); err != nil {
		return err
	}
	if !o.S.WaitEntered(key, odeadline) {
		return &ohang{"the request " + key + " did not reach the implementation"}
	}
	return nil
}

// collect releases the parked request and returns its reply.
func (o *orun) collect(m *ref9p.Msg, key string) (*ref9p.Msg, error) {
	o.S.Release(key)
	for {
		r, _, err := o.cl.Recv()
		if err == rawc.ErrTimeout {
			return nil, &ohang{"no reply to the parked request " + key + " after it was released"}
		}
		if err != nil {
			return nil, err
		}
		if r.Tag == m.Tag {
			return r, nil
		}
		return nil, fmt.Errorf("a reply with tag %d (%s) while only tag %d is outstanding", r.Tag, ref9p.TypeName(r.Type), m.Tag)
	}
}

// waitDone waits until the implementation has finished with the request key
// (its late answer was handed to the framework).
func (o *orun) waitLog(kind, key string) error {
	start := time.Now()
	for {
		for _, e := range o.S.Log() {
			if e.Kind == kind && (key == "" || e.Key == key) {
				return nil
			}
		}
		if time.Since(start) > odeadline {
			return &ohang{fmt.Sprintf("no %q entry for %s in the implementation's log", kind, key)}
		}
		time.Sleep(100 * time.Microsecond)
	}
}

// cancel flushes the parked request m: the scripted FlushOp cancels it, the
// Rflush arrives without a reply to m, then the parked operation is let go and
// answers into the void.
func (o *orun) cancel(m *ref9p.Msg, key string) error {
	r, err := o.rpc(&ref9p.Msg{Type: ref9p.Tflush, Oldtag: m.Tag})
	if err != nil {
		return err
	}
	if r.Type != ref9p.Rflush {
		return fmt.Errorf("Tflush of the parked %s: reply %s", ref9p.TypeName(m.Type), ref9p.TypeName(r.Type))
	}
	o.S.Release(key)
	return o.waitLog("done", key)
}

// drop disconnects while m is parked, then lets it go.
func (o *orun) drop(key, donekey string) error {
	o.cl.Close()
	if err := o.waitLog("connclosed", ""); err != nil {
		return err
	}
	o.S.Release(key)
	if donekey != "" {
		return o.waitLog("done", donekey)
	}
	time.Sleep(2 * time.Millisecond) // AuthInit has no log entry of its own when it returns
	return nil
}

func runOverlap(c *OCase) error {
	fl := script.FlushAbsent
	if c.Cancel {
		fl = script.FlushCancel
	}
	sv := script.NewServer(script.Config{Msize: 8192, Dotu: true, Auth: c.Auth, Flush: fl})
	name := "c04-ov"
	cl := rawc.New(sv.Dial(name))
	cl.Timeout = odeadline
	defer cl.Close()
	defer sv.S.ReleaseAll()
	o := &orun{c: c, sv: sv, cl: cl, S: sv.S, conn: script.ConnID(name)}
	if gc := sv.S.Conn(o.conn); gc != nil {
		o.q = &quies{conn: gc}
		hook := o.q.hook
		go9p.VerifHook.Store(&hook)
		defer go9p.VerifHook.Store(nil)
	}
	ver := "9P2000"
	if c.Dotu {
		ver = "9P2000.u"
	}
	if r, err := cl.Version(8192, ver); err != nil || r.Type != ref9p.Rversion {
		return fmt.Errorf("harness: Tversion: %v", err)
	}
	if r, err := o.rpc(&ref9p.Msg{Type: ref9p.Tattach, Fid: 0, Afid: ref9p.NOFID, Uname: "alice", Nuname: 1001}); err != nil || r.Type != ref9p.Rattach {
		return fmt.Errorf("harness: Tattach: %v %+v", err, r)
	}
	var err error
	switch c.Scenario {
	case "pending":
		err = o.pending()
	case "held":
		err = o.held()
	case "multi":
		err = o.multi()
	default:
		return fmt.Errorf("harness: scenario %q", c.Scenario)
	}
	if err != nil {
		return err
	}
	return o.finish()
}

func (o *orun) pending() error {
	c := o.c
	var m *ref9p.Msg
	key := ""
	b := script.Behav{}
	if c.Fail {
		b.Err, b.Ecode = "scripted failure", 5
	}
	switch c.Binder {
	case "attach":
		m = &ref9p.Msg{Type: ref9p.Tattach, Fid: fidN, Afid: ref9p.NOFID, Uname: "bob", Aname: "tree", Nuname: 1002}
	case "auth":
		m = &ref9p.Msg{Type: ref9p.Tauth, Afid: fidN, Uname: "bob", Aname: "tree", Nuname: 1002}
		key = "authinit/tree"
	case "clone":
		m = &ref9p.Msg{Type: ref9p.Twalk, Fid: 0, Newfid: fidN}
	case "walk":
		m = &ref9p.Msg{Type: ref9p.Twalk, Fid: 0, Newfid: fidN, Wname: []string{"d1", "f1"}}
	default:
		return fmt.Errorf("harness: binder %q", c.Binder)
	}
	if key == "" {
		key = script.Key(ref9p.Canon(m, o.cl.Dotu))
	}
	if err := o.park(m, key, b); err != nil {
		return err
	}
	when := fmt.Sprintf("while the %s that would make fid %d valid is still being executed", ref9p.TypeName(m.Type), fidN)
	for _, p := range c.Probes {
		switch p {
		case "walkonto":
			// a second request that would bind the same number: refused, whichever of the two errors
			mark := len(o.S.Log())
			r, err := o.rpc(&ref9p.Msg{Type: ref9p.Twalk, Fid: 0, Newfid: fidN, Wname: []string{"d2"}})
			if err != nil {
				return err
			}
			if f := o.forwarded(mark); len(f) > 0 || r.Type != ref9p.Rerror {
				return fmt.Errorf("%s: a Twalk onto the same new fid number was not refused (reply %s, implementation invoked %d times)", when, ref9p.TypeName(r.Type), len(f))
			}
		case "flushnoise":
			if r, err := o.rpc(&ref9p.Msg{Type: ref9p.Tflush, Oldtag: 0x7777}); err != nil || r.Type != ref9p.Rflush {
				return fmt.Errorf("%s: Tflush of an unused tag: %v %+v", when, err, r)
			}
		default:
			if err := o.refused(p, when); err != nil {
				return err
			}
		}
	}
	if c.Drop {
		// the fid the request binds after the disconnect must still be reported destroyed (finish)
		dk := key
		if c.Binder == "auth" {
			dk = ""
		}
		return o.drop(key, dk)
	}
	if c.Cancel && c.Binder != "auth" {
		if err := o.cancel(m, key); err != nil {
			return err
		}
		// the cancelled request never made the fid valid, and left nothing behind
		if err := o.unknown(fidN, "after the request that would have made it valid was cancelled"); err != nil {
			return err
		}
		r, err := o.rpc(&ref9p.Msg{Type: ref9p.Twalk, Fid: 0, Newfid: fidN, Wname: []string{"d2"}})
		if err != nil {
			return err
		}
		if r.Type != ref9p.Rwalk {
			return fmt.Errorf("after the %s that would have made fid %d valid was cancelled (and the implementation is done with it), a Twalk to that number is answered %s %q", ref9p.TypeName(m.Type), fidN, ref9p.TypeName(r.Type), r.Ename)
		}
		_, err = o.served(fidN, "after a walk bound the number of a cancelled request")
		return err
	}
	r, err := o.collect(m, key)
	if err != nil {
		return err
	}
	if c.Fail {
		if r.Type != ref9p.Rerror {
			return fmt.Errorf("the parked %s was answered %s although the implementation failed it", ref9p.TypeName(m.Type), ref9p.TypeName(r.Type))
		}
		return o.unknown(fidN, "after the request that would have made it valid failed")
	}
	if r.Type != m.Type+1 {
		return fmt.Errorf("the parked %s was answered %s %q (the refused requests in between must not disturb it)", ref9p.TypeName(m.Type), ref9p.TypeName(r.Type), r.Ename)
	}
	if c.Binder == "auth" {
		// an auth fid is used through read/write; clunk it to see that it was valid
		if r, err := o.rpc(&ref9p.Msg{Type: ref9p.Tclunk, Fid: fidN}); err != nil || r.Type != ref9p.Rclunk {
			return fmt.Errorf("after Rauth, Tclunk of the auth fid: %v %+v", err, r)
		}
		return nil
	}
	_, err = o.served(fidN, "after the reply that made it valid")
	return err
}

func (o *orun) held() error {
	c := o.c
	target := "f1"
	if c.Holder == "walk" || c.Holder == "create" {
		target = "d1"
	}
	if r, err := o.rpc(&ref9p.Msg{Type: ref9p.Twalk, Fid: 0, Newfid: fidN, Wname: []string{target}}); err != nil || r.Type != ref9p.Rwalk {
		return fmt.Errorf("harness: Twalk: %v %+v", err, r)
	}
	old, err := o.served(fidN, "after the walk that made it valid")
	if err != nil {
		return err
	}
	var m *ref9p.Msg
	switch c.Holder {
	case "read":
		m = &ref9p.Msg{Type: ref9p.Tread, Fid: fidN, Offset: 1 << 40, Count: 32}
	case "write":
		m = &ref9p.Msg{Type: ref9p.Twrite, Fid: fidN, Offset: 1 << 40, Data: []byte("held")}
	case "wstat":
		m = &ref9p.Msg{Type: ref9p.Twstat, Fid: fidN, Stat: func() ref9p.Stat { s := rawc.NoChangeStat(); s.Name = "held"; return s }()}
	case "open":
		m = &ref9p.Msg{Type: ref9p.Topen, Fid: fidN, Mode: 0}
	case "walk":
		m = &ref9p.Msg{Type: ref9p.Twalk, Fid: fidN, Newfid: fidM, Wname: []string{"d2"}}
	case "create":
		m = &ref9p.Msg{Type: ref9p.Tcreate, Fid: fidN, Name: "held", Perm: 0o644, Mode: 1}
	default:
		return fmt.Errorf("harness: holder %q", c.Holder)
	}
	if c.Holder == "read" || c.Holder == "write" {
		if r, err := o.rpc(&ref9p.Msg{Type: ref9p.Topen, Fid: fidN, Mode: 2}); err != nil || r.Type != ref9p.Ropen {
			return fmt.Errorf("harness: Topen: %v %+v", err, r)
		}
	}
	key := script.Key(ref9p.Canon(m, o.cl.Dotu))
	if err := o.park(m, key, script.Behav{}); err != nil {
		return err
	}
	if c.Drop {
		return o.drop(key, key)
	}
	if c.Cancel {
		// the cancelled request must not keep the fid alive: after a clunk it is gone
		if err := o.cancel(m, key); err != nil {
			return err
		}
		if inc, err := o.served(fidN, "after a request on it was cancelled"); err != nil {
			return err
		} else if inc != old {
			return fmt.Errorf("after a request on it was cancelled the fid is another object (incarnation %d, was %d)", inc, old)
		}
		if c.Holder == "walk" {
			if err := o.unknown(fidM, "after the Twalk that would have made it valid was cancelled"); err != nil {
				return err
			}
		}
		if r, err := o.rpc(&ref9p.Msg{Type: ref9p.Tclunk, Fid: fidN}); err != nil || r.Type != ref9p.Rclunk {
			return fmt.Errorf("Tclunk after the cancelled request: %v %+v", err, r)
		}
		if err := o.unknown(fidN, "after Rclunk"); err != nil {
			return err
		}
		// its destruction must have been reported by now: nothing refers to it any more
		n := 0
		for _, e := range o.S.Log() {
			if e.Kind == "fiddestroy" && e.Inc == old {
				n++
			}
		}
		if n != 1 {
			return fmt.Errorf("fid %d was clunked after a request on it had been cancelled (and the implementation was done with it): its destruction was reported %d times when Rclunk arrived, want once", fidN, n)
		}
		return nil
	}
	// the invalidating request, answered while the parked one is still inside
	im := &ref9p.Msg{Type: ref9p.Tclunk, Fid: fidN}
	if c.Inval == "remove" {
		im.Type = ref9p.Tremove
	}
	ib := script.Behav{}
	if c.Fail {
		ib.Err, ib.Ecode = "scripted failure", 5
	}
	o.S.Set(script.Key(im), ib)
	r, err := o.rpc(im)
	if err != nil {
		return err
	}
	if c.Fail != (r.Type == ref9p.Rerror) {
		return fmt.Errorf("%s while a %s on the fid is being executed: reply %s %q, implementation failing it: %v", ref9p.TypeName(im.Type), ref9p.TypeName(m.Type), ref9p.TypeName(r.Type), r.Ename, c.Fail)
	}
	o.S.Set(script.Key(im), script.Behav{})
	invalid := c.Inval == "remove" || !c.Fail
	when := fmt.Sprintf("after the reply to %s (a %s on the fid is still being executed)", ref9p.TypeName(im.Type), ref9p.TypeName(m.Type))
	if !invalid {
		if inc, err := o.served(fidN, "after a failed Tclunk"); err != nil {
			return err
		} else if inc != old {
			return fmt.Errorf("after a failed Tclunk the fid is another object (incarnation %d, was %d)", inc, old)
		}
	} else {
		for _, p := range c.Probes {
			switch p {
			case "walkonto", "flushnoise":
				continue
			}
			if err := o.refused(p, when); err != nil {
				return err
			}
		}
		if c.Rebind {
			// binding the number again: whatever the answer, the table follows it
			r, err := o.rpc(&ref9p.Msg{Type: ref9p.Twalk, Fid: 0, Newfid: fidN, Wname: []string{"d2", "f2"}})
			if err != nil {
				return err
			}
			if r.Type == ref9p.Rwalk {
				inc, err := o.served(fidN, "after a walk bound the number again")
				if err != nil {
					return err
				}
				if inc == old {
					return fmt.Errorf("after the fid was invalidated and the number bound again, the implementation is shown the old fid object")
				}
			} else if err := o.unknown(fidN, "after the walk that would have bound the number again was refused"); err != nil {
				return err
			}
		}
	}
	pr, err := o.collect(m, key)
	if err != nil {
		return err
	}
	if pr.Type != m.Type+1 {
		return fmt.Errorf("the parked %s was answered %s %q", ref9p.TypeName(m.Type), ref9p.TypeName(pr.Type), pr.Ename)
	}
	if c.Holder == "walk" {
		// the walk was sent while its source was valid and it succeeded: its new fid is valid
		if _, err := o.served(fidM, "after the Rwalk of a walk that started before its source was clunked"); err != nil {
			return err
		}
	}
	if invalid && !c.Rebind {
		return o.unknown(fidN, "after the parked request returned")
	}
	return nil
}

// finish drops the connection and checks that the implementation was told of
// the destruction of every fid object it was shown exactly once.
func (o *orun) finish() error {
	o.cl.Close()
	shown := map[int]bool{}
	start := time.Now()
	var quietSince time.Time
	for {
		// read before the log: what the log shows below is then at least as
		// recent as the moment the framework was found done with the connection
		quiet := o.q.quiet()
		closed := false
		destroyed := map[int]int{}
		for _, e := range o.S.Log() {
			switch e.Kind {
			case "enter", "authinit", "authcheck":
				for _, i := range []int{e.Inc, e.NewInc, e.AInc} {
					if i != 0 {
						shown[i] = true
					}
				}
			case "fiddestroy":
				destroyed[e.Inc]++
			case "connclosed":
				closed = true
			}
		}
		bad := ""
		for i := range shown {
			if destroyed[i] != 1 {
				bad = fmt.Sprintf("fid object %d was shown to the implementation and its destruction reported %d times", i, destroyed[i])
			}
		}
		for i, n := range destroyed {
			if n > 1 {
				return fmt.Errorf("the destruction of fid object %d was reported %d times", i, n)
			}
		}
		if closed && bad == "" {
			return nil
		}
		if closed && quiet && bad != "" {
			// close() has returned and every request has been answered: go9p calls
			// FidDestroy synchronously from those, so nothing is left that could
			// still report the destruction
			if quietSince.IsZero() {
				quietSince = time.Now()
			} else if time.Since(quietSince) > leakGrace {
				return fmt.Errorf("after the connection was closed (and every request answered): %s", bad)
			}
		}
		if time.Since(start) > odeadline {
			if !closed {
				return &ohang{"ConnClosed not reported after the client closed the connection"}
			}
			return fmt.Errorf("after the connection was closed: %s", bad)
		}
		time.Sleep(200 * time.Microsecond)
	}
}

func executeOverlap(test string, c *OCase) error {
	hx.Journal(test, c)
	hx.Eval()
	b, _ := json.Marshal(c)
	hx.NonTrivial(b) // every case overlaps a request with the (in)validation of its fid
	if c.Scenario == "multi" {
		labelMulti(c)
	} else {
		hx.Label("overlap " + c.Scenario + " " + c.Binder + c.Holder + "/" + c.Inval)
	}
	if c.Cancel {
		hx.Label("overlap: parked request cancelled by Tflush")
	}
	if c.Drop {
		hx.Label("overlap: disconnect while parked")
	}
	hx.Sample(test, c)
	err := runOverlap(c)
	if h, ok := err.(*ohang); ok {
		if blocked := hx.BlockedInGo9p(); blocked != "" {
			return fmt.Errorf("%v; goroutines blocked inside go9p:\n%s", err, blocked)
		}
		hx.Inconclusive(h.msg)
		return nil
	}
	return err
}

func genOverlap(t *rapid.T) *OCase {
	c := &OCase{Dotu: rapid.Bool().Draw(t, "dotu"), Auth: rapid.Bool().Draw(t, "auth")}
	c.Scenario = rapid.SampledFrom([]string{"pending", "held"}).Draw(t, "scenario")
	c.Fail = rapid.IntRange(0, 3).Draw(t, "fail") == 0
	c.Probes = rapid.SliceOfN(rapid.SampledFrom(probeKinds), 1, 6).Draw(t, "probes")
	switch rapid.IntRange(0, 5).Draw(t, "ending") {
	case 0:
		c.Cancel = true
	case 1:
		c.Drop = true
	}
	if c.Scenario == "pending" {
		bs := []string{"attach", "clone", "walk"}
		if c.Auth {
			bs = append(bs, "auth")
		}
		c.Binder = rapid.SampledFrom(bs).Draw(t, "binder")
	} else {
		c.Holder = rapid.SampledFrom([]string{"read", "write", "wstat", "open", "walk", "create"}).Draw(t, "holder")
		c.Inval = rapid.SampledFrom([]string{"clunk", "remove"}).Draw(t, "inval")
		c.Rebind = rapid.Bool().Draw(t, "rebind")
	}
	return c
}

func TestPropOverlap(t *testing.T) {
	hx.Check(t, "overlap", hx.N(300, 3000), func(t *rapid.T) {
		c := genOverlap(t)
		if err := executeOverlap("overlap", c); err != nil {
			hx.Failf(t, "overlap", c, "%v", err)
		}
	})
}

func TestPropOverlapMulti(t *testing.T) {
	hx.Check(t, "overlapmulti", hx.N(250, 2500), func(t *rapid.T) {
		c := genMulti(t)
		if err := executeOverlap("overlapmulti", c); err != nil {
			hx.Failf(t, "overlapmulti", c, "%v", err)
		}
	})
}

// TestEnumOverlap runs every (binder | holder x invalidation) with every single probe.
func TestEnumOverlap(t *testing.T) {
	idx := 0
	try := func(c *OCase) {
		idx++
		if hx.NShards > 1 && idx%hx.NShards != hx.Shard {
			return
		}
		if !hx.Thorough() && idx%4 != int(hx.Seed%4) {
			return
		}
		if err := executeOverlap("overlap", c); err != nil {
			hx.Violation("overlap", c, err.Error())
			t.Fatalf("%+v: %v", c, err)
		}
	}
	for _, dotu := range []bool{false, true} {
		for _, auth := range []bool{false, true} {
			for _, fail := range []bool{false, true} {
				for _, p := range probeKinds {
					for _, b := range []string{"attach", "clone", "walk", "auth"} {
						if b == "auth" && !auth {
							continue
						}
						try(&OCase{Dotu: dotu, Auth: auth, Scenario: "pending", Binder: b, Fail: fail, Probes: []string{p}})
					}
					if p == "walkonto" || p == "flushnoise" {
						continue
					}
					for _, h := range []string{"read", "write", "wstat", "open", "walk", "create"} {
						for _, iv := range []string{"clunk", "remove"} {
							for _, rb := range []bool{false, true} {
								try(&OCase{Dotu: dotu, Auth: auth, Scenario: "held", Holder: h, Inval: iv, Fail: fail, Rebind: rb, Probes: []string{p}})
							}
						}
					}
				}
			}
		}
	}
	for _, dotu := range []bool{false, true} {
		for _, auth := range []bool{false, true} {
			for _, fail := range []bool{false, true} {
				for _, ending := range []string{"cancel", "drop"} {
					for _, b := range []string{"attach", "clone", "walk", "auth"} {
						if b == "auth" && !auth {
							continue
						}
						try(&OCase{Dotu: dotu, Auth: auth, Scenario: "pending", Binder: b, Fail: fail, Cancel: ending == "cancel", Drop: ending == "drop", Probes: []string{"stat"}})
					}
					for _, h := range []string{"read", "write", "wstat", "open", "walk", "create"} {
						try(&OCase{Dotu: dotu, Auth: auth, Scenario: "held", Holder: h, Inval: "clunk", Fail: fail, Cancel: ending == "cancel", Drop: ending == "drop", Probes: []string{"stat"}})
					}
				}
			}
		}
	}
	// several binders of one kind parked, one idle fid whose FidDestroy dwells, both endings
	for _, dotu := range []bool{false, true} {
		for _, drop := range []bool{false, true} {
			for _, b := range []string{"attach", "clone", "walk", "auth"} {
				for _, n := range []int{1, 3, 5} {
					for _, rev := range []bool{false, true} {
						c := &OCase{Dotu: dotu, Auth: b == "auth", Scenario: "multi", Drop: drop, Idle: []OIdle{{Dwell: true}, {File: true}}}
						for j := 0; j < n; j++ {
							c.Parked = append(c.Parked, OPark{Kind: b, Src: -1})
							if rev {
								c.Order = append(c.Order, n-1-j)
							} else {
								c.Order = append(c.Order, j)
							}
						}
						try(c)
					}
				}
			}
		}
	}
	if hx.Thorough() {
		hx.Exhaustive("overlap: every binder {attach, auth, clone, walk} parked x every single probe on the pending fid; every parked holder {read, write, wstat, open, walk, create} x {Tclunk, Tremove} x {success, implementation error} x rebind on/off x every single probe; both dialects, AuthOps on/off; 1/3/5 binders of one kind parked at once next to an idle fid with a dwelling FidDestroy, released in order / in reverse, ending in a disconnect or in replies")
	}
}
