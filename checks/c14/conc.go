package c14

// Concurrent scenario ("many files open at once", several requests in
// flight): G goroutines share ONE client (one connection). Each writer owns
// one file — nobody else writes it — so the expected content of every file is
// determined whatever the schedule; each reader owns one static file that
// nobody writes. The verdict is: every helper reports the exact count, every
// read-back through the writer's own fid equals the writer's own model, and at
// the end every underlying file equals its single writer's model
// (os.ReadFile).

import (
	"bytes"
	"fmt"
	"os"
	"path/filepath"
	"sync"
	"time"

	"github.com/rminnich/go9p"
	"verif/internal/hx"
	"verif/internal/ufsrv"
)

// Writer describes one goroutine that owns file w<i>.
type Writer struct {
	Helper   string   `json:"helper"`   // "cwrite", "write", "writeat", "written"
	Create   bool     `json:"create"`   // FCreate through the client (else the file pre-exists with InitLen bytes and is opened ORDWR)
	InitLen  int      `json:"init_len"` // length of the pre-existing file (Create=false)
	Lens     []uint32 `json:"lens"`     // chunk lengths, written one after the other (appending)
	ReadBack int      `json:"readback"` // after every ReadBack-th chunk read it back through the same fid (0 = never)
	Seed     uint64   `json:"seed"`
	Conn     int      `json:"conn,omitempty"` // 0 = the case's own client, k = ConcSpec.Conns[k-1] (modulo)
}

// Reader describes one goroutine that owns the static file r<i>.
type Reader struct {
	Len    int    `json:"len"`
	Seed   uint64 `json:"seed"`
	Helper string `json:"helper"` // "cread", "read", "readat", "readn"
	Count  uint32 `json:"count"`  // buffer size per call
	Rounds int    `json:"rounds"` // number of passes over the file
	Conn   int    `json:"conn,omitempty"`
}

type ConcSpec struct {
	// Conns are ADDITIONAL connections to the same server, with their own
	// msize / dialect, whose goroutines run at the same time as those of the
	// case's own client: requests of connections with different msizes are in
	// flight in one server together.
	Conns   []ConnSpec `json:"conns,omitempty"`
	Writers []Writer   `json:"writers"`
	Readers []Reader   `json:"readers"`
	Shared  []Shared   `json:"shared,omitempty"` // files written and read through ONE fid by several goroutines, see shared.go
	// Failed: calls answered with Rerror, made one after the other before the
	// goroutines start; FailedDuring: made FailRounds times over by one more
	// goroutine while the others run. See failed.go.
	Failed       []FailCall `json:"failed,omitempty"`
	FailedDuring []FailCall `json:"failed_during,omitempty"`
	FailRounds   int        `json:"fail_rounds,omitempty"`
}

// chunk returns the self-describing payload of chunk i of writer w: a header
// "<w%02d c%05d>" repeated/truncated, xored into a PRF stream so that every
// byte position of every chunk of every writer is distinguishable.
func chunk(w int, seed uint64, i int, n uint32) []byte {
	b := prf(seed+uint64(w)<<40+uint64(i)*0x9E37, int(n))
	tag := []byte(fmt.Sprintf("<w%02d c%05d>", w, i))
	copy(b, tag)
	return b
}

// whose looks for the writer/chunk tag at the start of a mismatching region.
func whose(b []byte) string {
	i := bytes.Index(b, []byte("<w"))
	if i >= 0 && i < 64 && len(b) >= i+12 {
		return fmt.Sprintf(" (the file holds data tagged %q there)", b[i:i+12])
	}
	return ""
}

func runConc(c *Case) error {
	sp := c.Conc
	root, e := os.MkdirTemp("", "c14-")
	if e != nil {
		return fmt.Errorf("harness: %v", e)
	}
	defer os.RemoveAll(root)
	nm := c.ClientMsize
	if c.ServerMsize < nm {
		nm = c.ServerMsize
	}
	u := uint64(nm - iohdrsz)
	pfx := fmt.Sprintf("msize=%d iounit=%d dotu=%v concurrent(%d writers, %d readers): ", nm, u, c.Dotu, len(sp.Writers), len(sp.Readers))

	wmodels := make([][]byte, len(sp.Writers))
	for i, w := range sp.Writers {
		if !w.Create {
			wmodels[i] = prf(w.Seed^0xABCD, w.InitLen)
			if e := os.WriteFile(filepath.Join(root, fmt.Sprintf("w%d", i)), wmodels[i], 0o644); e != nil {
				return fmt.Errorf("harness: %v", e)
			}
		}
	}
	rmodels := make([][]byte, len(sp.Readers))
	for i, r := range sp.Readers {
		rmodels[i] = prf(r.Seed, r.Len)
		if e := os.WriteFile(filepath.Join(root, fmt.Sprintf("r%d", i)), rmodels[i], 0o644); e != nil {
			return fmt.Errorf("harness: %v", e)
		}
	}

	srv := startUfs(root, c.Dotu, c.ServerMsize)
	clnt, end, e := ufsrv.Mount(srv, "c14c", "", c.ClientMsize-iohdrsz)
	if e != nil {
		end.Close()
		return fmt.Errorf("%smount failed: %v", pfx, e)
	}
	defer func() {
		clnt.Unmount()
		end.Close()
	}()
	if clnt.Msize != nm || clnt.Dotu != c.Dotu {
		return fmt.Errorf("%snegotiated msize %d dotu=%v, expected %d %v", pfx, clnt.Msize, clnt.Dotu, nm, c.Dotu)
	}

	// further connections to the same server
	cls := []concClient{{clnt: clnt, u: u, nm: nm, dotu: c.Dotu}}
	for k, cs := range sp.Conns {
		if cs.ClientMsize < 64 {
			return fmt.Errorf("harness: msize below 64 is outside this check's grid")
		}
		xend := ufsrv.Conn(srv, fmt.Sprintf("c14c-%d", k+1))
		defer xend.Close()
		xc, e := go9p.Connect(xend, cs.ClientMsize, !cs.Plain)
		if e != nil {
			return fmt.Errorf("%sconnection %d (client msize %d): mount failed: %v", pfx, k+1, cs.ClientMsize, e)
		}
		defer xc.Unmount()
		fid, e := xc.Attach(nil, go9p.OsUsers.Uid2User(0), "")
		if e != nil {
			return fmt.Errorf("%sconnection %d (client msize %d): attach failed: %v", pfx, k+1, cs.ClientMsize, e)
		}
		xc.Root = fid
		xnm := negotiated(cs.ClientMsize, c.ServerMsize)
		if xc.Msize != xnm || xc.Dotu != (c.Dotu && !cs.Plain) {
			return fmt.Errorf("%sconnection %d negotiated msize %d dotu=%v, expected %d %v", pfx, k+1, xc.Msize, xc.Dotu, xnm, c.Dotu && !cs.Plain)
		}
		cls = append(cls, concClient{clnt: xc, u: uint64(xnm - iohdrsz), nm: xnm, dotu: xc.Dotu})
		hx.Label(fmt.Sprintf("concurrent: further connection msize=%d", xnm))
	}
	if len(cls) > 1 {
		pfx = fmt.Sprintf("%s%d connections to one server: ", pfx, len(cls))
		hx.ExtraAdd("concurrent_multi_connection_cases", 1)
	}

	n := len(sp.Writers) + len(sp.Readers)

	// calls that fail, before anything runs concurrently
	for i := range sp.Failed {
		fc := &sp.Failed[i]
		cl := pickClient(cls, fc.Conn)
		failed, err := runFailCall(cl, root, pfx, fmt.Sprintf("x%d", i), fc)
		hx.Eval()
		failCoverage(cl, fc, "before", failed, n)
		if err != nil {
			return err
		}
	}
	if len(sp.Failed) > 0 {
		pfx += fmt.Sprintf("after %d calls on the same client(s) that were expected to fail: ", len(sp.Failed))
	}

	errs := make([]error, n+len(sp.Shared)+1)
	ops := make([]int, n+len(sp.Shared)+1)
	var wg sync.WaitGroup
	start := make(chan struct{})
	// the first failure ends the wait for the others (a defect that corrupts
	// one request often leaves another goroutine waiting for ever)
	firstErr := make(chan error, 1)
	note := func(err error) {
		if err != nil {
			select {
			case firstErr <- err:
			default:
			}
		}
	}

	// one more goroutine keeps making calls that fail
	duringFailed := make([]bool, len(sp.FailedDuring))
	if len(sp.FailedDuring) > 0 {
		wg.Add(1)
		go func() {
			slot := n + len(sp.Shared)
			defer wg.Done()
			defer func() {
				if p := recover(); p != nil {
					errs[slot] = fmt.Errorf("%sgoroutine making failing calls: panic: %v", pfx, p)
					note(errs[slot])
				}
			}()
			<-start
			rounds := sp.FailRounds
			if rounds < 1 {
				rounds = 1
			}
			for r := 0; r < rounds; r++ {
				for i := range sp.FailedDuring {
					fc := &sp.FailedDuring[i]
					failed, err := runFailCall(pickClient(cls, fc.Conn), root, pfx, fmt.Sprintf("y%d", i), fc)
					ops[slot]++
					duringFailed[i] = duringFailed[i] || failed
					if err != nil {
						errs[slot] = err
						note(err)
						return
					}
				}
			}
		}()
	}

	// files shared by several goroutines through one fid (shared.go)
	smodels := make([][]byte, len(sp.Shared))
	for si := range sp.Shared {
		m, e := sharedPrepare(root, si, &sp.Shared[si])
		if e != nil {
			return e
		}
		smodels[si] = m
		wg.Add(1)
		go func(si int) {
			defer wg.Done()
			<-start
			ops[n+si], errs[n+si] = runShared(clnt, pfx, u, si, &sp.Shared[si], smodels[si])
			note(errs[n+si])
		}(si)
	}

	for wi := range sp.Writers {
		wg.Add(1)
		go func(wi int) {
			defer wg.Done()
			defer func() {
				if p := recover(); p != nil {
					errs[wi] = fmt.Errorf("%swriter %d: panic: %v", pfx, wi, p)
					note(errs[wi])
				}
			}()
			<-start
			w := &sp.Writers[wi]
			name := fmt.Sprintf("w%d", wi)
			cl := pickClient(cls, w.Conn)
			clnt, u := cl.clnt, cl.u
			fail := func(format string, a ...interface{}) {
				errs[wi] = fmt.Errorf("%swriter %d (%s on %s%s): %s", pfx, wi, w.Helper, name, cl.where(w.Conn, len(cls)), fmt.Sprintf(format, a...))
				note(errs[wi])
			}
			var file *go9p.File
			var err error
			if w.Create {
				file, err = clnt.FCreate(name, 0o644, oRDWR)
			} else {
				file, err = clnt.FOpen(name, oRDWR)
			}
			if err != nil {
				fail("open/create: %v", err)
				return
			}
			model := wmodels[wi]
			// the sequential helper starts at offset 0: bring it to the end
			// of a pre-existing file by reading through it
			if w.Helper == "write" && len(model) > 0 {
				got := make([]byte, 0, len(model))
				buf := make([]byte, u)
				for len(got) < len(model) {
					k, err := file.Read(buf)
					if err != nil || k == 0 {
						fail("File.Read while skipping the initial %d bytes: n=%d err=%v at %d", len(model), k, err, len(got))
						return
					}
					got = append(got, buf[:k]...)
					ops[wi]++
				}
				if !bytes.Equal(got, model) {
					fail("initial content read through the client differs at byte %d", firstDiff(got, model))
					return
				}
			}
			for ci, ln := range w.Lens {
				data := chunk(wi, w.Seed, ci, ln)
				off := uint64(len(model))
				rest := data
				// single-message helpers are called until the chunk is out
				for first := true; first || len(rest) > 0; first = false {
					var k int
					var err error
					exp := uint64(len(rest))
					at := off + uint64(len(data)-len(rest))
					switch w.Helper {
					case "cwrite":
						k, err = clnt.Write(file.Fid, rest, at)
						exp = umin(exp, u)
					case "write":
						k, err = file.Write(rest)
						exp = umin(exp, u)
					case "writeat":
						k, err = file.WriteAt(rest, int64(at))
						exp = umin(exp, u)
					default:
						k, err = file.Written(rest, at)
					}
					ops[wi]++
					if err != nil || uint64(k) != exp {
						fail("chunk %d (%d bytes) at offset %d: n=%d err=%v, expected n=%d", ci, len(rest), at, k, err, exp)
						return
					}
					rest = rest[k:]
				}
				model = append(model, data...)
				if w.ReadBack > 0 && (ci+1)%w.ReadBack == 0 {
					// read back the last chunk and a piece before it through the same fid
					from := off
					if from > 7 {
						from -= 7
					}
					buf := make([]byte, uint64(len(model))-from+3)
					k, err := file.Readn(buf, from)
					ops[wi]++
					expd := model[from:]
					if err != nil && !(isEOF(err) && k == len(expd)) {
						fail("Readn read-back at %d: n=%d err=%v", from, k, err)
						return
					}
					if k != len(expd) || !bytes.Equal(buf[:k], expd) {
						fail("read-back through the writing fid after chunk %d: Readn(%d bytes at %d) returned %d bytes, expected %d; first difference at byte %d%s", ci, len(buf), from, k, len(expd), firstDiff(buf[:k], expd), whose(buf[firstDiff(buf[:k], expd):k]))
						return
					}
				}
			}
			wmodels[wi] = model
			if err := file.Close(); err != nil {
				fail("Close: %v", err)
			}
		}(wi)
	}
	for ri := range sp.Readers {
		wg.Add(1)
		go func(ri int) {
			slot := len(sp.Writers) + ri
			defer wg.Done()
			defer func() {
				if p := recover(); p != nil {
					errs[slot] = fmt.Errorf("%sreader %d: panic: %v", pfx, ri, p)
					note(errs[slot])
				}
			}()
			<-start
			r := &sp.Readers[ri]
			name := fmt.Sprintf("r%d", ri)
			model := rmodels[ri]
			cl := pickClient(cls, r.Conn)
			clnt, u := cl.clnt, cl.u
			fail := func(format string, a ...interface{}) {
				errs[slot] = fmt.Errorf("%sreader %d (%s on %s%s, %d-byte file, %d-byte buffers): %s", pfx, ri, r.Helper, name, cl.where(r.Conn, len(cls)), len(model), r.Count, fmt.Sprintf(format, a...))
				note(errs[slot])
			}
			cnt := r.Count
			if cnt == 0 {
				cnt = 1
			}
			for round := 0; round < r.Rounds; round++ {
				file, err := clnt.FOpen(name, oREAD)
				if err != nil {
					fail("FOpen: %v", err)
					return
				}
				var got []byte
				buf := make([]byte, cnt)
				for uint64(len(got)) <= uint64(len(model)) {
					var k int
					var err error
					off := uint64(len(got))
					var piece []byte
					switch r.Helper {
					case "cread":
						piece, err = clnt.Read(file.Fid, off, cnt)
						k = len(piece)
					case "read":
						k, err = file.Read(buf)
						piece = buf[:max(k, 0)]
					case "readat":
						k, err = file.ReadAt(buf, int64(off))
						piece = buf[:max(k, 0)]
					default:
						k, err = file.Readn(buf, off)
						piece = buf[:max(k, 0)]
					}
					ops[slot]++
					if err != nil && !(isEOF(err) && (k == 0 || r.Helper == "readn")) {
						fail("at offset %d: n=%d err=%v", off, k, err)
						return
					}
					exp := uint64(cnt)
					if r.Helper != "readn" {
						exp = umin(exp, u)
					}
					expd := want(model, off, exp)
					if !bytes.Equal(piece, expd) {
						fail("at offset %d: got %d bytes, expected %d, first difference at byte %d", off, len(piece), len(expd), firstDiff(piece, expd))
						return
					}
					if k == 0 {
						break
					}
					got = append(got, piece...)
				}
				if !bytes.Equal(got, model) {
					fail("whole-file read returned %d bytes, file has %d", len(got), len(model))
					return
				}
				if err := file.Close(); err != nil {
					fail("Close: %v", err)
					return
				}
			}
		}(ri)
	}

	done := make(chan struct{})
	go func() { wg.Wait(); close(done) }()
	close(start)
	select {
	case <-done:
	case err := <-firstErr:
		// a violation is on record: give the others a moment, then report it
		// whether or not they come back (the goroutines may stay behind)
		select {
		case <-done:
		case <-time.After(10 * time.Second):
		}
		return err
	case <-time.After(180 * time.Second):
		// only detects a hang; the goroutines stay behind
		return fmt.Errorf("harness: concurrent case did not finish within 180 s")
	}
	total := 0
	for _, k := range ops {
		total += k
	}
	hx.Evals(total)
	hx.ExtraAdd("ops", int64(total))
	hx.ExtraAdd("concurrent_ops", int64(total))
	hx.Extra("max_goroutines_on_one_client", maxG(n))
	hx.Label(fmt.Sprintf("concurrent msize=%d", nm))
	for _, w := range sp.Writers {
		hx.Label("concurrent writer helper=" + w.Helper)
		cl := pickClient(cls, w.Conn)
		for _, ln := range w.Lens {
			hx.NonTrivial("conc", cl.nm, cl.dotu, w.Helper, gClass(n), cntClass(uint64(ln), cl.u), w.Create, w.ReadBack > 0, len(cls) > 1)
		}
		if len(cls) > 1 {
			hx.Label(fmt.Sprintf("concurrent multi-connection writer msize=%d", cl.nm))
		}
	}
	for _, r := range sp.Readers {
		hx.Label("concurrent reader helper=" + r.Helper)
		cl := pickClient(cls, r.Conn)
		hx.NonTrivial("conc", cl.nm, cl.dotu, r.Helper, gClass(n), cntClass(uint64(r.Count), cl.u), lenClass(uint64(r.Len), cl.u), len(cls) > 1)
		if len(cls) > 1 {
			hx.Label(fmt.Sprintf("concurrent multi-connection reader msize=%d", cl.nm))
		}
	}
	for si := range sp.Shared {
		sharedCoverage(nm, c.Dotu, u, &sp.Shared[si])
	}
	for i := range sp.FailedDuring {
		fc := &sp.FailedDuring[i]
		failCoverage(pickClient(cls, fc.Conn), fc, "among", duringFailed[i], n)
	}
	if len(sp.Failed) > 0 {
		hx.ExtraAdd("concurrent_cases_after_failed_calls", 1)
	}
	for _, err := range errs {
		if err != nil {
			return err
		}
	}
	for si := range sp.Shared {
		if err := sharedDisk(root, pfx, si, &sp.Shared[si], smodels[si]); err != nil {
			return err
		}
	}
	// the underlying files are exactly what their single writers wrote
	for wi := range sp.Writers {
		name := fmt.Sprintf("w%d", wi)
		b, err := os.ReadFile(filepath.Join(root, name))
		if err != nil {
			return fmt.Errorf("%sunderlying file %s: %v", pfx, name, err)
		}
		m := wmodels[wi]
		if !bytes.Equal(b, m) {
			d := firstDiff(b, m)
			// locate the chunk
			ci, pos := -1, uint64(sp.Writers[wi].InitLen)
			if sp.Writers[wi].Create {
				pos = 0
			}
			for i, ln := range sp.Writers[wi].Lens {
				if uint64(d) < pos+uint64(ln) {
					ci = i
					break
				}
				pos += uint64(ln)
			}
			return fmt.Errorf("%sunderlying file %s (single writer %d, helper %s; every call reported the full count) differs from what was written: disk length %d, expected %d, first difference at byte %d (chunk %d)%s",
				pfx, name, wi, sp.Writers[wi].Helper, len(b), len(m), d, ci, whose(b[d:]))
		}
	}
	return nil
}

// concClient is one of the connections of a concurrent case.
type concClient struct {
	clnt *go9p.Clnt
	u    uint64
	nm   uint32
	dotu bool
}

func pickClient(cls []concClient, k int) concClient {
	if k < 0 {
		k = -k
	}
	return cls[k%len(cls)]
}

func (cl concClient) where(k, n int) string {
	if n < 2 {
		return ""
	}
	return fmt.Sprintf(", connection %d with msize %d", k%n, cl.nm)
}

var maxGSeen int

func maxG(n int) int {
	if n > maxGSeen {
		maxGSeen = n
	}
	return maxGSeen
}

func gClass(n int) string {
	switch {
	case n <= 1:
		return "G=1"
	case n == 2:
		return "G=2"
	case n <= 4:
		return "G<=4"
	case n <= 8:
		return "G<=8"
	}
	return "G>8"
}
