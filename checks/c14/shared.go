package c14

// Shared-fid scenario (part of a concurrent case, see conc.go): ONE fid / one
// *go9p.File of the shared client is used by several goroutines at the same
// time, so several Twrite (and Tread) requests naming the SAME fid are in
// flight together. The file is cut into equal blocks behind a static prefix;
// every block belongs to exactly one writer goroutine and is written exactly
// once, with one of the helpers that take an explicit offset (Clnt.Write,
// File.WriteAt, File.Written — File.Write/File.Read keep a position inside the
// File and are not meant to be shared). Reader goroutines read the static
// prefix, which nobody writes, through the same fid. Because the regions are
// disjoint the expected content of every byte is fixed whatever the schedule:
//
//   - every call reports the exact count;
//   - a writer that reads one of its own blocks back through the shared fid
//     after the Rwrite arrived sees exactly that block;
//   - the prefix reads return exactly the prefix;
//   - when all goroutines are done, the file read through the shared fid and
//     the underlying file (os.ReadFile) equal prefix + all blocks.

import (
	"bytes"
	"fmt"
	"os"
	"path/filepath"
	"sync"

	"github.com/rminnich/go9p"
	"verif/internal/hx"
)

// SharedWriter is one goroutine writing its blocks through the shared fid.
type SharedWriter struct {
	Helper   string `json:"helper"`             // "cwrite", "writeat", "written"
	Down     bool   `json:"down,omitempty"`     // writes its blocks from the last to the first
	ReadBack int    `json:"readback,omitempty"` // after every ReadBack-th block read it back through the shared fid (0 = never)
	RHelper  string `json:"rhelper,omitempty"`  // "cread", "readat", "readn" for the read-back
}

// SharedReader is one goroutine reading the static prefix through the shared fid.
type SharedReader struct {
	Helper string `json:"helper"` // "cread", "readat", "readn"
	Count  uint32 `json:"count"`
	Rounds int    `json:"rounds"`
}

// Shared describes one file s<i> and the goroutines using its single fid.
type Shared struct {
	Create  bool           `json:"create"`   // FCreate through the client (then there is no prefix)
	InitLen int            `json:"init_len"` // static prefix of the pre-existing file (Create=false)
	Seed    uint64         `json:"seed"`
	Block   uint32         `json:"block"`  // block length
	Blocks  int            `json:"blocks"` // blocks per writer
	Striped bool           `json:"striped"` // writer w owns blocks w*Blocks.. (else block b of writer w is number b*G+w)
	Writers []SharedWriter `json:"writers"`
	Readers []SharedReader `json:"readers,omitempty"`
}

func (s *Shared) index(w, b int) int {
	if s.Striped {
		return w*s.Blocks + b
	}
	return b*len(s.Writers) + w
}

func (s *Shared) owner(idx int) (w, b int) {
	if s.Striped {
		return idx / s.Blocks, idx % s.Blocks
	}
	return idx % len(s.Writers), idx / len(s.Writers)
}

func (s *Shared) blockData(si, w, b int) []byte {
	return chunk(20+si*16+w, s.Seed, b, s.Block)
}

func sharedName(si int) string { return fmt.Sprintf("s%d", si) }

// sharedPrepare writes the pre-existing file and returns the content the file
// must have when every goroutine is done.
func sharedPrepare(root string, si int, s *Shared) ([]byte, error) {
	if s.Block == 0 || s.Blocks <= 0 || len(s.Writers) == 0 || len(s.Writers) > 16 {
		return nil, fmt.Errorf("harness: malformed shared-fid spec")
	}
	var model []byte
	if !s.Create {
		model = prf(s.Seed^0x5EED, s.InitLen)
		if e := os.WriteFile(filepath.Join(root, sharedName(si)), model, 0o644); e != nil {
			return nil, fmt.Errorf("harness: %v", e)
		}
	}
	pre := len(model)
	model = append(model, make([]byte, len(s.Writers)*s.Blocks*int(s.Block))...)
	for w := range s.Writers {
		for b := 0; b < s.Blocks; b++ {
			copy(model[pre+s.index(w, b)*int(s.Block):], s.blockData(si, w, b))
		}
	}
	return model, nil
}

// describe says which block byte d of the file belongs to.
func (s *Shared) describe(pre, d int) string {
	if d < pre {
		return "in the static prefix"
	}
	idx := (d - pre) / int(s.Block)
	if idx >= len(s.Writers)*s.Blocks {
		return "past the last block"
	}
	w, b := s.owner(idx)
	return fmt.Sprintf("in block %d at offset %d (block %d of writer %d, %s)", idx, pre+idx*int(s.Block), b, w, s.Writers[w].Helper)
}

// runShared opens the file once and lets the goroutines loose on that one
// File; it returns the number of checked operations.
func runShared(clnt *go9p.Clnt, pfx string, u uint64, si int, s *Shared, model []byte) (nops int, err error) {
	name := sharedName(si)
	pfx = fmt.Sprintf("%sshared fid on %s (%d writers x %d blocks of %d bytes, %d readers, prefix %d): ", pfx, name, len(s.Writers), s.Blocks, s.Block, len(s.Readers), len(model)-len(s.Writers)*s.Blocks*int(s.Block))
	defer func() {
		if p := recover(); p != nil {
			err = fmt.Errorf("%spanic: %v", pfx, p)
		}
	}()
	var file *go9p.File
	if s.Create {
		file, err = clnt.FCreate(name, 0o644, oRDWR)
	} else {
		file, err = clnt.FOpen(name, oRDWR)
	}
	if err != nil {
		return 0, fmt.Errorf("%sopen/create: %v", pfx, err)
	}
	pre := len(model) - len(s.Writers)*s.Blocks*int(s.Block)
	g := len(s.Writers) + len(s.Readers)
	errs := make([]error, g)
	ops := make([]int, g)
	var wg sync.WaitGroup
	start := make(chan struct{})

	// readAt reads exactly len(expd) bytes at off with the named helper
	// (single-message helpers are called until the range is in) and compares.
	readAt := func(helper string, off uint64, expd []byte, cnt *int) error {
		got := make([]byte, 0, len(expd))
		for len(got) < len(expd) {
			rest := uint64(len(expd) - len(got))
			at := off + uint64(len(got))
			var piece []byte
			var k int
			var err error
			exp := rest
			switch helper {
			case "cread":
				piece, err = clnt.Read(file.Fid, at, uint32(rest))
				k = len(piece)
				exp = umin(rest, u)
			case "readat":
				buf := make([]byte, rest)
				k, err = file.ReadAt(buf, int64(at))
				piece = buf[:max(k, 0)]
				exp = umin(rest, u)
			default:
				buf := make([]byte, rest)
				k, err = file.Readn(buf, at)
				piece = buf[:max(k, 0)]
			}
			*cnt++
			if err != nil {
				return fmt.Errorf("%s of %d bytes at offset %d: n=%d err=%v", helper, rest, at, k, err)
			}
			if ex := expd[len(got) : uint64(len(got))+exp]; !bytes.Equal(piece, ex) {
				d := firstDiff(piece, ex)
				return fmt.Errorf("%s of %d bytes at offset %d returned %d bytes, expected %d; first difference at byte %d of the piece%s", helper, rest, at, k, exp, d, whose(piece[min(d, len(piece)):]))
			}
			got = append(got, piece...)
		}
		return nil
	}

	for wi := range s.Writers {
		wg.Add(1)
		go func(wi int) {
			defer wg.Done()
			defer func() {
				if p := recover(); p != nil {
					errs[wi] = fmt.Errorf("%swriter %d: panic: %v", pfx, wi, p)
				}
			}()
			<-start
			w := &s.Writers[wi]
			fail := func(format string, a ...interface{}) {
				errs[wi] = fmt.Errorf("%swriter %d (%s): %s", pfx, wi, w.Helper, fmt.Sprintf(format, a...))
			}
			for j := 0; j < s.Blocks; j++ {
				b := j
				if w.Down {
					b = s.Blocks - 1 - j
				}
				data := s.blockData(si, wi, b)
				off := uint64(pre + s.index(wi, b)*int(s.Block))
				rest := data
				for len(rest) > 0 {
					var k int
					var err error
					exp := uint64(len(rest))
					at := off + uint64(len(data)-len(rest))
					switch w.Helper {
					case "cwrite":
						k, err = clnt.Write(file.Fid, rest, at)
						exp = umin(exp, u)
					case "writeat":
						k, err = file.WriteAt(rest, int64(at))
						exp = umin(exp, u)
					default:
						k, err = file.Written(rest, at)
					}
					ops[wi]++
					if err != nil || uint64(k) != exp {
						fail("block %d (%d bytes left) at offset %d: n=%d err=%v, expected n=%d", b, len(rest), at, k, err, exp)
						return
					}
					rest = rest[k:]
				}
				if w.ReadBack > 0 && (j+1)%w.ReadBack == 0 {
					if err := readAt(w.RHelper, off, data, &ops[wi]); err != nil {
						fail("read-back of its own block %d through the shared fid, after every write of the block was acknowledged with the full count: %v", b, err)
						return
					}
				}
			}
		}(wi)
	}
	for ri := range s.Readers {
		wg.Add(1)
		go func(ri int) {
			slot := len(s.Writers) + ri
			defer wg.Done()
			defer func() {
				if p := recover(); p != nil {
					errs[slot] = fmt.Errorf("%sreader %d: panic: %v", pfx, ri, p)
				}
			}()
			<-start
			r := &s.Readers[ri]
			cnt := int(r.Count)
			if cnt <= 0 {
				cnt = 1
			}
			for round := 0; round < r.Rounds; round++ {
				for off := 0; off < pre; off += cnt {
					end := min(off+cnt, pre)
					if err := readAt(r.Helper, uint64(off), model[off:end], &ops[slot]); err != nil {
						errs[slot] = fmt.Errorf("%sreader %d of the static prefix: %v", pfx, ri, err)
						return
					}
				}
			}
		}(ri)
	}
	close(start)
	wg.Wait()
	for _, k := range ops {
		nops += k
	}
	for _, e := range errs {
		if e != nil {
			return nops, e
		}
	}
	// everybody is done: the whole file through the shared fid
	buf := make([]byte, len(model)+3)
	k, e := file.Readn(buf, 0)
	nops++
	if e != nil && !(isEOF(e) && k == len(model)) {
		return nops, fmt.Errorf("%sReadn of the whole file: n=%d err=%v", pfx, k, e)
	}
	if k != len(model) || !bytes.Equal(buf[:k], model) {
		d := firstDiff(buf[:k], model)
		return nops, fmt.Errorf("%severy write reported the full count, yet the file read through the shared fid (%d bytes, expected %d) differs from what was written: first difference at byte %d, %s%s",
			pfx, k, len(model), d, s.describe(pre, d), whose(buf[min(d, k):k]))
	}
	if e := file.Close(); e != nil {
		return nops, fmt.Errorf("%sClose: %v", pfx, e)
	}
	return nops, nil
}

// sharedDisk compares the underlying file with the expected content.
func sharedDisk(root, pfx string, si int, s *Shared, model []byte) error {
	name := sharedName(si)
	b, err := os.ReadFile(filepath.Join(root, name))
	if err != nil {
		return fmt.Errorf("%sunderlying file %s: %v", pfx, name, err)
	}
	if !bytes.Equal(b, model) {
		d := firstDiff(b, model)
		pre := len(model) - len(s.Writers)*s.Blocks*int(s.Block)
		return fmt.Errorf("%sunderlying file %s (written through one shared fid by %d goroutines, disjoint blocks of %d bytes; every call reported the full count) differs from what was written: disk length %d, expected %d, first difference at byte %d, %s%s",
			pfx, name, len(s.Writers), s.Block, len(b), len(model), d, s.describe(pre, d), whose(b[min(d, len(b)):]))
	}
	return nil
}

var maxSharedSeen int

func sharedCoverage(nm uint32, dotu bool, u uint64, s *Shared) {
	hx.ExtraAdd("shared_fid_files", 1)
	if len(s.Writers) > maxSharedSeen {
		maxSharedSeen = len(s.Writers)
	}
	hx.Extra("max_writers_on_one_fid", maxSharedSeen)
	for _, w := range s.Writers {
		hx.Label("shared-fid writer helper=" + w.Helper)
		hx.NonTrivial("shared", nm, dotu, w.Helper, gClass(len(s.Writers)), cntClass(uint64(s.Block), u), s.Striped, s.Create, w.Down, w.ReadBack > 0, w.RHelper)
	}
	for _, r := range s.Readers {
		hx.Label("shared-fid reader helper=" + r.Helper)
		hx.NonTrivial("shared", nm, dotu, r.Helper, gClass(len(s.Writers)), cntClass(uint64(r.Count), u), lenClass(uint64(s.InitLen), u))
	}
}
