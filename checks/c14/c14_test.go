package c14

import (
	"encoding/json"
	"fmt"
	"os"
	"sort"
	"strconv"
	"strings"
	"testing"

	"pgregory.net/rapid"
	"verif/internal/hx"
)

func TestMain(m *testing.M) { hx.Main(m, "C14") }

// msize grid of DESIGN C14 (total message size; iounit = msize-24).
var msizeGrid = []uint32{128, 129, 256, 1000, 8192, 65536}

func sampleOf(c *Case) interface{} {
	s := *c
	if len(s.Ops) > 12 {
		s.Desc += fmt.Sprintf(" (ops truncated from %d)", len(s.Ops))
		s.Ops = s.Ops[:12]
	}
	if len(s.Files) > 8 {
		s.Desc += fmt.Sprintf(" (files truncated from %d)", len(s.Files))
		s.Files = s.Files[:8]
	}
	return s
}

// try journals, counts and executes one case.
func try(test string, c *Case) error {
	hx.Journal(test, c)
	hx.ExtraAdd("machines", 1)
	if c.Conc != nil {
		hx.Sample(test, sampleConc(c))
	} else {
		hx.Sample(test, sampleOf(c))
	}
	return RunCase(c)
}

func isHarness(err error) bool { return strings.HasPrefix(err.Error(), "harness:") }

func TestReplay(t *testing.T) {
	e, err := hx.LoadReplay()
	if e == nil {
		t.Skip("no replay file", err)
	}
	replayEnv(t, e)
}

func replayEnv(t *testing.T, e *hx.Envelope) {
	var c Case
	if err := json.Unmarshal(e.Case, &c); err != nil {
		t.Fatalf("bad case: %v", err)
	}
	err := try(e.Test, &c)
	// a concurrent case exposes a defect only in some schedules: repeat it
	for i := 0; err == nil && c.Conc != nil && i < 24; i++ {
		err = RunCase(&c)
	}
	if err != nil {
		if isHarness(err) {
			hx.Inconclusive(err.Error())
			t.Fatalf("%v", err)
		}
		hx.Violation(e.Test, &c, err.Error())
		t.Errorf("%v", err)
	}
}

func TestRegress(t *testing.T) {
	for _, e := range hx.Regressions() {
		replayEnv(t, e)
		hx.Label("regress")
	}
}

// ---------------------------------------------------------------- generator

type ghandle struct {
	file int
	mode uint8
	off  int64
}

type gen struct {
	u     int64
	lens  []int64
	hs    []ghandle
	last  int
	avoid bool // FindingReadn is listed: steer Readn away from its signature
	queue []Op // rest of a multi-step scenario (grow-then-read, fault)
	// noFaults: multi-connection cases (the write hook is per connection and
	// a healed fault would have to be attributed to one of them)
	noFaults bool
}

func clamp(v, lo, hi int64) int64 {
	if v < lo {
		return lo
	}
	if v > hi {
		return hi
	}
	return v
}

func (g *gen) lenOf(t *rapid.T, label string) int64 {
	u := g.u
	k := int64(rapid.IntRange(2, 4).Draw(t, label+"_k"))
	switch rapid.IntRange(0, 11).Draw(t, label+"_class") {
	case 0:
		return 0
	case 1:
		return 1
	case 2:
		return u - 1
	case 3:
		return u
	case 4:
		return u + 1
	case 5:
		return k*u - 1
	case 6:
		return k * u
	case 7:
		return k*u + 1
	case 8:
		return int64(rapid.IntRange(0, int(u)).Draw(t, label+"_small"))
	default:
		return int64(rapid.IntRange(0, int(5*u)).Draw(t, label+"_rand"))
	}
}

var hugeOffs = []uint64{1 << 31, 1 << 32, 1 << 40, 1 << 62, 1<<63 - 1, 1 << 63, 1<<64 - 1}

// offset for a read-like (write=false) or write-like operation on a file of length l.
func (g *gen) offOf(t *rapid.T, l int64, write bool) uint64 {
	u := g.u
	k := int64(rapid.IntRange(1, 5).Draw(t, "off_k"))
	pm := int64(rapid.IntRange(-1, 1).Draw(t, "off_pm"))
	var v int64
	switch rapid.IntRange(0, 12).Draw(t, "off_class") {
	case 0:
		v = 0
	case 1:
		v = l
	case 2:
		v = l - 1
	case 3:
		v = l + 1
	case 4:
		v = l - u + pm
	case 5:
		v = k*u + pm
	case 6:
		v = l - k*u + pm
	case 7:
		v = l + int64(rapid.IntRange(1, int(2*u)).Draw(t, "off_beyond"))
	case 8:
		if !write {
			return rapid.SampledFrom(hugeOffs).Draw(t, "off_huge")
		}
		v = l + u + pm
	case 9:
		v = int64(rapid.IntRange(0, int(u)).Draw(t, "off_small"))
	default:
		v = int64(rapid.IntRange(0, int(l)).Draw(t, "off_rand"))
	}
	hi := int64(1) << 40
	if write {
		hi = 6 * u
		if l > hi {
			hi = l
		}
	}
	return uint64(clamp(v, 0, hi))
}

func (g *gen) countOf(t *rapid.T, rem int64, maxc int64) uint32 {
	u := g.u
	var v int64
	switch rapid.IntRange(0, 13).Draw(t, "cnt_class") {
	case 0:
		v = 0
	case 1:
		v = 1
	case 2:
		v = u - 1
	case 3:
		v = u
	case 4:
		v = u + 1
	case 5:
		v = 2 * u
	case 6:
		v = 2*u + 1
	case 7:
		v = rem
	case 8:
		v = rem - 1
	case 9:
		v = rem + 1
	case 10:
		v = int64(rapid.IntRange(0, int(3*u)).Draw(t, "cnt_rand3"))
	case 11:
		v = maxc
	default:
		v = int64(rapid.IntRange(0, int(u)).Draw(t, "cnt_rand"))
	}
	return uint32(clamp(v, 0, maxc))
}

// pickHandle returns the index of an open handle that allows the operation
// (preferring the one used last, so that sequential Read/Write chains occur),
// or -1.
func (g *gen) pickHandle(t *rapid.T, write bool) int {
	ok := func(h ghandle) bool {
		if write {
			return canWrite(h.mode)
		}
		return canRead(h.mode)
	}
	var cand []int
	for i, h := range g.hs {
		if ok(h) {
			cand = append(cand, i)
		}
	}
	if len(cand) == 0 {
		return -1
	}
	if g.last < len(g.hs) && ok(g.hs[g.last]) && rapid.IntRange(0, 9).Draw(t, "same_handle") < 6 {
		return g.last
	}
	return cand[rapid.IntRange(0, len(cand)-1).Draw(t, "handle")]
}

func (g *gen) openOp(t *rapid.T, write, read bool) Op {
	fi := rapid.IntRange(0, len(g.lens)-1).Draw(t, "file")
	var mode uint8
	switch {
	case write && read:
		mode = oRDWR
	case write:
		mode = rapid.SampledFrom([]uint8{oWRITE, oRDWR}).Draw(t, "wmode")
	case read:
		mode = rapid.SampledFrom([]uint8{oREAD, oRDWR}).Draw(t, "rmode")
	default:
		mode = rapid.SampledFrom([]uint8{oREAD, oWRITE, oRDWR}).Draw(t, "mode")
	}
	if canWrite(mode) && rapid.IntRange(0, 7).Draw(t, "trunc") == 0 {
		mode |= oTRUNC
		g.lens[fi] = 0
	}
	g.hs = append(g.hs, ghandle{file: fi, mode: mode})
	g.last = len(g.hs) - 1
	return Op{Kind: "open", File: fi, Mode: mode}
}

const maxHandles = 8
const maxFiles = 8

var readKinds = []string{"cread", "read", "readat", "readn"}
var writeKinds = []string{"cwrite", "write", "writeat", "written"}

// growThenRead queues: [open a writable fid on the file] + append through it +
// read through a fid that was open before, aimed at the part just added.
// With an ORDWR reader and sameFid the append goes through the reading fid
// itself (create/open -> writes -> read-back through one fid).
func (g *gen) growThenRead(t *rapid.T) bool {
	hr := g.pickHandle(t, false)
	if hr < 0 {
		return false
	}
	u := g.u
	fi := g.hs[hr].file
	l := g.lens[fi]
	if l > 6*u {
		return false
	}
	hw := -1
	if canWrite(g.hs[hr].mode) && rapid.Bool().Draw(t, "grow_same_fid") {
		hw = hr
	} else {
		for i, h := range g.hs {
			if i != hr && h.file == fi && canWrite(h.mode) {
				hw = i
				break
			}
		}
	}
	var q []Op
	if hw < 0 {
		if len(g.hs) >= maxHandles {
			return false
		}
		mode := rapid.SampledFrom([]uint8{oWRITE, oRDWR}).Draw(t, "grow_wmode")
		g.hs = append(g.hs, ghandle{file: fi, mode: mode})
		hw = len(g.hs) - 1
		q = append(q, Op{Kind: "open", File: fi, Mode: mode})
	}
	add := rapid.SampledFrom([]int64{1, 2, u - 1, u, u + 1, 2*u + 1}).Draw(t, "grow_by")
	wk := rapid.SampledFrom([]string{"written", "cwrite", "writeat"}).Draw(t, "grow_wkind")
	n := add
	if wk != "written" && n > u {
		n = u
	}
	q = append(q, Op{Kind: wk, Handle: hw, Off: uint64(l), Count: uint32(add), Seed: rapid.Uint64().Draw(t, "grow_seed")})
	g.lens[fi] = l + n
	rk := rapid.SampledFrom([]string{"readn", "cread", "readat"}).Draw(t, "grow_rkind")
	off := rapid.SampledFrom([]int64{l, l + n - 1, l - 1, l + n/2, 0}).Draw(t, "grow_off")
	off = clamp(off, 0, l+n)
	cnt := rapid.SampledFrom([]int64{l + n - off, 1, l + n - off + 1, u}).Draw(t, "grow_cnt")
	if rk == "readn" && g.avoid && cnt > l+n-off {
		cnt = l + n - off
		hx.Excluded(FindingReadn)
	}
	q = append(q, Op{Kind: rk, Handle: hr, Off: uint64(off), Count: uint32(clamp(cnt, 0, 5*u+8))})
	g.last = hr
	g.queue = q
	return true
}

var faultKinds = []string{"unlink", "rename", "cut"}

// faultsFor lists the faults a helper can be struck by: all of them end the
// case except rename, which is healed after the call.
func faultsFor(kind string, healedOnly bool) []string {
	if healedOnly {
		return []string{"rename"}
	}
	if isWriteKind(kind) {
		return []string{"unlink", "rename", "replace", "cut"}
	}
	return faultKinds
}

var chainKinds = []string{"read", "readat", "cread", "write", "writeat", "cwrite"}

// faultScenario opens a fresh ORDWR handle and has one call struck by a fault:
//
//   - File.Readn over / File.Written of k = 2..5 iounits (+-1 byte) whose j-th
//     Tread / Twrite (j = 1..k+1) is struck, or
//   - a chain of k = 2..5 calls of one single-message helper (File.Read,
//     ReadAt, Clnt.Read, File.Write, WriteAt, Clnt.Write) walking through the
//     file piece by piece, the j-th of which is struck; the calls after it
//     follow (they run when the fault was a healed rename).
//
// With healedOnly the fault is a rename, so the case goes on afterwards.
func (g *gen) faultScenario(t *rapid.T, healedOnly bool) []Op {
	u := g.u
	var q []Op
	if len(g.hs) >= maxHandles {
		g.hs = g.hs[1:]
		q = append(q, Op{Kind: "close", Handle: 0})
	}
	if len(g.lens) == 0 {
		g.lens = append(g.lens, 0)
		g.hs = append(g.hs, ghandle{file: 0, mode: oRDWR})
		q = append(q, Op{Kind: "create", Mode: oRDWR})
	} else {
		fi := rapid.IntRange(0, len(g.lens)-1).Draw(t, "fault_file")
		g.hs = append(g.hs, ghandle{file: fi, mode: oRDWR})
		q = append(q, Op{Kind: "open", File: fi, Mode: oRDWR})
	}
	hi := len(g.hs) - 1
	g.last = hi
	fi := g.hs[hi].file
	k := int64(rapid.IntRange(2, 5).Draw(t, "fault_k"))
	d := int64(rapid.IntRange(-1, 1).Draw(t, "fault_d"))
	size := k*u + d
	fill := func() {
		if g.lens[fi] < size {
			// make the file k iounits long first
			q = append(q, Op{Kind: "written", Handle: hi, Off: uint64(g.lens[fi]), Count: uint32(size - g.lens[fi]), Seed: rapid.Uint64().Draw(t, "fault_fill")})
			g.lens[fi] = size
		}
	}
	switch rapid.IntRange(0, 3).Draw(t, "fault_shape") {
	case 0: // Written
		fault := rapid.SampledFrom(faultsFor("written", healedOnly)).Draw(t, "fault")
		off := clamp(rapid.SampledFrom([]int64{0, g.lens[fi], g.lens[fi] - 1, 1}).Draw(t, "fault_woff"), 0, 6*u)
		j := rapid.IntRange(1, int(k)+1).Draw(t, "fault_at")
		q = append(q, Op{Kind: "written", Handle: hi, Off: uint64(off), Count: uint32(size), Seed: rapid.Uint64().Draw(t, "fault_seed"), Fault: fault, FaultAt: j})
		// what the file holds if the struck piece and the ones after it are refused
		n := size
		if int64(j) <= k+1 && int64(j-1)*u < size {
			n = int64(j-1) * u
		}
		if n > 0 && off+n > g.lens[fi] {
			g.lens[fi] = off + n
		}
	case 1: // Readn
		fault := rapid.SampledFrom(faultsFor("readn", healedOnly)).Draw(t, "fault")
		fill()
		l := g.lens[fi]
		off := clamp(rapid.SampledFrom([]int64{0, 1, u - 1, l - size}).Draw(t, "fault_roff"), 0, l)
		cnt := rapid.SampledFrom([]int64{l - off, l - off + 7, size, 2*u + 1}).Draw(t, "fault_cnt")
		if g.avoid && cnt > l-off {
			cnt = l - off
			hx.Excluded(FindingReadn)
		}
		j := rapid.IntRange(1, int((l-off)/u)+2).Draw(t, "fault_at")
		q = append(q, Op{Kind: "readn", Handle: hi, Off: uint64(off), Count: uint32(clamp(cnt, 0, 8*u)), Fault: fault, FaultAt: j})
	default: // a chain of single-message calls
		kind := rapid.SampledFrom(chainKinds).Draw(t, "fault_chain_kind")
		fault := rapid.SampledFrom(faultsFor(kind, healedOnly)).Draw(t, "fault")
		piece := clamp(rapid.SampledFrom([]int64{u, u, u + 1, u - 1, 1, 2*u + 1}).Draw(t, "fault_piece"), 1, 3*u)
		eff := piece
		if eff > u {
			eff = u
		}
		j := rapid.IntRange(1, int(k)).Draw(t, "fault_at")
		if isReadKind(kind) {
			fill()
		}
		pos := int64(0) // the fresh handle's sequential position
		for i := 1; i <= int(k); i++ {
			o := Op{Kind: kind, Handle: hi, Count: uint32(piece)}
			if kind != "read" && kind != "write" {
				o.Off = uint64(pos)
			}
			if isWriteKind(kind) {
				o.Seed = rapid.Uint64().Draw(t, "fault_seed")
			}
			if i == j {
				o.Fault, o.FaultAt = fault, 1
			}
			q = append(q, o)
			if i == j {
				continue // refused: nothing moves
			}
			pos += eff
			if isWriteKind(kind) && pos > g.lens[fi] {
				g.lens[fi] = pos
			}
		}
		g.hs[hi].off = pos
	}
	return q
}

func (g *gen) op(t *rapid.T) Op {
	if len(g.queue) > 0 {
		_ = rapid.Bool().Draw(t, "queued") // a Custom generator has to consume something
		o := g.queue[0]
		g.queue = g.queue[1:]
		return o
	}
	u := g.u
	w := rapid.IntRange(0, 99).Draw(t, "what")
	if w >= 40 && w < 47 && len(g.hs) > 0 && g.growThenRead(t) {
		o := g.queue[0]
		g.queue = g.queue[1:]
		return o
	}
	if w >= 47 && w < 50 && !g.noFaults {
		// a call struck by a fault that is healed afterwards: the case goes on
		g.queue = g.faultScenario(t, true)
		o := g.queue[0]
		g.queue = g.queue[1:]
		return o
	}
	switch {
	case (len(g.hs) == 0 && len(g.lens) == 0) || (w >= 92 && len(g.hs) < maxHandles):
		if len(g.lens) == 0 || (len(g.lens) < maxFiles && rapid.IntRange(0, 5).Draw(t, "create") == 0) {
			mode := rapid.SampledFrom([]uint8{oWRITE, oRDWR}).Draw(t, "cmode")
			g.lens = append(g.lens, 0)
			g.hs = append(g.hs, ghandle{file: len(g.lens) - 1, mode: mode})
			g.last = len(g.hs) - 1
			return Op{Kind: "create", Mode: mode}
		}
		return g.openOp(t, false, false)
	case w >= 87 && len(g.hs) > 0:
		hi := rapid.IntRange(0, len(g.hs)-1).Draw(t, "close")
		g.hs = append(g.hs[:hi:hi], g.hs[hi+1:]...)
		g.last = 0
		return Op{Kind: "close", Handle: hi}
	case w < 47: // reads
		hi := g.pickHandle(t, false)
		if hi < 0 {
			if len(g.hs) >= maxHandles {
				g.hs = g.hs[1:]
				g.last = 0
				return Op{Kind: "close", Handle: 0}
			}
			return g.openOp(t, false, true)
		}
		g.last = hi
		h := &g.hs[hi]
		l := g.lens[h.file]
		kind := rapid.SampledFrom(readKinds).Draw(t, "rkind")
		o := Op{Kind: kind, Handle: hi}
		var off int64
		if kind == "read" {
			off = h.off
		} else {
			o.Off = g.offOf(t, l, false)
			if kind != "cread" && o.Off >= 1<<63 {
				o.Off = 1 << 62
			}
			if o.Off >= 1<<62 {
				off = 1 << 62
			} else {
				off = int64(o.Off)
			}
		}
		maxc := 5*u + 8
		o.Count = g.countOf(t, l-off, maxc)
		if kind == "cread" && rapid.IntRange(0, 15).Draw(t, "bigcount") == 0 {
			o.Count = rapid.SampledFrom([]uint32{1 << 16, 1 << 20, 1<<31 - 1, 1 << 31, 1<<32 - 1}).Draw(t, "cnt_big")
		}
		if kind == "readn" && g.avoid && off < l && int64(o.Count) > l-off {
			o.Count = uint32(l - off)
			hx.Excluded(FindingReadn)
		}
		if kind == "read" {
			n := int64(o.Count)
			if n > u {
				n = u
			}
			if n > l-off {
				n = l - off
			}
			if n > 0 {
				h.off += n
			}
		}
		return o
	default: // writes
		hi := g.pickHandle(t, true)
		if hi < 0 {
			if len(g.hs) >= maxHandles {
				g.hs = g.hs[1:]
				g.last = 0
				return Op{Kind: "close", Handle: 0}
			}
			return g.openOp(t, true, false)
		}
		g.last = hi
		h := &g.hs[hi]
		l := g.lens[h.file]
		kind := rapid.SampledFrom(writeKinds).Draw(t, "wkind")
		o := Op{Kind: kind, Handle: hi, Seed: rapid.Uint64().Draw(t, "wseed")}
		var off int64
		if kind == "write" {
			off = h.off
		} else {
			o.Off = g.offOf(t, l, true)
			off = int64(o.Off)
		}
		o.Count = g.countOf(t, l-off, 3*u+1)
		n := int64(o.Count)
		if kind != "written" && n > u {
			n = u
		}
		if n > 0 && off+n > l {
			g.lens[h.file] = off + n
		}
		if kind == "write" {
			h.off += n
		}
		return o
	}
}

func genCase(t *rapid.T) *Case {
	nm := rapid.SampledFrom(msizeGrid).Draw(t, "msize")
	c := &Case{ClientMsize: nm, ServerMsize: nm, Dotu: rapid.Bool().Draw(t, "dotu")}
	// which side decides the negotiated msize
	switch rapid.IntRange(0, 3).Draw(t, "decider") {
	case 0:
		c.ServerMsize = 65536
	case 1:
		c.ClientMsize = 65536
	case 2:
		c.ServerMsize = 8192 // go9p's default
		if nm > 8192 {
			c.ServerMsize = nm
		}
	}
	g := &gen{u: int64(nm) - iohdrsz, avoid: hx.IsKnown(FindingReadn)}
	nf := rapid.IntRange(1, 4).Draw(t, "nfiles")
	if rapid.IntRange(0, 19).Draw(t, "nofiles") == 19 {
		nf = 0 // everything is created through the client
	}
	for i := 0; i < nf; i++ {
		l := g.lenOf(t, "len")
		c.Files = append(c.Files, FileSpec{Len: int(l), Seed: rapid.Uint64().Draw(t, "fseed")})
		g.lens = append(g.lens, l)
	}
	// start with several handles open at once
	if len(g.lens) > 0 {
		c.Ops = rapid.SliceOfN(rapid.Custom(func(t *rapid.T) Op { return g.openOp(t, false, false) }), 0, 6).Draw(t, "initial_opens")
	}
	// drawn as a rapid slice (with a stateful element generator) so that the
	// shrinker can delete single operations
	ops := rapid.SliceOfN(rapid.Custom(func(t *rapid.T) Op { return g.op(t) }), 1, 70).Draw(t, "ops")
	c.Ops = append(c.Ops, ops...)
	c.Ops = append(c.Ops, g.queue...) // finish a scenario cut off by the slice length
	g.queue = nil
	if rapid.IntRange(0, 3).Draw(t, "fault_tail") == 3 {
		c.Ops = append(c.Ops, g.faultScenario(t, false)...)
	}
	c.FinalChunk = uint32(clamp(int64(g.countOf(t, 0, 3*g.u)), 1, 3*g.u))
	return c
}

func TestPropMachine(t *testing.T) {
	n := hx.N(600, 8000)
	if v, err := strconv.Atoi(os.Getenv("C14_N")); err == nil && v > 0 {
		n = v // development knob: number of machines per shard
	}
	hx.Check(t, "machine", n, func(t *rapid.T) {
		c := genCase(t)
		if err := try("machine", c); err != nil {
			if isHarness(err) {
				hx.Inconclusive(err.Error())
				t.Fatalf("%v", err)
			}
			hx.Failf(t, "machine", c, "%v", err)
		}
	})
}

// ---------------------------------------------------------------- concurrent

var concMsizes = []uint32{128, 256, 1048, 8192, 65536}

func genConc(t *rapid.T) *Case {
	nm := rapid.SampledFrom(concMsizes).Draw(t, "msize")
	c := &Case{ClientMsize: nm, ServerMsize: nm, Dotu: rapid.Bool().Draw(t, "dotu"), Conc: &ConcSpec{}}
	switch rapid.IntRange(0, 2).Draw(t, "decider") {
	case 0:
		c.ServerMsize = 65536
	case 1:
		c.ClientMsize = 65536
	}
	u := int64(nm) - iohdrsz
	// every second case: one or two further connections with other msizes to
	// the same server; each goroutine works over one of the connections
	us := []int64{u}
	if rapid.Bool().Draw(t, "more_conns") {
		c.ClientMsize, c.ServerMsize = nm, 65536
		for k := rapid.IntRange(1, 2).Draw(t, "nconns"); k > 0; k-- {
			var other []uint32
			for _, v := range concMsizes {
				if v != nm {
					other = append(other, v)
				}
			}
			cs := ConnSpec{ClientMsize: rapid.SampledFrom(other).Draw(t, "conn_msize"), Plain: rapid.IntRange(0, 2).Draw(t, "conn_plain") == 0}
			c.Conc.Conns = append(c.Conc.Conns, cs)
			us = append(us, int64(cs.ClientMsize)-iohdrsz)
		}
	}
	nw := rapid.IntRange(2, 16).Draw(t, "writers")
	nr := rapid.IntRange(0, 4).Draw(t, "readers")
	if len(us) > 1 && nr == 0 {
		nr = 2
	}
	nchunks := rapid.IntRange(8, 120).Draw(t, "chunks")
	u0 := u
	for i := 0; i < nw; i++ {
		wconn := 0
		if len(us) > 1 {
			wconn = rapid.IntRange(0, len(us)-1).Draw(t, "wconn")
		}
		u := us[wconn]
		// keep the volume per case bounded (about 2 MB at the largest msize)
		maxChunk := u + u/2
		if maxChunk > 6000 {
			maxChunk = 6000
		}
		lens := []int64{1, 13, u - 1, u, u + 1, maxChunk}
		w := Writer{
			Helper:   rapid.SampledFrom(writeKinds).Draw(t, "whelper"),
			Create:   rapid.Bool().Draw(t, "wcreate"),
			ReadBack: rapid.SampledFrom([]int{0, 0, 1, 3, 7}).Draw(t, "readback"),
			Seed:     rapid.Uint64().Draw(t, "wseed"),
			Conn:     wconn,
		}
		if !w.Create {
			w.InitLen = int(clamp(rapid.SampledFrom([]int64{0, 1, u - 1, u, u + 1, 2*u + 1}).Draw(t, "winit"), 0, 20000))
		}
		fixed := rapid.SampledFrom(lens).Draw(t, "wlen")
		vary := rapid.Bool().Draw(t, "wvary")
		for j := 0; j < nchunks; j++ {
			ln := fixed
			if vary {
				ln = lens[(j+i)%len(lens)]
			}
			w.Lens = append(w.Lens, uint32(clamp(ln, 1, maxChunk)))
		}
		c.Conc.Writers = append(c.Conc.Writers, w)
	}
	for i := 0; i < nr; i++ {
		rconn := 0
		if len(us) > 1 {
			rconn = rapid.IntRange(0, len(us)-1).Draw(t, "rconn")
		}
		u := us[rconn]
		c.Conc.Readers = append(c.Conc.Readers, Reader{
			Conn:   rconn,
			Len:    int(clamp(rapid.SampledFrom([]int64{0, 1, u, u + 1, 3*u + 1, 5 * u}).Draw(t, "rlen"), 0, 40000)),
			Seed:   rapid.Uint64().Draw(t, "rseed"),
			Helper: rapid.SampledFrom(readKinds).Draw(t, "rhelper"),
			Count:  uint32(clamp(rapid.SampledFrom([]int64{1, u - 1, u, u + 1, 2*u + 1}).Draw(t, "rcount"), 1, 20000)),
			Rounds: rapid.IntRange(1, 3).Draw(t, "rounds"),
		})
		r := &c.Conc.Readers[i]
		// bound the number of round trips of a reader
		if lo := uint32(r.Len/200 + 1); r.Count < lo {
			r.Count = lo
		}
	}
	// calls answered with Rerror (failed.go): before the goroutines start and,
	// by one more goroutine, while they run
	failCall := func() FailCall {
		fconn := 0
		if len(us) > 1 {
			fconn = rapid.IntRange(0, len(us)-1).Draw(t, "fconn")
		}
		u := us[fconn]
		fc := FailCall{Kind: rapid.SampledFrom(failKinds).Draw(t, "fkind"), Conn: fconn, Seed: rapid.Uint64().Draw(t, "fseed")}
		switch fc.Kind {
		case "read-wo", "read-gone":
			fc.Helper = rapid.SampledFrom(readKinds).Draw(t, "fhelper")
		case "write-ro", "write-gone":
			fc.Helper = rapid.SampledFrom(writeKinds).Draw(t, "fhelper")
		default:
			return fc
		}
		fc.Len = int(clamp(rapid.SampledFrom([]int64{0, 1, u - 1, 3*u + 1}).Draw(t, "flen"), 0, 20000))
		fc.Off = uint64(clamp(rapid.SampledFrom([]int64{0, 0, 1, u}).Draw(t, "foff"), 0, 20000))
		fc.Count = uint32(clamp(rapid.SampledFrom([]int64{1, u, u + 1, 2*u + 1}).Draw(t, "fcount"), 1, 20000))
		return fc
	}
	for k := rapid.SampledFrom([]int{0, 1, 1, 2, 3, 6}).Draw(t, "failed_before"); k > 0; k-- {
		c.Conc.Failed = append(c.Conc.Failed, failCall())
	}
	for k := rapid.SampledFrom([]int{0, 0, 1, 2, 3}).Draw(t, "failed_during"); k > 0; k-- {
		c.Conc.FailedDuring = append(c.Conc.FailedDuring, failCall())
	}
	if len(c.Conc.FailedDuring) > 0 {
		c.Conc.FailRounds = rapid.IntRange(1, 30).Draw(t, "fail_rounds")
	}
	// files whose single fid is used by several goroutines at once (shared.go);
	// they live on the case's own client
	u = u0
	maxChunk := u + u/2
	if maxChunk > 6000 {
		maxChunk = 6000
	}
	ns := rapid.SampledFrom([]int{0, 1, 1, 1, 2, 3}).Draw(t, "shared")
	for i := 0; i < ns; i++ {
		s := Shared{
			Create:  rapid.Bool().Draw(t, "screate"),
			Seed:    rapid.Uint64().Draw(t, "sseed"),
			Striped: rapid.Bool().Draw(t, "sstriped"),
			Block:   uint32(clamp(rapid.SampledFrom([]int64{1, 13, 512, u - 1, u, u + 1, maxChunk}).Draw(t, "sblock"), 1, maxChunk)),
		}
		if !s.Create {
			s.InitLen = int(clamp(rapid.SampledFrom([]int64{0, 1, u - 1, u + 1, 2*u + 1, 3 * u}).Draw(t, "sinit"), 0, 20000))
		}
		g := rapid.IntRange(2, 8).Draw(t, "swriters")
		// bound the volume per file (about 1 MB) but keep enough blocks per
		// writer for the requests of different goroutines to overlap
		s.Blocks = int(clamp(int64(rapid.IntRange(8, 64).Draw(t, "sblocks")), 4, max(4, (1<<20)/(int64(g)*int64(s.Block)))))
		for j := 0; j < g; j++ {
			w := SharedWriter{
				Helper:   rapid.SampledFrom(sharedWriteKinds).Draw(t, "swhelper"),
				Down:     rapid.Bool().Draw(t, "sdown"),
				ReadBack: rapid.SampledFrom([]int{0, 0, 1, 3}).Draw(t, "sreadback"),
			}
			if w.ReadBack > 0 {
				w.RHelper = rapid.SampledFrom(sharedReadKinds).Draw(t, "srhelper")
			}
			s.Writers = append(s.Writers, w)
		}
		if s.InitLen > 0 {
			for j := rapid.IntRange(0, 2).Draw(t, "sreaders"); j > 0; j-- {
				r := SharedReader{
					Helper: rapid.SampledFrom(sharedReadKinds).Draw(t, "srdhelper"),
					Count:  uint32(clamp(rapid.SampledFrom([]int64{1, u - 1, u, u + 1, 2*u + 1}).Draw(t, "srcount"), 1, 20000)),
					Rounds: rapid.IntRange(1, 3).Draw(t, "srounds"),
				}
				if lo := uint32(s.InitLen/200 + 1); r.Count < lo {
					r.Count = lo
				}
				s.Readers = append(s.Readers, r)
			}
		}
		c.Conc.Shared = append(c.Conc.Shared, s)
	}
	return c
}

// helpers that take an explicit offset and keep no position in the File: the
// only ones several goroutines may call on one File at the same time
var sharedWriteKinds = []string{"cwrite", "writeat", "written"}
var sharedReadKinds = []string{"cread", "readat", "readn"}

func sampleConc(c *Case) interface{} {
	s := *c
	sp := *c.Conc
	sp.Writers = append([]Writer(nil), sp.Writers...)
	for i := range sp.Writers {
		if len(sp.Writers[i].Lens) > 6 {
			sp.Writers[i].Lens = sp.Writers[i].Lens[:6]
		}
	}
	s.Conc = &sp
	nch := 0
	if len(c.Conc.Writers) > 0 {
		nch = len(c.Conc.Writers[0].Lens)
	}
	s.Desc = fmt.Sprintf("%d writers x %d chunks (lens truncated to 6), %d readers, %d files with a shared fid, %d failing calls before and %d x %d among the goroutines", len(c.Conc.Writers), nch, len(c.Conc.Readers), len(c.Conc.Shared), len(c.Conc.Failed), len(c.Conc.FailedDuring), c.Conc.FailRounds)
	return s
}

// TestPropConcurrent: several goroutines share one client; every file has a
// single writer, so the verdict does not depend on the schedule.
func TestPropConcurrent(t *testing.T) {
	hx.Check(t, "concurrent", hx.N(25, 300), func(t *rapid.T) {
		c := genConc(t)
		hx.Journal("concurrent", c)
		hx.ExtraAdd("concurrent_cases", 1)
		hx.Sample("concurrent", sampleConc(c))
		if err := RunCase(c); err != nil {
			if isHarness(err) {
				hx.Inconclusive(err.Error())
				t.Fatalf("%v", err)
			}
			hx.Failf(t, "concurrent", c, "%v", err)
		}
	})
}

// ---------------------------------------------------------------- enumeration

func dedupe(v []int64) []int64 {
	sort.Slice(v, func(i, j int) bool { return v[i] < v[j] })
	out := v[:0]
	for i, x := range v {
		if x < 0 || (i > 0 && x == v[i-1]) {
			continue
		}
		out = append(out, x)
	}
	return out
}

// TestEnumBoundary enumerates, at the two smallest msizes and both dialects,
// every combination of boundary file length x boundary offset x boundary
// count for each read helper, and boundary length x offset x count for each
// write helper (each write on a fresh file), plus all pairs of consecutive
// File.Write sizes.
func TestEnumBoundary(t *testing.T) {
	msizes := []uint32{128, 129}
	if hx.Thorough() {
		msizes = append(msizes, 256)
	}
	avoid := hx.IsKnown(FindingReadn)
	fails := 0
	run := func(c *Case) {
		if err := try("enum", c); err != nil {
			if isHarness(err) {
				hx.Inconclusive(err.Error())
				t.Fatalf("%v", err)
			}
			fails++
			if fails <= 2 {
				hx.Violation("enum", c, err.Error())
				t.Errorf("%s: %v", c.Desc, err)
			}
		}
	}
	idx := 0
	mine := func() bool {
		idx++
		return hx.NShards <= 1 || idx%hx.NShards == hx.Shard
	}
	for _, nm := range msizes {
		u := int64(nm) - iohdrsz
		for _, dotu := range []bool{false, true} {
			// reads
			for _, l := range []int64{0, 1, u - 1, u, u + 1, 2*u - 1, 2 * u, 2*u + 1, 3*u + 1} {
				if !mine() {
					continue
				}
				c := &Case{ClientMsize: nm, ServerMsize: 65536, Dotu: dotu, FinalChunk: uint32(u + 1),
					Files: []FileSpec{{Len: int(l), Seed: uint64(l)*977 + uint64(nm)}},
					Desc:  fmt.Sprintf("enum reads msize=%d dotu=%v len=%d", nm, dotu, l)}
				c.Ops = append(c.Ops, Op{Kind: "open", File: 0, Mode: oREAD})
				offs := dedupe([]int64{0, 1, u - 1, u, u + 1, 2 * u, l - 1, l, l + 1, l - u, l + u})
				for _, kind := range []string{"cread", "readat", "readn"} {
					for _, off := range offs {
						rem := l - off
						for _, cnt := range dedupe([]int64{0, 1, u - 1, u, u + 1, 2*u + 1, 3*u + 2, rem - 1, rem, rem + 1}) {
							if kind == "readn" && avoid && off < l && cnt > rem {
								hx.Excluded(FindingReadn)
								continue
							}
							c.Ops = append(c.Ops, Op{Kind: kind, Handle: 0, Off: uint64(off), Count: uint32(cnt)})
						}
					}
				}
				// sequential File.Read with every buffer size until past EOF
				for _, cnt := range dedupe([]int64{0, 1, 2, u - 1, u, u + 1, 2*u + 1, l - 1, l, l + 1}) {
					c.Ops = append(c.Ops, Op{Kind: "open", File: 0, Mode: oREAD}) // handle 1
					step := cnt
					if step > u {
						step = u
					}
					rounds := int64(2)
					if step > 0 {
						rounds = l/step + 3
					}
					for i := int64(0); i < rounds; i++ {
						c.Ops = append(c.Ops, Op{Kind: "read", Handle: 1, Count: uint32(cnt)})
					}
					c.Ops = append(c.Ops, Op{Kind: "close", Handle: 1})
				}
				run(c)
			}
			// reads through fids that were opened BEFORE the file grew: through
			// another fid (h0 reads, h1 appends) and through the extending fid
			// itself; then create -> write -> read back through one ORDWR fid
			for _, l := range []int64{0, 1, u, u + 1} {
				for _, add := range []int64{1, u, 2*u + 17} {
					if !mine() {
						continue
					}
					c := &Case{ClientMsize: nm, ServerMsize: nm, Dotu: dotu, FinalChunk: uint32(u),
						Files: []FileSpec{{Len: int(l), Seed: uint64(l*131+add) + 5}},
						Desc:  fmt.Sprintf("enum grow msize=%d dotu=%v len=%d add=%d", nm, dotu, l, add)}
					c.Ops = append(c.Ops,
						Op{Kind: "open", File: 0, Mode: oREAD},                         // h0, opened at length l
						Op{Kind: "open", File: 0, Mode: oREAD},                         // h1, sequential reader opened at length l
						Op{Kind: "open", File: 0, Mode: oRDWR},                         // h2, the writer
						Op{Kind: "cread", Handle: 0, Off: uint64(l), Count: uint32(u)}, // EOF for now
						Op{Kind: "written", Handle: 2, Off: uint64(l), Count: uint32(add), Seed: uint64(add) * 7})
					nl := l + add
					for _, kind := range []string{"cread", "readat", "readn"} {
						for _, hd := range []int{0, 2} {
							for _, off := range dedupe([]int64{0, l - 1, l, l + 1, nl - 1, nl}) {
								for _, cnt := range dedupe([]int64{1, u, nl - off, nl - off + 1}) {
									if kind == "readn" && avoid && off < nl && cnt > nl-off {
										hx.Excluded(FindingReadn)
										continue
									}
									c.Ops = append(c.Ops, Op{Kind: kind, Handle: hd, Off: uint64(off), Count: uint32(cnt)})
								}
							}
						}
					}
					for i := int64(0); i < nl/u+3; i++ {
						c.Ops = append(c.Ops, Op{Kind: "read", Handle: 1, Count: uint32(u + 1)})
					}
					// second growth, written piecewise through h2, read again through the old fids
					c.Ops = append(c.Ops,
						Op{Kind: "cwrite", Handle: 2, Off: uint64(nl), Count: 3, Seed: 11},
						Op{Kind: "writeat", Handle: 2, Off: uint64(nl + 3), Count: uint32(u), Seed: 12},
						Op{Kind: "readn", Handle: 0, Off: 0, Count: uint32(nl + 3 + u)},
						Op{Kind: "readn", Handle: 2, Off: uint64(nl), Count: uint32(3 + u)},
						Op{Kind: "read", Handle: 1, Count: uint32(u)},
						Op{Kind: "read", Handle: 1, Count: uint32(u)},
						// created, written and read back through one fid
						Op{Kind: "create", Mode: oRDWR}, // h3
						Op{Kind: "written", Handle: 3, Off: 0, Count: uint32(add), Seed: 13},
						Op{Kind: "readn", Handle: 3, Off: 0, Count: uint32(add)},
						Op{Kind: "write", Handle: 3, Count: uint32(u), Seed: 14},
						Op{Kind: "write", Handle: 3, Count: 5, Seed: 15},
						Op{Kind: "readat", Handle: 3, Off: uint64(u), Count: 5},
						Op{Kind: "cread", Handle: 3, Off: 0, Count: uint32(u)},
						Op{Kind: "read", Handle: 3, Count: 1})
					run(c)
				}
			}
			// faults: Readn / Written over k iounits (+-1) whose j-th piece fails
			for k := int64(2); k <= 5; k++ {
				for _, d := range []int64{-1, 0, 1} {
					for _, fault := range faultsFor("written", false) {
						for j := 2; j <= int(k)+1; j++ {
							if !mine() {
								continue
							}
							size := k*u + d
							rc := &Case{ClientMsize: nm, ServerMsize: 65536, Dotu: dotu, FinalChunk: uint32(u),
								Files: []FileSpec{{Len: int(size), Seed: uint64(size) + 3}},
								Desc:  fmt.Sprintf("enum fault readn msize=%d dotu=%v len=%dU%+d %s before Tread #%d", nm, dotu, k, d, fault, j)}
							cnt := size + 3
							if avoid {
								cnt = size
								hx.Excluded(FindingReadn)
							}
							rc.Ops = append(rc.Ops, Op{Kind: "open", File: 0, Mode: oREAD},
								Op{Kind: "readn", Handle: 0, Off: 0, Count: uint32(cnt), Fault: fault, FaultAt: j},
								// reached when the fault was healed (rename) or never fired
								Op{Kind: "readn", Handle: 0, Off: 0, Count: uint32(size)},
								Op{Kind: "read", Handle: 0, Count: uint32(u)})
							if fault != "replace" {
								run(rc)
							}
							if j > int(k) && d <= 0 {
								continue // Written over k*U+d bytes sends no (k+1)-th Twrite
							}
							wc := &Case{ClientMsize: 65536, ServerMsize: nm, Dotu: dotu, FinalChunk: uint32(u),
								Files: []FileSpec{{Len: 1, Seed: 9}},
								Desc:  fmt.Sprintf("enum fault written msize=%d dotu=%v %dU%+d bytes %s before Twrite #%d", nm, dotu, k, d, fault, j)}
							wc.Ops = append(wc.Ops, Op{Kind: "open", File: 0, Mode: oRDWR},
								Op{Kind: "written", Handle: 0, Off: 1, Count: uint32(size), Seed: uint64(size) * 5, Fault: fault, FaultAt: j},
								// reached when the fault was healed (rename) or never fired
								Op{Kind: "readn", Handle: 0, Off: 0, Count: uint32(size + 1)},
								Op{Kind: "written", Handle: 0, Off: uint64(u), Count: uint32(2*u + 1), Seed: 77})
							run(wc)
						}
					}
				}
			}
			// faults on the j-th call of a chain of single-message helper calls
			for _, kind := range chainKinds {
				for _, fault := range faultsFor(kind, false) {
					for _, piece := range []int64{u, u + 1, 7} {
						for j := 1; j <= 3; j++ {
							if !mine() {
								continue
							}
							eff := piece
							if eff > u {
								eff = u
							}
							c := &Case{ClientMsize: nm, ServerMsize: 65536, Dotu: dotu, FinalChunk: uint32(u),
								Files: []FileSpec{{Len: int(3*u + 1), Seed: uint64(piece) + 21}},
								Desc:  fmt.Sprintf("enum fault chain %s msize=%d dotu=%v pieces of %d: %s at call #%d", kind, nm, dotu, piece, fault, j)}
							c.Ops = append(c.Ops, Op{Kind: "open", File: 0, Mode: oRDWR})
							pos := int64(0)
							for i := 1; i <= 4; i++ {
								o := Op{Kind: kind, Handle: 0, Count: uint32(piece), Seed: uint64(i) * 1009}
								if kind != "read" && kind != "write" {
									o.Off = uint64(pos)
								}
								if i == j {
									o.Fault, o.FaultAt = fault, 1
								} else {
									pos += eff
								}
								c.Ops = append(c.Ops, o)
							}
							c.Ops = append(c.Ops, Op{Kind: "readn", Handle: 0, Off: 0, Count: uint32(3*u + 1)})
							run(c)
						}
					}
				}
			}
			// writes: one fresh file per (offset, count)
			for _, l := range []int64{0, 1, u - 1, u, u + 1, 2*u + 1} {
				for _, kind := range []string{"cwrite", "writeat", "written"} {
					if !mine() {
						continue
					}
					c := &Case{ClientMsize: 65536, ServerMsize: nm, Dotu: dotu, FinalChunk: uint32(u),
						Desc: fmt.Sprintf("enum %s msize=%d dotu=%v len=%d", kind, nm, dotu, l)}
					for _, off := range dedupe([]int64{0, 1, l - 1, l, l + 1, l + u, u - 1, u, u + 1}) {
						for _, cnt := range []int64{0, 1, u - 1, u, u + 1, 2*u + 1} {
							fi := len(c.Files)
							c.Files = append(c.Files, FileSpec{Len: int(l), Seed: uint64(fi) + 1})
							mode := uint8(oWRITE)
							if (off+cnt)%2 == 1 {
								mode = oRDWR
							}
							c.Ops = append(c.Ops, Op{Kind: "open", File: fi, Mode: mode},
								Op{Kind: kind, Handle: 0, Off: uint64(off), Count: uint32(cnt), Seed: uint64(off*1000003 + cnt)},
								Op{Kind: "close", Handle: 0})
						}
					}
					run(c)
				}
				// consecutive File.Write pairs
				if !mine() {
					continue
				}
				c := &Case{ClientMsize: nm, ServerMsize: nm, Dotu: dotu, FinalChunk: uint32(2*u + 1),
					Desc: fmt.Sprintf("enum write pairs msize=%d dotu=%v len=%d", nm, dotu, l)}
				cnts := []int64{0, 1, u - 1, u, u + 1, 2*u + 1}
				for _, c1 := range cnts {
					for _, c2 := range cnts {
						fi := len(c.Files)
						c.Files = append(c.Files, FileSpec{Len: int(l), Seed: uint64(fi) + 7})
						c.Ops = append(c.Ops, Op{Kind: "open", File: fi, Mode: oRDWR},
							Op{Kind: "write", Handle: 0, Count: uint32(c1), Seed: uint64(c1*31 + c2)},
							Op{Kind: "write", Handle: 0, Count: uint32(c2), Seed: uint64(c1*37 + c2 + 1)},
							Op{Kind: "read", Handle: 0, Count: uint32(u)},
							Op{Kind: "write", Handle: 0, Count: 3, Seed: 99},
							Op{Kind: "close", Handle: 0})
					}
				}
				run(c)
			}
		}
	}
	if fails > 2 {
		t.Errorf("... and %d more failing enumerated cases", fails-2)
	}
	hx.Exhaustive("msize 128 and 129 (thorough: and 256) x both dialects: file lengths {0,1,U-1,U,U+1,2U-1,2U,2U+1,3U+1} x offsets {0,1,U-1,U,U+1,2U,L-1,L,L+1,L-U,L+U} x counts {0,1,U-1,U,U+1,2U+1,3U+2,rem-1,rem,rem+1} for Clnt.Read, File.ReadAt, File.Readn; sequential File.Read to EOF with 10 buffer sizes; Clnt.Write, File.WriteAt, File.Written on fresh files of lengths {0,1,U-1,U,U+1,2U+1} x 9 offsets x 6 counts; all 36 pairs of consecutive File.Write sizes; grow scenarios: lengths {0,1,U,U+1} x growth {1,U,2U+17}: reads by all helpers at offsets around the old and the new end through a fid opened before another fid extended the file, through the extending fid, and create->write->read-back through one ORDWR fid; faults: Readn of a k*U+d byte file and Written of k*U+d bytes (k=2..5, d=-1,0,1) x {unlink, rename (healed after the call, the case goes on), cut; Written also: replaced by a directory} exactly before the j-th Tread/Twrite, j=2..k+1; chains of four calls of File.Read/ReadAt/Clnt.Read/File.Write/WriteAt/Clnt.Write with pieces of {U, U+1, 7} bytes whose j-th call (j=1..3) is struck by each fault; the count reported by a write helper, with or without an error, is compared with the host file read through a descriptor opened before the call")
}
