// C14 — file data read and written through client and Ufs is exact.
//
// The executor: a Case is a configuration (client/server msize, dialect), a
// set of initial files and a list of operations. RunCase builds the files in a
// fresh scratch directory under /tmp, exports it with an in-process Ufs,
// mounts it with the go9p client over an xport pair and runs the operations
// against a byte-slice model per file. Expected values come only from the model
// and from os.ReadFile of the underlying path. A case with Conns mounts several
// clients, with different msizes / dialects, on the SAME Ufs and spreads the
// operations over them (multi.go).
package c14

import (
	"bytes"
	"errors"
	"fmt"
	"io"
	"os"
	"path/filepath"
	"strings"

	"github.com/rminnich/go9p"
	"verif/internal/hx"
	"verif/internal/ufsrv"
	"verif/internal/xport"
)

// FindingReadn is the id of the listed-finding signature for DESIGN D16:
// File.Readn returns (0, io.EOF) instead of the bytes read when the buffer
// extends past end of file and at least one byte is available.
const FindingReadn = "readn-eof-drops-count"

const iohdrsz = 24 // 9P: size[4] type[1] tag[2] fid[4] offset[8] count[4] = 23 for Twrite; go9p reserves 24

// 9P open modes (from open(5), not from go9p).
const (
	oREAD  = 0
	oWRITE = 1
	oRDWR  = 2
	oTRUNC = 0x10
)

type FileSpec struct {
	Len  int    `json:"len"`
	Seed uint64 `json:"seed"`
}

// Op is one step. Handle indexes the list of currently open handles (taken
// modulo its length), File indexes the list of files that exist.
//
//	open     File Mode            clnt.FOpen(name, Mode)            (Mode may carry OTRUNC)
//	create   Mode                 clnt.FCreate(new name, 0644, Mode)
//	close    Handle               file.Close()
//	cread    Handle Off Count     clnt.Read(fid, Off, Count)
//	read     Handle Count         file.Read(buf[Count])
//	readat   Handle Off Count     file.ReadAt(buf[Count], Off)
//	readn    Handle Off Count     file.Readn(buf[Count], Off)
//	cwrite   Handle Off Count Seed  clnt.Write(fid, data, Off)
//	write    Handle Count Seed      file.Write(data)
//	writeat  Handle Off Count Seed  file.WriteAt(data, Off)
//	written  Handle Off Count Seed  file.Written(data, Off)
//	disconnect                    the current connection is unmounted (its handles are gone); the next
//	                              operation naming it mounts it again on a NEW connection to the same server
//
// Conn selects the connection of a multi-connection case (Case.Conns), taken
// modulo their number; a connection is mounted when an operation first names it.
type Op struct {
	Kind   string `json:"kind"`
	Conn   int    `json:"conn,omitempty"`
	File   int    `json:"file,omitempty"`
	Handle int    `json:"handle,omitempty"`
	Mode   uint8  `json:"mode,omitempty"`
	Off    uint64 `json:"off,omitempty"`
	Count  uint32 `json:"count,omitempty"`
	Seed   uint64 `json:"seed,omitempty"`
	// Fault (any read or write helper): "unlink", "rename", "replace" (the host
	// file is removed / renamed and renamed back after the call / replaced by a
	// directory; replace for write helpers only) or "cut" (the transport is
	// closed) exactly before the FaultAt-th Tread / Twrite frame of this call is
	// written by the client. unlink, replace and cut end the case when they
	// fire; after rename it goes on. See fault.go.
	Fault   string `json:"fault,omitempty"`
	FaultAt int    `json:"fault_at,omitempty"`
}

// ConnSpec is one connection of a case in which ONE Ufs serves several
// connections (multi.go).
type ConnSpec struct {
	ClientMsize uint32 `json:"client_msize"`    // total msize this client proposes
	Plain       bool   `json:"plain,omitempty"` // this client asks for 9P2000 (else 9P2000.u)
}

type Case struct {
	ClientMsize uint32     `json:"client_msize"` // total msize the client proposes (MountConn gets this minus 24)
	ServerMsize uint32     `json:"server_msize"`
	Dotu        bool       `json:"dotu"`            // server Dotu; the client asks for 9P2000.u unless its ConnSpec says Plain
	Conns       []ConnSpec `json:"conns,omitempty"` // several connections to the one server; empty = one connection proposing ClientMsize
	Files       []FileSpec `json:"files"`
	Ops         []Op       `json:"ops"`
	FinalChunk  uint32     `json:"final_chunk"`    // buffer size of the closing sequential whole-file read
	Conc        *ConcSpec  `json:"conc,omitempty"` // concurrent scenario (Files/Ops unused), see conc.go
	Desc        string     `json:"desc,omitempty"`
}

// prf expands a seed into n bytes (splitmix64 stream).
func prf(seed uint64, n int) []byte {
	b := make([]byte, n)
	x := seed
	for i := 0; i < n; i += 8 {
		x += 0x9E3779B97F4A7C15
		z := x
		z = (z ^ (z >> 30)) * 0xBF58476D1CE4E5B9
		z = (z ^ (z >> 27)) * 0x94D049BB133111EB
		z ^= z >> 31
		for j := 0; j < 8 && i+j < n; j++ {
			b[i+j] = byte(z >> (8 * uint(j)))
		}
	}
	return b
}

func fname(i int) string { return fmt.Sprintf("f%d", i) }

func umin(a, b uint64) uint64 {
	if a < b {
		return a
	}
	return b
}

// want returns the bytes a read of count bytes at off must produce.
func want(model []byte, off uint64, count uint64) []byte {
	l := uint64(len(model))
	if off >= l {
		return nil
	}
	return model[off : off+umin(count, l-off)]
}

func mwrite(m []byte, off uint64, d []byte) []byte {
	if len(d) == 0 {
		return m
	}
	end := off + uint64(len(d))
	if end > uint64(len(m)) {
		m = append(m, make([]byte, end-uint64(len(m)))...)
	}
	copy(m[off:], d)
	return m
}

func firstDiff(a, b []byte) int {
	n := len(a)
	if len(b) < n {
		n = len(b)
	}
	for i := 0; i < n; i++ {
		if a[i] != b[i] {
			return i
		}
	}
	return n
}

func show(b []byte) string {
	if len(b) > 12 {
		return fmt.Sprintf("%x…(%d bytes)", b[:12], len(b))
	}
	return fmt.Sprintf("%x", b)
}

// ---- classes (computed from actual values, so replays classify identically)

func lenClass(l, u uint64) string {
	switch {
	case l == 0:
		return "0"
	case l == 1:
		return "1"
	case l == u-1:
		return "U-1"
	case l == u:
		return "U"
	case l == u+1:
		return "U+1"
	case l < u:
		return "<U"
	case l%u == 0:
		return "kU"
	case l%u == 1:
		return "kU+1"
	case l%u == u-1:
		return "kU-1"
	}
	return "other"
}

func offClass(off, l, u uint64) string {
	switch {
	case off >= 1<<31:
		return "huge"
	case off == l:
		return "L"
	case off == l+1:
		return "L+1"
	case off > l:
		return ">L"
	case off == 0:
		return "0"
	case off+1 == l:
		return "L-1"
	case off%u == 0:
		return "kU"
	case off%u == 1:
		return "kU+1"
	case off%u == u-1:
		return "kU-1"
	}
	return "<L"
}

func cntClass(n, u uint64) string {
	switch {
	case n == 0:
		return "0"
	case n == 1:
		return "1"
	case n == u-1:
		return "U-1"
	case n == u:
		return "U"
	case n == u+1:
		return "U+1"
	case n < u:
		return "<U"
	case n > 4*u:
		return ">4U"
	}
	return ">U"
}

func endClass(off, n, l uint64) string {
	end := off + n
	if end < off {
		return ">L"
	}
	switch {
	case end == l:
		return "=L"
	case end+1 == l:
		return "L-1"
	case end == l+1:
		return "L+1"
	case end < l:
		return "<L"
	}
	return ">L"
}

// nonTrivial: the operation needs more than one message or a clamp
// (count > iounit), crosses a multiple of iounit, or touches / passes EOF.
func nonTrivial(off, n, l, u uint64) bool {
	if n > u {
		return true
	}
	end := off + n
	if end < off || end >= l {
		return true
	}
	if n > 0 && off/u != (end-1)/u {
		return true
	}
	return false
}

// ---- executor

type handle struct {
	f      *go9p.File
	file   int
	mode   uint8
	off    uint64
	atOpen uint64 // length of the file when this fid was opened / created
	wrote  bool   // this fid has itself extended the file since
	chain  int    // data calls made through this handle so far
}

type held struct {
	got  []byte
	copy []byte
	op   int
}

// connState is one connection of the case; the runner's clnt/end/u/nm/dotu/hs
// fields always describe the connection of the operation being executed.
type connState struct {
	spec   ConnSpec
	clnt   *go9p.Clnt
	end    *xport.End
	hs     []*handle
	mounts int
}

type runner struct {
	c      *Case
	root   string
	srv    *go9p.Ufs
	conns  []*connState
	cur    int
	prev   int // connection of the previous checked operation (-1: none yet)
	clnt   *go9p.Clnt
	end    *xport.End // the client's end of the transport
	u      uint64     // iounit of the negotiated msize
	nm     uint32
	dotu   bool // negotiated dialect of the current connection
	models [][]byte
	hs     []*handle
	held   []held
	nops   int
	opi    int
	test   string
}

func (r *runner) path(i int) string { return filepath.Join(r.root, fname(i)) }

func (r *runner) errf(format string, args ...interface{}) error {
	var op string
	if r.opi >= 0 && r.opi < len(r.c.Ops) {
		o := r.c.Ops[r.opi]
		switch o.Kind {
		case "open", "create":
			op = fmt.Sprintf("op#%d %s file=%d mode=%#x: ", r.opi, o.Kind, o.File, o.Mode)
		default:
			op = fmt.Sprintf("op#%d %s handle=%d off=%d count=%d: ", r.opi, o.Kind, o.Handle, o.Off, o.Count)
		}
	}
	where := ""
	if len(r.conns) > 1 {
		var ms []string
		for _, cs := range r.conns {
			ms = append(ms, fmt.Sprint(negotiated(cs.spec.ClientMsize, r.c.ServerMsize)))
		}
		where = fmt.Sprintf("connection %d of %d to one server (negotiated msizes %s) ", r.cur, len(r.conns), strings.Join(ms, "/"))
	}
	return fmt.Errorf("%smsize=%d iounit=%d dotu=%v %s%s", where, r.nm, r.u, r.dotu, op, fmt.Sprintf(format, args...))
}

// checkDisk compares the underlying file with the model.
func (r *runner) checkDisk(i int, when string) error {
	b, err := os.ReadFile(r.path(i))
	if err != nil {
		return r.errf("%s: underlying file %s: %v", when, fname(i), err)
	}
	m := r.models[i]
	if !bytes.Equal(b, m) {
		d := firstDiff(b, m)
		return r.errf("%s: underlying file %s differs from what was written: disk length %d, expected length %d, first difference at byte %d (disk %s, expected %s)",
			when, fname(i), len(b), len(m), d, show(b[d:]), show(m[d:]))
	}
	return nil
}

// grown classifies a read through a fid that was opened before the file
// reached its present length and that touches the part added since.
func grown(h *handle, kind string, off, n, l uint64) string {
	switch kind {
	case "cread", "read", "readat", "readn":
	default:
		return ""
	}
	if l <= h.atOpen || off >= l || n == 0 || off+n <= h.atOpen {
		return ""
	}
	at := "across the old end"
	if off >= h.atOpen {
		at = "beyond the old end"
	}
	if h.wrote {
		return "read through the fid that extended the file, " + at
	}
	return "read through a fid opened before another fid extended the file, " + at
}

func (r *runner) classify(h *handle, kind string, off, n uint64, l uint64) {
	hx.Eval() // one evaluation per checked operation
	h.chain++
	hx.Label(fmt.Sprintf("op=%s msize=%d", kind, r.nm))
	g := grown(h, kind, off, n, l)
	if g != "" {
		hx.Label(g)
		hx.NonTrivial(r.nm, r.dotu, lenClass(l, r.u), kind, g, lenClass(h.atOpen, r.u), cntClass(n, r.u), endClass(off, n, l))
	}
	if nonTrivial(off, n, l, r.u) {
		hx.NonTrivial(r.nm, r.dotu, lenClass(l, r.u), kind, offClass(off, l, r.u), cntClass(n, r.u), endClass(off, n, l))
		hx.ExtraAdd("nontrivial_ops", 1)
	}
	if len(r.conns) > 1 {
		r.classifyMulti(kind, n)
	}
}

// osReadErrs reports whether the operating system itself refuses a read at
// this offset (pread beyond the maximum file offset): then an error reply is
// also "no data".
func (r *runner) osReadErrs(i int, off uint64) bool {
	if off >= 1<<63 {
		return true
	}
	f, err := os.Open(r.path(i))
	if err != nil {
		return false
	}
	defer f.Close()
	var b [1]byte
	_, err = f.ReadAt(b[:], int64(off))
	return err != nil && err != io.EOF
}

func isEOF(err error) bool { return err == io.EOF || errors.Is(err, io.EOF) }

// sharedLog is handed to every Ufs started by this package: Srv.Start would
// otherwise create a Logger (one goroutine that never exits plus a 1024-entry
// ring) per server, i.e. per case.
var sharedLog = go9p.NewLogger(64)

// startUfs is ufsrv.Start with the shared logger.
func startUfs(root string, dotu bool, msize uint32) *go9p.Ufs {
	ufsrv.Silence()
	u := new(go9p.Ufs)
	u.Dotu = dotu
	u.Id = "ufs"
	u.Root = root
	u.Msize = msize
	u.Log = sharedLog
	if !u.Start(u) {
		panic("c14: Ufs.Start failed")
	}
	return u
}

// RunCase executes the case; a non-nil error is a violation of the property
// (or "harness:" trouble, which the callers report as inconclusive).
func RunCase(c *Case) (err error) {
	defer func() {
		if p := recover(); p != nil {
			err = fmt.Errorf("panic in the calling goroutine: %v", p)
		}
	}()
	if c.ClientMsize < 64 || c.ServerMsize < 64 {
		return fmt.Errorf("harness: msize below 64 is outside this check's grid")
	}
	if c.Conc != nil {
		return runConc(c)
	}
	root, e := os.MkdirTemp("", "c14-")
	if e != nil {
		return fmt.Errorf("harness: %v", e)
	}
	defer os.RemoveAll(root)
	r := &runner{c: c, root: root, opi: -1, prev: -1}
	for i, fs := range c.Files {
		b := prf(fs.Seed, fs.Len)
		if e := os.WriteFile(r.path(i), b, 0o644); e != nil {
			return fmt.Errorf("harness: %v", e)
		}
		r.models = append(r.models, b)
	}
	specs := c.Conns
	if len(specs) == 0 {
		specs = []ConnSpec{{ClientMsize: c.ClientMsize}}
	}
	for _, sp := range specs {
		if sp.ClientMsize < 64 {
			return fmt.Errorf("harness: msize below 64 is outside this check's grid")
		}
		r.conns = append(r.conns, &connState{spec: sp})
	}
	r.srv = startUfs(root, c.Dotu, c.ServerMsize)
	defer func() {
		for _, cs := range r.conns {
			if cs.clnt != nil {
				cs.clnt.Unmount()
				cs.end.Close()
			}
		}
	}()
	// a single-connection case mounts at once; the connections of a
	// multi-connection case are mounted when an operation first names them
	if len(r.conns) == 1 {
		if err := r.use(0); err != nil {
			return err
		}
		for _, m := range r.models {
			hx.Label("initial length " + lenClass(uint64(len(m)), r.u))
		}
	} else {
		hx.ExtraAdd("multi_connection_cases", 1)
	}

	for i := range c.Ops {
		r.opi = i
		if err := r.step(&c.Ops[i]); err != nil {
			if err == errFaultFired {
				// the file or the connection is gone: the case ends here
				hx.ExtraAdd("ops", int64(r.nops+1))
				return nil
			}
			return err
		}
		r.nops++
	}
	r.opi = -1
	hx.ExtraAdd("ops", int64(r.nops))
	if len(r.conns) > 1 {
		return r.finishMulti()
	}

	// every slice handed out by Clnt.Read must still hold what it held
	for _, h := range r.held {
		if !bytes.Equal(h.got, h.copy) {
			return r.errf("data returned by Clnt.Read in op#%d changed afterwards (first difference at byte %d)", h.op, firstDiff(h.got, h.copy))
		}
	}
	if err := r.finalReads(r.clnt); err != nil {
		return err
	}
	for _, h := range r.hs {
		if e := h.f.Close(); e != nil {
			return r.errf("Close of a handle on %s at the end: %v", fname(h.file), e)
		}
	}
	return nil
}

// finalReads: the underlying files are what the model says, and a sequential
// whole-file read through a fresh handle of the current connection reproduces
// them.
func (r *runner) finalReads(clnt *go9p.Clnt) error {
	c := r.c
	chunk := c.FinalChunk
	if chunk == 0 {
		chunk = 1
	}
	for i := range r.models {
		if err := r.checkDisk(i, "at the end"); err != nil {
			return err
		}
		f, e := clnt.FOpen(fname(i), oREAD)
		if e != nil {
			return r.errf("final FOpen(%s): %v", fname(i), e)
		}
		var all []byte
		// bound the number of round trips: at most ~130 reads per file
		eff := chunk
		per := 128
		if len(r.conns) > 1 {
			per = 24 // every connection reads every file
		}
		if lo := uint32(len(r.models[i])/per + 1); eff < lo {
			eff = lo
		}
		buf := make([]byte, eff)
		for rounds := 0; ; rounds++ {
			n, e := f.Read(buf)
			if n < 0 || n > len(buf) {
				return r.errf("final sequential read of %s: File.Read returned n=%d for a %d-byte buffer", fname(i), n, len(buf))
			}
			all = append(all, buf[:n]...)
			if e != nil && !isEOF(e) {
				return r.errf("final sequential read of %s: %v", fname(i), e)
			}
			if n == 0 {
				break
			}
			if len(all) > len(r.models[i])+int(eff) {
				break
			}
		}
		if !bytes.Equal(all, r.models[i]) {
			d := firstDiff(all, r.models[i])
			return r.errf("final sequential read of %s with %d-byte buffers: got %d bytes, file has %d, first difference at byte %d", fname(i), eff, len(all), len(r.models[i]), d)
		}
		if e := f.Close(); e != nil {
			return r.errf("final Close(%s): %v", fname(i), e)
		}
	}
	return nil
}

var maxOpenSeen int

func maxOpen(n int) int {
	if n > maxOpenSeen {
		maxOpenSeen = n
	}
	return maxOpenSeen
}

func canRead(m uint8) bool  { return m&3 == oREAD || m&3 == oRDWR }
func canWrite(m uint8) bool { return m&3 == oWRITE || m&3 == oRDWR }

func (r *runner) step(o *Op) error {
	if err := r.use(o.Conn); err != nil {
		return err
	}
	switch o.Kind {
	case "disconnect":
		if len(r.conns) < 2 {
			hx.ExtraAdd("skipped_ops", 1)
			return nil
		}
		r.disconnect()
		return nil
	case "open":
		if len(r.models) == 0 {
			hx.ExtraAdd("skipped_ops", 1)
			return nil
		}
		fi := o.File % len(r.models)
		if o.Mode&oTRUNC != 0 && !canWrite(o.Mode) {
			hx.ExtraAdd("skipped_ops", 1)
			return nil
		}
		f, e := r.clnt.FOpen(fname(fi), o.Mode)
		if e != nil {
			return r.errf("FOpen(%s, %#x): %v", fname(fi), o.Mode, e)
		}
		if uint64(f.Fid.Iounit) != r.u {
			return r.errf("Fid.Iounit is %d after open, expected msize-24 = %d", f.Fid.Iounit, r.u)
		}
		hd := &handle{f: f, file: fi, mode: o.Mode, atOpen: uint64(len(r.models[fi]))}
		if o.Mode&oTRUNC != 0 {
			hd.atOpen = 0
		}
		r.hs = append(r.hs, hd)
		hx.Extra("max_open_handles", maxOpen(len(r.hs)))
		hx.Label("op=open")
		if o.Mode&oTRUNC != 0 {
			hx.Label("op=open+OTRUNC")
			r.models[fi] = r.models[fi][:0:0]
			return r.checkDisk(fi, "after open with OTRUNC")
		}
		return nil
	case "create":
		if !canWrite(o.Mode) || o.Mode&^3 != 0 {
			hx.ExtraAdd("skipped_ops", 1)
			return nil
		}
		fi := len(r.models)
		f, e := r.clnt.FCreate(fname(fi), 0o644, o.Mode)
		if e != nil {
			return r.errf("FCreate(%s): %v", fname(fi), e)
		}
		if uint64(f.Fid.Iounit) != r.u {
			return r.errf("Fid.Iounit is %d after create, expected msize-24 = %d", f.Fid.Iounit, r.u)
		}
		r.models = append(r.models, nil)
		r.hs = append(r.hs, &handle{f: f, file: fi, mode: o.Mode})
		hx.Extra("max_open_handles", maxOpen(len(r.hs)))
		hx.Label("op=create")
		return r.checkDisk(fi, "after create")
	}
	if len(r.hs) == 0 {
		hx.ExtraAdd("skipped_ops", 1)
		return nil
	}
	hi := o.Handle % len(r.hs)
	h := r.hs[hi]
	m := r.models[h.file]
	l := uint64(len(m))
	cnt := uint64(o.Count)
	switch o.Kind {
	case "close":
		if e := h.f.Close(); e != nil {
			return r.errf("Close: %v", e)
		}
		r.hs = append(r.hs[:hi:hi], r.hs[hi+1:]...)
		hx.Label("op=close")
		return nil

	case "cread":
		if !canRead(h.mode) {
			break
		}
		if o.Fault != "" {
			return r.faultStep(o, h)
		}
		r.classify(h, o.Kind, o.Off, cnt, l)
		exp := want(m, o.Off, umin(cnt, r.u))
		got, e := r.clnt.Read(h.f.Fid, o.Off, o.Count)
		if e != nil {
			if len(exp) == 0 && len(got) == 0 && o.Off >= 1<<62 && r.osReadErrs(h.file, o.Off) {
				hx.Label("read refused by the OS at a huge offset")
				return nil
			}
			return r.errf("Clnt.Read: %v (expected %d bytes)", e, len(exp))
		}
		if !bytes.Equal(got, exp) {
			return r.errf("Clnt.Read returned %d bytes %s, expected %d bytes %s (file length %d, first difference at %d)", len(got), show(got), len(exp), show(exp), l, firstDiff(got, exp))
		}
		if len(got) > 0 {
			r.held = append(r.held, held{got, append([]byte(nil), got...), r.opi})
		}
		return nil

	case "read", "readat":
		if !canRead(h.mode) {
			break
		}
		off := o.Off
		if o.Kind == "read" {
			off = h.off
		} else if off >= 1<<63 {
			break // not expressible as int64
		}
		if o.Fault != "" {
			return r.faultStep(o, h)
		}
		r.classify(h, o.Kind, off, cnt, l)
		exp := want(m, off, umin(cnt, r.u))
		buf := make([]byte, o.Count)
		var n int
		var e error
		if o.Kind == "read" {
			n, e = h.f.Read(buf)
		} else {
			n, e = h.f.ReadAt(buf, int64(off))
		}
		name := "File." + map[string]string{"read": "Read", "readat": "ReadAt"}[o.Kind]
		if e != nil && !isEOF(e) {
			if n == 0 && len(exp) == 0 && off >= 1<<62 && r.osReadErrs(h.file, off) {
				hx.Label("read refused by the OS at a huge offset")
				return nil
			}
			return r.errf("%s at offset %d: n=%d err=%v (expected %d bytes)", name, off, n, e, len(exp))
		}
		if n != len(exp) {
			return r.errf("%s at offset %d with a %d-byte buffer returned n=%d err=%v, expected %d (file length %d)", name, off, len(buf), n, e, len(exp), l)
		}
		if !bytes.Equal(buf[:n], exp) {
			return r.errf("%s at offset %d: data differs at byte %d: got %s expected %s", name, off, firstDiff(buf[:n], exp), show(buf[:n]), show(exp))
		}
		if e != nil && n != 0 {
			return r.errf("%s returned %d bytes together with %v", name, n, e)
		}
		if e != nil && off < l {
			hx.Label("zero-length " + o.Kind + " before EOF reported io.EOF (accepted)")
		}
		if o.Kind == "read" {
			h.off += uint64(n)
		}
		return nil

	case "readn":
		if !canRead(h.mode) {
			break
		}
		if o.Fault != "" {
			return r.faultStep(o, h)
		}
		r.classify(h, o.Kind, o.Off, cnt, l)
		exp := want(m, o.Off, cnt)
		buf := make([]byte, o.Count)
		n, e := h.f.Readn(buf, o.Off)
		if n != len(exp) {
			if n == 0 && isEOF(e) && len(exp) > 0 && uint64(len(exp)) < cnt {
				// DESIGN D16
				detail := r.errf("File.Readn with a %d-byte buffer at offset %d of a %d-byte file returned (0, %v) instead of %d bytes", len(buf), o.Off, l, e, len(exp)).Error()
				if hx.IsKnown(FindingReadn) {
					hx.Known(FindingReadn, detail)
					return nil
				}
				return fmt.Errorf("[%s] %s", FindingReadn, detail)
			}
			return r.errf("File.Readn with a %d-byte buffer at offset %d returned n=%d err=%v, expected %d (file length %d)", len(buf), o.Off, n, e, len(exp), l)
		}
		if !bytes.Equal(buf[:n], exp) {
			return r.errf("File.Readn at offset %d: data differs at byte %d: got %s expected %s", o.Off, firstDiff(buf[:n], exp), show(buf[:n]), show(exp))
		}
		if e != nil {
			if isEOF(e) && uint64(n) < cnt {
				hx.Label("Readn short with io.EOF")
				return nil
			}
			if n == 0 && o.Off >= 1<<62 && r.osReadErrs(h.file, o.Off) {
				hx.Label("read refused by the OS at a huge offset")
				return nil
			}
			return r.errf("File.Readn returned the right %d bytes together with error %v", n, e)
		}
		return nil

	case "cwrite", "write", "writeat", "written":
		if !canWrite(h.mode) {
			break
		}
		if o.Fault != "" {
			return r.faultStep(o, h)
		}
		off := o.Off
		if o.Kind == "write" {
			off = h.off
		}
		if off >= 1<<40 {
			break // outside the grid: would create absurd sparse files
		}
		r.classify(h, o.Kind, off, cnt, l)
		data := prf(o.Seed, int(o.Count))
		keep := append([]byte(nil), data...)
		expN := umin(cnt, r.u)
		var n int
		var e error
		switch o.Kind {
		case "cwrite":
			n, e = r.clnt.Write(h.f.Fid, data, off)
		case "write":
			n, e = h.f.Write(data)
		case "writeat":
			n, e = h.f.WriteAt(data, int64(off))
		case "written":
			n, e = h.f.Written(data, off)
			expN = cnt
		}
		if e != nil {
			return r.errf("%s at offset %d of %d bytes: n=%d err=%v", o.Kind, off, len(data), n, e)
		}
		if uint64(n) != expN {
			return r.errf("%s at offset %d of %d bytes reported n=%d, expected %d", o.Kind, off, len(data), n, expN)
		}
		if !bytes.Equal(data, keep) {
			return r.errf("%s modified the caller's buffer", o.Kind)
		}
		r.models[h.file] = mwrite(m, off, data[:expN])
		if uint64(len(r.models[h.file])) > l {
			h.wrote = true
		}
		if o.Kind == "write" {
			h.off += expN
		}
		return r.checkDisk(h.file, "after "+o.Kind)

	default:
		return fmt.Errorf("harness: unknown op kind %q", o.Kind)
	}
	hx.ExtraAdd("skipped_ops", 1)
	return nil
}
