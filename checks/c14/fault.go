package c14

// Fault injection for the multi-message helpers (File.Readn, File.Written):
// exactly before the client writes the j-th Tread / Twrite frame of the call,
// the harness removes or renames the file on the host (Ufs lstat()s the path on
// every request, so that request is answered with Rerror) or closes the
// transport. Oracle, only what the statement supports: a helper that reports
// success (nil error, or io.EOF from Readn) must have transferred exactly
// min(len(buf), filelen-offset) bytes — per the model at the start of the call
// — with the right content; an error, with any count, is fine.

import (
	"bytes"
	"errors"
	"fmt"
	"os"
	"sync/atomic"
	"time"

	"verif/internal/hx"
	"verif/internal/ref9p"
)

var errFaultFired = errors.New("fault fired: the case ends")

func (r *runner) faultStep(o *Op, h *handle) error {
	m := r.models[h.file]
	l := uint64(len(m))
	cnt := uint64(o.Count)
	path := r.path(h.file)
	moved := path + ".moved"
	wantType := uint8(ref9p.Tread)
	if o.Kind == "written" {
		wantType = ref9p.Twrite
	}
	var seen, fired int32
	r.end.SetWriteHook(func(p []byte) {
		msg, _, err := ref9p.Decode(p, r.dotu)
		if err != nil || msg.Type != wantType {
			return
		}
		if int(atomic.AddInt32(&seen, 1)) != o.FaultAt {
			return
		}
		atomic.StoreInt32(&fired, 1)
		switch o.Fault {
		case "unlink":
			_ = os.Remove(path)
		case "rename":
			_ = os.Rename(path, moved)
		case "cut":
			r.end.Close()
		}
	})
	defer r.end.SetWriteHook(nil)

	hx.Eval()
	type result struct {
		n   int
		err error
	}
	var buf, data []byte
	done := make(chan result, 1)
	if o.Kind == "readn" {
		buf = make([]byte, o.Count)
		go func() {
			n, err := h.f.Readn(buf, o.Off)
			done <- result{n, err}
		}()
	} else {
		data = prf(o.Seed, int(o.Count))
		go func() {
			n, err := h.f.Written(data, o.Off)
			done <- result{n, err}
		}()
	}
	var res result
	select {
	case res = <-done:
	case <-time.After(60 * time.Second):
		return fmt.Errorf("harness: %s with fault %s before piece %d did not return within 60 s (a hang after a failure is C10's subject)", o.Kind, o.Fault, o.FaultAt)
	}
	r.end.SetWriteHook(nil)
	didFire := atomic.LoadInt32(&fired) != 0
	pieces := atomic.LoadInt32(&seen)
	n, e := res.n, res.err
	outcome := "not reached"
	if didFire {
		outcome = "reported as an error"
		if e == nil || isEOF(e) {
			outcome = "call still succeeded in full"
		}
	}
	hx.Label(fmt.Sprintf("fault %s %s: %s", o.Kind, o.Fault, outcome))
	hx.NonTrivial("fault", r.nm, r.dotu, o.Kind, o.Fault, o.FaultAt, lenClass(l, r.u), cntClass(cnt, r.u), outcome)
	what := ""
	if didFire {
		what = fmt.Sprintf(" (fault: %s exactly before %s #%d of this call; %d such requests were sent)", o.Fault, ref9p.TypeName(wantType), o.FaultAt, pieces)
	}

	if o.Kind == "readn" {
		exp := want(m, o.Off, cnt)
		if n < 0 || n > len(buf) {
			return r.errf("File.Readn returned n=%d for a %d-byte buffer%s", n, len(buf), what)
		}
		if e != nil && !isEOF(e) {
			if !didFire {
				return r.errf("File.Readn: n=%d err=%v (expected %d bytes, no fault was injected)", n, e, len(exp))
			}
			return errFaultFired // an error, with any count, is fine
		}
		// success reported
		if n != len(exp) {
			return r.errf("File.Readn with a %d-byte buffer at offset %d of a %d-byte file reported success (n=%d, err=%v) with fewer bytes than the %d that exist up to end of file%s", len(buf), o.Off, l, n, e, len(exp), what)
		}
		if !bytes.Equal(buf[:n], exp) {
			return r.errf("File.Readn at offset %d: data differs at byte %d%s", o.Off, firstDiff(buf[:n], exp), what)
		}
		if isEOF(e) && uint64(n) == cnt {
			return r.errf("File.Readn filled the whole buffer and returned io.EOF%s", what)
		}
		if didFire {
			return errFaultFired
		}
		return nil
	}

	// written
	if e != nil {
		if !didFire {
			return r.errf("File.Written at offset %d of %d bytes: n=%d err=%v (no fault was injected)", o.Off, cnt, n, e)
		}
		return errFaultFired
	}
	if uint64(n) != cnt {
		return r.errf("File.Written at offset %d of %d bytes reported success (n=%d, err=nil) with fewer bytes than requested%s", o.Off, cnt, n, what)
	}
	newm := mwrite(m, o.Off, data)
	if !didFire {
		r.models[h.file] = newm
		if uint64(len(newm)) > l {
			h.wrote = true
		}
		return r.checkDisk(h.file, "after written")
	}
	if o.Fault == "rename" {
		// the data went through the open descriptor: the renamed file must hold it
		b, err := os.ReadFile(moved)
		if err != nil {
			return r.errf("renamed underlying file: %v", err)
		}
		if !bytes.Equal(b, newm) {
			return r.errf("File.Written reported success but the (renamed) underlying file differs: disk length %d, expected %d, first difference at byte %d%s", len(b), len(newm), firstDiff(b, newm), what)
		}
	}
	return errFaultFired
}
