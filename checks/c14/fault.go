package c14

// Fault injection for the File helpers and Clnt.Read / Clnt.Write: exactly
// before the client writes the j-th Tread / Twrite frame of ONE call, the
// harness
//
//	unlink   removes the file's name on the host,
//	rename   renames the file on the host (and renames it back when the call
//	         has returned: the case goes on),
//	replace  removes the name and makes a directory of that name (write
//	         helpers only),
//	cut      closes the transport.
//
// Ufs lstat()s the fid's path on every request, so with unlink / rename that
// request is answered with Rerror; with cut the frame is never sent. In every
// kind the struck request does NOT reach the file, and all earlier requests of
// the call were acknowledged before it was issued: how many bytes the call
// transferred is therefore determined, whatever the helper reports.
//
// Oracle (the harness keeps its own descriptor on the host file, opened before
// the call, and looks at the file through it whatever became of the name):
//
//   - write helpers: 0 <= n <= len(data) and the file on the host is exactly
//     old content + data[:n] at the offset — with or without an error the
//     count reported is the number of bytes the file received, no more and no
//     less ("transfer and report exactly the bytes"); with a nil error n is
//     the full count of the helper;
//   - read helpers: a call that reports success (nil, or io.EOF) has
//     transferred exactly min(len(buf), filelen-offset) bytes (one iounit at
//     most for the single-message helpers) with the right content; a call
//     that reports an error may report no count (go9p documents "the number
//     of bytes read, or an Error"), but a count it does report stands for
//     bytes of the file: buf[:n] equals the file at the offset;
//   - File.Read / File.Write advance the sequential offset by the count they
//     reported (seen by the following sequential calls on the same handle).
//
// unlink, replace and cut end the case when they fire; after rename the model
// takes the bytes the file was verified to hold and the case continues.

import (
	"bytes"
	"errors"
	"fmt"
	"io"
	"os"
	"sync/atomic"
	"time"

	"verif/internal/hx"
	"verif/internal/ref9p"
)

var errFaultFired = errors.New("fault fired: the case ends")

func isReadKind(k string) bool {
	switch k {
	case "cread", "read", "readat", "readn":
		return true
	}
	return false
}

func isWriteKind(k string) bool {
	switch k {
	case "cwrite", "write", "writeat", "written":
		return true
	}
	return false
}

// hostContent reads the whole file through the harness's own descriptor.
func hostContent(f *os.File) ([]byte, error) {
	st, err := f.Stat()
	if err != nil {
		return nil, err
	}
	b := make([]byte, st.Size())
	n, err := f.ReadAt(b, 0)
	if err != nil && err != io.EOF {
		return nil, err
	}
	return b[:n], nil
}

func (r *runner) faultStep(o *Op, h *handle) error {
	m := r.models[h.file]
	l := uint64(len(m))
	cnt := uint64(o.Count)
	path := r.path(h.file)
	moved := path + ".moved"
	reading := isReadKind(o.Kind)
	if !reading && !isWriteKind(o.Kind) {
		return fmt.Errorf("harness: fault on op kind %q", o.Kind)
	}
	if reading && o.Fault == "replace" {
		return fmt.Errorf("harness: fault %q on a read is outside this check's grid (Ufs would serve the directory)", o.Fault)
	}
	switch o.Fault {
	case "unlink", "rename", "replace", "cut":
	default:
		return fmt.Errorf("harness: unknown fault %q", o.Fault)
	}
	off := o.Off
	if o.Kind == "read" || o.Kind == "write" {
		off = h.off
	}
	if off >= 1<<40 {
		hx.ExtraAdd("skipped_ops", 1)
		return nil
	}
	host, herr := os.Open(path)
	if herr != nil {
		return fmt.Errorf("harness: %v", herr)
	}
	defer host.Close()

	wantType := uint8(ref9p.Tread)
	if !reading {
		wantType = ref9p.Twrite
	}
	var seen, fired int32
	r.end.SetWriteHook(func(p []byte) {
		msg, _, err := ref9p.Decode(p, r.dotu)
		if err != nil || msg.Type != wantType {
			return
		}
		if int(atomic.AddInt32(&seen, 1)) != o.FaultAt {
			return
		}
		atomic.StoreInt32(&fired, 1)
		switch o.Fault {
		case "unlink":
			_ = os.Remove(path)
		case "rename":
			_ = os.Rename(path, moved)
		case "replace":
			_ = os.Remove(path)
			_ = os.Mkdir(path, 0o755)
		case "cut":
			r.end.Close()
		}
	})
	defer r.end.SetWriteHook(nil)

	hx.Eval()
	defer func() { h.chain++ }()
	type result struct {
		n   int
		err error
	}
	var buf, data, keep []byte
	done := make(chan result, 1)
	if reading {
		bl := uint64(o.Count)
		if o.Kind == "cread" && bl > r.u+8 {
			bl = r.u + 8 // Clnt.Read returns its own slice; more than an iounit is reported as too long
		}
		if bl > 1<<24 {
			return fmt.Errorf("harness: fault on a read with a %d-byte buffer is outside the grid", bl)
		}
		buf = make([]byte, bl)
	} else {
		data = prf(o.Seed, int(o.Count))
		keep = append([]byte(nil), data...)
	}
	f, clnt := h.f, r.clnt
	go func() {
		var n int
		var err error
		switch o.Kind {
		case "cread":
			var b []byte
			b, err = clnt.Read(f.Fid, off, o.Count)
			n = copy(buf, b)
			if len(b) > len(buf) {
				n = len(b) // reported as too long below
			}
		case "read":
			n, err = f.Read(buf)
		case "readat":
			n, err = f.ReadAt(buf, int64(off))
		case "readn":
			n, err = f.Readn(buf, off)
		case "cwrite":
			n, err = clnt.Write(f.Fid, data, off)
		case "write":
			n, err = f.Write(data)
		case "writeat":
			n, err = f.WriteAt(data, int64(off))
		case "written":
			n, err = f.Written(data, off)
		}
		done <- result{n, err}
	}()
	var res result
	select {
	case res = <-done:
	case <-time.After(60 * time.Second):
		return fmt.Errorf("harness: %s with fault %s before piece %d did not return within 60 s (a hang after a failure is C10's subject)", o.Kind, o.Fault, o.FaultAt)
	}
	r.end.SetWriteHook(nil)
	didFire := atomic.LoadInt32(&fired) != 0
	pieces := atomic.LoadInt32(&seen)
	n, e := res.n, res.err
	if didFire && o.Fault == "rename" {
		// heal: the name is back before anything else happens
		if err := os.Rename(moved, path); err != nil {
			return fmt.Errorf("harness: %v", err)
		}
	}
	outcome := "not reached"
	if didFire {
		switch {
		case e == nil || isEOF(e):
			outcome = "call still succeeded in full"
		case n == 0:
			outcome = "reported as an error, count 0"
		default:
			outcome = "reported as an error with the count so far"
		}
	}
	at := "first piece"
	if o.FaultAt > 1 {
		at = "later piece"
	} else if h.chain > 0 {
		at = "first piece of a later call on the handle"
	}
	hx.Label(fmt.Sprintf("fault %s %s at a %s: %s", o.Kind, o.Fault, at, outcome))
	hx.NonTrivial("fault", r.nm, r.dotu, o.Kind, o.Fault, o.FaultAt, lenClass(l, r.u), offClass(off, l, r.u), cntClass(cnt, r.u), outcome)
	if didFire {
		hx.ExtraAdd("faults_fired", 1)
		if o.FaultAt > 1 || h.chain > 0 {
			hx.ExtraAdd("faults_fired_after_the_first_piece", 1)
		}
	}
	what := ""
	if didFire {
		what = fmt.Sprintf(" (fault: %s exactly before %s #%d of this call; %d such requests were sent; the struck request never reached the file)", o.Fault, ref9p.TypeName(wantType), o.FaultAt, pieces)
	}
	name := map[string]string{"cread": "Clnt.Read", "read": "File.Read", "readat": "File.ReadAt", "readn": "File.Readn",
		"cwrite": "Clnt.Write", "write": "File.Write", "writeat": "File.WriteAt", "written": "File.Written"}[o.Kind]
	after := func() error {
		if !didFire {
			return nil
		}
		if o.Fault == "rename" {
			hx.Label("fault healed, case continues")
			return nil
		}
		return errFaultFired
	}

	if reading {
		full := cnt
		if o.Kind != "readn" {
			full = umin(cnt, r.u)
		}
		exp := want(m, off, full)
		if n < 0 || n > len(buf) {
			return r.errf("%s returned n=%d for a %d-byte buffer%s", name, n, len(buf), what)
		}
		if e != nil && !isEOF(e) {
			if !didFire {
				if n == 0 && len(exp) == 0 && off >= 1<<62 && r.osReadErrs(h.file, off) {
					return nil
				}
				return r.errf("%s: n=%d err=%v (expected %d bytes, no fault was injected)", name, n, e, len(exp))
			}
			// an error: no count is owed, but a count that is reported stands for bytes of the file
			if n > len(exp) || !bytes.Equal(buf[:n], exp[:n]) {
				return r.errf("%s at offset %d of a %d-byte file returned n=%d together with %v, but the %d bytes it reports are not the file's bytes at that offset (first difference at byte %d)%s", name, off, l, n, e, n, firstDiff(buf[:n], exp), what)
			}
			if o.Kind == "read" {
				h.off += uint64(n)
			}
			return after()
		}
		// success reported
		if n != len(exp) {
			return r.errf("%s with a %d-byte buffer at offset %d of a %d-byte file reported success (n=%d, err=%v) with fewer bytes than the %d that exist up to end of file%s", name, len(buf), off, l, n, e, len(exp), what)
		}
		if !bytes.Equal(buf[:n], exp) {
			return r.errf("%s at offset %d: data differs at byte %d%s", name, off, firstDiff(buf[:n], exp), what)
		}
		if isEOF(e) && o.Kind == "readn" && uint64(n) == cnt && cnt > 0 {
			return r.errf("File.Readn filled the whole buffer and returned io.EOF%s", what)
		}
		if isEOF(e) && o.Kind != "readn" && n != 0 {
			return r.errf("%s returned %d bytes together with %v%s", name, n, e, what)
		}
		if o.Kind == "read" {
			h.off += uint64(n)
		}
		return after()
	}

	// write helpers
	full := cnt
	if o.Kind != "written" {
		full = umin(cnt, r.u)
	}
	if e != nil && !didFire {
		return r.errf("%s at offset %d of %d bytes: n=%d err=%v (no fault was injected)", name, off, cnt, n, e)
	}
	if n < 0 || uint64(n) > cnt {
		return r.errf("%s of %d bytes reported n=%d (err=%v)%s", name, cnt, n, e, what)
	}
	if e == nil && uint64(n) != full {
		return r.errf("%s at offset %d of %d bytes reported success (n=%d, err=nil), expected n=%d%s", name, off, cnt, n, full, what)
	}
	if !bytes.Equal(data, keep) {
		return r.errf("%s modified the caller's buffer%s", name, what)
	}
	disk, herr := hostContent(host)
	if herr != nil {
		return fmt.Errorf("harness: %v", herr)
	}
	newm := mwrite(append([]byte(nil), m...), off, data[:n])
	if !bytes.Equal(disk, newm) {
		// how many bytes of this call's data did the file receive?
		rec := 0
		for rec < len(data) && off+uint64(rec) < uint64(len(disk)) && disk[off+uint64(rec)] == data[rec] {
			rec++
		}
		return r.errf("%s of %d bytes at offset %d reported n=%d (err=%v), but the underlying file (read through a descriptor the harness opened before the call) holds %d bytes of this call's data at that offset: file length %d, expected %d for the reported count, first difference at byte %d%s",
			name, cnt, off, n, e, rec, len(disk), len(newm), firstDiff(disk, newm), what)
	}
	r.models[h.file] = newm
	if uint64(len(newm)) > l {
		h.wrote = true
	}
	if o.Kind == "write" {
		h.off += uint64(n)
	}
	if !didFire {
		return r.checkDisk(h.file, "after "+o.Kind)
	}
	return after()
}
