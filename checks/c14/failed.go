package c14

// Calls that the server answers with Rerror, made on the clients of a
// concurrent case (conc.go) BEFORE the goroutines start (ConcSpec.Failed) and
// by one more goroutine WHILE they run (ConcSpec.FailedDuring): reads through
// a fid opened write-only, writes through a fid opened read-only, reads and
// writes through a fid whose file was removed on the host after the open, and
// the open of a name that does not exist. The statement quantifies over every
// sequence of operations on "many files open at once": what a client did
// before — including calls that failed — must not change a byte of what the
// later, healthy calls transfer. So the verdict on the concurrent phase is the
// usual one (every count, every read-back, every underlying file against its
// single writer's model); the failed calls themselves are judged only by what
// the statement says about data:
//
//   - a read helper that reports success has returned exactly the file's bytes
//     (the harness does not insist that the call fails);
//   - after a write helper returned (n, err) the file on the host — read
//     through a descriptor the harness opened before the call — is exactly
//     old content + data[:n] at the offset; with a nil error n is the full
//     count of the helper.
//
// Every call works on a file of its own (x<i> / y<i>), written on the host
// just before the call.

import (
	"bytes"
	"fmt"
	"os"
	"path/filepath"

	"verif/internal/hx"
)

// FailCall is one call that is expected to be answered with Rerror.
type FailCall struct {
	Kind   string `json:"kind"`   // "read-wo", "write-ro", "read-gone", "write-gone", "open-missing"
	Helper string `json:"helper"` // read-*: "cread", "read", "readat", "readn"; write-*: "cwrite", "write", "writeat", "written"
	Len    int    `json:"len"`    // length of the call's own file
	Off    uint64 `json:"off,omitempty"`
	Count  uint32 `json:"count"`
	Seed   uint64 `json:"seed"`
	Conn   int    `json:"conn,omitempty"` // 0 = the case's own client, k = ConcSpec.Conns[k-1] (modulo)
}

var failKinds = []string{"read-wo", "write-ro", "read-gone", "write-gone", "open-missing"}

// runFailCall performs one such call on cl; name is the call's own file.
// failed reports whether the call was answered with an error.
func runFailCall(cl concClient, root, pfx, name string, fc *FailCall) (failed bool, err error) {
	path := filepath.Join(root, name)
	model := prf(fc.Seed, fc.Len)
	_ = os.Remove(path)
	if e := os.WriteFile(path, model, 0o644); e != nil {
		return false, fmt.Errorf("harness: %v", e)
	}
	clnt, u := cl.clnt, cl.u
	where := fmt.Sprintf("%scall expected to fail (%s, %s on %s, %d-byte file, offset %d, count %d; msize %d): ", pfx, fc.Kind, fc.Helper, name, fc.Len, fc.Off, fc.Count, cl.nm)
	if fc.Kind == "open-missing" {
		if e := os.Remove(path); e != nil {
			return false, fmt.Errorf("harness: %v", e)
		}
		f, e := clnt.FOpen(name, oREAD)
		if e == nil {
			_ = f.Close()
			return false, nil
		}
		return true, nil
	}
	reading := fc.Kind == "read-wo" || fc.Kind == "read-gone"
	if reading != isReadKind(fc.Helper) || (!reading && !isWriteKind(fc.Helper)) {
		return false, fmt.Errorf("harness: helper %q does not fit kind %q", fc.Helper, fc.Kind)
	}
	if fc.Off > 1<<30 || fc.Count > 1<<24 {
		return false, fmt.Errorf("harness: failing call outside the grid")
	}
	var mode uint8
	switch fc.Kind {
	case "read-wo", "write-gone":
		mode = oWRITE
	case "write-ro", "read-gone":
		mode = oREAD
	default:
		return false, fmt.Errorf("harness: unknown kind %q", fc.Kind)
	}
	f, e := clnt.FOpen(name, mode)
	if e != nil {
		return false, fmt.Errorf("%sFOpen(%s, %#x) of the existing file: %v", where, name, mode, e)
	}
	defer f.Close()
	host, e := os.Open(path)
	if e != nil {
		return false, fmt.Errorf("harness: %v", e)
	}
	defer host.Close()
	if fc.Kind == "read-gone" || fc.Kind == "write-gone" {
		if e := os.Remove(path); e != nil {
			return false, fmt.Errorf("harness: %v", e)
		}
	}
	cnt := uint64(fc.Count)
	var n int
	if reading {
		buf := make([]byte, fc.Count)
		switch fc.Helper {
		case "cread":
			var b []byte
			b, e = clnt.Read(f.Fid, fc.Off, fc.Count)
			if len(b) > len(buf) {
				return e != nil, fmt.Errorf("%sClnt.Read returned %d bytes for a count of %d", where, len(b), fc.Count)
			}
			n = copy(buf, b)
		case "read":
			n, e = f.Read(buf) // sequential position 0
		case "readat":
			n, e = f.ReadAt(buf, int64(fc.Off))
		default:
			n, e = f.Readn(buf, fc.Off)
		}
		off := fc.Off
		if fc.Helper == "read" {
			off = 0
		}
		full := cnt
		if fc.Helper != "readn" {
			full = umin(cnt, u)
		}
		exp := want(model, off, full)
		if n < 0 || n > len(buf) {
			return e != nil, fmt.Errorf("%sn=%d for a %d-byte buffer (err=%v)", where, n, len(buf), e)
		}
		if e != nil && !isEOF(e) {
			if n > len(exp) || !bytes.Equal(buf[:n], exp[:n]) {
				return true, fmt.Errorf("%sn=%d together with %v, but the bytes reported are not the file's", where, n, e)
			}
			return true, nil
		}
		if n != len(exp) || !bytes.Equal(buf[:n], exp) {
			return false, fmt.Errorf("%sreported success (n=%d, err=%v) but the file holds %d bytes there; first difference at byte %d", where, n, e, len(exp), firstDiff(buf[:n], exp))
		}
		return false, nil
	}
	data := prf(fc.Seed^0x5EED, int(fc.Count))
	off := fc.Off
	switch fc.Helper {
	case "cwrite":
		n, e = clnt.Write(f.Fid, data, off)
	case "write":
		off = 0
		n, e = f.Write(data)
	case "writeat":
		n, e = f.WriteAt(data, int64(off))
	default:
		n, e = f.Written(data, off)
	}
	full := cnt
	if fc.Helper != "written" {
		full = umin(cnt, u)
	}
	if n < 0 || uint64(n) > cnt {
		return e != nil, fmt.Errorf("%sn=%d for %d bytes (err=%v)", where, n, cnt, e)
	}
	if e == nil && uint64(n) != full {
		return false, fmt.Errorf("%sreported success with n=%d, expected %d", where, n, full)
	}
	disk, he := hostContent(host)
	if he != nil {
		return e != nil, fmt.Errorf("harness: %v", he)
	}
	newm := mwrite(append([]byte(nil), model...), off, data[:n])
	if !bytes.Equal(disk, newm) {
		return e != nil, fmt.Errorf("%sreported n=%d (err=%v), but the underlying file does not hold exactly these bytes: file length %d, expected %d, first difference at byte %d", where, n, e, len(disk), len(newm), firstDiff(disk, newm))
	}
	return e != nil, nil
}

// failCoverage records one executed call.
func failCoverage(cl concClient, fc *FailCall, phase string, failed bool, g int) {
	out := "answered with an error"
	if !failed {
		out = "NOT answered with an error"
	}
	hx.Label(fmt.Sprintf("concurrent: %s the goroutines a %s call (%s) was %s", phase, fc.Kind, fc.Helper, out))
	if failed {
		hx.NonTrivial("conc-failed", cl.nm, cl.dotu, phase, fc.Kind, fc.Helper, gClass(g), cntClass(uint64(fc.Count), cl.u))
		hx.ExtraAdd("failed_calls_"+phase+"_concurrent_phase", 1)
	}
}
