package c14

// Multi-connection cases: ONE Ufs (one go9p.Srv) serves several connections
// that negotiated DIFFERENT msizes and possibly different dialects — at the
// same time (all mounted, operations alternating between them) and one after
// the other (a connection is unmounted and a later operation mounts a new one
// to the same server). The statement quantifies over "every negotiated msize
// and both dialects" per connection; whatever else the server is doing for
// other connections, the bytes a connection reads are the file's bytes and the
// bytes it writes are what the file then holds. All connections work on the
// same files against the same byte-slice models, one operation at a time, so
// every expected value is determined by the operation list alone.

import (
	"fmt"

	"github.com/rminnich/go9p"
	"verif/internal/hx"
	"verif/internal/ufsrv"
)

func negotiated(client, server uint32) uint32 {
	if server < client {
		return server
	}
	return client
}

// use makes connection k the current one, mounting it if it is not mounted.
func (r *runner) use(k int) error {
	if k < 0 {
		k = -k
	}
	k %= len(r.conns)
	r.conns[r.cur].hs = r.hs
	cs := r.conns[k]
	r.cur = k
	r.nm = negotiated(cs.spec.ClientMsize, r.c.ServerMsize)
	r.u = uint64(r.nm - iohdrsz)
	r.dotu = r.c.Dotu && !cs.spec.Plain
	r.clnt, r.end, r.hs = cs.clnt, cs.end, cs.hs
	if cs.clnt != nil {
		return nil
	}
	// what go9p.MountConn does, with the dialect the spec asks for
	end := ufsrv.Conn(r.srv, fmt.Sprintf("c14-%d.%d", k, cs.mounts))
	r.end = end
	clnt, e := go9p.Connect(end, cs.spec.ClientMsize, !cs.spec.Plain)
	if e != nil {
		end.Close()
		return r.errf("mount failed: %v", e)
	}
	fid, e := clnt.Attach(nil, go9p.OsUsers.Uid2User(0), "")
	if e != nil {
		clnt.Unmount()
		end.Close()
		return r.errf("mount failed: attach: %v", e)
	}
	clnt.Root = fid
	cs.clnt, cs.end = clnt, end
	cs.mounts++
	r.clnt = clnt
	if clnt.Msize != r.nm {
		return r.errf("negotiated msize is %d, expected min(client %d, server %d)", clnt.Msize, cs.spec.ClientMsize, r.c.ServerMsize)
	}
	if clnt.Dotu != r.dotu {
		return r.errf("negotiated dialect dotu=%v, server Dotu=%v, client asked for 9P2000.u: %v", clnt.Dotu, r.c.Dotu, !cs.spec.Plain)
	}
	hx.Label(fmt.Sprintf("dotu=%v", clnt.Dotu))
	hx.Label(fmt.Sprintf("msize=%d", r.nm))
	if len(r.conns) > 1 {
		hx.ExtraAdd("multi_mounts", 1)
		if cs.mounts > 1 {
			hx.Label("multi: connection mounted again after its predecessor was unmounted")
		}
	}
	return nil
}

// disconnect unmounts the current connection; its handles are gone.
func (r *runner) disconnect() {
	cs := r.conns[r.cur]
	if cs.clnt != nil {
		cs.clnt.Unmount()
		cs.end.Close()
		hx.Label("multi: op=disconnect")
	}
	cs.clnt, cs.end, cs.hs = nil, nil, nil
	r.clnt, r.end, r.hs = nil, nil, nil
}

func rel(a, b uint32) string {
	switch {
	case a < b:
		return "smaller"
	case a > b:
		return "larger"
	}
	return "equal"
}

// classifyMulti records how the operation relates to the other connections of
// the server. Non-trivial by the multi-connection rule: the server has answered
// requests of another connection whose negotiated msize differs, and (a) the
// previous checked operation went over such a connection, or (b) the count
// exceeds the iounit of a smaller such connection.
func (r *runner) classifyMulti(kind string, n uint64) {
	var other bool
	minOther := uint32(0)
	for k, cs := range r.conns {
		if k == r.cur || cs.mounts == 0 {
			continue
		}
		m := negotiated(cs.spec.ClientMsize, r.c.ServerMsize)
		if m != r.nm {
			other = true
		}
		if minOther == 0 || m < minOther {
			minOther = m
		}
	}
	after := "same connection"
	if r.prev < 0 {
		after = "first"
	} else if r.prev != r.cur {
		p := r.conns[r.prev]
		after = "connection with " + rel(negotiated(p.spec.ClientMsize, r.c.ServerMsize), r.nm) + " msize"
		if p.clnt == nil {
			after += ", now unmounted"
		}
	}
	r.prev = r.cur
	exceeds := minOther != 0 && minOther < r.nm && n > uint64(minOther-iohdrsz)
	hx.Label(fmt.Sprintf("multi: %s after %s", kind, after))
	if exceeds {
		hx.Label(fmt.Sprintf("multi: %s with a count above the iounit of a smaller-msize connection of the same server", kind))
	}
	if other && (exceeds || (after != "same connection" && after != "first")) {
		hx.NonTrivial("multi", r.nm, r.dotu, kind, after, exceeds, cntClass(n, r.u), r.conns[r.cur].mounts > 1)
		hx.ExtraAdd("multi_nontrivial_ops", 1)
	}
}

// finishMulti: through EVERY connection of the case (mounting the ones that are
// not mounted) every file is read back sequentially and compared with the model
// and the underlying file.
func (r *runner) finishMulti() error {
	r.conns[r.cur].hs = r.hs
	for _, h := range r.held {
		if string(h.got) != string(h.copy) {
			return r.errf("data returned by Clnt.Read in op#%d changed afterwards (first difference at byte %d)", h.op, firstDiff(h.got, h.copy))
		}
	}
	for k := range r.conns {
		if err := r.use(k); err != nil {
			return err
		}
		if err := r.finalReads(r.clnt); err != nil {
			return err
		}
		hx.Extra("max_open_handles", maxOpen(len(r.hs)))
		for _, h := range r.hs {
			if e := h.f.Close(); e != nil {
				return r.errf("Close of a handle on %s at the end: %v", fname(h.file), e)
			}
		}
		r.hs = nil
	}
	hx.Label(fmt.Sprintf("multi: %d connections", len(r.conns)))
	return nil
}
