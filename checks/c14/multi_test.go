package c14

// Generator and tests of the multi-connection cases (executor: multi.go).

import (
	"fmt"
	"testing"

	"pgregory.net/rapid"
	"verif/internal/hx"
)

// ---------------------------------------------------------------- generator

type gconn struct {
	u    int64
	hs   []ghandle
	last int
	live bool
}

// multiGen drives the single-connection generator (gen.op) on whichever
// connection is current; the file lengths are shared.
type multiGen struct {
	g     *gen
	conns []gconn
	cur   int
}

func (m *multiGen) save() {
	c := &m.conns[m.cur]
	c.hs, c.last = m.g.hs, m.g.last
}

func (m *multiGen) load(k int) {
	m.cur = k
	c := &m.conns[k]
	m.g.u, m.g.hs, m.g.last = c.u, c.hs, c.last
	c.live = true
}

func (m *multiGen) op(t *rapid.T) Op {
	if len(m.g.queue) == 0 {
		switch s := rapid.IntRange(0, 19).Draw(t, "switch"); {
		case s < 4: // another connection takes over
			m.save()
			k := rapid.IntRange(0, len(m.conns)-2).Draw(t, "conn")
			if k >= m.cur {
				k++
			}
			m.load(k)
		case s == 4: // the current connection goes away
			m.g.hs, m.g.last = nil, 0
			m.save()
			return Op{Kind: "disconnect", Conn: m.cur}
		}
	}
	o := m.g.op(t)
	o.Conn = m.cur
	return o
}

func genMulti(t *rapid.T) *Case {
	ms := rapid.SliceOfNDistinct(rapid.SampledFrom(msizeGrid), 2, 4, func(v uint32) uint32 { return v }).Draw(t, "msizes")
	if len(ms) < 4 && rapid.IntRange(0, 2).Draw(t, "twin") == 0 {
		// two connections with the same msize next to a different one
		ms = append(ms, ms[rapid.IntRange(0, len(ms)-1).Draw(t, "twin_of")])
	}
	c := &Case{Dotu: rapid.Bool().Draw(t, "dotu"), ServerMsize: 65536}
	top := uint32(0)
	for _, v := range ms {
		if v > top {
			top = v
		}
	}
	switch rapid.IntRange(0, 3).Draw(t, "decider") {
	case 0:
		c.ServerMsize = top // the largest connection's msize is the server's own
	case 1:
		// one client proposes more than the server grants
		c.ServerMsize = top
		for i := range ms {
			if ms[i] == top {
				ms[i] = 65536
				break
			}
		}
	}
	m := &multiGen{g: &gen{avoid: hx.IsKnown(FindingReadn), noFaults: true}}
	for _, v := range ms {
		c.Conns = append(c.Conns, ConnSpec{ClientMsize: v, Plain: rapid.IntRange(0, 2).Draw(t, "plain") == 0})
		m.conns = append(m.conns, gconn{u: int64(negotiated(v, c.ServerMsize)) - iohdrsz})
	}
	c.ClientMsize = c.Conns[0].ClientMsize
	nf := rapid.IntRange(1, 4).Draw(t, "nfiles")
	for i := 0; i < nf; i++ {
		// lengths at the boundaries of one of the connections' iounits
		m.g.u = m.conns[rapid.IntRange(0, len(m.conns)-1).Draw(t, "len_conn")].u
		l := m.g.lenOf(t, "len")
		c.Files = append(c.Files, FileSpec{Len: int(l), Seed: rapid.Uint64().Draw(t, "fseed")})
		m.g.lens = append(m.g.lens, l)
	}
	m.load(rapid.IntRange(0, len(m.conns)-1).Draw(t, "first_conn"))
	c.Ops = rapid.SliceOfN(rapid.Custom(func(t *rapid.T) Op { return m.op(t) }), 8, 100).Draw(t, "ops")
	for _, o := range m.g.queue {
		o.Conn = m.cur
		c.Ops = append(c.Ops, o)
	}
	m.g.queue = nil
	c.FinalChunk = uint32(clamp(int64(m.g.countOf(t, 0, 3*m.g.u)), 1, 3*m.g.u))
	return c
}

// TestPropMultiConn: the state machine of TestPropMachine spread over 2..4
// connections to one server.
func TestPropMultiConn(t *testing.T) {
	hx.Check(t, "multiconn", hx.N(120, 3000), func(t *rapid.T) {
		c := genMulti(t)
		if err := try("multiconn", c); err != nil {
			if isHarness(err) {
				hx.Inconclusive(err.Error())
				t.Fatalf("%v", err)
			}
			hx.Failf(t, "multiconn", c, "%v", err)
		}
	})
}

// TestEnumMultiConn enumerates ordered pairs of msizes x dialect combinations
// with one fixed script: the first connection has requests answered, then the
// second reads and writes full iounits with every helper, then the first
// again; then each connection in turn is unmounted, the other one works alone,
// and a new connection with the unmounted one's msize comes back.
func TestEnumMultiConn(t *testing.T) {
	grid := []uint32{128, 1024, 8192}
	if hx.Thorough() {
		grid = []uint32{128, 129, 256, 1024, 8192, 65536}
	}
	type dial struct{ dotu, pa, pb bool }
	dials := []dial{{false, false, false}, {true, false, false}, {true, true, false}, {true, false, true}}
	fails, idx, n := 0, 0, 0
	for _, a := range grid {
		for _, b := range grid {
			if a == b {
				continue
			}
			for _, d := range dials {
				idx++
				if hx.NShards > 1 && idx%hx.NShards != hx.Shard {
					continue
				}
				c := enumMultiCase(a, b, d.dotu, d.pa, d.pb)
				n++
				if err := try("enum-multiconn", c); err != nil {
					if isHarness(err) {
						hx.Inconclusive(err.Error())
						t.Fatalf("%v", err)
					}
					fails++
					if fails <= 2 {
						hx.Violation("enum-multiconn", c, err.Error())
						t.Errorf("%s: %v", c.Desc, err)
					}
				}
			}
		}
	}
	if fails > 2 {
		t.Errorf("... and %d more failing enumerated multi-connection cases", fails-2)
	}
	hx.Exhaustive(fmt.Sprintf("one Ufs, two connections: all ordered pairs of different msizes from %v x {9P2000 server; 9P2000.u server with both / only the second / only the first client asking for .u}: fixed script (first connection reads; second reads and writes full iounits with all helpers; first again; first unmounted, second alone, first's msize mounted again; second unmounted, first alone, second's msize mounted again)", grid))
}

func enumMultiCase(a, b uint32, dotu, plainA, plainB bool) *Case {
	ua, ub := int64(a)-iohdrsz, int64(b)-iohdrsz
	big := ua
	if ub > big {
		big = ub
	}
	l := 2*big + 17
	c := &Case{ClientMsize: a, ServerMsize: 65536, Dotu: dotu, FinalChunk: uint32(big + 1),
		Conns: []ConnSpec{{ClientMsize: a, Plain: plainA}, {ClientMsize: b, Plain: plainB}},
		Files: []FileSpec{{Len: int(l), Seed: uint64(a)*131 + uint64(b)}, {Len: int(ua - 1), Seed: uint64(b) + 7}},
		Desc:  fmt.Sprintf("enum multiconn msizes %d then %d, server dotu=%v, clients plain=%v/%v", a, b, dotu, plainA, plainB)}
	on := func(k int, ops ...Op) {
		for _, o := range ops {
			o.Conn = k
			c.Ops = append(c.Ops, o)
		}
	}
	// reads of conn k (iounit u) through handle h on file 0 of current length fl
	reads := func(k, h int, u, fl int64) {
		on(k,
			Op{Kind: "cread", Handle: h, Off: 0, Count: uint32(u)},
			Op{Kind: "readat", Handle: h, Off: uint64(u - 1), Count: uint32(u)},
			Op{Kind: "cread", Handle: h, Off: 3, Count: 100},
			Op{Kind: "readat", Handle: h, Off: 1000 % uint64(fl), Count: uint32(u)},
			Op{Kind: "readn", Handle: h, Off: 0, Count: uint32(min(fl, 3*u+1))},
			Op{Kind: "read", Handle: h, Count: uint32(u)},
			Op{Kind: "read", Handle: h, Count: uint32(u + 1)},
			Op{Kind: "cread", Handle: h, Off: uint64(fl - 1), Count: uint32(u)},
			Op{Kind: "readn", Handle: h, Off: uint64(fl - min(fl, 2*u)), Count: uint32(min(fl, 2*u))})
	}
	on(0, Op{Kind: "open", File: 0, Mode: oREAD})
	reads(0, 0, ua, l)
	on(1, Op{Kind: "open", File: 0, Mode: oRDWR})
	reads(1, 0, ub, l)
	on(1,
		Op{Kind: "writeat", Handle: 0, Off: 1, Count: uint32(ub), Seed: 1},
		Op{Kind: "cwrite", Handle: 0, Off: uint64(ub + 2), Count: uint32(ub), Seed: 2},
		Op{Kind: "written", Handle: 0, Off: uint64(l), Count: uint32(2*ub + 1), Seed: 3})
	l += 2*ub + 1
	reads(0, 0, ua, l)
	on(0, Op{Kind: "open", File: 1, Mode: oRDWR}, // h1 of conn 0
		Op{Kind: "written", Handle: 1, Off: 0, Count: uint32(3*ua + 1), Seed: 4},
		Op{Kind: "write", Handle: 1, Count: uint32(ua), Seed: 5},
		Op{Kind: "readn", Handle: 1, Off: 0, Count: uint32(3*ua + 1)})
	reads(1, 0, ub, l)
	on(1, Op{Kind: "open", File: 1, Mode: oREAD}, // h1 of conn 1
		Op{Kind: "readn", Handle: 1, Off: 0, Count: uint32(3*ua + 1)},
		Op{Kind: "cread", Handle: 1, Off: 0, Count: uint32(ub)})
	// one after the other: the first connection is gone, the second works alone
	on(0, Op{Kind: "disconnect"})
	reads(1, 0, ub, l)
	on(1, Op{Kind: "written", Handle: 0, Off: 0, Count: uint32(ub + 1), Seed: 6})
	// a new connection with the first one's msize
	on(0, Op{Kind: "open", File: 0, Mode: oRDWR})
	reads(0, 0, ua, l)
	on(0, Op{Kind: "written", Handle: 0, Off: uint64(ua), Count: uint32(2*ua + 1), Seed: 7})
	// and the other way round
	on(1, Op{Kind: "disconnect"})
	reads(0, 0, ua, l)
	on(1, Op{Kind: "open", File: 0, Mode: oREAD})
	reads(1, 0, ub, l)
	on(0, Op{Kind: "cread", Handle: 0, Off: 0, Count: uint32(ua)})
	on(1, Op{Kind: "cread", Handle: 0, Off: 0, Count: uint32(ub)})
	return c
}
