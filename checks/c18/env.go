// Environment of C18: the scratch directory, the jail with its canaries, the
// chrooted Ufs child process and the snapshot of everything in the jail that
// lies outside the exported root.
package c18

import (
	"bytes"
	"crypto/sha256"
	"errors"
	"fmt"
	"io"
	"net"
	"os"
	"os/exec"
	"path/filepath"
	"sort"
	"strings"
	"sync"
	"syscall"
	"time"

	"verif/internal/hx"
)

// infraError marks trouble of the harness / sandbox / child process (never a
// violation of this property).
type infraError struct{ msg string }

func (e *infraError) Error() string { return "infrastructure: " + e.msg }

func infraf(format string, a ...interface{}) error { return &infraError{fmt.Sprintf(format, a...)} }

func isInfra(err error) bool { var ie *infraError; return errors.As(err, &ie) }

// Layout of the jail (host path <base>/jail, the child's "/"):
//
//	/top-canary                      file      above the parent of the root
//	/hid-c18-outside-9c4e1fa7b3d2    file      never named by the client
//	/up/                             directory parent of the exported root
//	/up/canary                       file      next to the root
//	/up/hid-c18-outside-52d7ab90e6f3 file      never named by the client
//	/up/zlink -> canary              symlink   (outside the tree, so it may point anywhere)
//	/up/sibling/                     directory next to the root
//	/up/sibling/sfile                file
//	/up/sibling/hid-c18-outside-e03b7d5a1f92  file, never named by the client
//	/up/sibling/sdir/deep            file
//	/up/export-private/{pfile, hid-c18-outside-7a1c0e95b2d4}
//	/up/export2/x, /up/export.bak/b  neighbours whose names extend the root's name
//	/up/export/                      the exported root (Ufs.Root = /up/export)
const (
	upName     = "up"
	exportName = "export"
	rootInJail = "/" + upName + "/" + exportName
	// every canary's content starts with this; the client never sends it
	contentPrefix = "C18-OUTSIDE-CONTENT:"
	// names of the silent canaries start with this; the client never sends it
	silentPrefix = "hid-c18-outside-"
)

type outsideObj struct {
	rel    string // path relative to the jail
	kind   byte   // 'd', 'f', 'l'
	target string
}

var outsideLayout = []outsideObj{
	{"top-canary", 'f', ""},
	{silentPrefix + "9c4e1fa7b3d2", 'f', ""},
	{upName, 'd', ""},
	{upName + "/canary", 'f', ""},
	{upName + "/" + silentPrefix + "52d7ab90e6f3", 'f', ""},
	{upName + "/zlink", 'l', "canary"},
	{upName + "/sibling", 'd', ""},
	{upName + "/sibling/sfile", 'f', ""},
	{upName + "/sibling/" + silentPrefix + "e03b7d5a1f92", 'f', ""},
	{upName + "/sibling/sdir", 'd', ""},
	{upName + "/sibling/sdir/deep", 'f', ""},
	// neighbours whose names extend the root's own name: a confinement test
	// that compares path strings by prefix takes them for part of the root
	{upName + "/" + exportName + "-private", 'd', ""},
	{upName + "/" + exportName + "-private/pfile", 'f', ""},
	{upName + "/" + exportName + "-private/" + silentPrefix + "7a1c0e95b2d4", 'f', ""},
	{upName + "/" + exportName + "2", 'd', ""},
	{upName + "/" + exportName + "2/x", 'f', ""},
	{upName + "/" + exportName + ".bak", 'd', ""},
	{upName + "/" + exportName + ".bak/b", 'f', ""},
}

// canaryContent is unique per object, seed and shard (pseudo-random, so that a
// replay is exact): 20-byte prefix + 64 hex digits.
func canaryContent(rel string) []byte {
	h := sha256.Sum256([]byte(fmt.Sprintf("c18|%s|%d|%d", rel, hx.Seed, hx.Shard)))
	return []byte(fmt.Sprintf("%s%x\n", contentPrefix, h))
}

// entry is what the snapshot keeps for one object outside the root.
type entry struct {
	Kind    byte
	Mode    os.FileMode
	Size    int64
	Mtime   int64
	Ino     uint64
	Nlink   uint64
	Content string // file bytes / link text
}

type snapshot struct {
	ents    map[string]entry // by path relative to the jail; "." is the jail itself
	inodes  map[uint64]string
	rootIno uint64
}

type child struct {
	cmd    *exec.Cmd
	stdin  io.WriteCloser
	mu     sync.Mutex
	stderr bytes.Buffer
	ready  chan struct{}
	dead   chan struct{}
}

func (c *child) alive() bool {
	select {
	case <-c.dead:
		return false
	default:
		return true
	}
}

func (c *child) errText() string {
	c.mu.Lock()
	defer c.mu.Unlock()
	s := c.stderr.String()
	if len(s) > 6000 {
		s = s[:6000]
	}
	return s
}

type env struct {
	base   string
	jail   string
	export string // host path of the exported root
	sock   string
	bin    string
	dotu   bool
	ch     *child
	snap   *snapshot
	deaths int
	dirty  bool // the outside may differ from the snapshot
	// write end of the janitor's stdin: must stay referenced (a collected
	// *os.File is closed) and is closed by the OS when this process ends
	janitorIn io.WriteCloser
}

var (
	theEnv  *env
	envErr  error
	envOnce sync.Once
)

// getEnv builds srvchild, the jail and the child once per test process.
func getEnv() (*env, error) {
	envOnce.Do(func() { theEnv, envErr = newEnv() })
	return theEnv, envErr
}

func goEnv() []string {
	var out []string
	for _, kv := range os.Environ() {
		k, _, _ := strings.Cut(kv, "=")
		switch k {
		case "GOFLAGS", "GOPROXY", "GOTOOLCHAIN", "GOSUMDB", "CGO_ENABLED":
			continue
		}
		out = append(out, kv)
	}
	// no cgo: the binary runs inside a chroot without libraries or /etc
	return append(out, "GOFLAGS=-mod=mod", "GOPROXY=off", "CGO_ENABLED=0")
}

// newEnv prefers a scratch directory on tmpfs (/dev/shm): creating the
// case's tree costs ~1 ms per object on the sandbox's ext4 and almost nothing
// there. It falls back to os.TempDir() when /dev/shm is missing or noexec.
func newEnv() (*env, error) {
	var e *env
	var lastErr error
	for _, parent := range []string{"/dev/shm", os.TempDir()} {
		base, err := os.MkdirTemp(parent, "c18-")
		if err != nil {
			lastErr = infraf("mkdtemp in %s: %v", parent, err)
			continue
		}
		e = &env{base: base, jail: filepath.Join(base, "jail"), sock: filepath.Join(base, "s"), bin: filepath.Join(base, "srvchild"), dotu: true}
		e.export = filepath.Join(e.jail, upName, exportName)

		args := []string{"build", "-tags", "verif", "-o", e.bin}
		if mf := os.Getenv("VERIF_MODFILE"); mf != "" {
			args = append(args, "-modfile="+mf)
		}
		args = append(args, "verif/cmd/srvchild")
		cmd := exec.Command("go", args...)
		cmd.Dir = hx.Root
		cmd.Env = goEnv()
		if out, err := cmd.CombinedOutput(); err != nil {
			_ = os.RemoveAll(base)
			return nil, infraf("building srvchild failed: %v\n%s", err, out)
		}

		// the janitor removes the scratch directory when this process is gone,
		// however it ends (hx.Main leaves through os.Exit)
		jan := exec.Command(e.bin, "-janitor", base)
		jin, err := jan.StdinPipe()
		if err == nil {
			err = jan.Start()
		}
		if err != nil {
			_ = os.RemoveAll(base)
			lastErr = infraf("starting the janitor from %s: %v", base, err)
			e = nil
			continue
		}
		e.janitorIn = jin
		go func() { _ = jan.Wait() }()
		break
	}
	if e == nil {
		return nil, lastErr
	}

	if err := os.MkdirAll(e.jail, 0o755); err != nil {
		return nil, infraf("mkdir jail: %v", err)
	}
	if err := e.rebuildJail(); err != nil {
		return nil, err
	}
	if err := e.startChild(); err != nil {
		return nil, err
	}
	return e, nil
}

// rebuildJail empties the jail directory (keeping the directory itself: the
// child lives in it), recreates everything outside the root plus an empty
// root, and takes the snapshot.
func (e *env) rebuildJail() error {
	des, err := os.ReadDir(e.jail)
	if err != nil {
		return infraf("read jail: %v", err)
	}
	for _, de := range des {
		p := filepath.Join(e.jail, de.Name())
		_ = filepath.Walk(p, func(q string, fi os.FileInfo, err error) error {
			if err == nil && fi.IsDir() {
				_ = os.Chmod(q, 0o755)
			}
			return nil
		})
		if err := os.RemoveAll(p); err != nil {
			return infraf("emptying the jail: %v", err)
		}
	}
	for _, o := range outsideLayout {
		p := filepath.Join(e.jail, o.rel)
		switch o.kind {
		case 'd':
			err = os.Mkdir(p, 0o755)
		case 'f':
			err = os.WriteFile(p, canaryContent(o.rel), 0o644)
		case 'l':
			err = os.Symlink(o.target, p)
		}
		if err != nil {
			return infraf("building the jail: %v", err)
		}
	}
	if err := os.Mkdir(e.export, 0o755); err != nil {
		return infraf("building the jail: %v", err)
	}
	// fixed times, deepest first, so that a changed mtime is visible
	old := time.Unix(978307200, 0)
	for i := len(outsideLayout) - 1; i >= 0; i-- {
		if outsideLayout[i].kind != 'l' {
			_ = os.Chtimes(filepath.Join(e.jail, outsideLayout[i].rel), old, old)
		}
	}
	_ = os.Chtimes(e.jail, old, old)
	s, err := e.takeSnapshot()
	if err != nil {
		return infraf("snapshot: %v", err)
	}
	e.snap = s
	// the exported directory is a new object now: a child whose Root is
	// relative to its working directory still sits in the old one
	if e.ch != nil && e.ch.alive() {
		_ = e.ch.stdin.Close()
		select {
		case <-e.ch.dead:
		case <-time.After(5 * time.Second):
			_ = e.ch.cmd.Process.Kill()
			<-e.ch.dead
		}
		if err := e.startChild(); err != nil {
			return err
		}
	}
	return nil
}

// takeSnapshot records everything in the jail except the subtree of the
// exported root.
func (e *env) takeSnapshot() (*snapshot, error) {
	s := &snapshot{ents: map[string]entry{}, inodes: map[uint64]string{}}
	err := filepath.Walk(e.jail, func(p string, fi os.FileInfo, err error) error {
		if err != nil {
			return err
		}
		rel, _ := filepath.Rel(e.jail, p)
		st := fi.Sys().(*syscall.Stat_t)
		if p == e.export {
			s.rootIno = st.Ino
			if !fi.IsDir() {
				return fmt.Errorf("the exported root is not a directory")
			}
			return filepath.SkipDir
		}
		en := entry{Mode: fi.Mode(), Size: fi.Size(), Mtime: fi.ModTime().UnixNano(), Ino: st.Ino, Nlink: uint64(st.Nlink)}
		switch {
		case fi.IsDir():
			en.Kind = 'd'
			en.Size = 0
		case fi.Mode()&os.ModeSymlink != 0:
			en.Kind = 'l'
			en.Content, _ = os.Readlink(p)
		case fi.Mode().IsRegular():
			en.Kind = 'f'
			b, err := os.ReadFile(p)
			if err != nil {
				return err
			}
			en.Content = string(b)
		default:
			en.Kind = '?'
		}
		s.ents[rel] = en
		s.inodes[st.Ino] = "/" + rel
		return nil
	})
	if err != nil {
		return nil, err
	}
	if s.rootIno == 0 {
		return nil, fmt.Errorf("the exported root is missing")
	}
	return s, nil
}

// diffOutside compares the jail with the snapshot. rootGone tells that the
// client removed the (empty) root itself through a fid designating the root,
// which the property does not forbid: then the missing root and the changed
// parent directory are not differences.
func (e *env) diffOutside(rootRemoved bool) []string {
	var d []string
	now := map[string]entry{}
	rootSeen := false
	_ = filepath.Walk(e.jail, func(p string, fi os.FileInfo, err error) error {
		if err != nil {
			return nil
		}
		rel, _ := filepath.Rel(e.jail, p)
		st := fi.Sys().(*syscall.Stat_t)
		if p == e.export {
			rootSeen = true
			if !fi.IsDir() {
				d = append(d, fmt.Sprintf("the exported root /%s is no longer a directory", rel))
				return nil
			}
			if st.Ino != e.snap.rootIno {
				d = append(d, fmt.Sprintf("/%s is a different directory now (inode %d, was %d)", rel, st.Ino, e.snap.rootIno))
			}
			return filepath.SkipDir
		}
		en := entry{Mode: fi.Mode(), Size: fi.Size(), Mtime: fi.ModTime().UnixNano(), Ino: st.Ino, Nlink: uint64(st.Nlink)}
		switch {
		case fi.IsDir():
			en.Kind = 'd'
			en.Size = 0
		case fi.Mode()&os.ModeSymlink != 0:
			en.Kind = 'l'
			en.Content, _ = os.Readlink(p)
		case fi.Mode().IsRegular():
			en.Kind = 'f'
			b, _ := os.ReadFile(p)
			en.Content = string(b)
		default:
			en.Kind = '?'
		}
		now[rel] = en
		return nil
	})
	if !rootSeen && !rootRemoved {
		d = append(d, fmt.Sprintf("the exported root %s has disappeared from its parent directory", rootInJail))
	}
	var names []string
	for k := range e.snap.ents {
		names = append(names, k)
	}
	for k := range now {
		if _, ok := e.snap.ents[k]; !ok {
			names = append(names, k)
		}
	}
	sort.Strings(names)
	for _, k := range names {
		was, ok1 := e.snap.ents[k]
		is, ok2 := now[k]
		name := "/" + k
		switch {
		case ok1 && !ok2:
			d = append(d, fmt.Sprintf("%s (outside the root) was removed or renamed away", name))
		case !ok1 && ok2:
			d = append(d, fmt.Sprintf("%s appeared outside the root (kind %c, %d bytes, content %q)", name, is.Kind, is.Size, clip(is.Content, 48)))
		default:
			if rootRemoved && k == upName {
				// entry count and mtime of the parent change when the root is removed
				is.Mtime, is.Nlink = was.Mtime, was.Nlink
			}
			if was.Kind != is.Kind || was.Ino != is.Ino {
				d = append(d, fmt.Sprintf("%s was replaced (kind %c inode %d -> kind %c inode %d)", name, was.Kind, was.Ino, is.Kind, is.Ino))
				continue
			}
			if was.Content != is.Content {
				d = append(d, fmt.Sprintf("%s: content changed from %q to %q", name, clip(was.Content, 40), clip(is.Content, 40)))
			}
			if was.Mode != is.Mode {
				d = append(d, fmt.Sprintf("%s: mode changed from %v to %v", name, was.Mode, is.Mode))
			}
			if was.Mtime != is.Mtime {
				d = append(d, fmt.Sprintf("%s: mtime changed from %d to %d", name, was.Mtime, is.Mtime))
			}
			if was.Nlink != is.Nlink {
				d = append(d, fmt.Sprintf("%s: link count changed from %d to %d", name, was.Nlink, is.Nlink))
			}
		}
	}
	return d
}

func clip(s string, n int) string {
	if len(s) > n {
		return s[:n] + "..."
	}
	return s
}

// resetExport empties the exported root and builds the case's tree in it.
func (e *env) resetExport(tree []Node) error {
	fi, err := os.Lstat(e.export)
	if err != nil || !fi.IsDir() {
		return e.rebuildJailWith(tree)
	}
	_ = os.Chmod(e.export, 0o755)
	des, err := os.ReadDir(e.export)
	if err != nil {
		return infraf("read root: %v", err)
	}
	for _, de := range des {
		p := filepath.Join(e.export, de.Name())
		if de.IsDir() {
			_ = filepath.Walk(p, func(q string, fi os.FileInfo, err error) error {
				if err == nil && fi.IsDir() {
					_ = os.Chmod(q, 0o755)
				}
				return nil
			})
		}
		if err := os.RemoveAll(p); err != nil {
			return infraf("emptying the root: %v", err)
		}
	}
	return e.buildTree(tree)
}

func (e *env) rebuildJailWith(tree []Node) error {
	if err := e.rebuildJail(); err != nil {
		return err
	}
	return e.buildTree(tree)
}

func (e *env) buildTree(tree []Node) error {
	for _, n := range tree {
		p := filepath.Join(e.export, filepath.FromSlash(n.Path))
		var err error
		switch n.Kind {
		case "d":
			err = os.Mkdir(p, 0o755)
		case "f":
			err = os.WriteFile(p, []byte("inside:"+n.Path+"\n"), 0o644)
		case "l":
			if symlinkLeaves(n.Path, n.Target) {
				return infraf("harness: tree node %q -> %q would leave the root", n.Path, n.Target)
			}
			err = os.Symlink(n.Target, p)
		default:
			return infraf("harness: tree node kind %q", n.Kind)
		}
		if err != nil {
			return infraf("building the tree: %v", err)
		}
	}
	if n := e.restorePremise(); n > 0 {
		return infraf("harness: the generated tree contained %d symlinks leaving the root", n)
	}
	return nil
}

// symlinkLeaves reports whether a relative link text placed at rel (path below
// the root) could lexically leave the root. Absolute texts are refused.
func symlinkLeaves(rel, target string) bool {
	if strings.HasPrefix(target, "/") {
		return true
	}
	d := strings.Count(rel, "/") // depth of the directory holding the link
	for _, el := range strings.Split(target, "/") {
		switch el {
		case "", ".":
		case "..":
			d--
			if d < 0 {
				return true
			}
		default:
			d++
		}
	}
	return false
}

// restorePremise keeps the premise of the property ("a tree that contains no
// symlinks leaving it"): a client can turn an inward relative link into an
// outward one by perfectly legal means (renaming it, or a directory above it,
// to a shallower place). Such links are removed before the client can use
// them. A link leaves the root if its text does so lexically from where the
// link now is, or if the host resolves it to something outside the root.
func (e *env) restorePremise() int {
	n := 0
	_ = filepath.Walk(e.export, func(p string, fi os.FileInfo, err error) error {
		if err != nil || fi.Mode()&os.ModeSymlink == 0 {
			return nil
		}
		rel, _ := filepath.Rel(e.export, p)
		target, _ := os.Readlink(p)
		leaves := symlinkLeaves(filepath.ToSlash(rel), target)
		if !leaves {
			if real, err := filepath.EvalSymlinks(p); err == nil && real != e.export && !strings.HasPrefix(real, e.export+"/") {
				leaves = true
			}
		}
		if leaves {
			_ = os.Remove(p)
			n++
			hx.Label("premise kept: a link that had become outward was removed")
		}
		return nil
	})
	return n
}

// findInode reports whether an object with this inode exists inside the
// exported root (the root itself included).
func (e *env) findInode(ino uint64) bool {
	found := false
	_ = filepath.Walk(e.export, func(p string, fi os.FileInfo, err error) error {
		if err != nil {
			return nil
		}
		if fi.Sys().(*syscall.Stat_t).Ino == ino {
			found = true
			return filepath.SkipAll
		}
		return nil
	})
	return found
}

// rootSpellingsForServer: how the child's Ufs.Root names the exported
// directory (rootInJail) and the working directory it is relative to. (An
// empty Root is not among them: Ufs takes it for "/".)
var rootSpellingsForServer = []struct{ root, cwd string }{
	{rootInJail, ""},
	{".", rootInJail},
	{exportName, parentInJail},
	{rootInJail + "/", ""},
	{upName + "/" + exportName, "/"},
	{"./", rootInJail},
	{parentInJail + "/./" + exportName, ""},
	{"../" + exportName, rootInJail},
	{"./" + exportName + "/.", parentInJail},
}

func (e *env) startChild() error {
	_ = os.Remove(e.sock)
	// the server is told its root in one of several spellings (one per shard
	// process): absolute, relative to its working directory, "." and "", unclean
	sp := rootSpellingsForServer[hx.Shard%len(rootSpellingsForServer)]
	hx.Label("server root spelled " + fmt.Sprintf("%q in %q", sp.root, sp.cwd))
	args := []string{"-ufs", "-root", sp.root, "-msize", "8192", "-sock", e.sock, "-chroot", e.jail}
	if sp.cwd != "" {
		args = append(args, "-cwd", sp.cwd)
	}
	if e.dotu {
		args = append(args, "-dotu")
	}
	cmd := exec.Command(e.bin, args...)
	cmd.Dir = e.base
	stdin, err := cmd.StdinPipe()
	if err != nil {
		return infraf("child stdin: %v", err)
	}
	perr, err := cmd.StderrPipe()
	if err != nil {
		return infraf("child stderr: %v", err)
	}
	c := &child{cmd: cmd, stdin: stdin, ready: make(chan struct{}), dead: make(chan struct{})}
	if err := cmd.Start(); err != nil {
		return infraf("starting srvchild: %v", err)
	}
	go func() {
		buf := make([]byte, 4096)
		signalled := false
		for {
			n, err := perr.Read(buf)
			if n > 0 {
				c.mu.Lock()
				if c.stderr.Len() < 1<<20 {
					c.stderr.Write(buf[:n])
				}
				isReady := !signalled && bytes.Contains(c.stderr.Bytes(), []byte("READY\n"))
				c.mu.Unlock()
				if isReady {
					signalled = true
					close(c.ready)
				}
			}
			if err != nil {
				break
			}
		}
		_ = cmd.Wait()
		close(c.dead)
	}()
	select {
	case <-c.ready:
	case <-c.dead:
		return infraf("srvchild exited before READY: %s", c.errText())
	case <-time.After(20 * time.Second):
		_ = cmd.Process.Kill()
		return infraf("srvchild not READY after 20 s: %s", c.errText())
	}
	e.ch = c
	return nil
}

// childTrouble is called when a session lost its connection or timed out:
// it collects what the child wrote, makes sure a fresh child is running and
// returns the description (always an infrastructure error for this property).
func (e *env) childTrouble(what string) error {
	c := e.ch
	if c.alive() {
		// a hang: ask the runtime for the goroutine dump, then kill
		_ = c.cmd.Process.Signal(syscall.SIGQUIT)
		select {
		case <-c.dead:
		case <-time.After(5 * time.Second):
			_ = c.cmd.Process.Kill()
			<-c.dead
		}
	}
	e.deaths++
	txt := strings.Replace(c.errText(), "READY\n", "", 1)
	if err := e.startChild(); err != nil {
		return infraf("%s; the child could not be restarted: %v; child stderr:\n%s", what, err, txt)
	}
	return infraf("%s; the Ufs child was restarted; its stderr:\n%s", what, txt)
}

func (e *env) dial() (net.Conn, error) {
	if !e.ch.alive() {
		return nil, e.childTrouble("the Ufs child was found dead before a session")
	}
	c, err := net.Dial("unix", e.sock)
	if err != nil {
		return nil, e.childTrouble(fmt.Sprintf("dial: %v", err))
	}
	return c, nil
}
