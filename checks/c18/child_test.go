package c18

import (
	"bufio"
	"net"
	"os"
	"os/exec"
	"path/filepath"
	"testing"
	"time"

	"verif/internal/rawc"
	"verif/internal/ref9p"
)

// TestChildScriptMode checks the other serving mode of cmd/srvchild (used by
// C06): the scripted implementation behind a chroot answers on the socket,
// several connections in a row, and the process exits when stdin is closed.
func TestChildScriptMode(t *testing.T) {
	e, err := getEnv()
	if err != nil {
		t.Skip(err)
	}
	jail := filepath.Join(e.base, "scriptjail")
	sock := filepath.Join(e.base, "s2")
	if err := os.MkdirAll(jail, 0o755); err != nil {
		t.Skip(err)
	}
	cmd := exec.Command(e.bin, "-script", "-dotu", "-sock", sock, "-chroot", jail)
	in, _ := cmd.StdinPipe()
	er, _ := cmd.StderrPipe()
	if err := cmd.Start(); err != nil {
		t.Fatalf("harness: start: %v", err)
	}
	if l, _ := bufio.NewReader(er).ReadString('\n'); l != "READY\n" {
		t.Fatalf("harness: srvchild -script said %q instead of READY", l)
	}
	for i := 0; i < 3; i++ {
		c, err := net.Dial("unix", sock)
		if err != nil {
			t.Fatalf("harness: dial: %v", err)
		}
		r := rawc.New(c)
		if v, err := r.Version(8192, "9P2000.u"); err != nil || v.Type != ref9p.Rversion || v.Version != "9P2000.u" {
			t.Fatalf("harness: script child Tversion: %v %v", v, err)
		}
		if a, err := r.Attach(1, ref9p.NOFID, "root", "x", 0); err != nil || a.Type != ref9p.Rattach {
			t.Fatalf("harness: script child Tattach: %v %v", a, err)
		}
		if w, err := r.Walk(1, 2, "a", "f"); err != nil || w.Type != ref9p.Rwalk || len(w.Wqid) != 2 {
			t.Fatalf("harness: script child Twalk: %v %v", w, err)
		}
		c.Close()
	}
	in.Close()
	done := make(chan error, 1)
	go func() { done <- cmd.Wait() }()
	select {
	case err := <-done:
		if err != nil {
			t.Fatalf("harness: srvchild exit: %v", err)
		}
	case <-time.After(10 * time.Second):
		_ = cmd.Process.Kill()
		t.Fatalf("harness: srvchild did not exit after stdin was closed")
	}
}
