// C18 — Ufs confines clients to the exported root.
package c18

import (
	"encoding/json"
	"fmt"
	"path"
	"sort"
	"strings"
	"testing"

	"pgregory.net/rapid"
	"verif/internal/hx"
)

func TestMain(m *testing.M) { hx.Main(m, "C18") }

// ---------------------------------------------------------------- generator

var plainNames = []string{"a", "b", "c", "d", "e", "f", "g", "l", "m"}

// gtree is the generator's view of the tree (only used to draw interesting
// names; every verdict comes from the jail's file system).
type gtree struct {
	nodes []Node
	kind  map[string]string // path -> kind ("" is the root, a directory)
}

func (g *gtree) dirs() []string {
	var out []string
	for p, k := range g.kind {
		if k == "d" {
			out = append(out, p)
		}
	}
	sort.Strings(out)
	return out
}

func (g *gtree) all() []string {
	var out []string
	for p := range g.kind {
		out = append(out, p)
	}
	sort.Strings(out)
	return out
}

func (g *gtree) files() []string {
	var out []string
	for p, k := range g.kind {
		if k == "f" {
			out = append(out, p)
		}
	}
	sort.Strings(out)
	return out
}

func (g *gtree) children(dir string) []string {
	var out []string
	for p := range g.kind {
		if p != "" && path.Dir("/"+p) == "/"+dir {
			out = append(out, path.Base(p))
		}
	}
	sort.Strings(out)
	return out
}

func depthOf(p string) int {
	if p == "" {
		return 0
	}
	return strings.Count(p, "/") + 1
}

func split(p string) []string {
	if p == "" {
		return nil
	}
	return strings.Split(p, "/")
}

func join(dir, name string) string {
	if dir == "" {
		return name
	}
	return dir + "/" + name
}

func (g *gtree) add(t *rapid.T, dir, kind string) {
	var free []string
	for _, n := range plainNames {
		if _, used := g.kind[join(dir, n)]; !used {
			free = append(free, n)
		}
	}
	if len(free) == 0 {
		return
	}
	name := rapid.SampledFrom(free).Draw(t, "name")
	n := Node{Path: join(dir, name), Kind: kind}
	if kind == "l" {
		// inward link texts only: the number of ".." never exceeds the depth
		// of the directory that holds the link
		d := depthOf(dir)
		cands := []string{".", rapid.SampledFrom(plainNames).Draw(t, "lt1"), rapid.SampledFrom(plainNames).Draw(t, "lt2") + "/" + rapid.SampledFrom(plainNames).Draw(t, "lt3")}
		if d >= 1 {
			cands = append(cands, "..", "../"+rapid.SampledFrom(plainNames).Draw(t, "lt4"))
		}
		if d >= 2 {
			cands = append(cands, "../..")
		}
		n.Target = rapid.SampledFrom(cands).Draw(t, "target")
		if symlinkLeaves(n.Path, n.Target) {
			n.Target = "."
		}
	}
	g.nodes = append(g.nodes, n)
	g.kind[n.Path] = kind
}

func genTree(t *rapid.T) *gtree {
	g := &gtree{kind: map[string]string{"": "d"}}
	spine := rapid.IntRange(0, 4).Draw(t, "spine")
	dir := ""
	for i := 0; i < spine; i++ {
		before := len(g.nodes)
		g.add(t, dir, "d")
		if len(g.nodes) == before {
			break
		}
		dir = g.nodes[len(g.nodes)-1].Path
	}
	if rapid.IntRange(0, 3).Draw(t, "mirror") == 0 {
		// the jail's own names once more inside the root, so that names which
		// spell the export's host path resolve some way when they are (as they
		// must be) taken relative to the root
		for _, n := range []Node{{Path: upName, Kind: "d"}, {Path: upName + "/" + exportName, Kind: "d"}, {Path: upName + "/canary", Kind: "f"},
			{Path: upName + "/" + exportName + "/a", Kind: "d"}, {Path: "top-canary", Kind: "f"}}[:rapid.IntRange(2, 5).Draw(t, "nmirror")] {
			g.nodes = append(g.nodes, n)
			g.kind[n.Path] = n.Kind
		}
	}
	extra := rapid.IntRange(0, 8).Draw(t, "extra")
	for i := 0; i < extra; i++ {
		ds := g.dirs()
		d := rapid.SampledFrom(ds).Draw(t, "parent")
		g.add(t, d, rapid.SampledFrom([]string{"d", "f", "f", "l"}).Draw(t, "kind"))
	}
	return g
}

// tails are the places outside the root (relative to the root's parent) that
// a climbing name aims at, plus new names there.
var tailsNext = []string{"canary", "sibling", "sibling/sfile", "sibling/sdir/deep", "sibling/sdir", "zlink", "newx", "sibling/newy", exportName, exportName + "/a", "",
	exportName + "-private", exportName + "-private/pfile", exportName + "-private/newp", exportName + "2/x", exportName + "2/newq", exportName + ".bak/b", exportName + ".bak"}

// rootExt are the places in neighbours whose directory name starts with the
// root's own directory name.
var rootExt = []string{"-private", "-private/pfile", "-private/newp", "-private/pfile/..", "2", "2/x", "2/newq", ".bak/b", ".bak/newr", "-private/../" + exportName + "2/x"}
var tailsAbove = []string{"top-canary", upName, upName + "/canary", upName + "/sibling/sfile", "newtop", upName + "/" + exportName, ""}

func ups(k int) string { return strings.Repeat("../", k) }

// Host paths as the chrooted child sees them (its Ufs.Root is rootInJail):
// building blocks of names that embed the server's own idea of where the
// export, its parent and the objects around it are.
const parentInJail = "/" + upName

// rootSpellings: the export's own absolute path (three times: the exact
// string the server was given) and unclean or relative spellings of it.
var rootSpellings = []string{rootInJail, rootInJail, rootInJail,
	rootInJail + "/", "/" + rootInJail, parentInJail + "//" + exportName, parentInJail + "/./" + exportName, rootInJail + "/.",
	parentInJail + "/sibling/../" + exportName, "/." + rootInJail, rootInJail + "/../" + exportName, upName + "/" + exportName}

var parentSpellings = []string{parentInJail, parentInJail, parentInJail + "/", "/" + parentInJail, parentInJail + "/.", upName,
	rootInJail + "/..", parentInJail + "/sibling/.."}

// canaryPaths: absolute jail paths of objects outside the root.
var canaryPaths = []string{parentInJail + "/canary", "/top-canary", parentInJail + "/sibling/sfile", parentInJail + "/sibling", parentInJail + "/sibling/sdir/deep",
	parentInJail + "/zlink", rootInJail + "-private/pfile", rootInJail + "-private", rootInJail + "2/x", rootInJail + ".bak/b"}

// afterPath: what follows an embedded host path.
var afterPath = []string{"/..", "/../canary", "/../sibling/sfile", "/../newx", "/../../top-canary", "/../..", "/../" + exportName + "-private/pfile",
	"/../" + exportName, "/../" + exportName + "/..", "/.", "/", "", "/a", "/newname", "/../../" + upName + "/canary"}

// hostileName draws one name of the grammar; depth is the depth of the
// directory the server will resolve it in. level bounds the recursion.
func hostileName(t *rapid.T, depth, level int) (string, string) {
	real := func() string { return rapid.SampledFrom(plainNames).Draw(t, "real") }
	shape := rapid.IntRange(0, 21).Draw(t, "shape")
	if level >= 2 && shape >= 12 && shape <= 15 {
		shape -= 8
	}
	switch shape {
	case 16: // a neighbour whose name extends the root's name
		return ups(depth+1) + exportName + rapid.SampledFrom(rootExt).Draw(t, "ext"), "root-name-extended"
	case 17: // the same relative to the root (rename targets starting with '/')
		pre := rapid.SampledFrom([]string{"/../", "/a/../../", "/./../", "//../"}).Draw(t, "pre")
		return pre + exportName + rapid.SampledFrom(rootExt).Draw(t, "ext"), "root-name-extended-abs"
	case 18: // the export's own host path first, then down and further up than down
		n := rapid.SampledFrom(rootSpellings).Draw(t, "rootsp")
		down := 0
		for i, m := 0, rapid.IntRange(0, 3).Draw(t, "mid"); i < m; i++ {
			el := rapid.SampledFrom([]string{"a", "b", "sub", ".", ""}).Draw(t, "el")
			if i == 0 && rapid.Bool().Draw(t, "realel") {
				el = real()
			}
			if el != "." && el != "" {
				down++
			}
			n += "/" + el
		}
		over := rapid.SampledFrom([]int{1, 1, 1, 2, 2, 3}).Draw(t, "over")
		n += "/" + ups(down+over)
		if over == 1 {
			n += rapid.SampledFrom(tailsNext).Draw(t, "tail")
		} else {
			n += rapid.OneOf(rapid.SampledFrom(tailsAbove), rapid.SampledFrom(tailsNext)).Draw(t, "tail")
		}
		return n, "hostpath-root-first"
	case 19: // the host path of the root's parent or of a canary first
		switch rapid.IntRange(0, 3).Draw(t, "how") {
		case 0:
			return rapid.SampledFrom(parentSpellings).Draw(t, "parentsp") + "/" + rapid.SampledFrom(tailsNext).Draw(t, "tail"), "hostpath-outside-first"
		case 1:
			return rapid.SampledFrom(parentSpellings).Draw(t, "parentsp") + "/../" + rapid.SampledFrom(tailsAbove).Draw(t, "tail"), "hostpath-outside-first"
		case 2:
			// a canary's path, back up to the root's parent (or to the top), then a tail
			c := rapid.SampledFrom(canaryPaths).Draw(t, "canary")
			if n := strings.Count(c, "/") - 1; n > 0 {
				return c + strings.Repeat("/..", n) + "/" + rapid.SampledFrom(tailsNext).Draw(t, "tail"), "hostpath-outside-first"
			}
			return c + "/../" + rapid.SampledFrom(tailsAbove).Draw(t, "tail"), "hostpath-outside-first"
		}
		return rapid.SampledFrom(canaryPaths).Draw(t, "canary") + rapid.SampledFrom(afterPath).Draw(t, "after"), "hostpath-outside-first"
	case 20, 21: // a host path in the middle (20) or at the end (21) of the name
		k := rapid.IntRange(1, depth+3).Draw(t, "k")
		pre := rapid.SampledFrom([]string{"./", real() + "/../", real() + "/", ups(depth + 1), ups(k), "/../", "/" + ups(k), "//", "/./",
			real() + "/" + ups(k+1), "../" + exportName + "/", ups(depth+1) + exportName + "/../"}).Draw(t, "pre")
		x := rapid.OneOf(rapid.SampledFrom(rootSpellings), rapid.SampledFrom(rootSpellings), rapid.SampledFrom(parentSpellings), rapid.SampledFrom(canaryPaths)).Draw(t, "x")
		if rapid.Bool().Draw(t, "strip") {
			x = strings.TrimLeft(x, "/")
		}
		if shape == 21 {
			return pre + x, "hostpath-last"
		}
		return pre + x + rapid.SampledFrom(afterPath).Draw(t, "after"), "hostpath-middle"
	case 0:
		return "..", "dotdot"
	case 1:
		return rapid.SampledFrom([]string{".", "", "/", "//", "./", "/."}).Draw(t, "deg"), "degenerate"
	case 2: // exactly up to the parent of the root, aiming at something there
		return ups(depth+1) + rapid.SampledFrom(tailsNext).Draw(t, "tail"), "up-next"
	case 3: // two above the root
		return ups(depth+2) + rapid.SampledFrom(tailsAbove).Draw(t, "tail"), "up-above"
	case 4: // any number of levels, any tail
		k := rapid.OneOf(rapid.IntRange(1, depth+3), rapid.IntRange(1, 40)).Draw(t, "k")
		tail := rapid.OneOf(rapid.SampledFrom(tailsNext), rapid.SampledFrom(tailsAbove), rapid.SampledFrom(plainNames)).Draw(t, "tail")
		return ups(k) + tail, "up-k"
	case 5: // bare chains
		k := rapid.IntRange(1, depth+3).Draw(t, "k")
		return strings.TrimSuffix(ups(k), "/"), "dotdots"
	case 6: // absolute paths of the jail
		return "/" + rapid.SampledFrom([]string{upName + "/canary", upName + "/sibling/sfile", upName + "/sibling", "top-canary", upName, upName + "/" + exportName, upName + "/" + exportName + "/a", upName + "/newabs", "a", "a/b", "newroot"}).Draw(t, "abs"), "absolute"
	case 7: // absolute with dot-dots
		k := rapid.IntRange(1, 3).Draw(t, "k")
		return "/" + ups(k) + rapid.OneOf(rapid.SampledFrom(tailsNext), rapid.SampledFrom(tailsAbove)).Draw(t, "tail"), "absolute-up"
	case 8: // down, then further up than down
		down := rapid.IntRange(1, 3).Draw(t, "down")
		var el []string
		for i := 0; i < down; i++ {
			el = append(el, real())
		}
		k := down + rapid.IntRange(0, depth+2).Draw(t, "k")
		n := strings.Join(el, "/") + "/" + strings.TrimSuffix(ups(k), "/")
		if tail := rapid.OneOf(rapid.SampledFrom(tailsNext), rapid.SampledFrom(tailsAbove), rapid.Just("")).Draw(t, "tail"); tail != "" {
			n += "/" + tail
		}
		return n, "down-up"
	case 9: // slashes that stay inside
		return real() + "/" + real(), "real/real"
	case 10: // look-alikes that are plain names
		return rapid.SampledFrom([]string{"...", "..a", "a..", ".. ", " ..", "..\\x", ".a"}).Draw(t, "like"), "lookalike"
	case 11: // out and back in
		return ups(depth+1) + exportName + "/" + real(), "out-and-in"
	case 12:
		n, _ := hostileName(t, depth, level+1)
		return "/" + n, "slash+N"
	case 13:
		a, _ := hostileName(t, depth, level+1)
		b, _ := hostileName(t, depth, level+1)
		return a + "/" + b, "N/N"
	case 14:
		n, _ := hostileName(t, depth, level+1)
		return rapid.SampledFrom([]string{"./", "//", "././"}).Draw(t, "pre") + n, "dot/N"
	default:
		n, _ := hostileName(t, depth, level+1)
		return n + rapid.SampledFrom([]string{"/", "/.", "//", "/./"}).Draw(t, "suf"), "N/dot"
	}
}

// soften is the replacement used when a listed finding is steered around:
// every ".." element becomes ".".
func soften(name string) string {
	el := strings.Split(name, "/")
	for i := range el {
		if el[i] == ".." {
			el[i] = "."
		}
	}
	return strings.Join(el, "/")
}

var allAccesses = []string{"stat", "read", "write", "wstat", "remove"}

func genAccesses(t *rapid.T) []string {
	switch rapid.IntRange(0, 3).Draw(t, "accmode") {
	case 0:
		return append([]string(nil), allAccesses...)
	case 1:
		return []string{"stat", "read"}
	}
	acc := rapid.SliceOfNDistinct(rapid.SampledFrom(allAccesses), 1, 5, rapid.ID[string]).Draw(t, "acc")
	return acc
}

// genProbe draws one probe. vec == "" draws the vector too; plain asks for a
// probe with ordinary names only (it changes the tree between hostile probes).
func genProbe(t *rapid.T, g *gtree, vec string, plain bool) Probe {
	if vec == "" {
		vec = rapid.SampledFrom([]string{"attach", "walk", "walk", "create", "create", "rename", "rename"}).Draw(t, "vec")
	}
	p := Probe{Vec: vec, Acc: genAccesses(t)}
	p.Trunc = rapid.Bool().Draw(t, "trunc")
	p.Wst = rapid.SampledFrom([]string{"mode", "mtime", "length"}).Draw(t, "wst")
	p.Keep = rapid.IntRange(0, 3).Draw(t, "keep") == 0
	p.Prev = rapid.IntRange(0, 4).Draw(t, "prev") == 0
	name := func(depth int) (string, string) {
		if plain || rapid.IntRange(0, 5).Draw(t, "plainname") == 0 {
			return rapid.SampledFrom(plainNames).Draw(t, "pn"), "plain"
		}
		return hostileName(t, depth, 0)
	}
	switch vec {
	case "attach":
		p.Prev = false
		n, sh := name(0)
		if sh == "plain" && rapid.Bool().Draw(t, "existing") {
			n = rapid.SampledFrom(g.all()).Draw(t, "node")
		}
		p.Names, p.Shape, p.Depth = []string{n}, sh, 0

	case "walk":
		dir := rapid.SampledFrom(g.dirs()).Draw(t, "base")
		p.Base, p.Depth = split(dir), depthOf(dir)
		p.Inplace = rapid.IntRange(0, 3).Draw(t, "inplace") == 0
		n := rapid.OneOf(rapid.IntRange(0, 3), rapid.IntRange(1, 16)).Draw(t, "nwname")
		pos, known := dir, true // model position while the elements are plain
		var shapes []string
		for i := 0; i < n; i++ {
			if known && rapid.IntRange(0, 2).Draw(t, "follow") == 0 {
				if ch := g.children(pos); len(ch) > 0 {
					c := rapid.SampledFrom(ch).Draw(t, "child")
					p.Names = append(p.Names, c)
					pos = join(pos, c)
					known = g.kind[pos] == "d"
					shapes = append(shapes, "child")
					if g.kind[pos] == "l" && rapid.Bool().Draw(t, "through-link") {
						// up again through an (inward) link: the host resolves
						// ".." from where the link points, not from where it is
						k := rapid.IntRange(1, p.Depth+3).Draw(t, "k")
						for j := 0; j < k && len(p.Names) < 16; j++ {
							p.Names = append(p.Names, "..")
							shapes = append(shapes, "dotdot-after-link")
							i++
						}
					}
					continue
				}
			}
			d := depthOf(pos)
			if !known {
				d = p.Depth
			}
			el, sh := name(d)
			if strings.Contains(el, "/") && rapid.IntRange(0, 3).Draw(t, "split") == 0 {
				// the same name spelt as separate walk elements
				for _, part := range strings.Split(el, "/") {
					if len(p.Names) < 16 {
						p.Names = append(p.Names, part)
						i++
					}
				}
				shapes = append(shapes, sh, "split-into-elements")
				known = false
				continue
			}
			p.Names = append(p.Names, el)
			shapes = append(shapes, sh)
			switch {
			case !known:
			case el == "..":
				if pos != "" {
					pos = strings.TrimPrefix(path.Dir("/"+pos), "/")
				}
			case el == "." || el == "":
			case sh == "plain" && g.kind[join(pos, el)] == "d":
				pos = join(pos, el)
			default:
				known = false
			}
		}
		p.Shape = strings.Join(shapes, ",")

	case "create":
		dir := rapid.SampledFrom(g.dirs()).Draw(t, "base")
		p.Base, p.Depth = split(dir), depthOf(dir)
		p.Kind = rapid.SampledFrom([]string{"file", "file", "dir", "dir", "symlink", "link", "pipe", "pipe", "device", "socket"}).Draw(t, "ckind")
		special := p.Kind == "pipe" || p.Kind == "device" || p.Kind == "socket"
		if p.Kind != "dir" && (special || rapid.Bool().Draw(t, "drawmode")) {
			// (an existing directory can only be opened OREAD)
			m := rapid.SampledFrom([]uint8{oread, oread, oread, owrite, ordwr, oread | otrunc}).Draw(t, "omode")
			p.OMode = &m
		}
		n, sh := name(p.Depth)
		dotOneIn := 4
		if special {
			dotOneIn = 2
		}
		if rapid.IntRange(1, dotOneIn).Draw(t, "dotname") == 1 {
			// names that exist in every directory
			n, sh = rapid.SampledFrom([]string{"..", ".", ""}).Draw(t, "dn"), "dot-entry"
		}
		p.Names, p.Shape = []string{n}, sh
		switch p.Kind {
		case "symlink":
			// inward whatever directory a confining server could put it in:
			// no ".." at all unless the name is a single plain element
			cands := []string{".", rapid.SampledFrom(plainNames).Draw(t, "e1"), rapid.SampledFrom(plainNames).Draw(t, "e2") + "/" + rapid.SampledFrom(plainNames).Draw(t, "e3")}
			if !hostile(n) && p.Depth >= 1 && !p.Prev {
				cands = append(cands, "..")
			}
			p.Ext = rapid.SampledFrom(cands).Draw(t, "ext")
		case "link":
			if fs := g.files(); len(fs) > 0 {
				p.LinkSrc = split(rapid.SampledFrom(fs).Draw(t, "linksrc"))
			} else {
				p.Kind = "file"
			}
		}
		if !hostile(n) && n != "." && n != "" {
			// generator's model: the object may now exist
			k := map[string]string{"file": "f", "dir": "d", "symlink": "l", "link": "f", "socket": "f"}[p.Kind]
			if _, exists := g.kind[join(dir, n)]; !exists && k != "" {
				g.kind[join(dir, n)] = k
			}
		}

	case "rename":
		objs := g.all()
		obj := rapid.SampledFrom(objs).Draw(t, "obj")
		p.Base = split(obj)
		p.Depth = depthOf(obj) - 1
		if obj == "" {
			p.Depth = 0
		}
		n, sh := name(p.Depth)
		p.Names, p.Shape = []string{n}, sh
	}
	// a listed finding is steered around three times out of four
	if id := findingOf(vec); hx.IsKnown(id) && (probeClimbs(&p, false) || p.Prev && anyDotDot(p.Names)) {
		if rapid.IntRange(0, 3).Draw(t, "keep-known") != 0 {
			hx.Excluded(id)
			for i := range p.Names {
				p.Names[i] = soften(p.Names[i])
			}
			if vec == "rename" && len(p.Base) == 0 {
				p.Names[0] = ""
			}
			p.Shape += " (softened)"
		}
	}
	return p
}

func anyDotDot(names []string) bool {
	for _, n := range names {
		if hasDotDot(n) {
			return true
		}
	}
	return false
}

func genCase(t *rapid.T, vec string) *Case {
	g := genTree(t)
	c := &Case{Tree: g.nodes, Dotu: rapid.IntRange(0, 3).Draw(t, "dotu") != 0}
	n := rapid.IntRange(1, 6).Draw(t, "nprobes")
	for i := 0; i < n; i++ {
		plain := rapid.IntRange(0, 5).Draw(t, "plainprobe") == 0
		v := vec
		if plain {
			v = ""
		}
		c.Probes = append(c.Probes, genProbe(t, g, v, plain))
	}
	return c
}

func labelCase(c *Case) {
	for i := range c.Probes {
		p := &c.Probes[i]
		for _, sh := range strings.Split(p.Shape, ",") {
			if sh != "" {
				hx.Label("vec=" + p.Vec + " shape=" + sh)
			}
		}
		if p.Vec == "create" {
			hx.Label("create kind=" + p.Kind)
		}
		if p.Vec == "walk" {
			n := len(p.Names)
			cl := "0"
			switch {
			case n == 1:
				cl = "1"
			case n >= 2 && n <= 4:
				cl = "2-4"
			case n >= 5 && n <= 15:
				cl = "5-15"
			case n == 16:
				cl = "16"
			}
			hx.Label("walk nwname=" + cl)
		}
	}
}

// needEnv skips a test when the jail or the child could not be set up at all
// (infrastructure: reported as inconclusive, never as a failed property).
func needEnv(t *testing.T) {
	if _, err := getEnv(); err != nil {
		hx.Inconclusive(err.Error())
		t.Skip(err.Error())
	}
}

func runProp(t *testing.T, test, vec string, quick, thorough int) {
	needEnv(t)
	hx.Check(t, test, hx.N(quick, thorough), func(t *rapid.T) {
		c := genCase(t, vec)
		hx.Journal(test, c)
		hx.Sample(test, c)
		labelCase(c)
		if err := RunCase(c); err != nil {
			if isInfra(err) {
				hx.Inconclusive(err.Error())
				t.Skip(err.Error())
			}
			hx.Failf(t, test, c, "%v", err)
		}
	})
}

// One property per vector (so that each vector is searched, shrunk and
// reported on its own) and one with all of them mixed in a session.
// (counts are per shard: the quick tier runs 2 shards, the thorough tier 16)
func TestPropAttach(t *testing.T) { runProp(t, "attach", "attach", 150, 2000) }
func TestPropWalk(t *testing.T)   { runProp(t, "walk", "walk", 200, 2500) }
func TestPropCreate(t *testing.T) { runProp(t, "create", "create", 150, 2000) }
func TestPropRename(t *testing.T) { runProp(t, "rename", "rename", 150, 2000) }
func TestPropMixed(t *testing.T)  { runProp(t, "mixed", "", 150, 2500) }

// ---------------------------------------------------------------- pipelined requests on one fid

// genRaceCase draws 2..6 rounds. Every round has its own spine t<i>/a/v[/w]
// (depth 2..4, the last element a directory or a file); the fid is walked to
// its end and 2..4 requests naming that fid are sent in one chunk: a rename
// whose target climbs as far as it can while staying inside the root from
// where the fid is (with chmod / chown, which the server does first), and
// requests that move the same fid meanwhile - in-place walks with "..",
// renames to a shallower place, a create - in a drawn order. Whatever
// interleaving the server produces must stay confined.
func genRaceCase(t *rapid.T) *Case {
	c := &Case{Dotu: rapid.IntRange(0, 4).Draw(t, "dotu") != 0}
	n := rapid.IntRange(2, 6).Draw(t, "rounds")
	for i := 0; i < n; i++ {
		depth := rapid.IntRange(2, 4).Draw(t, "depth")
		els := []string{fmt.Sprintf("t%d", i), "a", "v", "w"}[:depth]
		file := rapid.IntRange(0, 4).Draw(t, "file") == 0
		for k := 1; k <= depth; k++ {
			kind := "d"
			if k == depth && file {
				kind = "f"
			}
			c.Tree = append(c.Tree, Node{Path: strings.Join(els[:k], "/"), Kind: kind})
		}
		climb := func(label string) RaceOp {
			// parent of the fid is depth-1 levels below the root
			j := rapid.SampledFrom([]int{depth - 1, depth - 1, depth - 1, depth - 2, depth, 1}).Draw(t, label)
			if j < 0 {
				j = 0
			}
			return RaceOp{Op: "rename", Name: ups(j) + fmt.Sprintf("m%d%s", i, label), Chmod: rapid.IntRange(0, 3).Draw(t, "chmod") != 0, Chown: rapid.IntRange(0, 3).Draw(t, "chown") != 0}
		}
		ops := []RaceOp{climb("x")}
		extra := rapid.IntRange(1, 3).Draw(t, "extra")
		for k := 0; k < extra; k++ {
			switch rapid.SampledFrom([]int{0, 0, 0, 1, 2, 3, 4, 5}).Draw(t, "racer") {
			case 0:
				ops = append(ops, RaceOp{Op: "walk", Names: strings.Split(strings.TrimSuffix(ups(rapid.IntRange(1, 2).Draw(t, "k")), "/"), "/")})
			case 1:
				ops = append(ops, RaceOp{Op: "rename", Name: fmt.Sprintf("/r%d_%d", i, k)})
			case 2:
				ops = append(ops, RaceOp{Op: "rename", Name: fmt.Sprintf("../s%d_%d", i, k), Chmod: rapid.Bool().Draw(t, "chmod2")})
			case 3:
				ops = append(ops, RaceOp{Op: "create", Name: fmt.Sprintf("c%d", k), Dir: rapid.Bool().Draw(t, "cdir")})
			case 4:
				ops = append(ops, climb(fmt.Sprintf("y%d", k)))
			default:
				ops = append(ops, RaceOp{Op: "stat"})
			}
		}
		ops = rapid.Permutation(ops).Draw(t, "order")
		c.Races = append(c.Races, Race{Base: els, Ops: ops})
	}
	return c
}

func TestPropRace(t *testing.T) {
	needEnv(t)
	hx.Check(t, "race", hx.N(300, 4000), func(t *rapid.T) {
		c := genRaceCase(t)
		hx.Journal("race", c)
		hx.Sample("race", c)
		if err := RunCase(c); err != nil {
			if isInfra(err) {
				hx.Inconclusive(err.Error())
				t.Skip(err.Error())
			}
			hx.Failf(t, "race", c, "%v", err)
		}
	})
}

func TestReplay(t *testing.T) {
	e, err := hx.LoadReplay()
	if e == nil {
		t.Skip("no replay file", err)
	}
	replayEnv(t, e)
}

func replayEnv(t *testing.T, e *hx.Envelope) {
	var c Case
	if err := json.Unmarshal(e.Case, &c); err != nil {
		t.Fatalf("bad case: %v", err)
	}
	hx.Journal(e.Test, &c)
	if err := RunCase(&c); err != nil {
		if isInfra(err) {
			hx.Inconclusive(err.Error())
			return
		}
		hx.Violation(e.Test, &c, err.Error())
		t.Errorf("%v", err)
	}
}

func TestRegress(t *testing.T) {
	for _, e := range hx.Regressions() {
		replayEnv(t, e)
		hx.Label("regress")
	}
}

// ---------------------------------------------------------------- enumeration

// enumTree is the fixed tree of the enumerations:
//
//	a/            directory
//	a/b/          directory
//	a/b/c         file
//	a/b/up -> ..  symlink to a (inward)
//	a/f           file
//	a/l -> b      symlink to a directory
//	f             file
//	l -> a        symlink to a directory
func enumTree() []Node {
	return []Node{
		{Path: "a", Kind: "d"}, {Path: "a/b", Kind: "d"}, {Path: "a/b/c", Kind: "f"}, {Path: "a/b/up", Kind: "l", Target: ".."},
		{Path: "a/f", Kind: "f"}, {Path: "a/l", Kind: "l", Target: "b"}, {Path: "f", Kind: "f"}, {Path: "l", Kind: "l", Target: "a"},
	}
}

// enumNames is the finite name list used at depth d: every degenerate name,
// every climbing chain of 1..d+2 levels with every tail, absolute jail paths,
// down-and-up names through directories and through the inward symlinks, and
// names that hold the host path of the export, its parent or a canary.
func enumNames(d int) []string {
	out := []string{"..", ".", "", "/", "//", "./", "...", "..a", "a", "a/b", "a/..", "l/..", "a/b/up/..", "a/b/up/../..", "a/b/up/../../..",
		"newname", "a/newname", "/newname", "/a", "./newname", "newname/"}
	for k := 1; k <= d+2; k++ {
		out = append(out, strings.TrimSuffix(ups(k), "/"), "/"+strings.TrimSuffix(ups(k), "/"), "a/"+ups(k)+"..")
		for _, tl := range tailsNext {
			if tl != "" {
				out = append(out, ups(k)+tl)
			}
		}
		for _, tl := range tailsAbove {
			if tl != "" {
				out = append(out, ups(k)+tl)
			}
		}
	}
	out = append(out, ups(d+1)+exportName+"/f", ups(40)+"top-canary", ups(40)+upName+"/canary")
	for _, x := range rootExt {
		out = append(out, ups(d+1)+exportName+x, "/../"+exportName+x, "a/../"+ups(d+1)+exportName+x, "./"+ups(d+1)+exportName+x)
	}
	for _, tl := range []string{"canary", "sibling/sfile", "newx", upName + "/canary", "top-canary"} {
		out = append(out, "/../"+tl, "/../../"+tl, "a/../../"+tl, "a/b/../../../"+tl, "l/../../"+tl, "./../"+tl, "f/../../"+tl)
	}
	for _, ab := range []string{upName + "/canary", upName + "/sibling/sfile", upName + "/sibling", "top-canary", upName, upName + "/" + exportName, upName + "/newabs"} {
		out = append(out, "/"+ab)
	}
	// names that embed the export's own host path (as the server sees it),
	// its parent's and the canaries', at the start, in the middle and at the end
	for _, a := range afterPath {
		out = append(out, rootInJail+a)
	}
	for _, a := range []string{"/a/../../canary", "/a/b/../../../sibling/sfile", "/./../canary", "//../canary", "/a/../../../top-canary", "/../../../../" + upName + "/canary", "/f/../../canary", "/sub/../../newx"} {
		out = append(out, rootInJail+a)
	}
	for _, r := range []string{"/" + rootInJail, parentInJail + "//" + exportName, parentInJail + "/./" + exportName, upName + "/" + exportName} {
		out = append(out, r+"/../canary", r+"/..", r+"/../newx")
	}
	out = append(out, parentInJail+"/../top-canary", parentInJail+"/sibling/../canary", parentInJail+"/canary/../sibling/sfile", parentInJail+"/canary/..", parentInJail+"/canary/.",
		"/top-canary/../"+upName+"/canary", parentInJail+"/"+exportName+"-private/../canary", parentInJail+"/zlink", parentInJail+"//canary", parentInJail+"/newabs/../canary",
		"a/.."+rootInJail+"/../canary", "./"+rootInJail+"/../canary", "/.."+rootInJail+"/../canary", "a"+rootInJail+"/../../canary", ups(d+1)+exportName+"/.."+rootInJail+"/../canary",
		ups(d+2)+upName+"/"+exportName+"/../canary", "a/.."+parentInJail+"/canary", "/../.."+rootInJail, "a/.."+rootInJail, ups(d+2)+strings.TrimPrefix(rootInJail, "/")+"/..", "/.."+parentInJail)
	seen := map[string]bool{}
	var uniq []string
	for _, n := range out {
		if !seen[n] {
			seen[n] = true
			uniq = append(uniq, n)
		}
	}
	return uniq
}

var enumBases = [][]string{{}, {"a"}, {"a", "b"}}

// runEnum executes the cases of one enumeration; the first violation of each
// vector is reported, the rest of that vector is still executed and counted.
func runEnum(t *testing.T, test string, cases []*Case) {
	reported := map[string]bool{}
	for i, c := range cases {
		if i%hx.NShards != hx.Shard {
			continue
		}
		hx.Journal(test, c)
		if i%97 == 0 {
			hx.Sample(test, c)
		}
		err := RunCase(c)
		if err == nil {
			continue
		}
		if isInfra(err) {
			hx.Inconclusive(err.Error())
			continue
		}
		vec := c.Probes[0].Vec
		if v, isV := err.(*violation); isV {
			vec = v.vec
		}
		if !reported[vec] {
			reported[vec] = true
			hx.Violation(test, c, err.Error())
			t.Errorf("%s: %v", test, err)
		}
	}
}

func TestEnumSingle(t *testing.T) {
	var cases []*Case
	one := func(p Probe) {
		p.Acc = allAccesses
		p.Shape = "enum"
		for _, dotu := range []bool{true} {
			cases = append(cases, &Case{Tree: enumTree(), Dotu: dotu, Probes: []Probe{p}})
		}
	}
	// attach
	for _, n := range enumNames(0) {
		one(Probe{Vec: "attach", Names: []string{n}})
	}
	// walk: one hostile element from every depth
	for _, b := range enumBases {
		for _, n := range enumNames(len(b)) {
			one(Probe{Vec: "walk", Base: b, Depth: len(b), Names: []string{n}})
		}
	}
	// create: every kind at every depth
	for _, b := range enumBases {
		for _, n := range enumNames(len(b)) {
			for _, k := range []string{"file", "dir", "symlink", "link", "pipe", "socket", "device"} {
				p := Probe{Vec: "create", Base: b, Depth: len(b), Names: []string{n}, Kind: k}
				if k == "pipe" || k == "socket" || k == "device" {
					// a directory can only be opened for reading
					m := uint8(oread)
					p.OMode = &m
					if k != "pipe" && hostile(n) && n != ".." {
						continue // these two arms are enumerated on the single-entry names only
					}
				}
				if k == "symlink" {
					p.Ext = "."
				}
				if k == "link" {
					p.LinkSrc = []string{"a", "f"}
				}
				one(p)
			}
		}
	}
	// rename: the root, files and directories at every depth
	for _, obj := range [][]string{{}, {"f"}, {"a"}, {"l"}, {"a", "f"}, {"a", "b"}, {"a", "b", "c"}} {
		d := len(obj) - 1
		if d < 0 {
			d = 0
		}
		for _, n := range enumNames(d) {
			one(Probe{Vec: "rename", Base: obj, Depth: d, Names: []string{n}})
		}
	}
	runEnum(t, "enum-single", cases)
	if !t.Failed() {
		hx.Exhaustive(fmt.Sprintf("fixed 8-node tree, .u: every name of the finite list enumNames(depth) (%d..%d names: degenerate names, every '../' chain of 1..depth+2 levels with every outside tail, absolute jail paths, down-and-up through directories and inward symlinks, and names holding the host path of the export (/up/export and four other spellings), of its parent and of the canaries at the start, in the middle and at the end, followed by '..' chains, './', '//' and outside tails) as attach aname, as single walk element from depth 0/1/2, as Tcreate name (file, dir, symlink, link, named pipe opened OREAD; socket and device on the names without '/') at depth 0/1/2 and as Twstat rename target of the root, files, directories and symlinks at depth 0/1/2, each followed by stat, open+read, open+write, wstat, remove: %d sessions",
			len(enumNames(0)), len(enumNames(2)), len(cases)))
	}
}

// TestEnumWalks: every Twalk of 0..3 elements over a 10-element alphabet from
// three depths, to a new fid, followed by stat and open+read (nothing is
// changed, so one tree serves a whole session).
func TestEnumWalks(t *testing.T) {
	alphabet := []string{"..", ".", "a", "b", "l", "up", "", "canary", exportName, "../canary"}
	var seqs [][]string
	var rec func(prefix []string)
	rec = func(prefix []string) {
		seqs = append(seqs, append([]string(nil), prefix...))
		if len(prefix) == 3 {
			return
		}
		for _, a := range alphabet {
			rec(append(prefix, a))
		}
	}
	rec(nil)
	var cases []*Case
	n := 0
	for _, b := range enumBases {
		for lo := 0; lo < len(seqs); lo += 101 {
			hi := lo + 101
			if hi > len(seqs) {
				hi = len(seqs)
			}
			c := &Case{Tree: enumTree(), Dotu: true}
			for _, s := range seqs[lo:hi] {
				c.Probes = append(c.Probes, Probe{Vec: "walk", Base: b, Depth: len(b), Names: s, Acc: []string{"stat", "read"}, Shape: "enum"})
				n++
			}
			cases = append(cases, c)
		}
	}
	runEnum(t, "enum-walks", cases)
	if !t.Failed() {
		hx.Exhaustive(fmt.Sprintf("fixed 8-node tree, .u: every Twalk of 0..3 elements over %q from depth 0, 1 and 2 followed by stat and open+read: %d walks", alphabet, n))
	}
}
