// Executor and oracle of C18: runs one session of probes against the chrooted
// Ufs child and checks, after every probe, that nothing outside the exported
// root was shown to the client or changed.
package c18

import (
	"bytes"
	"fmt"
	"os"
	"path"
	"strconv"
	"strings"
	"time"

	"verif/internal/hx"
	"verif/internal/rawc"
	"verif/internal/ref9p"
)

// Finding ids, one per vector (used only while listed with status "known").
const (
	idAttach = "ufs-attach-aname-leaves-root"
	idWalk   = "ufs-walk-element-leaves-root"
	idCreate = "ufs-create-name-leaves-root"
	idRename = "ufs-rename-target-leaves-root"
)

func findingOf(vec string) string {
	switch vec {
	case "attach":
		return idAttach
	case "walk":
		return idWalk
	case "create":
		return idCreate
	case "rename":
		return idRename
	}
	return ""
}

const (
	qtDir     = 0x80
	qtSymlink = 0x02
	dmDir     = 0x80000000
	dmSymlink = 0x02000000
	dmLink    = 0x01000000
	dmDevice  = 0x00800000
	dmPipe    = 0x00200000
	dmSocket  = 0x00100000

	oread  = 0
	owrite = 1
	ordwr  = 2
	otrunc = 16
)

// Node is one object of the tree built inside the exported root before the
// session (parents before children).
type Node struct {
	Path   string `json:"p"`           // relative to the root, '/'-separated
	Kind   string `json:"k"`           // d, f, l
	Target string `json:"t,omitempty"` // l: link text (relative, never leaves the root)
}

// Probe is one use of a client-chosen name followed by accesses to whatever
// fid the server then gives out.
type Probe struct {
	Vec     string   `json:"vec"`               // attach, walk, create, rename
	Base    []string `json:"base,omitempty"`    // plain names walked from the root fid to the starting fid (walk, create: a directory; rename: the object)
	Prev    bool     `json:"prev,omitempty"`    // start from the fid kept by the previous probe instead, if there is one
	Names   []string `json:"names"`             // attach: [aname]; walk: the elements (0..16); create: [name]; rename: [target]
	Kind    string   `json:"kind,omitempty"`    // create: file, dir, symlink, link, pipe, device, socket
	OMode   *uint8   `json:"omode,omitempty"`   // create: open mode of the Tcreate (default: OREAD for dir, ORDWR otherwise)
	Ext     string   `json:"ext,omitempty"`     // create symlink: link text (inward)
	LinkSrc []string `json:"linksrc,omitempty"` // create link: plain names from the root to the file linked to
	Inplace bool     `json:"inplace,omitempty"` // walk: newfid == fid
	Acc     []string `json:"acc,omitempty"`     // accesses on the resulting fid, in order: stat, read, write, wstat, remove
	Trunc   bool     `json:"trunc,omitempty"`   // write access opens with OTRUNC
	Wst     string   `json:"wst,omitempty"`     // wstat access: mode, mtime, length
	Keep    bool     `json:"keep,omitempty"`    // leave the resulting fid for the next probe
	Shape   string   `json:"shape,omitempty"`   // generator's note about the names
	Depth   int      `json:"depth"`             // generator's note: depth of the directory the names are resolved in
}

type Case struct {
	Tree   []Node  `json:"tree"`
	Dotu   bool    `json:"dotu"` // dialect proposed by the client (the server speaks 9P2000.u)
	Probes []Probe `json:"probes"`
	Races  []Race  `json:"races,omitempty"`
}

// RaceOp is one of the requests pipelined on the same fid.
type RaceOp struct {
	Op    string   `json:"op"`              // rename, walk, create, stat
	Name  string   `json:"name,omitempty"`  // rename target / create name
	Names []string `json:"names,omitempty"` // walk elements (newfid == fid)
	Chmod bool     `json:"chmod,omitempty"` // rename: the Twstat also sets the mode ...
	Chown bool     `json:"chown,omitempty"` // ... and (9P2000.u) the owner, both done before the rename
	Dir   bool     `json:"dir,omitempty"`   // create: a directory
}

// Race is one round: a fid is walked to Base (plain names from the root), then
// all Ops, every one naming that fid, are written in one chunk.
type Race struct {
	Base []string `json:"base"`
	Ops  []RaceOp `json:"ops"`
}

// violation is a breach of the property (anything else returned by the
// executor is an infrastructure error).
type violation struct {
	vec   string
	probe int
	msg   string
}

func (v *violation) Error() string {
	return fmt.Sprintf("probe %d (%s): %s", v.probe, v.vec, v.msg)
}

// hasDotDot reports whether one of the '/'-separated elements of a name is "..".
func hasDotDot(name string) bool {
	for _, el := range strings.Split(name, "/") {
		if el == ".." {
			return true
		}
	}
	return false
}

func hostile(name string) bool { return hasDotDot(name) || strings.Contains(name, "/") }

// climbs reports whether resolving the names one after the other, purely
// lexically and without any clamping, from a directory depth levels below the
// root ever gets above the root.
func climbs(names []string, depth int) bool {
	d := depth
	for _, n := range names {
		for _, el := range strings.Split(n, "/") {
			switch el {
			case "", ".":
			case "..":
				d--
				if d < 0 {
					return true
				}
			default:
				d++
			}
		}
	}
	return false
}

// embedsHostPath reports whether the name holds, from some element boundary
// on, a path that begins with one of the jail's top-level names and that - read
// as a path of the server's own file system instead of relative to the root
// or to a directory below it - lexically designates something outside the
// exported root ("/up/export/../canary", "a/../up/canary", "up/export/..").
func embedsHostPath(name string) bool {
	for i := 0; i < len(name); i++ {
		if i > 0 && name[i-1] != '/' {
			continue
		}
		el, _, _ := strings.Cut(name[i:], "/")
		if el != upName && el != "top-canary" {
			continue
		}
		c := path.Clean("/" + name[i:])
		if c != rootInJail && !strings.HasPrefix(c, rootInJail+"/") {
			return true
		}
	}
	return false
}

// probeClimbs applies climbs with the starting depth the unrepaired server
// would use for the vector. viaPrev: the probe starts from the fid kept by an
// earlier probe, whose depth is not known (taken as 0).
func probeClimbs(p *Probe, viaPrev bool) bool {
	depth := p.Depth
	if viaPrev {
		depth = 0
	}
	switch p.Vec {
	case "attach":
		return climbs(p.Names, 0)
	case "rename":
		if len(p.Names) == 1 && strings.HasPrefix(p.Names[0], "/") {
			return climbs(p.Names, 0)
		}
		if len(p.Base) == 0 && !viaPrev {
			return len(p.Names) == 1 && p.Names[0] != "" // renaming the root itself
		}
	}
	return climbs(p.Names, depth)
}

type sess struct {
	e    *env
	c    *Case
	raw  *rawc.C
	dotu bool

	rootQid     ref9p.Qid
	prev        uint32 // fid kept from the previous probe (0 = none)
	prevQid     ref9p.Qid
	rootRemoved bool
	taint       []string // listed findings whose signature was seen in this session
	cur         int      // probe being executed
	curVec      string

	nontrivial bool
}

func (s *sess) viol(format string, a ...interface{}) error {
	return &violation{vec: s.curVec, probe: s.cur, msg: fmt.Sprintf(format, a...)}
}

func describe(m *ref9p.Msg) string {
	switch m.Type {
	case ref9p.Tattach:
		return fmt.Sprintf("Tattach fid=%d aname=%q", m.Fid, m.Aname)
	case ref9p.Twalk:
		return fmt.Sprintf("Twalk fid=%d newfid=%d names=%q", m.Fid, m.Newfid, m.Wname)
	case ref9p.Tcreate:
		return fmt.Sprintf("Tcreate fid=%d name=%q perm=%#x mode=%d ext=%q", m.Fid, m.Name, m.Perm, m.Mode, m.Ext)
	case ref9p.Twstat:
		return fmt.Sprintf("Twstat fid=%d name=%q mode=%#x length=%#x mtime=%#x", m.Fid, m.Stat.Name, m.Stat.Mode, m.Stat.Length, m.Stat.Mtime)
	case ref9p.Tread:
		return fmt.Sprintf("Tread fid=%d offset=%d count=%d", m.Fid, m.Offset, m.Count)
	case ref9p.Twrite:
		return fmt.Sprintf("Twrite fid=%d offset=%d count=%d", m.Fid, m.Offset, len(m.Data))
	case ref9p.Topen:
		return fmt.Sprintf("Topen fid=%d mode=%d", m.Fid, m.Mode)
	}
	return fmt.Sprintf("%s fid=%d", ref9p.TypeName(m.Type), m.Fid)
}

func (s *sess) outsideQid(q ref9p.Qid) (string, bool) {
	name, ok := s.e.snap.inodes[q.Path]
	return name, ok
}

// rpc sends one request and applies the checks that hold for every reply: no
// canary content, no name of a silent canary, no qid of an object outside the
// root.
func (s *sess) rpc(m *ref9p.Msg) (*ref9p.Msg, error) {
	s.raw.Got = s.raw.Got[:0]
	s.raw.Sent = s.raw.Sent[:0]
	r, err := s.raw.RPC(m)
	if err != nil {
		if r != nil || strings.Contains(err.Error(), "does not decode") {
			return nil, infraf("%s: %v", describe(m), err)
		}
		return nil, s.e.childTrouble(fmt.Sprintf("%s: no reply (%v)", describe(m), err))
	}
	return r, s.checkReply(m, r, s.raw.Got)
}

// checkReply applies the checks that hold for every reply.
func (s *sess) checkReply(m, r *ref9p.Msg, frames [][]byte) error {
	for _, f := range frames {
		if i := bytes.Index(f, []byte(contentPrefix)); i >= 0 {
			return s.viol("%s -> %s carries the content of a canary outside the root: %q", describe(m), ref9p.TypeName(r.Type), clip(string(f[i:]), 90))
		}
		if i := bytes.Index(f, []byte(silentPrefix)); i >= 0 {
			return s.viol("%s -> %s carries the name of an object outside the root that the client never named: %q", describe(m), ref9p.TypeName(r.Type), clip(string(f[i:]), 40))
		}
	}
	var qs []ref9p.Qid
	switch r.Type {
	case ref9p.Rattach, ref9p.Ropen, ref9p.Rcreate:
		qs = []ref9p.Qid{r.Qid}
	case ref9p.Rwalk:
		qs = r.Wqid
	case ref9p.Rstat:
		qs = []ref9p.Qid{r.Stat.Qid}
	}
	for i, q := range qs {
		if name, out := s.outsideQid(q); out {
			return s.viol("%s -> %s: qid %d has path %d, the inode of %s, which is outside the exported root %s", describe(m), ref9p.TypeName(r.Type), i, q.Path, name, rootInJail)
		}
	}
	return nil
}

// pipeline writes the requests back to back in one chunk, without waiting for
// any reply, then collects one reply per request (in whatever order the
// server answers) and checks every one of them. replies[i] answers msgs[i].
func (s *sess) pipeline(msgs []*ref9p.Msg) ([]*ref9p.Msg, error) {
	var chunk []byte
	byTag := map[uint16]int{}
	for i, m := range msgs {
		m.Tag = s.raw.NextTag()
		byTag[m.Tag] = i
		chunk = append(chunk, ref9p.Encode(m, s.raw.Dotu)...)
	}
	s.raw.Got = s.raw.Got[:0]
	s.raw.Sent = s.raw.Sent[:0]
	if err := s.raw.SendRaw(chunk); err != nil {
		return nil, s.e.childTrouble(fmt.Sprintf("pipelined write: %v", err))
	}
	replies := make([]*ref9p.Msg, len(msgs))
	frames := make([][]byte, len(msgs))
	for n := 0; n < len(msgs); n++ {
		r, raw, err := s.raw.Recv()
		if err != nil {
			if raw != nil {
				return nil, infraf("pipelined requests: %v", err)
			}
			return nil, s.e.childTrouble(fmt.Sprintf("pipelined requests %s: reply %d of %d missing (%v)", describeAll(msgs), n+1, len(msgs), err))
		}
		i, known := byTag[r.Tag]
		if !known || replies[i] != nil {
			return nil, infraf("pipelined requests: unexpected reply tag %d", r.Tag)
		}
		replies[i], frames[i] = r, raw
	}
	// all replies are in: judge
	for i, r := range replies {
		if err := s.checkReply(msgs[i], r, [][]byte{frames[i]}); err != nil {
			return replies, err
		}
	}
	return replies, nil
}

func describeAll(msgs []*ref9p.Msg) string {
	var d []string
	for _, m := range msgs {
		d = append(d, describe(m))
	}
	return "{" + strings.Join(d, " | ") + "}"
}

func ok(r *ref9p.Msg) bool { return r != nil && r.Type != ref9p.Rerror }

func (s *sess) clunk(fid uint32) {
	if fid != 0 {
		_, _ = s.raw.RPC(&ref9p.Msg{Type: ref9p.Tclunk, Fid: fid})
	}
}

// dirents checks the stat records of a directory read.
func (s *sess) dirents(req *ref9p.Msg, data []byte) error {
	for len(data) > 0 {
		st, n, err := ref9p.DecodeStat(data, s.dotu)
		if err != nil {
			return nil // C15's business
		}
		if name, out := s.outsideQid(st.Qid); out {
			return s.viol("%s lists %q with qid.path %d, the inode of %s, which is outside the exported root", describe(req), st.Name, st.Qid.Path, name)
		}
		data = data[n:]
	}
	return nil
}

// RunCase executes a case; nil means the property held (or the session ran
// into a listed finding, which is recorded through hx.Known).
func RunCase(c *Case) error {
	e, err := getEnv()
	if err != nil {
		return err
	}
	if e.dirty {
		// left over from a case that ended in a violation or lost its child
		if d := e.diffOutside(false); len(d) > 0 {
			if err := e.rebuildJail(); err != nil {
				return err
			}
		}
		e.dirty = false
	}
	if err := e.resetExport(c.Tree); err != nil {
		return err
	}
	conn, err := e.dial()
	if err != nil {
		return err
	}
	defer conn.Close()
	s := &sess{e: e, c: c, raw: rawc.New(conn)}
	s.raw.Keep = true
	s.raw.Timeout = 20 * time.Second
	ver := "9P2000"
	if c.Dotu {
		ver = "9P2000.u"
	}
	rv, err := s.raw.Version(8192, ver)
	if err != nil || rv.Type != ref9p.Rversion {
		return e.childTrouble(fmt.Sprintf("Tversion failed: %v %v", rv, err))
	}
	s.dotu = s.raw.Dotu
	s.curVec, s.cur = "setup", -1
	ra, err := s.rpc(&ref9p.Msg{Type: ref9p.Tattach, Fid: 0, Afid: ref9p.NOFID, Uname: "root", Aname: "", Nuname: 0})
	if err != nil {
		return s.finish(err)
	}
	if !ok(ra) {
		return infraf("attach with the empty aname failed: %q", ra.Ename)
	}
	s.rootQid = ra.Qid
	if ra.Qid.Path != e.snap.rootIno {
		return s.finish(s.viol("Tattach aname=\"\" -> qid.path %d, but the exported root has inode %d", ra.Qid.Path, e.snap.rootIno))
	}
	e.dirty = true
	for i := range c.Probes {
		p := &c.Probes[i]
		s.cur, s.curVec = i, p.Vec
		err := s.probe(i, p)
		e.restorePremise()
		if err == nil {
			if d := e.diffOutside(s.rootRemoved); len(d) > 0 {
				err = s.viol("after %s the part of the jail outside the exported root %s differs from its snapshot:\n    %s", p.brief(), rootInJail, strings.Join(d, "\n    "))
			}
		}
		if err != nil {
			return s.finish(err)
		}
		if s.rootRemoved {
			return nil // stays dirty: the root has to be rebuilt
		}
	}
	for i := range c.Races {
		s.cur, s.curVec = i, "race"
		err := s.race(i, &c.Races[i])
		e.restorePremise()
		if err == nil {
			if d := e.diffOutside(false); len(d) > 0 {
				err = s.viol("after the pipelined requests on the fid at /%s the part of the jail outside the exported root %s differs from its snapshot:\n    %s", strings.Join(c.Races[i].Base, "/"), rootInJail, strings.Join(d, "\n    "))
			}
		}
		if err != nil {
			return s.finish(err)
		}
	}
	e.dirty = false // the last comparison found the outside untouched
	return nil
}

// race runs one round of requests pipelined on one fid. Whatever order the
// server runs them in, the oracle is the usual one.
func (s *sess) race(i int, rc *Race) error {
	fid := uint32(50000 + i)
	hx.Eval()
	r, err := s.rpc(&ref9p.Msg{Type: ref9p.Twalk, Fid: 0, Newfid: fid, Wname: rc.Base})
	if err != nil {
		return err
	}
	if !ok(r) || len(r.Wqid) != len(rc.Base) {
		hx.Label("race skipped: starting point gone")
		return nil
	}
	isDir := len(r.Wqid) == 0 || r.Wqid[len(r.Wqid)-1].Type&qtDir != 0
	var msgs []*ref9p.Msg
	moves, climbing := false, false
	for _, op := range rc.Ops {
		switch op.Op {
		case "rename":
			st := rawc.NoChangeStat()
			st.Name = op.Name
			if op.Chmod {
				st.Mode = 0o755
				if isDir {
					st.Mode |= dmDir
				}
			}
			if op.Chown && s.dotu {
				st.Nuid, st.Ngid = 0, 0
			}
			msgs = append(msgs, &ref9p.Msg{Type: ref9p.Twstat, Fid: fid, Stat: st})
			if hasDotDot(op.Name) {
				climbing = true
			} else {
				moves = true
			}
		case "walk":
			msgs = append(msgs, &ref9p.Msg{Type: ref9p.Twalk, Fid: fid, Newfid: fid, Wname: op.Names})
			moves = true
		case "create":
			perm, mode := uint32(0o644), uint8(ordwr)
			if op.Dir {
				perm, mode = dmDir|0o755, oread
			}
			msgs = append(msgs, &ref9p.Msg{Type: ref9p.Tcreate, Fid: fid, Name: op.Name, Perm: perm, Mode: mode})
			moves = true
		default:
			msgs = append(msgs, &ref9p.Msg{Type: ref9p.Tstat, Fid: fid})
		}
	}
	replies, err := s.pipeline(msgs)
	if err != nil {
		if _, isV := err.(*violation); isV {
			return s.viol("pipelined on one fid at /%s: %s: %v", strings.Join(rc.Base, "/"), describeAll(msgs), err)
		}
		return err
	}
	renOK, movOK := false, false
	for k, rp := range replies {
		o := "error"
		if ok(rp) {
			o = "ok"
			if rc.Ops[k].Op == "rename" && hasDotDot(rc.Ops[k].Name) {
				renOK = true
			} else if rc.Ops[k].Op != "stat" {
				movOK = true
			}
		}
		hx.Label("race op=" + rc.Ops[k].Op + " outcome=" + o)
	}
	hx.Label(fmt.Sprintf("race requests=%d climbing-rename-ok=%v other-move-ok=%v", len(rc.Ops), renOK, movOK))
	hx.Label(fmt.Sprintf("race depth=%d", len(rc.Base)))
	if climbing && moves {
		var id []interface{}
		id = append(id, "race", len(rc.Base))
		for _, op := range rc.Ops {
			id = append(id, op.Op, op.Name, strings.Join(op.Names, "/"))
		}
		hx.NonTrivial(id...)
	}
	// wherever the fid is now, it designates something inside the root
	rs, err := s.rpc(&ref9p.Msg{Type: ref9p.Tstat, Fid: fid})
	if err != nil {
		return err
	}
	if ok(rs) && !s.e.findInode(rs.Stat.Qid.Path) {
		return s.viol("after the pipelined requests %s on the fid at /%s the fid designates an object (inode %d) that is not inside the exported root", describeAll(msgs), strings.Join(rc.Base, "/"), rs.Stat.Qid.Path)
	}
	s.clunk(fid)
	return nil
}

func (p *Probe) brief() string {
	switch p.Vec {
	case "attach":
		return fmt.Sprintf("Tattach aname=%q and accesses %v", p.Names[0], p.Acc)
	case "walk":
		return fmt.Sprintf("Twalk %q from /%s and accesses %v", p.Names, strings.Join(p.Base, "/"), p.Acc)
	case "create":
		return fmt.Sprintf("Tcreate (%s) name=%q in /%s and accesses %v", p.Kind, p.Names[0], strings.Join(p.Base, "/"), p.Acc)
	case "rename":
		return fmt.Sprintf("Twstat name=%q on /%s and accesses %v", p.Names[0], strings.Join(p.Base, "/"), p.Acc)
	}
	return p.Vec
}

// finish turns the error of a session into the executor's result: a violation
// in a session that showed the signature of a listed finding is recorded as
// that finding; the jail is rebuilt after any violation.
func (s *sess) finish(err error) error {
	v, isViol := err.(*violation)
	if !isViol {
		return err
	}
	if d := s.e.diffOutside(false); len(d) > 0 {
		if rerr := s.e.rebuildJail(); rerr != nil {
			return rerr
		}
	}
	if len(s.taint) > 0 {
		id := s.taint[0]
		for _, t := range s.taint {
			if t == findingOf(v.vec) {
				id = t
			}
		}
		hx.Known(id, v.Error())
		return nil
	}
	return v
}

// signature records that the request of probe p, which was answered
// successfully, matches the signature of a listed finding: a name with a ".."
// element (or, for rename, a new name for the root itself).
func (s *sess) signature(p *Probe, onRoot bool) {
	id := findingOf(p.Vec)
	if !hx.IsKnown(id) {
		return
	}
	match := false
	for _, n := range p.Names {
		if hasDotDot(n) {
			match = true
		}
	}
	if p.Vec == "rename" && onRoot {
		match = true
	}
	if match {
		s.taint = append(s.taint, id)
	}
}

func (s *sess) probe(i int, p *Probe) error {
	fb := uint32(100 + 10*i) // starting fid
	fr := fb + 1             // resulting fid
	fs := fb + 2             // scratch
	fl := fb + 3             // link source
	var base uint32
	var baseQid ref9p.Qid
	ownBase, viaPrev := false, false
	defer func() {
		if ownBase {
			s.clunk(fb)
		}
	}()

	hx.Eval()
	// ---- starting fid
	if p.Vec != "attach" {
		if p.Prev && s.prev != 0 {
			base, baseQid, viaPrev = s.prev, s.prevQid, true
		} else {
			r, err := s.rpc(&ref9p.Msg{Type: ref9p.Twalk, Fid: 0, Newfid: fb, Wname: p.Base})
			if err != nil {
				return err
			}
			if !ok(r) || len(r.Wqid) != len(p.Base) {
				hx.Label("probe skipped: starting point gone")
				return nil
			}
			base, baseQid, ownBase = fb, s.rootQid, true
			if len(r.Wqid) > 0 {
				baseQid = r.Wqid[len(r.Wqid)-1]
			}
		}
	}

	// ---- the request that carries the client-chosen name(s)
	var res uint32 // resulting fid, 0 = none
	var resQid ref9p.Qid
	resOpen := false
	success := false
	switch p.Vec {
	case "attach":
		r, err := s.rpc(&ref9p.Msg{Type: ref9p.Tattach, Fid: fr, Afid: ref9p.NOFID, Uname: "root", Aname: p.Names[0], Nuname: 0})
		if ok(r) {
			s.signature(p, false)
			res, resQid, success = fr, r.Qid, true
		}
		if err != nil {
			return err
		}

	case "walk":
		nf := fr
		if p.Inplace {
			nf = base
		}
		req := &ref9p.Msg{Type: ref9p.Twalk, Fid: base, Newfid: nf, Wname: p.Names}
		r, err := s.rpc(req)
		if ok(r) && len(r.Wqid) > 0 {
			s.signature(p, false)
		}
		if err != nil {
			return err
		}
		if ok(r) {
			// ".." at the root stays at the root
			cur := baseQid
			for k, q := range r.Wqid {
				if p.Names[k] == ".." && cur.Path == s.e.snap.rootIno && q.Path != s.e.snap.rootIno {
					return s.viol("%s: element %d is \"..\" taken at the root (qid.path %d) and yields qid.path %d instead of the root's own qid", describe(req), k, cur.Path, q.Path)
				}
				cur = q
			}
			if len(r.Wqid) == len(p.Names) {
				res, resQid, success = nf, cur, true
				if p.Inplace {
					baseQid = cur
					if base == s.prev {
						s.prevQid = cur
					}
				}
			}
		}

	case "create":
		r, err := s.rpc(&ref9p.Msg{Type: ref9p.Twalk, Fid: base, Newfid: fr})
		if err != nil {
			return err
		}
		if !ok(r) {
			return nil
		}
		res = fr
		perm, mode, ext := uint32(0o644), uint8(ordwr), ""
		switch p.Kind {
		case "dir":
			perm, mode = dmDir|0o755, oread
		case "symlink":
			perm, ext = dmSymlink|0o777, p.Ext
		case "link":
			rl, err := s.rpc(&ref9p.Msg{Type: ref9p.Twalk, Fid: 0, Newfid: fl, Wname: p.LinkSrc})
			if err != nil {
				return err
			}
			if !ok(rl) || len(rl.Wqid) != len(p.LinkSrc) {
				s.clunk(fr)
				hx.Label("probe skipped: link source gone")
				return nil
			}
			defer s.clunk(fl)
			perm, ext = dmLink|0o644, strconv.Itoa(int(fl))
		case "pipe":
			perm = dmPipe | 0o644
		case "device":
			perm, ext = dmDevice|0o644, "c 1 3"
		case "socket":
			perm = dmSocket | 0o644
		}
		if p.OMode != nil && p.Kind != "dir" {
			mode = *p.OMode
		}
		req := &ref9p.Msg{Type: ref9p.Tcreate, Fid: fr, Name: p.Names[0], Perm: perm, Mode: mode, Ext: ext}
		r, err = s.rpc(req)
		if ok(r) {
			s.signature(p, false)
			resQid, resOpen, success = r.Qid, true, true
		} else {
			resQid = baseQid // the fid still designates the directory
		}
		if err != nil {
			return err
		}
		if success && !s.e.findInode(resQid.Path) {
			return s.viol("%s succeeded with qid.path %d, but no object with that inode exists inside the exported root", describe(req), resQid.Path)
		}
		if success {
			s.e.restorePremise()
		}

	case "rename":
		// which object the fid designates now (a kept fid's name may have been
		// re-bound by an earlier probe)
		known := false
		if rs, err := s.rpc(&ref9p.Msg{Type: ref9p.Tstat, Fid: base}); err != nil {
			return err
		} else if ok(rs) {
			baseQid, known = rs.Stat.Qid, true
		}
		st := rawc.NoChangeStat()
		st.Name = p.Names[0]
		req := &ref9p.Msg{Type: ref9p.Twstat, Fid: base, Stat: st}
		r, err := s.rpc(req)
		onRoot := baseQid.Path == s.e.snap.rootIno
		if ok(r) {
			s.signature(p, onRoot)
			success = true
		}
		if err != nil {
			return err
		}
		if success && known && p.Names[0] != "" && !s.e.findInode(baseQid.Path) {
			return s.viol("%s succeeded, but the renamed object (inode %d) is no longer inside the exported root", describe(req), baseQid.Path)
		}
		if success {
			// a relative link that was moved may point out of the root now
			s.e.restorePremise()
		}
		res, resQid = base, baseQid
	}

	// evidence
	host, embeds := false, false
	for _, n := range p.Names {
		if hostile(n) {
			host = true
		}
		if embedsHostPath(n) {
			embeds = true
		}
	}
	if p.Vec == "walk" && embedsHostPath(strings.Join(p.Names, "/")) {
		embeds = true // spelt as separate elements
	}
	if embeds {
		hx.Label("name embeds a host path leading outside the root")
	}
	if host && (success || embeds || probeClimbs(p, viaPrev)) {
		s.nontrivial = true
		hx.NonTrivial(p.Vec, strings.Join(p.Names, "\x00"), p.Depth, p.Kind, success)
	}
	outcome := "error"
	if success {
		outcome = "ok"
	}
	d := p.Depth
	if d > 4 {
		d = 4
	}
	hx.Label(fmt.Sprintf("vec=%s depth=%d climbs=%v outcome=%s", p.Vec, d, probeClimbs(p, viaPrev), outcome))

	// ---- accesses
	if res != 0 {
		if err := s.accesses(p, res, resQid, resOpen, fs); err != nil {
			return err
		}
	}

	// ---- release
	switch {
	case res == 0:
	case res == base && !ownBase:
		// the kept fid stays kept
	case p.Keep && success && !resOpen && res != 0:
		if s.prev != 0 && s.prev != res {
			s.clunk(s.prev)
		}
		s.prev, s.prevQid = res, resQid
		if res == fb {
			ownBase = false
		}
	case res != base:
		s.clunk(res)
	}
	return nil
}

var writeData = []byte("c18 client data\n")

func (s *sess) accesses(p *Probe, res uint32, resQid ref9p.Qid, resOpen bool, fs uint32) error {
	gone := false
	for _, a := range p.Acc {
		if gone {
			break
		}
		hx.Label("access=" + a)
		switch a {
		case "stat":
			if _, err := s.rpc(&ref9p.Msg{Type: ref9p.Tstat, Fid: res}); err != nil {
				return err
			}

		case "read":
			fid := res
			if !resOpen {
				r, err := s.rpc(&ref9p.Msg{Type: ref9p.Twalk, Fid: res, Newfid: fs})
				if err != nil {
					return err
				}
				if !ok(r) {
					continue
				}
				fid = fs
				r, err = s.rpc(&ref9p.Msg{Type: ref9p.Topen, Fid: fs, Mode: oread})
				if err != nil {
					s.clunk(fs)
					return err
				}
				if !ok(r) {
					s.clunk(fs)
					continue
				}
			}
			var off uint64
			for k := 0; k < 6; k++ {
				req := &ref9p.Msg{Type: ref9p.Tread, Fid: fid, Offset: off, Count: 4096}
				r, err := s.rpc(req)
				if err == nil && ok(r) && resQid.Type&qtDir != 0 {
					err = s.dirents(req, r.Data)
				}
				if err != nil {
					if fid == fs {
						s.clunk(fs)
					}
					return err
				}
				if !ok(r) || len(r.Data) == 0 {
					break
				}
				off += uint64(len(r.Data))
			}
			if fid == fs {
				s.clunk(fs)
			}

		case "write":
			fid := res
			if !resOpen {
				r, err := s.rpc(&ref9p.Msg{Type: ref9p.Twalk, Fid: res, Newfid: fs})
				if err != nil {
					return err
				}
				if !ok(r) {
					continue
				}
				fid = fs
				mode := uint8(owrite)
				if p.Trunc {
					mode |= otrunc
				}
				r, err = s.rpc(&ref9p.Msg{Type: ref9p.Topen, Fid: fs, Mode: mode})
				if err != nil {
					s.clunk(fs)
					return err
				}
				if !ok(r) {
					s.clunk(fs)
					continue
				}
			}
			_, err := s.rpc(&ref9p.Msg{Type: ref9p.Twrite, Fid: fid, Offset: 0, Data: writeData})
			if fid == fs {
				s.clunk(fs)
			}
			if err != nil {
				return err
			}

		case "wstat":
			st := rawc.NoChangeStat()
			switch p.Wst {
			case "mtime":
				st.Mtime = 1234567890
			case "length":
				st.Length = 3
			default:
				st.Mode = 0o750 | uint32(resQid.Type&qtDir)<<24
			}
			if _, err := s.rpc(&ref9p.Msg{Type: ref9p.Twstat, Fid: res, Stat: st}); err != nil {
				return err
			}

		case "remove":
			fid := res
			if !resOpen {
				r, err := s.rpc(&ref9p.Msg{Type: ref9p.Twalk, Fid: res, Newfid: fs})
				if err != nil {
					return err
				}
				if !ok(r) {
					continue
				}
				fid = fs
			}
			r, err := s.rpc(&ref9p.Msg{Type: ref9p.Tremove, Fid: fid})
			if ok(r) && resQid.Path == s.e.snap.rootIno {
				// the client removed the (empty) root through a fid that
				// designates the root: not forbidden by this property
				if _, lerr := os.Lstat(s.e.export); lerr != nil {
					s.rootRemoved = true
				}
			}
			if err != nil {
				return err
			}
			if fid == res {
				gone = true // Tremove clunks the fid whatever the answer
			}
		}
	}
	return nil
}
