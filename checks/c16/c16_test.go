// C16 — Ufs names and metadata mirror the exported tree.
package c16

import (
	"bytes"
	"encoding/json"
	"fmt"
	"testing"

	"pgregory.net/rapid"
	"verif/internal/hx"
	"verif/internal/ref9p"
)

func TestMain(m *testing.M) { hx.Main(m, "C16") }

// ---------------------------------------------------------------- generator

// gtree is the generator's abstract view of the tree being drawn. It is used
// only to draw interesting names (existing prefixes, missing elements); every
// verdict comes from os.Lstat in the executor.
type gtree struct {
	nodes []Node
	kids  map[int][]int
	depth []int
	long  int // names longer than 64 bytes used so far (bounds host path length)
}

func (g *gtree) add(n Node) int {
	i := len(g.nodes)
	g.nodes = append(g.nodes, n)
	d := 0
	if n.Parent >= 0 {
		d = g.depth[n.Parent] + 1
		g.kids[n.Parent] = append(g.kids[n.Parent], i)
	}
	g.depth = append(g.depth, d)
	return i
}

func (g *gtree) hasChild(dir int, name []byte) bool {
	for _, k := range g.kids[dir] {
		if bytes.Equal(g.nodes[k].Name, name) {
			return true
		}
	}
	return false
}

// resolveDir follows symlink notes to the directory whose children a walk
// through node i would see; -1 if there is none.
func (g *gtree) resolveDir(i int) int {
	for hop := 0; hop < 8 && i >= 0; hop++ {
		switch g.nodes[i].Kind {
		case "d":
			return i
		case "l":
			i = g.nodes[i].TNode
		default:
			return -1
		}
	}
	return -1
}

var asciiRunes = []byte("abcdefghijklmnopqrstuvwxyz0123456789")

func drawName(t *rapid.T, allowLong bool) []byte {
	cls := rapid.IntRange(0, 11).Draw(t, "nameclass")
	if !allowLong && cls >= 10 {
		cls = 0
	}
	switch cls {
	case 0, 1, 2:
		n := rapid.IntRange(1, 6).Draw(t, "namelen")
		b := make([]byte, n)
		for i := range b {
			b[i] = asciiRunes[rapid.IntRange(0, len(asciiRunes)-1).Draw(t, "ch")]
		}
		return b
	case 3:
		return []byte(rapid.SampledFrom([]string{"a b", " lead", "trail ", " ", "two  spaces", "tab\there", "new\nline"}).Draw(t, "spaced"))
	case 4:
		return []byte(rapid.SampledFrom([]string{".x", "..x", "...", "....", ".. ", ". ", "..a..", ".hidden", "x.", "x.."}).Draw(t, "dotted"))
	case 5:
		n := rapid.IntRange(1, 6).Draw(t, "rawlen")
		b := make([]byte, n)
		for i := range b {
			v := byte(rapid.IntRange(1, 255).Draw(t, "rawbyte"))
			if v == '/' {
				v = 0xFF
			}
			b[i] = v
		}
		if s := string(b); s == "." || s == ".." {
			b = append(b, 0x80)
		}
		return b
	case 6:
		return []byte(rapid.SampledFrom([]string{"\xff", "\xc3\x28", "\xe2\x82", "\x80abc", "a\xfe\xffb", "\xed\xa0\x80", "\xf8\x88\x80\x80\x80"}).Draw(t, "badutf8"))
	case 7:
		return []byte(rapid.SampledFrom([]string{"é", "日本語", "ß∂ƒ", "naïve file", "😀"}).Draw(t, "utf8"))
	case 8:
		return []byte(rapid.SampledFrom([]string{"-", "~", "*", "\\", "a.b", "A", "a", "CON", "%2f", "a:b", "?", "'q'", "\"dq\"", "$HOME", "#9"}).Draw(t, "special"))
	case 9:
		n := rapid.IntRange(7, 64).Draw(t, "midlen")
		return bytes.Repeat([]byte{asciiRunes[rapid.IntRange(0, 35).Draw(t, "ch")]}, n)
	default:
		n := rapid.SampledFrom([]int{255, 255, 254, 200, 128}).Draw(t, "longlen")
		fill := rapid.SampledFrom([]byte{'L', 'x', 0xE9, ' ', '.'}).Draw(t, "fill")
		b := bytes.Repeat([]byte{fill}, n)
		b[0] = asciiRunes[rapid.IntRange(0, 35).Draw(t, "ch")]
		return b
	}
}

func (g *gtree) freshName(t *rapid.T, dir int) []byte {
	nm := drawName(t, g.long < 5)
	if g.hasChild(dir, nm) {
		suffix := []byte(fmt.Sprintf("~%d", len(g.nodes)))
		if len(nm)+len(suffix) > 255 {
			nm = nm[:255-len(suffix)]
		}
		nm = append(append([]byte(nil), nm...), suffix...)
	}
	if len(nm) > 64 {
		g.long++
	}
	return nm
}

// missingName draws a name that is not a child of dir (dir < 0: anything).
func (g *gtree) missingName(t *rapid.T, dir int) []byte {
	nm := drawName(t, rapid.IntRange(0, 9).Draw(t, "longmissing") == 0)
	if dir >= 0 && g.hasChild(dir, nm) {
		if len(nm) > 250 {
			nm = nm[:250]
		}
		nm = append(append([]byte(nil), nm...), "~nx"...)
	}
	return nm
}

func drawMode(t *rapid.T) uint32 {
	return rapid.OneOf(
		rapid.SampledFrom([]uint32{0, 0o777, 0o755, 0o644, 0o600, 0o400, 0o111, 0o007, 0o070, 0o700, 0o001}),
		rapid.Uint32Range(0, 0o777),
	).Draw(t, "mode")
}

func drawMtime(t *rapid.T) (int64, int64) {
	s := rapid.OneOf(
		rapid.SampledFrom([]int64{0, 1, 1<<31 - 1, 1 << 31, 1<<32 - 1, 1700000000, 1234567890, 86400}),
		rapid.Int64Range(0, 1<<32-1),
	).Draw(t, "mtime")
	ns := rapid.SampledFrom([]int64{0, 0, 999999999, 500000000, 1}).Draw(t, "nsec")
	return s, ns
}

var idPool = []uint32{0, 0, 0, 1, 1000, 65534, 1<<31 - 1, 1<<32 - 2}

func drawSize(t *rapid.T) int64 {
	return rapid.OneOf(
		rapid.SampledFrom([]int64{0, 1, 7, 15, 16, 17, 100, 4096, 8168, 8192, 70000, 1<<31 - 1, 1 << 31, 1<<32 - 1, 1 << 32, 1<<32 + 1, 1<<40 - 1}),
		rapid.Int64Range(0, 100000),
	).Draw(t, "size")
}

// relTarget is the relative link text from directory `from` to node `to`
// (both reached through real directories).
func (g *gtree) relTarget(from, to int) []byte {
	chain := func(i int) []int {
		var c []int
		for ; i >= 0; i = g.nodes[i].Parent {
			c = append([]int{i}, c...)
		}
		return c
	}
	a, b := chain(from), chain(to)
	i := 0
	for i < len(a) && i < len(b) && a[i] == b[i] {
		i++
	}
	var parts [][]byte
	for j := i; j < len(a); j++ {
		parts = append(parts, []byte(".."))
	}
	for j := i; j < len(b); j++ {
		parts = append(parts, g.nodes[b[j]].Name)
	}
	if len(parts) == 0 {
		return []byte(".")
	}
	return bytes.Join(parts, []byte("/"))
}

func genTree(t *rapid.T, deepBias bool) *gtree {
	g := &gtree{kids: map[int][]int{}}
	root := Node{Parent: -1, Kind: "d", Mode: drawMode(t)}
	root.Mtime, root.Nsec = drawMtime(t)
	g.add(root)

	mkdir := func(parent int) int {
		n := Node{Parent: parent, Kind: "d", Name: g.freshName(t, parent), Mode: drawMode(t)}
		n.Mtime, n.Nsec = drawMtime(t)
		n.Uid = rapid.SampledFrom(idPool).Draw(t, "uid")
		n.Gid = rapid.SampledFrom(idPool).Draw(t, "gid")
		return g.add(n)
	}

	// a spine of nested directories decides the depth
	depth := rapid.OneOf(
		rapid.IntRange(0, 4),
		rapid.SampledFrom([]int{14, 15, 16, 17, 18, 30, 31, 32, 33, 34, 38, 39}),
		rapid.IntRange(0, 39),
	).Draw(t, "spine")
	if deepBias && depth <= 16 && rapid.Bool().Draw(t, "deeper") {
		// cases with a concurrent client phase: more trees below the 16-element limit of one Twalk
		depth = rapid.SampledFrom([]int{17, 18, 20, 31, 32, 33, 34, 39}).Draw(t, "deepspine")
	}
	spine := []int{0}
	for i := 0; i < depth; i++ {
		spine = append(spine, mkdir(spine[len(spine)-1]))
	}
	// detours: a symlink next to spine[i] that points to it, so that deep paths
	// can run through symlinks (also at the 16th / 32nd element)
	if depth > 0 {
		nd := rapid.IntRange(0, 3).Draw(t, "detours")
		for j := 0; j < nd; j++ {
			pos := rapid.OneOf(rapid.SampledFrom([]int{16, 32, 15, 17, 1}), rapid.IntRange(1, depth)).Draw(t, "detourpos")
			if pos > depth {
				pos = depth
			}
			parent := spine[pos-1]
			n := Node{Parent: parent, Kind: "l", Name: g.freshName(t, parent), TNode: spine[pos]}
			n.Target = g.relTarget(parent, spine[pos])
			g.add(n)
		}
	}

	extras := rapid.IntRange(0, 22).Draw(t, "extras")
	for j := 0; j < extras; j++ {
		// parent: any directory that still has room below it
		var dirs []int
		for i, n := range g.nodes {
			if n.Kind == "d" && g.depth[i] < 40 {
				dirs = append(dirs, i)
			}
		}
		if len(dirs) == 0 {
			break
		}
		parent := dirs[rapid.IntRange(0, len(dirs)-1).Draw(t, "parent")]
		kind := rapid.SampledFrom([]string{"f", "f", "f", "d", "d", "l", "l", "h"}).Draw(t, "kind")
		if kind == "d" && g.depth[parent] >= 39 {
			kind = "f" // directories nest at most 39 deep, so paths have at most 40 elements
		}
		switch kind {
		case "d":
			mkdir(parent)
		case "f":
			n := Node{Parent: parent, Kind: "f", Name: g.freshName(t, parent), Mode: drawMode(t), Size: drawSize(t)}
			n.Mtime, n.Nsec = drawMtime(t)
			n.Uid = rapid.SampledFrom(idPool).Draw(t, "uid")
			n.Gid = rapid.SampledFrom(idPool).Draw(t, "gid")
			g.add(n)
		case "l":
			n := Node{Parent: parent, Kind: "l", Name: g.freshName(t, parent), TNode: -1}
			n.Uid = rapid.SampledFrom(idPool).Draw(t, "uid")
			n.Gid = rapid.SampledFrom(idPool).Draw(t, "gid")
			switch rapid.SampledFrom([]string{"node", "node", "node", "dangling", "self", "dot", "deepdangling"}).Draw(t, "linkkind") {
			case "node":
				to := rapid.IntRange(0, len(g.nodes)-1).Draw(t, "linkto")
				n.Target = g.relTarget(parent, to)
				n.TNode = to
				if g.nodes[to].Kind == "h" {
					n.TNode = -1 // the generator does not follow hard-linked symlinks
				}
			case "dangling":
				n.Target = g.missingName(t, parent)
			case "self":
				n.Target = append([]byte(nil), n.Name...)
			case "dot":
				n.Target = []byte(".")
				n.TNode = parent
			case "deepdangling":
				n.Target = append(g.relTarget(parent, 0), "/no/such/thing"...)
			}
			if len(n.Target) > 3000 {
				n.Target = []byte("shortened-dangling")
				n.TNode = -1
			}
			g.add(n)
		case "h":
			var cands []int
			for i, n := range g.nodes {
				if n.Kind == "f" || n.Kind == "l" {
					cands = append(cands, i)
				}
			}
			if len(cands) == 0 {
				continue
			}
			to := cands[rapid.IntRange(0, len(cands)-1).Draw(t, "hardto")]
			g.add(Node{Parent: parent, Kind: "h", Name: g.freshName(t, parent), TNode: to})
		}
	}
	return g
}

// descend draws up to want existing elements starting below node `from`.
// It returns the names, the node reached and whether all `want` were found.
func (g *gtree) descend(t *rapid.T, from, want int, deep bool) (names [][]byte, at int) {
	at = from
	for len(names) < want {
		d := g.resolveDir(at)
		if d < 0 || len(g.kids[d]) == 0 {
			break
		}
		kids := g.kids[d]
		if deep {
			// prefer children below which the path can go on
			var through []int
			for _, k := range kids {
				if r := g.resolveDir(k); r >= 0 && len(g.kids[r]) > 0 {
					through = append(through, k)
				}
			}
			if len(through) > 0 && rapid.IntRange(0, 7).Draw(t, "stray") != 0 {
				kids = through
			}
		}
		k := kids[rapid.IntRange(0, len(kids)-1).Draw(t, "child")]
		names = append(names, g.nodes[k].Name)
		at = k
	}
	return
}

// descendReal is descend through real directories only (no step passes through
// a symbolic link), so that the parent of every directory on the way is the
// previous element: the ground on which "." and ".." elements are unambiguous.
// The node reached may be of any kind.
func (g *gtree) descendReal(t *rapid.T, from, want int) (names [][]byte, at int) {
	at = from
	for len(names) < want && g.nodes[at].Kind == "d" && len(g.kids[at]) > 0 {
		kids := g.kids[at]
		var through []int
		for _, k := range kids {
			if g.nodes[k].Kind == "d" {
				through = append(through, k)
			}
		}
		if len(through) > 0 && rapid.IntRange(0, 5).Draw(t, "straydots") != 0 {
			kids = through
		}
		k := kids[rapid.IntRange(0, len(kids)-1).Draw(t, "childreal")]
		names = append(names, g.nodes[k].Name)
		at = k
	}
	return
}

// drawDots appends 1..max elements "." / ".." (".." in two of three) for a
// path that stands at the real directory `at` and returns where it stands then.
func (g *gtree) drawDots(t *rapid.T, names [][]byte, at, max int) ([][]byte, int) {
	if max > 3 {
		max = 3
	}
	m := rapid.IntRange(1, max).Draw(t, "ndots")
	for j := 0; j < m; j++ {
		if rapid.IntRange(0, 2).Draw(t, "dotdot") != 0 {
			names = append(names, []byte(".."))
			if at != 0 {
				at = g.nodes[at].Parent
			}
		} else {
			names = append(names, []byte("."))
		}
	}
	return names, at
}

// follow is the generator's note of where a walk of names from node `from`
// ends (-1: nowhere) and whether it stayed on real directories all the way.
func (g *gtree) follow(from int, names [][]byte) (at int, real bool) {
	at, real = from, true
	for _, nm := range names {
		if g.nodes[at].Kind != "d" {
			real = false
		}
		d := g.resolveDir(at)
		if d < 0 {
			return -1, false
		}
		switch string(nm) {
		case ".":
			at = d
		case "..":
			at = d
			if at != 0 {
				at = g.nodes[at].Parent
			}
		default:
			next := -1
			for _, k := range g.kids[d] {
				if bytes.Equal(g.nodes[k].Name, nm) {
					next = k
				}
			}
			if next < 0 {
				return -1, false
			}
			at = next
		}
	}
	return at, real
}

func (g *gtree) anyName(t *rapid.T) []byte {
	if len(g.nodes) > 1 && rapid.Bool().Draw(t, "reuse") {
		return g.nodes[rapid.IntRange(1, len(g.nodes)-1).Draw(t, "reusenode")].Name
	}
	return g.missingName(t, -1)
}

// hostileName draws a walk element that cannot be (or, for 255 bytes, can only
// just be) the name of a directory entry: longer than any entry name (256 bytes
// and more, also built by extending an existing name), with a NUL byte, with a
// '/'. Some are derived from a child of dir so that a server that cuts the
// name (at 255 bytes, at the NUL, at the '/') would find something.
func (g *gtree) hostileName(t *rapid.T, dir int) []byte {
	var child []byte
	if dir >= 0 && len(g.kids[dir]) > 0 {
		child = g.nodes[g.kids[dir][rapid.IntRange(0, len(g.kids[dir])-1).Draw(t, "hostilechild")]].Name
	}
	if child == nil {
		child = []byte("nx")
	}
	pad := func(b []byte, n int) []byte {
		fill := rapid.SampledFrom([]byte{'L', 'x', 0xE9, ' ', '.'}).Draw(t, "fill")
		out := append([]byte(nil), b...)
		for len(out) < n {
			out = append(out, fill)
		}
		return out[:n]
	}
	switch rapid.IntRange(0, 9).Draw(t, "hostileclass") {
	case 0, 1, 2:
		n := rapid.SampledFrom([]int{256, 256, 257, 300, 511, 1024, 4095, 4096, 4097}).Draw(t, "toolong")
		if rapid.Bool().Draw(t, "extendchild") {
			return pad(child, n) // an existing name (also a 255-byte one) plus more bytes
		}
		return pad([]byte{asciiRunes[rapid.IntRange(0, 35).Draw(t, "ch")]}, n)
	case 3:
		return pad([]byte{asciiRunes[rapid.IntRange(0, 35).Draw(t, "ch")]}, 255) // the longest name there can be (missing or not)
	case 4, 5, 6:
		switch rapid.IntRange(0, 5).Draw(t, "nulshape") {
		case 0:
			return []byte{0}
		case 1:
			return append(append([]byte(nil), child...), 0)
		case 2:
			return append(append(append([]byte(nil), child...), 0), "tail"...)
		case 3:
			return append([]byte{0}, child...)
		case 4:
			return pad(append(append([]byte(nil), child...), 0), 256)
		default:
			return []byte("a\x00b")
		}
	default:
		switch rapid.IntRange(0, 5).Draw(t, "slashshape") {
		case 0:
			return append(append([]byte(nil), child...), "/nx~"...)
		case 1:
			return []byte("nx~/" + string(child))
		case 2:
			return []byte("nx~/")
		case 3:
			return []byte("/nx~")
		case 4:
			return append(append([]byte(nil), child...), '/') // ambiguous when child is a directory: skipped by the executor
		default:
			return []byte("nx~/x/y")
		}
	}
}

var fidPool = []uint32{1, 2, 3, 4, 5, 6, 7, 8, 0x7FFFFFFF, 0xFFFFFFFE}

func genOps(t *rapid.T, g *gtree) []Op {
	loc := map[uint32]int{0: 0}
	real := map[uint32]bool{0: true} // the fid's path runs through real directories only
	live := []uint32{0}
	isOpen := map[uint32]bool{}
	var ops []Op
	nops := rapid.IntRange(1, 36).Draw(t, "nops")
	for len(ops) < nops {
		kind := rapid.SampledFrom([]string{"walk", "walk", "walk", "walk", "walk", "walk", "stat", "clunk", "open", "open", "open", "read"}).Draw(t, "op")
		fid := live[rapid.IntRange(0, len(live)-1).Draw(t, "fid")]
		if isOpen[fid] && (kind == "walk" || kind == "open") {
			// an open fid cannot be walked or opened again: stat / read / release it
			kind = rapid.SampledFrom([]string{"stat", "read", "read", "clunk"}).Draw(t, "openfidop")
		}
		if kind == "read" && !isOpen[fid] {
			kind = "open"
		}
		if kind == "open" && fid == 0 {
			kind = "walk" // the root fid stays walkable
		}
		var free []uint32
		for _, f := range fidPool {
			if _, used := loc[f]; !used {
				free = append(free, f)
			}
		}
		if kind == "walk" && len(free) == 0 {
			kind = "clunk"
		}
		switch kind {
		case "stat":
			ops = append(ops, Op{Kind: "stat", Fid: fid})
		case "read":
			ops = append(ops, Op{Kind: "read", Fid: fid})
		case "open":
			mode := uint8(0)
			if g.nodes[loc[fid]].Kind != "d" && rapid.Bool().Draw(t, "othermode") {
				mode = uint8(rapid.IntRange(0, 3).Draw(t, "omode"))
			}
			ops = append(ops, Op{Kind: "open", Fid: fid, Mode: mode})
			// the stat after the open is part of the step; often read and stat again
			isOpen[fid] = true // (an open that fails leaves later read/stat steps harmless)
		case "clunk":
			if fid == 0 {
				ops = append(ops, Op{Kind: "stat", Fid: 0})
				continue
			}
			ops = append(ops, Op{Kind: "clunk", Fid: fid})
			delete(loc, fid)
			delete(real, fid)
			delete(isOpen, fid)
			for i, f := range live {
				if f == fid {
					live = append(live[:i:i], live[i+1:]...)
					break
				}
			}
		case "walk":
			inplace := fid != 0 && rapid.IntRange(0, 99).Draw(t, "inplace") < 45
			n := rapid.OneOf(rapid.Just(0), rapid.IntRange(1, 3), rapid.IntRange(1, 16), rapid.SampledFrom([]int{15, 16})).Draw(t, "nwname")
			shape := rapid.SampledFrom([]string{"complete", "complete", "partial", "partial", "partial", "firstmissing"}).Draw(t, "shape")
			want := n
			switch shape {
			case "partial":
				if n >= 2 {
					want = rapid.IntRange(1, n-1).Draw(t, "prefix")
				}
			case "firstmissing":
				want = 0
			}
			if hx.IsKnown(idSymStart) && n > 0 && want > 0 && g.nodes[loc[fid]].Kind == "l" && g.resolveDir(loc[fid]) >= 0 &&
				rapid.IntRange(0, 3).Draw(t, "keep-known-sym") != 0 {
				hx.Excluded(idSymStart)
				n, want = 0, 0
			}
			// one walk in five has an element that cannot exist for another reason than
			// absence (too long, NUL, '/'): as the FIRST name (then followed by names
			// that exist below the fid) or where the existing prefix ends
			hostile := n > 0 && rapid.IntRange(0, 4).Draw(t, "hostile") == 0
			var names [][]byte
			var at int
			complete := false
			// one walk in four from a directory has "." / ".." elements: after 0..n-1
			// real names (through real directories) 1..3 of them - so that the walk
			// ENDS on them -, and in one of three something follows: real names
			// again, or a missing name (a partial walk whose existing prefix has them)
			dots := n > 0 && g.nodes[loc[fid]].Kind == "d" && rapid.IntRange(0, 3).Draw(t, "dots") == 0 &&
				(real[fid] || rapid.IntRange(0, 3).Draw(t, "dotsanyway") == 0)
			if dots {
				names, at = g.descendReal(t, loc[fid], rapid.IntRange(0, n-1).Draw(t, "dotsafter"))
				if g.nodes[at].Kind != "d" {
					names, at = names[:len(names)-1], g.nodes[at].Parent
				}
				names, at = g.drawDots(t, names, at, n-len(names))
				complete = true
				if len(names) < n && rapid.IntRange(0, 2).Draw(t, "dotstail") == 0 {
					if rapid.Bool().Draw(t, "dotstailreal") {
						var more [][]byte
						more, at = g.descendReal(t, at, rapid.IntRange(1, min(2, n-len(names))).Draw(t, "dotstaillen"))
						names = append(names, more...)
					} else {
						complete = false
						names = append(names, g.missingName(t, at))
						for len(names) < n && rapid.Bool().Draw(t, "dotsbehind") {
							switch rapid.IntRange(0, 2).Draw(t, "behind") {
							case 0:
								names = append(names, []byte(".."))
							case 1:
								names = append(names, []byte("."))
							default:
								names = append(names, g.anyName(t))
							}
						}
					}
				}
			} else if hostile && (want == 0 || rapid.Bool().Draw(t, "hostilefirst")) {
				names = [][]byte{g.hostileName(t, g.resolveDir(loc[fid]))}
				if n > 1 {
					more, _ := g.descend(t, loc[fid], rapid.IntRange(0, n-1).Draw(t, "follow"), true)
					names = append(names, more...)
				}
				for len(names) < n && rapid.Bool().Draw(t, "morejunk") {
					names = append(names, g.anyName(t))
				}
			} else {
				names, at = g.descend(t, loc[fid], want, rapid.Bool().Draw(t, "deep"))
				complete = len(names) == n
				if !complete {
					if hostile {
						names = append(names, g.hostileName(t, g.resolveDir(at)))
					} else {
						names = append(names, g.missingName(t, g.resolveDir(at)))
					}
					for len(names) < n {
						names = append(names, g.anyName(t))
					}
				}
			}
			if hx.IsKnown(idInplace) && inplace && !complete && len(names) >= 2 && want >= 1 &&
				rapid.IntRange(0, 3).Draw(t, "keep-known-inplace") != 0 {
				hx.Excluded(idInplace)
				inplace = false
			}
			op := Op{Kind: "walk", Fid: fid, Newfid: fid, Names: names}
			if !inplace {
				op.Newfid = free[rapid.IntRange(0, len(free)-1).Draw(t, "newfid")]
			}
			ops = append(ops, op)
			if complete {
				if _, ok := loc[op.Newfid]; !ok {
					live = append(live, op.Newfid)
				}
				_, through := g.follow(loc[fid], names)
				real[op.Newfid] = real[fid] && through
				loc[op.Newfid] = at
			}
		}
	}
	return ops
}

func genCli(t *rapid.T, g *gtree, min int) []CliOp {
	var out []CliOp
	n := rapid.IntRange(min, 7).Draw(t, "ncli")
	for i := 0; i < n; i++ {
		out = append(out, genCliOp(t, g, false))
	}
	return out
}

// genConc draws the concurrent phase: 2..6 goroutines that share the go9p
// client of the sequential phase, each with 1..5 calls on paths of its own
// drawing (any depth, existing or not; in a quarter of the phases only paths
// of at most 8 elements, so that deep paths lie only in the client's past).
func genConc(t *rapid.T, g *gtree) [][]CliOp {
	ng := rapid.IntRange(2, 6).Draw(t, "ngoroutines")
	shallow := rapid.IntRange(0, 3).Draw(t, "shallowphase") == 0
	out := make([][]CliOp, ng)
	for j := range out {
		n := rapid.IntRange(1, 5).Draw(t, "nconcops")
		for i := 0; i < n; i++ {
			out[j] = append(out[j], genCliOp(t, g, shallow))
		}
	}
	return out
}

func genCliOp(t *rapid.T, g *gtree, shallow bool) CliOp {
	op := CliOp{Kind: rapid.SampledFrom([]string{"fstat", "fstat", "fwalk", "fopen"}).Draw(t, "cliop")}
	op.Style = rapid.SampledFrom([]int{0, 0, 0, 1, 2}).Draw(t, "style")
	want := rapid.OneOf(rapid.IntRange(0, 5), rapid.IntRange(14, 20), rapid.IntRange(30, 40), rapid.Just(40)).Draw(t, "clidepth")
	if shallow {
		want = rapid.IntRange(0, 8).Draw(t, "shallowdepth")
	}
	names, at := g.descend(t, 0, want, true)
	// one path in four has "." / ".." elements: it runs through real directories
	// and has, in one of two, an element "." or a detour "..", <the same name
	// again> behind one of its directories, and (three of four) ends on 1..3
	// elements "." / ".." - so that the object is a directory reached from below
	dots := rapid.IntRange(0, 3).Draw(t, "clidots") == 0
	if dots {
		names, at = g.descendReal(t, 0, want)
		names = append([][]byte(nil), names...)
		lastDir := g.nodes[at].Kind == "d"
		if !lastDir && rapid.Bool().Draw(t, "clidotspop") {
			names, at, lastDir = names[:len(names)-1], g.nodes[at].Parent, true
		}
		trailing := lastDir && rapid.IntRange(0, 3).Draw(t, "clitrailing") != 0
		maxj := len(names)
		if !lastDir {
			maxj--
		}
		if maxj >= 1 && (!trailing || rapid.Bool().Draw(t, "cliinner")) {
			j := rapid.IntRange(1, maxj).Draw(t, "cliinnerpos")
			ins := [][]byte{[]byte(".")}
			if rapid.Bool().Draw(t, "clidetour") {
				ins = [][]byte{[]byte(".."), names[j-1]}
			}
			names = append(names[:j:j], append(ins, names[j:]...)...)
		}
		if trailing {
			names, at = g.drawDots(t, names, at, 3)
		}
	}
	if !dots && hx.IsKnown(idSymStart) && rapid.IntRange(0, 3).Draw(t, "keep-known-boundary") != 0 {
		// steer away from a symlink as 16th / 32nd element with more to follow
		cut, pos := -1, 0
		for j, nm := range names {
			d := g.resolveDir(pos)
			next := -1
			for _, k := range g.kids[d] {
				if bytes.Equal(g.nodes[k].Name, nm) {
					next = k
				}
			}
			if next < 0 {
				break
			}
			pos = next
			if (j == 15 || j == 31) && j+1 < len(names) && g.nodes[pos].Kind == "l" {
				cut = j + 1
				break
			}
		}
		if cut > 0 {
			hx.Excluded(idSymStart)
			names = names[:cut]
		}
	}
	switch rapid.IntRange(0, 3).Draw(t, "corrupt") {
	case 0:
		// one element replaced by a missing name (the rest stays)
		if len(names) > 0 {
			j := rapid.IntRange(0, len(names)-1).Draw(t, "corruptpos")
			names = append([][]byte(nil), names...)
			names[j] = g.missingName(t, -1)
		} else {
			names = [][]byte{g.missingName(t, g.resolveDir(at))}
		}
	case 1:
		// a missing last element
		if len(names) < 40 && rapid.Bool().Draw(t, "appendmissing") {
			names = append(append([][]byte(nil), names...), g.missingName(t, g.resolveDir(at)))
		}
	}
	op.Elems = names
	return op
}

func genCase(t *rapid.T) *Case {
	c := &Case{}
	c.SrvDotu = rapid.IntRange(0, 3).Draw(t, "srvdotu") != 0
	c.CliDotu = rapid.IntRange(0, 2).Draw(t, "clidotu") != 0
	c.Msize = rapid.SampledFrom([]uint32{8192, 16384, 65536}).Draw(t, "msize")
	// half of the cases end with a concurrent phase on the client that has just
	// resolved the sequential paths (then there is at least one of those)
	conc := rapid.Bool().Draw(t, "conc")
	g := genTree(t, conc)
	c.Tree = g.nodes
	c.Ops = genOps(t, g)
	min := 0
	if conc {
		min = 1
	}
	c.Cli = genCli(t, g, min)
	if conc {
		c.Conc = genConc(t, g)
		c.Rounds = rapid.IntRange(1, 3).Draw(t, "rounds")
	}
	return c
}

// genPipe draws 1..5 bursts (see Burst). The fid is put on a real directory S,
// mostly near the root so that a long chain lies below it. The in-place walks
// have up to 15 existing leading elements below S followed by a missing name
// (mostly), or - one burst in eight - there is a single complete one. The
// observers are Tstat F and Twalk F -> new fid with 0..3 names that exist below
// S (or below the target of the complete walk), sometimes followed by a
// missing one. The order of the requests in the write is a drawn permutation.
func genPipe(t *rapid.T, g *gtree) []Burst {
	var dirs []int // real directories reached through real directories
	for i, n := range g.nodes {
		if n.Kind == "d" {
			dirs = append(dirs, i)
		}
	}
	nb := rapid.IntRange(1, 5).Draw(t, "nbursts")
	var out []Burst
	for len(out) < nb {
		S := 0
		switch rapid.IntRange(0, 3).Draw(t, "startkind") {
		case 0:
		case 1, 2:
			// one of the first directories (the spine comes first)
			S = dirs[rapid.IntRange(0, min(len(dirs)-1, 3)).Draw(t, "startnear")]
		default:
			S = dirs[rapid.IntRange(0, len(dirs)-1).Draw(t, "startany")]
		}
		var start [][]byte
		for i := S; i > 0; i = g.nodes[i].Parent {
			start = append([][]byte{g.nodes[i].Name}, start...)
		}
		b := Burst{Start: start, Repeat: rapid.IntRange(1, 12).Draw(t, "repeat")}
		T := -1
		if rapid.IntRange(0, 7).Draw(t, "completeburst") == 0 {
			names, at := g.descend(t, S, rapid.IntRange(1, 16).Draw(t, "completelen"), true)
			if len(names) > 0 {
				b.Reqs = append(b.Reqs, Op{Kind: "walk", Fid: pipeFid, Newfid: pipeFid, Names: names})
				T = at
			}
		}
		if T < 0 {
			nw := rapid.SampledFrom([]int{1, 1, 1, 2, 2, 3, 4, 0}).Draw(t, "nwalkers")
			for w := 0; w < nw; w++ {
				want := rapid.OneOf(rapid.Just(15), rapid.Just(15), rapid.IntRange(0, 15)).Draw(t, "walkerprefix")
				names, at := g.descend(t, S, want, true)
				if rapid.IntRange(0, 9).Draw(t, "hostileend") == 0 {
					names = append(names, g.hostileName(t, g.resolveDir(at)))
				} else {
					names = append(names, g.missingName(t, g.resolveDir(at)))
				}
				for len(names) < 16 && rapid.IntRange(0, 3).Draw(t, "tail") == 0 {
					names = append(names, g.anyName(t))
				}
				b.Reqs = append(b.Reqs, Op{Kind: "walk", Fid: pipeFid, Newfid: pipeFid, Names: names})
			}
		}
		no := rapid.IntRange(1, 10).Draw(t, "nobservers")
		for o := 0; o < no; o++ {
			if rapid.IntRange(0, 9).Draw(t, "obskind") < 5 {
				b.Reqs = append(b.Reqs, Op{Kind: "stat", Fid: pipeFid})
				continue
			}
			from := S
			if T >= 0 && rapid.Bool().Draw(t, "fromtarget") {
				from = T
			}
			names, at := g.descend(t, from, rapid.IntRange(0, 3).Draw(t, "obslen"), false)
			switch rapid.IntRange(0, 7).Draw(t, "obsend") {
			case 0, 1:
				names = append(names, g.missingName(t, g.resolveDir(at)))
			case 2:
				if rapid.Bool().Draw(t, "obshostile") {
					names = append(names, g.hostileName(t, g.resolveDir(at)))
				} else if len(b.Reqs) > 0 && len(b.Reqs[0].Names) > 1 {
					// the SECOND name of the in-place walk: a child of the first
					// intermediate directory, usually not of S
					names = [][]byte{b.Reqs[0].Names[1]}
				}
			}
			b.Reqs = append(b.Reqs, Op{Kind: "walk", Fid: pipeFid, Names: names})
		}
		perm := rapid.Permutation(b.Reqs).Draw(t, "order")
		for j := range perm {
			if perm[j].Kind == "walk" && perm[j].Newfid != pipeFid {
				perm[j].Newfid = pipeFid + 1 + uint32(j)
			}
		}
		b.Reqs = perm
		out = append(out, b)
	}
	return out
}

func genPipeCase(t *rapid.T) *Case {
	c := &Case{}
	c.SrvDotu = rapid.IntRange(0, 3).Draw(t, "srvdotu") != 0
	c.CliDotu = rapid.IntRange(0, 2).Draw(t, "clidotu") != 0
	c.Msize = rapid.SampledFrom([]uint32{8192, 16384, 65536}).Draw(t, "msize")
	g := genTree(t, true)
	c.Tree = g.nodes
	c.Pipe = genPipe(t, g)
	return c
}

// ---------------------------------------------------------------- tests

func sampleOf(c *Case) interface{} {
	s := map[string]interface{}{"nodes": len(c.Tree), "srv_dotu": c.SrvDotu, "cli_dotu": c.CliDotu, "msize": c.Msize, "nops": len(c.Ops), "ncli": len(c.Cli)}
	tr := c.Tree
	if len(tr) > 6 {
		tr = tr[:6]
	}
	s["tree_head"] = tr
	ops := c.Ops
	if len(ops) > 4 {
		ops = ops[:4]
	}
	s["ops_head"] = ops
	if len(c.Conc) > 0 {
		s["conc_goroutines"] = len(c.Conc)
		s["conc_rounds"] = c.Rounds
	}
	if len(c.Pipe) > 0 {
		s["bursts"] = len(c.Pipe)
		s["burst_head"] = map[string]interface{}{"start_depth": len(c.Pipe[0].Start), "requests": len(c.Pipe[0].Reqs), "repeat": c.Pipe[0].Repeat}
	}
	if len(c.Cli) > 0 {
		s["cli_head"] = map[string]interface{}{"op": c.Cli[0].Kind, "style": c.Cli[0].Style, "elements": len(c.Cli[0].Elems)}
	}
	return s
}

var maxDepthSeen int

func labelTree(c *Case) {
	maxd := 0
	depth := make([]int, len(c.Tree))
	kinds := map[string]int{}
	for i, n := range c.Tree {
		if n.Parent >= 0 && n.Parent < i {
			depth[i] = depth[n.Parent] + 1
		}
		if depth[i] > maxd {
			maxd = depth[i]
		}
		kinds[n.Kind]++
	}
	hx.Label("tree depth=" + depthClass(maxd))
	if maxd > maxDepthSeen {
		maxDepthSeen = maxd
	}
	hx.Extra("max_tree_depth", maxDepthSeen)
	hx.ExtraAdd("nodes", int64(len(c.Tree)))
	hx.ExtraAdd("symlinks", int64(kinds["l"]))
	hx.ExtraAdd("hardlinks", int64(kinds["h"]))
}

func TestPropTree(t *testing.T) {
	hx.Check(t, "tree", hx.N(150, 1500), func(t *rapid.T) {
		c := genCase(t)
		hx.Journal("tree", c)
		hx.Sample("tree", sampleOf(c))
		labelTree(c)
		if err := RunCase(c); err != nil {
			if isInfra(err) {
				hx.Inconclusive(err.Error())
				t.Skip(err.Error())
			}
			hx.Failf(t, "tree", c, "%v", err)
		}
	})
}

// TestPropPipe: requests pipelined on one fid next to in-place walks of that fid.
func TestPropPipe(t *testing.T) {
	hx.Check(t, "pipe", hx.N(150, 1000), func(t *rapid.T) {
		c := genPipeCase(t)
		hx.Journal("pipe", c)
		hx.Sample("pipe", sampleOf(c))
		labelTree(c)
		if err := RunCase(c); err != nil {
			if isInfra(err) {
				hx.Inconclusive(err.Error())
				t.Skip(err.Error())
			}
			hx.Failf(t, "pipe", c, "%v", err)
		}
	})
}

func TestReplay(t *testing.T) {
	e, err := hx.LoadReplay()
	if e == nil {
		t.Skip("no replay file", err)
	}
	replayEnv(t, e, 40)
}

// replayEnv runs the case of an envelope; a case with bursts, whose verdict on
// a defective server depends on the schedule, is run up to burstTries times.
func replayEnv(t *testing.T, e *hx.Envelope, burstTries int) {
	var c Case
	if err := json.Unmarshal(e.Case, &c); err != nil {
		t.Fatalf("bad case: %v", err)
	}
	hx.Journal(e.Test, &c)
	tries := 1
	if len(c.Pipe) > 0 {
		tries = burstTries
	}
	for i := 0; i < tries; i++ {
		if err := RunCase(&c); err != nil {
			if isInfra(err) {
				hx.Inconclusive(err.Error())
				return
			}
			hx.Violation(e.Test, &c, err.Error())
			t.Errorf("%v", err)
			return
		}
	}
}

func TestRegress(t *testing.T) {
	for _, e := range hx.Regressions() {
		replayEnv(t, e, 3)
		hx.Label("regress")
	}
}

// ---------------------------------------------------------------- enumeration

// enumTree is a fixed small tree over the name alphabet {a b c f l x}:
//
//	a/          directory
//	a/b/        directory
//	a/b/c       file
//	a/b/l -> l  symlink to itself
//	a/f         file
//	a/l -> ..   symlink to the root
//	b           hard link to a/f
//	c -> nx     dangling symlink
//	f           empty file
//	l -> a      symlink to a directory
//
// "x" exists nowhere.
func enumTree() []Node {
	return []Node{
		{Parent: -1, Kind: "d", Mode: 0o755, Mtime: 1700000000},
		{Parent: 0, Kind: "d", Name: []byte("a"), Mode: 0o750, Mtime: 1600000000, Nsec: 999999999},
		{Parent: 1, Kind: "d", Name: []byte("b"), Mode: 0o700, Mtime: 1500000000},
		{Parent: 2, Kind: "f", Name: []byte("c"), Mode: 0o644, Size: 5, Mtime: 1400000000},
		{Parent: 1, Kind: "f", Name: []byte("f"), Mode: 0o600, Size: 20, Mtime: 1300000000, Uid: 1000, Gid: 100},
		{Parent: 0, Kind: "f", Name: []byte("f"), Mode: 0o444, Size: 0, Mtime: 1200000000},
		{Parent: 0, Kind: "l", Name: []byte("l"), Target: []byte("a"), TNode: 1},
		{Parent: 0, Kind: "l", Name: []byte("c"), Target: []byte("nx"), TNode: -1},
		{Parent: 0, Kind: "h", Name: []byte("b"), TNode: 4},
		{Parent: 1, Kind: "l", Name: []byte("l"), Target: []byte(".."), TNode: 0},
		{Parent: 2, Kind: "l", Name: []byte("l"), Target: []byte("l"), TNode: -1},
	}
}

// TestEnumWalks enumerates, on the fixed tree, every Twalk of 0..3 names over
// the alphabet from seven starting points, to a new fid and in place, in both
// dialects.
func TestEnumWalks(t *testing.T) {
	alphabet := []string{"a", "b", "c", "f", "l", "x", ".", ".."}
	var seqs [][]string
	var rec func(prefix []string)
	rec = func(prefix []string) {
		seqs = append(seqs, append([]string(nil), prefix...))
		if len(prefix) == 3 {
			return
		}
		for _, a := range alphabet {
			rec(append(prefix, a))
		}
	}
	rec(nil)
	starts := [][]string{{}, {"a"}, {"a", "b"}, {"f"}, {"l"}, {"a", "b", "c"}, {"c"}}
	if enumWalks(t, "enum", enumTree(), starts, seqs) {
		hx.Exhaustive("fixed 11-node tree (dirs, files, hard link, symlinks to a directory / to the parent / dangling / to itself): every Twalk of 0..3 names over {a,b,c,f,l,x,.,..} from 7 starting fids (root, dir, nested dir, 2 files, symlink to dir, dangling symlink), to a new fid and in place, both dialects; walks whose '.' / '..' elements stand behind a symlink or a file are sent to nobody (not judged)")
	}
}

// TestEnumFirstName enumerates Twalks whose FIRST name is at or beyond the
// limits of what a directory entry can be called: the fixed tree plus a file
// and a directory (holding "a") with 255-byte names; first names of 255 bytes
// (existing and missing), 256, 257, 300, 1024, 4096 and 4097 bytes (fresh ones
// and the existing 255-byte names extended), names with a NUL byte (alone, at
// the end of / inside / in front of an existing name) and names with a '/'
// whose joined path does not exist; alone and followed by 1..3 names that
// exist below the starting directory; from the root and from a/; to a new fid
// and in place; both dialects. The reference is os.Lstat of the joined path.
func TestEnumFirstName(t *testing.T) {
	rep := func(b byte, n int) string { return string(bytes.Repeat([]byte{b}, n)) }
	tree := enumTree()
	tree = append(tree,
		Node{Parent: 0, Kind: "f", Name: []byte(rep('L', 255)), Mode: 0o640, Size: 3, Mtime: 1100000000},
		Node{Parent: 0, Kind: "d", Name: []byte(rep('D', 255)), Mode: 0o755, Mtime: 1000000000},
		Node{Parent: len(tree) + 1, Kind: "f", Name: []byte("a"), Mode: 0o600, Size: 1, Mtime: 900000000},
	)
	firsts := []string{
		rep('L', 255), rep('D', 255), rep('L', 254) + "M", rep('x', 255),
		rep('L', 256), rep('D', 256), rep('x', 256), rep('x', 257), rep('x', 300), rep('D', 300), rep('x', 1024), rep('x', 4096), rep('x', 4097),
		"\x00", "a\x00", "a\x00b", "\x00a", "x\x00", rep('D', 255) + "\x00", rep('x', 299) + "\x00",
		"x/", "/x", "x/a", "a/x", "x/a/b", "a\x00/b",
	}
	follows := [][]string{{}, {"a"}, {"a", "b"}, {"a", "b", "c"}, {"b"}, {"b", "c"}, {"x"}}
	var seqs [][]string
	for _, f := range firsts {
		for _, fo := range follows {
			seqs = append(seqs, append([]string{f}, fo...))
		}
	}
	starts := [][]string{{}, {"a"}}
	if enumWalks(t, "enum-first-name", tree, starts, seqs) {
		hx.Exhaustive(fmt.Sprintf("fixed tree with 255-byte names: every Twalk whose first name is one of %d boundary names (255..4097 bytes, NUL bytes, '/' with a missing joined path) alone or followed by one of %d sequences of existing names, from 2 directories, to a new fid and in place, both dialects", len(firsts), len(follows)-1))
	}
}

// enumWalks runs every (start, in place?, sequence) on one session per dialect.
func enumWalks(t *testing.T, test string, tree []Node, starts, seqs [][]string) bool {
	bytesOf := func(ss []string) [][]byte {
		var out [][]byte
		for _, s := range ss {
			out = append(out, []byte(s))
		}
		return out
	}
	idx := 0
	for _, dotu := range []bool{false, true} {
		c := &Case{Tree: tree, SrvDotu: dotu, CliDotu: dotu, Msize: 8192}
		x, err := setup(c)
		if x != nil {
			defer x.close()
		}
		if err != nil {
			if isInfra(err) {
				hx.Inconclusive(err.Error())
				return false
			}
			hx.Violation(test, c, err.Error())
			t.Fatalf("%v", err)
		}
		for _, start := range starts {
			for _, inplace := range []bool{false, true} {
				for _, seq := range seqs {
					idx++
					if idx%hx.NShards != hx.Shard {
						continue
					}
					// the replayable form of this combination
					small := &Case{Tree: c.Tree, SrvDotu: dotu, CliDotu: dotu, Msize: 8192, Ops: []Op{
						{Kind: "walk", Fid: 0, Newfid: 1, Names: bytesOf(start)},
						{Kind: "walk", Fid: 1, Newfid: 2, Names: bytesOf(seq)},
					}}
					if inplace {
						small.Ops[1].Newfid = 1
					}
					r, err := x.raw.Walk(0, 1, start...)
					if err != nil || r.Type != ref9p.Rwalk || len(r.Wqid) != len(start) {
						// the plain walk to the starting point is judged by replaying the small case
						if e := RunCase(small); e != nil && !isInfra(e) {
							hx.Violation(test, small, e.Error())
							t.Fatalf("%v", e)
						}
						hx.Inconclusive(fmt.Sprintf("%s: walk to the start %v failed (%v) but the replayed case passes", test, start, err))
						return false
					}
					p := x.root
					for _, s := range start {
						p += "/" + s
					}
					x.model[1] = p
					if err := x.doWalk("op 1", &small.Ops[1]); err != nil {
						if isInfra(err) {
							hx.Inconclusive(err.Error())
							return false
						}
						hx.Violation(test, small, err.Error())
						t.Fatalf("%v", err)
					}
					for _, f := range []uint32{1, 2} {
						if _, live := x.model[f]; live {
							if r, err := x.raw.Clunk(f); err != nil || r.Type != ref9p.Rclunk {
								hx.Inconclusive(fmt.Sprintf("%s: Tclunk(%d): %v %v", test, f, err, r))
								return false
							}
							delete(x.model, f)
						}
					}
				}
			}
		}
		x.close()
	}
	return true
}
