// Executor and oracle of C16: builds the tree of a Case under a scratch
// directory, serves it with Ufs in-process and compares every Rwalk / Rstat and
// every client-level result with os.Lstat of the corresponding host path.
package c16

import (
	"bytes"
	"encoding/json"
	"errors"
	"fmt"
	"os"
	"strings"
	"syscall"
	"time"

	"github.com/rminnich/go9p"
	"verif/internal/hx"
	"verif/internal/rawc"
	"verif/internal/ref9p"
	"verif/internal/ufsrv"
	"verif/internal/xport"
)

// Finding ids (used only while listed with status "known" in known_findings.json).
const (
	// D8: an in-place partial walk (newfid == fid, 1 <= nwqid < nwname) moves the fid.
	idInplace = "walk-inplace-partial-moves-fid"
	// Walking (>= 1 name) from a fid that designates a symlink to a directory is
	// refused by the generic server layer ("not a directory") although the same
	// names resolve when the symlink is an inner element of one Twalk; FWalk hits
	// this whenever the 16th / 32nd element of a path is such a symlink.
	idSymStart = "walk-from-symlink-fid-refused"
)

const (
	qtDir     = 0x80
	qtSymlink = 0x02
	dmDir     = 0x80000000
	dmSymlink = 0x02000000
)

// Node is one object of the generated tree. Node 0 is the exported root.
type Node struct {
	Parent int    `json:"p"`            // index of the parent directory node (-1 for the root)
	Name   []byte `json:"n,omitempty"`  // no '/', never "." or ".."
	Kind   string `json:"k"`            // d = directory, f = regular file, l = symlink, h = hard link
	Size   int64  `json:"s,omitempty"`  // f: length (sparse beyond a 16-byte header)
	Mode   uint32 `json:"m,omitempty"`  // d, f: permission bits 0..0777
	Mtime  int64  `json:"t,omitempty"`  // d, f: seconds
	Nsec   int64  `json:"ns,omitempty"` // d, f
	Uid    uint32 `json:"u,omitempty"`  // d, f, l
	Gid    uint32 `json:"g,omitempty"`
	Target []byte `json:"tg,omitempty"` // l: link text
	TNode  int    `json:"tn,omitempty"` // l: node the text resolves to (generator's note, -1 none); h: linked node
}

// Op is one step of the raw-client session.
type Op struct {
	Kind   string   `json:"op"` // walk, stat, clunk, open, read
	Fid    uint32   `json:"fid"`
	Newfid uint32   `json:"newfid,omitempty"`
	Names  [][]byte `json:"names,omitempty"`
	Mode   uint8    `json:"mode,omitempty"` // open: OREAD 0, OWRITE 1, ORDWR 2, OEXEC 3 (never OTRUNC / ORCLOSE: the tree stays as built)
}

// CliOp is one call of the go9p client.
type CliOp struct {
	Kind  string   `json:"op"`    // fstat, fwalk, fopen
	Elems [][]byte `json:"elems"` // path elements
	Style int      `json:"style"` // 0 "a/b", 1 "/a/b", 2 "//a//b"
}

type Case struct {
	Tree    []Node  `json:"tree"`
	SrvDotu bool    `json:"srv_dotu"`
	CliDotu bool    `json:"cli_dotu"` // dialect proposed by the raw client
	Msize   uint32  `json:"msize"`
	Ops     []Op    `json:"ops"`
	Cli     []CliOp `json:"cli"`
	// Conc: after the sequential calls, the SAME client is used by len(Conc)
	// goroutines at the same time; goroutine g makes the calls Conc[g], Rounds
	// times over. Every result is judged like a sequential one.
	Conc   [][]CliOp `json:"conc,omitempty"`
	Rounds int       `json:"rounds,omitempty"`
	// Pipe: after the sequential raw session (and before the visit of every
	// node) groups of requests are PIPELINED on one fid: see Burst.
	Pipe []Burst `json:"pipe,omitempty"`
}

// pipeFid is the fid the requests of a burst share; request j of a burst that
// walks to a new fid uses pipeFid+1+j.
const pipeFid = 0x00C17000

// Burst is a group of requests that name the same fid F and are written to the
// connection in ONE write, so that the server has all of them in hand before it
// has answered any (it serves every request in a goroutine of its own). F is a
// fresh fid walked from the root along Start (existing real directories) to a
// directory S. Reqs are
//
//	walk with Newfid == pipeFid   a walk IN PLACE (the burst's "walkers")
//	walk with another Newfid      a walk from F to a new fid (an observer)
//	stat                          Tstat F (an observer)
//
// Either no in-place walk of the burst is complete (as judged by os.Lstat from
// S) - then nothing may ever move F: every reply must be the one a request
// served at S gets - or exactly one in-place walk with names is there and it is
// complete, to T: then every observer must have been served at S or at T.
// The burst is sent Repeat times (F is put back to S in between when it moved).
type Burst struct {
	Start  [][]byte `json:"start"`
	Reqs   []Op     `json:"reqs"`
	Repeat int      `json:"repeat"`
}

// infraError marks trouble of the harness / sandbox (never a violation).
type infraError struct{ msg string }

func (e *infraError) Error() string { return "infrastructure: " + e.msg }

func infraf(format string, a ...interface{}) error { return &infraError{fmt.Sprintf(format, a...)} }

func isInfra(err error) bool { var ie *infraError; return errors.As(err, &ie) }

// view is the dialect-independent part of a stat record that the property talks about.
type view struct {
	QType      uint8
	QPath      uint64
	Mode       uint32
	Mtime      uint32
	Length     uint64
	Name       string
	Uid, Gid   string
	Ext        string
	Nuid, Ngid uint32
}

func viewOfStat(s *ref9p.Stat) view {
	return view{s.Qid.Type, s.Qid.Path, s.Mode, s.Mtime, s.Length, s.Name, s.Uid, s.Gid, s.Ext, s.Nuid, s.Ngid}
}

func viewOfDir(d *go9p.Dir) view {
	return view{d.Qid.Type, d.Qid.Path, d.Mode, d.Mtime, d.Length, d.Name, d.Uid, d.Gid, d.Ext, d.Uidnum, d.Gidnum}
}

// qidDiff compares the type bits and the path of a qid with the local object.
func (x *executor) qidDiff(qtype uint8, qpath uint64, fi os.FileInfo) []string {
	var d []string
	st := fi.Sys().(*syscall.Stat_t)
	isDir, isLnk := fi.IsDir(), fi.Mode()&os.ModeSymlink != 0
	if (qtype&qtDir != 0) != isDir {
		d = append(d, fmt.Sprintf("qid.type %#x: QTDIR bit wrong (local object is a directory: %v)", qtype, isDir))
	}
	if (qtype&qtSymlink != 0) != isLnk {
		d = append(d, fmt.Sprintf("qid.type %#x: QTSYMLINK bit wrong (local object is a symlink: %v)", qtype, isLnk))
	}
	if qpath != st.Ino {
		d = append(d, fmt.Sprintf("qid.path is %s, the local object is %s", x.inoName(qpath), x.inoName(st.Ino)))
	}
	return d
}

// statDiff compares a stat record with os.Lstat(p). An empty result means
// agreement on everything the property names.
func (x *executor) statDiff(v view, p string, isRoot, dotu bool) []string {
	fi, err := os.Lstat(p)
	if err != nil {
		return []string{fmt.Sprintf("local path %q does not exist (%v) but a stat record was returned", p, err)}
	}
	st := fi.Sys().(*syscall.Stat_t)
	isDir, isLnk := fi.IsDir(), fi.Mode()&os.ModeSymlink != 0
	d := x.qidDiff(v.QType, v.QPath, fi)
	if v.Mode&0o777 != uint32(fi.Mode().Perm()) {
		d = append(d, fmt.Sprintf("permission bits %#o != local %#o", v.Mode&0o777, uint32(fi.Mode().Perm())))
	}
	if (v.Mode&dmDir != 0) != isDir {
		d = append(d, fmt.Sprintf("mode %#x: DMDIR bit wrong (directory: %v)", v.Mode, isDir))
	}
	if dotu && (v.Mode&dmSymlink != 0) != isLnk {
		d = append(d, fmt.Sprintf("mode %#x: DMSYMLINK bit wrong (symlink: %v)", v.Mode, isLnk))
	}
	if isDir {
		// 9P convention is length 0 for directories; the local size is accepted too
		if v.Length != 0 && v.Length != uint64(fi.Size()) {
			d = append(d, fmt.Sprintf("directory length %d is neither 0 nor the local size %d", v.Length, fi.Size()))
		}
	} else if v.Length != uint64(fi.Size()) {
		d = append(d, fmt.Sprintf("length %d != local size %d", v.Length, fi.Size()))
	}
	if v.Mtime != uint32(fi.ModTime().Unix()) {
		d = append(d, fmt.Sprintf("mtime %d != local mtime %d s", v.Mtime, fi.ModTime().Unix()))
	}
	if !isRoot {
		base := p[strings.LastIndexByte(p, '/')+1:]
		if v.Name != base {
			d = append(d, fmt.Sprintf("name %q != last path element %q", v.Name, base))
		}
	}
	if dotu {
		if v.Nuid != st.Uid || v.Ngid != st.Gid {
			d = append(d, fmt.Sprintf("n_uid/n_gid %d/%d != local %d/%d", v.Nuid, v.Ngid, st.Uid, st.Gid))
		}
		if isLnk {
			tgt, _ := os.Readlink(p)
			if v.Ext != tgt {
				d = append(d, fmt.Sprintf("extension %q != readlink %q", v.Ext, tgt))
			}
		}
	} else if v.Uid == "" || v.Gid == "" {
		d = append(d, fmt.Sprintf("empty uid/gid name (%q/%q)", v.Uid, v.Gid))
	}
	return d
}

func headerOf(i int) []byte {
	h := hx.Hash("c16-file", i)
	return []byte(fmt.Sprintf("%016x", h))
}

// buildTree creates the tree under root and returns the host path of every node.
func buildTree(c *Case, root string) ([]string, error) {
	if len(c.Tree) == 0 || c.Tree[0].Kind != "d" || c.Tree[0].Parent != -1 {
		return nil, infraf("case: node 0 must be the root directory")
	}
	paths := make([]string, len(c.Tree))
	paths[0] = root
	if err := os.Mkdir(root, 0o700); err != nil {
		return nil, infraf("mkdir root: %v", err)
	}
	for i := 1; i < len(c.Tree); i++ {
		n := &c.Tree[i]
		if n.Parent < 0 || n.Parent >= i || c.Tree[n.Parent].Kind != "d" {
			return nil, infraf("case: node %d has a bad parent %d", i, n.Parent)
		}
		nm := string(n.Name)
		if nm == "" || nm == "." || nm == ".." || strings.ContainsAny(nm, "/\x00") || len(nm) > 255 {
			return nil, infraf("case: node %d has a name outside the C16 alphabet: %q", i, nm)
		}
		p := paths[n.Parent] + "/" + nm
		paths[i] = p
		var err error
		switch n.Kind {
		case "d":
			err = os.Mkdir(p, 0o700)
		case "f":
			hdr := headerOf(i)
			if n.Size < int64(len(hdr)) {
				hdr = hdr[:n.Size]
			}
			if err = os.WriteFile(p, hdr, 0o600); err == nil && n.Size > int64(len(hdr)) {
				err = os.Truncate(p, n.Size)
			}
		case "l":
			err = os.Symlink(string(n.Target), p)
		case "h":
			if n.TNode <= 0 || n.TNode >= i || (c.Tree[n.TNode].Kind != "f" && c.Tree[n.TNode].Kind != "l") {
				return nil, infraf("case: hard link %d to a bad node %d", i, n.TNode)
			}
			err = os.Link(paths[n.TNode], p)
		default:
			return nil, infraf("case: node %d has unknown kind %q", i, n.Kind)
		}
		if err != nil {
			return nil, infraf("creating node %d (%s %q): %v", i, n.Kind, p, err)
		}
	}
	// attributes last (and children before parents) so that nothing changes an mtime afterwards
	for i := len(c.Tree) - 1; i >= 0; i-- {
		n := &c.Tree[i]
		p := paths[i]
		switch n.Kind {
		case "d", "f":
			if n.Uid != 0 || n.Gid != 0 {
				if err := os.Lchown(p, int(n.Uid), int(n.Gid)); err != nil {
					return nil, infraf("chown %q: %v", p, err)
				}
			}
			if err := os.Chmod(p, os.FileMode(n.Mode&0o777)); err != nil {
				return nil, infraf("chmod %q: %v", p, err)
			}
			if err := os.Chtimes(p, time.Unix(1000000000, 0), time.Unix(n.Mtime, n.Nsec)); err != nil {
				return nil, infraf("chtimes %q: %v", p, err)
			}
		case "l":
			if n.Uid != 0 || n.Gid != 0 {
				if err := os.Lchown(p, int(n.Uid), int(n.Gid)); err != nil {
					return nil, infraf("lchown %q: %v", p, err)
				}
			}
		}
	}
	return paths, nil
}

type executor struct {
	c       *Case
	root    string
	paths   []string
	treeH   uint64
	raw     *rawc.C
	dotu    bool              // dialect of the raw connection
	model   map[uint32]string // fid -> host path it must designate
	opened  map[uint32]uint8  // fids opened by a successful Topen -> mode
	wire    *xport.End        // server end of the go9p client's connection
	wireOff int
	scratch string
	inodes  map[uint64]int
	srv     *go9p.Ufs
	msize   uint32
}

// shortPath renders a host path relative to the root; long elements are
// abbreviated and elements that are symlinks locally are marked with '@'.
func shortPath(root, p string) string {
	if p == root {
		return "<root>"
	}
	rel := strings.TrimPrefix(p, root+"/")
	var b strings.Builder
	b.WriteString("<root>")
	cur := root
	for _, e := range strings.Split(rel, "/") {
		cur += "/" + e
		b.WriteByte('/')
		if len(e) > 24 {
			fmt.Fprintf(&b, "%q…(%d bytes)", e[:8], len(e))
		} else {
			fmt.Fprintf(&b, "%q", e)
		}
		if fi, err := os.Lstat(cur); err == nil && fi.Mode()&os.ModeSymlink != 0 {
			b.WriteByte('@')
		}
	}
	return b.String()
}

func qnames(names [][]byte) string {
	var b strings.Builder
	b.WriteByte('[')
	for i, n := range names {
		if i > 0 {
			b.WriteByte(' ')
		}
		if len(n) > 40 {
			fmt.Fprintf(&b, "%q…(%d bytes)", n[:16], len(n))
		} else {
			fmt.Fprintf(&b, "%q", n)
		}
	}
	b.WriteByte(']')
	return b.String()
}

// lazy is a description that is rendered only when a message is printed.
type str string

func (s str) String() string { return string(s) }

type lazy func() string

func (l lazy) String() string { return l() }

func (l lazy) plus(s string) lazy { return func() string { return l() + s } }

func rpcErr(what fmt.Stringer, err error) error {
	if errors.Is(err, rawc.ErrTimeout) {
		return infraf("%s: %v", what, err)
	}
	return fmt.Errorf("%s: %v", what, err)
}

// RunCase executes one case; a non-nil error that is not an *infraError is a
// violation of the property.
// setup builds the tree, starts Ufs on it and attaches the raw client as fid 0.
// The executor is returned even on error (when there is something to clean up).
func setup(c *Case) (*executor, error) {
	dir, err := os.MkdirTemp("", "c16-")
	if err != nil {
		return nil, infraf("MkdirTemp: %v", err)
	}
	root := dir + "/r"
	x := &executor{c: c, scratch: dir, root: root, model: map[uint32]string{}, opened: map[uint32]uint8{}}
	x.paths, err = buildTree(c, root)
	if err != nil {
		return x, err
	}
	tb, _ := json.Marshal(c.Tree)
	x.treeH = hx.Hash(tb)
	hx.ExtraAdd("trees", 1)

	msize := c.Msize
	if msize < 8192 {
		msize = 8192
	}
	x.msize = msize
	u := ufsrv.Start(root, c.SrvDotu, msize+go9p.IOHDRSZ)
	x.srv = u

	x.raw = ufsrv.Raw(u, "c16-raw")
	ver := "9P2000"
	if c.CliDotu {
		ver = "9P2000.u"
	}
	r, err := x.raw.Version(msize, ver)
	if err != nil {
		return x, rpcErr(str("Tversion"), err)
	}
	if r.Type != ref9p.Rversion {
		return x, fmt.Errorf("Tversion(%d,%q) answered %s %q", msize, ver, ref9p.TypeName(r.Type), r.Ename)
	}
	x.dotu = x.raw.Dotu
	if x.dotu != (c.SrvDotu && c.CliDotu) {
		return x, fmt.Errorf("negotiated dialect .u=%v for server .u=%v, client .u=%v", x.dotu, c.SrvDotu, c.CliDotu)
	}
	r, err = x.raw.Attach(0, ref9p.NOFID, "root", "", 0)
	if err != nil {
		return x, rpcErr(str("Tattach"), err)
	}
	if r.Type != ref9p.Rattach {
		return x, fmt.Errorf("Tattach answered %s %q", ref9p.TypeName(r.Type), r.Ename)
	}
	rfi, err := os.Lstat(root)
	if err != nil {
		return x, infraf("lstat root: %v", err)
	}
	hx.Eval()
	if d := x.qidDiff(r.Qid.Type, r.Qid.Path, rfi); len(d) > 0 {
		return x, fmt.Errorf("Rattach qid disagrees with the exported root: %s", strings.Join(d, "; "))
	}
	x.model[0] = root
	return x, nil
}

// inoName names an inode by the first tree node that has it, so that messages
// are the same in every run of a case (rapid's shrinker requires that).
func (x *executor) inoName(ino uint64) string {
	if x.inodes == nil {
		x.inodes = map[uint64]int{}
		for i := len(x.paths) - 1; i >= 0; i-- {
			if fi, err := os.Lstat(x.paths[i]); err == nil {
				x.inodes[fi.Sys().(*syscall.Stat_t).Ino] = i
			}
		}
	}
	if i, ok := x.inodes[ino]; ok {
		return fmt.Sprintf("the inode of node %d %s", i, shortPath(x.root, x.paths[i]))
	}
	return "an inode outside the tree"
}

func (x *executor) close() {
	if x.raw != nil {
		x.raw.Close()
	}
	_ = os.RemoveAll(x.scratch)
}

func RunCase(c *Case) (verr error) {
	x, err := setup(c)
	if x != nil {
		defer x.close()
	}
	if err != nil {
		return err
	}
	u, msize := x.srv, x.msize

	for i := range c.Ops {
		if err := x.doOp(i, &c.Ops[i]); err != nil {
			return err
		}
	}
	for i := range c.Pipe {
		if err := x.doBurst(i, &c.Pipe[i]); err != nil {
			return err
		}
	}
	if err := x.visitAll(); err != nil {
		return err
	}
	x.raw.Close()

	// ---- go9p client ----
	if len(c.Cli) > 0 || len(c.Conc) > 0 {
		// same as ufsrv.Mount, but the server end of the pair is kept: it records
		// every byte the client writes, so the Twalks of an FWalk can be inspected
		h, l := xport.Pair("c16-clnt")
		u.NewConn(l)
		clnt, err := go9p.MountConn(h, "", msize, go9p.OsUsers.Uid2User(0))
		if err != nil {
			return fmt.Errorf("MountConn failed: %v", err)
		}
		defer clnt.Unmount()
		x.wire = l
		sent, _ := l.Received()
		x.wireOff = len(sent)
		if clnt.Dotu != c.SrvDotu {
			return fmt.Errorf("go9p client negotiated .u=%v with a server configured .u=%v", clnt.Dotu, c.SrvDotu)
		}
		deepBefore := 0
		for i := range c.Cli {
			if err := x.doCli(clnt, fmt.Sprintf("client op %d", i), &c.Cli[i]); err != nil {
				return err
			}
			if err := x.checkWire(i, &c.Cli[i]); err != nil {
				return err
			}
			if len(c.Cli[i].Elems) > 16 {
				deepBefore++
			}
		}
		if len(c.Conc) > 0 {
			if err := x.doConc(clnt, deepBefore); err != nil {
				return err
			}
		}
	}
	return nil
}

// concDeadline only detects a hang of the concurrent phase.
const concDeadline = 30 * time.Second

// doConc is the concurrent phase: the client that has resolved the sequential
// paths (deepBefore of them deeper than 16 elements, i.e. split into several
// Twalks) is now shared by len(c.Conc) goroutines. They start together; each
// makes its own calls, Rounds times over, and every single result is compared
// with the local object exactly as in the sequential phase. Which goroutine's
// failure is reported does not depend on who noticed first: the lowest
// goroutine number wins.
func (x *executor) doConc(clnt *go9p.Clnt, deepBefore int) error {
	c := x.c
	if len(c.Conc) > 16 {
		return infraf("case: %d goroutines", len(c.Conc))
	}
	rounds := c.Rounds
	if rounds < 1 {
		rounds = 1
	}
	if rounds > 8 {
		return infraf("case: %d rounds", rounds)
	}
	x.inoName(0) // fill the inode table before it is read from several goroutines
	deepIn, calls := 0, 0
	for _, ops := range c.Conc {
		for i := range ops {
			calls++
			if len(ops[i].Elems) > 16 {
				deepIn++
			}
		}
	}
	hist := "none"
	switch {
	case deepBefore > 0 && deepIn > 0:
		hist = "before+during"
	case deepBefore > 0:
		hist = "before"
	case deepIn > 0:
		hist = "during"
	}
	hx.Label(fmt.Sprintf("concurrent phase goroutines=%d deep-paths=%s", len(c.Conc), hist))
	if hist != "none" && calls >= 2 {
		cb, _ := json.Marshal(c.Conc)
		sb, _ := json.Marshal(c.Cli)
		hx.NonTrivial("conc", x.treeH, sb, cb, rounds, c.SrvDotu)
	}
	errs := make([]error, len(c.Conc))
	start := make(chan struct{})
	done := make(chan int, len(c.Conc))
	for g := range c.Conc {
		go func(g int) {
			defer func() { done <- g }()
			<-start
			for r := 0; r < rounds; r++ {
				for i := range c.Conc[g] {
					tag := fmt.Sprintf("concurrent phase (%d goroutines share the client; %d paths deeper than 16 elements were resolved before it, %d are part of it): goroutine %d round %d call %d", len(c.Conc), deepBefore, deepIn, g, r, i)
					if err := x.doCli(clnt, tag, &c.Conc[g][i]); err != nil {
						errs[g] = err
						return
					}
				}
			}
		}(g)
	}
	close(start)
	timer := time.NewTimer(concDeadline)
	defer timer.Stop()
	for n := 0; n < len(c.Conc); n++ {
		select {
		case <-done:
		case <-timer.C:
			if blocked := hx.BlockedInGo9p(); blocked != "" {
				return fmt.Errorf("concurrent phase: %d of %d goroutines sharing the client did not finish within %v; goroutines blocked inside go9p:\n%s", len(c.Conc)-n, len(c.Conc), concDeadline, blocked)
			}
			return infraf("concurrent phase did not finish within %v and nothing is blocked inside go9p", concDeadline)
		}
	}
	var infra error
	for _, e := range errs {
		if e == nil {
			continue
		}
		if !isInfra(e) {
			return e
		}
		infra = e
	}
	if infra != nil {
		return infra
	}
	return x.checkWireConc()
}

func (x *executor) doOp(i int, op *Op) error {
	switch op.Kind {
	case "walk":
		return x.doWalk(fmt.Sprintf("op %d", i), op)
	case "stat":
		if _, ok := x.model[op.Fid]; !ok {
			hx.Label("op skipped (fid not live)")
			return nil
		}
		hx.Eval()
		return x.expectStat(lazy(func() string { return fmt.Sprintf("op %d: Tstat(fid %d)", i, op.Fid) }), op.Fid)
	case "clunk":
		if _, ok := x.model[op.Fid]; !ok || op.Fid == 0 {
			hx.Label("op skipped (fid not live)")
			return nil
		}
		r, err := x.raw.Clunk(op.Fid)
		if err != nil {
			return rpcErr(str("Tclunk"), err)
		}
		if r.Type != ref9p.Rclunk {
			return fmt.Errorf("op %d: Tclunk(fid %d) of a live fid answered %s %q", i, op.Fid, ref9p.TypeName(r.Type), r.Ename)
		}
		delete(x.model, op.Fid)
		delete(x.opened, op.Fid)
		return nil
	case "open":
		if _, ok := x.model[op.Fid]; !ok || op.Fid == 0 {
			hx.Label("op skipped (fid not live)")
			return nil
		}
		return x.doOpen(lazy(func() string { return fmt.Sprintf("op %d", i) }), op.Fid, op.Mode)
	case "read":
		if _, ok := x.model[op.Fid]; !ok {
			hx.Label("op skipped (fid not live)")
			return nil
		}
		return x.doRead(lazy(func() string { return fmt.Sprintf("op %d", i) }), op.Fid)
	}
	return infraf("case: unknown op %q", op.Kind)
}

func kindOf(fi os.FileInfo) string {
	switch {
	case fi.IsDir():
		return "dir"
	case fi.Mode()&os.ModeSymlink != 0:
		return "symlink"
	case fi.Mode().IsRegular():
		return "file"
	}
	return "other"
}

// doOpen sends Topen on a fid that is not open yet and then Tstat on the
// opened fid. Files (any access mode) and directories (OREAD) must open;
// whether a fid designating a symbolic link can be opened is not judged (Ufs
// opens the link's target on the host). The Ropen qid and the stat of the
// opened fid must agree with os.Lstat of the path the fid designates - for a
// symlink fid that is the link itself, not what the server's descriptor
// happens to refer to.
func (x *executor) doOpen(pfx lazy, fid uint32, mode uint8) error {
	P := x.model[fid]
	if _, is := x.opened[fid]; is {
		hx.Label("op skipped (fid already open)")
		return nil
	}
	if mode > 3 {
		return infraf("case: open mode %#x would change the tree", mode)
	}
	fi, err := os.Lstat(P)
	if err != nil {
		return infraf("model path vanished: %v", err)
	}
	kind := kindOf(fi)
	if kind == "dir" && mode != 0 {
		hx.Label("op skipped (directory, mode other than OREAD)")
		return nil
	}
	what := lazy(func() string {
		return fmt.Sprintf("%s: Topen(fid %d at %s, mode %d) .u=%v", pfx, fid, shortPath(x.root, P), mode, x.dotu)
	})
	hx.Eval()
	r, err := x.raw.Open(fid, mode)
	if err != nil {
		return rpcErr(what, err)
	}
	outcome := "Ropen"
	switch {
	case r.Type == ref9p.Ropen:
		if d := x.qidDiff(r.Qid.Type, r.Qid.Path, fi); len(d) > 0 {
			return fmt.Errorf("%s: Ropen qid disagrees with os.Lstat of the path the fid designates: %s", what, strings.Join(d, "; "))
		}
		x.opened[fid] = mode
	case kind == "symlink":
		outcome = "Rerror(not judged)"
	default:
		return fmt.Errorf("%s: a %s must open, got %s %q", what, kind, ref9p.TypeName(r.Type), r.Ename)
	}
	target := ""
	if kind == "symlink" {
		target = " -> dangling"
		if tfi, err := os.Stat(P); err == nil {
			target = " -> " + kindOf(tfi)
		}
	}
	hx.Label(fmt.Sprintf("open kind=%s%s mode=%d %s", kind, target, mode, outcome))
	if kind == "symlink" && r.Type == ref9p.Ropen {
		hx.NonTrivial("open-symlink", x.treeH, strings.TrimPrefix(P, x.root), mode, x.dotu)
	}
	return x.expectStat(what.plus(" then Tstat(fid)"), fid)
}

// doRead reads the first bytes through an opened fid and stats it again: a
// read must not change what the fid reports. The data is compared for regular
// files opened for reading; for directories (C15) and symlink fids the reply
// is not judged.
func (x *executor) doRead(pfx lazy, fid uint32) error {
	P := x.model[fid]
	mode, is := x.opened[fid]
	if !is {
		hx.Label("op skipped (read on a fid that is not open)")
		return nil
	}
	if mode&3 == 1 {
		hx.Label("op skipped (read on a fid opened OWRITE)")
		return nil
	}
	fi, err := os.Lstat(P)
	if err != nil {
		return infraf("model path vanished: %v", err)
	}
	kind := kindOf(fi)
	count := uint32(64)
	if kind != "file" {
		count = 4096
	}
	what := lazy(func() string {
		return fmt.Sprintf("%s: Tread(fid %d at %s opened with mode %d, offset 0, count %d) .u=%v", pfx, fid, shortPath(x.root, P), mode, count, x.dotu)
	})
	hx.Eval()
	r, err := x.raw.Read(fid, 0, count)
	if err != nil {
		return rpcErr(what, err)
	}
	if kind == "file" && mode != 3 {
		if r.Type != ref9p.Rread {
			return fmt.Errorf("%s: got %s %q", what, ref9p.TypeName(r.Type), r.Ename)
		}
		want := make([]byte, count)
		lf, err := os.Open(P)
		if err != nil {
			return infraf("open %q: %v", P, err)
		}
		n, _ := lf.ReadAt(want, 0)
		lf.Close()
		if !bytes.Equal(r.Data, want[:n]) {
			return fmt.Errorf("%s: data %q differs from the first bytes of the local file %q", what, r.Data, want[:n])
		}
	}
	hx.Label(fmt.Sprintf("read kind=%s %s", kind, ref9p.TypeName(r.Type)))
	return x.expectStat(what.plus(" then Tstat(fid)"), fid)
}

// expectStat sends Tstat on fid and compares: a fid the model knows must stat
// as its host path, any other fid must be refused.
func (x *executor) expectStat(what fmt.Stringer, fid uint32) error {
	_, err := x.statFid(what, fid)
	return err
}

func (x *executor) statFid(what fmt.Stringer, fid uint32) (*ref9p.Stat, error) {
	r, err := x.raw.Stat(fid)
	if err != nil {
		return nil, rpcErr(what, err)
	}
	p, live := x.model[fid]
	if !live {
		if r.Type != ref9p.Rerror {
			return nil, fmt.Errorf("%s: the fid must not exist, but Tstat answered %s (name %q, qid.path %s)", what, ref9p.TypeName(r.Type), r.Stat.Name, x.inoName(r.Stat.Qid.Path))
		}
		return nil, nil
	}
	if r.Type != ref9p.Rstat {
		return nil, fmt.Errorf("%s: fid designates %s, Tstat answered %s %q", what, shortPath(x.root, p), ref9p.TypeName(r.Type), r.Ename)
	}
	if d := x.statDiff(viewOfStat(&r.Stat), p, p == x.root, x.dotu); len(d) > 0 {
		return nil, fmt.Errorf("%s: stat disagrees with os.Lstat(%s) (.u=%v): %s", what, shortPath(x.root, p), x.dotu, strings.Join(d, "; "))
	}
	x.noteObject(p)
	return &r.Stat, nil
}

func (x *executor) noteObject(p string) {
	fi, err := os.Lstat(p)
	if err != nil {
		return
	}
	st := fi.Sys().(*syscall.Stat_t)
	kind := "file"
	switch {
	case fi.IsDir():
		kind = "dir"
	case fi.Mode()&os.ModeSymlink != 0:
		kind = "symlink"
	}
	link := st.Nlink > 1 && !fi.IsDir()
	hx.Label(fmt.Sprintf("stat kind=%s hardlinked=%v .u=%v", kind, link, x.dotu))
	if kind == "symlink" || link {
		hx.NonTrivial("stat", x.treeH, strings.TrimPrefix(p, x.root), x.dotu)
	}
}

func nclass(n int) string {
	switch {
	case n <= 2:
		return fmt.Sprint(n)
	case n < 15:
		return "3-14"
	}
	return fmt.Sprint(n)
}

// hostileClass names the reason why a walk element can never be the name of a
// directory entry ("" for an ordinary name; "len255" is the longest name that
// can exist).
func hostileClass(nm string) string {
	switch {
	case strings.Contains(nm, "\x00"):
		return "nul"
	case strings.Contains(nm, "/"):
		return "slash"
	case len(nm) >= 4096:
		return "len4096+"
	case len(nm) > 256:
		return "len257-4095"
	case len(nm) == 256:
		return "len256"
	case len(nm) == 255:
		return "len255"
	}
	return ""
}

// resolve is the oracle of every walk: the longest prefix of names that exists
// locally below P, element by element, as os.Lstat of the joined path says (a
// name that is too long for a directory entry or contains a NUL byte makes
// Lstat fail like a name that is merely absent: it does not exist). An element
// that contains '/' is not the name of a directory entry either; when the
// joined path nevertheless exists on the host the walk is ambiguous and is not
// judged here (what such elements may reach is C18's subject).
//
// The elements "." and ".." name the directory itself and its parent. They are
// judged only where there is one answer to what that is: the object the host
// resolves cur/. or cur/.. to (os.Lstat of that very string) must be the
// object at the lexically shortened path (cur, or cur without its last
// element). Where the two differ or only one exists - behind a symbolic link
// (the parent of the link or of its target?), behind a file - the walk is
// ambiguous and not judged. ".." at the exported root is the root (C18's
// clause "'..' at the root stays at the root"; only the local root is used as
// the reference, nothing outside is looked at). The path returned for the
// object reached is the lexically clean one, so that its last element is the
// NAME of the object (filepath.Base of the cleaned local path).
func (x *executor) resolve(P string, names []string) (infos []os.FileInfo, cur string, ambiguous bool) {
	cur = P
	for _, nm := range names {
		if nm == "." || nm == ".." {
			lex := cur
			if nm == ".." && cur != x.root {
				lex = cur[:strings.LastIndexByte(cur, '/')]
			}
			lfi, lerr := os.Lstat(lex)
			if nm == ".." && cur == x.root {
				if lerr != nil {
					break
				}
				infos = append(infos, lfi)
				continue
			}
			pfi, perr := os.Lstat(cur + "/" + nm)
			if perr != nil && lerr != nil {
				break
			}
			if perr != nil || lerr != nil || !os.SameFile(pfi, lfi) {
				return infos, cur, true
			}
			infos = append(infos, lfi)
			cur = lex
			continue
		}
		fi, err := os.Lstat(cur + "/" + nm)
		if err != nil {
			break
		}
		if strings.Contains(nm, "/") {
			return infos, cur, true
		}
		infos = append(infos, fi)
		cur += "/" + nm
	}
	return infos, cur, false
}

// isDot says whether a walk element is "." or "..".
func isDot(nm string) bool { return nm == "." || nm == ".." }

// dotShape classifies where the "." / ".." elements of a walk are.
func dotShape(names []string) string {
	n, last, trail := 0, false, 0
	for _, nm := range names {
		if isDot(nm) {
			n++
			trail++
			last = true
		} else {
			trail = 0
			last = false
		}
	}
	switch {
	case n == 0:
		return ""
	case !last:
		return "inner"
	case trail == len(names):
		if trail == 1 {
			return "only-one"
		}
		return "only-several"
	case trail == 1:
		return "last-one"
	}
	return "last-several"
}

// walkNames converts and checks the names of a Twalk of a case.
func walkNames(bnames [][]byte) ([]string, error) {
	if len(bnames) > 16 {
		return nil, infraf("case: walk with %d names", len(bnames))
	}
	names := make([]string, len(bnames))
	for j, nm := range bnames {
		s := string(nm)
		if s == "" || len(s) > 5000 {
			return nil, infraf("case: walk name outside the C16 alphabet: %q", s)
		}
		names[j] = s
	}
	return names, nil
}

func (x *executor) doWalk(pfx string, op *Op) error {
	P, ok := x.model[op.Fid]
	if !ok {
		hx.Label("op skipped (fid not live)")
		return nil
	}
	if _, is := x.opened[op.Fid]; is {
		hx.Label("op skipped (walk from an open fid)")
		return nil
	}
	inplace := op.Newfid == op.Fid
	if !inplace {
		if _, used := x.model[op.Newfid]; used || op.Newfid == ref9p.NOFID {
			hx.Label("op skipped (newfid in use)")
			return nil
		}
	}
	names, err := walkNames(op.Names)
	if err != nil {
		return err
	}
	n := len(names)
	// oracle: the longest prefix that exists locally
	startFi, err := os.Lstat(P)
	if err != nil {
		return infraf("model path vanished: %v", err)
	}
	infos, cur, ambiguous := x.resolve(P, names)
	if ambiguous {
		hx.Label("op skipped (element with '/' whose joined path exists, or '.' / '..' behind a symlink or a file: not judged)")
		return nil
	}
	k := len(infos)
	fromSymlink := startFi.Mode()&os.ModeSymlink != 0
	what := lazy(func() string {
		return fmt.Sprintf("%s: Twalk(fid %d at %s, newfid %d, %s) .u=%v", pfx, op.Fid, shortPath(x.root, P), op.Newfid, qnames(op.Names), x.dotu)
	})

	hx.Eval()
	outcome := "complete"
	if k < n {
		outcome = "partial"
		if k == 0 {
			outcome = "first-missing"
		}
	}
	from := "dir"
	if fromSymlink {
		from = "symlink"
	} else if !startFi.IsDir() {
		from = "file"
	}
	hx.Label(fmt.Sprintf("walk from=%s inplace=%v n=%s %s", from, inplace, nclass(n), outcome))
	if n >= 2 && k >= 1 && k < n {
		hx.NonTrivial("walk", x.treeH, strings.TrimPrefix(P, x.root), inplace, strings.Join(names, "/"))
	}
	if ds := dotShape(names); ds != "" {
		depth := strings.Count(strings.TrimPrefix(P, x.root), "/")
		hx.Label(fmt.Sprintf("walk with '.'/'..' elements: %s inplace=%v %s", ds, inplace, outcome))
		if k == n && isDot(names[n-1]) {
			at := "below the root"
			if cur == x.root {
				at = "the root"
			}
			hx.Label(fmt.Sprintf("walk ENDING on %q: start depth=%s, reaches %s", names[n-1], depthClass(depth), at))
			if cur != x.root {
				// the stat NAME of the fid must be the directory's own name
				hx.NonTrivial("walk-dots", x.treeH, strings.TrimPrefix(P, x.root), inplace, strings.Join(names, "/"), x.dotu)
			}
		}
	}
	for j, nm := range names {
		hc := hostileClass(nm)
		if hc == "" || j > k {
			continue // (elements behind the first one that does not exist are never looked at)
		}
		switch {
		case j < k:
			hx.Label("walk element exists class=" + hc)
		case j == 0:
			hx.Label(fmt.Sprintf("walk FIRST element cannot exist class=%s inplace=%v", hc, inplace))
			hx.Label(fmt.Sprintf("walk FIRST element cannot exist, more names follow=%v", n > 1))
			if from == "dir" && hc != "len255" {
				hx.NonTrivial("walk-hostile", x.treeH, strings.TrimPrefix(P, x.root), inplace, strings.Join(names, "\x01"))
			}
		default:
			hx.Label("walk later element cannot exist class=" + hc)
		}
	}

	r, err := x.raw.Walk(op.Fid, op.Newfid, names...)
	if err != nil {
		return rpcErr(what, err)
	}

	symRefused := false
	switch {
	case n > 0 && k == 0:
		if r.Type != ref9p.Rerror {
			why := ""
			if hc := hostileClass(names[0]); hc != "" && hc != "len255" {
				why = fmt.Sprintf(" (it cannot exist: class %s, %d bytes; os.Lstat of the joined path fails)", hc, len(names[0]))
			}
			return fmt.Errorf("%s: the first element does not exist%s, want Rerror, got %s with %d qids", what, why, ref9p.TypeName(r.Type), len(r.Wqid))
		}
	case r.Type == ref9p.Rerror && fromSymlink && n > 0 && hx.IsKnown(idSymStart):
		hx.Known(idSymStart, fmt.Sprintf("%s: %d leading elements exist locally, answered Rerror %q", what, k, r.Ename))
		symRefused = true
	case r.Type != ref9p.Rwalk:
		note := ""
		if fromSymlink {
			note = " (the fid designates a symlink; the same names resolve when the symlink is an inner element of one Twalk)"
		}
		return fmt.Errorf("%s: %d leading elements exist locally, want Rwalk with %d qids, got %s %q%s", what, k, k, ref9p.TypeName(r.Type), r.Ename, note)
	default:
		if len(r.Wqid) != k {
			return fmt.Errorf("%s: Rwalk carries %d qids, %d leading elements exist locally", what, len(r.Wqid), k)
		}
		for j, q := range r.Wqid {
			if d := x.qidDiff(q.Type, q.Path, infos[j]); len(d) > 0 {
				return fmt.Errorf("%s: qid %d of Rwalk disagrees with the local object: %s", what, j, strings.Join(d, "; "))
			}
		}
	}
	complete := k == n && !symRefused
	if complete {
		x.model[op.Newfid] = cur
	}
	if inplace && k >= 1 && k < n {
		hx.ExtraAdd("inplace_partial_walks", 1)
	}

	// afterwards: fid (and newfid) must stat as the model says — the target only
	// after a complete walk, otherwise both exactly as before
	err = x.expectStat(what.plus(" then Tstat(fid)"), op.Fid)
	if err != nil && !isInfra(err) && inplace && k >= 1 && k < n {
		// signature of the listed finding: the fid now designates the walked prefix
		r2, e2 := x.raw.Stat(op.Fid)
		moved := e2 == nil && r2.Type == ref9p.Rstat && len(x.statDiff(viewOfStat(&r2.Stat), cur, cur == x.root, x.dotu)) == 0
		if moved && hx.IsKnown(idInplace) {
			hx.Known(idInplace, fmt.Sprintf("%s: Rwalk with %d of %d qids; afterwards the fid stats as %s", what, k, n, shortPath(x.root, cur)))
			x.model[op.Fid] = cur // follow the server so that the search goes on behind the finding
			err = nil
		} else if moved {
			err = fmt.Errorf("%s: in-place PARTIAL walk (%d of %d elements exist) moved the fid: it now designates %s instead of being left as it was [%v]", what, k, n, shortPath(x.root, cur), err)
		}
	}
	if err != nil {
		return err
	}
	if !inplace {
		if err := x.expectStat(what.plus(" then Tstat(newfid)"), op.Newfid); err != nil {
			return err
		}
	}
	return nil
}

// ---------------------------------------------------------------- bursts

func (x *executor) clunkFid(what fmt.Stringer, fid uint32) error {
	r, err := x.raw.Clunk(fid)
	if err != nil {
		return rpcErr(what, err)
	}
	if r.Type != ref9p.Rclunk {
		return fmt.Errorf("%s: Tclunk(fid %d) of a live fid answered %s %q", what, fid, ref9p.TypeName(r.Type), r.Ename)
	}
	delete(x.model, fid)
	delete(x.opened, fid)
	return nil
}

// place walks pipeFid from the root along start (Twalks of at most 16 names,
// the first to the new fid, the others in place; each judged like any
// sequential walk). false: the directory was not reached (a listed finding).
func (x *executor) place(pfx string, start [][]byte) (bool, error) {
	src, want, rest := uint32(0), x.root, start
	for first := true; first || len(rest) > 0; first = false {
		m := len(rest)
		if m > 16 {
			m = 16
		}
		if err := x.doWalk(pfx+" (placing the fid)", &Op{Kind: "walk", Fid: src, Newfid: pipeFid, Names: rest[:m]}); err != nil {
			return false, err
		}
		for _, e := range rest[:m] {
			want += "/" + string(e)
		}
		if x.model[pipeFid] != want {
			if _, live := x.model[pipeFid]; live {
				if err := x.clunkFid(str(pfx), pipeFid); err != nil {
					return false, err
				}
			}
			return false, nil
		}
		rest, src = rest[m:], pipeFid
	}
	return true, nil
}

func (x *executor) replyDesc(r *ref9p.Msg) string {
	switch r.Type {
	case ref9p.Rerror:
		return fmt.Sprintf("Rerror %q", r.Ename)
	case ref9p.Rwalk:
		var b strings.Builder
		fmt.Fprintf(&b, "Rwalk with %d qids", len(r.Wqid))
		for j, q := range r.Wqid {
			if j == 0 {
				b.WriteString(": ")
			} else {
				b.WriteString(", ")
			}
			b.WriteString(x.inoName(q.Path))
		}
		return b.String()
	case ref9p.Rstat:
		return fmt.Sprintf("Rstat with name %q, qid.path = %s", r.Stat.Name, x.inoName(r.Stat.Qid.Path))
	}
	return ref9p.TypeName(r.Type)
}

// walkFits says whether r is the reply that a Twalk with these names served
// at P must get, and where the new fid is afterwards ("" if there is none).
func (x *executor) walkFits(r *ref9p.Msg, P string, names []string) (fits bool, newAt string) {
	infos, cur, _ := x.resolve(P, names)
	n, k := len(names), len(infos)
	if n > 0 && k == 0 {
		return r.Type == ref9p.Rerror, ""
	}
	if r.Type == ref9p.Rerror {
		if fi, err := os.Lstat(P); err == nil && fi.Mode()&os.ModeSymlink != 0 && n > 0 && hx.IsKnown(idSymStart) {
			return true, ""
		}
		return false, ""
	}
	if r.Type != ref9p.Rwalk || len(r.Wqid) != k {
		return false, ""
	}
	for j, q := range r.Wqid {
		if len(x.qidDiff(q.Type, q.Path, infos[j])) > 0 {
			return false, ""
		}
	}
	if k == n {
		return true, cur
	}
	return true, ""
}

func (x *executor) wantDesc(P string, names []string) string {
	infos, _, _ := x.resolve(P, names)
	if len(names) > 0 && len(infos) == 0 {
		return fmt.Sprintf("served at %s: Rerror (the first name does not exist there)", shortPath(x.root, P))
	}
	return fmt.Sprintf("served at %s: Rwalk with %d qids", shortPath(x.root, P), len(infos))
}

func burstReqDesc(q *Op) string {
	switch {
	case q.Kind == "stat":
		return "Tstat(F)"
	case q.Newfid == pipeFid:
		return fmt.Sprintf("Twalk(F, F, %s)", qnames(q.Names))
	}
	return fmt.Sprintf("Twalk(F, N%d, %s)", q.Newfid-pipeFid, qnames(q.Names))
}

// burstDeadline only detects a hang.
const burstDeadline = 30 * time.Second

func (x *executor) doBurst(bi int, b *Burst) error {
	if len(b.Reqs) == 0 || len(b.Reqs) > 32 {
		return infraf("case: burst of %d requests", len(b.Reqs))
	}
	repeat := b.Repeat
	if repeat < 1 {
		repeat = 1
	}
	if repeat > 64 {
		return infraf("case: burst repeated %d times", repeat)
	}
	if _, used := x.model[pipeFid]; used {
		return infraf("case: the burst fid is in use")
	}
	seen := map[uint32]bool{}
	names := make([][]string, len(b.Reqs))
	for j := range b.Reqs {
		q := &b.Reqs[j]
		switch q.Kind {
		case "stat":
		case "walk":
			if q.Newfid != pipeFid && (q.Newfid <= pipeFid || q.Newfid > pipeFid+64 || seen[q.Newfid]) {
				return infraf("case: burst request %d has newfid %#x", j, q.Newfid)
			}
			seen[q.Newfid] = true
			var err error
			if names[j], err = walkNames(q.Names); err != nil {
				return err
			}
		default:
			return infraf("case: burst request of kind %q", q.Kind)
		}
		if q.Fid != pipeFid {
			return infraf("case: burst request %d on fid %#x", j, q.Fid)
		}
	}
	if len(b.Start) > 40 {
		return infraf("case: burst start of %d elements", len(b.Start))
	}
	S := x.root
	for _, e := range b.Start {
		if s := string(e); s == "" || s == "." || s == ".." || strings.ContainsAny(s, "/\x00") {
			return infraf("case: burst start element outside the C16 alphabet: %q", s)
		}
		S += "/" + string(e)
	}
	if fi, err := os.Lstat(S); err != nil || !fi.IsDir() {
		hx.Label("burst skipped (start is not an existing real directory)")
		return nil
	}
	pfx := fmt.Sprintf("burst %d", bi)
	for r := 0; r < repeat; r++ {
		if _, live := x.model[pipeFid]; !live {
			ok, err := x.place(pfx, b.Start)
			if err != nil {
				return err
			}
			if !ok {
				hx.Label("burst skipped (start not reached)")
				return nil
			}
		}
		moved, skip, err := x.burstRound(fmt.Sprintf("%s round %d of %d", pfx, r, repeat), b, names, S)
		if err != nil {
			return err
		}
		if skip {
			break
		}
		if moved {
			if err := x.clunkFid(str(pfx), pipeFid); err != nil {
				return err
			}
		}
	}
	if _, live := x.model[pipeFid]; live {
		return x.clunkFid(str(pfx), pipeFid)
	}
	return nil
}

// burstRound sends the burst once and judges every reply.
func (x *executor) burstRound(pfx string, b *Burst, names [][]string, S string) (moved, skip bool, err error) {
	nreq := len(b.Reqs)
	// shape of the burst as the local tree says
	mover, T, walkers, kmax := -1, "", 0, 0
	for j := range b.Reqs {
		q := &b.Reqs[j]
		if q.Kind != "walk" {
			continue
		}
		infos, cur, amb := x.resolve(S, names[j])
		if amb {
			hx.Label("burst skipped (element with '/' whose joined path exists: not judged)")
			return false, true, nil
		}
		if q.Newfid != pipeFid || len(names[j]) == 0 {
			continue
		}
		walkers++
		if len(infos) == len(names[j]) {
			if mover >= 0 {
				hx.Label("burst skipped (more than one complete in-place walk: not judged)")
				return false, true, nil
			}
			mover, T = j, cur
		} else if len(infos) > kmax {
			kmax = len(infos)
		}
	}
	if mover >= 0 && walkers > 1 {
		hx.Label("burst skipped (a complete in-place walk next to other in-place walks: not judged)")
		return false, true, nil
	}
	at := []string{S}
	if mover >= 0 {
		at = append(at, T)
		for j := range b.Reqs {
			if _, _, amb := x.resolve(T, names[j]); amb && b.Reqs[j].Kind == "walk" {
				hx.Label("burst skipped (element with '/' whose joined path exists: not judged)")
				return false, true, nil
			}
		}
	}
	nstat, nobs := 0, 0
	for j := range b.Reqs {
		if b.Reqs[j].Kind == "stat" {
			nstat++
		} else if b.Reqs[j].Newfid != pipeFid {
			nobs++
		}
	}
	switch {
	case mover >= 0:
		hx.Label(fmt.Sprintf("burst: one COMPLETE in-place walk n=%s + observers", nclass(len(names[mover]))))
	case walkers > 0:
		hx.Label(fmt.Sprintf("burst: incomplete in-place walks=%d + observers", walkers))
		hx.Label(fmt.Sprintf("burst: incomplete in-place walks, longest existing prefix=%s", nclass(kmax)))
	default:
		hx.Label("burst: observers only")
	}
	hx.Label("burst observers: Tstat=" + nclass(nstat))
	hx.Label("burst observers: Twalk to new fids=" + nclass(nobs))
	if mover < 0 && kmax >= 2 && nstat+nobs > 0 {
		rb, _ := json.Marshal(b.Reqs)
		hx.NonTrivial("burst", x.treeH, strings.TrimPrefix(S, x.root), rb, x.dotu)
	}
	hx.ExtraAdd("burst_rounds", 1)
	hx.Evals(nreq + 1)

	what := lazy(func() string {
		var d []string
		for j := range b.Reqs {
			d = append(d, burstReqDesc(&b.Reqs[j]))
		}
		return fmt.Sprintf("%s (.u=%v): %d requests pipelined in one write on fid F, which designates the directory %s: %s", pfx, x.dotu, nreq, shortPath(x.root, S), strings.Join(d, " | "))
	})

	// one write, then all the replies
	tags := make([]uint16, nreq)
	byTag := map[uint16]int{}
	var buf []byte
	for j := range b.Reqs {
		q := &b.Reqs[j]
		m := &ref9p.Msg{Type: ref9p.Tstat, Fid: pipeFid}
		if q.Kind == "walk" {
			m = &ref9p.Msg{Type: ref9p.Twalk, Fid: pipeFid, Newfid: q.Newfid, Wname: names[j]}
		}
		m.Tag = x.raw.NextTag()
		tags[j], byTag[m.Tag] = m.Tag, j
		buf = append(buf, ref9p.Encode(m, x.dotu)...)
	}
	if err := x.raw.SendRaw(buf); err != nil {
		return false, false, rpcErr(what, err)
	}
	replies := make([]*ref9p.Msg, nreq)
	deadline := time.Now().Add(burstDeadline)
	for got := 0; got < nreq; got++ {
		f, err := x.raw.RecvRaw(time.Until(deadline))
		if errors.Is(err, rawc.ErrTimeout) {
			if blocked := hx.BlockedInGo9p(); blocked != "" {
				return false, false, fmt.Errorf("%s: only %d of %d replies within %v; goroutines blocked inside go9p:\n%s", what, got, nreq, burstDeadline, blocked)
			}
			return false, false, infraf("%s: only %d of %d replies within %v and nothing is blocked inside go9p", what, got, nreq, burstDeadline)
		}
		if err != nil {
			return false, false, rpcErr(what, err)
		}
		m, _, derr := ref9p.Decode(f, x.dotu)
		if derr != nil {
			return false, false, fmt.Errorf("%s: a reply does not decode strictly: %v", what, derr)
		}
		j, ok := byTag[m.Tag]
		if !ok || replies[j] != nil {
			return false, false, fmt.Errorf("%s: reply %s with tag %d, which is not the tag of an unanswered request of the burst", what, ref9p.TypeName(m.Type), m.Tag)
		}
		replies[j] = m
	}

	where := func(paths []string) string {
		var d []string
		for _, p := range paths {
			d = append(d, shortPath(x.root, p))
		}
		return strings.Join(d, " or at ")
	}
	rule := "no in-place walk of the burst is complete, so the fid is there before, during and after every one of them"
	if mover >= 0 {
		rule = fmt.Sprintf("request %d is the only in-place walk and it is complete, so the fid is at the first place before it and at the second after it", mover)
	}
	newAt := make([][]string, nreq) // observer to a new fid: the places the new fid may designate
	for j := range b.Reqs {
		q, rp := &b.Reqs[j], replies[j]
		switch {
		case q.Kind == "stat":
			ok := false
			if rp.Type == ref9p.Rstat {
				for _, p := range at {
					if len(x.statDiff(viewOfStat(&rp.Stat), p, p == x.root, x.dotu)) == 0 {
						ok = true
					}
				}
			}
			if !ok {
				diff := ""
				if rp.Type == ref9p.Rstat {
					diff = "; against the first: " + strings.Join(x.statDiff(viewOfStat(&rp.Stat), S, S == x.root, x.dotu), "; ")
				}
				return false, false, fmt.Errorf("%s: request %d %s answered %s, which is not the stat of the fid at %s (%s)%s", what, j, burstReqDesc(q), x.replyDesc(rp), where(at), rule, diff)
			}
		case q.Newfid == pipeFid && len(names[j]) > 0:
			// an in-place walk starts where the fid is: at S
			if fits, _ := x.walkFits(rp, S, names[j]); !fits {
				return false, false, fmt.Errorf("%s: request %d %s answered %s; want, %s (%s)", what, j, burstReqDesc(q), x.replyDesc(rp), x.wantDesc(S, names[j]), rule)
			}
		default:
			fitsAny := false
			var wants []string
			for _, p := range at {
				fits, na := x.walkFits(rp, p, names[j])
				if fits {
					fitsAny = true
					if na != "" {
						newAt[j] = append(newAt[j], na)
					}
				}
				wants = append(wants, x.wantDesc(p, names[j]))
			}
			if !fitsAny {
				return false, false, fmt.Errorf("%s: request %d %s answered %s; want, %s (%s)", what, j, burstReqDesc(q), x.replyDesc(rp), strings.Join(wants, " or, "), rule)
			}
		}
	}

	// afterwards, one request at a time: the fid, then the new fids
	F := S
	if mover >= 0 {
		F = T
	}
	x.model[pipeFid] = F
	if err := x.expectStat(what.plus(fmt.Sprintf("; all replies were as required (%s); then Tstat(F)", rule)), pipeFid); err != nil {
		return false, false, err
	}
	for j := range b.Reqs {
		q := &b.Reqs[j]
		if q.Kind != "walk" || q.Newfid == pipeFid {
			continue
		}
		w := what.plus(fmt.Sprintf("; request %d %s answered %s; then Tstat(N%d)", j, burstReqDesc(q), x.replyDesc(replies[j]), q.Newfid-pipeFid))
		r, err := x.raw.Stat(q.Newfid)
		if err != nil {
			return false, false, rpcErr(w, err)
		}
		if len(newAt[j]) == 0 {
			if r.Type != ref9p.Rerror {
				return false, false, fmt.Errorf("%s: the walk was not complete, the new fid must not exist, but Tstat answered %s", w, x.replyDesc(r))
			}
			continue
		}
		ok := false
		if r.Type == ref9p.Rstat {
			for _, p := range newAt[j] {
				if len(x.statDiff(viewOfStat(&r.Stat), p, p == x.root, x.dotu)) == 0 {
					ok = true
				}
			}
		}
		if !ok {
			return false, false, fmt.Errorf("%s: answered %s, which is not the stat of the walk's target %s", w, x.replyDesc(r), where(newAt[j]))
		}
		x.model[q.Newfid] = newAt[j][0]
		if err := x.clunkFid(w, q.Newfid); err != nil {
			return false, false, err
		}
	}
	return mover >= 0, false, nil
}

// visitAll stats every node of the tree. Each node is reached with one Twalk
// from a fid kept on its parent directory; in addition the deepest node and the
// first nodes at depths 16, 17, 32 and 33 are reached by their whole path from
// the root (Twalks of at most 16 elements, continuing in place). Qid paths
// must be equal exactly for equal inodes.
func (x *executor) visitAll() error {
	const base = 0x00C16000
	const tmp = 0x00C15FFF
	byIno := map[uint64]uint64{}
	byQid := map[uint64]uint64{}
	var dev0 uint64
	depth := make([]int, len(x.c.Tree))
	full := map[int]bool{}
	deepest := 0
	seen := map[int]bool{}
	for i := 1; i < len(x.c.Tree); i++ {
		depth[i] = depth[x.c.Tree[i].Parent] + 1
		if depth[i] > depth[deepest] {
			deepest = i
		}
		switch d := depth[i]; d {
		case 16, 17, 32, 33:
			if !seen[d] {
				seen[d] = true
				full[i] = true
			}
		}
	}
	full[deepest] = true
	var dirFids []uint32

	check := func(what lazy, i int, fid uint32) error {
		p := x.paths[i]
		fi, err := os.Lstat(p)
		if err != nil {
			return infraf("node %d vanished: %v", i, err)
		}
		st := fi.Sys().(*syscall.Stat_t)
		if i == 0 {
			dev0 = uint64(st.Dev)
		} else if uint64(st.Dev) != dev0 {
			return infraf("tree spans more than one device")
		}
		x.model[fid] = p
		rs, err := x.statFid(what.plus(": Tstat"), fid)
		delete(x.model, fid)
		if err != nil {
			return err
		}
		q := rs.Qid.Path
		if o, ok := byIno[st.Ino]; ok && o != q {
			return fmt.Errorf("%s: %s was reported with two different qid paths", what, x.inoName(st.Ino))
		}
		if o, ok := byQid[q]; ok && o != st.Ino {
			return fmt.Errorf("%s: %s and %s coexist but share a qid path", what, x.inoName(o), x.inoName(st.Ino))
		}
		byIno[st.Ino], byQid[q] = q, st.Ino
		return nil
	}
	clunk := func(what lazy, fid uint32) error {
		if c, err := x.raw.Clunk(fid); err != nil || c.Type != ref9p.Rclunk {
			return rpcErr(what.plus(": Tclunk"), fmt.Errorf("%v %v", err, c))
		}
		return nil
	}

	for i := range x.c.Tree {
		i := i
		p := x.paths[i]
		what := lazy(func() string { return fmt.Sprintf("visit node %d %s .u=%v", i, shortPath(x.root, p), x.dotu) })
		hx.Eval()
		fid := uint32(base + i)
		var r *ref9p.Msg
		var err error
		if i == 0 {
			r, err = x.raw.Walk(0, fid)
		} else {
			r, err = x.raw.Walk(uint32(base+x.c.Tree[i].Parent), fid, string(x.c.Tree[i].Name))
		}
		if err != nil {
			return rpcErr(what, err)
		}
		want := 1
		if i == 0 {
			want = 0
		}
		if r.Type != ref9p.Rwalk || len(r.Wqid) != want {
			return fmt.Errorf("%s: Twalk of the existing name from the fid on its parent answered %s with %d qids %q", what, ref9p.TypeName(r.Type), len(r.Wqid), r.Ename)
		}
		if want == 1 {
			fi, err := os.Lstat(p)
			if err != nil {
				return infraf("node %d vanished: %v", i, err)
			}
			if d := x.qidDiff(r.Wqid[0].Type, r.Wqid[0].Path, fi); len(d) > 0 {
				return fmt.Errorf("%s: qid of Rwalk disagrees with the local object: %s", what, strings.Join(d, "; "))
			}
		}
		if err := check(what, i, fid); err != nil {
			return err
		}
		// open the node (OREAD), stat the opened fid, read, stat again. Every
		// non-directory node is opened on the visiting fid; of the directories
		// (whose fids are still needed to reach the children, and an open fid
		// cannot be walked) the root and every third one are opened on a clone.
		openOn := func(f uint32) error {
			x.model[f] = p
			defer func() { delete(x.model, f); delete(x.opened, f) }()
			if err := x.doOpen(what, f, 0); err != nil {
				return err
			}
			return x.doRead(what, f)
		}
		if x.c.Tree[i].Kind == "d" {
			dirFids = append(dirFids, fid)
			if i%3 == 0 {
				r, err := x.raw.Walk(fid, tmp)
				if err != nil {
					return rpcErr(what, err)
				}
				if r.Type != ref9p.Rwalk || len(r.Wqid) != 0 {
					return fmt.Errorf("%s: cloning the fid answered %s %q", what, ref9p.TypeName(r.Type), r.Ename)
				}
				if err := openOn(tmp); err != nil {
					return err
				}
				if err := clunk(what, tmp); err != nil {
					return err
				}
			}
		} else {
			if err := openOn(fid); err != nil {
				return err
			}
			if err := clunk(what, fid); err != nil {
				return err
			}
		}
		if x.c.Tree[i].Kind == "d" {
			if err := x.visitDots(i, fid, tmp); err != nil {
				return err
			}
		}
		hx.Label(fmt.Sprintf("visit depth=%s", depthClass(depth[i])))

		if !full[i] || i == 0 {
			continue
		}
		// the same node by its whole path from the root
		hx.Eval()
		var elems []string
		for j := i; j > 0; j = x.c.Tree[j].Parent {
			elems = append([]string{string(x.c.Tree[j].Name)}, elems...)
		}
		whatFull := lazy(func() string {
			return fmt.Sprintf("visit node %d by its whole path (%d elements) %s .u=%v", i, len(elems), shortPath(x.root, p), x.dotu)
		})
		src := uint32(0)
		for rest := elems; len(rest) > 0; {
			m := len(rest)
			if m > 16 {
				m = 16
			}
			r, err := x.raw.Walk(src, tmp, rest[:m]...)
			if err != nil {
				return rpcErr(whatFull, err)
			}
			if r.Type != ref9p.Rwalk || len(r.Wqid) != m {
				return fmt.Errorf("%s: Twalk(fid %d, newfid %d) of %d existing elements answered %s with %d qids %q", whatFull, src, tmp, m, ref9p.TypeName(r.Type), len(r.Wqid), r.Ename)
			}
			rest = rest[m:]
			src = tmp
		}
		if err := check(whatFull, i, tmp); err != nil {
			return err
		}
		if x.c.Tree[i].Kind == "d" {
			// and from there, in place, back up: the fid that was walked down the
			// whole path must then be the parent directory, under its own name
			x.model[tmp] = p
			err := x.doWalk(fmt.Sprintf("visit node %d by its whole path (%d elements), then in place", i, len(elems)), &Op{Kind: "walk", Fid: tmp, Newfid: tmp, Names: [][]byte{[]byte("..")}})
			delete(x.model, tmp)
			if err != nil {
				return err
			}
		}
		if err := clunk(whatFull, tmp); err != nil {
			return err
		}
		if len(elems) > 16 {
			hx.NonTrivial("visit-deep", x.treeH, i, x.dotu)
		}
		hx.Label(fmt.Sprintf("visit by whole path depth=%s", depthClass(len(elems))))
	}
	for _, f := range dirFids {
		if err := clunk(lazy(func() string { return "visit: releasing directory fids" }), f); err != nil {
			return err
		}
	}
	return nil
}

// dotVariants are the walks made of "." and ".." only that visitDots sends
// (besides the plain ".."), one per directory, chosen by the node's number.
var dotVariants = [][]string{{"."}, {"..", ".."}, {"..", "."}, {".", ".."}, {".", "."}, {"..", "..", ".."}, {".", "..", "."}}

// visitDots is the part of the visit that reaches directories by "." and "..":
// from the fid on the real directory node i (a path of real directories, so
// that there is no doubt what its parent is) Twalk [".."] - to a new fid, or
// for every other node in place on a clone - and one of dotVariants to a new
// fid. Each is an ordinary judged walk: the qids are those of the directories
// passed, and the fid then stats as the directory reached, under that
// directory's own name.
func (x *executor) visitDots(i int, fid, tmp uint32) error {
	x.model[fid] = x.paths[i]
	defer delete(x.model, fid)
	pfx := fmt.Sprintf("visit node %d by dot elements", i)
	release := func() error {
		if _, live := x.model[tmp]; live {
			return x.clunkFid(str(pfx), tmp)
		}
		return nil
	}
	up := [][]byte{[]byte("..")}
	if i%2 == 0 {
		if err := x.doWalk(pfx, &Op{Kind: "walk", Fid: fid, Newfid: tmp}); err != nil {
			return err
		}
		if _, live := x.model[tmp]; !live {
			return fmt.Errorf("%s: cloning the fid on %s did not give a fid", pfx, shortPath(x.root, x.paths[i]))
		}
		if err := x.doWalk(pfx, &Op{Kind: "walk", Fid: tmp, Newfid: tmp, Names: up}); err != nil {
			return err
		}
	} else if err := x.doWalk(pfx, &Op{Kind: "walk", Fid: fid, Newfid: tmp, Names: up}); err != nil {
		return err
	}
	if err := release(); err != nil {
		return err
	}
	var names [][]byte
	for _, e := range dotVariants[(i/2)%len(dotVariants)] {
		names = append(names, []byte(e))
	}
	if err := x.doWalk(pfx, &Op{Kind: "walk", Fid: fid, Newfid: tmp, Names: names}); err != nil {
		return err
	}
	return release()
}

func depthClass(n int) string {
	switch {
	case n == 0:
		return "0"
	case n <= 15:
		return "1-15"
	case n == 16:
		return "16"
	case n <= 31:
		return "17-31"
	case n == 32:
		return "32"
	}
	return "33-40"
}

func cliPath(op *CliOp) string {
	sep, lead := "/", ""
	switch op.Style {
	case 1:
		lead = "/"
	case 2:
		lead, sep = "//", "//"
	}
	parts := make([]string, len(op.Elems))
	for i, e := range op.Elems {
		parts[i] = string(e)
	}
	return lead + strings.Join(parts, sep)
}

func (x *executor) doCli(clnt *go9p.Clnt, tag string, op *CliOp) error {
	elems := make([]string, len(op.Elems))
	ndots := 0
	for j, e := range op.Elems {
		s := string(e)
		if s == "" || strings.ContainsAny(s, "/\x00") {
			return infraf("case: client path element outside the C16 alphabet: %q", s)
		}
		if isDot(s) {
			ndots++
		}
		elems[j] = s
	}
	// the local object: element by element like a walk ("." and ".." elements
	// are judged only where the host and the lexical reading agree, see resolve)
	infos, local, ambiguous := x.resolve(x.root, elems)
	if ambiguous {
		hx.Label("client op skipped ('.' / '..' behind a symlink or a file: not judged)")
		return nil
	}
	exists := len(infos) == len(elems)
	var fi os.FileInfo
	if exists {
		var lerr error
		if fi, lerr = os.Lstat(local); lerr != nil {
			return infraf("lstat %q: %v", local, lerr)
		}
	} else if len(infos) < len(elems) {
		// (for the messages) the path as far as it goes plus the rest
		for _, e := range elems[len(infos):] {
			local += "/" + e
		}
	}
	dotu := x.c.SrvDotu
	// an element at a Twalk boundary (16th, 32nd) that is a symlink: the next
	// Twalk starts from a fid designating the symlink
	boundarySym := false
	for b := 16; b < len(elems) && b <= len(infos); b += 16 {
		if infos[b-1].Mode()&os.ModeSymlink != 0 {
			boundarySym = true
		}
	}
	path := cliPath(op)
	what := lazy(func() string {
		if ndots > 0 {
			return fmt.Sprintf("%s: %s(%d elements %s, style %d; the local object is %s) .u=%v", tag, op.Kind, len(op.Elems), qnames(op.Elems), op.Style, shortPath(x.root, local), dotu)
		}
		return fmt.Sprintf("%s: %s(%d elements, style %d, %s) .u=%v", tag, op.Kind, len(op.Elems), op.Style, shortPath(x.root, local), dotu)
	})
	hx.Eval()
	hx.Label(fmt.Sprintf("client %s depth=%s exists=%v", op.Kind, depthClass(len(op.Elems)), exists))
	if ndots > 0 {
		hx.Label(fmt.Sprintf("client %s path with '.'/'..' elements: %s exists=%v", op.Kind, dotShape(elems), exists))
		if exists && isDot(elems[len(elems)-1]) && local != x.root && op.Kind != "fopen" {
			hx.NonTrivial("cli-dots", x.treeH, op.Kind, path, dotu)
		}
	}
	if len(op.Elems) > 16 {
		hx.NonTrivial("cli", x.treeH, op.Kind, path, dotu)
	}
	refused := func(err error) (bool, error) {
		// a path that exists locally was refused
		if boundarySym && hx.IsKnown(idSymStart) {
			hx.Known(idSymStart, fmt.Sprintf("%s: path exists locally, client error %v", what, err))
			return true, nil
		}
		return false, fmt.Errorf("%s: the local path exists but the client call failed: %v", what, err)
	}
	switch op.Kind {
	case "fstat":
		d, err := clnt.FStat(path)
		if !exists {
			if err == nil {
				return fmt.Errorf("%s: the local path does not exist but FStat returned name %q, qid.path %s", what, d.Name, x.inoName(d.Qid.Path))
			}
			return nil
		}
		if err != nil {
			_, e := refused(err)
			return e
		}
		if df := x.statDiff(viewOfDir(d), local, local == x.root, dotu); len(df) > 0 {
			return fmt.Errorf("%s: FStat disagrees with os.Lstat: %s", what, strings.Join(df, "; "))
		}
		x.noteObjectCli(local)
	case "fwalk":
		fid, err := clnt.FWalk(path)
		if !exists {
			if err == nil {
				return fmt.Errorf("%s: the local path does not exist but FWalk succeeded (qid.path %s)", what, x.inoName(fid.Qid.Path))
			}
			return nil
		}
		if err != nil {
			_, e := refused(err)
			return e
		}
		if df := x.qidDiff(fid.Qid.Type, fid.Qid.Path, fi); len(df) > 0 {
			return fmt.Errorf("%s: Fid.Qid after FWalk disagrees with the local object: %s", what, strings.Join(df, "; "))
		}
		d, err := clnt.Stat(fid)
		if err != nil {
			return fmt.Errorf("%s: Stat on the walked fid failed: %v", what, err)
		}
		if df := x.statDiff(viewOfDir(d), local, local == x.root, dotu); len(df) > 0 {
			return fmt.Errorf("%s: Stat on the walked fid disagrees with os.Lstat: %s", what, strings.Join(df, "; "))
		}
		if err := clnt.Clunk(fid); err != nil {
			return fmt.Errorf("%s: Clunk of the walked fid failed: %v", what, err)
		}
	case "fopen":
		f, err := clnt.FOpen(path, go9p.OREAD)
		if !exists {
			if err == nil {
				return fmt.Errorf("%s: the local path does not exist but FOpen succeeded", what)
			}
			return nil
		}
		isLnk := fi.Mode()&os.ModeSymlink != 0
		if err != nil {
			if isLnk {
				// opening a symlink follows it on the host; the property does not say what must happen
				hx.Label("client fopen of a symlink refused (not judged)")
				return nil
			}
			_, e := refused(err)
			return e
		}
		if df := x.qidDiff(f.Fid.Qid.Type, f.Fid.Qid.Path, fi); len(df) > 0 {
			return fmt.Errorf("%s: qid of the opened file disagrees with the local object: %s", what, strings.Join(df, "; "))
		}
		if fi.Mode().IsRegular() {
			want := make([]byte, 16)
			lf, err := os.Open(local)
			if err != nil {
				return infraf("open %q: %v", local, err)
			}
			nw, _ := lf.ReadAt(want, 0)
			lf.Close()
			got := make([]byte, 16)
			ng, rerr := f.ReadAt(got, 0)
			if nw == 0 {
				ng = 0 // EOF is reported as an error by File.ReadAt
			} else if rerr != nil {
				return fmt.Errorf("%s: reading the first bytes through the client failed: %v", what, rerr)
			}
			if !bytes.Equal(got[:ng], want[:nw]) {
				return fmt.Errorf("%s: first bytes through the client %q differ from the local file %q — a different object was opened", what, got[:ng], want[:nw])
			}
		}
		if err := f.Close(); err != nil {
			return fmt.Errorf("%s: Close failed: %v", what, err)
		}
	default:
		return infraf("case: unknown client op %q", op.Kind)
	}
	return nil
}

// checkWire looks at the T-messages the go9p client sent for one call: a Twalk
// carries at most 16 names (the protocol's limit, which is why deep paths are
// split), and the names of the call's Twalks, concatenated, are the leading
// elements of the path.
func (x *executor) checkWire(i int, op *CliOp) error {
	all, _ := x.wire.Received()
	fresh := all[x.wireOff:]
	x.wireOff = len(all)
	frames, rest, err := ref9p.SplitFrames(fresh)
	if err != nil || len(rest) != 0 {
		return fmt.Errorf("client op %d: bytes written by the client are not whole frames (%v, %d left over)", i, err, len(rest))
	}
	var walked []string
	ntwalk := 0
	for _, f := range frames {
		m, _, err := ref9p.Decode(f, x.c.SrvDotu)
		if err != nil {
			return fmt.Errorf("client op %d: the client sent a frame that does not decode strictly: %v", i, err)
		}
		if m.Type != ref9p.Twalk {
			continue
		}
		ntwalk++
		if len(m.Wname) > 16 {
			return fmt.Errorf("client op %d: %s of %d elements sent a Twalk with %d names (the protocol allows 16)", i, op.Kind, len(op.Elems), len(m.Wname))
		}
		walked = append(walked, m.Wname...)
	}
	if len(walked) > len(op.Elems) {
		return fmt.Errorf("client op %d: Twalks carry %d names for a path of %d elements", i, len(walked), len(op.Elems))
	}
	for j, w := range walked {
		if w != string(op.Elems[j]) {
			return fmt.Errorf("client op %d: name %d sent on the wire is %q, path element is %q", i, j, w, op.Elems[j])
		}
	}
	hx.Label(fmt.Sprintf("client twalks per call=%d", ntwalk))
	return nil
}

// checkWireConc looks at everything the client wrote during the concurrent
// phase: whole frames that decode strictly, and no Twalk with more than 16 names.
func (x *executor) checkWireConc() error {
	all, _ := x.wire.Received()
	fresh := all[x.wireOff:]
	x.wireOff = len(all)
	frames, rest, err := ref9p.SplitFrames(fresh)
	if err != nil || len(rest) != 0 {
		return fmt.Errorf("concurrent phase: bytes written by the client are not whole frames (%v, %d left over)", err, len(rest))
	}
	for _, f := range frames {
		m, _, err := ref9p.Decode(f, x.c.SrvDotu)
		if err != nil {
			return fmt.Errorf("concurrent phase: the client sent a frame that does not decode strictly: %v", err)
		}
		if m.Type == ref9p.Twalk && len(m.Wname) > 16 {
			return fmt.Errorf("concurrent phase: the client sent a Twalk with %d names (the protocol allows 16)", len(m.Wname))
		}
	}
	return nil
}

func (x *executor) noteObjectCli(p string) {
	fi, err := os.Lstat(p)
	if err != nil {
		return
	}
	st := fi.Sys().(*syscall.Stat_t)
	if fi.Mode()&os.ModeSymlink != 0 || (st.Nlink > 1 && !fi.IsDir()) {
		hx.NonTrivial("clistat", x.treeH, strings.TrimPrefix(p, x.root), x.c.SrvDotu)
	}
}
