// C05 — protocol rules are enforced before the implementation is called.
package c05

import (
	"encoding/json"
	"errors"
	"fmt"
	"testing"
	"time"

	"pgregory.net/rapid"
	"verif/internal/hx"
	"verif/internal/model"
	"verif/internal/ref9p"
	"verif/internal/sched"
	"verif/internal/script"
	"verif/internal/srvh"
)

func TestMain(m *testing.M) { hx.Main(m, "C05") }

const findingRoot = "plain-attach-resolved-as-uid0"

type Act struct {
	Kind   string   `json:"kind"`
	Fid    uint32   `json:"fid"`
	Newfid uint32   `json:"newfid,omitempty"`
	Afid   uint32   `json:"afid,omitempty"`
	Names  []string `json:"names,omitempty"`
	Mode   uint8    `json:"mode,omitempty"`
	Perm   uint32   `json:"perm,omitempty"`
	Count  uint32   `json:"count,omitempty"`
	Raw    bool     `json:"raw,omitempty"` // Twrite whose count field is Count but which carries only Len payload bytes
	Len    int      `json:"len,omitempty"`
	User   string   `json:"user,omitempty"`
	Aname  string   `json:"aname,omitempty"`
	Err    bool     `json:"err,omitempty"`
	Hold   bool     `json:"hold,omitempty"` // hold the responder of this request at respond.queued until the next request is being processed
}

type Case struct {
	Dotu     bool   `json:"dotu"`
	Auth     bool   `json:"auth"`
	Msize    uint32 `json:"msize"`              // msize the client asks for
	SrvMsize uint32 `json:"srvmsize,omitempty"` // the server's own msize (default 8192)
	Actions  []Act  `json:"actions"`
}

func (a *Act) msg(seq int) *ref9p.Msg {
	uid := map[string]uint32{"root": 0, "alice": 1001, "bob": 1002, "mallory": 6666}[a.User]
	switch a.Kind {
	case "auth":
		return &ref9p.Msg{Type: ref9p.Tauth, Afid: a.Afid, Uname: a.User, Aname: a.Aname, Nuname: uid}
	case "attach":
		return &ref9p.Msg{Type: ref9p.Tattach, Fid: a.Fid, Afid: a.Afid, Uname: a.User, Aname: a.Aname, Nuname: uid}
	case "walk":
		return &ref9p.Msg{Type: ref9p.Twalk, Fid: a.Fid, Newfid: a.Newfid, Wname: a.Names}
	case "open":
		return &ref9p.Msg{Type: ref9p.Topen, Fid: a.Fid, Mode: a.Mode}
	case "create":
		return &ref9p.Msg{Type: ref9p.Tcreate, Fid: a.Fid, Name: fmt.Sprintf("fn%d", seq), Perm: a.Perm, Mode: a.Mode, Ext: "e"}
	case "read":
		return &ref9p.Msg{Type: ref9p.Tread, Fid: a.Fid, Offset: uint64(seq) << 12, Count: a.Count}
	case "write":
		return &ref9p.Msg{Type: ref9p.Twrite, Fid: a.Fid, Offset: uint64(seq) << 12, Data: script.PRF(fmt.Sprint("w", seq), int(a.Count))}
	case "stat":
		return &ref9p.Msg{Type: ref9p.Tstat, Fid: a.Fid}
	case "wstat":
		st := ref9p.Stat{Type: 0xFFFF, Dev: 0xFFFFFFFF, Mode: 0xFFFFFFFF, Atime: 0xFFFFFFFF, Mtime: 0xFFFFFFFF, Length: 0xFFFFFFFFFFFFFFFF, Name: fmt.Sprintf("r%d", seq)}
		return &ref9p.Msg{Type: ref9p.Twstat, Fid: a.Fid, Stat: st}
	case "clunk":
		return &ref9p.Msg{Type: ref9p.Tclunk, Fid: a.Fid}
	case "remove":
		return &ref9p.Msg{Type: ref9p.Tremove, Fid: a.Fid}
	}
	return nil
}

func newSession(c *Case, name string) (*srvh.Session, error) {
	// the server's own limit is larger than what the client negotiates: the
	// rules are about the negotiated msize of the connection
	srvMsize := uint32(8192)
	if c.SrvMsize != 0 {
		srvMsize = c.SrvMsize
	}
	sv := script.NewServer(script.Config{Msize: srvMsize, Dotu: true, Auth: c.Auth})
	sh := srvh.NewShared(sv, c.Auth)
	s, err := srvh.Open(sh, name, c.Dotu, c.Msize)
	if err != nil {
		return nil, fmt.Errorf("prologue: %v", err)
	}
	if hx.IsKnown(findingRoot) {
		s.M.UserRule = 1
		s.KnownAttachAsRoot = func(d string) { hx.Known(findingRoot, d) }
	}
	return s, nil
}

func run(c *Case) error {
	s, err := newSession(c, "c05")
	if err != nil {
		return err
	}
	defer s.C.Close()
	var ctl *sched.Ctl
	var holds []sched.Hold
	for i := range c.Actions {
		a := &c.Actions[i]
		if a.Hold && i+1 < len(c.Actions) && !c.Actions[i+1].Raw && !a.Raw {
			k := script.Key(ref9p.Canon(a.msg(i), c.Dotu))
			k2 := script.Key(ref9p.Canon(c.Actions[i+1].msg(i+1), c.Dotu))
			holds = append(holds, sched.Hold{Who: k, At: "respond.queued", UntilWho: k2, UntilPoint: "process.checked"},
				sched.Hold{Who: k, At: "send.written", UntilWho: k2, UntilPoint: "process.checked"})
		}
	}
	if len(holds) > 0 {
		ctl = sched.New(holds)
		ctl.Timeout = 50 * time.Millisecond
		defer sched.Install(ctl)()
	}
	for i := range c.Actions {
		a := &c.Actions[i]
		if a.Raw {
			if err := rawWrite(s, a, i); err != nil {
				return fmt.Errorf("step %d: %w", i, err)
			}
			return nil // the connection may be gone
		}
		m := a.msg(i)
		if m == nil {
			return fmt.Errorf("harness: bad action %q", a.Kind)
		}
		var b script.Behav
		if a.Err {
			b.Err, b.Ecode = "scripted failure", 5
		}
		before := s.MustNot
		if _, err := s.Step(m, b); err != nil {
			return fmt.Errorf("step %d (%s): %w", i, a.Kind, err)
		}
		if s.MustNot > before {
			hx.ExtraAdd("refused_steps", 1)
		}
	}
	if ctl != nil {
		ap, fo := ctl.Stats()
		hx.ExtraAdd("holds_applied", int64(ap))
		hx.ExtraAdd("holds_forced", int64(fo))
	}
	return nil
}

// rawWrite sends a Twrite whose count field disagrees with its payload: it
// must never reach the implementation; an Rerror or a dropped connection are
// both acceptable.
func rawWrite(s *srvh.Session, a *Act, seq int) error {
	S := s.Sh.Sv.S
	before := len(S.Log())
	cnt := a.Count
	m := &ref9p.Msg{Type: ref9p.Twrite, Tag: s.C.NextTag(), Fid: a.Fid, Offset: uint64(seq) << 12, Data: make([]byte, a.Len), RawCount: &cnt}
	if err := s.C.Send(m); err != nil {
		return nil
	}
	r, _, err := s.C.Recv()
	for _, e := range S.Log()[before:] {
		if e.Kind == "enter" {
			return &srvh.Violation{Msg: fmt.Sprintf("Twrite with count %d and %d payload bytes reached the implementation (%s)", a.Count, a.Len, e.Op)}
		}
	}
	if err == nil && r.Type != ref9p.Rerror {
		return &srvh.Violation{Msg: fmt.Sprintf("Twrite with count %d and %d payload bytes was answered %s", a.Count, a.Len, ref9p.TypeName(r.Type))}
	}
	return nil
}

func execute(test string, c *Case) error {
	hx.Journal(test, c)
	hx.Eval()
	hx.Sample(test, c)
	err := run(c)
	var h *srvh.Hang
	if errors.As(err, &h) {
		if blocked := hx.BlockedInGo9p(); blocked != "" {
			return fmt.Errorf("%v; goroutines blocked inside go9p:\n%s", err, blocked)
		}
		hx.Inconclusive(err.Error())
		return nil
	}
	return err
}

// ---------------------------------------------------------------------------
// exhaustive (state, request) table

type stateSpec struct {
	name  string
	setup []Act // establishes the state of fid 1 (fid 0 = attached root)
	wide  bool  // apply the wide request set
}

func states(auth bool) []stateSpec {
	ss := []stateSpec{
		{"absent", nil, true},
		{"dir", []Act{{Kind: "walk", Fid: 0, Newfid: 1, Names: []string{"d1"}}}, true},
		{"dir-open", []Act{{Kind: "walk", Fid: 0, Newfid: 1, Names: []string{"d1"}}, {Kind: "open", Fid: 1, Mode: 0}}, true},
		{"file", []Act{{Kind: "walk", Fid: 0, Newfid: 1, Names: []string{"f1"}}}, true},
	}
	if auth {
		ss = append(ss, stateSpec{"auth", []Act{{Kind: "auth", Fid: 1, Afid: 1, User: "alice"}}, true})
	}
	for m := 0; m < 256; m++ {
		ss = append(ss, stateSpec{fmt.Sprintf("file-open-%#02x", m), []Act{{Kind: "walk", Fid: 0, Newfid: 1, Names: []string{"f1"}}, {Kind: "open", Fid: 1, Mode: uint8(m)}}, m < 4 || m == 0x10 || m == 0x11 || m == 0x13 || m == 0x40})
	}
	return ss
}

func requests(msize uint32, wide bool) []Act {
	var rs []Act
	rs = append(rs, Act{Kind: "walk", Fid: 1, Newfid: 2, Err: true}, Act{Kind: "walk", Fid: 1, Newfid: 2, Names: []string{"d1"}, Err: true},
		Act{Kind: "walk", Fid: 1, Newfid: 1, Names: []string{"d1"}, Err: true}, Act{Kind: "walk", Fid: 1, Newfid: 0, Names: []string{"d1"}, Err: true})
	counts := []uint32{0, 1, msize - 25, msize - 24, msize - 23, 1 << 31, 0xFFFFFFE8, 0xFFFFFFE9, 0xFFFFFFF0, 0xFFFFFFFE, 0xFFFFFFFF}
	for _, c := range counts {
		rs = append(rs, Act{Kind: "read", Fid: 1, Count: c})
	}
	for _, c := range []uint32{0, 1, msize - 25, msize - 24, msize - 23} {
		rs = append(rs, Act{Kind: "write", Fid: 1, Count: c})
	}
	modes := []uint8{0, 1}
	if wide {
		modes = nil
		for m := 0; m < 256; m++ {
			modes = append(modes, uint8(m))
		}
	}
	for _, m := range modes {
		rs = append(rs, Act{Kind: "open", Fid: 1, Mode: m, Err: true})
	}
	perms := []uint32{0o644}
	cmodes := []uint8{0, 1}
	if wide {
		perms = []uint32{0o644, 0x80000000 | 0o755, 0x02000000 | 0o777, 0x01000000, 0x00800000, 0x00200000, 0x00100000, 0x80000000 | 0x02000000}
		cmodes = []uint8{0, 1, 2, 3, 0x10, 0x11, 0x40, 0x80}
	}
	for _, p := range perms {
		for _, m := range cmodes {
			rs = append(rs, Act{Kind: "create", Fid: 1, Perm: p, Mode: m, Err: true})
		}
	}
	return rs
}

func TestEnumStateRequestTable(t *testing.T) {
	idx := 0
	pairs := 0
	for _, dotu := range []bool{false, true} {
		for _, auth := range []bool{false, true} {
			for _, st := range states(auth) {
				idx++
				if hx.NShards > 1 && idx%hx.NShards != hx.Shard {
					continue
				}
				const msize = 256
				c := &Case{Dotu: dotu, Auth: auth, Msize: msize}
				c.Actions = append(c.Actions, Act{Kind: "attach", Fid: 0, Afid: ref9p.NOFID, User: "alice"})
				c.Actions = append(c.Actions, st.setup...)
				reqs := requests(msize, st.wide)
				c.Actions = append(c.Actions, reqs...)
				pairs += len(reqs)
				hx.Label("table state=" + map[bool]string{true: st.name, false: "file-open-*"}[st.wide])
				hx.NonTrivial("table", dotu, auth, st.name)
				if err := execute("table", c); err != nil {
					hx.Violation("table", c, err.Error())
					t.Fatalf("state %s dotu=%v auth=%v: %v", st.name, dotu, auth, err)
				}
				// malformed Twrite frames: count field vs payload
				for _, cnt := range []uint32{1, msize - 24, 1 << 31, 0xFFFFFFE8, 0xFFFFFFFF} {
					c2 := &Case{Dotu: dotu, Auth: auth, Msize: msize}
					c2.Actions = append(c2.Actions, Act{Kind: "attach", Fid: 0, Afid: ref9p.NOFID, User: "alice"})
					c2.Actions = append(c2.Actions, st.setup...)
					c2.Actions = append(c2.Actions, Act{Kind: "write", Fid: 1, Count: cnt, Raw: true, Len: 3})
					if !st.wide && cnt != 0xFFFFFFFF {
						continue
					}
					pairs++
					if err := execute("table", c2); err != nil {
						hx.Violation("table", c2, err.Error())
						t.Fatalf("state %s dotu=%v auth=%v malformed Twrite count %d: %v", st.name, dotu, auth, cnt, err)
					}
				}
			}
		}
	}
	hx.ExtraAdd("table_pairs", int64(pairs))
	hx.Exhaustive("(fid state, request) table: states {absent, dir, dir-open, file, auth, file open with each of the 256 mode bytes} x requests {walk clone/by name/in place/onto a valid newfid, open with all 256 modes, create 8 perms x 8 modes, read 11 counts, write 5 counts + 5 malformed count/payload frames} x 2 dialects x AuthOps on/off (narrow request set for the 247 uninteresting open modes)")
}

var names = []string{"d1", "d2", "f1", "x1", "l1"}

func genAct(t *rapid.T, msize uint32) Act {
	fidg := rapid.SampledFrom([]uint32{0, 1, 2, 3})
	a := Act{}
	a.Kind = rapid.SampledFrom([]string{"attach", "auth", "walk", "walk", "walk", "open", "open", "create", "create", "read", "write", "write", "stat", "wstat", "clunk", "remove"}).Draw(t, "kind")
	a.Fid = fidg.Draw(t, "fid")
	a.Err = rapid.IntRange(0, 5).Draw(t, "err") == 0
	a.Hold = rapid.IntRange(0, 7).Draw(t, "hold") == 0
	switch a.Kind {
	case "attach":
		a.Afid = rapid.OneOf(rapid.Just(uint32(ref9p.NOFID)), fidg).Draw(t, "afid")
		a.User = rapid.SampledFrom([]string{"alice", "bob", "root", "mallory"}).Draw(t, "user")
		a.Aname = rapid.SampledFrom([]string{"", "tree", "deny-me"}).Draw(t, "aname")
	case "auth":
		a.Afid = a.Fid
		a.User = rapid.SampledFrom([]string{"alice", "bob", "mallory"}).Draw(t, "user")
	case "walk":
		a.Newfid = rapid.OneOf(rapid.Just(a.Fid), fidg).Draw(t, "newfid")
		a.Names = rapid.SliceOfN(rapid.SampledFrom(names), 0, 4).Draw(t, "names")
	case "open":
		a.Mode = rapid.OneOf(rapid.SampledFrom([]uint8{0, 1, 2, 3, 0x10, 0x11, 0x12, 0x13, 0x40, 0x41}), rapid.Uint8()).Draw(t, "mode")
	case "create":
		a.Mode = rapid.OneOf(rapid.SampledFrom([]uint8{0, 1, 2, 3, 0x11}), rapid.Uint8()).Draw(t, "mode")
		a.Perm = rapid.SampledFrom([]uint32{0o644, 0o600, 0x80000000 | 0o755, 0x02000000 | 0o777, 0x01000000, 0x00800000, 0x00200000, 0x00100000}).Draw(t, "perm")
	case "read":
		a.Count = rapid.SampledFrom([]uint32{0, 1, 100, msize - 25, msize - 24, msize - 23, 1 << 31, 0xFFFFFFE8, 0xFFFFFFF0, 0xFFFFFFFF}).Draw(t, "count")
	case "write":
		a.Count = rapid.SampledFrom([]uint32{0, 1, 100, msize - 25, msize - 24, msize - 23}).Draw(t, "count")
	}
	return a
}

func TestPropHistories(t *testing.T) {
	hx.Check(t, "histories", hx.N(800, 8000), func(t *rapid.T) {
		c := &Case{Dotu: rapid.Bool().Draw(t, "dotu"), Auth: rapid.Bool().Draw(t, "auth"), Msize: rapid.SampledFrom([]uint32{128, 256, 1024}).Draw(t, "msize")}
		c.SrvMsize = rapid.SampledFrom([]uint32{0, 0, c.Msize, 65536}).Draw(t, "srvmsize")
		n := rapid.IntRange(5, 40).Draw(t, "n")
		if rapid.IntRange(0, 9).Draw(t, "prime") > 0 {
			c.Actions = append(c.Actions, Act{Kind: "attach", Fid: 0, Afid: ref9p.NOFID, User: rapid.SampledFrom([]string{"alice", "bob"}).Draw(t, "u0")})
		}
		for i := 0; i < n; i++ {
			c.Actions = append(c.Actions, genAct(t, c.Msize))
		}
		// classification by replaying on the model is done by the runner's counters
		b, _ := json.Marshal(c)
		before := int64(0)
		_ = before
		err := execute("histories", c)
		if err != nil {
			hx.Failf(t, "histories", c, "%v", err)
		}
		hx.NonTrivial(b)
		hx.Label(fmt.Sprintf("history dotu=%v auth=%v msize=%d", c.Dotu, c.Auth, c.Msize))
	})
	_ = model.Must
}

func TestReplay(t *testing.T) {
	e, err := hx.LoadReplay()
	if e == nil {
		t.Skip("no replay file", err)
	}
	replayEnv(t, e)
}

func replayEnv(t *testing.T, e *hx.Envelope) {
	var c Case
	if err := json.Unmarshal(e.Case, &c); err != nil {
		t.Fatalf("bad case: %v", err)
	}
	if err := execute(e.Test, &c); err != nil {
		hx.Violation(e.Test, &c, err.Error())
		t.Fatalf("%v", err)
	}
}

func TestRegress(t *testing.T) {
	for _, e := range hx.Regressions() {
		replayEnv(t, e)
		hx.Label("regress")
	}
}
