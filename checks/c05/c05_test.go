// C05 — protocol rules are enforced before the implementation is called.
package c05

import (
	"encoding/json"
	"errors"
	"fmt"
	"sort"
	"testing"
	"time"

	"pgregory.net/rapid"
	"verif/internal/hx"
	"verif/internal/model"
	"verif/internal/rawc"
	"verif/internal/ref9p"
	"verif/internal/sched"
	"verif/internal/script"
	"verif/internal/srvh"
)

func TestMain(m *testing.M) { hx.Main(m, "C05") }

const findingRoot = "plain-attach-resolved-as-uid0"

type Act struct {
	Kind   string   `json:"kind"`
	Fid    uint32   `json:"fid"`
	Newfid uint32   `json:"newfid,omitempty"`
	Afid   uint32   `json:"afid,omitempty"`
	Names  []string `json:"names,omitempty"`
	Mode   uint8    `json:"mode,omitempty"`
	Perm   uint32   `json:"perm,omitempty"`
	Count  uint32   `json:"count,omitempty"`
	Raw    bool     `json:"raw,omitempty"` // Twrite whose count field is Count but which carries only Len payload bytes
	Len    int      `json:"len,omitempty"`
	User   string   `json:"user,omitempty"`
	Aname  string   `json:"aname,omitempty"`
	Err    bool     `json:"err,omitempty"`
	Hold   bool     `json:"hold,omitempty"` // hold the responder of this request at respond.queued until the next request is being processed
	// Kind "version": a Tversion (tag NOTAG) sent at quiescence in mid-session,
	// offering VMsize and the version string Ver ("" = the dialect in force).
	VMsize uint32 `json:"vmsize,omitempty"`
	Ver    string `json:"ver,omitempty"`
}

// errStop ends a case early without a verdict (the rest of it cannot be judged
// by this property, e.g. after an Rversion announcing an msize below IOHDRSZ).
var errStop = errors.New("stop")

type Case struct {
	Dotu     bool   `json:"dotu"`
	Auth     bool   `json:"auth"`
	Msize    uint32 `json:"msize"`              // msize the client asks for
	SrvMsize uint32 `json:"srvmsize,omitempty"` // the server's own msize (default 8192)
	Actions  []Act  `json:"actions"`
}

func (a *Act) msg(seq int) *ref9p.Msg {
	uid := map[string]uint32{"root": 0, "alice": 1001, "bob": 1002, "mallory": 6666}[a.User]
	switch a.Kind {
	case "auth":
		return &ref9p.Msg{Type: ref9p.Tauth, Afid: a.Afid, Uname: a.User, Aname: a.Aname, Nuname: uid}
	case "attach":
		return &ref9p.Msg{Type: ref9p.Tattach, Fid: a.Fid, Afid: a.Afid, Uname: a.User, Aname: a.Aname, Nuname: uid}
	case "walk":
		return &ref9p.Msg{Type: ref9p.Twalk, Fid: a.Fid, Newfid: a.Newfid, Wname: a.Names}
	case "open":
		return &ref9p.Msg{Type: ref9p.Topen, Fid: a.Fid, Mode: a.Mode}
	case "create":
		return &ref9p.Msg{Type: ref9p.Tcreate, Fid: a.Fid, Name: fmt.Sprintf("fn%d", seq), Perm: a.Perm, Mode: a.Mode, Ext: "e"}
	case "read":
		return &ref9p.Msg{Type: ref9p.Tread, Fid: a.Fid, Offset: uint64(seq) << 12, Count: a.Count}
	case "write":
		return &ref9p.Msg{Type: ref9p.Twrite, Fid: a.Fid, Offset: uint64(seq) << 12, Data: script.PRF(fmt.Sprint("w", seq), int(a.Count))}
	case "stat":
		return &ref9p.Msg{Type: ref9p.Tstat, Fid: a.Fid}
	case "wstat":
		st := ref9p.Stat{Type: 0xFFFF, Dev: 0xFFFFFFFF, Mode: 0xFFFFFFFF, Atime: 0xFFFFFFFF, Mtime: 0xFFFFFFFF, Length: 0xFFFFFFFFFFFFFFFF, Name: fmt.Sprintf("r%d", seq)}
		return &ref9p.Msg{Type: ref9p.Twstat, Fid: a.Fid, Stat: st}
	case "clunk":
		return &ref9p.Msg{Type: ref9p.Tclunk, Fid: a.Fid}
	case "remove":
		return &ref9p.Msg{Type: ref9p.Tremove, Fid: a.Fid}
	}
	return nil
}

func newSession(c *Case, name string) (*srvh.Session, error) {
	// the server's own limit is larger than what the client negotiates: the
	// rules are about the negotiated msize of the connection
	srvMsize := uint32(8192)
	if c.SrvMsize != 0 {
		srvMsize = c.SrvMsize
	}
	sv := script.NewServer(script.Config{Msize: srvMsize, Dotu: true, Auth: c.Auth})
	sh := srvh.NewShared(sv, c.Auth)
	s, err := srvh.Open(sh, name, c.Dotu, c.Msize)
	if err != nil {
		return nil, fmt.Errorf("prologue: %v", err)
	}
	if hx.IsKnown(findingRoot) {
		s.M.UserRule = 1
		s.KnownAttachAsRoot = func(d string) { hx.Known(findingRoot, d) }
	}
	return s, nil
}

func run(c *Case) error {
	s, err := newSession(c, "c05")
	if err != nil {
		return err
	}
	defer s.C.Close()
	var ctl *sched.Ctl
	var holds []sched.Hold
	for i := range c.Actions {
		a := &c.Actions[i]
		if a.Hold && i+1 < len(c.Actions) && !c.Actions[i+1].Raw && !a.Raw && a.Kind != "version" && c.Actions[i+1].Kind != "version" {
			k := script.Key(ref9p.Canon(a.msg(i), c.Dotu))
			k2 := script.Key(ref9p.Canon(c.Actions[i+1].msg(i+1), c.Dotu))
			holds = append(holds, sched.Hold{Who: k, At: "respond.queued", UntilWho: k2, UntilPoint: "process.checked"},
				sched.Hold{Who: k, At: "send.written", UntilWho: k2, UntilPoint: "process.checked"})
		}
	}
	if len(holds) > 0 {
		ctl = sched.New(holds)
		ctl.Timeout = 50 * time.Millisecond
		defer sched.Install(ctl)()
	}
	note := ""
	for i := range c.Actions {
		a := &c.Actions[i]
		if a.Raw {
			if err := rawWrite(s, a, i); err != nil {
				return fmt.Errorf("step %d: %w", i, err)
			}
			return nil // the connection may be gone
		}
		if a.Kind == "version" {
			err := versionStep(s, a)
			note = fmt.Sprintf(" [after Tversion msize %d at step %d; msize in force %d]", a.VMsize, i, s.M.Msize)
			if err != nil {
				if err == errStop {
					return nil
				}
				return fmt.Errorf("step %d (version): %w", i, err)
			}
			continue
		}
		m := a.msg(i)
		if m == nil {
			return fmt.Errorf("harness: bad action %q", a.Kind)
		}
		if n := len(ref9p.Encode(m, s.C.Dotu)); uint64(n) > uint64(s.M.Msize) {
			// the frame does not fit the msize in force (the server may drop the
			// connection for it): not a case of this property
			hx.ExtraAdd("skipped_oversize_frames", 1)
			continue
		}
		var b script.Behav
		if a.Err {
			b.Err, b.Ecode = "scripted failure", 5
		}
		before := s.MustNot
		if _, err := s.Step(m, b); err != nil {
			return fmt.Errorf("step %d (%s): %w%s", i, a.Kind, err, note)
		}
		if s.MustNot > before {
			hx.ExtraAdd("refused_steps", 1)
		}
	}
	if ctl != nil {
		ap, fo := ctl.Stats()
		hx.ExtraAdd("holds_applied", int64(ap))
		hx.ExtraAdd("holds_forced", int64(fo))
	}
	return nil
}

// versionStep sends a Tversion in mid-session, at quiescence (every earlier
// request has been answered). The property does not say how a Tversion is to be
// answered (that is C12); what matters here is the msize IN FORCE afterwards,
// against which the count rules are judged: the one announced by the last
// Rversion. A Tversion answered with Rerror was refused and changes nothing.
// What an accepted Tversion does to the fids (9P: the session is reset; go9p
// keeps them) is outside the statement: the fid table is re-read by probing.
func versionStep(s *srvh.Session, a *Act) error {
	ver := a.Ver
	if ver == "" {
		ver = "9P2000"
		if s.C.Dotu {
			ver = "9P2000.u"
		}
	}
	r, err := s.C.Version(a.VMsize, ver)
	if err != nil {
		if err == rawc.ErrTimeout {
			return &srvh.Hang{Msg: fmt.Sprintf("no reply to Tversion/%d/%s", a.VMsize, ver)}
		}
		return &srvh.Violation{Msg: fmt.Sprintf("Tversion/%d/%s: %v", a.VMsize, ver, err)}
	}
	switch r.Type {
	case ref9p.Rerror:
		hx.ExtraAdd("version_refused", 1)
		if a.VMsize == model.IOHDRSZ-1 {
			hx.ExtraAdd("version_refused_iohdrsz_minus_1", 1)
		}
		return nil // refused: the msize and the dialect in force stay
	case ref9p.Rversion:
		if r.Msize < model.IOHDRSZ {
			hx.ExtraAdd("version_rversion_below_iohdrsz", 1)
			return errStop // msize-IOHDRSZ is not defined; the negotiation itself is C12's
		}
		switch {
		case r.Msize < s.M.Msize:
			hx.ExtraAdd("version_lowered", 1)
		case r.Msize == s.M.Msize:
			hx.ExtraAdd("version_same_msize", 1)
		default:
			hx.ExtraAdd("version_raised", 1)
		}
		if s.C.Dotu != s.M.Dotu {
			hx.ExtraAdd("version_dialect_changed", 1)
		}
		s.M.Msize, s.M.Dotu = s.C.Msize, s.C.Dotu // rawc adopted the Rversion
		return resync(s)
	}
	return errStop
}

// resync asks, after an accepted Tversion, which fids of the model the server
// still knows (unjudged Tstat probes): a fid answered "unknown fid" without
// reaching the implementation was dropped by the renegotiation.
func resync(s *srvh.Session) error {
	var fids []uint32
	for fid := range s.M.Fids {
		fids = append(fids, fid)
	}
	sort.Slice(fids, func(i, j int) bool { return fids[i] < fids[j] })
	S := s.Sh.Sv.S
	for _, fid := range fids {
		before := len(S.Log())
		r, err := s.C.RPC(&ref9p.Msg{Type: ref9p.Tstat, Fid: fid})
		if err != nil {
			if err == rawc.ErrTimeout {
				return &srvh.Hang{Msg: fmt.Sprintf("no reply to the Tstat probe of fid %d after an Rversion", fid)}
			}
			return &srvh.Violation{Msg: fmt.Sprintf("Tstat probe of fid %d after an Rversion: %v", fid, err)}
		}
		forwarded := false
		for _, e := range S.Log()[before:] {
			if e.Kind == "enter" {
				forwarded = true
			}
		}
		if r.Type == ref9p.Rerror && r.Ename == "unknown fid" && !forwarded {
			delete(s.M.Fids, fid)
			hx.ExtraAdd("version_dropped_fids", 1)
		}
	}
	return nil
}

// rawWrite sends a Twrite whose count field disagrees with its payload: it
// must never reach the implementation; an Rerror or a dropped connection are
// both acceptable.
func rawWrite(s *srvh.Session, a *Act, seq int) error {
	S := s.Sh.Sv.S
	before := len(S.Log())
	cnt := a.Count
	m := &ref9p.Msg{Type: ref9p.Twrite, Tag: s.C.NextTag(), Fid: a.Fid, Offset: uint64(seq) << 12, Data: make([]byte, a.Len), RawCount: &cnt}
	if err := s.C.Send(m); err != nil {
		return nil
	}
	r, _, err := s.C.Recv()
	for _, e := range S.Log()[before:] {
		if e.Kind == "enter" {
			return &srvh.Violation{Msg: fmt.Sprintf("Twrite with count %d and %d payload bytes reached the implementation (%s)", a.Count, a.Len, e.Op)}
		}
	}
	if err == nil && r.Type != ref9p.Rerror {
		return &srvh.Violation{Msg: fmt.Sprintf("Twrite with count %d and %d payload bytes was answered %s", a.Count, a.Len, ref9p.TypeName(r.Type))}
	}
	return nil
}

func execute(test string, c *Case) error {
	hx.Journal(test, c)
	hx.Eval()
	hx.Sample(test, c)
	err := run(c)
	var h *srvh.Hang
	if errors.As(err, &h) {
		if blocked := hx.BlockedInGo9p(); blocked != "" {
			return fmt.Errorf("%v; goroutines blocked inside go9p:\n%s", err, blocked)
		}
		hx.Inconclusive(err.Error())
		return nil
	}
	return err
}

// ---------------------------------------------------------------------------
// exhaustive (state, request) table

type stateSpec struct {
	name  string
	setup []Act // establishes the state of fid 1 (fid 0 = attached root)
	wide  bool  // apply the wide request set
}

func states(auth bool) []stateSpec {
	ss := []stateSpec{
		{"absent", nil, true},
		{"dir", []Act{{Kind: "walk", Fid: 0, Newfid: 1, Names: []string{"d1"}}}, true},
		{"dir-open", []Act{{Kind: "walk", Fid: 0, Newfid: 1, Names: []string{"d1"}}, {Kind: "open", Fid: 1, Mode: 0}}, true},
		{"file", []Act{{Kind: "walk", Fid: 0, Newfid: 1, Names: []string{"f1"}}}, true},
	}
	if auth {
		ss = append(ss, stateSpec{"auth", []Act{{Kind: "auth", Fid: 1, Afid: 1, User: "alice"}}, true})
	}
	for m := 0; m < 256; m++ {
		ss = append(ss, stateSpec{fmt.Sprintf("file-open-%#02x", m), []Act{{Kind: "walk", Fid: 0, Newfid: 1, Names: []string{"f1"}}, {Kind: "open", Fid: 1, Mode: uint8(m)}}, m < 4 || m == 0x10 || m == 0x11 || m == 0x13 || m == 0x40})
	}
	return ss
}

func requests(msize uint32, wide bool) []Act {
	var rs []Act
	rs = append(rs, Act{Kind: "walk", Fid: 1, Newfid: 2, Err: true}, Act{Kind: "walk", Fid: 1, Newfid: 2, Names: []string{"d1"}, Err: true},
		Act{Kind: "walk", Fid: 1, Newfid: 1, Names: []string{"d1"}, Err: true}, Act{Kind: "walk", Fid: 1, Newfid: 0, Names: []string{"d1"}, Err: true})
	counts := []uint32{0, 1, msize - 25, msize - 24, msize - 23, 1 << 31, 0xFFFFFFE8, 0xFFFFFFE9, 0xFFFFFFF0, 0xFFFFFFFE, 0xFFFFFFFF}
	for _, c := range counts {
		rs = append(rs, Act{Kind: "read", Fid: 1, Count: c})
	}
	for _, c := range []uint32{0, 1, msize - 25, msize - 24, msize - 23} {
		rs = append(rs, Act{Kind: "write", Fid: 1, Count: c})
	}
	modes := []uint8{0, 1}
	if wide {
		modes = nil
		for m := 0; m < 256; m++ {
			modes = append(modes, uint8(m))
		}
	}
	for _, m := range modes {
		rs = append(rs, Act{Kind: "open", Fid: 1, Mode: m, Err: true})
	}
	perms := []uint32{0o644}
	cmodes := []uint8{0, 1}
	if wide {
		perms = []uint32{0o644, 0x80000000 | 0o755, 0x02000000 | 0o777, 0x01000000, 0x00800000, 0x00200000, 0x00100000, 0x80000000 | 0x02000000}
		cmodes = []uint8{0, 1, 2, 3, 0x10, 0x11, 0x40, 0x80}
	}
	for _, p := range perms {
		for _, m := range cmodes {
			rs = append(rs, Act{Kind: "create", Fid: 1, Perm: p, Mode: m, Err: true})
		}
	}
	return rs
}

func TestEnumStateRequestTable(t *testing.T) {
	idx := 0
	pairs := 0
	for _, dotu := range []bool{false, true} {
		for _, auth := range []bool{false, true} {
			for _, st := range states(auth) {
				idx++
				if hx.NShards > 1 && idx%hx.NShards != hx.Shard {
					continue
				}
				const msize = 256
				c := &Case{Dotu: dotu, Auth: auth, Msize: msize}
				c.Actions = append(c.Actions, Act{Kind: "attach", Fid: 0, Afid: ref9p.NOFID, User: "alice"})
				c.Actions = append(c.Actions, st.setup...)
				reqs := requests(msize, st.wide)
				c.Actions = append(c.Actions, reqs...)
				pairs += len(reqs)
				hx.Label("table state=" + map[bool]string{true: st.name, false: "file-open-*"}[st.wide])
				hx.NonTrivial("table", dotu, auth, st.name)
				if err := execute("table", c); err != nil {
					hx.Violation("table", c, err.Error())
					t.Fatalf("state %s dotu=%v auth=%v: %v", st.name, dotu, auth, err)
				}
				// malformed Twrite frames: count field vs payload
				for _, cnt := range []uint32{1, msize - 24, 1 << 31, 0xFFFFFFE8, 0xFFFFFFFF} {
					c2 := &Case{Dotu: dotu, Auth: auth, Msize: msize}
					c2.Actions = append(c2.Actions, Act{Kind: "attach", Fid: 0, Afid: ref9p.NOFID, User: "alice"})
					c2.Actions = append(c2.Actions, st.setup...)
					c2.Actions = append(c2.Actions, Act{Kind: "write", Fid: 1, Count: cnt, Raw: true, Len: 3})
					if !st.wide && cnt != 0xFFFFFFFF {
						continue
					}
					pairs++
					if err := execute("table", c2); err != nil {
						hx.Violation("table", c2, err.Error())
						t.Fatalf("state %s dotu=%v auth=%v malformed Twrite count %d: %v", st.name, dotu, auth, cnt, err)
					}
				}
			}
		}
	}
	hx.ExtraAdd("table_pairs", int64(pairs))
	hx.Exhaustive("(fid state, request) table: states {absent, dir, dir-open, file, auth, file open with each of the 256 mode bytes} x requests {walk clone/by name/in place/onto a valid newfid, open with all 256 modes, create 8 perms x 8 modes, read 11 counts, write 5 counts + 5 malformed count/payload frames} x 2 dialects x AuthOps on/off (narrow request set for the 247 uninteresting open modes)")
}

// ---------------------------------------------------------------------------
// count rules after Tversion steps in mid-session

// ioRequests are reads and writes whose counts lie around the limit of the msize
// in force (eff) and of the msize that was in force before (old), plus the
// 32-bit extremes. Writes are only built when their frame fits eff.
func ioRequests(eff, old uint32) []Act {
	var rs []Act
	seen := map[uint32]bool{}
	add := func(kind string, c int64) {
		if c < 0 || c > 0xFFFFFFFF {
			return
		}
		if kind == "write" && c > int64(eff)-23 {
			return
		}
		if kind == "read" {
			if seen[uint32(c)] {
				return
			}
			seen[uint32(c)] = true
		}
		rs = append(rs, Act{Kind: kind, Fid: 1, Count: uint32(c)})
	}
	for _, c := range []int64{0, 1, int64(eff) - 25, int64(eff) - 24, int64(eff) - 23, int64(old) - 24, int64(old) - 23, 8192 - 24, 8192 - 23, 100000, 1 << 31, 0xFFFFFFE8, 0xFFFFFFE9, 0xFFFFFFFF} {
		add("read", c)
	}
	for _, c := range []int64{0, 1, int64(eff) - 25, int64(eff) - 24, int64(eff) - 23} {
		add("write", c)
	}
	return rs
}

func TestEnumCountsAfterVersion(t *testing.T) {
	const msize = 256
	type vseq struct {
		name  string
		steps []uint32
	}
	var seqs []vseq
	for v := int(model.IOHDRSZ) - 1; v >= 0; v-- { // IOHDRSZ-1 first: the refusal closest to an acceptable offer
		seqs = append(seqs, vseq{"refused", []uint32{uint32(v)}})
	}
	for _, v := range []uint32{24, 25, 48, 100, msize - 1, msize, msize + 1, 8192, 0xFFFFFFFF} {
		seqs = append(seqs, vseq{"accepted", []uint32{v}})
	}
	seqs = append(seqs, vseq{"lowered-then-refused", []uint32{100, 23}}, vseq{"refused-twice", []uint32{23, 23}}, vseq{"refused-then-lowered", []uint32{5, 64}},
		vseq{"lowered-then-refused", []uint32{24, 23}}, vseq{"lowered-twice", []uint32{200, 64}}, vseq{"lowered-then-higher", []uint32{64, 200}}, vseq{"refused-then-same", []uint32{23, msize}})
	fileOpen := func(m uint8) []Act {
		return []Act{{Kind: "walk", Fid: 0, Newfid: 1, Names: []string{"f1"}}, {Kind: "open", Fid: 1, Mode: m}}
	}
	sts := []stateSpec{
		{"file", []Act{{Kind: "walk", Fid: 0, Newfid: 1, Names: []string{"f1"}}}, true},
		{"dir-open", []Act{{Kind: "walk", Fid: 0, Newfid: 1, Names: []string{"d1"}}, {Kind: "open", Fid: 1, Mode: 0}}, true},
		{"file-open-0x00", fileOpen(0), true}, {"file-open-0x01", fileOpen(1), true}, {"file-open-0x02", fileOpen(2), true}, {"file-open-0x11", fileOpen(0x11), true},
		{"auth", []Act{{Kind: "auth", Fid: 1, Afid: 1, User: "alice"}}, true},
	}
	idx, pairs, failed := 0, 0, 0
	for _, dotu := range []bool{false, true} {
		for _, auth := range []bool{false, true} {
			for _, st := range sts {
				if st.name == "auth" && !auth {
					continue
				}
				for _, sq := range seqs {
					idx++
					if hx.NShards > 1 && idx%hx.NShards != hx.Shard {
						continue
					}
					c := &Case{Dotu: dotu, Auth: auth, Msize: msize}
					c.Actions = append(c.Actions, Act{Kind: "attach", Fid: 0, Afid: ref9p.NOFID, User: "alice"})
					c.Actions = append(c.Actions, st.setup...)
					eff := uint32(msize)
					for _, v := range sq.steps {
						old := eff
						if v >= model.IOHDRSZ && v < eff {
							eff = v
						}
						c.Actions = append(c.Actions, Act{Kind: "version", VMsize: v})
						reqs := ioRequests(eff, old)
						pairs += len(reqs)
						c.Actions = append(c.Actions, reqs...)
					}
					hx.Label("counts after Tversion: " + sq.name)
					hx.NonTrivial("version-counts", dotu, auth, st.name, sq.steps)
					if err := execute("version-counts", c); err != nil {
						hx.Violation("version-counts", c, err.Error())
						t.Errorf("state %s dotu=%v auth=%v Tversion msizes %v: %v", st.name, dotu, auth, sq.steps, err)
						if failed++; failed >= 3 {
							t.FailNow()
						}
					}
				}
			}
		}
	}
	hx.ExtraAdd("version_count_pairs", int64(pairs))
	hx.Exhaustive("count rules after mid-session Tversion steps at quiescence: states {file, dir-open, file open 0x00/0x01/0x02/0x11, auth} x {one refused Tversion with each msize 0..23, one accepted with msize 24, 25, 48, 100, 255, 256, 257, 8192, 2^32-1, 7 two-step sequences} x reads (up to 14 counts around the limit in force, the former limit, the server's own limit and the 32-bit extremes) and writes (up to 5 counts) x 2 dialects x AuthOps on/off")
}

// ---------------------------------------------------------------------------
// the authentication gate, for every kind of error value AuthCheck may refuse with

func TestEnumAuthGate(t *testing.T) {
	idx := 0
	gate := append([]string{"deny", "denyplain-2", "denywrapped", "denyvalue-x", "den", "xdeny"}, anames...)
	for _, dotu := range []bool{false, true} {
		for _, auth := range []bool{false, true} {
			for _, aname := range gate {
				for _, afid := range []uint32{ref9p.NOFID, 1, 2, 0, 7} { // none, alice's auth fid, bob's auth fid, a file-tree fid, an unknown fid
					for _, user := range []string{"alice", "bob"} {
						idx++
						if hx.NShards > 1 && idx%hx.NShards != hx.Shard {
							continue
						}
						c := &Case{Dotu: dotu, Auth: auth, Msize: 256}
						c.Actions = []Act{
							{Kind: "attach", Fid: 0, Afid: ref9p.NOFID, User: "alice"},
							{Kind: "auth", Fid: 1, Afid: 1, User: "alice"},
							{Kind: "auth", Fid: 2, Afid: 2, User: "bob"},
							{Kind: "attach", Fid: 3, Afid: afid, User: user, Aname: aname},
							{Kind: "stat", Fid: 3}, {Kind: "walk", Fid: 3, Newfid: 4}, {Kind: "clunk", Fid: 3},
							{Kind: "attach", Fid: 3, Afid: afid, User: user, Aname: aname}, // the same attach once more
							{Kind: "stat", Fid: 3},
							{Kind: "attach", Fid: 5, Afid: afid, User: user, Aname: "tree"}, // and one the check accepts
							{Kind: "attach", Fid: 6, Afid: afid, User: user, Aname: aname},
							{Kind: "stat", Fid: 6},
						}
						hx.Label(fmt.Sprintf("auth gate auth=%v", auth))
						hx.NonTrivial("auth-gate", dotu, auth, aname, afid, user)
						if err := execute("auth-gate", c); err != nil {
							hx.Violation("auth-gate", c, err.Error())
							t.Fatalf("dotu=%v auth=%v aname %q afid %d user %s: %v", dotu, auth, aname, afid, user, err)
						}
					}
				}
			}
		}
	}
	hx.Exhaustive("authentication gate: anames {accepted: \"\", tree, den, xdeny; refused with *go9p.Error: deny, deny-me; with errors.New: denyplain, denyplain-2; with fmt.Errorf %w: denywrapped, denywrapped-key; with a value error type: denyvalue, denyvalue-x} x afid {NOFID, own auth fid, another user's auth fid, a file-tree fid, unknown} x 2 users x 2 dialects x AuthOps on/off, each attach sent three times with an accepted one in between")
}

var names = []string{"d1", "d2", "f1", "x1", "l1"}

// anames: AuthCheck of the scripted implementation refuses every aname that
// begins with "deny"; the rest of the name picks the dynamic type of the error
// value (deny: *go9p.Error, denyplain: errors.New, denywrapped: fmt.Errorf with
// %w, denyvalue: a non-pointer error type).
var anames = []string{"", "tree", "deny-me", "denyplain", "denywrapped-key", "denyvalue"}

// floorMsize is the smallest msize a history renegotiates down to: every frame
// and every scripted answer of a history fits it.
const floorMsize = 128

// genAct draws one step; msize is the msize the generator expects to be in
// force at that point (the counts are placed around its limit).
func genAct(t *rapid.T, msize uint32) Act {
	fidg := rapid.SampledFrom([]uint32{0, 1, 2, 3})
	a := Act{}
	a.Kind = rapid.SampledFrom([]string{"attach", "auth", "walk", "walk", "walk", "open", "open", "create", "create", "read", "read", "write", "write", "stat", "wstat", "clunk", "remove", "version"}).Draw(t, "kind")
	a.Fid = fidg.Draw(t, "fid")
	a.Err = rapid.IntRange(0, 5).Draw(t, "err") == 0
	a.Hold = rapid.IntRange(0, 7).Draw(t, "hold") == 0
	switch a.Kind {
	case "attach":
		a.Afid = rapid.OneOf(rapid.Just(uint32(ref9p.NOFID)), fidg).Draw(t, "afid")
		a.User = rapid.SampledFrom([]string{"alice", "bob", "root", "mallory"}).Draw(t, "user")
		a.Aname = rapid.SampledFrom(anames).Draw(t, "aname")
	case "version":
		a.Fid, a.Err, a.Hold = 0, false, false
		gens := []*rapid.Generator[uint32]{
			rapid.SampledFrom([]uint32{model.IOHDRSZ - 1, model.IOHDRSZ - 1, model.IOHDRSZ - 2, 0, 1}), // refused, at the edge
			rapid.Uint32Range(0, model.IOHDRSZ-1),                                                       // refused
			rapid.SampledFrom([]uint32{msize, msize + 1, 8192, 65536, 0xFFFFFFFF}),                      // accepted, msize stays
		}
		if msize > floorMsize {
			gens = append(gens, rapid.Uint32Range(floorMsize, msize-1), rapid.SampledFrom([]uint32{msize - 1, floorMsize})) // accepted, msize lowered
		}
		a.VMsize = rapid.OneOf(gens...).Draw(t, "vmsize")
		a.Ver = rapid.SampledFrom([]string{"", "", "", "", "9P2000", "9P2000.u"}).Draw(t, "ver")
	case "auth":
		a.Afid = a.Fid
		a.User = rapid.SampledFrom([]string{"alice", "bob", "mallory"}).Draw(t, "user")
	case "walk":
		a.Newfid = rapid.OneOf(rapid.Just(a.Fid), fidg).Draw(t, "newfid")
		a.Names = rapid.SliceOfN(rapid.SampledFrom(names), 0, 4).Draw(t, "names")
	case "open":
		a.Mode = rapid.OneOf(rapid.SampledFrom([]uint8{0, 1, 2, 3, 0x10, 0x11, 0x12, 0x13, 0x40, 0x41}), rapid.Uint8()).Draw(t, "mode")
	case "create":
		a.Mode = rapid.OneOf(rapid.SampledFrom([]uint8{0, 1, 2, 3, 0x11}), rapid.Uint8()).Draw(t, "mode")
		a.Perm = rapid.SampledFrom([]uint32{0o644, 0o600, 0x80000000 | 0o755, 0x02000000 | 0o777, 0x01000000, 0x00800000, 0x00200000, 0x00100000}).Draw(t, "perm")
	case "read":
		a.Count = rapid.SampledFrom([]uint32{0, 1, 100, msize - 25, msize - 24, msize - 23, 1 << 31, 0xFFFFFFE8, 0xFFFFFFF0, 0xFFFFFFFF}).Draw(t, "count")
	case "write":
		a.Count = rapid.SampledFrom([]uint32{0, 1, 100, msize - 25, msize - 24, msize - 23}).Draw(t, "count")
	}
	return a
}

func TestPropHistories(t *testing.T) {
	hx.Check(t, "histories", hx.N(800, 8000), func(t *rapid.T) {
		c := &Case{Dotu: rapid.Bool().Draw(t, "dotu"), Auth: rapid.Bool().Draw(t, "auth"), Msize: rapid.SampledFrom([]uint32{128, 256, 1024, 4096}).Draw(t, "msize")}
		c.SrvMsize = rapid.SampledFrom([]uint32{0, 0, c.Msize, 65536}).Draw(t, "srvmsize")
		cur := c.Msize // the msize the generator expects to be in force (the server's own is never smaller here)
		n := rapid.IntRange(5, 40).Draw(t, "n")
		if rapid.IntRange(0, 9).Draw(t, "prime") > 0 {
			c.Actions = append(c.Actions, Act{Kind: "attach", Fid: 0, Afid: ref9p.NOFID, User: rapid.SampledFrom([]string{"alice", "bob"}).Draw(t, "u0")})
		}
		nver := 0
		for i := 0; i < n; i++ {
			a := genAct(t, cur)
			if a.Kind == "version" {
				nver++
				if a.VMsize >= model.IOHDRSZ && a.VMsize < cur {
					cur = a.VMsize
				}
			}
			c.Actions = append(c.Actions, a)
		}
		// classification by replaying on the model is done by the runner's counters
		b, _ := json.Marshal(c)
		before := int64(0)
		_ = before
		err := execute("histories", c)
		if err != nil {
			hx.Failf(t, "histories", c, "%v", err)
		}
		hx.NonTrivial(b)
		hx.Label(fmt.Sprintf("history dotu=%v auth=%v msize=%d", c.Dotu, c.Auth, c.Msize))
		hx.Label(fmt.Sprintf("history with %d Tversion steps", min(nver, 4)))
	})
	_ = model.Must
}

func TestReplay(t *testing.T) {
	e, err := hx.LoadReplay()
	if e == nil {
		t.Skip("no replay file", err)
	}
	replayEnv(t, e)
}

func replayEnv(t *testing.T, e *hx.Envelope) {
	var c Case
	if err := json.Unmarshal(e.Case, &c); err != nil {
		t.Fatalf("bad case: %v", err)
	}
	if err := execute(e.Test, &c); err != nil {
		hx.Violation(e.Test, &c, err.Error())
		t.Fatalf("%v", err)
	}
}

func TestRegress(t *testing.T) {
	for _, e := range hx.Regressions() {
		replayEnv(t, e)
		hx.Label("regress")
	}
}
